/-
  C16 — the Lean zenithal WCS, part 2: the native↔celestial rotation is an orthogonal involution, and
  the (ra, dec) ↔ unit-vector step is inverted exactly.
-/
import Aegean.Proofs.C16Minor

set_option linter.unusedSimpArgs false

namespace Aegean.C16
open Aegean.Model.C16 Real

abbrev V3 := ℝ × ℝ × ℝ

/-- a unit vector -/
def Unit3 (v : V3) : Prop := v.1 ^ 2 + v.2.1 ^ 2 + v.2.2 ^ 2 = 1

def dot3 (v w : V3) : ℝ := v.1 * w.1 + v.2.1 * w.2.1 + v.2.2 * w.2.2

/-! ### orthogonality of the rotation (Paper II eqs. 2 and 5 are the same matrix) -/

/-- **the rotation is its own inverse** (for `sin² δ_p + cos² δ_p = 1`): eq. 5 undoes eq. 2 -/
theorem rotA_involutive (sp cp : ℝ) (h : sp ^ 2 + cp ^ 2 = 1) (v : V3) : rotA sp cp (rotA sp cp v) = v := by
  obtain ⟨a, b, c⟩ := v
  simp only [rotA, Prod.mk.injEq]
  exact ⟨by linear_combination a * h, by ring, by linear_combination c * h⟩

/-- **the rotation is orthogonal**: it preserves the scalar product of any two vectors -/
theorem rotA_dot (sp cp : ℝ) (h : sp ^ 2 + cp ^ 2 = 1) (v w : V3) :
    dot3 (rotA sp cp v) (rotA sp cp w) = dot3 v w := by
  obtain ⟨a, b, c⟩ := v
  obtain ⟨a', b', c'⟩ := w
  simp only [rotA, dot3]
  linear_combination (a * a' + c * c') * h

theorem rotA_unit (sp cp : ℝ) (h : sp ^ 2 + cp ^ 2 = 1) (v : V3) (hv : Unit3 v) : Unit3 (rotA sp cp v) := by
  have := rotA_dot sp cp h v v
  simp only [dot3, Unit3] at *
  nlinarith [this, hv]

theorem sin_cos_radians_sq (x : ℝ) : (R.sin (R.radians x) : ℝ) ^ 2 + (R.cos (R.radians x) : ℝ) ^ 2 = 1 := by
  simp only [R.real_sin, R.real_cos]; exact Real.sin_sq_add_cos_sq _

/-! ### angles of unit complex numbers -/

theorem arg_unit (u v : ℝ) (h : u ^ 2 + v ^ 2 = 1) :
    Real.cos (Complex.arg ⟨u, v⟩) = u ∧ Real.sin (Complex.arg ⟨u, v⟩) = v := by
  have h1 := polar_re u v
  have h2 := polar_im u v
  rw [h, Real.sqrt_one, one_mul] at h1 h2
  exact ⟨h1, h2⟩

theorem arg_cos_sin (z : ℝ) (h1 : -π < z) (h2 : z ≤ π) : Complex.arg ⟨Real.cos z, Real.sin z⟩ = z := by
  have e : (⟨Real.cos z, Real.sin z⟩ : ℂ) = Complex.cos z + Complex.sin z * Complex.I := by
    apply Complex.ext <;> simp [← Complex.ofReal_cos, ← Complex.ofReal_sin]
  rw [e]; exact Complex.arg_cos_add_sin_mul_I ⟨h1, h2⟩

theorem degrees_radians (x : ℝ) : (R.degrees (R.radians x) : ℝ) = x := by
  simp only [R.real_radians, R.real_degrees]; field_simp

/-! ### (ra, dec) ↔ unit vector -/

/-- every unit vector (the poles included) is recovered from the (ra, dec) it is sent to -/
theorem skyToVec_vecToSky (crval1 : ℝ) (c : V3) (hc : Unit3 c) :
    skyToVec crval1 (vecToSky crval1 c).1 (vecToSky crval1 c).2 = c := by
  obtain ⟨c1, c2, c3⟩ := c
  simp only [Unit3] at hc
  simp only [skyToVec, vecToSky, add_sub_cancel_left, radians_degrees, hypot_sq, R.real_cos, R.real_sin,
    R.real_atan2]
  have hρ : Real.sqrt (c1 ^ 2 + c2 ^ 2) ^ 2 + c3 ^ 2 = 1 := by
    rw [Real.sq_sqrt (by positivity)]; exact hc
  obtain ⟨hcD, hsD⟩ := arg_unit _ _ hρ
  rw [hcD, hsD, polar_re, polar_im]

/-- off the poles, (ra, dec) is recovered from its unit vector, the right ascension up to whole turns -/
theorem vecToSky_skyToVec (crval1 ra dec : ℝ) (hd : |dec| < 90) :
    ∃ k : ℤ, vecToSky crval1 (skyToVec crval1 ra dec) = (ra + 360 * k, dec) := by
  have hp := Real.pi_pos
  obtain ⟨hd1, hd2⟩ := abs_lt.mp hd
  set d : ℝ := R.radians dec with hdef
  have hdr : d = dec * (π / 180) := by rw [hdef, R.real_radians]
  have hd_lo : -(π / 2) < d := by rw [hdr]; nlinarith
  have hd_hi : d < π / 2 := by rw [hdr]; nlinarith
  have hcd : 0 < Real.cos d := Real.cos_pos_of_mem_Ioo ⟨hd_lo, hd_hi⟩
  set da : ℝ := R.radians (ra - crval1) with hda
  obtain ⟨k, hk⟩ := arg_polar (Real.cos d) da hcd
  refine ⟨k, ?_⟩
  simp only [vecToSky, skyToVec, hypot_sq, R.real_cos, R.real_sin, R.real_atan2, ← hdef, ← hda]
  have hlen : Real.sqrt ((Real.cos d * Real.cos da) ^ 2 + (Real.cos d * Real.sin da) ^ 2) = Real.cos d := by
    have : (Real.cos d * Real.cos da) ^ 2 + (Real.cos d * Real.sin da) ^ 2 = Real.cos d ^ 2 := by
      nlinarith [Real.sin_sq_add_cos_sq da]
    rw [this, Real.sqrt_sq hcd.le]
  rw [hlen, hk, arg_cos_sin d (by linarith) (by linarith)]
  refine Prod.ext ?_ ?_
  · simp only [hda, R.real_radians, R.real_degrees]; field_simp; ring
  · simp only [hdef]; exact degrees_radians dec

end Aegean.C16
