/-
  C08 — `_renorm`: one loop iteration preserves coverage, validity, set-ness and "no deepest pixel
  covered twice"; it leaves its own level without complete quads.  Core Lean only.
-/
import Aegean.Proofs.C08Demote

namespace Aegean.Proofs.C08
open Aegean.Model.C08

theorem mem_promoted {l : List Nat} {y : Nat} :
    y ∈ promoted l ↔ (4 * y ∈ l ∧ 4 * y + 1 ∈ l ∧ 4 * y + 2 ∈ l ∧ 4 * y + 3 ∈ l) := by
  simp only [promoted, List.mem_map, List.mem_filter, Bool.and_eq_true, beq_iff_eq, complete_iff,
    completeP]
  constructor
  · rintro ⟨p, ⟨_, hp4, h0, h1, h2, h3⟩, rfl⟩
    exact ⟨h0, h1, h2, h3⟩
  · rintro ⟨h0, h1, h2, h3⟩
    have e : 4 * (4 * y / 4) = 4 * y := by omega
    refine ⟨4 * y, ⟨h0, by omega, ?_⟩, by omega⟩
    rw [e]; exact ⟨h0, h1, h2, h3⟩

theorem mem_promoted_div {l : List Nat} {x : Nat} : x / 4 ∈ promoted l ↔ completeP l x := by
  rw [mem_promoted]; rfl

theorem mem_of_completeP {l : List Nat} {x : Nat} (h : completeP l x) : x ∈ l := by
  obtain ⟨h0, h1, h2, h3⟩ := h
  have : x = 4 * (x / 4) ∨ x = 4 * (x / 4) + 1 ∨ x = 4 * (x / 4) + 2 ∨ x = 4 * (x / 4) + 3 := by omega
  rcases this with e | e | e | e <;> rw [e] <;> assumption

/-- coverage at the two levels touched by iteration `d` of the `_renorm` loop -/
theorem cov_renormStep_self {m d : Nat} (pd : Nat → List Nat) (hd1 : 1 ≤ d) (q : Nat) :
    covP m (renormStep pd d) d q ↔ (covP m pd d q ∧ ¬ completeP (pd d) (q / 4 ^ (m - d))) := by
  unfold covP renormStep
  have e : d ≠ d - 1 := by omega
  simp only [setLevel, if_neg e, if_true, List.mem_filter, Bool.not_eq_true', complete_false_iff]

theorem cov_renormStep_up {m d : Nat} (pd : Nat → List Nat) (hd1 : 1 ≤ d) (hdm : d ≤ m) (q : Nat) :
    covP m (renormStep pd d) (d - 1) q ↔
      (covP m pd (d - 1) q ∨ completeP (pd d) (q / 4 ^ (m - d))) := by
  unfold covP renormStep
  have e : m - (d - 1) = (m - d) + 1 := by omega
  simp only [setLevel, if_true, mem_dedup, List.mem_append]
  rw [e, div_pow_succ, mem_promoted_div]

theorem cov_renormStep_other {m d k : Nat} (pd : Nat → List Nat) (h1 : k ≠ d) (h2 : k ≠ d - 1) (q : Nat) :
    covP m (renormStep pd d) k q ↔ covP m pd k q := by
  unfold covP renormStep
  simp only [setLevel, if_neg h1, if_neg h2]

theorem renormStep_other {d k : Nat} (pd : Nat → List Nat) (h1 : k ≠ d) (h2 : k ≠ d - 1) :
    renormStep pd d k = pd k := by
  unfold renormStep
  simp only [setLevel, if_neg h1, if_neg h2]

theorem abs_renormStep {m d : Nat} (pd : Nat → List Nat) (hd : 2 ≤ d) (hdm : d ≤ m) (q : Nat) :
    absP m (renormStep pd d) q ↔ absP m pd q := by
  have hd1 : 1 ≤ d := by omega
  unfold absP
  constructor
  · rintro ⟨k, hk1, hk2, hc⟩
    by_cases e1 : k = d
    · subst e1
      rw [cov_renormStep_self pd hd1] at hc
      exact ⟨k, hk1, hk2, hc.1⟩
    · by_cases e2 : k = d - 1
      · subst e2
        rw [cov_renormStep_up pd hd1 hdm] at hc
        rcases hc with hc | hc
        · exact ⟨_, hk1, hk2, hc⟩
        · exact ⟨d, hd1, hdm, mem_of_completeP hc⟩
      · rw [cov_renormStep_other pd e1 e2] at hc
        exact ⟨k, hk1, hk2, hc⟩
  · rintro ⟨k, hk1, hk2, hc⟩
    by_cases e1 : k = d
    · subst e1
      by_cases hcomp : completeP (pd k) (q / 4 ^ (m - k))
      · refine ⟨k - 1, by omega, by omega, ?_⟩
        rw [cov_renormStep_up pd hd1 hdm]
        exact Or.inr hcomp
      · refine ⟨k, hk1, hk2, ?_⟩
        rw [cov_renormStep_self pd hd1]
        exact ⟨hc, hcomp⟩
    · by_cases e2 : k = d - 1
      · subst e2
        refine ⟨_, hk1, hk2, ?_⟩
        rw [cov_renormStep_up pd hd1 hdm]
        exact Or.inl hc
      · refine ⟨k, hk1, hk2, ?_⟩
        rw [cov_renormStep_other pd e1 e2]
        exact hc

theorem nodup_renormStep {pd : Nat → List Nat} (d : Nat) (h : NodupP pd) : NodupP (renormStep pd d) := by
  intro k
  unfold renormStep setLevel
  by_cases h2 : k = d - 1
  · simp only [if_pos h2]; exact nodup_dedup _
  · by_cases h1 : k = d
    · simp only [if_neg h2, if_pos h1]; exact nodup_filter _ (h d)
    · simp only [if_neg h2, if_neg h1]; exact h k

theorem range_renormStep {m d : Nat} {pd : Nat → List Nat} (hd : 2 ≤ d) (hdm : d ≤ m)
    (h : RangeP m pd) : RangeP m (renormStep pd d) := by
  intro k p hp
  unfold renormStep setLevel at hp
  by_cases e2 : k = d - 1
  · simp only [if_pos e2, mem_dedup, List.mem_append, mem_promoted] at hp
    rcases hp with hp | hp
    · have := h _ _ hp; subst e2; exact this
    · have := (h _ _ hp.1).2.2
      subst e2
      refine ⟨by omega, by omega, ?_⟩
      have e : d = (d - 1) + 1 := by omega
      rw [e, Nat.pow_succ] at this
      omega
  · by_cases e1 : k = d
    · simp only [if_neg e2, if_pos e1, List.mem_filter] at hp
      have := h _ _ hp.1; subst e1; exact this
    · simp only [if_neg e2, if_neg e1] at hp
      exact h _ _ hp

theorem noDC_renormStep {m d : Nat} {pd : Nat → List Nat} (hd : 2 ≤ d) (hdm : d ≤ m)
    (h : NoDCP m pd) : NoDCP m (renormStep pd d) := by
  have hd1 : 1 ≤ d := by omega
  -- new coverage at any level implies old coverage at that level, or (one level up) old coverage at `d`
  have key : ∀ k q, 1 ≤ k → k ≤ m → covP m (renormStep pd d) k q →
      (covP m pd k q ∧ (k = d → ¬ completeP (pd d) (q / 4 ^ (m - d)))) ∨
      (k = d - 1 ∧ completeP (pd d) (q / 4 ^ (m - d))) := by
    intro k q _ _ hc
    by_cases e1 : k = d
    · subst e1
      rw [cov_renormStep_self pd hd1] at hc
      exact Or.inl ⟨hc.1, fun _ => hc.2⟩
    · by_cases e2 : k = d - 1
      · subst e2
        rw [cov_renormStep_up pd hd1 hdm] at hc
        rcases hc with hc | hc
        · exact Or.inl ⟨hc, fun e => absurd e e1⟩
        · exact Or.inr ⟨rfl, hc⟩
      · rw [cov_renormStep_other pd e1 e2] at hc
        exact Or.inl ⟨hc, fun e => absurd e e1⟩
  intro q d1 d2 a1 a2 b1 b2 c1 c2
  rcases key d1 q a1 a2 c1 with ⟨o1, n1⟩ | ⟨e1, p1⟩ <;> rcases key d2 q b1 b2 c2 with ⟨o2, n2⟩ | ⟨e2, p2⟩
  · exact h q d1 d2 a1 a2 b1 b2 o1 o2
  · -- d2 = d-1 via a complete quad at level d; d1 is covered in the old dictionary
    have := h q d1 d a1 a2 hd1 hdm o1 (mem_of_completeP p2)
    exact absurd p2 (n1 this)
  · have := h q d2 d b1 b2 hd1 hdm o2 (mem_of_completeP p1)
    exact absurd p1 (n2 this)
  · omega

/-- after iteration `d`, level `d` holds no complete quad -/
theorem normalAt_renormStep {d : Nat} (pd : Nat → List Nat) (hd1 : 1 ≤ d) : NormalAt (renormStep pd d) d := by
  intro x hx
  have e : d ≠ d - 1 := by omega
  have hl : renormStep pd d d = (pd d).filter (fun x => !complete (pd d) x) := by
    unfold renormStep; simp only [setLevel, if_neg e, if_true]
  rw [hl] at hx ⊢
  rw [List.mem_filter] at hx
  rw [complete_false_iff]
  intro hc
  have hx2 := hx.2
  simp only [Bool.not_eq_true', complete_false_iff] at hx2
  apply hx2
  obtain ⟨h0, h1, h2, h3⟩ := hc
  exact ⟨(List.mem_filter.1 h0).1, (List.mem_filter.1 h1).1, (List.mem_filter.1 h2).1, (List.mem_filter.1 h3).1⟩

/-- the whole `_renorm` loop, iterations `d, d-1, …, d-n+1` (all ≥ 3) -/
theorem renormLoop_spec {m : Nat} : ∀ (n d : Nat) (pd : Nat → List Nat), d ≤ m → n + 2 ≤ d →
    RangeP m pd → NodupP pd → NoDCP m pd → (∀ k, d < k → k ≤ m → NormalAt pd k) →
    RangeP m (renormLoop pd d n) ∧ NodupP (renormLoop pd d n) ∧ NoDCP m (renormLoop pd d n) ∧
      (∀ q, absP m (renormLoop pd d n) q ↔ absP m pd q) ∧
      (∀ k, d - n < k → k ≤ m → NormalAt (renormLoop pd d n) k)
  | 0, d, pd, _, _, hr, hn, hc, hf => ⟨hr, hn, hc, fun _ => Iff.rfl, fun k hk hkm => hf k (by omega) hkm⟩
  | n + 1, d, pd, hdm, hnd, hr, hn, hc, hf => by
    have hd : 2 ≤ d := by omega
    have hf' : ∀ k, d - 1 < k → k ≤ m → NormalAt (renormStep pd d) k := by
      intro k hk hkm
      by_cases e : k = d
      · subst e; exact normalAt_renormStep pd (by omega)
      · have ek : renormStep pd d k = pd k := renormStep_other pd e (by omega)
        intro x hx
        rw [ek] at hx ⊢
        exact hf k (by omega) hkm x hx
    obtain ⟨a, b, c, e, f⟩ := renormLoop_spec n (d - 1) (renormStep pd d) (by omega) (by omega)
      (range_renormStep hd hdm hr) (nodup_renormStep d hn) (noDC_renormStep hd hdm hc) hf'
    refine ⟨a, b, c, fun q => ?_, fun k hk hkm => ?_⟩
    · rw [show renormLoop pd d (n + 1) = renormLoop (renormStep pd d) (d - 1) n from rfl, e q]
      exact abs_renormStep pd hd hdm q
    · exact f k (by omega) hkm

end Aegean.Proofs.C08
