/-
  C19 — the graph logic: soundness of the component-certificate checker, the bridge from row
  indices to catalogue members, and the consequences of "labels = connected components"
  (partition, same group ⇔ chain, independence of the row order).  Core Lean + `List.Nodup` lemmas.
-/
import Aegean.Model.C19
import Aegean.Spec.C19
import Aegean.Proofs.C19Chain

namespace Aegean.C19
open Aegean.Model.C19 Aegean.Spec.C19

/-! ### 1. What a successful check establishes -/

theorem allBelow_iff (n : Nat) (p : Nat → Bool) : allBelow n p = true ↔ ∀ i, i < n → p i = true := by
  simp [allBelow, List.all_eq_true, List.mem_range]

structure CheckFacts (n : Nat) (adj : Nat → Nat → Bool) (K : Nat) (c : Cert) : Prop where
  par_lt : ∀ i, i < n → c.par i < n
  lab_lt : ∀ i, i < n → c.lab i < K
  up : ∀ i, i < n → c.par i = i ∨
        (c.dep (c.par i) < c.dep i ∧ (adj i (c.par i) = true ∨ adj (c.par i) i = true) ∧
          c.lab (c.par i) = c.lab i)
  root : ∀ i, i < n → c.par i = i → c.root (c.lab i) = i
  closed : ∀ i, i < n → ∀ j, j < n → adj i j = true → c.lab i = c.lab j
  rootK : ∀ k, k < K → c.root k < n ∧ c.lab (c.root k) = k

theorem checkFacts {n : Nat} {adj : Nat → Nat → Bool} {K : Nat} {c : Cert}
    (h : checkComponents n adj K c = true) : CheckFacts n adj K c := by
  unfold checkComponents at h
  rw [Bool.and_eq_true, allBelow_iff, allBelow_iff] at h
  obtain ⟨h1, h2⟩ := h
  have h1' : ∀ i, i < n →
      (c.par i < n ∧ c.lab i < K) ∧
      (c.par i = i ∨ (c.dep (c.par i) < c.dep i ∧ (adj i (c.par i) = true ∨ adj (c.par i) i = true) ∧
          c.lab (c.par i) = c.lab i)) ∧
      (c.par i = i → c.root (c.lab i) = i) ∧
      (∀ j, j < n → adj i j = true → c.lab i = c.lab j) := by
    intro i hi
    have := h1 i hi
    simp only [Bool.and_eq_true, Bool.or_eq_true, decide_eq_true_eq, beq_iff_eq, bne_iff_ne,
      allBelow_iff, Bool.not_eq_true', ne_eq] at this
    obtain ⟨⟨⟨⟨a1, a2⟩, a3⟩, a4⟩, a5⟩ := this
    refine ⟨⟨a1, a2⟩, ?_, ?_, ?_⟩
    · rcases a3 with e | ⟨⟨d, l⟩, e⟩
      · exact Or.inl e
      · exact Or.inr ⟨d, l, e⟩
    · intro e
      rcases a4 with ne | r
      · exact absurd e ne
      · exact r
    · intro j hj hij
      rcases a5 j hj with f | e
      · rw [hij] at f; exact absurd f (by decide)
      · exact e
  refine ⟨fun i hi => (h1' i hi).1.1, fun i hi => (h1' i hi).1.2, fun i hi => (h1' i hi).2.1,
    fun i hi => (h1' i hi).2.2.1, fun i hi => (h1' i hi).2.2.2, ?_⟩
  intro k hk
  have := h2 k hk
  simp only [Bool.and_eq_true, decide_eq_true_eq, beq_iff_eq] at this
  exact this

/-- every row is joined by a chain to a root carrying its label -/
theorem chain_to_root {n : Nat} {adj : Nat → Nat → Bool} {K : Nat} {c : Cert}
    (F : CheckFacts n adj K c) :
    ∀ d i, i < n → c.dep i = d →
      ∃ r, r < n ∧ c.par r = r ∧ c.lab r = c.lab i ∧ Chain (RowLink n adj) i r := by
  intro d
  induction d using Nat.strongRecOn with
  | _ d ih =>
    intro i hi hd
    rcases F.up i hi with e | ⟨hlt, hl, hlab⟩
    · exact ⟨i, hi, e, rfl, .refl i⟩
    · have hp := F.par_lt i hi
      obtain ⟨r, hr, hpr, hlr, hch⟩ := ih (c.dep (c.par i)) (hd ▸ hlt) (c.par i) hp rfl
      exact ⟨r, hr, hpr, hlr.trans hlab, .step ⟨hi, hp, hl⟩ hch⟩

/-- **checkComponents_sound**: if the check passes, two rows carry the same label exactly when a
    chain of links joins them — the labels are exactly the connected components. -/
theorem checkComponents_sound {n : Nat} {adj : Nat → Nat → Bool} {K : Nat} {c : Cert}
    (h : checkComponents n adj K c = true) :
    ∀ i j, i < n → j < n → (c.lab i = c.lab j ↔ Chain (RowLink n adj) i j) := by
  have F := checkFacts h
  intro i j hi hj
  constructor
  · intro e
    obtain ⟨ri, hri, pri, lri, ci⟩ := chain_to_root F _ i hi rfl
    obtain ⟨rj, hrj, prj, lrj, cj⟩ := chain_to_root F _ j hj rfl
    have e1 : c.root (c.lab ri) = ri := F.root ri hri pri
    have e2 : c.root (c.lab rj) = rj := F.root rj hrj prj
    have : ri = rj := by rw [← e1, ← e2, lri, lrj, e]
    subst this
    exact ci.trans (cj.symm (rowLink_symm n adj))
  · intro ch
    refine Chain.const c.lab ?_ ch
    intro a b ⟨ha, hb, hab⟩
    rcases hab with f | f
    · exact F.closed a ha b hb f
    · exact (F.closed b hb a ha f).symm

/-! ### 2. From rows to catalogue members -/

theorem rowAdj_eq (link : Src → Src → Bool) (cat : List Src) (i j : Nat) (hi : i < cat.length)
    (hj : j < cat.length) : rowAdj link cat i j = link cat[i] cat[j] := by
  simp [rowAdj, hi, hj]

theorem chain_rows_of_members (link : Src → Src → Bool) (cat : List Src) {a b : Src}
    (h : Chain (SrcLink link cat) a b) :
    Chain (RowLink cat.length (rowAdj link cat)) (cat.idxOf a) (cat.idxOf b) := by
  refine Chain.map (fun s => cat.idxOf s) ?_ h
  intro x y ⟨hx, hy, hxy⟩
  have ix := List.idxOf_lt_length_of_mem hx
  have iy := List.idxOf_lt_length_of_mem hy
  refine ⟨ix, iy, ?_⟩
  rw [rowAdj_eq link cat _ _ ix iy, rowAdj_eq link cat _ _ iy ix]
  simpa [List.getElem_idxOf ix, List.getElem_idxOf iy] using hxy

theorem chain_members_of_rows (link : Src → Src → Bool) (cat : List Src) {i j : Nat}
    (h : Chain (RowLink cat.length (rowAdj link cat)) i j) :
    Chain (SrcLink link cat) (cat.getD i default) (cat.getD j default) := by
  refine Chain.map (fun i => cat.getD i default) ?_ h
  intro x y ⟨hx, hy, hxy⟩
  rw [rowAdj_eq link cat _ _ hx hy, rowAdj_eq link cat _ _ hy hx] at hxy
  have ex : cat.getD x default = cat[x] := by simp [List.getD_eq_getElem?_getD, hx]
  have ey : cat.getD y default = cat[y] := by simp [List.getD_eq_getElem?_getD, hy]
  show _ ∈ cat ∧ _ ∈ cat ∧ _
  rw [ex, ey]
  exact ⟨List.getElem_mem hx, List.getElem_mem hy, hxy⟩

theorem getD_idxOf (cat : List Src) {a : Src} (ha : a ∈ cat) : cat.getD (cat.idxOf a) default = a := by
  have ia := List.idxOf_lt_length_of_mem ha
  simp [List.getD_eq_getElem?_getD, ia]

/-- **isComponents_of_check**: a passing certificate on the rows of a duplicate-free catalogue
    gives the DBSCAN contract on its members, for the label function "label of my row". -/
theorem isComponents_of_check (link : Src → Src → Bool) (cat : List Src) (hnd : cat.Nodup)
    {K : Nat} {c : Cert} (h : checkComponents cat.length (rowAdj link cat) K c = true) :
    IsComponents link cat (fun s => c.lab (cat.idxOf s)) K := by
  have S := checkComponents_sound h
  have F := checkFacts h
  refine ⟨?_, ?_, ?_⟩
  · intro a b ha hb
    have ia := List.idxOf_lt_length_of_mem ha
    have ib := List.idxOf_lt_length_of_mem hb
    rw [S _ _ ia ib]
    constructor
    · intro ch
      have := chain_members_of_rows link cat ch
      rwa [getD_idxOf cat ha, getD_idxOf cat hb] at this
    · exact chain_rows_of_members link cat
  · intro a ha
    exact F.lab_lt _ (List.idxOf_lt_length_of_mem ha)
  · intro k hk
    obtain ⟨hr, hl⟩ := F.rootK k hk
    refine ⟨cat[c.root k], List.getElem_mem hr, ?_⟩
    show c.lab (cat.idxOf cat[c.root k]) = k
    rw [hnd.idxOf_getElem _ hr]; exact hl

/-! ### 3. Consequences of the contract -/

section contract
variable {σ : Type} {link : σ → σ → Bool} {cat : List σ} {lab : σ → Nat} {K : Nat}

theorem chain_perm {cat₁ cat₂ : List σ} (hp : cat₁.Perm cat₂) {a b : σ}
    (h : Chain (SrcLink link cat₁) a b) : Chain (SrcLink link cat₂) a b :=
  h.mono fun _ _ ⟨hx, hy, hxy⟩ => ⟨hp.mem_iff.mp hx, hp.mem_iff.mp hy, hxy⟩

/-- two catalogues with the same rows in a different order: "same label" is the same relation -/
theorem same_label_perm {cat₁ cat₂ : List σ} {lab₁ lab₂ : σ → Nat} {K₁ K₂ : Nat}
    (hp : cat₁.Perm cat₂) (H₁ : IsComponents link cat₁ lab₁ K₁) (H₂ : IsComponents link cat₂ lab₂ K₂)
    (a b : σ) (ha : a ∈ cat₁) (hb : b ∈ cat₁) : lab₁ a = lab₁ b ↔ lab₂ a = lab₂ b := by
  rw [H₁.comp a b ha hb, H₂.comp a b (hp.mem_iff.mp ha) (hp.mem_iff.mp hb)]
  exact ⟨chain_perm hp, chain_perm hp.symm⟩

theorem groupSets_perm {cat₁ cat₂ : List σ} {lab₁ lab₂ : σ → Nat} {K₁ K₂ : Nat}
    (hp : cat₁.Perm cat₂) (H₁ : IsComponents link cat₁ lab₁ K₁) (H₂ : IsComponents link cat₂ lab₂ K₂) :
    groupSets cat₁ lab₁ = groupSets cat₂ lab₂ := by
  funext g
  apply propext
  constructor
  · rintro ⟨a, ha, hg⟩
    refine ⟨a, hp.mem_iff.mp ha, fun b => ?_⟩
    rw [hg b]
    constructor
    · rintro ⟨hb, e⟩
      exact ⟨hp.mem_iff.mp hb, ((same_label_perm hp H₁ H₂ b a hb ha).mp e)⟩
    · rintro ⟨hb, e⟩
      have hb' := hp.mem_iff.mpr hb
      exact ⟨hb', ((same_label_perm hp H₁ H₂ b a hb' ha).mpr e)⟩
  · rintro ⟨a, ha, hg⟩
    have ha' := hp.mem_iff.mpr ha
    refine ⟨a, ha', fun b => ?_⟩
    rw [hg b]
    constructor
    · rintro ⟨hb, e⟩
      have hb' := hp.mem_iff.mpr hb
      exact ⟨hb', ((same_label_perm hp H₁ H₂ b a hb' ha').mpr e)⟩
    · rintro ⟨hb, e⟩
      exact ⟨hp.mem_iff.mp hb, ((same_label_perm hp H₁ H₂ b a hb ha').mp e)⟩

end contract

/-! ### 4. Groups as lists: a partition of the catalogue -/

theorem mem_groupRows (cat : List Src) (lab : Src → Nat) (k : Nat) (s : Src) :
    s ∈ groupRows cat lab k ↔ s ∈ cat ∧ lab s = k := by
  simp [groupRows]

/-- splitting off the members labelled `K` -/
theorem filter_lt_succ_perm (cat : List Src) (lab : Src → Nat) (K : Nat) :
    (cat.filter fun s => decide (lab s < K + 1)).Perm
      ((cat.filter fun s => decide (lab s < K)) ++ groupRows cat lab K) := by
  induction cat with
  | nil => simp [groupRows]
  | cons a t ih =>
    unfold groupRows at ih ⊢
    by_cases h1 : lab a < K
    · have h2 : lab a < K + 1 := by omega
      have h3 : ¬ lab a = K := by omega
      rw [List.filter_cons_of_pos (by simpa using h2), List.filter_cons_of_pos (by simpa using h1),
        List.filter_cons_of_neg (by simpa using h3)]
      exact ih.cons a
    · by_cases h3 : lab a = K
      · have h2 : lab a < K + 1 := by omega
        rw [List.filter_cons_of_pos (by simpa using h2), List.filter_cons_of_neg (by simpa using h1),
          List.filter_cons_of_pos (by simpa using h3)]
        exact (ih.cons a).trans List.perm_middle.symm
      · have h2 : ¬ lab a < K + 1 := by omega
        rw [List.filter_cons_of_neg (by simpa using h2), List.filter_cons_of_neg (by simpa using h1),
          List.filter_cons_of_neg (by simpa using h3)]
        exact ih

theorem flatMap_groupRows_perm (cat : List Src) (lab : Src → Nat) (K : Nat) :
    ((List.range K).flatMap (groupRows cat lab)).Perm (cat.filter fun s => decide (lab s < K)) := by
  induction K with
  | zero => simp
  | succ K ih =>
    rw [List.range_succ, List.flatMap_append]
    simp only [List.flatMap_cons, List.flatMap_nil, List.append_nil]
    exact (ih.append_right _).trans (filter_lt_succ_perm cat lab K).symm

/-- the groups, concatenated, are a rearrangement of the catalogue: every row appears, once -/
theorem groups_flatten_perm (cat : List Src) (lab : Src → Nat) (K : Nat)
    (hlt : ∀ a, a ∈ cat → lab a < K) :
    ((List.range K).flatMap (groupRows cat lab)).Perm cat := by
  refine (flatMap_groupRows_perm cat lab K).trans ?_
  rw [List.filter_eq_self.mpr]
  intro a ha
  simpa using hlt a ha

end Aegean.C19
