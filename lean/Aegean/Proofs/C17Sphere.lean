/-
  C17 — the sphere over ℝ.  Reusable lemmas (C16, C09, C19 import this file):

    `toE3 v`                      a `Vec3 ℝ` as a point of `EuclideanSpace ℝ (Fin 3)`
    `uvec ra dec`                 = `toE3 (unitVec ra dec)`, the unit vector of a sky position in DEGREES
    `norm_uvec`                   ‖uvec ra dec‖ = 1
    `inner_uvec`                  ⟪uvec p, uvec q⟫ = cos δ₁ cos δ₂ cos Δα + sin δ₁ sin δ₂
    `sphDist ra1 dec1 ra2 dec2`   = (180/π) · angle (uvec p) (uvec q)         (degrees)
    `sphDist_eq_arccos_dot`       = (180/π) · arccos (dot (unitVec p) (unitVec q))
    `havAHand_eq`                 haversine argument a = (1 − ⟪v₁,v₂⟫)/2
    `gcdNearHand_eq_sphDist`, `gcdFarHand_eq_sphDist`    both branches of the repaired gcd = sphDist
    `sphDist_comm / _nonneg / _le / _eq_zero_iff / _triangle`   the metric laws
    `two_arcsin_sqrt_hav`         2·arcsin(min 1 √((1−d)/2)) = arccos d  on [−1,1]
-/
import Aegean.Proofs.Real
import Aegean.Model.C17
import Mathlib.Geometry.Euclidean.Angle.Unoriented.TriangleInequality
import Mathlib.Analysis.InnerProductSpace.PiL2
import Mathlib.Tactic.Linarith
import Mathlib.Tactic.LinearCombination
import Mathlib.Tactic.FieldSimp
import Mathlib.Tactic.NormNum
import Mathlib.Tactic.Positivity

open Aegean.Model.C17 Real

namespace Aegean.C17

/-! ### half-angle and haversine identities (radians) -/

theorem sin_sq_half (x : ℝ) : sin (x / 2) ^ 2 = (1 - cos x) / 2 := by
  have h := Real.cos_sq (x / 2)
  have e : 2 * (x / 2) = x := by ring
  rw [e] at h
  have := Real.sin_sq_add_cos_sq (x / 2)
  linarith

theorem cos_sq_half (x : ℝ) : cos (x / 2) ^ 2 = (1 + cos x) / 2 := by
  have h := Real.cos_sq (x / 2)
  have e : 2 * (x / 2) = x := by ring
  rw [e] at h
  linarith

/-- haversine identity: `a = (1 − cos(separation))/2` -/
theorem hav_identity (p1 p2 l : ℝ) :
    sin ((p2 - p1) / 2) ^ 2 + cos p1 * cos p2 * sin (l / 2) ^ 2
      = (1 - (cos p1 * cos p2 * cos l + sin p1 * sin p2)) / 2 := by
  rw [sin_sq_half, sin_sq_half, Real.cos_sub]
  ring

/-- the complement used by the repaired `gcd`: `b = (1 + cos(separation))/2 = 1 − a` -/
theorem havB_identity (p1 p2 l : ℝ) :
    cos ((p2 - p1) / 2) ^ 2 * cos (l / 2) ^ 2 + sin ((p1 + p2) / 2) ^ 2 * sin (l / 2) ^ 2
      = (1 + (cos p1 * cos p2 * cos l + sin p1 * sin p2)) / 2 := by
  rw [sin_sq_half, sin_sq_half, cos_sq_half, cos_sq_half, Real.cos_sub, Real.cos_add]
  ring

/-- `2·arcsin(min 1 √((1-d)/2)) = arccos d` on `[-1, 1]` -/
theorem two_arcsin_sqrt_hav (d : ℝ) (h1 : -1 ≤ d) (h2 : d ≤ 1) :
    2 * arcsin (min 1 (√((1 - d) / 2))) = arccos d := by
  have ha1 : (1 - d) / 2 ≤ 1 := by linarith
  have hs : √((1 - d) / 2) ≤ 1 := Real.sqrt_le_one.mpr ha1
  rw [min_eq_right hs]
  have ht0 := Real.arccos_nonneg d
  have ht1 := Real.arccos_le_pi d
  have hc := Real.cos_arccos h1 h2
  have hh := Real.sin_half_eq_sqrt ht0 (by linarith [Real.pi_pos])
  rw [hc] at hh
  rw [← hh, Real.arcsin_sin (by linarith [Real.pi_pos]) (by linarith [Real.pi_pos])]
  ring

/-! ### unit vectors in Euclidean 3-space -/

abbrev E3 := EuclideanSpace ℝ (Fin 3)

noncomputable def toE3 (v : Vec3 ℝ) : E3 := !₂[v.x, v.y, v.z]

theorem inner_toE3 (a b : Vec3 ℝ) : inner ℝ (toE3 a) (toE3 b) = dot a b := by
  simp [toE3, dot, EuclideanSpace.inner_eq_star_dotProduct, Fin.sum_univ_three, dotProduct]
  ring

theorem toE3_injective : Function.Injective toE3 := by
  intro a b h
  have h0 := congrArg (fun v : E3 => v 0) h
  have h1 := congrArg (fun v : E3 => v 1) h
  have h2 := congrArg (fun v : E3 => v 2) h
  simp [toE3] at h0 h1 h2
  cases a; cases b; simp_all

/-- unit vector of (ra, dec), degrees -/
noncomputable def uvec (ra dec : ℝ) : E3 := toE3 (unitVec ra dec)

/-- the dot product of two unit vectors in terms of the coordinates (degrees → radians inside) -/
theorem dot_unitVec (ra1 dec1 ra2 dec2 : ℝ) :
    dot (unitVec ra1 dec1) (unitVec ra2 dec2)
      = cos (R.radians dec1) * cos (R.radians dec2) * cos (R.radians ra2 - R.radians ra1)
        + sin (R.radians dec1) * sin (R.radians dec2) := by
  simp only [dot, unitVec, R.real_sin, R.real_cos, Real.cos_sub]
  ring

theorem dot_unitVec_self (ra dec : ℝ) : dot (unitVec ra dec) (unitVec ra dec) = 1 := by
  simp only [dot, unitVec, R.real_sin, R.real_cos]
  have h1 := Real.sin_sq_add_cos_sq (R.radians ra)
  have h2 := Real.sin_sq_add_cos_sq (R.radians dec)
  linear_combination (cos (R.radians dec)) ^ 2 * h1 + h2

theorem inner_uvec (ra1 dec1 ra2 dec2 : ℝ) :
    inner ℝ (uvec ra1 dec1) (uvec ra2 dec2) = dot (unitVec ra1 dec1) (unitVec ra2 dec2) :=
  inner_toE3 _ _

theorem norm_uvec (ra dec : ℝ) : ‖uvec ra dec‖ = 1 := by
  have h : ‖uvec ra dec‖ ^ 2 = 1 := by
    rw [← real_inner_self_eq_norm_sq, inner_uvec, dot_unitVec_self]
  have h0 : 0 ≤ ‖uvec ra dec‖ := norm_nonneg _
  nlinarith

theorem dot_unitVec_le (ra1 dec1 ra2 dec2 : ℝ) : dot (unitVec ra1 dec1) (unitVec ra2 dec2) ≤ 1 := by
  rw [← inner_uvec]
  have := real_inner_le_norm (uvec ra1 dec1) (uvec ra2 dec2)
  rwa [norm_uvec, norm_uvec, one_mul] at this

theorem neg_one_le_dot_unitVec (ra1 dec1 ra2 dec2 : ℝ) : -1 ≤ dot (unitVec ra1 dec1) (unitVec ra2 dec2) := by
  rw [← inner_uvec]
  have := neg_le_of_abs_le (abs_real_inner_le_norm (uvec ra1 dec1) (uvec ra2 dec2))
  rwa [norm_uvec, norm_uvec, one_mul] at this

/-! ### the spherical distance, in degrees -/

/-- great-circle distance in degrees: `(180/π)` times the angle between the unit vectors -/
noncomputable def sphDist (ra1 dec1 ra2 dec2 : ℝ) : ℝ :=
  180 / π * InnerProductGeometry.angle (uvec ra1 dec1) (uvec ra2 dec2)

theorem angle_uvec (ra1 dec1 ra2 dec2 : ℝ) :
    InnerProductGeometry.angle (uvec ra1 dec1) (uvec ra2 dec2)
      = arccos (dot (unitVec ra1 dec1) (unitVec ra2 dec2)) := by
  unfold InnerProductGeometry.angle
  rw [norm_uvec, norm_uvec, inner_uvec]; simp

theorem sphDist_eq_arccos_dot (ra1 dec1 ra2 dec2 : ℝ) :
    sphDist ra1 dec1 ra2 dec2 = 180 / π * arccos (dot (unitVec ra1 dec1) (unitVec ra2 dec2)) := by
  unfold sphDist; rw [angle_uvec]

theorem sphDist_comm (ra1 dec1 ra2 dec2 : ℝ) : sphDist ra1 dec1 ra2 dec2 = sphDist ra2 dec2 ra1 dec1 := by
  unfold sphDist; rw [InnerProductGeometry.angle_comm]

theorem sphDist_nonneg (ra1 dec1 ra2 dec2 : ℝ) : 0 ≤ sphDist ra1 dec1 ra2 dec2 := by
  unfold sphDist
  have := InnerProductGeometry.angle_nonneg (uvec ra1 dec1) (uvec ra2 dec2)
  positivity

theorem sphDist_le (ra1 dec1 ra2 dec2 : ℝ) : sphDist ra1 dec1 ra2 dec2 ≤ 180 := by
  unfold sphDist
  have h := InnerProductGeometry.angle_le_pi (uvec ra1 dec1) (uvec ra2 dec2)
  have hp := Real.pi_pos
  calc 180 / π * InnerProductGeometry.angle (uvec ra1 dec1) (uvec ra2 dec2)
      ≤ 180 / π * π := by apply mul_le_mul_of_nonneg_left h; positivity
    _ = 180 := by field_simp

/-- zero distance exactly for identical points of the sphere (identical unit vectors: at a pole
    every right ascension names the same point) -/
theorem sphDist_eq_zero_iff (ra1 dec1 ra2 dec2 : ℝ) :
    sphDist ra1 dec1 ra2 dec2 = 0 ↔ unitVec ra1 dec1 = unitVec ra2 dec2 := by
  have hp := Real.pi_pos
  rw [sphDist_eq_arccos_dot]
  have hk : (180 / π : ℝ) ≠ 0 := by positivity
  rw [mul_eq_zero, or_iff_right hk, Real.arccos_eq_zero]
  constructor
  · intro h
    have h1 : inner ℝ (uvec ra1 dec1) (uvec ra2 dec2) = 1 := by
      rw [inner_uvec]; exact le_antisymm (dot_unitVec_le _ _ _ _) h
    exact toE3_injective ((inner_eq_one_iff_of_norm_eq_one (norm_uvec _ _) (norm_uvec _ _)).mp h1)
  · intro h; rw [h, dot_unitVec_self]

theorem sphDist_triangle (ra1 dec1 ra2 dec2 ra3 dec3 : ℝ) :
    sphDist ra1 dec1 ra3 dec3 ≤ sphDist ra1 dec1 ra2 dec2 + sphDist ra2 dec2 ra3 dec3 := by
  unfold sphDist
  have h := InnerProductGeometry.angle_le_angle_add_angle (uvec ra1 dec1) (uvec ra2 dec2) (uvec ra3 dec3)
  have hp := Real.pi_pos
  rw [← mul_add]
  apply mul_le_mul_of_nonneg_left h; positivity

/-! ### the haversine code computes `sphDist` -/

theorem radians_sub (x y : ℝ) : (R.radians (x - y) : ℝ) = R.radians x - R.radians y := by
  simp only [R.real_radians]; ring

theorem radians_add (x y : ℝ) : (R.radians (x + y) : ℝ) = R.radians x + R.radians y := by
  simp only [R.real_radians]; ring

theorem degrees_radians (x : ℝ) : (R.degrees (R.radians x) : ℝ) = x := by
  have := Real.pi_ne_zero
  simp only [R.real_radians, R.real_degrees]; field_simp

theorem radians_degrees (x : ℝ) : (R.radians (R.degrees x) : ℝ) = x := by
  have := Real.pi_ne_zero
  simp only [R.real_radians, R.real_degrees]; field_simp

/-- the haversine argument is `(1 − ⟪v₁, v₂⟫)/2` -/
theorem havAHand_eq (ra1 dec1 ra2 dec2 : ℝ) :
    havAHand ra1 dec1 ra2 dec2 = (1 - dot (unitVec ra1 dec1) (unitVec ra2 dec2)) / 2 := by
  rw [dot_unitVec]
  simp only [havAHand, R.real_npow, R.real_sin, R.real_cos, R.real_ofNat, radians_sub, Nat.cast_ofNat]
  exact hav_identity _ _ _

/-- the complement is `(1 + ⟪v₁, v₂⟫)/2` -/
theorem havBHand_eq (ra1 dec1 ra2 dec2 : ℝ) :
    havBHand ra1 dec1 ra2 dec2 = (1 + dot (unitVec ra1 dec1) (unitVec ra2 dec2)) / 2 := by
  rw [dot_unitVec]
  simp only [havBHand, R.real_npow, R.real_sin, R.real_cos, R.real_ofNat, radians_sub, radians_add,
    Nat.cast_ofNat]
  exact havB_identity _ _ _

/-- `R.min` at ℝ is `min` (the shared `R.real_min` is stated inside `namespace R`, where `min`
    resolves to `R.min` itself, so it is the trivial equation; this is the usable version) -/
theorem real_min' (x y : ℝ) : (R.min x y : ℝ) = Min.min x y := rfl
theorem real_max' (x y : ℝ) : (R.max x y : ℝ) = Max.max x y := rfl

/-- degrees(2·arcsin(min 1 √a)) with `a = (1−d)/2` is `(180/π)·arccos d` -/
theorem near_form (a d : ℝ) (ha : a = (1 - d) / 2) (h1 : -1 ≤ d) (h2 : d ≤ 1) :
    (R.degrees (R.ofNat 2 * R.asin (R.min (R.ofNat 1) (R.sqrt a))) : ℝ) = 180 / π * arccos d := by
  simp only [R.real_degrees, R.real_ofNat, R.real_asin, real_min', R.real_sqrt, Nat.cast_ofNat, Nat.cast_one]
  rw [ha, two_arcsin_sqrt_hav d h1 h2]; ring

/-- 180 − degrees(2·arcsin(min 1 √b)) with `b = (1+d)/2` is `(180/π)·arccos d` -/
theorem far_form (b d : ℝ) (hb : b = (1 + d) / 2) (h1 : -1 ≤ d) (h2 : d ≤ 1) :
    (R.ofNat 180 - R.degrees (R.ofNat 2 * R.asin (R.min (R.ofNat 1) (R.sqrt b))) : ℝ) = 180 / π * arccos d := by
  have hb' : b = (1 - (-d)) / 2 := by rw [hb]; ring
  rw [near_form b (-d) hb' (by linarith) (by linarith), Real.arccos_neg]
  have := Real.pi_ne_zero
  simp only [R.real_ofNat, Nat.cast_ofNat]
  field_simp; ring

theorem gcdNearHand_eq_sphDist (ra1 dec1 ra2 dec2 : ℝ) :
    gcdNearHand ra1 dec1 ra2 dec2 = sphDist ra1 dec1 ra2 dec2 := by
  rw [sphDist_eq_arccos_dot]
  exact near_form _ _ (havAHand_eq _ _ _ _) (neg_one_le_dot_unitVec _ _ _ _) (dot_unitVec_le _ _ _ _)

theorem gcdFarHand_eq_sphDist (ra1 dec1 ra2 dec2 : ℝ) :
    gcdFarHand ra1 dec1 ra2 dec2 = sphDist ra1 dec1 ra2 dec2 := by
  rw [sphDist_eq_arccos_dot]
  exact far_form _ _ (havBHand_eq _ _ _ _) (neg_one_le_dot_unitVec _ _ _ _) (dot_unitVec_le _ _ _ _)

end Aegean.C17
