/-
  C19 — basic facts about `Chain` (reflexive-transitive closure written as a list of steps).
  Core Lean only.
-/
import Aegean.Spec.C19

namespace Aegean.Spec.C19

variable {ι κ : Type} {r : ι → ι → Prop}

theorem Chain.single {a b : ι} (h : r a b) : Chain r a b := .step h (.refl b)

theorem Chain.trans {a b c : ι} (h₁ : Chain r a b) (h₂ : Chain r b c) : Chain r a c := by
  induction h₁ with
  | refl _ => exact h₂
  | step hab _ ih => exact .step hab (ih h₂)

theorem Chain.snoc {a b c : ι} (h₁ : Chain r a b) (h₂ : r b c) : Chain r a c :=
  h₁.trans (Chain.single h₂)

theorem Chain.symm (hs : ∀ a b, r a b → r b a) {a b : ι} (h : Chain r a b) : Chain r b a := by
  induction h with
  | refl _ => exact .refl _
  | step hab _ ih => exact ih.snoc (hs _ _ hab)

theorem Chain.mono {r' : ι → ι → Prop} (hm : ∀ a b, r a b → r' a b) {a b : ι} (h : Chain r a b) :
    Chain r' a b := by
  induction h with
  | refl _ => exact .refl _
  | step hab _ ih => exact .step (hm _ _ hab) ih

theorem Chain.map {r' : κ → κ → Prop} (f : ι → κ) (hm : ∀ a b, r a b → r' (f a) (f b)) {a b : ι}
    (h : Chain r a b) : Chain r' (f a) (f b) := by
  induction h with
  | refl _ => exact .refl _
  | step hab _ ih => exact .step (hm _ _ hab) ih

/-- an invariant of single steps is an invariant of chains -/
theorem Chain.invariant {p : ι → Prop} (hstep : ∀ a b, r a b → p a → p b) {a b : ι}
    (h : Chain r a b) (ha : p a) : p b := by
  induction h with
  | refl _ => exact ha
  | step hab _ ih => exact ih (hstep _ _ hab ha)

/-- a function constant along single steps is constant along chains -/
theorem Chain.const {β : Type} (f : ι → β) (hstep : ∀ a b, r a b → f a = f b) {a b : ι}
    (h : Chain r a b) : f a = f b := by
  induction h with
  | refl _ => rfl
  | step hab _ ih => exact (hstep _ _ hab).trans ih

theorem srcLink_symm {σ : Type} (link : σ → σ → Bool) (cat : List σ) (a b : σ)
    (h : SrcLink link cat a b) : SrcLink link cat b a :=
  ⟨h.2.1, h.1, h.2.2.symm⟩

theorem rowLink_symm (n : Nat) (adj : Nat → Nat → Bool) (a b : Nat)
    (h : RowLink n adj a b) : RowLink n adj b a :=
  ⟨h.2.1, h.1, h.2.2.symm⟩

/-- a chain between members stays among members: its endpoints are members unless it is empty -/
theorem Chain.mem_of_srcLink {σ : Type} {link : σ → σ → Bool} {cat : List σ} {a b : σ}
    (h : Chain (SrcLink link cat) a b) (ha : a ∈ cat) : b ∈ cat := by
  induction h with
  | refl _ => exact ha
  | step hab _ ih => exact ih hab.2.1

end Aegean.Spec.C19
