/-
  C16 — the Lean zenithal WCS, part 3: the radial functions are inverted in BOTH directions on stated
  domains (`radial (radialInv r) = r` is the direction pixel → sky → pixel needs; `radialInv (radial z) = z`
  was Aegean/Proofs/C16Zen.lean), with the range and sign facts the composition needs.
-/
import Aegean.Proofs.C16Zen
import Aegean.Proofs.C16ZenRot

set_option linter.unusedSimpArgs false

namespace Aegean.C16
open Aegean.Model.C16 Real

/-- native radii (radians) a projection can invert: all of TAN and STG, the unit disc of SIN, radius < 2 for
    ZEA and < π for ARC (the antipode of the reference point is excluded: its direction is undefined) -/
def radialDom (p : Proj) (r : ℝ) : Prop :=
  match p with
  | .TAN => True
  | .SIN => r ≤ 1
  | .ARC => r < π
  | .STG => True
  | .ZEA => r < 2

/-- co-latitudes (radians, in [0, π]) a projection can show -/
def radialRange (p : Proj) (z : ℝ) : Prop :=
  match p with
  | .TAN => z < π / 2
  | .SIN => z ≤ π / 2
  | .ARC => True
  | .STG => z < π
  | .ZEA => True

/-- `w = atan2 t 1` for `t ≥ 0`: in [0, π/2) and `tan w = t` -/
theorem arg_one_spec (t : ℝ) (ht : 0 ≤ t) :
    0 ≤ Complex.arg ⟨1, t⟩ ∧ Complex.arg ⟨1, t⟩ < π / 2 ∧
      Real.sin (Complex.arg ⟨1, t⟩) / Real.cos (Complex.arg ⟨1, t⟩) = t := by
  have hp := Real.pi_pos
  have hne : (⟨1, t⟩ : ℂ) ≠ 0 := by intro h; have := congrArg Complex.re h; simp at this
  have hN : 0 < ‖(⟨1, t⟩ : ℂ)‖ := norm_pos_iff.mpr hne
  have hs := Complex.sin_arg (⟨1, t⟩ : ℂ)
  have hc := Complex.cos_arg hne
  simp only at hs hc
  have hcpos : 0 < Real.cos (Complex.arg ⟨1, t⟩) := by rw [hc]; positivity
  refine ⟨Complex.arg_nonneg_iff.mpr ht, ?_, ?_⟩
  · have h := (Complex.abs_arg_lt_pi_div_two_iff (z := ⟨1, t⟩)).mpr (Or.inl (by simp))
    exact (abs_lt.mp h).2
  · rw [hs, hc]; field_simp

theorem radial_zero (p : Proj) : (radial p (0 : ℝ) : ℝ) = 0 := by
  cases p <;> simp [radial]

/-- **the other radial inverse law**: on its domain every projection's `R_θ` undoes `radialInv`, and the
    co-latitude it returns lies in [0, π) -/
theorem radialInv_spec (p : Proj) (r : ℝ) (hr : 0 ≤ r) (hd : radialDom p r) :
    0 ≤ (radialInv p r : ℝ) ∧ (radialInv p r : ℝ) < π ∧ (radial p (radialInv p r : ℝ) : ℝ) = r := by
  have hp := Real.pi_pos
  cases p
  · -- SIN
    simp only [radialDom] at hd
    simp only [radial, radialInv, R.real_asin, R.real_sin]
    exact ⟨Real.arcsin_nonneg.mpr hr, by linarith [Real.arcsin_le_pi_div_two r],
      Real.sin_arcsin (by linarith) hd⟩
  · -- TAN
    obtain ⟨h0, h1, h2⟩ := arg_one_spec r hr
    simp only [radial, radialInv, R.real_atan2, R.real_sin, R.real_cos, R.real_ofNat, Nat.cast_one]
    exact ⟨h0, by linarith, h2⟩
  · -- ZEA
    simp only [radialDom] at hd
    simp only [radial, radialInv, R.real_asin, R.real_sin, R.real_ofNat, Nat.cast_ofNat]
    have h1 : r / 2 < 1 := by linarith
    refine ⟨by have := Real.arcsin_nonneg.mpr (by linarith : (0 : ℝ) ≤ r / 2); linarith,
      by have := Real.arcsin_lt_pi_div_two.mpr h1; linarith, ?_⟩
    rw [mul_div_cancel_left₀ _ (two_ne_zero), Real.sin_arcsin (by linarith) h1.le]; ring
  · -- ARC
    simp only [radialDom] at hd
    simp only [radial, radialInv]
    exact ⟨hr, hd, trivial⟩
  · -- STG
    obtain ⟨h0, h1, h2⟩ := arg_one_spec (r / 2) (by linarith)
    simp only [radial, radialInv, R.real_atan2, R.real_sin, R.real_cos, R.real_ofNat, Nat.cast_one, Nat.cast_ofNat]
    refine ⟨by linarith, by linarith, ?_⟩
    rw [mul_div_cancel_left₀ _ (two_ne_zero), h2]; ring

/-- `radialInv (radial z) = z` on the co-latitudes each projection shows (from C16Zen) -/
theorem radial_inverse_range (p : Proj) (z : ℝ) (h0 : 0 ≤ z) (h1 : z ≤ π) (hr : radialRange p z) :
    (radialInv p (radial p z : ℝ) : ℝ) = z := by
  have hp := Real.pi_pos
  cases p
  · exact radial_inverse_SIN z (by linarith) hr
  · exact radial_inverse_TAN z (by linarith) hr
  · exact radial_inverse_ZEA z (by linarith) h1
  · exact radial_inverse_ARC z
  · exact radial_inverse_STG z (by linarith) hr

theorem radial_nonneg (p : Proj) (z : ℝ) (h0 : 0 ≤ z) (h1 : z ≤ π) (hr : radialRange p z) :
    0 ≤ (radial p z : ℝ) := by
  have hp := Real.pi_pos
  have hs : 0 ≤ Real.sin z := Real.sin_nonneg_of_nonneg_of_le_pi h0 h1
  have hs2 : 0 ≤ Real.sin (z / 2) := Real.sin_nonneg_of_nonneg_of_le_pi (by linarith) (by linarith)
  cases p
  · simpa only [radial, R.real_sin] using hs
  · simp only [radialRange] at hr
    have hc : 0 < Real.cos z := Real.cos_pos_of_mem_Ioo ⟨by linarith, hr⟩
    simp only [radial, R.real_sin, R.real_cos]; positivity
  · simp only [radial, R.real_sin, R.real_ofNat, Nat.cast_ofNat]; positivity
  · simpa only [radial] using h0
  · simp only [radialRange] at hr
    have hc : 0 < Real.cos (z / 2) := Real.cos_pos_of_mem_Ioo ⟨by linarith, by linarith⟩
    simp only [radial, R.real_sin, R.real_cos, R.real_ofNat, Nat.cast_ofNat]; positivity

theorem radial_pos (p : Proj) (z : ℝ) (h0 : 0 < z) (h1 : z ≤ π) (hr : radialRange p z) (hs : 0 < Real.sin z) :
    0 < (radial p z : ℝ) := by
  have hp := Real.pi_pos
  have hs2 : 0 < Real.sin (z / 2) := Real.sin_pos_of_pos_of_lt_pi (by linarith) (by linarith)
  cases p
  · simpa only [radial, R.real_sin] using hs
  · simp only [radialRange] at hr
    have hc : 0 < Real.cos z := Real.cos_pos_of_mem_Ioo ⟨by linarith, hr⟩
    simp only [radial, R.real_sin, R.real_cos]; positivity
  · simp only [radial, R.real_sin, R.real_ofNat, Nat.cast_ofNat]; positivity
  · simpa only [radial] using h0
  · simp only [radialRange] at hr
    have hc : 0 < Real.cos (z / 2) := Real.cos_pos_of_mem_Ioo ⟨by linarith, by linarith⟩
    simp only [radial, R.real_sin, R.real_cos, R.real_ofNat, Nat.cast_ofNat]; positivity

end Aegean.C16
