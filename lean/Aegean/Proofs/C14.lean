/-
  C14 — helper lemmas: the ℝ interpretation of the extra interface `RX`, integer window
  arithmetic (floor / ceil / clip), the ellipse bounding-box inequality, list-sum algebra.
  Nothing here mentions the regenerated definitions.
-/
import Aegean.Proofs.Real
import Aegean.Model.C14
import Mathlib.Algebra.Order.Floor.Ring
import Mathlib.Analysis.SpecialFunctions.Log.Basic
import Mathlib.Analysis.SpecialFunctions.Trigonometric.Basic
import Mathlib.Algebra.BigOperators.Group.List.Basic
import Mathlib.Tactic.Linarith
import Mathlib.Tactic.Positivity
import Mathlib.Tactic.FieldSimp
import Mathlib.Tactic.NormNum

namespace Aegean.Model.C14

/-- the ℝ interpretation of `RX`: exact comparisons, `Int.floor`, `Int.ceil`, no NaN, `Real.log` -/
noncomputable instance instRXReal : RX ℝ where
  ltb a b := decide (a < b)
  leb a b := decide (a ≤ b)
  floorI x := ⌊x⌋
  ceilI x := ⌈x⌉
  isNaN _ := false
  log := Real.log

@[simp] theorem real_ltb (a b : ℝ) : (RX.ltb a b = true) ↔ a < b := by simp [RX.ltb]
@[simp] theorem real_leb (a b : ℝ) : (RX.leb a b = true) ↔ a ≤ b := by simp [RX.leb]
@[simp] theorem real_floorI (x : ℝ) : RX.floorI x = ⌊x⌋ := rfl
@[simp] theorem real_ceilI (x : ℝ) : RX.ceilI x = ⌈x⌉ := rfl
@[simp] theorem real_isNaN (x : ℝ) : RX.isNaN x = false := rfl
@[simp] theorem real_log (x : ℝ) : RX.log x = Real.log x := rfl

theorem real_half : (half : ℝ) = 1 / 2 := by
  simp only [half, R.real_ofSci]; norm_num

/-! ### FWHM2CC -/

theorem fwhm2cc_real : (fwhm2cc : ℝ) = 1 / (2 * Real.sqrt (2 * Real.log 2)) := by
  simp [fwhm2cc]

theorem two_log_two_ge_one : (1 : ℝ) ≤ 2 * Real.log 2 := by
  have h := Real.one_sub_inv_le_log_of_pos (show (0 : ℝ) < 2 by norm_num)
  norm_num at h
  linarith

theorem fwhm2cc_pos : (0 : ℝ) < fwhm2cc := by
  rw [fwhm2cc_real]
  have : 0 < Real.sqrt (2 * Real.log 2) := Real.sqrt_pos.mpr (by linarith [two_log_two_ge_one])
  positivity

theorem fwhm2cc_lt_one : (fwhm2cc : ℝ) < 1 := by
  rw [fwhm2cc_real]
  have h1 : (1 : ℝ) ≤ Real.sqrt (2 * Real.log 2) := by
    rw [show (1 : ℝ) = Real.sqrt 1 by simp]
    exact Real.sqrt_le_sqrt two_log_two_ge_one
  rw [div_lt_one (by linarith)]
  linarith

/-! ### integer window arithmetic -/

theorem clipHi_le (v : Int) (n : Nat) : clipHi v n ≤ n := by
  unfold clipHi; omega

/-- an index `i < n` with `c - off < i ≤ c + off`, where `c = xo - 1` is the 0-based centre, lies in
    `[clipLo ⌊xo - off⌋, clipHi ⌈xo + off⌉ n)` -/
theorem index_in_clip (xo off : ℝ) (n i : Nat) (hi : i < n)
    (h1 : xo - 1 - off < (i : ℝ)) (h2 : (i : ℝ) ≤ xo - 1 + off) :
    clipLo ⌊xo - off⌋ ≤ i ∧ i < clipHi ⌈xo + off⌉ n := by
  have f1 : ⌊xo - off⌋ ≤ (i : Int) := by
    have : ((⌊xo - off⌋ : Int) : ℝ) < ((i : Int) : ℝ) + 1 := by
      have := Int.floor_le (xo - off)
      push_cast; linarith
    have : (⌊xo - off⌋ : Int) < (i : Int) + 1 := by exact_mod_cast this
    omega
  have f2 : (i : Int) + 1 ≤ ⌈xo + off⌉ := by
    have : (((i : Int) + 1 : Int) : ℝ) ≤ ((⌈xo + off⌉ : Int) : ℝ) := by
      have := Int.le_ceil (xo + off)
      push_cast; linarith
    exact_mod_cast this
  unfold clipLo clipHi
  omega

/-- conversely, an index inside the clipped range is within `off + 1` of the centre -/
theorem clip_index_near (xo off : ℝ) (n i : Nat)
    (h : clipLo ⌊xo - off⌋ ≤ i ∧ i < clipHi ⌈xo + off⌉ n) :
    xo - 1 - off - 1 < (i : ℝ) ∧ (i : ℝ) < xo - 1 + off + 1 ∧ i < n := by
  obtain ⟨h1, h2⟩ := h
  unfold clipLo at h1
  unfold clipHi at h2
  have g1 : ⌊xo - off⌋ ≤ (i : Int) := by omega
  have g2 : (i : Int) + 1 ≤ ⌈xo + off⌉ := by omega
  have g3 : i < n := by omega
  have r1 : ((⌊xo - off⌋ : Int) : ℝ) ≤ ((i : Int) : ℝ) := by exact_mod_cast g1
  have r2 : (((i : Int) + 1 : Int) : ℝ) ≤ ((⌈xo + off⌉ : Int) : ℝ) := by exact_mod_cast g2
  have a1 := Int.lt_floor_add_one (xo - off)
  have a2 := Int.ceil_lt_add_one (xo + off)
  push_cast at r1 r2
  refine ⟨by linarith, by linarith, g3⟩

/-! ### the ellipse's bounding box -/

/-- If `(u,v)` lies in the ellipse `((u c + v s)/a)² + ((u s − v c)/b)² ≤ r²` (axes `a`, `b` along the
    direction `(c, s)`, `c² + s² = 1`) then `|u| ≤ r (|a c| + |b s|)` and `|v| ≤ r (|a s| + |b c|)`. -/
theorem ellipse_bbox (u v c s a b r : ℝ) (hcs : c ^ 2 + s ^ 2 = 1) (ha : a ≠ 0) (hb : b ≠ 0) (hr : 0 ≤ r)
    (hq : (u * c + v * s) ^ 2 / a ^ 2 + (u * s - v * c) ^ 2 / b ^ 2 ≤ r ^ 2) :
    |u| ≤ r * (|a * c| + |b * s|) ∧ |v| ≤ r * (|a * s| + |b * c|) := by
  set p := (u * c + v * s) / a with hp
  set q := (u * s - v * c) / b with hq'
  have e : p ^ 2 + q ^ 2 ≤ r ^ 2 := by
    have : p ^ 2 + q ^ 2 = (u * c + v * s) ^ 2 / a ^ 2 + (u * s - v * c) ^ 2 / b ^ 2 := by
      rw [hp, hq', div_pow, div_pow]
    rw [this]; exact hq
  have hpr : |p| ≤ r := abs_le.mpr (abs_le_of_sq_le_sq' (by linarith [sq_nonneg q]) hr)
  have hqr : |q| ≤ r := abs_le.mpr (abs_le_of_sq_le_sq' (by linarith [sq_nonneg p]) hr)
  have eu : u = (a * c) * p + (b * s) * q := by
    rw [hp, hq']; field_simp; linear_combination (-u) * hcs
  have ev : v = (a * s) * p - (b * c) * q := by
    rw [hp, hq']; field_simp; linear_combination (-v) * hcs
  constructor
  · calc |u| = |(a * c) * p + (b * s) * q| := by rw [← eu]
      _ ≤ |(a * c) * p| + |(b * s) * q| := abs_add_le _ _
      _ = |a * c| * |p| + |b * s| * |q| := by rw [abs_mul (a * c) p, abs_mul (b * s) q]
      _ ≤ |a * c| * r + |b * s| * r := by
          have := abs_nonneg (a * c); have := abs_nonneg (b * s)
          nlinarith
      _ = r * (|a * c| + |b * s|) := by ring
  · calc |v| = |(a * s) * p - (b * c) * q| := by rw [← ev]
      _ ≤ |(a * s) * p| + |(b * c) * q| := abs_sub _ _
      _ = |a * s| * |p| + |b * c| * |q| := by rw [abs_mul (a * s) p, abs_mul (b * c) q]
      _ ≤ |a * s| * r + |b * c| * r := by
          have := abs_nonneg (a * s); have := abs_nonneg (b * c)
          nlinarith
      _ = r * (|a * s| + |b * c|) := by ring

/-- `|a c| + |b s| > 0` when `a, b ≠ 0` and `(c, s)` is a unit vector -/
theorem halfwidth_pos (a b c s : ℝ) (hcs : c ^ 2 + s ^ 2 = 1) (ha : a ≠ 0) (hb : b ≠ 0) :
    0 < |a * c| + |b * s| := by
  by_contra h
  have h1 : |a * c| = 0 := by linarith [abs_nonneg (a * c), abs_nonneg (b * s)]
  have h2 : |b * s| = 0 := by linarith [abs_nonneg (a * c), abs_nonneg (b * s)]
  rw [abs_eq_zero] at h1 h2
  have c0 : c = 0 := by rcases mul_eq_zero.mp h1 with h | h; exact absurd h ha; exact h
  have s0 : s = 0 := by rcases mul_eq_zero.mp h2 with h | h; exact absurd h hb; exact h
  rw [c0, s0] at hcs; norm_num at hcs

/-! ### exp(-25/2) < 1e-4 -/

theorem exp_neg_25_half_lt : Real.exp (-(25 / 2 : ℝ)) < 1 / 10000 := by
  have h1 : (3 / 2 : ℝ) ≤ Real.exp (1 / 2) := by
    have := Real.add_one_le_exp (1 / 2 : ℝ); linarith
  have h2 : Real.exp (25 / 2 : ℝ) = Real.exp (1 / 2) ^ 25 := by
    rw [← Real.exp_nat_mul]; congr 1; norm_num
  have h3 : (3 / 2 : ℝ) ^ 25 ≤ Real.exp (1 / 2) ^ 25 := pow_le_pow_left₀ (by norm_num) h1 25
  have h4 : (10000 : ℝ) < (3 / 2 : ℝ) ^ 25 := by norm_num
  rw [Real.exp_neg, inv_eq_one_div]
  apply one_div_lt_one_div_of_lt (by norm_num)
  rw [h2]; linarith

/-! ### list sums -/

theorem foldl_add_eq_sum {β : Type} (f : β → ℝ) (l : List β) (a : ℝ) :
    l.foldl (fun acc x => acc + f x) a = a + (l.map f).sum := by
  induction l generalizing a with
  | nil => simp
  | cons x xs ih => simp [ih, add_assoc]

theorem abs_sum_sub_le {β : Type} (f g b : β → ℝ) (l : List β) (h : ∀ x ∈ l, |f x - g x| ≤ b x) :
    |(l.map f).sum - (l.map g).sum| ≤ (l.map b).sum := by
  induction l with
  | nil => simp
  | cons x xs ih =>
    simp only [List.map_cons, List.sum_cons]
    have h1 := h x (by simp)
    have h2 := ih (fun y hy => h y (by simp [hy]))
    calc |f x + (xs.map f).sum - (g x + (xs.map g).sum)|
        = |(f x - g x) + ((xs.map f).sum - (xs.map g).sum)| := by ring_nf
      _ ≤ |f x - g x| + |(xs.map f).sum - (xs.map g).sum| := abs_add_le _ _
      _ ≤ b x + (xs.map b).sum := add_le_add h1 h2

end Aegean.Model.C14
