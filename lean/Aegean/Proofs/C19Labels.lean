/-
  C19 — labels across the whole output of `regroupWith`: (island, source) pairs are unique, the
  output is the catalogue with nothing but the labels changed, and the executable
  `regroupDbscan` meets the component contract whenever it answers.
-/
import Mathlib.Data.List.Nodup
import Aegean.Proofs.C19Graph
import Aegean.Proofs.C19Relabel

namespace Aegean.C19
open Aegean.Model.C19 Aegean.Spec.C19

theorem groupRows_ids_nodup (cat : List Src) (lab : Src → Nat) (k : Nat)
    (hid : (cat.map Src.id).Nodup) : ((groupRows cat lab k).map Src.id).Nodup :=
  List.Nodup.sublist (List.Sublist.map _ List.filter_sublist) hid

theorem regroupWith_flatten (cat : List Src) (lab : Src → Nat) (K : Nat) :
    (regroupWith cat lab K).flatten
      = (List.range K).flatMap fun k => relabelGroup k (groupRows cat lab k) := by
  simp [regroupWith, List.flatMap_def]

/-- concatenated output, labels blanked = a rearrangement of the input, labels blanked -/
theorem regroupWith_unlabel_perm (cat : List Src) (lab : Src → Nat) (K : Nat)
    (hlt : ∀ a, a ∈ cat → lab a < K) :
    ((regroupWith cat lab K).flatten.map unlabel).Perm (cat.map unlabel) := by
  have h := (groups_flatten_perm cat lab K hlt).map unlabel
  refine List.Perm.trans (List.Perm.of_eq ?_) h
  rw [regroupWith_flatten, List.map_flatMap, List.map_flatMap]
  congr 1
  funext k
  exact relabel_unlabel k _

theorem regroupWith_labels_nodup (cat : List Src) (lab : Src → Nat) (K : Nat)
    (hid : (cat.map Src.id).Nodup) :
    ((regroupWith cat lab K).flatten.map fun s => (s.island, s.source)).Nodup := by
  rw [regroupWith_flatten, List.map_flatMap, List.nodup_flatMap]
  refine ⟨fun k _ => relabel_labels_nodup k _ (groupRows_ids_nodup cat lab k hid), ?_⟩
  refine List.Pairwise.imp ?_ (List.nodup_range (n := K))
  intro j k hjk
  simp only [Function.onFun]
  intro p hp1 hp2
  rw [List.mem_map] at hp1 hp2
  obtain ⟨s, hs, rfl⟩ := hp1
  obtain ⟨t, ht, e⟩ := hp2
  have e1 := relabel_island j _ s hs
  have e2 := relabel_island k _ t ht
  have : t.island = s.island := congrArg Prod.fst e
  exact hjk (by rw [← e1, ← e2, this])

/-- whenever the executable model answers, its answer is `regroupWith` for a labelling that
    satisfies the component contract -/
theorem regroupDbscan_sound (link : Src → Src → Bool) (cat : List Src)
    (hid : (cat.map Src.id).Nodup) (gs : List (List Src)) (h : regroupDbscan link cat = some gs) :
    ∃ lab K, IsComponents link cat lab K ∧ gs = regroupWith cat lab K := by
  unfold regroupDbscan at h
  simp only at h
  split at h
  · rename_i hchk
    injection h with h
    exact ⟨_, _, isComponents_of_check link cat (nodup_of_ids cat hid) hchk, h.symm⟩
  · cases h

end Aegean.C19
