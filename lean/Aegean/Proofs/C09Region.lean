/-
  C09 — the regenerated leaves at ℝ, and the model of "a region built from one circle / one
  polygon, then queried with `sky_within`" on top of the assumed `Healpix` contract.

    `theta_eq`, `scale_true/false`, `raOf_…`, `decOf_…`   what the regenerated text computes
    `sky2vec_eq_skyvec`      sky2vec (ra, dec) = (cos δ cos α, cos δ sin α, sin δ)
    `ang2pixOf H`            healpy's `ang2pix(nside, θ, φ)` = the contract's `ang2pix` at the point
                             with colatitude θ and longitude φ
    `regionWithin H m d D`   `sky_within` on a region that holds the pixel set `D` at depth `d ≤ m`
    `regionWithin_eq`        … = [ang2pix_d (skyvec ra dec) ∈ D]       (radians, finite input)
    `discPixels`, `polyPixels`   the pixel sets `add_circles` / `add_poly` obtain from healpy
-/
import Aegean.Proofs.C09Chain
import Aegean.Generated.C09

open Aegean.Model.C09 Real InnerProductGeometry

-- `<;> close_arith` after `simp only` is deliberate: it only runs when a harmless rewrite of the source
-- leaves an arithmetic goal behind
set_option linter.unusedTactic false
set_option linter.unreachableTactic false
set_option linter.unusedSimpArgs false

namespace Aegean.C09
open Gen.C09

/-- closes what a harmless rewrite of the source may leave behind (reordered terms, `0.5*np.pi`, …) -/
macro "close_arith" : tactic =>
  `(tactic| first | ring | (norm_num; ring) | norm_num | (field_simp; ring))

/-! ### the regenerated leaves -/

theorem theta_eq (dec : ℝ) : sky2angTheta dec = π / 2 - dec := by
  simp only [sky2angTheta, sky2angThetaHand, R.real_pi, R.real_ofNat, R.real_ofSci, R.real_radians, R.real_degrees, Nat.cast_ofNat] <;> close_arith

theorem scale_false (x : ℝ) : skyWithinScale false x = x := by
  simp [skyWithinScale, skyWithinScaleHand]

theorem scale_true (x : ℝ) : skyWithinScale true x = x * (π / 180) := by
  simp only [skyWithinScale, skyWithinScaleHand, R.real_pi, R.real_ofNat, R.real_ofSci, R.real_radians, R.real_degrees, Nat.cast_ofNat, if_true] <;> close_arith

theorem raOf_false (phi : ℝ) : vec2skyRa false phi = phi := by
  simp [vec2skyRa, vec2skyRaHand]

theorem raOf_true (phi : ℝ) : vec2skyRa true phi = phi * (180 / π) := by
  simp only [vec2skyRa, vec2skyRaHand, R.real_pi, R.real_ofNat, R.real_ofSci, R.real_radians, R.real_degrees, Nat.cast_ofNat, if_true] <;> close_arith

theorem decOf_false (theta : ℝ) : vec2skyDec false theta = π / 2 - theta := by
  simp only [vec2skyDec, vec2skyDecHand, R.real_pi, R.real_ofNat, R.real_ofSci, R.real_radians, R.real_degrees, Nat.cast_ofNat,
    Bool.false_eq_true, if_false] <;> close_arith

theorem decOf_true (theta : ℝ) : vec2skyDec true theta = (π / 2 - theta) * (180 / π) := by
  simp only [vec2skyDec, vec2skyDecHand, R.real_pi, R.real_ofNat, R.real_ofSci, R.real_radians, R.real_degrees, Nat.cast_ofNat, if_true] <;> close_arith

theorem sky2vec_eq_skyvec (ra dec : ℝ) : sky2vec sky2angTheta ra dec = skyvec ra dec := by
  simp only [sky2vec, sky2ang, theta_eq, ang2vec_colat, skyvec]

theorem norm_skyvec (ra dec : ℝ) : ‖toE3 (skyvec ra dec)‖ = 1 :=
  norm_toE3_of_dot_self (dot_skyvec_self ra dec)

/-! ### sky_within on a region that holds `D` at depth `d` -/

/-- healpy's `ang2pix(nside, θ, φ, nest=True)` in terms of the contract: the pixel, at depth
    `log2 nside`, of the point with colatitude θ and longitude φ -/
noncomputable def ang2pixOf (H : Healpix) (nside : ℕ) (theta phi : ℝ) : ℕ :=
  (H.grid (Nat.log2 nside)).ang2pix (toE3 (ang2vec theta phi))

/-- `Region.sky_within(ra, dec, degin)` on a region of `maxdepth = m` holding the pixel set `D` at
    depth `d` (every real number is finite) -/
noncomputable def regionWithin (H : Healpix) (m d : ℕ) (D : Finset ℕ) (degin : Bool) (ra dec : ℝ) : Bool :=
  skyWithin skyWithinScale sky2angTheta (fun _ => true) (ang2pixOf H)
    (demotedMember d m (fun p => decide (p ∈ D))) m degin ra dec

theorem regionWithin_eq (H : Healpix) {m d : ℕ} (hd : d ≤ m) (D : Finset ℕ) (ra dec : ℝ) :
    regionWithin H m d D false ra dec
      = decide ((H.grid d).ang2pix (toE3 (skyvec ra dec)) ∈ D) := by
  simp only [regionWithin, skyWithin, skyWithinCall, sky2ang, scale_false, theta_eq, Bool.and_self,
    if_true, demotedMember, ang2pixOf, Nat.log2_two_pow, ang2vec_colat]
  rw [← skyvec, H.nest d m _ hd (norm_skyvec ra dec)]

/-- degrees in, `degin = True`  ≡  radians in, `degin = False` -/
theorem regionWithin_degin (H : Healpix) (m d : ℕ) (D : Finset ℕ) (ra dec : ℝ) :
    regionWithin H m d D true (ra * (180 / π)) (dec * (180 / π)) = regionWithin H m d D false ra dec := by
  have hp : π ≠ 0 := Real.pi_ne_zero
  have e : ∀ x : ℝ, x * (180 / π) * (π / 180) = x := fun x => by field_simp
  simp only [regionWithin, skyWithin, skyWithinCall, sky2ang, scale_false, scale_true, e]

theorem clampDepth_le (m : ℕ) (depth : Option ℕ) : clampDepth m depth ≤ m := by
  unfold clampDepth
  split
  · exact le_refl _
  · split <;> omega

/-- the pixel set `add_circles(ra, dec, r, depth)` obtains from `query_disc` -/
noncomputable def discPixels (H : Healpix) (m : ℕ) (depth : Option ℕ) (rac decc r : ℝ) : Finset ℕ :=
  let c := addCircleCall sky2angTheta discFact m depth rac decc r
  (H.disc c.fact c.depth).query (toE3 c.vec) c.radius

theorem discPixels_eq (H : Healpix) (m : ℕ) (depth : Option ℕ) (rac decc r : ℝ) :
    discPixels H m depth rac decc r
      = (H.disc discFact (clampDepth m depth)).query (toE3 (skyvec rac decc)) r := by
  simp only [discPixels, addCircleCall, sky2vec_eq_skyvec]

/-- the pixel set `add_poly(positions, depth)` obtains from `query_polygon`
    (`none`: rejected by `add_poly` or by healpy) -/
noncomputable def polyPixels (H : Healpix) (m : ℕ) (depth : Option ℕ) (pos : List (ℝ × ℝ)) :
    Option (Finset ℕ) :=
  match addPolyCall sky2angTheta polyFact m depth pos with
  | none => none
  | some c => (H.poly c.fact c.depth).query (c.verts.map toE3)

/-- the polygon's vertices as unit vectors -/
noncomputable def polyVerts (pos : List (ℝ × ℝ)) : List E3 :=
  pos.map (fun p => toE3 (skyvec p.1 p.2))

theorem polyPixels_eq (H : Healpix) (m : ℕ) (depth : Option ℕ) (pos : List (ℝ × ℝ)) (D : Finset ℕ)
    (h : polyPixels H m depth pos = some D) :
    3 ≤ pos.length ∧ (H.poly polyFact (clampDepth m depth)).query (polyVerts pos) = some D := by
  unfold polyPixels addPolyCall at h
  split at h
  · simp at h
  · rename_i c hc
    split at hc
    · rename_i hlen
      simp only [Option.some.injEq] at hc
      subst hc
      refine ⟨hlen, ?_⟩
      simpa [polyVerts, sky2vec_eq_skyvec, List.map_map, Function.comp_def] using h
    · simp at hc

end Aegean.C09
