/-
  C08 — sessions: files are values.  (1) nothing but `save f` changes file `f`, so a load returns exactly
  the region that was saved; (2) the simulation of `Proofs/C08Refine` lifted to histories that save,
  load, and take operands from files.  Core Lean only.
-/
import Aegean.Proofs.C08Session

namespace Aegean.Proofs.C08
open Aegean.Model.C08

/-! ### files are only written by `save` -/

theorem onCur_files {s s' : Session} {o : Op} {ob : Obs} (h : onCur s o = .ok (s', ob)) :
    s'.files = s.files := by
  unfold onCur at h
  split at h
  · injection h with h; injection h with h _; rw [← h]
  · cases h

theorem withFile_files {s s' : Session} {f : Nat} {mk : Region → Op} {ob : Obs}
    (h : withFile s f mk = .ok (s', ob)) : s'.files = s.files := by
  unfold withFile at h
  split at h
  · exact onCur_files h
  · cases h

/-- an operation other than `save f` leaves file `f` as it is -/
theorem sessStep_files {s s' : Session} {op : SessOp} {ob : Obs} (f : Nat) (hne : op ≠ .save f)
    (h : sessStep s op = .ok (s', ob)) : s'.files f = s.files f := by
  cases op with
  | op o => rw [onCur_files (by simpa [sessStep] using h)]
  | save g =>
    simp only [sessStep] at h
    injection h with h; injection h with h _
    rw [← h]
    have : f ≠ g := fun e => hne (by rw [e])
    simp [this]
  | load g =>
    simp only [sessStep] at h
    split at h
    · injection h with h; injection h with h _; rw [← h]
    · cases h
  | unionFile g b => rw [withFile_files (by simpa [sessStep] using h)]
  | withoutFile g => rw [withFile_files (by simpa [sessStep] using h)]
  | intersectFile g => rw [withFile_files (by simpa [sessStep] using h)]
  | symdiffFile g => rw [withFile_files (by simpa [sessStep] using h)]

theorem sessRun_files (f : Nat) : ∀ (ops : List SessOp) (s : Session), (∀ op, op ∈ ops → op ≠ .save f) →
    (sessRun s ops).1.files f = s.files f
  | [], _, _ => rfl
  | op :: ops, s, h => by
    have h1 := h op (List.mem_cons_self ..)
    have h2 : ∀ op', op' ∈ ops → op' ≠ .save f := fun op' h' => h op' (List.mem_cons_of_mem _ h')
    cases hs : sessStep s op with
    | ok p =>
      obtain ⟨s', ob⟩ := p
      have : sessRun s (op :: ops) = ((sessRun s' ops).1, .ok ob :: (sessRun s' ops).2) := by
        simp only [sessRun, hs]
      rw [this]
      show (sessRun s' ops).1.files f = s.files f
      rw [sessRun_files f ops s' h2, sessStep_files f h1 hs]
    | error e =>
      have : sessRun s (op :: ops) = ((sessRun s ops).1, .error e :: (sessRun s ops).2) := by
        simp only [sessRun, hs]
      rw [this]
      exact sessRun_files f ops s h2

/-- **load_returns_saved**: save the current region to `f`; then let *any* history run — operations on the
    current object, loads, operations taking operands from files (which demote those operands), saves to other
    files — and load `f`: the region obtained is exactly the region that was saved (pixel dictionary, cache flag
    and all), hence every observation of it equals the observation at save time. -/
theorem load_returns_saved (s : Session) (f : Nat) (ops : List SessOp)
    (h : ∀ op, op ∈ ops → op ≠ .save f) :
    ∃ s1, (sessRun s (.save f :: ops)).1 = s1 ∧
      sessStep s1 (.load f) = .ok ({ s1 with cur := s.cur }, .none) := by
  refine ⟨_, rfl, ?_⟩
  have hrun : sessRun s (.save f :: ops) =
      ((sessRun { s with files := fun g => if g = f then some s.cur else s.files g } ops).1,
        .ok .none :: (sessRun { s with files := fun g => if g = f then some s.cur else s.files g } ops).2) := by
    simp only [sessRun, sessStep]
  rw [hrun]
  have hf := sessRun_files f ops { s with files := fun g => if g = f then some s.cur else s.files g } h
  simp only [if_true] at hf
  simp only [sessStep, hf]

/-! ### the Spec does not care how an operand's set is listed -/

def SEquiv (u u' : SS) : Prop := u.m = u'.m ∧ ∀ q, q ∈ u.pix ↔ q ∈ u'.pix

theorem rel_of_sequiv {r : Region} {u u' : SS} (h : Rel r u) (e : SEquiv u u') : Rel r u' :=
  ⟨e.1 ▸ h.1, fun q => (e.2 q).symm.trans (h.2 q)⟩

theorem sequiv_of_rel {o : Region} {u u' : SS} (h : Rel o u) (h' : Rel o u') : SEquiv u u' :=
  ⟨h.1.trans h'.1.symm, fun q => (h.2 q).trans (h'.2 q).symm⟩

theorem mem_regrid_congr {m : Nat} {u u' : SS} (e : SEquiv u u') (q : Nat) :
    q ∈ Aegean.Spec.C08.regrid m u ↔ q ∈ Aegean.Spec.C08.regrid m u' := by
  unfold Aegean.Spec.C08.regrid
  rw [e.1]
  by_cases h : u'.m ≤ m
  · simp only [if_pos h, List.mem_flatMap, e.2]
  · simp only [if_neg h, List.mem_map, e.2]

theorem contains_congr {l l' : List Nat} (h : ∀ q, q ∈ l ↔ q ∈ l') (q : Nat) : l.contains q = l'.contains q := by
  rw [Bool.eq_iff_iff, List.contains_iff_mem, List.contains_iff_mem, h q]

/-- replacing an operand by another listing of the same set changes nothing the Spec can see -/
theorem spec_step_operand_congr (t : SS) {u u' : SS} (e : SEquiv u u') (mk : SS → SOp)
    (hmk : mk = .union ∨ mk = .without ∨ mk = .intersect ∨ mk = .symdiff) :
    (∃ t1 t2, Aegean.Spec.C08.step t (mk u) = .ok (t1, .none) ∧ Aegean.Spec.C08.step t (mk u') = .ok (t2, .none) ∧
        SEquiv t1 t2) ∨
    (∃ err, Aegean.Spec.C08.step t (mk u) = .error err ∧ Aegean.Spec.C08.step t (mk u') = .error err) := by
  have hc := contains_congr e.2
  rcases hmk with rfl | rfl | rfl | rfl
  · left
    exact ⟨_, _, rfl, rfl, rfl, fun q => by simp only [List.mem_append, mem_regrid_congr e q]⟩
  · by_cases hm : t.m = u.m
    · left
      have n1 : ¬ (t.m ≠ u.m) := fun h => h hm
      have n2 : ¬ (t.m ≠ u'.m) := fun h => h (hm.trans e.1)
      refine ⟨{ t with pix := t.pix.filter (fun q => !u.pix.contains q) },
        { t with pix := t.pix.filter (fun q => !u'.pix.contains q) },
        by simp only [Aegean.Spec.C08.step, if_neg n1], by
        simp only [Aegean.Spec.C08.step, if_neg n2], rfl, fun q => ?_⟩
      simp only [List.mem_filter, hc q]
    · right
      have p1 : t.m ≠ u.m := hm
      have p2 : t.m ≠ u'.m := fun h => hm (h.trans e.1.symm)
      exact ⟨.assertion, by simp only [Aegean.Spec.C08.step, if_pos p1], by
        simp only [Aegean.Spec.C08.step, if_pos p2]⟩
  · by_cases hm : t.m = u.m
    · left
      have n1 : ¬ (t.m ≠ u.m) := fun h => h hm
      have n2 : ¬ (t.m ≠ u'.m) := fun h => h (hm.trans e.1)
      refine ⟨{ t with pix := t.pix.filter (fun q => u.pix.contains q) },
        { t with pix := t.pix.filter (fun q => u'.pix.contains q) },
        by simp only [Aegean.Spec.C08.step, if_neg n1], by
        simp only [Aegean.Spec.C08.step, if_neg n2], rfl, fun q => ?_⟩
      simp only [List.mem_filter, hc q]
    · right
      have p1 : t.m ≠ u.m := hm
      have p2 : t.m ≠ u'.m := fun h => hm (h.trans e.1.symm)
      exact ⟨.assertion, by simp only [Aegean.Spec.C08.step, if_pos p1], by
        simp only [Aegean.Spec.C08.step, if_pos p2]⟩
  · by_cases hm : t.m = u.m
    · left
      have n1 : ¬ (t.m ≠ u.m) := fun h => h hm
      have n2 : ¬ (t.m ≠ u'.m) := fun h => h (hm.trans e.1)
      refine ⟨⟨t.m, t.pix.filter (fun q => !u.pix.contains q) ++ u.pix.filter (fun q => !t.pix.contains q)⟩,
        ⟨t.m, t.pix.filter (fun q => !u'.pix.contains q) ++ u'.pix.filter (fun q => !t.pix.contains q)⟩,
        by simp only [Aegean.Spec.C08.step, if_neg n1], by
        simp only [Aegean.Spec.C08.step, if_neg n2], rfl, fun q => ?_⟩
      simp only [List.mem_append, List.mem_filter, hc q, e.2 q]
    · right
      have p1 : t.m ≠ u.m := hm
      have p2 : t.m ≠ u'.m := fun h => hm (h.trans e.1.symm)
      exact ⟨.assertion, by simp only [Aegean.Spec.C08.step, if_pos p1], by
        simp only [Aegean.Spec.C08.step, if_pos p2]⟩

/-! ### the simulation, for sessions -/

def FileRel (strict : Prop) : Option Region → Option SS → Prop
  | none, none => True
  | some o, some u => Valid o ∧ Rel o u ∧ (strict → NoDC o)
  | _, _ => False

/-- the current objects are related, and every file holds related contents -/
structure SRel (strict : Prop) (s : Session) (t : SSess) : Prop where
  valid : Valid s.cur
  rel : Rel s.cur t.cur
  nodc : strict → NoDC s.cur
  files : ∀ f, FileRel strict (s.files f) (t.files f)

def SessOpOk : SessOp → Prop
  | .op o => OpOk o
  | _ => True

def SessNormalising : SessOp → Prop
  | .op o => Normalising o
  | .unionFile _ b => b = true
  | _ => True

theorem obsEq_weaken {p p' : Prop} (h : p' → p) {o : Obs} {so : SObs} (hh : ObsEq p o so) : ObsEq p' o so := by
  cases o <;> cases so <;> first | exact hh | exact fun hp => hh (h hp)

theorem onCur_lift {strict : Prop} {s : Session} {t : SSess} (h : SRel strict s t) (o : Op) (hok : OpOk o)
    (hn : strict → Normalising o) (sop : SOp)
    (hs : (∃ t1 t2 sob, Aegean.Spec.C08.step t.cur (absOp o) = .ok (t1, sob) ∧
              Aegean.Spec.C08.step t.cur sop = .ok (t2, sob) ∧ SEquiv t1 t2) ∨
          (∃ err, Aegean.Spec.C08.step t.cur (absOp o) = .error err ∧
              Aegean.Spec.C08.step t.cur sop = .error err)) :
    (∃ s' ob t' sob, onCur s o = .ok (s', ob) ∧ Aegean.Spec.C08.onCur t sop = .ok (t', sob) ∧
        SRel strict s' t' ∧ ObsEq strict ob sob) ∨
    (∃ e, onCur s o = .error e ∧ Aegean.Spec.C08.onCur t sop = .error (sessErrMap e)) := by
  rcases step_refines o h.valid hok h.rel with ⟨r', ob, s1, sob1, h1, h2, hv', _, hrel', hobs, hnd⟩ | ⟨e, h1, h2⟩
  · rcases hs with ⟨t1, t2, sob, a1, a2, eq⟩ | ⟨err, a1, _⟩
    · rw [h2] at a1
      injection a1 with a1; injection a1 with a1 a1'
      subst a1; subst a1'
      left
      refine ⟨{ s with cur := r' }, ob, { t with cur := t2 }, sob1, by simp only [onCur, h1], by
        simp only [Aegean.Spec.C08.onCur, a2], ⟨hv', rel_of_sequiv hrel' eq, fun hp => hnd (h.nodc hp) (hn hp), h.files⟩,
        obsEq_weaken h.nodc hobs⟩
    · rw [h2] at a1; cases a1
  · rcases hs with ⟨t1, t2, sob, a1, _, _⟩ | ⟨err, a1, a2⟩
    · rw [h2] at a1; cases a1
    · rw [h2] at a1
      injection a1 with a1
      right
      exact ⟨.op e, by simp only [onCur, h1], by simp only [Aegean.Spec.C08.onCur, a2, sessErrMap, a1]⟩

theorem spec_step_self (t : SS) (sop : SOp) :
    (∃ t1 t2 sob, Aegean.Spec.C08.step t sop = .ok (t1, sob) ∧ Aegean.Spec.C08.step t sop = .ok (t2, sob) ∧
        SEquiv t1 t2) ∨
    (∃ err, Aegean.Spec.C08.step t sop = .error err ∧ Aegean.Spec.C08.step t sop = .error err) := by
  cases h : Aegean.Spec.C08.step t sop with
  | ok p => exact Or.inl ⟨p.1, p.1, p.2, rfl, rfl, rfl, fun _ => Iff.rfl⟩
  | error e => exact Or.inr ⟨e, rfl, rfl⟩

theorem withFile_lift {strict : Prop} {s : Session} {t : SSess} (h : SRel strict s t) (f : Nat)
    (mk : Region → Op) (smk : SS → SOp) (habs : ∀ o, absOp (mk o) = smk (absS o))
    (hmk : smk = .union ∨ smk = .without ∨ smk = .intersect ∨ smk = .symdiff)
    (hok : ∀ o, Valid o → OpOk (mk o)) (hn : strict → ∀ o, Normalising (mk o)) :
    (∃ s' ob t' sob, withFile s f mk = .ok (s', ob) ∧ Aegean.Spec.C08.withFile t f smk = .ok (t', sob) ∧
        SRel strict s' t' ∧ ObsEq strict ob sob) ∨
    (∃ e, withFile s f mk = .error e ∧ Aegean.Spec.C08.withFile t f smk = .error (sessErrMap e)) := by
  have hf := h.files f
  cases hsf : s.files f with
  | none =>
    cases htf : t.files f with
    | none =>
      right
      exact ⟨.noFile, by simp only [withFile, hsf], by simp only [Aegean.Spec.C08.withFile, htf, sessErrMap]⟩
    | some u => rw [hsf, htf] at hf; exact hf.elim
  | some o =>
    cases htf : t.files f with
    | none => rw [hsf, htf] at hf; exact hf.elim
    | some u =>
      rw [hsf, htf] at hf
      obtain ⟨vo, ro, _⟩ := hf
      have e : SEquiv (absS o) u := sequiv_of_rel rel_absS ro
      have hs := spec_step_operand_congr t.cur e smk hmk
      rw [← habs o] at hs
      have := onCur_lift h (mk o) (hok o vo) (fun hp => hn hp o) (smk u) (by
        rcases hs with ⟨t1, t2, a1, a2, eq⟩ | ⟨err, a1, a2⟩
        · exact Or.inl ⟨t1, t2, .none, a1, a2, eq⟩
        · exact Or.inr ⟨err, a1, a2⟩)
      simpa only [withFile, hsf, Aegean.Spec.C08.withFile, htf] using this

/-- **one session step**: operations on the current object, `save`, `load` and operations whose operand is
    loaded from a file all keep the simulation; a load makes the current object the saved one on both sides -/
theorem sess_step_refines {strict : Prop} {s : Session} {t : SSess} (op : SessOp) (h : SRel strict s t)
    (hok : SessOpOk op) (hn : strict → SessNormalising op) :
    (∃ s' ob t' sob, sessStep s op = .ok (s', ob) ∧ Aegean.Spec.C08.sessStep t (absSessOp op) = .ok (t', sob) ∧
        SRel strict s' t' ∧ ObsEq strict ob sob) ∨
    (∃ e, sessStep s op = .error e ∧ Aegean.Spec.C08.sessStep t (absSessOp op) = .error (sessErrMap e)) := by
  cases op with
  | op o => exact onCur_lift h o hok hn (absOp o) (spec_step_self _ _)
  | save f =>
    left
    refine ⟨_, .none, _, .none, rfl, rfl, ⟨h.valid, h.rel, h.nodc, fun g => ?_⟩, trivial⟩
    by_cases e : g = f
    · simp only [if_pos e]; exact ⟨h.valid, h.rel, h.nodc⟩
    · simp only [if_neg e]; exact h.files g
  | load f =>
    have hf := h.files f
    cases hsf : s.files f with
    | none =>
      cases htf : t.files f with
      | none =>
        right
        exact ⟨.noFile, by simp only [sessStep, hsf], by
          simp only [absSessOp, Aegean.Spec.C08.sessStep, htf, sessErrMap]⟩
      | some u => rw [hsf, htf] at hf; exact hf.elim
    | some o =>
      cases htf : t.files f with
      | none => rw [hsf, htf] at hf; exact hf.elim
      | some u =>
        rw [hsf, htf] at hf
        left
        exact ⟨{ s with cur := o }, .none, { t with cur := u }, .none, by simp only [sessStep, hsf], by
          simp only [absSessOp, Aegean.Spec.C08.sessStep, htf], ⟨hf.1, hf.2.1, hf.2.2, h.files⟩, trivial⟩
  | unionFile f b =>
    exact withFile_lift h f (fun o => .union o b) .union (fun _ => rfl) (Or.inl rfl) (fun _ v => v)
      (fun hp _ => hn hp)
  | withoutFile f =>
    exact withFile_lift h f .without .without (fun _ => rfl) (Or.inr (Or.inl rfl)) (fun _ v => v)
      (fun _ _ => trivial)
  | intersectFile f =>
    exact withFile_lift h f .intersect .intersect (fun _ => rfl) (Or.inr (Or.inr (Or.inl rfl))) (fun _ v => v)
      (fun _ _ => trivial)
  | symdiffFile f =>
    exact withFile_lift h f .symdiff .symdiff (fun _ => rfl) (Or.inr (Or.inr (Or.inr rfl))) (fun _ v => v)
      (fun _ _ => trivial)

end Aegean.Proofs.C08
