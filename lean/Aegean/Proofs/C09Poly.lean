/-
  C09 — a convex spherical polygon given by half-spaces lies inside every cap of radius ≤ π/2
  that contains its vertices (its circumscribed circle in particular).

  `polyClosed (v₀ :: vs)` is "on the inner side of every edge plane" (what healpix tests, and what
  the Spec calls the polygon).  Convexity is used in the form
      every fan triangle (v₀, vᵢ, vᵢ₊₁) has the orientation of the polygon          (`hfan`).
  Proof: along the fan, `f x = orient · (q · (v₀ × x))` is ≥ 0 at the first vertex (edge v₀v₁) and
  ≤ 0 at the last (edge vₙv₀), so it changes sign across some consecutive pair (a, b)
  (`exists_sign_change`); with the edge constraint of (a, b) the point q lies in the triangle
  (v₀, a, b), i.e. (Cramer, `triangle_decomp`) it is a non-negative combination of v₀, a, b, and
  `cap_convex_sum` applies.
-/
import Aegean.Proofs.C09Chain
import Mathlib.Tactic.FinCases

open Real InnerProductGeometry

namespace Aegean.C09

/-- consecutive pairs of a list -/
def pairs : List E3 → List (E3 × E3)
  | a :: b :: r => (a, b) :: pairs (b :: r)
  | _ => []

theorem mem_pairs_cons {e : E3 × E3} {x : E3} {l : List E3} (h : e ∈ pairs l) : e ∈ pairs (x :: l) := by
  cases l with
  | nil => simp [pairs] at h
  | cons a r => simp only [pairs, List.mem_cons]; exact Or.inr h

theorem mem_pairs_append {e : E3 × E3} {z : E3} : ∀ {l : List E3}, e ∈ pairs l → e ∈ pairs (l ++ [z])
  | [], h => by simp [pairs] at h
  | [a], h => by simp [pairs] at h
  | a :: b :: r, h => by
    simp only [pairs, List.mem_cons] at h
    simp only [List.cons_append, pairs, List.mem_cons]
    rcases h with h | h
    · exact Or.inl h
    · exact Or.inr (by simpa using mem_pairs_append (z := z) h)

theorem last_pair_mem (z : E3) : ∀ (l : List E3) (h : l ≠ []), (l.getLast h, z) ∈ pairs (l ++ [z])
  | [], h => absurd rfl h
  | [a], _ => by simp [pairs]
  | a :: b :: r, _ => by
    have := last_pair_mem z (b :: r) (by simp)
    simp only [List.getLast_cons_cons, List.cons_append, pairs, List.mem_cons]
    exact Or.inr (by simpa using this)

theorem mem_of_mem_pairs {e : E3 × E3} : ∀ {l : List E3}, e ∈ pairs l → e.1 ∈ l ∧ e.2 ∈ l
  | [], h => by simp [pairs] at h
  | [a], h => by simp [pairs] at h
  | a :: b :: r, h => by
    simp only [pairs, List.mem_cons] at h
    rcases h with h | h
    · subst h; simp
    · have := mem_of_mem_pairs h
      exact ⟨List.mem_cons_of_mem _ this.1, List.mem_cons_of_mem _ this.2⟩

theorem zip_append_eq_pairs (z : E3) : ∀ (p : E3) (vs : List E3),
    (p :: vs).zip (vs ++ [z]) = pairs (p :: (vs ++ [z]))
  | p, [] => by simp [pairs]
  | p, a :: vs => by
    have := zip_append_eq_pairs z a vs
    simp only [List.cons_append, List.zip_cons_cons, pairs]
    rw [this]

/-- the cyclic edge list is the list of consecutive pairs of `v₀ :: vs ++ [v₀]` -/
theorem edges_cons (v0 : E3) (vs : List E3) : edges (v0 :: vs) = pairs (v0 :: (vs ++ [v0])) := by
  unfold edges
  rw [show (v0 :: vs).rotate 1 = vs ++ [v0] by simp]
  exact zip_append_eq_pairs v0 v0 vs

/-- discrete intermediate value: non-negative at the head, non-positive at the last element ⇒ a
    consecutive pair across which the sign changes -/
theorem exists_sign_change (f : E3 → ℝ) : ∀ (a : E3) (l : List E3), l ≠ [] → 0 ≤ f a →
    f ((a :: l).getLast (by simp)) ≤ 0 → ∃ e ∈ pairs (a :: l), 0 ≤ f e.1 ∧ f e.2 ≤ 0
  | a, [], h, _, _ => absurd rfl h
  | a, b :: l, _, ha, hlast => by
    by_cases hb : f b ≤ 0
    · exact ⟨(a, b), by simp [pairs], ha, hb⟩
    · have hb' : 0 ≤ f b := le_of_lt (lt_of_not_ge hb)
      have hl : l ≠ [] := by
        intro h0; subst h0; simp at hlast; exact hb hlast
      rw [List.getLast_cons_cons] at hlast
      obtain ⟨e, he, h1, h2⟩ := exists_sign_change f b l hl hb' hlast
      exact ⟨e, mem_pairs_cons he, h1, h2⟩

/-! ### triple product algebra -/

theorem triple_swap23 (x y z : E3) : triple x y z = -triple x z y := by unfold triple; ring

theorem triple_self23 (x y : E3) : triple x y y = 0 := by unfold triple; ring

/-- Cramer's rule: `(a·(b×c)) q = (q·(b×c)) a + (q·(c×a)) b + (q·(a×b)) c` -/
theorem triangle_decomp (q a b c : E3) :
    triple a b c • q = triple q b c • a + triple q c a • b + triple q a b • c := by
  ext i
  fin_cases i <;> simp [triple] <;> ring

/-- a unit vector in the closed triangle (v₀, a, b) (orientation sign carried by `σ`) lies in every
    cap of radius ≤ π/2 containing the three vertices -/
theorem triangle_subset_cap {v0 a b q c : E3} {σ R : ℝ} (h0 : ‖v0‖ = 1) (ha : ‖a‖ = 1) (hb : ‖b‖ = 1)
    (hq : ‖q‖ = 1) (hc : ‖c‖ = 1) (hR0 : 0 ≤ R) (hR : R ≤ π / 2)
    (hT : 0 < σ * triple v0 a b)
    (e1 : 0 ≤ σ * triple q a b) (e2 : 0 ≤ σ * triple q v0 a) (e3 : σ * triple q v0 b ≤ 0)
    (c0 : angle v0 c ≤ R) (ca : angle a c ≤ R) (cb : angle b c ≤ R) : angle q c ≤ R := by
  set T := triple v0 a b with hTdef
  have hσ : σ ≠ 0 := fun h => by simp [h] at hT
  have hT0 : T ≠ 0 := fun h => by simp [h] at hT
  have hD : 0 < σ * T := hT
  have key := triangle_decomp q v0 a b
  have w0 : 0 ≤ triple q a b / T := by
    have : triple q a b / T = (σ * triple q a b) / (σ * T) := by field_simp
    rw [this]; exact div_nonneg e1 (le_of_lt hD)
  have w1 : 0 ≤ triple q b v0 / T := by
    have : triple q b v0 / T = (-(σ * triple q v0 b)) / (σ * T) := by
      rw [triple_swap23 q b v0]; field_simp
    rw [this]; exact div_nonneg (by linarith) (le_of_lt hD)
  have w2 : 0 ≤ triple q v0 a / T := by
    have : triple q v0 a / T = (σ * triple q v0 a) / (σ * T) := by field_simp
    rw [this]; exact div_nonneg e2 (le_of_lt hD)
  have hq' : q = (triple q a b / T) • v0 + (triple q b v0 / T) • a + (triple q v0 a / T) • b := by
    have h := congrArg (fun x => (1 / T) • x) key
    simp only [smul_add, smul_smul] at h
    rw [show 1 / T * T = 1 by field_simp, one_smul] at h
    refine h.trans ?_
    simp only [one_div, inv_mul_eq_div]
  let v : Fin 3 → E3 := ![v0, a, b]
  let w : Fin 3 → ℝ := ![triple q a b / T, triple q b v0 / T, triple q v0 a / T]
  have hsum : ∑ i ∈ Finset.univ, w i • v i = q := by
    rw [Fin.sum_univ_three]; simp only [v, w, Matrix.cons_val_zero, Matrix.cons_val_one, Matrix.cons_val_two,
      Matrix.head_cons, Matrix.tail_cons]; exact hq'.symm
  have := cap_convex_sum (c := c) (R := R) Finset.univ v w
    (by intro i _; fin_cases i <;> simp [v, h0, ha, hb]) hc hR0 hR
    (by intro i _; fin_cases i <;> simp [w, w0, w1, w2])
    (by rw [hsum]; exact hq)
    (by intro i _; fin_cases i <;> simp [v, c0, ca, cb])
  rwa [hsum] at this

/-! ### the polygon -/

/-- **a convex polygon lies inside its circumscribed circle**: every unit vector on the inner side
    of all edge planes of `v₀ :: vs` is within `R` of `c`, if all vertices are (`R ≤ π/2`) and every fan
    triangle `(v₀, vᵢ, vᵢ₊₁)` has the polygon's orientation. -/
theorem polygon_subset_cap (v0 : E3) (vs : List E3) (c : E3) (R : ℝ) (hlen : 2 ≤ vs.length)
    (hunit : ∀ x ∈ v0 :: vs, ‖x‖ = 1) (hc : ‖c‖ = 1) (hR0 : 0 ≤ R) (hR : R ≤ π / 2)
    (hin : ∀ x ∈ v0 :: vs, angle x c ≤ R)
    (hfan : ∀ e ∈ pairs vs, 0 < orient (v0 :: vs) * triple v0 e.1 e.2) :
    ∀ q ∈ polyClosed (v0 :: vs), angle q c ≤ R := by
  intro q hq
  obtain ⟨hq1, hedge⟩ := hq
  rw [edges_cons] at hedge
  set σ := orient (v0 :: vs) with hσ
  have hne : vs ≠ [] := by intro h0; subst h0; simp at hlen
  obtain ⟨w1, rest, rfl⟩ := List.exists_cons_of_ne_nil hne
  -- the sign function along the fan
  let f : E3 → ℝ := fun x => σ * triple q v0 x
  have hfirst : 0 ≤ f w1 := hedge (v0, w1) (by simp [pairs])
  have hlast : f ((w1 :: rest).getLast (by simp)) ≤ 0 := by
    have hm : ((w1 :: rest).getLast (by simp), v0) ∈ pairs (v0 :: ((w1 :: rest) ++ [v0])) :=
      mem_pairs_cons (last_pair_mem v0 (w1 :: rest) (by simp))
    have := hedge _ hm
    simp only at this
    rw [triple_swap23] at this
    simp only [f]; linarith
  have hr : rest ≠ [] := by
    intro h0; subst h0; simp at hlen
  obtain ⟨e, he, h1, h2⟩ := exists_sign_change f w1 rest hr hfirst hlast
  have hmem := mem_of_mem_pairs he
  have hedge_e : 0 ≤ σ * triple q e.1 e.2 :=
    hedge e (mem_pairs_cons (mem_pairs_append he))
  have hTe := hfan e he
  exact triangle_subset_cap (hunit v0 (by simp)) (hunit e.1 (List.mem_cons_of_mem _ hmem.1))
    (hunit e.2 (List.mem_cons_of_mem _ hmem.2)) hq1 hc hR0 hR hTe hedge_e h1 h2
    (hin v0 (by simp)) (hin e.1 (List.mem_cons_of_mem _ hmem.1)) (hin e.2 (List.mem_cons_of_mem _ hmem.2))

end Aegean.C09
