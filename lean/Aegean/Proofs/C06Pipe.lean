/-
  C06 — lemmas lifting the sigma-clipping laws (C06Clip) and the interpolation laws (C06Interp) through
  the BANE pipeline model: tabulation (`run_eq`), boxes, node values, one pass over all stripes, the
  background subtraction.  The property theorems are in `Aegean/Properties/C06.lean`.
-/
import Aegean.Proofs.C06Interp
namespace Aegean.Proofs.C06
open Aegean.Model.C06

theorem get_mkTab {β : Type} (n m : Nat) (f : Nat → Nat → β) (i j : Nat) :
    (mkTab n m f).get f i j = f i j := by
  unfold Tab.get mkTab
  by_cases hi : i < n
  · by_cases hj : j < m
    · simp [hi, hj]
    · simp [hi, hj]
  · simp [hi]

theorem passTab_get (G : Geom) (stripes : List Stripe) (sel : ℝ × ℝ → ℝ) (dOf : Stripe → Img ℝ) (y x : Nat) :
    (passTab G stripes sel dOf).get (passFn G stripes sel dOf) y x = passFn G stripes sel dOf y x := by
  have h : passTab G stripes sel dOf = mkTab G.R G.C (passFn G stripes sel dOf) := by
    unfold passTab
    show mkTab G.R G.C _ = _
    congr 1
    funext y x
    simp only [passFn, stripeAt, List.find?_map, Function.comp_def]
    cases hS : stripes.find? (fun S => S.has y) with
    | none => simp
    | some S =>
      simp only [Option.map_some]
      congr 1
      funext i j
      exact get_mkTab _ _ _ i j
  rw [h, get_mkTab]

/-- **run_eq**: the tabulated pipeline the driver executes is the plain pipeline the theorems are about -/
theorem run_eq (mode : Mode) (mask : Bool) (G : Geom) (stripes : List Stripe) (img : Img ℝ) :
    run mode mask G stripes img = bane mode mask G stripes img := by
  have hB : (passTab G stripes Prod.fst (fun S => cut G S img)).get (bkgFn G stripes img) = bkgFn G stripes img := by
    funext y x; exact passTab_get G stripes Prod.fst _ y x
  have hR : (passTab G stripes Prod.snd (fun S => d2Fn mode G S img (bkgFn G stripes img))).get (rmsFn mode G stripes img)
      = rmsFn mode G stripes img := by
    funext y x; exact passTab_get G stripes Prod.snd _ y x
  simp only [run, hB, hR, bane]
  rfl

/-! ### boxes -/

theorem boxvals_map (G : Geom) (dn : Nat) (d : Img ℝ) (f : ℝ → ℝ) (r c : Nat) :
    boxvals G dn (fun rr cc => (d rr cc).map f) r c = (boxvals G dn d r c).map (Option.map f) := by
  simp only [boxvals, List.map_flatMap, List.map_map, Function.comp_def]

theorem mem_boxvals (G : Geom) (dn : Nat) (d : Img ℝ) (r c : Nat) (v : Option ℝ) :
    v ∈ boxvals G dn d r c ↔ ∃ rr cc, (r - G.bY / 2 ≤ rr ∧ rr < min (dn - G.e) (r + G.bY / 2)) ∧
      (c - G.bX / 2 ≤ cc ∧ cc < min (G.C - G.e) (c + G.bX / 2)) ∧ v = d rr cc := by
  simp only [boxvals, List.mem_flatMap, List.mem_map, List.mem_range'_1]
  constructor
  · rintro ⟨rr, hr, cc, hc, rfl⟩
    exact ⟨rr, cc, by omega, by omega, rfl⟩
  · rintro ⟨rr, cc, hr, hc, rfl⟩
    exact ⟨rr, by omega, cc, by omega, rfl⟩

/-- a box only reads rows `< dn - e` and columns `< C - e` of the stripe's data -/
theorem boxvals_congr (G : Geom) (dn : Nat) (d d' : Img ℝ) (r c : Nat)
    (h : ∀ rr cc, rr < dn - G.e → cc < G.C - G.e → d rr cc = d' rr cc) :
    boxvals G dn d r c = boxvals G dn d' r c := by
  simp only [boxvals]
  apply List.flatMap_congr
  intro rr hr
  apply List.map_congr_left
  intro cc hc
  rw [List.mem_range'_1] at hr hc
  exact h rr cc (by omega) (by omega)

theorem boxvals_eq_nil (G : Geom) (dn : Nat) (d : Img ℝ) (r c : Nat) (h : dn ≤ G.e) : boxvals G dn d r c = [] := by
  have : dn - G.e = 0 := by omega
  simp [boxvals, this]

/-! ### node values -/

theorem sigmaclip_map_fst_shift (n : Nat) (arr : List (Option ℝ)) (k : ℝ) :
    (sigmaclip n (arr.map (Option.map (· + k)))).map Prod.fst = ((sigmaclip n arr).map Prod.fst).map (· + k) := by
  rw [sigmaclip_shift]; cases sigmaclip n arr <;> rfl

theorem sigmaclip_map_snd_shift (n : Nat) (arr : List (Option ℝ)) (k : ℝ) :
    (sigmaclip n (arr.map (Option.map (· + k)))).map Prod.snd = (sigmaclip n arr).map Prod.snd := by
  rw [sigmaclip_shift]; cases sigmaclip n arr <;> rfl

theorem sigmaclip_map_fst_scale (n : Nat) (arr : List (Option ℝ)) (k : ℝ) :
    (sigmaclip n (arr.map (Option.map (k * ·)))).map Prod.fst = ((sigmaclip n arr).map Prod.fst).map (k * ·) := by
  rw [sigmaclip_scale]; cases sigmaclip n arr <;> rfl

theorem sigmaclip_map_snd_scale (n : Nat) (arr : List (Option ℝ)) (k : ℝ) :
    (sigmaclip n (arr.map (Option.map (k * ·)))).map Prod.snd = ((sigmaclip n arr).map Prod.snd).map (|k| * ·) := by
  rw [sigmaclip_scale]; cases sigmaclip n arr <;> rfl

theorem nodeVal_shift_fst (G : Geom) (S : Stripe) (d : Img ℝ) (k : ℝ) (i j : Nat) :
    nodeVal G S Prod.fst (fun r c => (d r c).map (· + k)) i j = (nodeVal G S Prod.fst d i j).map (· + k) := by
  simp only [nodeVal, boxvals_map, sigmaclip_map_fst_shift]

theorem nodeVal_shift_snd (G : Geom) (S : Stripe) (d : Img ℝ) (k : ℝ) (i j : Nat) :
    nodeVal G S Prod.snd (fun r c => (d r c).map (· + k)) i j = nodeVal G S Prod.snd d i j := by
  simp only [nodeVal, boxvals_map, sigmaclip_map_snd_shift]

theorem nodeVal_scale_fst (G : Geom) (S : Stripe) (d : Img ℝ) (k : ℝ) (i j : Nat) :
    nodeVal G S Prod.fst (fun r c => (d r c).map (k * ·)) i j = (nodeVal G S Prod.fst d i j).map (k * ·) := by
  simp only [nodeVal, boxvals_map, sigmaclip_map_fst_scale]

theorem nodeVal_scale_snd (G : Geom) (S : Stripe) (d : Img ℝ) (k : ℝ) (i j : Nat) :
    nodeVal G S Prod.snd (fun r c => (d r c).map (k * ·)) i j = (nodeVal G S Prod.snd d i j).map (|k| * ·) := by
  simp only [nodeVal, boxvals_map, sigmaclip_map_snd_scale]

/-- node values only depend on the part of the data that boxes can read -/
theorem nodeVal_congr (G : Geom) (S : Stripe) (sel : ℝ × ℝ → ℝ) (d d' : Img ℝ) (i j : Nat)
    (h : ∀ rr cc, rr < G.dn S - G.e → cc < G.C - G.e → d rr cc = d' rr cc) :
    nodeVal G S sel d i j = nodeVal G S sel d' i j := by
  simp only [nodeVal, boxvals_congr G (G.dn S) d d' _ _ h]

theorem nodeVal_none_of_small (G : Geom) (S : Stripe) (sel : ℝ × ℝ → ℝ) (d : Img ℝ) (i j : Nat)
    (h : G.dn S ≤ G.e) : nodeVal G S sel d i j = none := by
  simp [nodeVal, boxvals_eq_nil G _ d _ _ h, sigmaclip]

/-- mean node in `[a, b]`, std node in `[0, (b - a)/2]` when every finite pixel a box can read is in `[a, b]` -/
theorem nodeVal_range (G : Geom) (S : Stripe) (d : Img ℝ) (i j : Nat) (a b : ℝ)
    (h : ∀ rr cc v, rr < G.dn S - G.e → cc < G.C - G.e → d rr cc = some v → a ≤ v ∧ v ≤ b) :
    (∀ w, nodeVal G S Prod.fst d i j = some w → a ≤ w ∧ w ≤ b) ∧
    (∀ w, nodeVal G S Prod.snd d i j = some w → 0 ≤ w ∧ w ≤ (b - a) / 2) := by
  have hb : ∀ v, some v ∈ boxvals G (G.dn S) d (G.nodeR S i) (G.nodeC j) → a ≤ v ∧ v ≤ b := by
    intro v hv
    rw [mem_boxvals] at hv
    obtain ⟨rr, cc, hr, hc, e⟩ := hv
    exact h rr cc v (by omega) (by omega) e.symm
  constructor
  · intro w hw
    simp only [nodeVal] at hw
    cases hp : sigmaclip 10 (boxvals G (G.dn S) d (G.nodeR S i) (G.nodeC j)) with
    | none => rw [hp] at hw; cases hw
    | some p =>
      rw [hp] at hw
      have := sigmaclip_range 10 _ a b hb p hp
      simp only [Option.map_some, Option.some.injEq] at hw
      rw [← hw]; exact ⟨this.1, this.2.1⟩
  · intro w hw
    simp only [nodeVal] at hw
    cases hp : sigmaclip 10 (boxvals G (G.dn S) d (G.nodeR S i) (G.nodeC j)) with
    | none => rw [hp] at hw; cases hw
    | some p =>
      rw [hp] at hw
      have := sigmaclip_range 10 _ a b hb p hp
      simp only [Option.map_some, Option.some.injEq] at hw
      rw [← hw]; exact ⟨this.2.2.1, this.2.2.2⟩

/-- all readable finite pixels equal `k`: mean node is `k`, std node is `0` -/
theorem nodeVal_const (G : Geom) (S : Stripe) (d : Img ℝ) (i j : Nat) (k : ℝ)
    (h : ∀ rr cc v, rr < G.dn S - G.e → cc < G.C - G.e → d rr cc = some v → v = k) :
    (∀ w, nodeVal G S Prod.fst d i j = some w → w = k) ∧
    (∀ w, nodeVal G S Prod.snd d i j = some w → w = 0) := by
  have hr := nodeVal_range G S d i j k k (fun rr cc v h1 h2 h3 => by rw [h rr cc v h1 h2 h3]; exact ⟨le_refl _, le_refl _⟩)
  constructor
  · intro w hw; have := hr.1 w hw; linarith [this.1, this.2]
  · intro w hw; have := hr.2 w hw; linarith [this.1, this.2]

/-- a node is finite as soon as its box is non-empty and everything it can read is finite -/
theorem nodeVal_isSome (G : Geom) (S : Stripe) (sel : ℝ × ℝ → ℝ) (d : Img ℝ) (i j : Nat)
    (hY : G.e < G.bY / 2) (hX : G.e < G.bX / 2) (hR : G.e < G.R) (hC : G.e < G.C)
    (hS : S.ymin < S.ymax ∧ S.ymax ≤ G.R)
    (h : ∀ rr cc, rr < G.dn S - G.e → cc < G.C - G.e → (d rr cc).isSome) :
    (nodeVal G S sel d i j).isSome := by
  have hr : G.nodeR S i ≤ G.rEnd S := Nat.min_le_right _ _
  have hc : G.nodeC j ≤ G.C := Nat.min_le_right _ _
  simp only [nodeVal, Option.isSome_map]
  generalize G.nodeR S i = r at hr ⊢
  generalize G.nodeC j = c at hc ⊢
  rw [sigmaclip_isSome_iff]
  simp only [Geom.rEnd, Geom.drmin] at hr
  have hdn : G.dn S = min G.R (S.ymax + G.bY / 2) - (S.ymin - G.bY / 2) := rfl
  -- a row and a column inside the box
  have hrow : r - G.bY / 2 < min (G.dn S - G.e) (r + G.bY / 2) := by omega
  have hcol : c - G.bX / 2 < min (G.C - G.e) (c + G.bX / 2) := by omega
  have hs := h (r - G.bY / 2) (c - G.bX / 2) (by omega) (by omega)
  obtain ⟨v, hv⟩ := Option.isSome_iff_exists.mp hs
  refine ⟨v, ?_⟩
  rw [mem_boxvals]
  exact ⟨r - G.bY / 2, c - G.bX / 2, ⟨le_refl _, hrow⟩, ⟨le_refl _, hcol⟩, hv.symm⟩

/-! ### one pass over all stripes -/

theorem stripeAt_mem {stripes : List Stripe} {y : Nat} {S : Stripe} (h : stripeAt stripes y = some S) :
    S ∈ stripes ∧ S.has y = true := by
  unfold stripeAt at h
  exact ⟨List.mem_of_find?_eq_some h, by simpa using List.find?_some h⟩

theorem has_bracket (G : Geom) (S : Stripe) (y : Nat) (h : S.has y = true) :
    G.r0 S ≤ y - G.drmin S ∧ y - G.drmin S < G.rEnd S ∧ G.drmin S + (y - G.drmin S) = y := by
  simp only [Stripe.has, Bool.and_eq_true, decide_eq_true_eq] at h
  simp only [Geom.r0, Geom.rEnd, Geom.drmin]
  omega

theorem passFn_shift (G : Geom) (stripes : List Stripe) (sel : ℝ × ℝ → ℝ) (dOf dOf' : Stripe → Img ℝ) (k : ℝ)
    (h : ∀ S ∈ stripes, ∀ i j, nodeVal G S sel (dOf' S) i j = (nodeVal G S sel (dOf S) i j).map (· + k))
    (y x : Nat) : passFn G stripes sel dOf' y x = (passFn G stripes sel dOf y x).map (· + k) := by
  unfold passFn
  cases hS : stripeAt stripes y with
  | none => rfl
  | some S =>
    have e : nodeVal G S sel (dOf' S) = fun i j => (nodeVal G S sel (dOf S) i j).map (· + k) := by
      funext i j; exact h S (stripeAt_mem hS).1 i j
    simp only [e, interp_shift]

theorem passFn_scale (G : Geom) (stripes : List Stripe) (sel : ℝ × ℝ → ℝ) (dOf dOf' : Stripe → Img ℝ) (k : ℝ)
    (h : ∀ S ∈ stripes, ∀ i j, nodeVal G S sel (dOf' S) i j = (nodeVal G S sel (dOf S) i j).map (k * ·))
    (y x : Nat) : passFn G stripes sel dOf' y x = (passFn G stripes sel dOf y x).map (k * ·) := by
  unfold passFn
  cases hS : stripeAt stripes y with
  | none => rfl
  | some S =>
    have e : nodeVal G S sel (dOf' S) = fun i j => (nodeVal G S sel (dOf S) i j).map (k * ·) := by
      funext i j; exact h S (stripeAt_mem hS).1 i j
    simp only [e, interp_scale]

theorem passFn_congr (G : Geom) (stripes : List Stripe) (sel : ℝ × ℝ → ℝ) (dOf dOf' : Stripe → Img ℝ)
    (h : ∀ S ∈ stripes, ∀ i j, nodeVal G S sel (dOf' S) i j = nodeVal G S sel (dOf S) i j)
    (y x : Nat) : passFn G stripes sel dOf' y x = passFn G stripes sel dOf y x := by
  unfold passFn
  cases hS : stripeAt stripes y with
  | none => rfl
  | some S =>
    have e : nodeVal G S sel (dOf' S) = nodeVal G S sel (dOf S) := by
      funext i j; exact h S (stripeAt_mem hS).1 i j
    simp only [e]

theorem passFn_range (G : Geom) (stripes : List Stripe) (sel : ℝ × ℝ → ℝ) (dOf : Stripe → Img ℝ) (lo hi : ℝ)
    (hgy : 0 < G.gy) (hgx : 0 < G.gx)
    (hv : ∀ S ∈ stripes, ∀ i j w, nodeVal G S sel (dOf S) i j = some w → lo ≤ w ∧ w ≤ hi)
    (y x : Nat) (hx : x < G.C) (w : ℝ) (hw : passFn G stripes sel dOf y x = some w) : lo ≤ w ∧ w ≤ hi := by
  unfold passFn at hw
  cases hS : stripeAt stripes y with
  | none => rw [hS] at hw; cases hw
  | some S =>
    rw [hS] at hw
    have hm := stripeAt_mem hS
    have hb := has_bracket G S y hm.2
    exact interp_convex G S _ _ x lo hi hgy hgx hb.1 hb.2.1 hx (hv S hm.1) w hw

theorem passFn_const (G : Geom) (stripes : List Stripe) (sel : ℝ × ℝ → ℝ) (dOf : Stripe → Img ℝ) (k : ℝ)
    (hv : ∀ S ∈ stripes, ∀ i j w, nodeVal G S sel (dOf S) i j = some w → w = k)
    (y x : Nat) (w : ℝ) (hw : passFn G stripes sel dOf y x = some w) : w = k := by
  unfold passFn at hw
  cases hS : stripeAt stripes y with
  | none => rw [hS] at hw; cases hw
  | some S =>
    rw [hS] at hw
    exact interp_const G S _ k _ x (hv S (stripeAt_mem hS).1) w hw

theorem passFn_isSome (G : Geom) (stripes : List Stripe) (sel : ℝ × ℝ → ℝ) (dOf : Stripe → Img ℝ)
    (y x : Nat) (hy : (stripeAt stripes y).isSome)
    (hv : ∀ S ∈ stripes, ∀ i j, (nodeVal G S sel (dOf S) i j).isSome) :
    (passFn G stripes sel dOf y x).isSome := by
  unfold passFn
  cases hS : stripeAt stripes y with
  | none => rw [hS] at hy; cases hy
  | some S =>
    have hm := (stripeAt_mem hS).1
    simp only [interp_isSome, hv S hm, Bool.and_self]

/-! ### the transformed images and the subtraction -/

def shiftImg (k : ℝ) (img : Img ℝ) : Img ℝ := fun y x => (img y x).map (· + k)
def scaleImg (k : ℝ) (img : Img ℝ) : Img ℝ := fun y x => (img y x).map (k * ·)

theorem osub_shift (a b : Option ℝ) (k : ℝ) : osub (a.map (· + k)) (b.map (· + k)) = osub a b := by
  cases a <;> cases b <;> simp [osub]

theorem osub_scale (a b : Option ℝ) (k : ℝ) : osub (a.map (k * ·)) (b.map (k * ·)) = (osub a b).map (k * ·) := by
  cases a <;> cases b <;> simp [osub]
  ring

theorem osub_eq_some {a b : Option ℝ} {v : ℝ} (h : osub a b = some v) : ∃ p q, a = some p ∧ b = some q ∧ v = p - q := by
  cases a <;> cases b <;> simp [osub] at h
  exact ⟨_, _, rfl, rfl, h.symm⟩

theorem osub_isSome (a b : Option ℝ) : (osub a b).isSome = (a.isSome && b.isSome) := by
  cases a <;> cases b <;> simp [osub]

theorem d2Fn_all_shift (G : Geom) (S : Stripe) (img B : Img ℝ) (k : ℝ) :
    d2Fn Mode.all G S (shiftImg k img) (fun y x => (B y x).map (· + k)) = d2Fn Mode.all G S img B := by
  funext r c
  simp [d2Fn, cut, shiftImg, osub_shift]

/-- the defect of the pinned subtraction in one line: on a row the stripe does not own the offset survives -/
theorem d2Fn_own_leaks_offset (G : Geom) (S : Stripe) (img B : Img ℝ) (k : ℝ) (r c : Nat)
    (hr : ¬ (G.r0 S ≤ r ∧ r < G.rEnd S)) :
    d2Fn Mode.own G S (shiftImg k img) (fun y x => (B y x).map (· + k)) r c
      = (d2Fn Mode.own G S img B r c).map (· + k) := by
  have : (decide (G.r0 S ≤ r) && decide (r < G.rEnd S)) = false := by
    rw [Bool.eq_false_iff]; intro h
    simp only [Bool.and_eq_true, decide_eq_true_eq] at h; exact hr h
  simp [d2Fn, this, cut, shiftImg]

theorem d2Fn_scale (mode : Mode) (G : Geom) (S : Stripe) (img B : Img ℝ) (k : ℝ) (r c : Nat) :
    d2Fn mode G S (scaleImg k img) (fun y x => (B y x).map (k * ·)) r c = (d2Fn mode G S img B r c).map (k * ·) := by
  simp only [d2Fn, cut, scaleImg]
  split
  · exact osub_scale _ _ k
  · rfl
end Aegean.Proofs.C06
