/-
  C03 — the flag data-flow re-assembled from the regenerated pieces coincides with the hand model.
-/
import Mathlib.Tactic.SplitIfs
import Aegean.Model.C03Gen
import Aegean.Proofs.C03

namespace Aegean.Proofs.C03
open Aegean.Model.C03

/-- obligation: the seven constants of flags.py are the model's (1, 2, 4, 8, 16, 32, 64) -/
theorem gen_flag_values :
    Gen.C03.flagFITERRSMALL = FITERRSMALL ∧ Gen.C03.flagFITERR = FITERR ∧ Gen.C03.flagFIXED2PSF = FIXED2PSF ∧
    Gen.C03.flagFIXEDCIRCULAR = FIXEDCIRCULAR ∧ Gen.C03.flagNOTFIT = NOTFIT ∧ Gen.C03.flagWCSERR = WCSERR ∧
    Gen.C03.flagPRIORIZED = PRIORIZED := by
  refine ⟨?_, ?_, ?_, ?_, ?_, ?_, ?_⟩ <;> first | rfl | decide

theorem gen_estimateIsFlag (n m : Nat) : estimateIsFlagGl n m = estimateIsFlag n m := by
  obtain ⟨h1, _, h3, _⟩ := gen_flag_values
  unfold estimateIsFlagGl estimateIsFlag
  rw [h1, h3]
  simp only [Gen.C03.estimateIsFlagG, estimateIsFlagGHand, FIXED2PSF, FITERRSMALL]
  split_ifs <;> simp_all <;> omega

theorem gen_summitFlag (isf j m : Nat) :
    summitFlagGl isf (some m) j = summitFlag isf (decide (m ≤ j)) := by
  obtain ⟨_, _, h3, _, h5, _⟩ := gen_flag_values
  unfold summitFlagGl summitFlag
  simp only [h3, h5, Gen.C03.summitFlagG, summitFlagGHand, ge_iff_le, decide_eq_true_eq]

theorem gen_summitFlag_none (isf j : Nat) : summitFlagGl isf none j = summitFlag isf false := by
  simp [summitFlagGl, summitFlag]

theorem gen_fitIsFlag (nn free : Nat) (eb su : Bool) :
    fitIsFlagGl nn free eb su = fitIsFlag (decide (free ≤ nn) && decide (free ≠ 0)) eb su := by
  obtain ⟨_, h2, _, _, h5, _⟩ := gen_flag_values
  unfold fitIsFlagGl fitIsFlag
  simp only [h2, h5, Gen.C03.fitIsFlagG, fitIsFlagGHand, b2n, NOTFIT, FITERR]
  cases eb <;> cases su <;> by_cases hf : free = 0 <;> by_cases hl : nn < free <;> simp [hf, hl] <;> omega

theorem gen_componentFlags (isf mf : Nat) (wf : Bool) : componentFlagsGl isf mf wf = componentFlags isf mf wf := by
  obtain ⟨_, _, _, _, _, h6, _⟩ := gen_flag_values
  unfold componentFlagsGl componentFlags
  simp only [h6, Gen.C03.componentFlagsG, componentFlagsGHand, b2n]
  cases wf <;> simp

theorem gen_refitFlags (inp : Nat) (nf wf : Bool) (stage : Nat) : refitFlagsG inp nf wf stage = refitFlags inp nf wf stage := by
  obtain ⟨_, _, h3, _, h5, _, h7⟩ := gen_flag_values
  unfold refitFlagsG refitFlags
  rw [gen_componentFlags]
  simp only [h3, h5, h7, Gen.C03.refitMarkG, refitMarkGHand]

theorem gen_notFitMask : notFitMaskG = NOTFIT ||| FITERR := by
  obtain ⟨_, h2, _, _, h5, _⟩ := gen_flag_values
  simp only [notFitMaskG, h2, h5, Gen.C03.errMaskG, errMaskGHand]

theorem gen_blindIslandFlags (nn ms : Nat) (mxs : Option Nat) (nc : Nat) (eb su : Bool) (wcs : List Bool) :
    blindIslandFlagsG nn ms mxs nc eb su wcs = blindIslandFlags nn ms mxs nc eb su wcs := by
  have hs : ∀ isf j, summitFlagGl isf mxs j =
      summitFlag isf (match mxs with | none => false | some m => decide (m ≤ j)) := by
    intro isf j
    cases mxs with
    | none => exact gen_summitFlag_none isf j
    | some m => exact gen_summitFlag isf j m
  unfold blindIslandFlagsG blindIslandFlags blindFlags
  simp only [hs, gen_estimateIsFlag, gen_fitIsFlag, gen_componentFlags]
  first | rfl | congr!

end Aegean.Proofs.C03
