/-
  The ℝ interpretation of the numeric interface `R` (Aegean/Num.lean).  Theorems about numeric
  models are stated at `α := ℝ`; the driver runs the same definitions at `α := Float`.
  `atan2 y x` is `Complex.arg (x + i y)`, which is the C/numpy convention including
  `atan2 0 0 = 0` and the branch cut on the negative real axis with value `π`.
-/
import Mathlib.Analysis.SpecialFunctions.Trigonometric.Inverse
import Mathlib.Analysis.SpecialFunctions.Complex.Arg
import Mathlib.Analysis.SpecialFunctions.Exp
import Mathlib.Analysis.SpecialFunctions.Sqrt
import Mathlib.Tactic.Ring
import Aegean.Num

noncomputable instance instRReal : R ℝ where
  ofNat n := (n : ℝ)
  ofSci m s e := (OfScientific.ofScientific m s e : ℝ)
  pi := Real.pi
  sqrt := Real.sqrt
  sin := Real.sin
  cos := Real.cos
  exp := Real.exp
  asin := Real.arcsin
  atan2 y x := Complex.arg ⟨x, y⟩
  min := min
  max := max
  abs x := |x|

namespace R
@[simp] theorem real_ofNat (n : Nat) : (R.ofNat n : ℝ) = (n : ℝ) := rfl
@[simp] theorem real_pi : (R.pi : ℝ) = Real.pi := rfl
@[simp] theorem real_sqrt (x : ℝ) : R.sqrt x = Real.sqrt x := rfl
@[simp] theorem real_sin (x : ℝ) : R.sin x = Real.sin x := rfl
@[simp] theorem real_cos (x : ℝ) : R.cos x = Real.cos x := rfl
@[simp] theorem real_exp (x : ℝ) : R.exp x = Real.exp x := rfl
@[simp] theorem real_asin (x : ℝ) : R.asin x = Real.arcsin x := rfl
@[simp] theorem real_atan2 (y x : ℝ) : R.atan2 y x = Complex.arg ⟨x, y⟩ := rfl
@[simp] theorem real_min (x y : ℝ) : R.min x y = Min.min x y := rfl
@[simp] theorem real_max (x y : ℝ) : R.max x y = Max.max x y := rfl
@[simp] theorem real_abs (x : ℝ) : R.abs x = |x| := rfl
@[simp] theorem real_ofSci (m : Nat) (s : Bool) (e : Nat) :
    (R.ofSci m s e : ℝ) = (OfScientific.ofScientific m s e : ℝ) := rfl
theorem real_radians (x : ℝ) : R.radians x = x * (Real.pi / 180) := by
  simp [R.radians]
theorem real_degrees (x : ℝ) : R.degrees x = x * (180 / Real.pi) := by
  simp [R.degrees]
@[simp] theorem real_npow (x : ℝ) (n : Nat) : R.npow x n = x ^ n := by
  induction n using Nat.strongRecOn with
  | _ n ih =>
    match n with
    | 0 => simp [R.npow]
    | 1 => simp [R.npow]
    | k+2 => rw [R.npow, ih (k+1) (by omega)]; ring
theorem real_hypot (x y : ℝ) : R.hypot x y = Real.sqrt (x * x + y * y) := rfl
end R
