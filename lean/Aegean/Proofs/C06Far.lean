/-
  C06 — (a) the pinned own-rows subtraction coincides with the repaired one when there is a single
  stripe; (b) the metric form of the mask clause: a pixel farther than box/2 + grid (row distance or
  column distance, the boxes being rectangles) from every blank pixel is finite in both maps.
-/
import Aegean.Proofs.C06Pipe

namespace Aegean.Proofs.C06
open Aegean.Model.C06

/-! ### one stripe: `Mode.own` = `Mode.all` -/

theorem rmsFn_own_single (G : Geom) (img : Img ℝ) (y x : Nat) :
    rmsFn Mode.own G [⟨0, G.R⟩] img y x = rmsFn Mode.all G [⟨0, G.R⟩] img y x := by
  unfold rmsFn
  apply passFn_congr
  intro S hS i j
  rw [List.mem_singleton] at hS
  subst hS
  apply nodeVal_congr
  intro rr cc hr _
  simp only [Geom.dn, Geom.drmax, Geom.drmin] at hr
  have h1 : G.r0 ⟨0, G.R⟩ ≤ rr := by simp only [Geom.r0, Geom.drmin]; omega
  have h2 : rr < G.rEnd ⟨0, G.R⟩ := by simp only [Geom.rEnd, Geom.drmin]; omega
  simp [d2Fn, h1, h2]

/-! ### grid geometry -/

theorem nodeR_step (G : Geom) (S : Stripe) (k : Nat) : G.nodeR S (k + 1) ≤ G.nodeR S k + G.gy := by
  simp only [Geom.nodeR, Nat.succ_mul]
  omega

theorem nodeC_step (G : Geom) (j : Nat) : G.nodeC (j + 1) ≤ G.nodeC j + G.gx := by
  simp only [Geom.nodeC, Nat.succ_mul]
  omega

theorem nodeR_index (G : Geom) (S : Stripe) (rr k : Nat) (h1 : rr < G.rEnd S)
    (hlo : G.nodeR S k ≤ rr) (hhi : rr < G.nodeR S (k + 1)) : (rr - G.r0 S) / G.gy = k := by
  simp only [Geom.nodeR, Nat.succ_mul] at hlo hhi
  apply Nat.div_eq_of_lt_le
  · omega
  · rw [Nat.succ_mul]; omega

theorem nodeC_index (G : Geom) (cc j : Nat) (h1 : cc < G.C)
    (hlo : G.nodeC j ≤ cc) (hhi : cc < G.nodeC (j + 1)) : cc / G.gx = j := by
  simp only [Geom.nodeC, Nat.succ_mul] at hlo hhi
  apply Nat.div_eq_of_lt_le
  · omega
  · rw [Nat.succ_mul]; omega

theorem rEnd_le_dn (G : Geom) (S : Stripe) (hS : S.ymin < S.ymax ∧ S.ymax ≤ G.R) : G.rEnd S ≤ G.dn S := by
  simp only [Geom.rEnd, Geom.dn, Geom.drmax, Geom.drmin]; omega

/-- for either grid row around the pixel row `yr` there is a row inside that node's box which lies in the
    same grid interval as `yr` (hence within `gy` of it) -/
theorem row_witness (G : Geom) (S : Stripe) (yr : Nat) (hg : 0 < G.gy) (hY : 1 ≤ G.bY / 2) (he : G.e = 0)
    (hS : S.ymin < S.ymax ∧ S.ymax ≤ G.R) (h0 : G.r0 S ≤ yr) (h1 : yr < G.rEnd S) (k' : Nat)
    (hk : k' = (yr - G.r0 S) / G.gy ∨ k' = (yr - G.r0 S) / G.gy + 1) :
    ∃ rr, (G.nodeR S k' - G.bY / 2 ≤ rr ∧ rr < min (G.dn S - G.e) (G.nodeR S k' + G.bY / 2)) ∧
      G.r0 S ≤ rr ∧ rr < G.rEnd S ∧ (rr - G.r0 S) / G.gy = (yr - G.r0 S) / G.gy ∧
      rr ≤ yr + G.gy ∧ yr ≤ rr + G.gy := by
  have hb := nodeR_bracket G S yr hg h0 h1
  have hst := nodeR_step G S ((yr - G.r0 S) / G.gy)
  have hdn := rEnd_le_dn G S hS
  have hend : G.nodeR S ((yr - G.r0 S) / G.gy + 1) ≤ G.rEnd S := Nat.min_le_right _ _
  have hlo0 : G.r0 S ≤ G.nodeR S ((yr - G.r0 S) / G.gy) := by
    simp only [Geom.nodeR]; omega
  rcases hk with rfl | rfl
  · refine ⟨min yr (G.nodeR S ((yr - G.r0 S) / G.gy) + G.bY / 2 - 1), ⟨by omega, by omega⟩, by omega, by omega, ?_,
      by omega, by omega⟩
    exact nodeR_index G S _ _ (by omega) (by omega) (by omega)
  · refine ⟨max yr (G.nodeR S ((yr - G.r0 S) / G.gy + 1) - G.bY / 2), ⟨by omega, by omega⟩, by omega, by omega, ?_,
      by omega, by omega⟩
    exact nodeR_index G S _ _ (by omega) (by omega) (by omega)

theorem col_witness (G : Geom) (x : Nat) (hg : 0 < G.gx) (hX : 1 ≤ G.bX / 2) (he : G.e = 0)
    (h1 : x < G.C) (j' : Nat) (hj : j' = x / G.gx ∨ j' = x / G.gx + 1) :
    ∃ cc, (G.nodeC j' - G.bX / 2 ≤ cc ∧ cc < min (G.C - G.e) (G.nodeC j' + G.bX / 2)) ∧
      cc < G.C ∧ cc / G.gx = x / G.gx ∧ cc ≤ x + G.gx ∧ x ≤ cc + G.gx := by
  have hb := nodeC_bracket G x hg h1
  have hst := nodeC_step G (x / G.gx)
  have hend : G.nodeC (x / G.gx + 1) ≤ G.C := Nat.min_le_right _ _
  rcases hj with rfl | rfl
  · refine ⟨min x (G.nodeC (x / G.gx) + G.bX / 2 - 1), ⟨by omega, by omega⟩, by omega, ?_, by omega, by omega⟩
    exact nodeC_index G _ _ (by omega) (by omega) (by omega)
  · refine ⟨max x (G.nodeC (x / G.gx + 1) - G.bX / 2), ⟨by omega, by omega⟩, by omega, ?_, by omega, by omega⟩
    exact nodeC_index G _ _ (by omega) (by omega) (by omega)

/-- **what the code guarantees for a node**: one finite pixel inside its (non-empty) box is enough -/
theorem nodeVal_isSome_of_mem (G : Geom) (S : Stripe) (sel : ℝ × ℝ → ℝ) (d : Img ℝ) (i j rr cc : Nat)
    (hr : G.nodeR S i - G.bY / 2 ≤ rr ∧ rr < min (G.dn S - G.e) (G.nodeR S i + G.bY / 2))
    (hc : G.nodeC j - G.bX / 2 ≤ cc ∧ cc < min (G.C - G.e) (G.nodeC j + G.bX / 2))
    (h : (d rr cc).isSome) : (nodeVal G S sel d i j).isSome := by
  simp only [nodeVal, Option.isSome_map]
  rw [sigmaclip_isSome_iff]
  obtain ⟨v, hv⟩ := Option.isSome_iff_exists.mp h
  exact ⟨v, (mem_boxvals G _ d _ _ _).mpr ⟨rr, cc, hr, hc, hv.symm⟩⟩

/-- "farther than box/2 + grid from every blank pixel", rows or columns -/
def FarFromBlanks (G : Geom) (img : Img ℝ) (y x : Nat) : Prop :=
  ∀ y' x', y' < G.R → x' < G.C → img y' x' = none →
    (y' + (G.bY / 2 + G.gy) < y ∨ y + (G.bY / 2 + G.gy) < y' ∨ x' + (G.bX / 2 + G.gx) < x ∨ x + (G.bX / 2 + G.gx) < x')


theorem passFn_isSome_eq (G : Geom) (stripes : List Stripe) (sel : ℝ × ℝ → ℝ) (dOf : Stripe → Img ℝ) (S : Stripe)
    (y x : Nat) (hS : stripeAt stripes y = some S) :
    (passFn G stripes sel dOf y x).isSome =
      ((nodeVal G S sel (dOf S) ((y - G.drmin S - G.r0 S) / G.gy) (x / G.gx)).isSome &&
       (nodeVal G S sel (dOf S) ((y - G.drmin S - G.r0 S) / G.gy) (x / G.gx + 1)).isSome &&
       (nodeVal G S sel (dOf S) ((y - G.drmin S - G.r0 S) / G.gy + 1) (x / G.gx)).isSome &&
       (nodeVal G S sel (dOf S) ((y - G.drmin S - G.r0 S) / G.gy + 1) (x / G.gx + 1)).isSome) := by
  unfold passFn
  rw [hS]
  exact interp_isSome G S _ _ _

/-- the four nodes around the stripe-relative pixel `(yr, x)` are finite as soon as the data are finite on the
    pixels of the same grid cell (each node's box contains one of them) -/
theorem cell_nodes_isSome (G : Geom) (S : Stripe) (sel : ℝ × ℝ → ℝ) (d : Img ℝ) (yr x : Nat)
    (hgy : 0 < G.gy) (hgx : 0 < G.gx) (hY : 1 ≤ G.bY / 2) (hX : 1 ≤ G.bX / 2) (he : G.e = 0)
    (hS : S.ymin < S.ymax ∧ S.ymax ≤ G.R) (h0 : G.r0 S ≤ yr) (h1 : yr < G.rEnd S) (hx : x < G.C)
    (hd : ∀ rr cc, G.r0 S ≤ rr → rr < G.rEnd S → cc < G.C → (rr - G.r0 S) / G.gy = (yr - G.r0 S) / G.gy →
      cc / G.gx = x / G.gx → rr ≤ yr + G.gy → yr ≤ rr + G.gy → cc ≤ x + G.gx → x ≤ cc + G.gx → (d rr cc).isSome)
    (k' j' : Nat) (hk : k' = (yr - G.r0 S) / G.gy ∨ k' = (yr - G.r0 S) / G.gy + 1)
    (hj : j' = x / G.gx ∨ j' = x / G.gx + 1) : (nodeVal G S sel d k' j').isSome := by
  obtain ⟨rr, hbr, r0, r1, ri, ra, rb⟩ := row_witness G S yr hgy hY he hS h0 h1 k' hk
  obtain ⟨cc, hbc, c1, ci, ca, cb⟩ := col_witness G x hgx hX he hx j' hj
  exact nodeVal_isSome_of_mem G S sel d k' j' rr cc hbr hbc (hd rr cc r0 r1 c1 ri ci ra rb ca cb)

/-- **finite_far_from_blanks** (model level; `Properties.C06.finite_far_from_blanks` restates it).
    Forced hypotheses: repaired box clamp (`e = 0`), `box/2 ≥ 1` in both directions, positive grid, the
    pixel's stripe `S` is non-empty, inside the image and owns all of its rows in `stripes`. -/
theorem finite_far (mode : Mode) (mask : Bool) (G : Geom) (stripes : List Stripe) (img : Img ℝ) (S : Stripe) (y x : Nat)
    (hgy : 0 < G.gy) (hgx : 0 < G.gx) (hY : 1 ≤ G.bY / 2) (hX : 1 ≤ G.bX / 2) (he : G.e = 0)
    (hS : S.ymin < S.ymax ∧ S.ymax ≤ G.R)
    (hown : ∀ y', S.has y' = true → stripeAt stripes y' = some S) (hy : S.has y = true) (hx : x < G.C)
    (hfar : FarFromBlanks G img y x) :
    (bkgOut mask G stripes img y x).isSome ∧ (rmsOut mode mask G stripes img y x).isSome := by
  obtain ⟨h0, h1, hyy⟩ := has_bracket G S y hy
  have hyS : S.ymin ≤ y ∧ y < S.ymax := by
    simpa [Stripe.has] using hy
  -- rows of the stripe are rows of the image
  have hrow : ∀ rr, G.r0 S ≤ rr → rr < G.rEnd S → S.ymin ≤ G.drmin S + rr ∧ G.drmin S + rr < S.ymax := by
    intro rr a b
    simp only [Geom.r0, Geom.rEnd, Geom.drmin] at a b ⊢
    omega
  -- the image is finite on the pixel's grid cell
  have himg : ∀ rr cc, G.r0 S ≤ rr → rr < G.rEnd S → cc < G.C → rr ≤ (y - G.drmin S) + G.gy → (y - G.drmin S) ≤ rr + G.gy →
      cc ≤ x + G.gx → x ≤ cc + G.gx → (img (G.drmin S + rr) cc).isSome := by
    intro rr cc a b c ra rb ca cb
    cases hi : img (G.drmin S + rr) cc with
    | some v => rfl
    | none =>
      have hr := hrow rr a b
      have := hfar (G.drmin S + rr) cc (by omega) c hi
      omega
  -- pass 1 nodes
  have hn1 : ∀ k' j', (k' = (y - G.drmin S - G.r0 S) / G.gy ∨ k' = (y - G.drmin S - G.r0 S) / G.gy + 1) →
      (j' = x / G.gx ∨ j' = x / G.gx + 1) → (nodeVal G S Prod.fst (cut G S img) k' j').isSome := by
    intro k' j' hk hj
    refine cell_nodes_isSome G S Prod.fst _ (y - G.drmin S) x hgy hgx hY hX he hS h0 h1 hx ?_ k' j' hk hj
    intro rr cc a b c _ _ ra rb ca cb
    exact himg rr cc a b c ra rb ca cb
  -- the background is finite on the whole grid cell (same four nodes)
  have hbc : ∀ rr cc, G.r0 S ≤ rr → rr < G.rEnd S → cc < G.C → (rr - G.r0 S) / G.gy = (y - G.drmin S - G.r0 S) / G.gy →
      cc / G.gx = x / G.gx → (bkgFn G stripes img (G.drmin S + rr) cc).isSome := by
    intro rr cc a b c ri ci
    have hr := hrow rr a b
    have hSt : stripeAt stripes (G.drmin S + rr) = some S := hown _ (by simp [Stripe.has, hr.1, hr.2])
    unfold bkgFn
    rw [passFn_isSome_eq G stripes Prod.fst _ S _ _ hSt, Nat.add_sub_cancel_left, ri, ci]
    simp [hn1 _ _ (Or.inl rfl) (Or.inl rfl), hn1 _ _ (Or.inl rfl) (Or.inr rfl), hn1 _ _ (Or.inr rfl) (Or.inl rfl),
      hn1 _ _ (Or.inr rfl) (Or.inr rfl)]
  -- pass 2 nodes
  have hn2 : ∀ k' j', (k' = (y - G.drmin S - G.r0 S) / G.gy ∨ k' = (y - G.drmin S - G.r0 S) / G.gy + 1) →
      (j' = x / G.gx ∨ j' = x / G.gx + 1) →
      (nodeVal G S Prod.snd (d2Fn mode G S img (bkgFn G stripes img)) k' j').isSome := by
    intro k' j' hk hj
    refine cell_nodes_isSome G S Prod.snd _ (y - G.drmin S) x hgy hgx hY hX he hS h0 h1 hx ?_ k' j' hk hj
    intro rr cc a b c ri ci ra rb ca cb
    have e1 : (decide (G.r0 S ≤ rr) && decide (rr < G.rEnd S)) = true := by simp [a, b]
    simp only [d2Fn, e1, Bool.or_true, if_true, cut, osub_isSome, himg rr cc a b c ra rb ca cb, hbc rr cc a b c ri ci,
      Bool.and_self]
  have hb : (bkgFn G stripes img y x).isSome := by
    have := hbc (y - G.drmin S) x h0 h1 hx rfl rfl
    rwa [hyy] at this
  have hr : (rmsFn mode G stripes img y x).isSome := by
    unfold rmsFn
    rw [passFn_isSome_eq G stripes Prod.snd _ S y x (hown y hy)]
    simp [hn2 _ _ (Or.inl rfl) (Or.inl rfl), hn2 _ _ (Or.inl rfl) (Or.inr rfl), hn2 _ _ (Or.inr rfl) (Or.inl rfl),
      hn2 _ _ (Or.inr rfl) (Or.inr rfl)]
  have hi : (img y x).isSome := by
    have := himg (y - G.drmin S) x h0 h1 hx (by omega) (by omega) (by omega) (by omega)
    rwa [hyy] at this
  have hm : masked mask G stripes img y x = false := by
    obtain ⟨p, hp⟩ := Option.isSome_iff_exists.mp hi
    obtain ⟨q, hq⟩ := Option.isSome_iff_exists.mp hb
    simp [masked, hp, hq, osub]
  simp only [bkgOut, rmsOut, hm, Bool.false_eq_true, if_false]
  exact ⟨hb, hr⟩

end Aegean.Proofs.C06
