/-
  C08 — basic lemmas: `dedup`, `children`, `desc`, nested-division arithmetic, `setLevel`.
  Core Lean only (no Mathlib).
-/
import Aegean.Model.C08

namespace Aegean.Proofs.C08
open Aegean.Model.C08

/-! ### dedup -/

theorem mem_dedup {a : Nat} : ∀ {l : List Nat}, a ∈ dedup l ↔ a ∈ l
  | [] => by simp [dedup]
  | b :: l => by
    by_cases h : b ∈ l
    · simp only [dedup, h, if_true, List.mem_cons, mem_dedup (l := l)]
      constructor
      · exact Or.inr
      · rintro (rfl | h') <;> assumption
    · simp only [dedup, h, if_false, List.mem_cons, mem_dedup (l := l)]

theorem nodup_dedup : ∀ (l : List Nat), (dedup l).Nodup
  | [] => by simp [dedup]
  | b :: l => by
    by_cases h : b ∈ l
    · simp only [dedup, if_pos h]; exact nodup_dedup l
    · simp only [dedup, if_neg h, List.nodup_cons, mem_dedup]
      exact ⟨h, nodup_dedup l⟩

theorem dedup_eq_self : ∀ {l : List Nat}, l.Nodup → dedup l = l
  | [], _ => rfl
  | b :: l, h => by
    rw [List.nodup_cons] at h
    simp only [dedup, if_neg h.1, dedup_eq_self h.2]

theorem nodup_filter {l : List Nat} (p : Nat → Bool) (h : l.Nodup) : (l.filter p).Nodup :=
  List.Nodup.sublist List.filter_sublist h

/-- two duplicate-free lists with the same members have the same length -/
theorem length_eq_of_mem_iff {l₁ l₂ : List Nat} (h₁ : l₁.Nodup) (h₂ : l₂.Nodup)
    (h : ∀ a, a ∈ l₁ ↔ a ∈ l₂) : l₁.length = l₂.length :=
  ((List.perm_ext_iff_of_nodup h₁ h₂).2 h).length_eq

/-! ### arithmetic of nested pixels -/

theorem four_pow_pos (k : Nat) : 0 < 4 ^ k := Nat.pow_pos (by decide)

/-- going `k+1` levels up = going `k` levels up, then one more -/
theorem div_pow_succ (q k : Nat) : q / 4 ^ (k + 1) = q / 4 ^ k / 4 := by
  rw [Nat.pow_succ, Nat.div_div_eq_div_mul]

theorem div_pow_add (q a b : Nat) : q / 4 ^ (a + b) = q / 4 ^ a / 4 ^ b := by
  rw [Nat.pow_add, Nat.div_div_eq_div_mul]

theorem mem_children {x p : Nat} : x ∈ children p ↔ x / 4 = p := by
  simp only [children, List.mem_cons, List.not_mem_nil, or_false]
  omega

theorem mem_flatMap_children {x : Nat} {l : List Nat} : x ∈ l.flatMap children ↔ x / 4 ∈ l := by
  simp only [List.mem_flatMap, mem_children]
  constructor
  · rintro ⟨a, ha, rfl⟩; exact ha
  · intro h; exact ⟨_, h, rfl⟩

theorem mem_desc {k p q : Nat} : q ∈ desc k p ↔ q / 4 ^ k = p := by
  have hK := four_pow_pos k
  simp only [desc, List.mem_map, List.mem_range]
  constructor
  · rintro ⟨i, hi, rfl⟩
    rw [Nat.mul_comm, Nat.mul_add_div hK, Nat.div_eq_of_lt hi, Nat.add_zero]
  · rintro rfl
    refine ⟨q % 4 ^ k, Nat.mod_lt _ hK, ?_⟩
    rw [Nat.mul_comm]; exact Nat.div_add_mod q (4 ^ k)

theorem length_desc (k p : Nat) : (desc k p).length = 4 ^ k := by
  simp [desc]

theorem nodup_desc (k p : Nat) : (desc k p).Nodup := by
  unfold desc List.Nodup
  rw [List.pairwise_map]
  exact List.Pairwise.imp (fun h => by omega) (List.nodup_range (n := 4 ^ k))

/-- a pixel id valid at level `d` has descendants valid `k` levels down -/
theorem lt_of_div_lt {q k d : Nat} (h : q / 4 ^ k < 12 * 4 ^ d) : q < 12 * 4 ^ (d + k) := by
  rw [Nat.div_lt_iff_lt_mul (four_pow_pos k)] at h
  rw [Nat.pow_add, ← Nat.mul_assoc]; exact h

theorem div_lt_of_lt {q k d : Nat} (h : q < 12 * 4 ^ (d + k)) : q / 4 ^ k < 12 * 4 ^ d := by
  rw [Nat.div_lt_iff_lt_mul (four_pow_pos k)]
  rw [Nat.pow_add, ← Nat.mul_assoc] at h; exact h

/-! ### setLevel -/

@[simp] theorem setLevel_same (pd : Nat → List Nat) (d : Nat) (l : List Nat) : setLevel pd d l d = l := by
  simp [setLevel]

theorem setLevel_other (pd : Nat → List Nat) {d k : Nat} (l : List Nat) (h : k ≠ d) :
    setLevel pd d l k = pd k := by
  simp [setLevel, h]

/-! ### the abstraction and the invariants, on a bare pixel dictionary -/

/-- deepest-level pixel `q` lies under a pixel stored at level `d` -/
def covP (m : Nat) (pd : Nat → List Nat) (d q : Nat) : Prop := q / 4 ^ (m - d) ∈ pd d

/-- deepest-level pixel `q` is covered by the dictionary -/
def absP (m : Nat) (pd : Nat → List Nat) (q : Nat) : Prop := ∃ d, 1 ≤ d ∧ d ≤ m ∧ covP m pd d q

/-- every level is a set -/
def NodupP (pd : Nat → List Nat) : Prop := ∀ d, (pd d).Nodup

/-- ids are valid for their level, and only levels `1..m` are populated -/
def RangeP (m : Nat) (pd : Nat → List Nat) : Prop := ∀ d p, p ∈ pd d → 1 ≤ d ∧ d ≤ m ∧ p < 12 * 4 ^ d

/-- no deepest-level pixel is covered from two different levels -/
def NoDCP (m : Nat) (pd : Nat → List Nat) : Prop :=
  ∀ q d₁ d₂, 1 ≤ d₁ → d₁ ≤ m → 1 ≤ d₂ → d₂ ≤ m → covP m pd d₁ q → covP m pd d₂ q → d₁ = d₂

/-- levels below `d` are empty -/
def EmptyBelow (pd : Nat → List Nat) (d : Nat) : Prop := ∀ k, k < d → pd k = []

/-- level `k` contains no complete sibling quad -/
def NormalAt (pd : Nat → List Nat) (k : Nat) : Prop := ∀ x, x ∈ pd k → complete (pd k) x = false

/-- `complete`, as a proposition -/
def completeP (l : List Nat) (x : Nat) : Prop :=
  4 * (x / 4) ∈ l ∧ 4 * (x / 4) + 1 ∈ l ∧ 4 * (x / 4) + 2 ∈ l ∧ 4 * (x / 4) + 3 ∈ l

theorem complete_iff {l : List Nat} {x : Nat} : complete l x = true ↔ completeP l x := by
  simp only [complete, completeP, Bool.and_eq_true, List.contains_iff_mem, and_assoc]

theorem complete_false_iff {l : List Nat} {x : Nat} : complete l x = false ↔ ¬ completeP l x := by
  rw [← complete_iff]; simp

end Aegean.Proofs.C08
