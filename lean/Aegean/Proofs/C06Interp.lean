import Mathlib.Tactic.Ring
import Mathlib.Tactic.Linarith
import Mathlib.Tactic.Positivity
import Mathlib.Tactic.FieldSimp
import Aegean.Proofs.C06Clip

/-
  C06 — laws of the bilinear-interpolation model (`Aegean.Model.C06`: `frac`, `bilin`, `interp`,
  `Geom.nodeR`, `Geom.nodeC`) at `α := ℝ`: definedness, shift / scale equivariance, convexity
  (range preservation), constants, and exactness on affine node data.
-/

namespace Aegean.Proofs.C06
open Aegean.Model.C06

/-! ### the model's definitions in ordinary real arithmetic -/

theorem bilin_some (a b c d y0 y1 : ℝ) :
    bilin (some a) (some b) (some c) (some d) y0 y1 =
      some (a * (1 - y0) * (1 - y1) + b * (1 - y0) * y1 + c * y0 * (1 - y1) + d * y0 * y1) := by
  simp only [bilin, R.real_ofNat, Nat.cast_one]

theorem bilin_eq_some_iff (a b c d : Option ℝ) (y0 y1 w : ℝ) :
    bilin a b c d y0 y1 = some w ↔
      ∃ a' b' c' d', a = some a' ∧ b = some b' ∧ c = some c' ∧ d = some d' ∧
        w = a' * (1 - y0) * (1 - y1) + b' * (1 - y0) * y1 + c' * y0 * (1 - y1) + d' * y0 * y1 := by
  cases a <;> cases b <;> cases c <;> cases d <;>
    simp [bilin, eq_comm]

theorem frac_eq (x lo hi : Nat) :
    (frac x lo hi : ℝ) = ((x : ℝ) - (lo : ℝ)) / ((hi : ℝ) - (lo : ℝ)) := rfl

theorem interp_eq (G : Geom) (S : Stripe) (v : Nat → Nat → Option ℝ) (r c : Nat) :
    interp G S v r c =
      bilin (v ((r - G.r0 S) / G.gy) (c / G.gx)) (v ((r - G.r0 S) / G.gy) (c / G.gx + 1))
        (v ((r - G.r0 S) / G.gy + 1) (c / G.gx)) (v ((r - G.r0 S) / G.gy + 1) (c / G.gx + 1))
        (frac r (G.nodeR S ((r - G.r0 S) / G.gy)) (G.nodeR S ((r - G.r0 S) / G.gy + 1)))
        (frac c (G.nodeC (c / G.gx)) (G.nodeC (c / G.gx + 1))) := rfl

/-! ### `bilin` -/

theorem bilin_isSome (a b c d : Option ℝ) (y0 y1 : ℝ) :
    (bilin a b c d y0 y1).isSome = (a.isSome && b.isSome && c.isSome && d.isSome) := by
  cases a <;> cases b <;> cases c <;> cases d <;> simp [bilin]

theorem bilin_shift (a b c d : Option ℝ) (y0 y1 k : ℝ) :
    bilin (a.map (· + k)) (b.map (· + k)) (c.map (· + k)) (d.map (· + k)) y0 y1
      = (bilin a b c d y0 y1).map (· + k) := by
  cases a <;> cases b <;> cases c <;> cases d <;>
    simp only [Option.map_none, Option.map_some, bilin, R.real_ofNat, Nat.cast_one]
  congr 1
  ring

theorem bilin_scale (a b c d : Option ℝ) (y0 y1 k : ℝ) :
    bilin (a.map (k * ·)) (b.map (k * ·)) (c.map (k * ·)) (d.map (k * ·)) y0 y1
      = (bilin a b c d y0 y1).map (k * ·) := by
  cases a <;> cases b <;> cases c <;> cases d <;>
    simp only [Option.map_none, Option.map_some, bilin, R.real_ofNat, Nat.cast_one]
  congr 1
  ring

/-- one-dimensional convex combination -/
theorem lerp_mem (t lo hi a b : ℝ) (h0 : 0 ≤ t) (h1 : t ≤ 1)
    (ha : lo ≤ a ∧ a ≤ hi) (hb : lo ≤ b ∧ b ≤ hi) :
    lo ≤ a * (1 - t) + b * t ∧ a * (1 - t) + b * t ≤ hi := by
  have h1' : 0 ≤ 1 - t := by linarith
  constructor
  · nlinarith [mul_nonneg (sub_nonneg.mpr ha.1) h1', mul_nonneg (sub_nonneg.mpr hb.1) h0]
  · nlinarith [mul_nonneg (sub_nonneg.mpr ha.2) h1', mul_nonneg (sub_nonneg.mpr hb.2) h0]

/-- convex combination: the value lies in any interval containing the four corners -/
theorem bilin_convex (a b c d : Option ℝ) (y0 y1 lo hi : ℝ)
    (h0 : 0 ≤ y0 ∧ y0 ≤ 1) (h1 : 0 ≤ y1 ∧ y1 ≤ 1)
    (ha : ∀ v, a = some v → lo ≤ v ∧ v ≤ hi) (hb : ∀ v, b = some v → lo ≤ v ∧ v ≤ hi)
    (hc : ∀ v, c = some v → lo ≤ v ∧ v ≤ hi) (hd : ∀ v, d = some v → lo ≤ v ∧ v ≤ hi)
    (w : ℝ) (hw : bilin a b c d y0 y1 = some w) : lo ≤ w ∧ w ≤ hi := by
  obtain ⟨a', b', c', d', rfl, rfl, rfl, rfl, rfl⟩ := (bilin_eq_some_iff a b c d y0 y1 w).mp hw
  have hab := lerp_mem y1 lo hi a' b' h1.1 h1.2 (ha a' rfl) (hb b' rfl)
  have hcd := lerp_mem y1 lo hi c' d' h1.1 h1.2 (hc c' rfl) (hd d' rfl)
  have h := lerp_mem y0 lo hi _ _ h0.1 h0.2 hab hcd
  have e : a' * (1 - y0) * (1 - y1) + b' * (1 - y0) * y1 + c' * y0 * (1 - y1) + d' * y0 * y1
      = (a' * (1 - y1) + b' * y1) * (1 - y0) + (c' * (1 - y1) + d' * y1) * y0 := by ring
  rw [e]
  exact h

/-! ### grid geometry -/

theorem frac_mem (x lo hi : Nat) (h1 : lo ≤ x) (h2 : x < hi) :
    0 ≤ (frac x lo hi : ℝ) ∧ (frac x lo hi : ℝ) ≤ 1 := by
  have hlx : (lo : ℝ) ≤ (x : ℝ) := by exact_mod_cast h1
  have hxh : (x : ℝ) < (hi : ℝ) := by exact_mod_cast h2
  have hpos : (0 : ℝ) < (hi : ℝ) - (lo : ℝ) := by linarith
  rw [frac_eq]
  constructor
  · exact div_nonneg (by linarith) hpos.le
  · rw [div_le_one hpos]; linarith

/-- the pixel row `r` lies between its two grid rows -/
theorem nodeR_bracket (G : Geom) (S : Stripe) (r : Nat) (hg : 0 < G.gy) (h0 : G.r0 S ≤ r)
    (h1 : r < G.rEnd S) :
    G.nodeR S ((r - G.r0 S) / G.gy) ≤ r ∧ r < G.nodeR S ((r - G.r0 S) / G.gy + 1) := by
  have hle := Nat.div_mul_le_self (r - G.r0 S) G.gy
  have hlt := Nat.lt_mul_div_succ (r - G.r0 S) hg
  rw [Nat.mul_comm] at hlt
  rw [Nat.add_mul, Nat.one_mul] at hlt
  simp only [Geom.nodeR, Nat.add_mul, Nat.one_mul]
  generalize (r - G.r0 S) / G.gy * G.gy = t at *
  omega

theorem nodeC_bracket (G : Geom) (c : Nat) (hg : 0 < G.gx) (h1 : c < G.C) :
    G.nodeC (c / G.gx) ≤ c ∧ c < G.nodeC (c / G.gx + 1) := by
  have hle := Nat.div_mul_le_self c G.gx
  have hlt := Nat.lt_mul_div_succ c hg
  rw [Nat.mul_comm] at hlt
  rw [Nat.add_mul, Nat.one_mul] at hlt
  simp only [Geom.nodeC, Nat.add_mul, Nat.one_mul]
  generalize c / G.gx * G.gx = t at *
  omega

/-! ### `interp` -/

theorem interp_isSome (G : Geom) (S : Stripe) (v : Nat → Nat → Option ℝ) (r c : Nat) :
    (interp G S v r c).isSome =
      ((v ((r - G.r0 S) / G.gy) (c / G.gx)).isSome && (v ((r - G.r0 S) / G.gy) (c / G.gx + 1)).isSome &&
       (v ((r - G.r0 S) / G.gy + 1) (c / G.gx)).isSome && (v ((r - G.r0 S) / G.gy + 1) (c / G.gx + 1)).isSome) := by
  rw [interp_eq, bilin_isSome]

theorem interp_shift (G : Geom) (S : Stripe) (v : Nat → Nat → Option ℝ) (k : ℝ) (r c : Nat) :
    interp G S (fun i j => (v i j).map (· + k)) r c = (interp G S v r c).map (· + k) := by
  rw [interp_eq, interp_eq]
  exact bilin_shift _ _ _ _ _ _ k

theorem interp_scale (G : Geom) (S : Stripe) (v : Nat → Nat → Option ℝ) (k : ℝ) (r c : Nat) :
    interp G S (fun i j => (v i j).map (k * ·)) r c = (interp G S v r c).map (k * ·) := by
  rw [interp_eq, interp_eq]
  exact bilin_scale _ _ _ _ _ _ k

/-- range preservation -/
theorem interp_convex (G : Geom) (S : Stripe) (v : Nat → Nat → Option ℝ) (r c : Nat) (lo hi : ℝ)
    (hgy : 0 < G.gy) (hgx : 0 < G.gx) (hr0 : G.r0 S ≤ r) (hr1 : r < G.rEnd S) (hc : c < G.C)
    (hv : ∀ i j w, v i j = some w → lo ≤ w ∧ w ≤ hi)
    (w : ℝ) (hw : interp G S v r c = some w) : lo ≤ w ∧ w ≤ hi := by
  rw [interp_eq] at hw
  have hR := nodeR_bracket G S r hgy hr0 hr1
  have hC := nodeC_bracket G c hgx hc
  exact bilin_convex _ _ _ _ _ _ lo hi (frac_mem _ _ _ hR.1 hR.2) (frac_mem _ _ _ hC.1 hC.2)
    (hv _ _) (hv _ _) (hv _ _) (hv _ _) w hw

/-- all corners equal `k` gives `k`, whatever the weights -/
theorem interp_const (G : Geom) (S : Stripe) (v : Nat → Nat → Option ℝ) (k : ℝ) (r c : Nat)
    (hv : ∀ i j w, v i j = some w → w = k) (w : ℝ) (hw : interp G S v r c = some w) : w = k := by
  rw [interp_eq] at hw
  obtain ⟨a', b', c', d', ha, hb, hc, hd, rfl⟩ := (bilin_eq_some_iff _ _ _ _ _ _ w).mp hw
  rw [hv _ _ _ ha, hv _ _ _ hb, hv _ _ _ hc, hv _ _ _ hd]
  ring

/-- exact on affine node data -/
theorem interp_affine (G : Geom) (S : Stripe) (v : Nat → Nat → Option ℝ) (p q e : ℝ) (r c : Nat)
    (hgy : 0 < G.gy) (hgx : 0 < G.gx) (hr0 : G.r0 S ≤ r) (hr1 : r < G.rEnd S) (hc : c < G.C)
    (hv : ∀ i j, v i j = some (p * (G.nodeR S i : ℝ) + q * (G.nodeC j : ℝ) + e)) :
    interp G S v r c = some (p * (r : ℝ) + q * (c : ℝ) + e) := by
  have hR := nodeR_bracket G S r hgy hr0 hr1
  have hC := nodeC_bracket G c hgx hc
  rw [interp_eq, hv, hv, hv, hv, bilin_some, frac_eq, frac_eq]
  generalize G.nodeR S ((r - G.r0 S) / G.gy) = R0 at *
  generalize G.nodeR S ((r - G.r0 S) / G.gy + 1) = R1 at *
  generalize G.nodeC (c / G.gx) = C0 at *
  generalize G.nodeC (c / G.gx + 1) = C1 at *
  have hR' : (R0 : ℝ) < (R1 : ℝ) := by exact_mod_cast lt_of_le_of_lt hR.1 hR.2
  have hC' : (C0 : ℝ) < (C1 : ℝ) := by exact_mod_cast lt_of_le_of_lt hC.1 hC.2
  have hRne : (R1 : ℝ) - (R0 : ℝ) ≠ 0 := by linarith
  have hCne : (C1 : ℝ) - (C0 : ℝ) ≠ 0 := by linarith
  congr 1
  field_simp
  ring

end Aegean.Proofs.C06
