/-
  C07 — the shared maps: who writes which row when, and why the result does not depend on the schedule.
  Core Lean only.
-/
import Aegean.Proofs.C07

namespace Aegean.Proofs.C07
open Aegean.Model.C07

/-- stripe `i` owns row `r` -/
def owns (L : Layout) (i r : Nat) : Prop := L.lo i ≤ r ∧ r < L.hi i

instance (L : Layout) (i r : Nat) : Decidable (owns L i r) := by unfold owns; exact inferInstance

/-- no row belongs to two stripes (what `layout_tiles` gives for the real layout) -/
def Disj (L : Layout) (n : Nat) : Prop := ∀ i j r, i < n → j < n → owns L i r → owns L j r → i = j

/-- the stripe among the first `n` that owns row `r` -/
def ownerOf (L : Layout) : Nat → Nat → Option Nat
  | 0, _ => none
  | n + 1, r => if owns L n r then some n else ownerOf L n r

theorem ownerOf_some {L : Layout} {n r j : Nat} (h : ownerOf L n r = some j) : j < n ∧ owns L j r := by
  induction n with
  | zero => simp [ownerOf] at h
  | succ k ih =>
    simp only [ownerOf] at h
    split at h
    · cases h; exact ⟨by omega, by assumption⟩
    · have := ih h; exact ⟨by omega, this.2⟩

theorem ownerOf_of_owns {L : Layout} {n r i : Nat} (hd : Disj L n) (hi : i < n) (ho : owns L i r) :
    ownerOf L n r = some i := by
  cases h : ownerOf L n r with
  | some j =>
    obtain ⟨hj, hoj⟩ := ownerOf_some h
    rw [hd i j r hi hj ho hoj]
  | none =>
    exfalso
    clear hd
    induction n with
    | zero => omega
    | succ k ih =>
      simp only [ownerOf] at h
      split at h
      · cases h
      · by_cases e : i = k
        · subst e; contradiction
        · exact ih (by omega) h

theorem ownerOf_ne {L : Layout} {n r i j : Nat} (h : ownerOf L n r = some j) (hni : ¬ owns L i r) : j ≠ i := by
  intro e; subst e; exact hni (ownerOf_some h).2

/-- has finished writing its background rows -/
def fin1 : Phase → Bool
  | .queued | .pass1 | .failed => false
  | _ => true

/-- has written its noise rows -/
def fin2 : Phase → Bool
  | .atB true | .inB true _ | .rst true | .masking | .done => true
  | _ => false

/-- has applied the mask to its rows -/
def masked (c : Cfg) : Phase → Bool
  | .done => c.mask
  | _ => false

def mIf {V : Type} (W : Work V) (b : Bool) (r : Nat) (v : V) : V := if b then W.msk r v else v

/-- the complete, unmasked background map: what every pass 2 reads -/
def fullBkg {V : Type} (L : Layout) (W : Work V) (n : Nat) : Nat → Option V :=
  fun r => (ownerOf L n r).map (fun j => W.f1 j r)

/-- the shared maps as a function of where every stripe is -/
structure DataInv {V : Type} (c : Cfg) (L : Layout) (W : Work V) (s : State) (m : Maps V) : Prop where
  bkg : ∀ r, m.bkg r = match ownerOf L c.n r with
    | none => none
    | some j => if fin1 (s.ph j) then some (mIf W (masked c (s.ph j)) r (W.f1 j r)) else none
  rms : ∀ r, m.rms r = match ownerOf L c.n r with
    | none => none
    | some j => if fin2 (s.ph j) then some (mIf W (masked c (s.ph j)) r (W.f2 j r (fullBkg L W c.n))) else none

/-- **stability**: while a stripe is in pass 2, every stripe has finished writing its background rows and
    nobody has begun to mask — the background map is complete and final for the whole of pass 2 -/
theorem stable_in_pass2 {c : Cfg} {s : State} {i : Nat} (G : Good c s) (hi : i < c.n) (hp : s.ph i = .pass2) :
    ∀ j, j < c.n → fin1 (s.ph j) = true ∧ masked c (s.ph j) = false ∧ s.ph j ≠ .masking := by
  obtain ⟨g, hg⟩ := G.gen
  intro j hj
  have hokj := G.ok j hj
  rcases hg with ⟨_, hall, _, _⟩ | ⟨_, hall, _, _⟩
  · have hgi := (hall i hi).1
    rw [hp] at hgi
    have hg1 : g = 1 := by simpa [ext] using hgi.symm
    have hgj := (hall j hj).1
    rw [hg1] at hgj
    cases hq : s.ph j with
    | done => rw [hq] at hgj; cases hm : c.mask <;> simp_all [ext, fin1, masked]
    | atB k => rw [hq] at hgj; cases k <;> simp_all [fin1, masked]
    | inB k f => rw [hq] at hgj; cases k <;> simp_all [fin1, masked]
    | rst k => rw [hq] at hgj; cases k <;> simp_all [ext, fin1, masked]
    | _ => rw [hq] at hgj; simp_all [ext, fin1, masked, okPh]
  · have hgi := (hall i hi).1
    rw [hp] at hgi
    have hg0 : g = 0 := by simp [ent] at hgi; omega
    have hgj := (hall j hj).1
    rw [hg0] at hgj
    cases hq : s.ph j with
    | done => rw [hq] at hgj; cases hm : c.mask <;> simp_all [ent, fin1, masked]
    | atB k => rw [hq] at hgj; cases k <;> simp_all [fin1, masked]
    | inB k f => rw [hq] at hgj; cases k <;> simp_all [fin1, masked]
    | rst k => rw [hq] at hgj; cases k <;> simp_all [ent, fin1, masked]
    | _ => rw [hq] at hgj; simp_all [ent, fin1, masked, okPh]

/-- a step that changes neither the maps nor the data-relevant status of the stripe -/
theorem datainv_silent {V : Type} {c : Cfg} {L : Layout} {W : Work V} {s : State} {m : Maps V} {i : Nat}
    {p' : Phase} (b' : Barrier) (D : DataInv c L W s m)
    (h1 : fin1 p' = fin1 (s.ph i)) (h2 : fin2 p' = fin2 (s.ph i)) (h3 : masked c p' = masked c (s.ph i)) :
    DataInv c L W { ph := upd s.ph i p', b := b' } m := by
  have e1 : ∀ j, fin1 (upd s.ph i p' j) = fin1 (s.ph j) := by
    intro j; by_cases h : j = i
    · subst h; simp [h1]
    · simp [upd, h]
  have e2 : ∀ j, fin2 (upd s.ph i p' j) = fin2 (s.ph j) := by
    intro j; by_cases h : j = i
    · subst h; simp [h2]
    · simp [upd, h]
  have e3 : ∀ j, masked c (upd s.ph i p' j) = masked c (s.ph j) := by
    intro j; by_cases h : j = i
    · subst h; simp [h3]
    · simp [upd, h]
  constructor
  · intro r; rw [D.bkg r]; simp only [e1, e3]
  · intro r; rw [D.rms r]; simp only [e2, e3]


theorem fin1_next (c : Cfg) (k f : Bool) : fin1 (next c k f) = true := by
  cases k <;> cases f <;> cases hr : c.reset <;> simp [next, afterB, hr, fin1]
theorem fin2_next (c : Cfg) (k f : Bool) : fin2 (next c k f) = k := by
  cases k <;> cases f <;> cases hr : c.reset <;> simp [next, afterB, hr, fin2]
theorem masked_next (c : Cfg) (k f : Bool) : masked c (next c k f) = false := by
  cases k <;> cases f <;> cases hr : c.reset <;> simp [next, afterB, hr, masked]

theorem reachD_reach {V : Type} {c : Cfg} {L : Layout} {W : Work V} {s : State} {m : Maps V}
    (h : ReachD c L W s m) : Reach c false s := by
  induction h with
  | init => exact Reach.init
  | adv _ hs ih => exact Reach.adv ih hs

/-- rows of other stripes keep their description when stripe `i` changes phase -/
theorem other_rows {α : Type} {L : Layout} {n i r : Nat} {ph : Nat → Phase} {p' : Phase} (hno : ¬ owns L i r)
    (F : Phase → Option α) :
    (match ownerOf L n r with | none => none | some j => F (upd ph i p' j)) =
    (match ownerOf L n r with | none => none | some j => F (ph j)) := by
  cases ho : ownerOf L n r with
  | none => rfl
  | some j => have := ownerOf_ne ho hno; simp [upd, this]

theorem datainv_move {V : Type} {c : Cfg} {L : Layout} {W : Work V} {s s' : State} {m : Maps V} {i : Nat}
    (G : Good c s) (hd : Disj L c.n) (D : DataInv c L W s m) (hi : i < c.n) (mv : Move c s i s') :
    DataInv c L W s' (effect L W i (s.ph i) m) := by
  have hst := good_state G
  cases mv with
  | start hp hr => rw [hp]; exact datainv_silent _ D (by rw [hp]; rfl) (by rw [hp]; rfl) (by rw [hp]; rfl)
  | enter k hp hb hc =>
    rw [hp]; exact datainv_silent _ D (by rw [hp]; rfl) (by rw [hp]; cases k <;> rfl) (by rw [hp]; rfl)
  | enterLast k hp hb hc =>
    rw [hp]
    refine datainv_silent _ D ?_ ?_ ?_ <;> rw [hp]
    · rw [fin1_next]; rfl
    · rw [fin2_next]; cases k <;> rfl
    · rw [masked_next]; rfl
  | exit k f hp hb =>
    rw [hp]
    refine datainv_silent _ D ?_ ?_ ?_ <;> rw [hp]
    · rw [fin1_next]; rfl
    · rw [fin2_next]; cases k <;> rfl
    · rw [masked_next]; rfl
  | enterBroken k hp hb => rw [hb] at hst; simp at hst
  | exitBroken k f hp hb => rcases hb with hb | hb <;> (rw [hb] at hst; simp at hst)
  | doReset k hp => have := G.ok i hi; rw [hp] at this; simp [okPh] at this
  | endPass1 hp =>
    rw [hp]
    constructor
    · intro r
      simp only [effect, writeRows]
      by_cases ho : owns L i r
      · rw [if_pos (show L.lo i ≤ r ∧ r < L.hi i from ho), ownerOf_of_owns hd hi ho]; simp [fin1, masked, mIf]
      · rw [if_neg (show ¬ (L.lo i ≤ r ∧ r < L.hi i) from ho), D.bkg r]
        cases ho' : ownerOf L c.n r with
        | none => rfl
        | some j => have := ownerOf_ne ho' ho; simp [upd, this]
    · intro r
      simp only [effect]
      rw [D.rms r]
      cases ho' : ownerOf L c.n r with
      | none => rfl
      | some j =>
        by_cases e : j = i
        · subst e; simp [hp, fin2]
        · simp [upd, e]
  | endPass2 hp =>
    have hstab := stable_in_pass2 G hi hp
    have hfull : m.bkg = fullBkg L W c.n := by
      funext r
      rw [D.bkg r]; unfold fullBkg
      cases ho' : ownerOf L c.n r with
      | none => rfl
      | some j =>
        obtain ⟨hj, _⟩ := ownerOf_some ho'
        simp [(hstab j hj).1, (hstab j hj).2.1, mIf]
    rw [hp]
    constructor
    · intro r
      simp only [effect]
      rw [D.bkg r]
      cases ho' : ownerOf L c.n r with
      | none => rfl
      | some j =>
        by_cases e : j = i
        · subst e; cases hm : c.mask <;> simp [hp, fin1, masked, hm]
        · simp [upd, e]
    · intro r
      simp only [effect, writeRows]
      by_cases ho : owns L i r
      · rw [if_pos (show L.lo i ≤ r ∧ r < L.hi i from ho), ownerOf_of_owns hd hi ho, hfull]
        cases hm : c.mask <;> simp [fin2, masked, mIf, hm]
      · rw [if_neg (show ¬ (L.lo i ≤ r ∧ r < L.hi i) from ho), D.rms r]
        cases ho' : ownerOf L c.n r with
        | none => rfl
        | some j => have := ownerOf_ne ho' ho; simp [upd, this]
  | endMask hp =>
    have hm : c.mask = true := by have := G.ok i hi; rw [hp] at this; simpa [okPh] using this
    rw [hp]
    constructor
    · intro r
      simp only [effect, writeRows]
      by_cases ho : owns L i r
      · rw [if_pos (show L.lo i ≤ r ∧ r < L.hi i from ho), D.bkg r, ownerOf_of_owns hd hi ho]; simp [hp, fin1, masked, mIf, hm]
      · rw [if_neg (show ¬ (L.lo i ≤ r ∧ r < L.hi i) from ho), D.bkg r]
        cases ho' : ownerOf L c.n r with
        | none => rfl
        | some j => have := ownerOf_ne ho' ho; simp [upd, this]
    · intro r
      simp only [effect, writeRows]
      by_cases ho : owns L i r
      · rw [if_pos (show L.lo i ≤ r ∧ r < L.hi i from ho), D.rms r, ownerOf_of_owns hd hi ho]; simp [hp, fin2, masked, mIf, hm]
      · rw [if_neg (show ¬ (L.lo i ≤ r ∧ r < L.hi i) from ho), D.rms r]
        cases ho' : ownerOf L c.n r with
        | none => rfl
        | some j => have := ownerOf_ne ho' ho; simp [upd, this]

theorem datainv_init {V : Type} (c : Cfg) (L : Layout) (W : Work V) : DataInv c L W (init c) Maps.empty := by
  constructor <;> intro r <;> simp only [Maps.empty, init] <;> cases ownerOf L c.n r <;> simp [fin1, fin2]

theorem reachD_inv {V : Type} {c : Cfg} {L : Layout} {W : Work V} {s : State} {m : Maps V}
    (R : Repaired c) (hn : 0 < c.n) (hd : Disj L c.n) (h : ReachD c L W s m) : DataInv c L W s m := by
  induction h with
  | init => exact datainv_init c L W
  | adv hr hs ih =>
    exact datainv_move (reach_good R hn (reachD_reach hr)) hd ih (adv_move hs).1 (adv_move hs).2

end Aegean.Proofs.C07
