/-
  C03 — the range-normalising helpers (`pa_limit`, `fix_shape`, RA wrap, int-flux identity) at `ℝ`.
-/
import Mathlib.Tactic.Linarith
import Mathlib.Tactic.Ring
import Mathlib.Tactic.FieldSimp
import Mathlib.Tactic.Push
import Mathlib.Analysis.SpecialFunctions.Trigonometric.Basic
import Mathlib.Algebra.Order.Archimedean.Basic
import Aegean.Proofs.Real
import Aegean.Model.C03
import Aegean.Spec.C03

namespace Aegean.Proofs.C03
open Aegean.Model.C03

theorem upLoop_spec (n : Nat) (pa : ℝ) (h : -90 - 180 * (n : ℝ) < pa) :
    -90 < upLoop n pa ∧ (pa ≤ -90 → upLoop n pa ≤ 90) ∧ (-90 < pa → upLoop n pa = pa) ∧
      ∃ k : ℕ, upLoop n pa = pa + 180 * (k : ℝ) := by
  induction n generalizing pa with
  | zero =>
    simp only [upLoop]
    have : -90 < pa := by simpa using h
    exact ⟨this, fun h' => by linarith, fun _ => trivial, 0, by simp⟩
  | succ n ih =>
    simp only [upLoop, R.real_ofNat]
    push_cast at h ⊢
    split_ifs with hc
    · have h' : -90 - 180 * (n : ℝ) < pa + 180 := by linarith
      obtain ⟨i1, i2, i3, k, i4⟩ := ih (pa + 180) h'
      refine ⟨i1, fun _ => ?_, fun hp => by linarith, k + 1, by rw [i4]; push_cast; ring⟩
      by_cases hq : pa + 180 ≤ -90
      · exact i2 hq
      · rw [i3 (by linarith)]; linarith
    · exact ⟨by linarith, fun h' => absurd h' hc, fun _ => rfl, 0, by simp⟩

theorem downLoop_spec (n : Nat) (v : ℝ) (h1 : -90 < v) (h2 : v ≤ 90 + 180 * (n : ℝ)) :
    -90 < downLoop n v ∧ downLoop n v ≤ 90 ∧ ∃ k : ℕ, downLoop n v = v - 180 * (k : ℝ) := by
  induction n generalizing v with
  | zero =>
    simp only [downLoop]
    exact ⟨h1, by simpa using h2, 0, by simp⟩
  | succ n ih =>
    simp only [downLoop, R.real_ofNat]
    push_cast at h2 ⊢
    split_ifs with hc
    · obtain ⟨i1, i2, k, i3⟩ := ih (v - 180) (by linarith) (by linarith)
      exact ⟨i1, i2, k + 1, by rw [i3]; push_cast; ring⟩
    · exact ⟨h1, by linarith, 0, by simp⟩

/-- with enough fuel for the size of `pa`, `paLimit` lands in (−90, 90] and differs from `pa` by a
    whole number of half-turns -/
theorem paLimit_spec (n : Nat) (pa : ℝ) (h1 : -90 - 180 * (n : ℝ) < pa) (h2 : pa ≤ 90 + 180 * (n : ℝ)) :
    -90 < paLimit n pa ∧ paLimit n pa ≤ 90 ∧ ∃ k : ℤ, paLimit n pa = pa + 180 * (k : ℝ) := by
  obtain ⟨u1, u2, u3, ku, u4⟩ := upLoop_spec n pa h1
  have hu : upLoop n pa ≤ 90 + 180 * (n : ℝ) := by
    by_cases hq : pa ≤ -90
    · have := u2 hq
      have : (0 : ℝ) ≤ 180 * (n : ℝ) := by positivity
      linarith
    · rw [u3 (by linarith)]; exact h2
  obtain ⟨d1, d2, kd, d3⟩ := downLoop_spec n (upLoop n pa) u1 hu
  refine ⟨d1, d2, (ku : ℤ) - (kd : ℤ), ?_⟩
  unfold paLimit
  rw [d3, u4]; push_cast; ring

/-- the quadratic form of the ellipse with axes `a`, `b` and position angle `pa` (degrees) -/
noncomputable def ellQ (a b pa x y : ℝ) : ℝ :=
  let t := pa * (Real.pi / 180)
  ((x * Real.cos t + y * Real.sin t) / a) ^ 2 + ((y * Real.cos t - x * Real.sin t) / b) ^ 2

theorem ellQ_swap (a b pa x y : ℝ) : ellQ b a (pa + 90) x y = ellQ a b pa x y := by
  unfold ellQ
  have e : (pa + 90) * (Real.pi / 180) = pa * (Real.pi / 180) + Real.pi / 2 := by ring
  simp only [e, Real.cos_add_pi_div_two, Real.sin_add_pi_div_two]
  ring

theorem intFlux_identity (peak sx sy cc pa pb k : ℝ) (hk : k ≠ 0) (hpa : pa ≠ 0) (hpb : pb ≠ 0) :
    intFlux peak sx sy cc pa pb = peak * (k * (sx * cc)) * (k * (sy * cc)) / ((k * pa) * (k * pb)) := by
  unfold intFlux
  have hpi : Real.pi ≠ 0 := Real.pi_ne_zero
  simp only [R.real_pi]
  field_simp

end Aegean.Proofs.C03
