/-
  C13 — helper lemmas over ℝ for the negation theorems (the model is `Aegean/Model/C13.lean`).
  `N` is "negate the value, keep the pixel".
-/
import Aegean.Proofs.Real
import Aegean.Model.C13
import Mathlib.Tactic.Linarith
import Mathlib.Tactic.Ring

namespace Aegean.C13R
open Aegean.Model.C13

/-- the order of ℝ as the model's comparison class -/
noncomputable instance instCmpReal : Cmp ℝ where
  lt a b := decide (a < b)
  le a b := decide (a ≤ b)

theorem lt_real (a b : ℝ) : (Cmp.lt a b : Bool) = decide (a < b) := rfl
theorem le_real (a b : ℝ) : (Cmp.le a b : Bool) = decide (a ≤ b) := rfl
theorem zero_real : (zero : ℝ) = 0 := by simp [zero]

/-- negate the value, keep the pixel -/
def N (pv : Px × ℝ) : Px × ℝ := (pv.1, -pv.2)

/-! ### detection -/

theorem snr_neg (i b r : Option ℝ) :
    snr (i.map (fun v => -v)) (b.map (fun v => -v)) r = snr i b r := by
  cases i <;> cases b <;> cases r <;> simp [snr]
  rename_i x y z
  rw [show -x + y = -(x - y) by ring, abs_neg]

theorem floodMask_neg (im bkg rms : Px → Option ℝ) (f : ℝ) :
    floodMask (negImg im) (negImg bkg) rms f = floodMask im bkg rms f := by
  funext p; simp only [floodMask, negImg, snr_neg]

theorem seedMask_neg (im bkg rms : Px → Option ℝ) (s : ℝ) :
    seedMask (negImg im) (negImg bkg) rms s = seedMask im bkg rms s := by
  funext p; simp only [seedMask, negImg, snr_neg]

/-! ### rank filters: the ring algorithm commutes with any relabelling that carries one comparison
    into the other (used with `f = negation`, `≤` ↔ `≥`) -/

section rank
variable {V : Type}

theorem getD_map' {A B : Type} (g : A → B) (l : List A) (i : Nat) (d : A) :
    (l.map g).getD i (g d) = g (l.getD i d) := by
  simp only [List.getD_eq_getElem?_getD, List.getElem?_map]
  cases l[i]? <;> rfl

def mp (f : V → V) (e : V × Nat) : V × Nat := (f e.1, e.2)

theorem popBack_map (rel rel' : V → V → Bool) (f : V → V) (h : ∀ a b, rel' (f a) (f b) = rel a b)
    (val : V) (q : List (V × Nat)) :
    popBack rel' (f val) (q.map (mp f)) = (popBack rel val q).map (mp f) := by
  simp only [popBack, ← List.map_reverse, List.dropWhile_map]
  have e : ((fun e => rel' (f val) e.1) ∘ mp f) = (fun e : V × Nat => rel val e.1) := by
    funext e; simp [mp, h]
  rw [e]

theorem qretire_map (f : V → V) (q : List (V × Nat)) (ll : Nat) :
    qretire (q.map (mp f)) ll = (qretire q ll).map (mp f) := by
  cases q with
  | nil => rfl
  | cons e r =>
    obtain ⟨v, d⟩ := e
    simp only [List.map_cons, mp, qretire]
    split <;> simp [mp]

theorem qpush_map (rel rel' : V → V → Bool) (f : V → V) (h : ∀ a b, rel' (f a) (f b) = rel a b)
    (q : List (V × Nat)) (ll : Nat) (val : V) :
    qpush rel' (q.map (mp f)) ll (f val) = (qpush rel q ll val).map (mp f) := by
  cases q with
  | nil => rfl
  | cons e r =>
    obtain ⟨fv, fd⟩ := e
    have := popBack_map rel rel' f h val ((fv, fd) :: r)
    simp only [List.map_cons, mp] at this
    simp only [List.map_cons, mp, qpush, h]
    split
    · rfl
    · rw [this]; simp [mp]

theorem qstep_map (rel rel' : V → V → Bool) (f : V → V) (h : ∀ a b, rel' (f a) (f b) = rel a b)
    (q : List (V × Nat)) (ll : Nat) (val : V) :
    qstep rel' (q.map (mp f)) ll (f val) = (qstep rel q ll val).map (mp f) := by
  simp only [qstep, qretire_map, qpush_map rel rel' f h]

theorem qrun_map (rel rel' : V → V → Bool) (f : V → V) (h : ∀ a b, rel' (f a) (f b) = rel a b)
    (l : List V) (ll : Nat) (q : List (V × Nat)) :
    qrun rel' ll (q.map (mp f)) (l.map f) = (qrun rel ll q l).map f := by
  induction l generalizing ll q with
  | nil => rfl
  | cons x r ih =>
    simp only [List.map_cons, qrun, qstep_map rel rel' f h, ih]
    split
    · simp only [List.map_cons]
      congr 1
      cases qstep rel q ll x with
      | nil => rfl
      | cons e _ => rfl
    · rfl

theorem lastOf_map (f : V → V) (l : List V) (d : V) : lastOf (l.map f) (f d) = f (lastOf l d) := by
  induction l generalizing d with
  | nil => rfl
  | cons x r ih => simp only [List.map_cons, lastOf, ih]

theorem filter1d_map (rel rel' : V → V → Bool) (f : V → V) (h : ∀ a b, rel' (f a) (f b) = rel a b)
    (l : List V) : filter1d rel' (l.map f) = (filter1d rel l).map f := by
  cases l with
  | nil => rfl
  | cons x r =>
    simp only [List.map_cons, filter1d, lastOf_map]
    have := qrun_map rel rel' f h ((x :: r) ++ [lastOf r x]) 1 [(x, 3)]
    simpa [mp] using this

theorem look_map (f : V → V) (blank : V) (rows : List (List V)) (p : Px) :
    look (f blank) (rows.map (List.map f)) p = f (look blank rows p) := by
  simp only [look]
  have : (rows.map (List.map f)).getD p.1 [] = (rows.getD p.1 []).map f := getD_map' (List.map f) rows p.1 []
  rw [this, getD_map']

theorem filter2d_map (rel rel' : V → V → Bool) (f : V → V) (h : ∀ a b, rel' (f a) (f b) = rel a b)
    (blank : V) (hb : f blank = blank) (H W : Nat) (img : Px → V) :
    filter2d rel' blank H W (fun p => f (img p)) = (filter2d rel blank H W img).map (List.map f) := by
  simp only [filter2d, List.map_map]
  apply List.map_congr_left
  intro r _
  simp only [Function.comp]
  rw [← filter1d_map rel rel' f h, List.map_map]
  congr 1
  apply List.map_congr_left
  intro c _
  simp only [Function.comp]
  have e : (List.range W).map (fun c => filter1d rel' ((List.range H).map (fun r => f (img (r, c)))))
      = ((List.range W).map (fun c => filter1d rel ((List.range H).map (fun r => img (r, c))))).map (List.map f) := by
    rw [List.map_map]
    apply List.map_congr_left
    intro c _
    simp only [Function.comp]
    rw [← filter1d_map rel rel' f h, List.map_map]; rfl
  rw [e]
  have := look_map f blank ((List.range W).map (fun c => filter1d rel ((List.range H).map (fun r => img (r, c))))) (c, r)
  rw [hb] at this
  exact this
end rank

/-! ### curvature -/

/-- negation of a possibly-blank value (NaN stays NaN) -/
def negO (v : Option ℝ) : Option ℝ := v.map (fun x => -x)

theorem negImg_eq (img : Px → Option ℝ) : negImg img = fun p => negO (img p) := rfl

theorem leO_neg (a b : Option ℝ) : leO (negO a) (negO b) = leO b a := by
  cases a <;> cases b <;> simp [leO, negO, le_real]

theorem eqO_neg (a b : Option ℝ) : eqO (negO a) (negO b) = eqO a b := by
  simp only [eqO, leO_neg, Bool.and_comm]

theorem relMax_neg (a b : Option ℝ) : relMax (negO a) (negO b) = relMin a b := by
  simp only [relMax, relMin, leO_neg]

theorem relMin_neg (a b : Option ℝ) : relMin (negO a) (negO b) = relMax a b := by
  simp only [relMax, relMin, leO_neg]

/-- the maximum filter of the negated window is the negated minimum filter, NaN pixels included -/
theorem maxFilter_neg (H W : Nat) (img : Px → Option ℝ) :
    maxFilter H W (negImg img) = (minFilter H W img).map (List.map negO) :=
  filter2d_map relMin relMax negO relMax_neg none rfl H W img

theorem minFilter_neg (H W : Nat) (img : Px → Option ℝ) :
    minFilter H W (negImg img) = (maxFilter H W img).map (List.map negO) :=
  filter2d_map relMax relMin negO relMin_neg none rfl H W img

theorem look_negO (rows : List (List (Option ℝ))) (p : Px) :
    look none (rows.map (List.map negO)) p = negO (look none rows p) :=
  look_map negO none rows p

theorem isPeak_neg (H W : Nat) (img : Px → Option ℝ) (p : Px) :
    isPeak H W (negImg img) p = isTrough H W img p := by
  simp only [isPeak, isTrough, maxFilter_neg, look_negO]
  rw [negImg_eq, eqO_neg]

theorem isTrough_neg (H W : Nat) (img : Px → Option ℝ) (p : Px) :
    isTrough H W (negImg img) p = isPeak H W img p := by
  simp only [isPeak, isTrough, minFilter_neg, look_negO]
  rw [negImg_eq, eqO_neg]

theorem curveRows_neg (H W : Nat) (img : Px → Option ℝ) :
    curveRows H W (negImg img) = (curveRows H W img).map (List.map (fun z => -z)) := by
  simp only [curveRows, maxFilter_neg, minFilter_neg, look_negO, List.map_map]
  apply List.map_congr_left
  intro r _
  simp only [Function.comp, List.map_map]
  apply List.map_congr_left
  intro c _
  simp only [Function.comp, negImg_eq, eqO_neg]
  cases eqO (look none (maxFilter H W img) (r, c)) (img (r, c)) <;>
    cases eqO (look none (minFilter H W img) (r, c)) (img (r, c)) <;> simp

theorem curveAt_neg (H W : Nat) (img : Px → Option ℝ) (p : Px) :
    curveAt H W (negImg img) p = -curveAt H W img p := by
  simp only [curveAt, curveRows_neg]
  have := look_map (fun z : Int => -z) 0 (curveRows H W img) p
  simpa using this

theorem curveAtPinned_neg (H W : Nat) (img : Px → Option ℝ) (p : Px) :
    curveAtPinned H W (negImg img) p =
      if isPeak H W img p then 1 else if isTrough H W img p then -1 else 0 := by
  simp only [curveAtPinned, isPeak_neg, isTrough_neg]

/-! ### values, peaks, keys -/

theorem valsAt_neg (d : Px → Option ℝ) (px : List Px) :
    valsAt (negImg d) px = (valsAt d px).map N := by
  induction px with
  | nil => rfl
  | cons p r ih =>
    simp only [valsAt, negImg] at ih ⊢
    rw [List.filterMap_cons, List.filterMap_cons]
    cases h : d p with
    | none => simpa using ih
    | some v => simpa [N] using ih

theorem mem_valsAt {d : Px → Option ℝ} {px : List Px} {p : Px} {v : ℝ}
    (h : (p, v) ∈ valsAt d px) : d p = some v := by
  simp only [valsAt, List.mem_filterMap] at h
  obtain ⟨q, _, hq⟩ := h
  cases hd : d q with
  | none => simp [hd] at hq
  | some w =>
    simp [hd] at hq
    obtain ⟨rfl, rfl⟩ := hq
    exact hd

theorem best_mem {b : ℝ → ℝ → Bool} {l : List (Px × ℝ)} {acc : Option (Px × ℝ)} {x : Px × ℝ}
    (h : best b acc l = some x) : x ∈ l ∨ acc = some x := by
  induction l generalizing acc with
  | nil => right; simpa [best] using h
  | cons y r ih =>
    cases acc with
    | none =>
      simp only [best] at h
      rcases ih h with h1 | h1
      · left; exact List.mem_cons_of_mem _ h1
      · left; simp at h1; simp [h1]
    | some c =>
      simp only [best] at h
      rcases ih h with h1 | h1
      · left; exact List.mem_cons_of_mem _ h1
      · split at h1
        · left; simp at h1; simp [h1]
        · right; exact h1

/-- the first minimum of the negated values is the first maximum of the original ones -/
theorem best_neg_min (l : List (Px × ℝ)) (acc : Option (Px × ℝ)) :
    best (fun n c => decide (n < c)) (acc.map N) (l.map N)
      = (best (fun n c => decide (c < n)) acc l).map N := by
  induction l generalizing acc with
  | nil => simp [best]
  | cons x r ih =>
    cases acc with
    | none => simpa [best] using ih (some x)
    | some c =>
      simp only [List.map_cons, Option.map_some, best]
      have : (if decide ((N x).2 < (N c).2) = true then some (N x) else some (N c))
          = Option.map N (if decide (c.2 < x.2) = true then some x else some c) := by
        simp only [N, neg_lt_neg_iff]
        split <;> rfl
      rw [this]; exact ih _

/-- the first maximum of the negated values is the first minimum of the original ones -/
theorem best_neg_max (l : List (Px × ℝ)) (acc : Option (Px × ℝ)) :
    best (fun n c => decide (c < n)) (acc.map N) (l.map N)
      = (best (fun n c => decide (n < c)) acc l).map N := by
  induction l generalizing acc with
  | nil => simp [best]
  | cons x r ih =>
    cases acc with
    | none => simpa [best] using ih (some x)
    | some c =>
      simp only [List.map_cons, Option.map_some, best]
      have : (if decide ((N c).2 < (N x).2) = true then some (N x) else some (N c))
          = Option.map N (if decide (x.2 < c.2) = true then some x else some c) := by
        simp only [N, neg_lt_neg_iff]
        split <;> rfl
      rw [this]; exact ih _

theorem peak_neg (I : Island ℝ) (s : Summit) (neg : Bool) :
    peak (!neg) (negI I) s = (peak neg I s).map N := by
  cases neg
  · -- original positive (max), negated negative (min)
    simp only [peak, negI, valsAt_neg, Bool.not_false, if_true, lt_real, Bool.false_eq_true, if_false]
    exact best_neg_min _ none
  · simp only [peak, negI, valsAt_neg, Bool.not_true, if_true, lt_real, Bool.false_eq_true, if_false]
    exact best_neg_max _ none

theorem key_neg (I : Island ℝ) (s : Summit) : key (negI I) s = key I s := by
  simp only [key, negI, valsAt_neg, List.map_map]
  congr 1
  apply List.map_congr_left
  intro pv _
  simp [N]

theorem keyLe_neg (I : Island ℝ) : keyLe (negI I) = keyLe I := by
  funext a b; simp only [keyLe, key_neg]

theorem sortSummits_neg (I : Island ℝ) (l : List Summit) : sortSummits (negI I) l = sortSummits I l := by
  simp only [sortSummits, keyLe_neg]

theorem boxSnr_neg (I : Island ℝ) (s : Summit) : boxSnr (negI I) s = boxSnr I s := by
  have e : extBox (negI I) s = extBox I s := rfl
  simp only [boxSnr, e]
  simp only [negI, valsAt_neg, List.map_map]
  congr 1
  apply List.map_congr_left
  intro pv _
  simp [N, neg_div]

theorem belowInner_neg (I : Island ℝ) (s : Summit) (inner : ℝ) :
    belowInner (negI I) s inner = belowInner I s inner := by
  simp only [belowInner, boxSnr_neg]

/-! ### what the negation theorems need of the regenerated leaves -/

/-- the obligations on the regenerated arithmetic leaves (discharged for `genLeaves` in
    `Properties/C13.lean`, where they break if the source changes meaning) -/
structure LeavesMirror (L : Leaves ℝ) : Prop where
  /-- the bounds of `−amp` are the bounds of `amp`, negated and swapped -/
  bounds : ∀ amp r inner outer samp : ℝ, amp ≠ 0 →
    ampBounds L (-amp) r inner outer samp
      = (-(ampBounds L amp r inner outer samp).2, -(ampBounds L amp r inner outer samp).1)
  /-- the thresholded quantity of the negative mask at `−d` is minus that of the positive mask at `d` -/
  summit : ∀ d r inner outer : ℝ, L.summitArgNeg (-d) r inner outer = -L.summitArgPos d r inner outer

theorem LeavesMirror.summit' {L : Leaves ℝ} (h : LeavesMirror L) (d r inner outer : ℝ) :
    L.summitArgPos (-d) r inner outer = -L.summitArgNeg d r inner outer := by
  have := h.summit (-d) r inner outer
  rw [neg_neg] at this
  rw [this, neg_neg]

/-! ### the loop and the whole estimate -/

theorem summitMask_neg (I : Island ℝ) (neg : Bool) (P : Params ℝ) (hL : LeavesMirror P.leaves) :
    summitMask (!neg) (negI I) P = summitMask neg I P := by
  funext p
  simp only [summitMask, negI, negImg]
  cases h : I.data p with
  | none => simp
  | some d =>
    simp only [Option.map_some, lt_real, zero_real]
    cases neg
    · simp only [Bool.not_false, if_true, Bool.false_eq_true, if_false, hL.summit]
      have e1 : (1 ≤ -I.curve p) ↔ (I.curve p ≤ -1) := by omega
      have e2 : (-P.leaves.summitArgPos d (I.rms p) P.inner P.outer < 0)
          ↔ (0 < P.leaves.summitArgPos d (I.rms p) P.inner P.outer) := by
        constructor <;> intro h <;> linarith
      simp only [e1, e2]
    · simp only [Bool.not_true, if_true, Bool.false_eq_true, if_false, hL.summit']
      have e1 : (-I.curve p ≤ -1) ↔ (1 ≤ I.curve p) := by omega
      have e2 : (0 < -P.leaves.summitArgNeg d (I.rms p) P.inner P.outer)
          ↔ (P.leaves.summitArgNeg d (I.rms p) P.inner P.outer < 0) := by
        constructor <;> intro h <;> linarith
      simp only [e1, e2]

theorem finitePx_neg (I : Island ℝ) : finitePx (negI I) = (finitePx I).map N := by
  simp only [finitePx, negI, valsAt_neg]

theorem wholeSummit_neg (I : Island ℝ) : wholeSummit (negI I) = wholeSummit I := by
  simp only [wholeSummit, finitePx_neg, List.map_map]
  congr 1

theorem loop_neg (P : Params ℝ) (hL : LeavesMirror P.leaves) (I : Island ℝ) (hnz : ∀ p v, I.data p = some v → v ≠ 0)
    (neg : Bool) (fl : Nat) (l : List Summit) (i : Nat) :
    loop P (negI I) (!neg) fl i l = (loop P I neg fl i l).map negC := by
  induction l generalizing i with
  | nil => simp [loop]
  | cons s rest ih =>
    simp only [loop, peak_neg, belowInner_neg]
    cases h : peak neg I s with
    | none => simpa using ih i
    | some pa =>
      obtain ⟨p, amp⟩ := pa
      simp only [Option.map_some, N]
      split
      · exact ih i
      · have hmem : I.data p = some amp := by
          have := best_mem h
          rcases this with h1 | h1
          · exact mem_valsAt h1
          · cases h1
        have hne := hnz p amp hmem
        have hr : (negI I).rms = I.rms := rfl
        have hsm : (negI I).sampling = I.sampling := rfl
        simp only [List.map_cons, ih (i + 1), hr, hsm, hL.bounds _ _ _ _ _ hne, negC]

/-- all finite pixels strictly positive, or all strictly negative -/
def SingleSign (I : Island ℝ) : Prop :=
  (∀ p v, I.data p = some v → 0 < v) ∨ (∀ p v, I.data p = some v → v < 0)

theorem mem_finitePx {I : Island ℝ} {pv : Px × ℝ} (h : pv ∈ finitePx I) : I.data pv.1 = some pv.2 :=
  mem_valsAt (d := I.data) (px := allPx I.h I.w) (p := pv.1) (v := pv.2) h

theorem isNegative_neg (I : Island ℝ) (hs : SingleSign I) (hne : finitePx I ≠ []) :
    isNegative (negI I) = !isNegative I := by
  obtain ⟨x, hx⟩ := List.exists_mem_of_ne_nil _ hne
  simp only [isNegative, finitePx_neg, List.all_map, lt_real, zero_real]
  rcases hs with hp | hn
  · have h1 : ((finitePx I).all (fun pv => decide (pv.2 < 0))) = false := by
      rw [List.all_eq_false]
      exact ⟨x, hx, by have := hp _ _ (mem_finitePx hx); simp; linarith⟩
    have h2 : ((finitePx I).all ((fun pv : Px × ℝ => decide (pv.2 < 0)) ∘ N)) = true := by
      rw [List.all_eq_true]
      intro y hy
      have := hp _ _ (mem_finitePx hy)
      simp [N]; exact this
    rw [h1, h2]; rfl
  · have h1 : ((finitePx I).all (fun pv => decide (pv.2 < 0))) = true := by
      rw [List.all_eq_true]
      intro y hy
      have := hn _ _ (mem_finitePx hy)
      simp; exact this
    have h2 : ((finitePx I).all ((fun pv : Px × ℝ => decide (pv.2 < 0)) ∘ N)) = false := by
      rw [List.all_eq_false]
      exact ⟨x, hx, by have := hn _ _ (mem_finitePx hx); simp [N]; linarith⟩
    rw [h1, h2]; rfl

theorem singleSign_ne_zero {I : Island ℝ} (hs : SingleSign I) : ∀ p v, I.data p = some v → v ≠ 0 := by
  intro p v h
  rcases hs with hp | hn
  · exact ne_of_gt (hp p v h)
  · exact ne_of_lt (hn p v h)

theorem estimate_neg (P : Params ℝ) (hL : LeavesMirror P.leaves) (I : Island ℝ) (hs : SingleSign I)
    (hne : finitePx I ≠ []) :
    estimate P (negI I) = (estimate P I).map (List.map negC) := by
  have hlen : (finitePx (negI I)).length = (finitePx I).length := by
    rw [finitePx_neg, List.length_map]
  have hh : (negI I).h = I.h := rfl
  have hw : (negI I).w = I.w := rfl
  simp only [estimate, isNegative_neg I hs hne, hlen, hh, hw, summitMask_neg _ _ P hL, wholeSummit_neg,
    sortSummits_neg, loop_neg P hL I (singleSign_ne_zero hs)]
  split <;> split <;> rfl

/-! ### objective -/

theorem modelAt_neg (g : ℝ → ℝ → ℝ → ℝ → ℝ → ℝ → ℝ → ℝ → ℝ)
    (hg : ∀ x y a xo yo sx sy th, g x y (-a) xo yo sx sy th = -g x y a xo yo sx sy th)
    (comps : List (GP ℝ)) (x y : ℝ) :
    modelAt g (comps.map negGP) x y = -modelAt g comps x y := by
  have key : ∀ (l : List (GP ℝ)) (acc : ℝ),
      (l.map negGP).foldl (fun acc c => acc + g x y c.amp c.xo c.yo c.sx c.sy c.theta) (-acc)
        = -(l.foldl (fun acc c => acc + g x y c.amp c.xo c.yo c.sx c.sy c.theta) acc) := by
    intro l
    induction l with
    | nil => intro acc; rfl
    | cons c r ih =>
      intro acc
      simp only [List.map_cons, List.foldl_cons, negGP, hg]
      rw [show -acc + -g x y c.amp c.xo c.yo c.sx c.sy c.theta
            = -(acc + g x y c.amp c.xo c.yo c.sx c.sy c.theta) by ring]
      exact ih _
  have := key comps 0
  simp only [modelAt, zero_real]
  rw [neg_zero] at this
  exact this

end Aegean.C13R
