/-
  C05 — lemmas about the island logic of priorized fitting (`Aegean.Model.C05`), for an arbitrary
  environment `env` (arbitrary optimiser, arbitrary numeric type).  Core Lean only.
-/
import Aegean.Model.C05

namespace Aegean.Proofs.C05
open Aegean.Model.C05

variable {α : Type}

/-! ### generic list facts -/

theorem getElem?_zipWith_some {A B C : Type} {f : A → B → C} :
    ∀ (xs : List A) (ys : List B) (k : Nat) (o : C),
      (List.zipWith f xs ys)[k]? = some o → ∃ a b, xs[k]? = some a ∧ ys[k]? = some b ∧ o = f a b := by
  intro xs
  induction xs with
  | nil => intro ys k o h; simp at h
  | cons a t ih =>
    intro ys k o h
    cases ys with
    | nil => simp at h
    | cons b u =>
      cases k with
      | zero =>
        simp only [List.zipWith_cons_cons, List.getElem?_cons_zero, Option.some.injEq] at h
        exact ⟨a, b, by simp, by simp, h.symm⟩
      | succ k =>
        simp only [List.zipWith_cons_cons, List.getElem?_cons_succ] at h
        obtain ⟨a', b', h1, h2, h3⟩ := ih u k o h
        exact ⟨a', b', by simpa using h1, by simpa using h2, h3⟩

theorem zipWith_length_le_right {A B C : Type} (f : A → B → C) (xs : List A) (ys : List B) :
    (List.zipWith f xs ys).length ≤ ys.length := by
  simp only [List.length_zipWith]; omega

theorem zipWith_map_take {A B C D : Type} (f : A → B → C) (g : C → D) (h : B → D)
    (hf : ∀ a b, g (f a b) = h b) :
    ∀ (xs : List A) (ys : List B), (List.zipWith f xs ys).map g = (ys.take xs.length).map h := by
  intro xs
  induction xs with
  | nil => intro ys; simp
  | cons a t ih =>
    intro ys
    cases ys with
    | nil => simp
    | cons b u => simp [hf, ih]

/-! ### the per-source loop skips rejected sources without touching anything -/

theorem loop_foldl (env : Env α) (im : Img) (stage : Nat) (isle : List (Src α)) (acc : Acc α) :
    isle.foldl (loopStep env im stage) acc =
      ⟨(isle.filter (accepted im)).foldl (boxStep env im) acc.box,
       acc.comps ++ (isle.filter (accepted im)).map (mkComp env stage),
       acc.inc ++ isle.filter (accepted im)⟩ := by
  induction isle generalizing acc with
  | nil => cases acc; simp
  | cons s t ih =>
    simp only [List.foldl_cons, loopStep]
    by_cases h : accepted im s = true
    · simp [h, ih]
    · simp [h, ih]

/-- the loop's final state depends on the island only through its accepted sources, in order -/
theorem loop_eq (env : Env α) (im : Img) (stage : Nat) (isle : List (Src α)) :
    loop env im stage isle =
      ⟨bounds env im (isle.filter (accepted im)), (isle.filter (accepted im)).map (mkComp env stage),
       isle.filter (accepted im)⟩ := by
  unfold loop bounds
  rw [loop_foldl]
  simp

/-! ### the cut-out bounds -/

/-- what the proofs need from the four regenerated update statements -/
structure StepLaws (env : Env α) : Prop where
  xmin : ∀ (a b c d x y : Int) (xw yw n0 n1 : Nat),
    env.xminStep a b c d x y xw yw n0 n1 = min a (max 0 (x - ((xw / 2 : Nat) : Int)))
  xmax : ∀ (a b c d x y : Int) (xw yw n0 n1 : Nat),
    env.xmaxStep a b c d x y xw yw n0 n1 = max b (min (n0 : Int) (x + ((xw / 2 : Nat) : Int) + 1))
  ymin : ∀ (a b c d x y : Int) (xw yw n0 n1 : Nat),
    env.yminStep a b c d x y xw yw n0 n1 = min c (max 0 (y - ((yw / 2 : Nat) : Int)))
  ymax : ∀ (a b c d x y : Int) (xw yw n0 n1 : Nat),
    env.ymaxStep a b c d x y xw yw n0 n1 = max d (min (n1 : Int) (y + ((yw / 2 : Nat) : Int) + 1))

/-- the window the code wants around one source, clipped to the image -/
def winLoX (s : Src α) : Int := max 0 (s.x - ((s.xw / 2 : Nat) : Int))
def winHiX (im : Img) (s : Src α) : Int := min (im.n0 : Int) (s.x + ((s.xw / 2 : Nat) : Int) + 1)
def winLoY (s : Src α) : Int := max 0 (s.y - ((s.yw / 2 : Nat) : Int))
def winHiY (im : Img) (s : Src α) : Int := min (im.n1 : Int) (s.y + ((s.yw / 2 : Nat) : Int) + 1)

theorem boxStep_eq (env : Env α) (h : StepLaws env) (im : Img) (b : Box) (s : Src α) :
    boxStep env im b s =
      ⟨min b.xmin (winLoX s), max b.xmax (winHiX im s), min b.ymin (winLoY s), max b.ymax (winHiY im s)⟩ := by
  simp only [boxStep, h.xmin, h.xmax, h.ymin, h.ymax, winLoX, winHiX, winLoY, winHiY]

/-- folding only ever widens the box -/
theorem foldl_mono (env : Env α) (h : StepLaws env) (im : Img) (l : List (Src α)) (b : Box) :
    (l.foldl (boxStep env im) b).xmin ≤ b.xmin ∧ b.xmax ≤ (l.foldl (boxStep env im) b).xmax ∧
    (l.foldl (boxStep env im) b).ymin ≤ b.ymin ∧ b.ymax ≤ (l.foldl (boxStep env im) b).ymax := by
  induction l generalizing b with
  | nil => simp
  | cons s t ih =>
    simp only [List.foldl_cons]
    have := ih (boxStep env im b s)
    rw [boxStep_eq env h] at this ⊢
    simp only at this
    omega

/-- every folded source's window is inside the final box -/
theorem foldl_window (env : Env α) (h : StepLaws env) (im : Img) (l : List (Src α)) (b : Box) :
    ∀ s ∈ l, (l.foldl (boxStep env im) b).xmin ≤ winLoX s ∧ winHiX im s ≤ (l.foldl (boxStep env im) b).xmax ∧
             (l.foldl (boxStep env im) b).ymin ≤ winLoY s ∧ winHiY im s ≤ (l.foldl (boxStep env im) b).ymax := by
  induction l generalizing b with
  | nil => intro s hs; simp at hs
  | cons a t ih =>
    intro s hs
    simp only [List.foldl_cons]
    rcases List.mem_cons.mp hs with rfl | hs
    · have := foldl_mono env h im t (boxStep env im b s)
      rw [boxStep_eq env h] at this ⊢
      simp only at this
      omega
    · exact ih (boxStep env im b a) s hs

/-- the final box stays inside the image -/
theorem foldl_range (env : Env α) (h : StepLaws env) (im : Img) (l : List (Src α)) (b : Box)
    (hb : 0 ≤ b.xmin ∧ b.xmax ≤ (im.n0 : Int) ∧ 0 ≤ b.ymin ∧ b.ymax ≤ (im.n1 : Int)) :
    0 ≤ (l.foldl (boxStep env im) b).xmin ∧ (l.foldl (boxStep env im) b).xmax ≤ (im.n0 : Int) ∧
    0 ≤ (l.foldl (boxStep env im) b).ymin ∧ (l.foldl (boxStep env im) b).ymax ≤ (im.n1 : Int) := by
  induction l generalizing b with
  | nil => simpa using hb
  | cons s t ih =>
    simp only [List.foldl_cons]
    apply ih
    rw [boxStep_eq env h]
    simp only [winLoX, winHiX, winLoY, winHiY]
    omega

/-- the final lower bound is the starting value or is attained by some source's window (so the
    cut-out is never larger than the union of the windows requires) -/
theorem foldl_tight (env : Env α) (h : StepLaws env) (im : Img) (l : List (Src α)) (b : Box) :
    ((l.foldl (boxStep env im) b).xmin = b.xmin ∨ ∃ s ∈ l, (l.foldl (boxStep env im) b).xmin = winLoX s) ∧
    ((l.foldl (boxStep env im) b).xmax = b.xmax ∨ ∃ s ∈ l, (l.foldl (boxStep env im) b).xmax = winHiX im s) ∧
    ((l.foldl (boxStep env im) b).ymin = b.ymin ∨ ∃ s ∈ l, (l.foldl (boxStep env im) b).ymin = winLoY s) ∧
    ((l.foldl (boxStep env im) b).ymax = b.ymax ∨ ∃ s ∈ l, (l.foldl (boxStep env im) b).ymax = winHiY im s) := by
  induction l generalizing b with
  | nil => simp
  | cons a t ih =>
    simp only [List.foldl_cons]
    have e := boxStep_eq env h im b a
    obtain ⟨i1, i2, i3, i4⟩ := ih (boxStep env im b a)
    refine ⟨?_, ?_, ?_, ?_⟩
    · rcases i1 with i1 | ⟨s, hs, i1⟩
      · rw [i1, e]
        by_cases c : b.xmin ≤ winLoX a
        · left; simp only; omega
        · right; exact ⟨a, by simp, by simp only; omega⟩
      · right; exact ⟨s, by simp [hs], i1⟩
    · rcases i2 with i2 | ⟨s, hs, i2⟩
      · rw [i2, e]
        by_cases c : winHiX im a ≤ b.xmax
        · left; simp only; omega
        · right; exact ⟨a, by simp, by simp only; omega⟩
      · right; exact ⟨s, by simp [hs], i2⟩
    · rcases i3 with i3 | ⟨s, hs, i3⟩
      · rw [i3, e]
        by_cases c : b.ymin ≤ winLoY a
        · left; simp only; omega
        · right; exact ⟨a, by simp, by simp only; omega⟩
      · right; exact ⟨s, by simp [hs], i3⟩
    · rcases i4 with i4 | ⟨s, hs, i4⟩
      · rw [i4, e]
        by_cases c : winHiY im a ≤ b.ymax
        · left; simp only; omega
        · right; exact ⟨a, by simp, by simp only; omega⟩
      · right; exact ⟨s, by simp [hs], i4⟩

theorem accepted_range (im : Img) (s : Src α) (h : accepted im s = true) :
    0 ≤ s.x ∧ s.x < (im.n0 : Int) ∧ 0 ≤ s.y ∧ s.y < (im.n1 : Int) ∧ im.finite s.x s.y = true := by
  simp only [accepted, Bool.and_eq_true, decide_eq_true_eq] at h
  obtain ⟨⟨⟨⟨h1, h2⟩, h3⟩, h4⟩, h5⟩ := h
  exact ⟨h1, h2, h3, h4, h5⟩

/-! ### the second half of the island: one output per fitted block, paired with its source -/

/-- the block handed to the optimiser for one accepted source -/
def blockOf (env : Env α) (stage : Nat) (b : Box) (s : Src α) : Comp α :=
  dataCheck env b (toLocal env b (mkComp env stage s))

/-- the output built from fitted parameters `p` for source `s` -/
def outOf (env : Env α) (stage : Nat) (b : Box) (isf : Nat) (p : Par α) (s : Src α) : Out α :=
  copyBack env stage (toOut env b isf (p, blockOf env stage b s)) s

theorem zip_fuse (env : Env α) (stage : Nat) (b : Box) (isf : Nat) :
    ∀ (ps : List (Par α)) (inc : List (Src α)),
      List.zipWith (copyBack env stage) ((ps.zip (inc.map (blockOf env stage b))).map (toOut env b isf)) inc
        = List.zipWith (outOf env stage b isf) ps inc := by
  intro ps
  induction ps with
  | nil => intro inc; simp
  | cons p t ih =>
    intro inc
    cases inc with
    | nil => simp
    | cons s u => simp [ih, outOf]

/-- the state in which `loop` leaves an island (by `loop_eq`) -/
def accOf (env : Env α) (stage : Nat) (b : Box) (inc : List (Src α)) : Acc α :=
  ⟨b, inc.map (mkComp env stage), inc⟩

theorem finish_eq (env : Env α) (stage : Nat) (isf : Nat) (b : Box) (inc : List (Src α)) :
    finish env stage isf (accOf env stage b inc) =
      if inc.isEmpty then [] else
      match fitIsland env b (inc.map (blockOf env stage b)) with
      | none => []
      | some ps => List.zipWith (outOf env stage b isf) ps inc := by
  unfold finish accOf
  simp only [List.map_map]
  have e : (dataCheck env b ∘ toLocal env b ∘ mkComp env stage) = blockOf env stage b := by
    funext s; rfl
  rw [e]
  by_cases hemp : inc.isEmpty = true
  · rw [if_pos hemp, if_pos hemp]
  · rw [if_neg hemp, if_neg hemp]
    cases fitIsland env b (inc.map (blockOf env stage b)) with
    | none => rfl
    | some ps => simp only [zip_fuse]

/-- whatever the optimiser does: at most one output per accepted source, in the order of the accepted
    sources, each carrying its source's uuid -/
theorem finish_uuid_prefix (env : Env α) (stage : Nat) (isf : Nat) (b : Box) (inc : List (Src α)) :
    ((finish env stage isf (accOf env stage b inc)).map (·.uuid)) <+: (inc.map (·.uuid)) := by
  rw [finish_eq]
  split
  · simp
  · split
    · simp
    · rename_i ps _
      rw [zipWith_map_take (outOf env stage b isf) (·.uuid) (·.uuid) (by intro a s; rfl)]
      exact (List.take_prefix _ _).map _

/-- each output is `outOf` of the fitted block and the source at the same position -/
theorem finish_getElem? (env : Env α) (stage : Nat) (isf : Nat) (b : Box) (inc : List (Src α))
    (k : Nat) (o : Out α) (h : (finish env stage isf (accOf env stage b inc))[k]? = some o) :
    ∃ ps p s, fitIsland env b (inc.map (blockOf env stage b)) = some ps ∧ ps[k]? = some p ∧ inc[k]? = some s ∧
      o = outOf env stage b isf p s := by
  rw [finish_eq] at h
  split at h
  · simp at h
  · split at h
    · simp at h
    · rename_i ps hps
      obtain ⟨p, s, h1, h2, h3⟩ := getElem?_zipWith_some _ _ _ _ h
      exact ⟨ps, p, s, hps, h1, h2, h3⟩

/-! ### the copy-back -/

theorem testBit_or_self (a : Nat) : (a ||| PRIORIZED).testBit 6 = true := by
  simp [Nat.testBit_or, PRIORIZED]
  right; decide

theorem copyBack_uuid (env : Env α) (stage : Nat) (ns : Out α) (s : Src α) :
    (copyBack env stage ns s).uuid = s.uuid := rfl

theorem copyBack_par (env : Env α) (stage : Nat) (ns : Out α) (s : Src α) :
    (copyBack env stage ns s).p = ns.p := rfl

theorem copyBack_priorized (env : Env α) (stage : Nat) (ns : Out α) (s : Src α) :
    (copyBack env stage ns s).flags.testBit 6 = true := by
  unfold copyBack
  simp only
  split
  · rw [Nat.testBit_or, testBit_or_self]; rfl
  · exact testBit_or_self _

theorem copyBack_pos (env : Env α) (stage : Nat) (ns : Out α) (s : Src α) (h : env.copyPosErr stage = true) :
    (copyBack env stage ns s).e.ra = s.e.ra ∧ (copyBack env stage ns s).e.dec = s.e.dec ∧
    (copyBack env stage ns s).flags.testBit 2 = true := by
  unfold copyBack
  simp only [h, if_true]
  refine ⟨?_, ?_, ?_⟩
  · split <;> rfl
  · split <;> rfl
  · simp [Nat.testBit_or, FIXED2PSF]
    right; decide

theorem copyBack_shape (env : Env α) (stage : Nat) (ns : Out α) (s : Src α) (h : env.copyShapeErr stage = true) :
    (copyBack env stage ns s).e.a = s.e.a ∧ (copyBack env stage ns s).e.b = s.e.b ∧
    (copyBack env stage ns s).e.pa = s.e.pa := by
  simp [copyBack, h]

/-- errors that the stage says were fitted are the fit's own -/
theorem copyBack_fitted (env : Env α) (stage : Nat) (ns : Out α) (s : Src α) :
    (env.copyPosErr stage = false → (copyBack env stage ns s).e.ra = ns.e.ra ∧ (copyBack env stage ns s).e.dec = ns.e.dec) ∧
    (env.copyShapeErr stage = false → (copyBack env stage ns s).e.a = ns.e.a ∧ (copyBack env stage ns s).e.b = ns.e.b ∧
      (copyBack env stage ns s).e.pa = ns.e.pa) := by
  constructor
  · intro h; cases hs : env.copyShapeErr stage <;> simp [copyBack, h, hs]
  · intro h; cases hs : env.copyPosErr stage <;> simp [copyBack, h, hs]

/-! ### what is assumed of the optimiser -/

/-- `lmfit.minimize` returns one block per input block and leaves parameters with `vary=False`
    at their input values -/
structure OptLaw (env : Env α) : Prop where
  length : ∀ b cs, (env.opt b cs).length = cs.length
  fixed : ∀ (b : Box) (cs : List (Comp α)) (k : Nat) (c : Comp α) (p : Par α),
    cs[k]? = some c → (env.opt b cs)[k]? = some p →
    (c.v.xo = false → p.xo = c.p.xo) ∧ (c.v.yo = false → p.yo = c.p.yo) ∧ (c.v.sx = false → p.sx = c.p.sx) ∧
    (c.v.sy = false → p.sy = c.p.sy) ∧ (c.v.theta = false → p.theta = c.p.theta)

/-- in every branch of `fitIsland` (no free parameter, or a real fit) the blocks come back one for
    one, and what was not free is unchanged -/
theorem fitIsland_spec (env : Env α) (hl : OptLaw env) (b : Box) (cs : List (Comp α)) (ps : List (Par α))
    (h : fitIsland env b cs = some ps) :
    ps.length = cs.length ∧
    ∀ (k : Nat) (c : Comp α) (p : Par α), cs[k]? = some c → ps[k]? = some p →
      (c.v.xo = false → p.xo = c.p.xo) ∧ (c.v.yo = false → p.yo = c.p.yo) ∧ (c.v.sx = false → p.sx = c.p.sx) ∧
      (c.v.sy = false → p.sy = c.p.sy) ∧ (c.v.theta = false → p.theta = c.p.theta) := by
  unfold fitIsland at h
  split at h
  · simp only [Option.some.injEq] at h
    subst h
    refine ⟨by simp, ?_⟩
    intro k c p hc hp
    simp only [List.getElem?_map, hc, Option.map_some, Option.some.injEq] at hp
    subst hp
    simp
  · split at h
    · simp at h
    · simp only [Option.some.injEq] at h
      subst h
      exact ⟨hl.length b cs, fun k c p hc hp => hl.fixed b cs k c p hc hp⟩

/-- the block built for a source: its vary flags are the stage's table, or all false when the
    component has no data; position, shape are the source's (position shifted to the cut-out) -/
theorem blockOf_spec (env : Env α) (stage : Nat) (b : Box) (s : Src α) :
    let c := blockOf env stage b s
    let ox := env.ofInt (env.subX b.xmin b.xmax b.ymin b.ymax)
    let oy := env.ofInt (env.subY b.xmin b.xmax b.ymin b.ymax)
    c.p.xo = env.xoLocal s.p.xo s.p.yo ox oy ∧ c.p.yo = env.yoLocal s.p.xo s.p.yo ox oy ∧
    c.p.sx = s.p.sx ∧ c.p.sy = s.p.sy ∧ c.p.theta = s.p.theta ∧
    (c.v = varyOf env stage ∨ c.v = Vary.none) := by
  unfold blockOf dataCheck
  by_cases h : env.hasData b (toLocal env b (mkComp env stage s)).p = true
  · rw [if_pos h]; simp [toLocal, mkComp]
  · rw [if_neg h]; simp [toLocal, mkComp]

/-! ### whole catalogue -/

theorem refitIsland_uuid_prefix (env : Env α) (im : Img) (stage : Nat) (isle : List (Src α)) :
    ((refitIsland env im stage isle).map (·.uuid)) <+: ((isle.filter (accepted im)).map (·.uuid)) := by
  unfold refitIsland
  rw [loop_eq]
  exact finish_uuid_prefix env stage _ _ _

theorem refitAll_uuid_sublist (env : Env α) (im : Img) (stage : Nat) (groups : List (List (Src α))) :
    ((refitAll env im stage groups).map (·.uuid)).Sublist ((groups.flatten.filter (accepted im)).map (·.uuid)) := by
  induction groups with
  | nil => simp [refitAll]
  | cons g gs ih =>
    have e : refitAll env im stage (g :: gs) = refitIsland env im stage g ++ refitAll env im stage gs := by
      simp [refitAll]
    rw [e]
    simp only [List.flatten_cons, List.filter_append, List.map_append]
    exact List.Sublist.append (refitIsland_uuid_prefix env im stage g).sublist ih

end Aegean.Proofs.C05
