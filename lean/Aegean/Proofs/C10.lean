/-
  C10 — helper lemmas (core Lean only): row-major flattening, the slice-assignment loop of the
  index builder, boolean-mask selection.
-/
import Aegean.Model.C10

namespace Aegean.Proofs.C10
open Aegean.Model.C10

/-! ### Row-major flattening of equally long rows -/

theorem length_flatten_range {β : Type} (f : Nat → List β) (n : Nat) (P : Nat)
    (hlen : ∀ p, p < P → (f p).length = n) :
    (((List.range P).map f).flatten).length = P * n := by
  induction P with
  | zero => simp
  | succ P ih =>
    rw [List.range_succ, List.map_append, List.flatten_append, List.length_append,
      ih (fun p hp => hlen p (by omega))]
    simp [hlen P (by omega), Nat.succ_mul]

/-- element `k` of row `p` sits at flat position `p·n + k` -/
theorem getElem?_flatten_range {β : Type} (f : Nat → List β) (n : Nat) (P : Nat)
    (hlen : ∀ p, p < P → (f p).length = n) (p k : Nat) (hp : p < P) (hk : k < n) :
    (((List.range P).map f).flatten)[p * n + k]? = (f p)[k]? := by
  induction P with
  | zero => omega
  | succ P ih =>
    rw [List.range_succ, List.map_append, List.flatten_append]
    have hL := length_flatten_range f n P (fun p hp => hlen p (by omega))
    by_cases h : p < P
    · have h1 : (p + 1) * n ≤ P * n := Nat.mul_le_mul_right n h
      rw [Nat.succ_mul] at h1
      rw [List.getElem?_append_left (by rw [hL]; omega)]
      exact ih (fun p hp => hlen p (by omega)) h
    · have hpP : p = P := by omega
      subst hpP
      rw [List.getElem?_append_right (by rw [hL]; omega), hL]
      simp

/-- division / remainder recover the row and the column of a flat position -/
theorem flat_div_mod (W i j : Nat) (hj : j < W) : (i * W + j) / W = i ∧ (i * W + j) % W = j := by
  have hW : 0 < W := by omega
  constructor
  · rw [Nat.mul_comm, Nat.mul_add_div hW, Nat.div_eq_of_lt hj]; omega
  · rw [Nat.mul_comm, Nat.mul_add_mod, Nat.mod_eq_of_lt hj]

theorem flat_lt (H W i j : Nat) (hi : i < H) (hj : j < W) : i * W + j < H * W := by
  have h1 : (i + 1) * W ≤ H * W := Nat.mul_le_mul_right W hi
  rw [Nat.succ_mul] at h1
  omega

/-- every flat position below `H·W` is `i·W + j` for exactly its quotient and remainder -/
theorem flat_decompose (H W k : Nat) (hk : k < H * W) :
    k / W < H ∧ k % W < W ∧ (k / W) * W + k % W = k := by
  have hW : 0 < W := by
    rcases Nat.eq_zero_or_pos W with h | h
    · subst h; simp at hk
    · exact h
  refine ⟨?_, Nat.mod_lt _ hW, ?_⟩
  · exact (Nat.div_lt_iff_lt_mul hW).mpr hk
  · rw [Nat.mul_comm]; exact Nat.div_add_mod k W

/-! ### The index builder -/

theorem length_idxRow (W i : Nat) : (idxRow W i).length = W := by simp [idxRow]

theorem getElem?_idxRow (W i j : Nat) (hj : j < W) :
    (idxRow W i)[j]? = some (((j : Nat) : Int), ((i : Nat) : Int)) := by
  simp [idxRow, hj]

/-- the closed form of the loop's result: the rows `idxRow W 0, idxRow W 1, …` one after the other -/
def indexesSpec (H W : Nat) : List Pix := ((List.range H).map (idxRow W)).flatten

theorem length_indexesSpec (H W : Nat) : (indexesSpec H W).length = H * W :=
  length_flatten_range (idxRow W) W H (fun p _ => length_idxRow W p)

/-- loop invariant: after `k` iterations the first `k·W` entries are final, the rest is untouched -/
theorem buildIndexes_inv (W : Nat) (junk : List Pix) (k : Nat) (hk : k * W ≤ junk.length) :
    (List.range k).foldl (fun acc i => setSlice acc (i * W) (idxRow W i)) junk
      = indexesSpec k W ++ junk.drop (k * W) := by
  induction k with
  | zero => simp [indexesSpec]
  | succ k ih =>
    have h1 : (k + 1) * W = k * W + W := Nat.succ_mul k W
    rw [List.range_succ, List.foldl_append, ih (by omega)]
    simp only [List.foldl_cons, List.foldl_nil, setSlice]
    have hL : (indexesSpec k W).length = k * W := length_indexesSpec k W
    rw [List.take_append_of_le_length (by omega), List.take_of_length_le (by omega)]
    rw [length_idxRow, List.drop_append, hL]
    rw [List.drop_of_length_le (l := indexesSpec k W) (by omega)]
    have e : k * W + W - k * W = W := by omega
    rw [e, List.drop_drop, List.nil_append]
    simp only [indexesSpec]
    rw [List.range_succ, List.map_append, List.flatten_append]
    simp [h1, Nat.add_comm]

/-- **the loop computes the row-major list, whatever `np.empty` held** -/
theorem buildIndexes_eq (H W : Nat) (junk : List Pix) (hj : junk.length = H * W) :
    buildIndexes H W junk = indexesSpec H W := by
  unfold buildIndexes
  rw [buildIndexes_inv W junk H (by omega), List.drop_of_length_le (by omega), List.append_nil]

theorem indexes_eq (H W : Nat) : indexes H W = indexesSpec H W :=
  buildIndexes_eq H W _ (by simp [emptyIdx])

theorem length_indexes (H W : Nat) : (indexes H W).length = H * W := by
  rw [indexes_eq]; exact length_indexesSpec H W

theorem getElem?_indexes (H W i j : Nat) (hi : i < H) (hj : j < W) :
    (indexes H W)[i * W + j]? = some (((j : Nat) : Int), ((i : Nat) : Int)) := by
  rw [indexes_eq, indexesSpec, getElem?_flatten_range (idxRow W) W H (fun p _ => length_idxRow W p) i j hi hj]
  exact getElem?_idxRow W i j hj

/-! ### `bigmask` and the assignment -/

theorem length_bigmask {S : Type} (sky : Pix → S) (inside : S → Bool) (negate : Bool) (H W : Nat) :
    (bigmask sky inside negate H W).length = H * W := by
  unfold bigmask bigmaskO
  cases negate <;> simp [length_indexes]

theorem getElem?_bigmask {S : Type} (sky : Pix → S) (inside : S → Bool) (negate : Bool)
    (H W i j : Nat) (hi : i < H) (hj : j < W) :
    (bigmask sky inside negate H W)[i * W + j]? =
      some ((inside (pix2world sky wcsOrigin (((j : Nat) : Int), ((i : Nat) : Int)))) == negate) := by
  unfold bigmask bigmaskO
  cases negate <;> simp [getElem?_indexes H W i j hi hj]

theorem getElem?_assignNan {α : Type} (nan : α) (mask : List Bool) (data : List α) (k : Nat) (b : Bool)
    (hb : mask[k]? = some b) :
    (assignNan nan mask data)[k]? = (data[k]?).map (fun v => if b then nan else v) := by
  unfold assignNan
  rw [List.getElem?_zipWith, hb]
  cases data[k]? <;> rfl

theorem length_assignNan {α : Type} (nan : α) (mask : List Bool) (data : List α) :
    (assignNan nan mask data).length = min mask.length data.length := by
  simp [assignNan]

/-! ### planes -/

theorem length_plane {α : Type} (H W : Nat) (data : List α) (P p : Nat) (hp : p < P)
    (hd : data.length = P * (H * W)) : (plane H W data p).length = H * W := by
  have h1 : (p + 1) * (H * W) ≤ P * (H * W) := Nat.mul_le_mul_right _ hp
  rw [Nat.succ_mul] at h1
  simp [plane]; omega

theorem getElem?_plane {α : Type} (H W : Nat) (data : List α) (p k : Nat) (hk : k < H * W) :
    (plane H W data p)[k]? = data[p * (H * W) + k]? := by
  simp [plane, hk]

/-! ### boolean-mask selection is `filter` -/

theorem selectMask_map {β : Type} (f : β → Bool) (rows : List β) :
    selectMask (rows.map f) rows = rows.filter f := by
  induction rows with
  | nil => rfl
  | cons r rs ih =>
    simp only [List.map_cons, selectMask, List.filter_cons, ih]

end Aegean.Proofs.C10
