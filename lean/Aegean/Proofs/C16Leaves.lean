/-
  C16 — canonical forms of the regenerated arithmetic leaves.

  Every `Gen.C16.f` (regenerated from the Python source on each run, or — when the source leaves the translator's
  whitelist — defined as the hand copy `Aegean.Model.C16Hand.f`) is proved equal to ONE fixed real expression.
  These are the only places where a generated definition is unfolded: all other C16 proofs rewrite with the lemmas
  below, so renamed locals, reordered terms, `hypot` ↔ `sqrt` of squares, extracted helper methods, and the
  translator's fallback all leave the downstream proofs untouched, while a changed constant, a dropped term or a
  different argument breaks the corresponding lemma here.

  Proof shape (robust by construction): `simp only [Gen.f, Hand.f, ℝ-interpretation lemmas]` then `ring_nf`, which
  normalises both sides, inside `sqrt`, `arg`, `cos`, `|·|` too.
-/
import Aegean.Proofs.Real
import Aegean.Model.C16
import Mathlib.Tactic.Linarith
import Mathlib.Tactic.FieldSimp
import Mathlib.Tactic.Positivity

set_option linter.unusedSimpArgs false
set_option linter.unusedTactic false
set_option linter.unreachableTactic false

namespace Aegean.C16
open Real
open Aegean.Model

theorem hypot_sq (a b : ℝ) : (R.hypot a b : ℝ) = Real.sqrt (a ^ 2 + b ^ 2) := by
  rw [R.real_hypot]; congr 1; ring

/-- `arcsin` already clamps its argument to [−1, 1], so the clamp that the repaired `translate` applies
    before `arcsin` (against rounding at the poles) is the identity over ℝ — for EVERY argument -/
theorem arcsin_clamp (S : ℝ) : Real.arcsin (min 1 (max (-1) S)) = Real.arcsin S := by
  rcases le_total S (-1) with h | h
  · rw [max_eq_left h, min_eq_right (by norm_num), Real.arcsin_of_le_neg_one h, Real.arcsin_neg_one]
  · rw [max_eq_right h]
    rcases le_total S 1 with h1 | h1
    · rw [min_eq_right h1]
    · rw [min_eq_left h1, Real.arcsin_of_one_le h1, Real.arcsin_one]

/-! ### angle_tools -/

theorem gcdSep_eq_hand (ra1 dec1 ra2 dec2 : ℝ) :
    Gen.C16.gcdSep ra1 dec1 ra2 dec2 = C16Hand.gcdSep ra1 dec1 ra2 dec2 := by
  try simp only [Gen.C16.gcdSep, C16Hand.gcdSep, R.real_npow, R.real_sin, R.real_cos, R.real_ofNat,
    R.real_radians, R.real_degrees, R.real_asin, R.real_min, R.real_sqrt]
  try ring_nf

theorem bear_eq_hand (ra1 dec1 ra2 dec2 : ℝ) :
    Gen.C16.bear ra1 dec1 ra2 dec2 = C16Hand.bear ra1 dec1 ra2 dec2 := by
  try simp only [Gen.C16.bear, C16Hand.bear, R.real_sin, R.real_cos, R.real_ofNat, R.real_radians,
    R.real_degrees, R.real_atan2]
  try ring_nf

theorem translateDec_eq_hand (ra dec r theta : ℝ) :
    Gen.C16.translateDec ra dec r theta = C16Hand.translateDec ra dec r theta := by
  try simp only [Gen.C16.translateDec, C16Hand.translateDec, R.real_sin, R.real_cos, R.real_ofNat,
    R.real_radians, R.real_degrees, R.real_asin, R.real_min, R.real_max, Nat.cast_one, arcsin_clamp]
  try ring_nf

theorem translateRa_eq_hand (ra dec r theta : ℝ) :
    Gen.C16.translateRa ra dec r theta = C16Hand.translateRa ra dec r theta := by
  try simp only [Gen.C16.translateRa, C16Hand.translateRa, C16Hand.translateDec, R.real_sin, R.real_cos,
    R.real_ofNat, R.real_radians, R.real_degrees, R.real_asin, R.real_atan2, R.real_min, R.real_max,
    Nat.cast_one, arcsin_clamp]
  try ring_nf

/-! ### the returned coordinates are the inputs -/

theorem s2pVecX_eq (x : ℝ) : Gen.C16.s2pVecX x = x := by
  try simp only [Gen.C16.s2pVecX, C16Hand.idHand]
theorem s2pVecY_eq (y : ℝ) : Gen.C16.s2pVecY y = y := by
  try simp only [Gen.C16.s2pVecY, C16Hand.idHand]
theorem s2pEllX_eq (x : ℝ) : Gen.C16.s2pEllX x = x := by
  try simp only [Gen.C16.s2pEllX, C16Hand.idHand]
theorem s2pEllY_eq (y : ℝ) : Gen.C16.s2pEllY y = y := by
  try simp only [Gen.C16.s2pEllY, C16Hand.idHand]
theorem p2sVecRa_eq (ra : ℝ) : Gen.C16.p2sVecRa ra = ra := by
  try simp only [Gen.C16.p2sVecRa, C16Hand.idHand]
theorem p2sVecDec_eq (dec : ℝ) : Gen.C16.p2sVecDec dec = dec := by
  try simp only [Gen.C16.p2sVecDec, C16Hand.idHand]
theorem p2sEllRa_eq (ra : ℝ) : Gen.C16.p2sEllRa ra = ra := by
  try simp only [Gen.C16.p2sEllRa, C16Hand.idHand]
theorem p2sEllDec_eq (dec : ℝ) : Gen.C16.p2sEllDec dec = dec := by
  try simp only [Gen.C16.p2sEllDec, C16Hand.idHand]

/-! ### pixel side: length and angle of the offset `(xo − x, yo − y)` -/

theorem s2pVecLen_eq (x y xo yo : ℝ) :
    Gen.C16.s2pVecLen x y xo yo = Real.sqrt ((xo - x) ^ 2 + (yo - y) ^ 2) := by
  try simp only [Gen.C16.s2pVecLen, C16Hand.s2pVecLen, hypot_sq, R.real_npow, R.real_sqrt]
  try ring_nf

theorem s2pVecAng_eq (x y xo yo : ℝ) :
    Gen.C16.s2pVecAng x y xo yo = Complex.arg ⟨xo - x, yo - y⟩ * (180 / π) := by
  try simp only [Gen.C16.s2pVecAng, C16Hand.s2pVecAng, R.real_degrees, R.real_atan2]
  try ring_nf

theorem s2pEllSx_eq (x y xo yo : ℝ) :
    Gen.C16.s2pEllSx x y xo yo = Real.sqrt ((xo - x) ^ 2 + (yo - y) ^ 2) := by
  try simp only [Gen.C16.s2pEllSx, C16Hand.s2pEllSx, hypot_sq, R.real_npow, R.real_sqrt]
  try ring_nf

theorem s2pEllAng_eq (x y xo yo : ℝ) :
    Gen.C16.s2pEllAng x y xo yo = Complex.arg ⟨xo - x, yo - y⟩ * (180 / π) := by
  try simp only [Gen.C16.s2pEllAng, C16Hand.s2pEllAng, R.real_degrees, R.real_atan2]
  try ring_nf

/-- `sy`: length of the minor pixel offset times `|cos(defect)|`, `defect = θ − (θ₂ − π/2)` -/
theorem s2pEllSy_eq (x y xo yo x2 y2 : ℝ) :
    Gen.C16.s2pEllSy (R.pi : ℝ) x y xo yo x2 y2
      = Real.sqrt ((x2 - x) ^ 2 + (y2 - y) ^ 2)
        * |Real.cos (Complex.arg ⟨xo - x, yo - y⟩ - (Complex.arg ⟨x2 - x, y2 - y⟩ - π / 2))| := by
  try simp only [Gen.C16.s2pEllSy, C16Hand.s2pEllSy, hypot_sq, R.real_npow, R.real_sqrt, R.real_abs, R.real_cos,
    R.real_atan2, R.real_pi, R.real_ofNat, Nat.cast_ofNat]
  try ring_nf

/-! ### sky side: the regenerated gcd / bear applied to the centre and the end point(s) -/

theorem p2sVecLen_eq (ra dec ra2 dec2 : ℝ) :
    Gen.C16.p2sVecLen ra dec ra2 dec2 = Gen.C16.gcdSep ra dec ra2 dec2 := by
  try simp only [Gen.C16.p2sVecLen, C16Hand.p2sVecLen, gcdSep_eq_hand]

theorem p2sVecPa_eq (ra dec ra2 dec2 : ℝ) :
    Gen.C16.p2sVecPa ra dec ra2 dec2 = Gen.C16.bear ra dec ra2 dec2 := by
  try simp only [Gen.C16.p2sVecPa, C16Hand.p2sVecPa, bear_eq_hand]

theorem p2sEllMajor_eq (ra dec ra2 dec2 : ℝ) :
    Gen.C16.p2sEllMajor ra dec ra2 dec2 = Gen.C16.gcdSep ra dec ra2 dec2 := by
  try simp only [Gen.C16.p2sEllMajor, C16Hand.p2sEllMajor, gcdSep_eq_hand]

theorem p2sEllPa_eq (ra dec ra2 dec2 : ℝ) :
    Gen.C16.p2sEllPa ra dec ra2 dec2 = Gen.C16.bear ra dec ra2 dec2 := by
  try simp only [Gen.C16.p2sEllPa, C16Hand.p2sEllPa, bear_eq_hand]

/-- `minor`: great-circle length to the second end point times `|cos(defect°)|`, `defect = pa − (pa₂ − 90)` -/
theorem p2sEllMinor_eq (ra dec ra2 dec2 ra3 dec3 : ℝ) :
    Gen.C16.p2sEllMinor ra dec ra2 dec2 ra3 dec3
      = Gen.C16.gcdSep ra dec ra3 dec3
        * |Real.cos ((Gen.C16.bear ra dec ra2 dec2 - (Gen.C16.bear ra dec ra3 dec3 - 90)) * (π / 180))| := by
  try simp only [Gen.C16.p2sEllMinor, C16Hand.p2sEllMinor, gcdSep_eq_hand, bear_eq_hand, R.real_abs, R.real_cos,
    R.real_radians, R.real_ofNat, Nat.cast_ofNat]
  try ring_nf

/-! ### the plumbing around the WCS calls (deepening round) -/

/-- FITS axis 1 gets the caller's second coordinate `y`, axis 2 the first `x`; origin 1 -/
theorem pix2skyP1_eq (x y : ℝ) : Gen.C16.pix2skyP1 x y = y := by
  try simp only [Gen.C16.pix2skyP1, C16Hand.pix2skyP1]
theorem pix2skyP2_eq (x y : ℝ) : Gen.C16.pix2skyP2 x y = x := by
  try simp only [Gen.C16.pix2skyP2, C16Hand.pix2skyP2]
theorem pix2skyOrigin_eq : (Gen.C16.pix2skyOrigin : ℝ) = 1 := by
  try simp only [Gen.C16.pix2skyOrigin, C16Hand.pix2skyOrigin, R.real_ofNat, Nat.cast_one]
theorem sky2pixX_eq (w0 w1 : ℝ) : Gen.C16.sky2pixX w0 w1 = w1 := by
  try simp only [Gen.C16.sky2pixX, C16Hand.sky2pixX]
theorem sky2pixY_eq (w0 w1 : ℝ) : Gen.C16.sky2pixY w0 w1 = w0 := by
  try simp only [Gen.C16.sky2pixY, C16Hand.sky2pixY]
theorem sky2pixOrigin_eq : (Gen.C16.sky2pixOrigin : ℝ) = 1 := by
  try simp only [Gen.C16.sky2pixOrigin, C16Hand.sky2pixOrigin, R.real_ofNat, Nat.cast_one]

/-- `pix2sky` and `sky2pix` reach the WCS only through astropy's `all_pix2world` / `all_world2pix`, i.e. the header's FULL
    world coordinate system (core projection + SIP polynomial + look-up-table distortions), in every branch: the abstract
    `Wcs` of the model is that full WCS in both directions.  (A `wcs_*` call anywhere in the method makes this 0.) -/
theorem pix2skyEntryAll_eq : (Gen.C16.pix2skyEntryAll : ℝ) = 1 := by
  try simp only [Gen.C16.pix2skyEntryAll, C16Hand.pix2skyEntryAll, R.real_ofNat, Nat.cast_one]
theorem sky2pixEntryAll_eq : (Gen.C16.sky2pixEntryAll : ℝ) = 1 := by
  try simp only [Gen.C16.sky2pixEntryAll, C16Hand.sky2pixEntryAll, R.real_ofNat, Nat.cast_one]

/-- the offset points are `(x + r cos θ°, y + r sin θ°)`, and for the minor axis the same at `θ − 90°` with `sy` -/
theorem p2sVecOffX_eq (x y r theta : ℝ) : Gen.C16.p2sVecOffX x y r theta = C16Hand.offX x r theta := by
  try simp only [Gen.C16.p2sVecOffX, C16Hand.p2sVecOffX, C16Hand.offX, R.real_cos, R.real_radians]
  try ring_nf
theorem p2sVecOffY_eq (x y r theta : ℝ) : Gen.C16.p2sVecOffY x y r theta = C16Hand.offY y r theta := by
  try simp only [Gen.C16.p2sVecOffY, C16Hand.p2sVecOffY, C16Hand.offY, R.real_sin, R.real_radians]
  try ring_nf
theorem p2sEllOff1X_eq (x y sx sy theta : ℝ) : Gen.C16.p2sEllOff1X x y sx sy theta = C16Hand.offX x sx theta := by
  try simp only [Gen.C16.p2sEllOff1X, C16Hand.p2sEllOff1X, C16Hand.offX, R.real_cos, R.real_radians]
  try ring_nf
theorem p2sEllOff1Y_eq (x y sx sy theta : ℝ) : Gen.C16.p2sEllOff1Y x y sx sy theta = C16Hand.offY y sx theta := by
  try simp only [Gen.C16.p2sEllOff1Y, C16Hand.p2sEllOff1Y, C16Hand.offY, R.real_sin, R.real_radians]
  try ring_nf
theorem p2sEllOff2X_eq (x y sx sy theta : ℝ) :
    Gen.C16.p2sEllOff2X x y sx sy theta = C16Hand.offX x sy (theta - R.ofNat 90) := by
  try simp only [Gen.C16.p2sEllOff2X, C16Hand.p2sEllOff2X, C16Hand.offX, R.real_cos, R.real_radians, R.real_ofNat,
    Nat.cast_ofNat]
  try ring_nf
theorem p2sEllOff2Y_eq (x y sx sy theta : ℝ) :
    Gen.C16.p2sEllOff2Y x y sx sy theta = C16Hand.offY y sy (theta - R.ofNat 90) := by
  try simp only [Gen.C16.p2sEllOff2Y, C16Hand.p2sEllOff2Y, C16Hand.offY, R.real_sin, R.real_radians, R.real_ofNat,
    Nat.cast_ofNat]
  try ring_nf

end Aegean.C16
