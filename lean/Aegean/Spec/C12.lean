/-
  C12 — Spec: how a reader of a MOC file decodes a NUNIQ number (IVOA MOC 1.x):
  order = ⌊log2(u/4)⌋ / 2, ipix = u − 4·4^order.  Executable.
-/
namespace Aegean.Spec.C12

/-- order of a NUNIQ number: ⌊log2(u/4)⌋ / 2 -/
def orderOf (u : Nat) : Nat := Nat.log2 (u / 4) / 2

/-- decode a NUNIQ number into (order, pixel index) -/
def decode (u : Nat) : Nat × Nat := (orderOf u, u - 4 * 4 ^ orderOf u)

/-- the deepest-level (depth `m`) pixels a decoded MOC cell stands for -/
def cellCovers (m : Nat) (u q : Nat) : Prop :=
  1 ≤ (decode u).1 ∧ (decode u).1 ≤ m ∧ q / 4 ^ (m - (decode u).1) = (decode u).2

end Aegean.Spec.C12
