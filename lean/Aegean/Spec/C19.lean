/-
  C19 — Spec: "linked by a chain", in its own terms.  Mathlib-free.

  `Chain r a b` : there are `a = x₀, x₁, …, x_k = b` with `r x_i x_{i+1}` for every step.
  The catalogue-level link relation `SrcLink link cat` holds between two *members of the catalogue*
  whose separation does not exceed the linking length (`link`, in either argument order).
  A group structure "is the eps-connected partition" when two members carry the same group label
  exactly when a chain joins them (`IsComponents`).
-/
namespace Aegean.Spec.C19

inductive Chain {ι : Type} (r : ι → ι → Prop) : ι → ι → Prop
  | refl (a : ι) : Chain r a a
  | step {a b c : ι} : r a b → Chain r b c → Chain r a c

/-- links between rows `< n` given by an adjacency test (used in either direction) -/
def RowLink (n : Nat) (adj : Nat → Nat → Bool) (a b : Nat) : Prop :=
  a < n ∧ b < n ∧ (adj a b = true ∨ adj b a = true)

/-- links between members of a catalogue -/
def SrcLink {σ : Type} (link : σ → σ → Bool) (cat : List σ) (a b : σ) : Prop :=
  a ∈ cat ∧ b ∈ cat ∧ (link a b = true ∨ link b a = true)

/-- `lab` labels the members of `cat` by connected component of the link graph, with labels
    `0 … K-1`, every one of them used.  This is the contract of `DBSCAN(min_samples = 1)`:
    every point is a core point, so clusters are the connected components of the `≤ eps` graph. -/
structure IsComponents {σ : Type} (link : σ → σ → Bool) (cat : List σ) (lab : σ → Nat) (K : Nat) : Prop where
  comp : ∀ a b, a ∈ cat → b ∈ cat → (lab a = lab b ↔ Chain (SrcLink link cat) a b)
  lt : ∀ a, a ∈ cat → lab a < K
  used : ∀ k, k < K → ∃ a, a ∈ cat ∧ lab a = k

/-- the grouping as a set of sets of sources (a predicate on predicates): the classes of
    "same label" among the members of the catalogue -/
def groupSets {σ : Type} (cat : List σ) (lab : σ → Nat) (g : σ → Prop) : Prop :=
  ∃ a, a ∈ cat ∧ ∀ b, g b ↔ (b ∈ cat ∧ lab b = lab a)

end Aegean.Spec.C19
