/-
  C10 — Spec: what "masking keeps or removes exactly the pixels / rows whose position is in the
  region" demands, in its own terms.  Stated with the standard FITS convention: the pixel stored at
  0-based array index (row `i`, column `j`) has FITS pixel coordinate `(x, y) = (j+1, i+1)`, and `sky`
  maps FITS pixel coordinates to sky positions.

  `checkFile` / `checkTable` are decidable and are evaluated by the driver on what the
  *implementation* returned; `Properties.C10.model_meets_spec_*` prove them of the model.
-/
namespace Aegean.Spec.C10

/-- FITS pixel coordinate of the centre of array element (row `i`, column `j`) -/
def fitsCoord (i j : Nat) : Int × Int := (((j : Nat) : Int) + 1, ((i : Nat) : Int) + 1)

/-- pixel (i, j) has to be blanked: its own centre is outside the region (inside, with `negate`) -/
def mustBlank {S : Type} (sky : Int × Int → S) (inside : S → Bool) (negate : Bool) (i j : Nat) : Bool :=
  inside (sky (fitsCoord i j)) == negate

/-- what element (i, j) of a masked plane has to be -/
def expected {α S : Type} (nan : α) (sky : Int × Int → S) (inside : S → Bool) (negate : Bool)
    (i j : Nat) (before : α) : α :=
  if mustBlank sky inside negate i j then nan else before

/-- the masked array, pixel by pixel, for `P` planes of `H × W`: plane `p`, row `i`, column `j` lives
    at flat position `p·(H·W) + i·W + j` -/
def FileOK {α S : Type} (nan : α) (sky : Int × Int → S) (inside : S → Bool) (negate : Bool)
    (P H W : Nat) (before after : List α) : Prop :=
  after.length = before.length ∧
  ∀ p i j, p < P → i < H → j < W →
    after[p * (H * W) + (i * W + j)]? =
      (before[p * (H * W) + (i * W + j)]?).map (expected nan sky inside negate i j)

/-- decidable form: walk the flat arrays; `none` = fine, `some (p, i, j)` = first offending pixel -/
def checkFile {α S : Type} [DecidableEq α] (nan : α) (sky : Int × Int → S) (inside : S → Bool)
    (negate : Bool) (P H W : Nat) (before after : List α) : Option (Nat × Nat × Nat) :=
  if after.length ≠ before.length ∨ before.length ≠ P * (H * W) then some (P, H, W) else
  ((List.range (P * (H * W))).find? (fun k =>
      let i := (k % (H * W)) / W
      let j := (k % (H * W)) % W
      after[k]? != (before[k]?).map (expected nan sky inside negate i j))).map
    (fun k => (k / (H * W), (k % (H * W)) / W, (k % (H * W)) % W))

/-- a row is kept: not inside (inside, with `negate`) -/
def keepRow {Row C : Type} (inside : C → Bool) (coord : Row → C) (negate : Bool) (r : Row) : Bool :=
  inside (coord r) == negate

/-- the masked table is the input with exactly the not-kept rows deleted: same rows (all columns),
    same order, same multiplicity -/
def TableOK {Row C : Type} (inside : C → Bool) (coord : Row → C) (negate : Bool)
    (before after : List Row) : Prop :=
  after = before.filter (keepRow inside coord negate)

def checkTable {Row C : Type} [DecidableEq Row] (inside : C → Bool) (coord : Row → C) (negate : Bool)
    (before after : List Row) : Bool :=
  after == before.filter (keepRow inside coord negate)

end Aegean.Spec.C10
