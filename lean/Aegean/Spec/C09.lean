/-
  C09 — the property in its own terms, as decidable predicates on measured quantities (Float).
  `dist` is the great-circle separation between the query position and the circle's centre
  (or the centre of the polygon's circumscribed circle), `pix` one pixel size at the region's
  resolution (`healpy.nside2resol(2^depth)` = √(4π/(12·4^depth))), all in radians.
-/
namespace Aegean.Spec.C09

/-- circle: within the radius ⇒ inside; farther than radius + 3 pixel sizes ⇒ outside -/
def circleOK (r pix dist : Float) (inside : Bool) : Bool :=
  (if dist ≤ r then inside else true) && (if dist > r + 3 * pix then !inside else true)

/-- circle: region area between the caps of radius r and r + 3 pixel sizes (steradians) -/
def areaOK (capLo area capHi : Float) : Bool := capLo ≤ area && area ≤ capHi

/-- polygon: interior ⇒ inside; farther than 3 pixel sizes outside the circumscribed circle
    (centre distance `dist`, radius `rc`) ⇒ outside -/
def polyOK (interior : Bool) (rc pix dist : Float) (inside : Bool) : Bool :=
  (if interior then inside else true) && (if dist > rc + 3 * pix then !inside else true)

end Aegean.Spec.C09
