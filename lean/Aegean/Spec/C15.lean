/-
  C15 — Spec: what "compress then expand restores shape and grid-node values, stays within the
  range of the compressed samples, and is exact on complete cells of images that are linear between
  nodes" means, in terms of the original image `im`, the factor `f` and the expanded image `out`
  only (no reference to how either function works).

  The `Prop`s are what `Properties/C15.lean` proves of the model; `judge` is the same clauses as an
  executable test, run by the driver on what the *implementation* returned (integer-valued
  images, so every comparison is exact).
-/
import Aegean.Num

namespace Aegean.Spec.C15

/-- the rows (columns) of an axis of length `n` that survive compression by `f`:
    the decimation nodes `0, f, 2f, … < n` and the last one, `n − 1` -/
def Sampled (n f k : Nat) : Prop := (k < n ∧ k % f = 0) ∨ k + 1 = n

instance (n f k : Nat) : Decidable (Sampled n f k) := by unfold Sampled; exact inferInstance

section props
variable {α : Type}

/-- dimensions are those of the original -/
def ShapeRestored (rows cols orows ocols : Nat) : Prop := orows = rows ∧ ocols = cols

/-- every decimation node `(i·f, j·f)` inside the image has its original value -/
def NodeExact (f rows cols : Nat) (im out : Nat → Nat → α) : Prop :=
  ∀ i j, i * f < rows → j * f < cols → out (i * f) (j * f) = im (i * f) (j * f)

/-- any interval that contains all compressed samples contains every expanded value -/
def WithinRange [LE α] (f rows cols : Nat) (im out : Nat → Nat → α) : Prop :=
  ∀ lo hi : α, (∀ r c, r < rows → c < cols → Sampled rows f r → Sampled cols f c → lo ≤ im r c ∧ im r c ≤ hi) →
    ∀ r c, r < rows → c < cols → lo ≤ out r c ∧ out r c ≤ hi

/-- cell `(I, J)` is complete: its four corners are decimation nodes inside the image -/
def CompleteCell (f rows cols I J : Nat) : Prop := (I + 1) * f < rows ∧ (J + 1) * f < cols

/-- pixel `(r, c)` lies in the closed cell `(I, J)` -/
def InCell (f I J r c : Nat) : Prop := I * f ≤ r ∧ r ≤ (I + 1) * f ∧ J * f ≤ c ∧ c ≤ (J + 1) * f

/-- the image is linear between nodes on cell `(I, J)`: `a + b·r + g·c + d·r·c` there (affine when `d = 0`;
    this is exactly the class of images BANE's own interpolation produces) -/
def LinearOnCell [R α] (f I J : Nat) (im : Nat → Nat → α) : Prop :=
  ∃ a b g d : α, ∀ r c, InCell f I J r c →
    im r c = a + b * R.ofNat r + g * R.ofNat c + d * (R.ofNat r * R.ofNat c)

/-- on every complete cell on which the image is linear between nodes, the round trip is the identity -/
def LinearExact [R α] (f rows cols : Nat) (im out : Nat → Nat → α) : Prop :=
  ∀ I J, CompleteCell f rows cols I J → LinearOnCell f I J im →
    ∀ r c, InCell f I J r c → out r c = im r c

end props

/-! ### the executable test (integer-valued original, `Float` result) -/

def fi (z : Int) : Float := Float.ofInt z

/-- first `(r, c)` with `r < rows`, `c < cols` at which `bad r c` holds -/
def firstBad (rows cols : Nat) (bad : Nat → Nat → Bool) : Option (Nat × Nat) :=
  (List.range rows).findSome? (fun r => (List.range cols).findSome? (fun c => if bad r c then some (r, c) else none))

/-- integer test that the image on cell `(I, J)` is the bilinear interpolant of its corner values
    (equivalent to `LinearOnCell` for a cell whose corners are in the image) -/
def cellIsLinear (f I J : Nat) (im : Nat → Nat → Int) : Bool :=
  let v00 := im (I * f) (J * f)
  let v01 := im (I * f) ((J + 1) * f)
  let v10 := im ((I + 1) * f) (J * f)
  let v11 := im ((I + 1) * f) ((J + 1) * f)
  (List.range (f + 1)).all (fun dy => (List.range (f + 1)).all (fun dx =>
    let y : Int := dy
    let x : Int := dx
    let F : Int := f
    F * F * im (I * f + dy) (J * f + dx)
      == (F - y) * (F - x) * v00 + (F - y) * x * v01 + y * (F - x) * v10 + y * x * v11))

def judge (f rows cols orows ocols : Nat) (imF out : Nat → Nat → Float) : String :=
  let im : Nat → Nat → Int := fun r c => (imF r c).toInt64.toInt
  if f = 0 then "bad-op" else
  if !(orows == rows && ocols == cols) then "violated shape 0 0" else
  match firstBad rows cols (fun r c => r % f == 0 && c % f == 0 && !(out r c == fi (im r c))) with
  | some (r, c) => s!"violated node {r} {c}"
  | none =>
    let samples := (List.range rows).flatMap (fun r => (List.range cols).filterMap (fun c =>
      if decide (Sampled rows f r) && decide (Sampled cols f c) then some (fi (im r c)) else none))
    let lo := samples.foldl (fun a b => if b < a then b else a) (fi (im 0 0))
    let hi := samples.foldl (fun a b => if b > a then b else a) (fi (im 0 0))
    match firstBad rows cols (fun r c => !(lo ≤ out r c && out r c ≤ hi)) with
    | some (r, c) => s!"violated range {r} {c}"
    | none =>
      let cells := (List.range ((rows - 1) / f)).flatMap (fun I => (List.range ((cols - 1) / f)).filterMap (fun J =>
        if cellIsLinear f I J im then some (I, J) else none))
      -- IEEE double + float32 storage: a value reached by cancellation (an exact 0, say) comes back with an
      -- absolute error of a few ulp of the largest corner value
      let big := (List.range rows).foldl (fun a r => (List.range cols).foldl (fun a c =>
        if (fi (im r c)).abs > a then (fi (im r c)).abs else a) a) 1.0
      let tol := 1e-10 * big
      match cells.findSome? (fun (I, J) =>
          (List.range (f + 1)).findSome? (fun dy => (List.range (f + 1)).findSome? (fun dx =>
            if (out (I * f + dy) (J * f + dx) - fi (im (I * f + dy) (J * f + dx))).abs ≤ tol then none
            else some (I * f + dy, J * f + dx)))) with
      | some (r, c) => s!"violated linear {r} {c}"
      | none => s!"ok {cells.length}"

end Aegean.Spec.C15
