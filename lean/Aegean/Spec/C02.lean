/-
  C02 — Spec: what "islands are the seeded, flood-thresholded 8-connected groups" means, in its
  own terms.  Mathlib-free (`Conn` is the reflexive-transitive closure written as an inductive;
  `Proofs.C02.conn_iff_reflTransGen` identifies it with Mathlib's `Relation.ReflTransGen`).
-/
import Aegean.Model.C02

namespace Aegean.Spec.C02
open Aegean.Model.C02

/-- 8-adjacency of pixels (rows and columns differ by at most one; equality allowed) -/
def adj8 (p q : Px) : Prop :=
  p.1 ≤ q.1 + 1 ∧ q.1 ≤ p.1 + 1 ∧ p.2 ≤ q.2 + 1 ∧ q.2 ≤ p.2 + 1

/-- `Conn g p q`: `p` and `q` are joined by an 8-connected path of in-image pixels that are all
    above the flood threshold (reflexive-transitive closure of `adj8` restricted to the mask) -/
inductive Conn (g : Grid) : Px → Px → Prop
  | refl (p : Px) : g.inA p = true → Conn g p p
  | step {p q r : Px} : Conn g p q → adj8 q r → g.inA r = true → Conn g p r

/-- what `scipy.ndimage.label(a, structure=ones((3,3)))` is assumed to return (and what
    `checkLabelling` certifies per case): label 0 exactly off the mask, labels in `1..n`, and two
    mask pixels carry the same label iff they are 8-path-connected inside the mask -/
structure IsLabelling (g : Grid) (lab : Px → Nat) (n : Nat) : Prop where
  zero_iff : ∀ p, g.inGrid p = true → (lab p = 0 ↔ g.A p = false)
  le_n : ∀ p, g.inA p = true → lab p ≤ n
  eq_iff : ∀ p q, g.inA p = true → g.inA q = true → (lab p = lab q ↔ Conn g p q)

/-- a pixel set `S` is an island: it is the connectivity class of a flood pixel and contains one
    of its *own* pixels above the seed threshold -/
def IsIsland (g : Grid) (S : Px → Prop) : Prop :=
  ∃ p0, g.inA p0 = true ∧ (∀ q, S q ↔ Conn g p0 q) ∧ ∃ q, S q ∧ g.Sd q = true

/-- `b` is the tight box around the pixels `l`: it contains them all and each of its four sides
    touches one of them -/
def Tight (b : Box) (l : List Px) : Prop :=
  (∀ p ∈ l, b.rlo ≤ p.1 ∧ p.1 < b.rhi ∧ b.clo ≤ p.2 ∧ p.2 < b.chi) ∧
  (∃ p ∈ l, p.1 = b.rlo) ∧ (∃ p ∈ l, p.1 + 1 = b.rhi) ∧
  (∃ p ∈ l, p.2 = b.clo) ∧ (∃ p ∈ l, p.2 + 1 = b.chi)

end Aegean.Spec.C02
