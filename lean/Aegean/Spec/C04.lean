/-
  C04 — Spec-side glue (Mathlib-free).

  * `genDerivs`: the model of `Aegean/Model/C04.lean` instantiated with the definitions that the
    translator regenerates from `fitting.py` (`Gen.C04.*`).  Used by the driver (at `Float`) and
    by the property theorems (at `ℝ`), so both talk about the same instantiation.
  * `ownDiagonal`: the property's demand on the stderr assignment, as a decidable check on an
    *observed* assignment (used by the failing-input search on what the implementation did):
    every free parameter carries the `onesigma` entry whose index is the number of free
    parameters before it over all components; non-free parameters carry none.
-/
import Aegean.Generated.C04
import Aegean.Model.C04

namespace Aegean.Spec.C04
open Aegean.Model.C04

def genDerivs {α : Type} [R α] : Derivs α where
  gauss := Gen.C04.gauss
  dmds := Gen.C04.dmds
  dmdxo := Gen.C04.dmdxo
  dmdyo := Gen.C04.dmdyo
  dmdsx := Gen.C04.dmdsx
  dmdsy := Gen.C04.dmdsy
  dmdtheta := Gen.C04.dmdtheta

/-- `lmfit_jacobian` as the driver executes it: the regenerated pipeline run by the fixed glue -/
def lmfitJacGen {α : Type} [R α] (rows : List (List α)) (npix : Nat) (errs : Option (List α))
    (B : Option (List (List α))) : List (List α) :=
  runOps Gen.C04.lmjOp (Gen.C04.lmjLen 0) rows npix errs B

/-- all `(i, p)` keys of an `n`-component model, component-major -/
def keys (n : Nat) : List (Nat × Par) := (List.range n).flatMap (fun i => Par.all.map (fun p => (i, p)))

/-- what the property demands of an observed assignment `obs` (key ↦ index of the `onesigma`
    entry found in `stderr`, `none` = no entry): the own diagonal entry for free parameters,
    nothing for the others -/
def ownDiagonal (vs : List Vary) (obs : Nat × Par → Option Nat) : Bool :=
  (keys vs.length).all (fun k =>
    match vs[k.1]? with
    | some v => if v k.2 then obs k == some (rank vs k.1 k.2) else obs k == none
    | none => true)

end Aegean.Spec.C04
