/-
  C20 — Spec: what "bands tile the image" means, as a decidable predicate on the observed
  row ranges.  Evaluated by the driver on what the *implementation* returned (search), and
  proved of the model (`Properties.C20.model_meets_spec`).
-/
namespace Aegean.Spec.C20

/-- walk the bands in order: each must start where the previous one ended and not be reversed -/
def chain (cur : Nat) : List (Nat × Nat) → Option Nat
  | [] => some cur
  | (lo, hi) :: rest => if lo = cur ∧ lo ≤ hi then chain hi rest else none

/-- consecutive, non-overlapping ranges that start at row 0 and end at row `rows` -/
def isTiling (rows : Nat) (bands : List (Nat × Nat)) : Bool :=
  !bands.isEmpty && chain 0 bands == some rows

end Aegean.Spec.C20
