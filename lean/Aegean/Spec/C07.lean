import Aegean.Model.C07
/-
  C07 — Spec: what the property demands of one observed BANE call, as decidable predicates.
  Evaluated by the driver on what the *implementation* did; proved of the model in Properties.C07.
-/
namespace Aegean.Spec.C07
open Aegean.Model.C07

/-- walk the stripes in order: each starts where the previous one ended and is not empty -/
def chain (cur : Nat) : List (Nat × Nat) → Option Nat
  | [] => some cur
  | (lo, hi) :: rest => if lo = cur ∧ lo < hi then chain hi rest else none

/-- the stripes handed to the workers are consecutive non-empty row ranges from 0 to `rows`,
    and there are as many lower as upper edges (so `zip` drops nothing) -/
def isTiling (rows : Nat) (ymins ymaxs : List Nat) : Bool :=
  ymins.length == ymaxs.length && !ymins.isEmpty && chain 0 (ymins.zip ymaxs) == some rows

inductive Outcome | done | exception | hang
  deriving DecidableEq, Repr

/-- the call returns iff no worker failed; it raises iff one did; it never hangs -/
def outcomeOK (faultInjected : Bool) : Outcome → Bool
  | .done => !faultInjected
  | .exception => faultInjected
  | .hang => false


/-- does `b` occur after the first `a` (vacuously true when `a` does not occur) -/
def afterIdx (t : List Ev) (a b : Ev) : Bool :=
  match t.idxOf? a with
  | none => true
  | some i => (t.drop (i + 1)).contains b

/-- what the property demands of ANY exit path of `filter_mc_sharemem`, as a predicate on the sequence of
    completed actions (not on one particular path, so extra idempotent clean-up such as a second
    `pool.terminate()` is allowed): a segment that was created is closed and unlinked afterwards, and
    from the first unlink on nothing happens that still needs the segments (pool set-up, waiting for the
    stripes, copying the maps) -/
def releasedOK (t : List Ev) : Bool :=
  afterIdx t .createBkg .closeBkg && afterIdx t .createBkg .unlinkBkg &&
  afterIdx t .createRms .closeRms && afterIdx t .createRms .unlinkRms &&
  !((t.dropWhile (fun e => e != .unlinkBkg && e != .unlinkRms)).any
      (fun e => e == .setup || e == .mapGet || e == .collect))

end Aegean.Spec.C07
