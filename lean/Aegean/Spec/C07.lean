/-
  C07 — Spec: what the property demands of one observed BANE call, as decidable predicates.
  Evaluated by the driver on what the *implementation* did; proved of the model in Properties.C07.
-/
namespace Aegean.Spec.C07

/-- walk the stripes in order: each starts where the previous one ended and is not empty -/
def chain (cur : Nat) : List (Nat × Nat) → Option Nat
  | [] => some cur
  | (lo, hi) :: rest => if lo = cur ∧ lo < hi then chain hi rest else none

/-- the stripes handed to the workers are consecutive non-empty row ranges from 0 to `rows`,
    and there are as many lower as upper edges (so `zip` drops nothing) -/
def isTiling (rows : Nat) (ymins ymaxs : List Nat) : Bool :=
  ymins.length == ymaxs.length && !ymins.isEmpty && chain 0 (ymins.zip ymaxs) == some rows

inductive Outcome | done | exception | hang
  deriving DecidableEq, Repr

/-- the call returns iff no worker failed; it raises iff one did; it never hangs -/
def outcomeOK (faultInjected : Bool) : Outcome → Bool
  | .done => !faultInjected
  | .exception => faultInjected
  | .hang => false

end Aegean.Spec.C07
