/-
  C08 — Spec: a region *is* a set of deepest-level HEALPix pixel ids, and every operation is
  the corresponding set operation.  The set is a `List Nat` read up to membership (order and
  repetition carry no meaning); observations are defined through membership only.
  Executable (the driver evaluates it on every history of the correspondence run).
-/
namespace Aegean.Spec.C08

/-- the `4^k` pixels `k` levels below pixel `p`:  `{q | q / 4^k = p}` -/
def below (k p : Nat) : List Nat := (List.range (4 ^ k)).map (fun i => p * 4 ^ k + i)

def dedup : List Nat → List Nat
  | [] => []
  | a :: l => if a ∈ l then dedup l else a :: dedup l

structure S where
  /-- depth of the deepest level: ids are `< 12 · 4^m` -/
  m : Nat
  pix : List Nat

inductive Err | assertion | badDepth
  deriving DecidableEq, Repr

inductive Op
  /-- add the sky covered by pixels `ps` of level `d` -/
  | add (ps : List Nat) (d : Nat)
  /-- an operation with no effect on the sky set (normalisation, save/load) -/
  | skip
  | union (o : S)
  | without (o : S)
  | intersect (o : S)
  | symdiff (o : S)
  | getDemoted
  | area
  | within (q : Nat)

inductive Obs
  | none
  /-- a set of pixels (read up to membership) -/
  | pixels (l : List Nat)
  | area (n : Nat)
  | answer (b : Bool)

/-- the operand's sky, expressed in pixels of depth `m`: a coarser (or equal) operand is refined
    exactly; a finer operand is degraded to every depth-`m` pixel it touches -/
def regrid (m : Nat) (o : S) : List Nat :=
  if o.m ≤ m then o.pix.flatMap (below (m - o.m)) else o.pix.map (· / 4 ^ (o.m - m))

def step (s : S) : Op → Except Err (S × Obs)
  | .add ps d =>
    if 1 ≤ d ∧ d ≤ s.m then .ok ({ s with pix := s.pix ++ ps.flatMap (below (s.m - d)) }, .none)
    else .error .badDepth
  | .skip => .ok (s, .none)
  | .union o => .ok ({ s with pix := s.pix ++ regrid s.m o }, .none)
  | .without o =>
    if s.m ≠ o.m then .error .assertion
    else .ok ({ s with pix := s.pix.filter (fun q => !o.pix.contains q) }, .none)
  | .intersect o =>
    if s.m ≠ o.m then .error .assertion
    else .ok ({ s with pix := s.pix.filter (fun q => o.pix.contains q) }, .none)
  | .symdiff o =>
    if s.m ≠ o.m then .error .assertion
    else .ok ({ s with pix := s.pix.filter (fun q => !o.pix.contains q) ++
                                o.pix.filter (fun q => !s.pix.contains q) }, .none)
  | .getDemoted => .ok (s, .pixels s.pix)
  | .area => .ok (s, .area (dedup s.pix).length)
  | .within q => .ok (s, .answer (s.pix.contains q))

def run (s : S) : List Op → S × List (Except Err Obs)
  | [] => (s, [])
  | op :: ops =>
    match step s op with
    | .ok (s', o) => let (sf, os) := run s' ops; (sf, .ok o :: os)
    | .error e => let (sf, os) := run s ops; (sf, .error e :: os)

/-! ### sessions: files hold sky sets; `load` gives back the set that was saved -/

structure Sess where
  cur : S
  files : Nat → Option S

inductive SessErr | op (e : Err) | noFile
  deriving DecidableEq, Repr

inductive SessOp
  | op (o : Op)
  | save (f : Nat)
  | load (f : Nat)
  | unionFile (f : Nat)
  | withoutFile (f : Nat)
  | intersectFile (f : Nat)
  | symdiffFile (f : Nat)

def onCur (s : Sess) (o : Op) : Except SessErr (Sess × Obs) :=
  match step s.cur o with
  | .ok (r, ob) => .ok ({ s with cur := r }, ob)
  | .error e => .error (.op e)

def withFile (s : Sess) (f : Nat) (mk : S → Op) : Except SessErr (Sess × Obs) :=
  match s.files f with
  | some o => onCur s (mk o)
  | none => .error .noFile

def sessStep (s : Sess) : SessOp → Except SessErr (Sess × Obs)
  | .op o => onCur s o
  | .save f => .ok ({ s with files := fun g => if g = f then some s.cur else s.files g }, .none)
  | .load f =>
    match s.files f with
    | some r => .ok ({ s with cur := r }, .none)
    | none => .error .noFile
  | .unionFile f => withFile s f .union
  | .withoutFile f => withFile s f .without
  | .intersectFile f => withFile s f .intersect
  | .symdiffFile f => withFile s f .symdiff

def sessRun (s : Sess) : List SessOp → Sess × List (Except SessErr Obs)
  | [] => (s, [])
  | op :: ops =>
    match sessStep s op with
    | .ok (s', o) => let (sf, os) := sessRun s' ops; (sf, .ok o :: os)
    | .error e => let (sf, os) := sessRun s ops; (sf, .error e :: os)

end Aegean.Spec.C08
