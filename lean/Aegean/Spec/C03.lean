/-
  C03 — Spec: what "an internally consistent catalogue" demands, clause by clause, as decidable
  predicates.  Evaluated by the driver (at `Float`) on every row the *implementation* writes, and
  proved of the model's outputs (at `ℝ` / `Nat`) where the model covers the clause
  (`Properties/C03.lean`: `*_meets_spec`).  Mathlib-free.
-/
import Aegean.Num

namespace Aegean.Spec.C03

/-! ### catalogue-level clauses -/

/-- no two rows with the same (island, source) -/
def noDup : List (Nat × Nat) → Bool
  | [] => true
  | x :: xs => !xs.contains x && noDup xs

/-- the components of an island are numbered 0 … n−1: together with `noDup`, "every source number
    s > 0 has its predecessor s − 1 in the same island" says exactly that -/
def numbered (rows : List (Nat × Nat)) : Bool :=
  rows.all (fun r => r.2 = 0 || rows.contains (r.1, r.2 - 1))

def idsOK (rows : List (Nat × Nat)) : Bool := noDup rows && numbered rows

/-- uuids pairwise distinct -/
def uuidsOK : List String → Bool
  | [] => true
  | x :: xs => !xs.contains x && uuidsOK xs

/-- flags use only the seven documented bits -/
def flagsOK (f : Nat) : Bool := f < 128

/-! ### row-level numeric clauses, generic in the number type -/

section numeric
variable {α : Type} [R α] [LT α] [LE α] [DecidableLT α] [DecidableLE α]

/-- finite: `x − x = 0` (false for ±inf and NaN at `Float`, always true at `ℝ`) -/
def fin (x : α) : Bool := decide (R.ofNat 0 ≤ x - x) && decide (x - x ≤ R.ofNat 0)

def eqv (x y : α) : Bool := decide (x ≤ y) && decide (y ≤ x)

/-- a ≥ b > 0, −90 < pa ≤ 90, 0 ≤ ra < 360, |dec| ≤ 90 -/
def shapeOK (a b : α) : Bool := decide (b ≤ a) && decide (R.ofNat 0 < b) && fin a
def paOK (pa : α) : Bool := decide (-(R.ofNat 90) < pa) && decide (pa ≤ R.ofNat 90)
def raOK (ra : α) : Bool := decide (R.ofNat 0 ≤ ra) && decide (ra < R.ofNat 360)
def decOK (dec : α) : Bool := decide (-(R.ofNat 90) ≤ dec) && decide (dec ≤ R.ofNat 90)

/-- an uncertainty is positive and finite, or exactly −1 -/
def errOK (e : α) : Bool := (decide (R.ofNat 0 < e) && fin e) || eqv e (-(R.ofNat 1))

/-- `int_flux = peak_flux·a·b/(psf_a·psf_b)` to within 1 % -/
def intFluxOK (intFlux peak a b psfA psfB : α) : Bool :=
  let want := peak * a * b / (psfA * psfB)
  decide (R.abs (intFlux - want) ≤ R.ofSci 1 true 2 * R.abs want)

end numeric

/-! ### sexagesimal strings -/

/-- `[+-]DD:MM:SS.SS` / `HH:MM:SS.SS` → (negative?, d, m, hundredths of a second); `none` if malformed -/
def parseSexa (s : String) : Option (Bool × Nat × Nat × Nat) :=
  let (neg, body) :=
    if s.startsWith "-" then (true, (s.drop 1).toString)
    else if s.startsWith "+" then (false, (s.drop 1).toString) else (false, s)
  match body.splitOn ":" with
  | [d, m, sec] =>
    match sec.splitOn "." with
    | [si, sf] =>
      if sf.length = 2 ∧ si.length = 2 ∧ m.length = 2 ∧ d.length ≥ 2 then
        match d.toNat?, m.toNat?, si.toNat?, sf.toNat? with
        | some d, some m, some si, some sf => some (neg, d, m, si * 100 + sf)
        | _, _, _, _ => none
      else none
    | _ => none
  | _ => none

inductive StrVerdict | ok | carry60 | malformed | disagree
  deriving DecidableEq, Repr

/-- the string, read back, is the decimal value (in units: degrees for dec, hours·15 for RA) to
    within half a unit of the last printed digit (+ a float slack), with minutes < 60 and
    seconds < 60.00.  The form with a seconds (or minutes) field of exactly 60 that still denotes
    the right angle is reported separately (`carry60`: C17's ledger item 15).  `slack` widens the
    tolerance for decimals that were stored in single precision (FITS tables). -/
def strOK (s : String) (value : Float) (scale : Float) (slack : Float := 0.0) : StrVerdict :=
  match parseSexa s with
  | none => .malformed
  | some (neg, d, m, cs) =>
    let mag := (Float.ofNat d + Float.ofNat m / 60.0 + Float.ofNat cs / 360000.0) * scale
    let v := if neg then -mag else mag
    let tol := 0.0051 / 3600.0 * scale + 1e-9 + slack
    if Float.abs (v - value) ≤ tol ∧ (neg → value ≤ 0.0) then
      (if m < 60 ∧ cs < 6000 then .ok else if m ≤ 60 ∧ cs ≤ 6000 then .carry60 else .malformed)
    else .disagree

end Aegean.Spec.C03
