import Aegean.Driver.Common
import Aegean.Generated.C09
import Aegean.Model.C09
import Aegean.Spec.C09

namespace Drv.C09
open Drv Aegean.Model.C09

def isNegF (x : Float) : Bool := x < 0
def finiteF (x : Float) : Bool := x.isFinite

def showVec (v : Vec3 Float) : String := s!"{showFloat v.x} {showFloat v.y} {showFloat v.z}"
def showB (b : Bool) : String := if b then "1" else "0"

def parseDepth? (s : String) : Option (Option Nat) :=
  if s = "none" then some none else s.toNat?.map some

def parseBool? (s : String) : Option Bool :=
  if s = "1" then some true else if s = "0" then some false else none

def pairsF : List Float → List (Float × Float)
  | a :: b :: r => (a, b) :: pairsF r
  | _ => []

def verdict (b : Bool) : String := if b then "ok" else "violated"

/-- the regenerated `sky2ang` (both columns) -/
def sky2angGen (ra dec : Float) : Float × Float := (Gen.C09.sky2angCol0 ra dec, Gen.C09.sky2angCol1 ra dec)

def handle (ws : List String) : String :=
  match ws with
  | ["s2v", ra, dec] =>
    match parseFloat? ra, parseFloat? dec with
    | some ra, some dec => showVec (sky2vec Gen.C09.sky2angTheta ra dec)
    | _, _ => "bad-op"
  | ["s2a", ra, dec] =>
    match parseFloat? ra, parseFloat? dec with
    | some ra, some dec => let tp := sky2angGen ra dec; s!"{showFloat tp.1} {showFloat tp.2}"
    | _, _ => "bad-op"
  | ["v2s", deg, x, y, z] =>
    match parseBool? deg, parseFloat? x, parseFloat? y, parseFloat? z with
    | some deg, some x, some y, some z =>
      let r := vec2sky Gen.C09.vec2skyRa Gen.C09.vec2skyDec isNegF deg ⟨x, y, z⟩
      s!"{showFloat r.1} {showFloat r.2}"
    | _, _, _, _ => "bad-op"
  | ["circ", m, depth, ra, dec, r] =>
    match m.toNat?, parseDepth? depth, parseFloat? ra, parseFloat? dec, parseFloat? r with
    | some m, some depth, some ra, some dec, some r =>
      let c := addCircleCallOf sky2angGen Gen.C09.discFact Gen.C09.discNside Gen.C09.discInsertDepth
        Gen.C09.discInclusive Gen.C09.discNest m depth ra dec r
      s!"{c.depth} {c.nside} {showVec c.vec} {showFloat c.radius} {showB c.inclusive} {showB c.nest} {c.fact}"
    | _, _, _, _, _ => "bad-op"
  | "poly" :: m :: depth :: rest =>
    match m.toNat?, parseDepth? depth, rest.mapM parseFloat? with
    | some m, some depth, some l =>
      if l.length % 2 ≠ 0 then "bad-op" else
      match addPolyCallOf sky2angGen Gen.C09.polyFact Gen.C09.polyNside Gen.C09.polyInsertDepth
          Gen.C09.polyInclusive Gen.C09.polyNest m depth (pairsF l) with
      | none => "err assertion"
      | some c => s!"{c.depth} {c.nside} {showB c.inclusive} {showB c.nest} {c.fact} " ++ " ".intercalate (c.verts.map showVec)
    | _, _, _ => "bad-op"
  | ["within", m, degin, ra, dec] =>
    match m.toNat?, parseBool? degin, parseFloat? ra, parseFloat? dec with
    | some m, some degin, some ra, some dec =>
      match skyWithinCallOf Gen.C09.skyWithinScale sky2angGen finiteF Gen.C09.withinNside Gen.C09.withinNest m degin ra dec with
      | none => "masked"
      | some c => s!"{c.nside} {showFloat c.theta} {showFloat c.phi} {showB c.nest}"
    | _, _, _, _ => "bad-op"
  | ["facts"] => s!"{Gen.C09.discFact} {Gen.C09.polyFact}"
  | ["sep", a, b, c, d] =>
    match parseFloat? a, parseFloat? b, parseFloat? c, parseFloat? d with
    | some a, some b, some c, some d => showFloat (sepHav a b c d)
    | _, _, _, _ => "bad-op"
  | ["pix", d] =>
    match d.toNat? with
    | some d => s!"{showFloat (pixSize d : Float)} {showFloat (pixArea d : Float)}"
    | none => "bad-op"
  | ["cap", r] =>
    match parseFloat? r with
    | some r => showFloat (capArea r)
    | none => "bad-op"
  | ["cspec", r, pix, dist, inside] =>
    match parseFloat? r, parseFloat? pix, parseFloat? dist, parseBool? inside with
    | some r, some pix, some dist, some inside => verdict (Aegean.Spec.C09.circleOK r pix dist inside)
    | _, _, _, _ => "bad-op"
  | ["aspec", r, d, area] =>
    match parseFloat? r, d.toNat?, parseFloat? area with
    | some r, some d, some area =>
      verdict (Aegean.Spec.C09.areaOK (capArea r) area (capArea (r + 3 * pixSize d)))
    | _, _, _ => "bad-op"
  | ["pspec", interior, rc, pix, dist, inside] =>
    match parseBool? interior, parseFloat? rc, parseFloat? pix, parseFloat? dist, parseBool? inside with
    | some i, some rc, some pix, some dist, some inside => verdict (Aegean.Spec.C09.polyOK i rc pix dist inside)
    | _, _, _, _, _ => "bad-op"
  | _ => "bad-op"

end Drv.C09
