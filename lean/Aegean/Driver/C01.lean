import Aegean.Driver.Common
import Aegean.Generated.C01
import Aegean.Model.C01

/-!
  C01 driver (Float instance of `R`).  Ops, one per line; floats as `x%016x` bit patterns:

    leaf x y amp xo yo sx sy theta          -> Gen.C01.gauss, gaussHand
    consts ln2                              -> cc2fwhm fwhm2cc fwhm2ccRes   (regenerated, at Float)
    resid rows cols n (amp xo yo sx sy theta)*n  pix*(rows*cols)  B
          pix ::= n | x….   B ::= bnone | bmat k v*(npix*k)  (row-major npix x k; npix = number of finite pixels)
                                            -> k' then k' floats: the vector handed to lmfit, and last its sum of squares
    tocomp fuel cc area xmin ymin  amp xo yo sx sy theta  era edec ea eb epa
                                            -> the five arguments handed to pix2sky_ellipse (regenerated leaves),
                                               then ra dec a b pa peak intFlux  (toComponent with the oracle's answer e)
    inject f2c ra dec a b pa peak  px py psx psy ptheta
                                            -> the five arguments handed to sky2pix_ellipse, then amp xo yo sx sy theta
                                               (the arguments of elliptical_gaussian in AeRes.make_model, given the oracle's answer p)
    render f2c peak xo yo sx sy theta x y   -> Gen.C01.renderVal
    palimit fuel pa                         -> paLimit
    bounds ln2 f2c amp0 rms ic oc A B xs ys -> sampling amp_min amp_max xo_lim sx sy sx_min sx_max sy_min sy_max
                                               (regenerated; the amplitude branch is chosen by the sign of amp0 as in the code)
-/
namespace Drv.C01
open Drv Aegean.Model.C01

def takeFloats (k : Nat) (ws : List String) : Option (List Float × List String) :=
  if ws.length < k then none else
    match (ws.take k).mapM parseFloat? with
    | some fs => some (fs, ws.drop k)
    | none => none

def showFloats (l : List Float) : String := " ".intercalate (l.map showFloat)

def parseComps : Nat → List String → Option (List (Comp Float) × List String)
  | 0, ws => some ([], ws)
  | n + 1, ws =>
    match takeFloats 6 ws with
    | some ([a, xo, yo, sx, sy, th], rest) =>
      match parseComps n rest with
      | some (cs, rest') => some ({ amp := a, xo := xo, yo := yo, sx := sx, sy := sy, theta := th } :: cs, rest')
      | none => none
    | _ => none

def parsePix? (s : String) : Option (Option Float) :=
  if s = "n" then some none else (parseFloat? s).map some

def chunks {β : Type} (k : Nat) : Nat → List β → List (List β)
  | 0, _ => []
  | n + 1, l => l.take k :: chunks k n (l.drop k)

/-- columns of a row-major `npix x k` matrix -/
def columns (npix k : Nat) (vals : List Float) : List (List Float) :=
  let rows := chunks k npix vals
  (List.range k).map (fun j => rows.map (fun r => r.getD j 0.0))

def handle (ws : List String) : String :=
  match ws with
  | "leaf" :: rest =>
    match takeFloats 8 rest with
    | some ([x, y, amp, xo, yo, sx, sy, th], []) =>
      showFloats [Gen.C01.gauss x y amp xo yo sx sy th, gaussHand x y amp xo yo sx sy th]
    | _ => "bad-op"
  | ["consts", l] =>
    match parseFloat? l with
    | some ln2 => showFloats [Gen.C01.cc2fwhm ln2, Gen.C01.fwhm2cc ln2, Gen.C01.fwhm2ccRes ln2]
    | none => "bad-op"
  | "resid" :: rows :: cols :: n :: rest =>
    match rows.toNat?, cols.toNat?, n.toNat? with
    | some rows, some cols, some n =>
      if n = 0 then "err no-components" else
      match parseComps n rest with
      | some (comps, rest) =>
        if rest.length < rows * cols + 1 then "bad-op" else
        match (rest.take (rows * cols)).mapM parsePix? with
        | some pix =>
          let img := chunks cols rows pix
          let npix := (maskIdx img).length
          match rest.drop (rows * cols) with
          | ["bnone"] =>
            let r := residual Gen.C01.gauss comps img none
            s!"{r.length} {showFloats r} {showFloat (sumSq r)}"
          | "bmat" :: k :: vals =>
            match k.toNat?, vals.mapM parseFloat? with
            | some k, some vals =>
              if vals.length ≠ npix * k then "err bad-B-shape" else
              let r := residual Gen.C01.gauss comps img (some (columns npix k vals))
              s!"{r.length} {showFloats r} {showFloat (sumSq r)}"
            | _, _ => "bad-op"
          | _ => "bad-op"
        | none => "bad-op"
      | none => "bad-op"
    | _, _, _ => "bad-op"
  | "tocomp" :: fuel :: rest =>
    match fuel.toNat?, takeFloats 15 rest with
    | some fuel, some ([cc, area, xmin, ymin, amp, xo, yo, sx, sy, th, era, edec, ea, eb, epa], []) =>
      let fit : Comp Float := { amp := amp, xo := xo, yo := yo, sx := sx, sy := sy, theta := th }
      let O : EllOracle Float := { p2s := fun _ => ⟨era, edec, ea, eb, epa⟩, s2p := fun e => ⟨e.ra, e.dec, e.a, e.b, e.pa⟩ }
      let r := toComponent O fuel cc (fun _ _ => area) xmin ymin fit
      let args := [Gen.C01.p2sArgX xo yo xmin ymin, Gen.C01.p2sArgY xo yo xmin ymin, Gen.C01.p2sArgSx sx sy cc,
                   Gen.C01.p2sArgSy sx sy cc, Gen.C01.p2sArgTheta th]
      -- the regenerated leaves, composed exactly as `toComponent` composes their canonical forms
      let gi := Gen.C01.intFlux amp sx sy cc area
      showFloats (args ++ [r.ra, r.dec, r.a, r.b, r.pa, r.peak, r.intFlux, gi, Gen.C01.aArcsec ea, Gen.C01.bArcsec eb])
    | _, _ => "bad-op"
  | "inject" :: rest =>
    match takeFloats 12 rest with
    | some ([f2c, ra, dec, a, b, pa, peak, px, py, psx, psy, pth], []) =>
      let O : EllOracle Float := { p2s := fun p => ⟨p.x, p.y, p.sx, p.sy, p.theta⟩, s2p := fun _ => ⟨px, py, psx, psy, pth⟩ }
      let c := inject O f2c { ra := ra, dec := dec, a := a, b := b, pa := pa, peak := peak }
      let args := [Gen.C01.s2pArgRa ra dec a b pa, Gen.C01.s2pArgDec ra dec a b pa, Gen.C01.s2pArgA ra dec a b pa,
                   Gen.C01.s2pArgB ra dec a b pa, Gen.C01.s2pArgPa ra dec a b pa]
      showFloats (args ++ [c.amp, c.xo, c.yo, c.sx, c.sy, c.theta])
    | _ => "bad-op"
  | "render" :: rest =>
    match takeFloats 9 rest with
    | some ([f2c, peak, xo, yo, sx, sy, th, x, y], []) =>
      showFloats [Gen.C01.renderVal f2c peak xo yo sx sy th x y, renderValHand f2c peak xo yo sx sy th x y]
    | _ => "bad-op"
  | "bounds" :: rest =>
    match takeFloats 10 rest with
    | some ([ln2, f2c, amp0, rms, ic, oc, a, b, xs, ys], []) =>
      let lo := if amp0 > 0 then Gen.C01.ampMinPos ln2 f2c amp0 rms ic oc a b xs ys else Gen.C01.ampMinNeg ln2 f2c amp0 rms ic oc a b xs ys
      let hi := if amp0 > 0 then Gen.C01.ampMaxPos ln2 f2c amp0 rms ic oc a b xs ys else Gen.C01.ampMaxNeg ln2 f2c amp0 rms ic oc a b xs ys
      showFloats [Gen.C01.sampling ln2 f2c amp0 rms ic oc a b xs ys, lo, hi, Gen.C01.xoLim ln2 f2c amp0 rms ic oc a b xs ys,
                  Gen.C01.sxInit ln2 f2c amp0 rms ic oc a b xs ys, Gen.C01.syInit ln2 f2c amp0 rms ic oc a b xs ys,
                  Gen.C01.sxMin ln2 f2c amp0 rms ic oc a b xs ys, Gen.C01.sxMax ln2 f2c amp0 rms ic oc a b xs ys,
                  Gen.C01.syMin ln2 f2c amp0 rms ic oc a b xs ys, Gen.C01.syMax ln2 f2c amp0 rms ic oc a b xs ys]
    | _ => "bad-op"
  | ["palimit", fuel, pa] =>
    match fuel.toNat?, parseFloat? pa with
    | some fuel, some pa => showFloat (paLimit fuel pa)
    | _, _ => "bad-op"
  | _ => "bad-op"

end Drv.C01
