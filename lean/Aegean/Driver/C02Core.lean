/-
  C02 / C11 driver core (no generated definitions: they are passed in by Driver/C02.lean and Driver/C11.lean).  One request per line:

    find H W <flood> <seed> <H*W im> <H*W bkg> <H*W rms> <nlab> <H*W labels> <inside>

  floats as `x%016x`; `<nlab> <labels>` is the label array exported by the harness
  (`scipy.ndimage.label(a, ones((3,3)))`), or `0` followed by H*W zeros when not supplied;
  `<inside>` is `-` (no region) or a string of H*W characters `0`/`1` (row-major).

  Answer:  ok own=<0|1> sci=<0|1> same=<0|1> gen=<0|1> n=<labels> | <island> | <island> …
  island = `rlo rhi clo chi  frlo frhi fclo fchi  k  r c r c …`
  * own  : the verified checker accepted the driver's own labelling + BFS forest
  * sci  : the verified checker accepted the harness-supplied label array with the same forest
  * same : `findIslands` on the supplied labelling returns the same list up to order
  * gen  : the glue over the regenerated pieces (`findIslandsGen`, and for C11 `findRestrictedSky`) returns the same list
  The labeller below is NOT verified; its output is validated by `checkLabelling` on every case.
-/
import Aegean.Driver.Common
import Aegean.Model.C02
import Aegean.Model.C11

namespace Drv.C02
open Drv Aegean.Model.C02

structure Labels where
  lab : Array Nat
  parent : Array Nat
  depth : Array Nat
  roots : Array Nat
  n : Nat

/-- BFS labelling in row-major scan order (the order scipy uses) -/
def label (H W : Nat) (A : Array Bool) : Labels := Id.run do
  let N := H * W
  let mut lab : Array Nat := Array.replicate N 0
  let mut par : Array Nat := Array.replicate N 0
  let mut dep : Array Nat := Array.replicate N 0
  let mut roots : Array Nat := #[]
  let mut n := 0
  for s in [0:N] do
    if A[s]! && lab[s]! == 0 then
      n := n + 1
      roots := roots.push s
      lab := lab.set! s n
      par := par.set! s s
      let mut queue : Array Nat := #[s]
      let mut head := 0
      -- every pixel enters the queue at most once, so N rounds suffice
      for _ in [0:N] do
        if head < queue.size then
          let p := queue[head]!
          head := head + 1
          let r := p / W
          let c := p % W
          for dr in [0:3] do
            for dc in [0:3] do
              if r + dr ≥ 1 && c + dc ≥ 1 && r + dr - 1 < H && c + dc - 1 < W then
                let q := (r + dr - 1) * W + (c + dc - 1)
                if A[q]! && lab[q]! == 0 then
                  lab := lab.set! q n
                  par := par.set! q p
                  dep := dep.set! q (dep[p]! + 1)
                  queue := queue.push q
  return { lab := lab, parent := par, depth := dep, roots := roots, n := n }

def idx (W : Nat) (p : Px) : Nat := p.1 * W + p.2
def unidx (W : Nat) (k : Nat) : Px := (k / W, k % W)

def showBox (b : Box) : String := s!"{b.rlo} {b.rhi} {b.clo} {b.chi}"
def showIsland (I : Island) : String :=
  s!"{showBox I.box} {showBox I.frame} {I.pixels.length} " ++
    " ".intercalate (I.pixels.map (fun p => s!"{p.1} {p.2}"))

def toOpt (x : Float) : Option Float := if x.isFinite then some x else none

def permEq (a b : List Island) : Bool :=
  a.length == b.length && a.all (fun x => b.contains x) && b.all (fun x => a.contains x)

/-- `skyGlue` (C11 only): `find_islands(region=…)` assembled from the regenerated probe, given the region as a
    predicate on 0-based FITS positions -/
def handleCore (genCheck : Grid → (Px → Nat) → Nat → Option (Px → Bool) → List Island → Bool)
    (skyGlue : Option ((Int × Int → Bool) → Grid → (Px → Nat) → Nat → List Island))
    (ws : List String) : String :=
  match ws with
  | "find" :: h :: w :: fl :: sd :: rest =>
    match h.toNat?, w.toNat?, parseFloat? fl, parseFloat? sd with
    | some H, some W, some flood, some seed =>
      let N := H * W
      if rest.length != 4 * N + 2 then "bad-op length" else
      let arr := rest.toArray
      let fl? := (arr.extract 0 (3 * N)).mapM parseFloat?
      let nlab? := arr[3 * N]!.toNat?
      let labs? := (arr.extract (3 * N + 1) (4 * N + 1)).mapM String.toNat?
      let ins := arr[4 * N + 1]!
      match fl?, nlab?, labs? with
      | some fs, some nlab, some labs =>
        if ins != "-" && ins.length != N then "bad-op inside" else
        let insBits : Array Bool := (ins.toList.map (· == '1')).toArray
        let im : Px → Option Float := fun p => if p.2 < W then toOpt fs[idx W p]! else none
        let bkg : Px → Option Float := fun p => if p.2 < W then toOpt fs[N + idx W p]! else none
        let rms : Px → Option Float := fun p => if p.2 < W then toOpt fs[2 * N + idx W p]! else none
        let g0 := Grid.ofImages H W im bkg rms flood seed
        -- tabulate the masks once
        let Abits : Array Bool := (Array.range N).map (fun k => g0.A (unidx W k))
        let Sbits : Array Bool := (Array.range N).map (fun k => g0.Sd (unidx W k))
        let g : Grid := { H := H, W := W,
                          A := fun p => p.2 < W && Abits[idx W p]!,
                          Sd := fun p => p.2 < W && Sbits[idx W p]! }
        let L := label H W Abits
        let lab : Px → Nat := fun p => if p.2 < W then L.lab[idx W p]! else 0
        let cert : Cert := { parent := fun p => unidx W (L.parent[idx W p]!),
                             depth := fun p => L.depth[idx W p]!,
                             root := fun i => unidx W (L.roots.getD (i - 1) 0) }
        let own := checkLabelling g lab L.n cert
        -- the supplied label array, with the same forest; the root of supplied label i is the
        -- BFS root of the component that carries it
        let slab : Px → Nat := fun p => if p.2 < W then labs[idx W p]! else 0
        let sroots : Array Nat := L.roots.foldl (fun acc r =>
            let i := labs[r]!
            if 1 ≤ i && i ≤ nlab then acc.set! (i - 1) r else acc) (Array.replicate nlab 0)
        let scert : Cert := { cert with root := fun i => unidx W (sroots.getD (i - 1) 0) }
        let sci := checkLabelling g slab nlab scert
        let inside : Option (Px → Bool) :=
          if ins == "-" then none else some (fun p => p.2 < W && insBits[idx W p]!)
        let isl := findIslands g lab L.n inside
        let same := sci && permEq isl (findIslands g slab nlab inside)
        -- the glue over the pieces regenerated from the source must give the same list (Properties: regenerated_eq_model,
        -- regenerated_region_eq); evaluated here so that the translator and the glue are also tied numerically
        let gen := genCheck g lab L.n inside isl &&
          (match skyGlue, inside with
           | some f, some _ =>
             isl == f (fun q => decide (0 ≤ q.1) && decide (0 ≤ q.2) && decide (q.1 < (W : Int)) &&
                                 insBits.getD (q.2.toNat * W + q.1.toNat) false) g lab L.n
           | _, _ => true)
        let b := fun (x : Bool) => if x then "1" else "0"
        s!"ok own={b own} sci={b sci} same={b same} gen={b gen} n={L.n}" ++
          String.join (isl.map (fun I => " | " ++ showIsland I))
      | _, _, _ => "bad-op parse"
    | _, _, _, _ => "bad-op header"
  | _ => "bad-op"


end Drv.C02
