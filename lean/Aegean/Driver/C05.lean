import Aegean.Driver.Common
import Aegean.Generated.C05
import Aegean.Model.C05

/-!
  Line protocol for C05 (floats as `x%016x`):

  gauss <x> <y> <amp> <xo> <yo> <sx> <sy> <theta>     the regenerated `elliptical_gaussian`
  pos <xo> <yo> <xmin> <ymin>                         xoLocal yoLocal, then xPix yPix of those (round trip)
  accept <x> <y> <n0> <n1> <dataFinite 0/1> <rmsFinite 0/1> <beamNone 0/1>     the regenerated acceptance decision
  vary <stage>                                        amp xo yo sx sy theta flags copyPosErr copyShapeErr (0/1)
  island <stage> <n0> <n1> (<uuid> <flags> <x> <y> <xwidth> <ywidth> <finite 0/1>)*
        the whole island logic with the optimiser replaced by the identity (on a noise-free model image
        the truth is the minimiser): answer
        `empty`  or  `box <xmin> <xmax> <ymin> <ymax> off <sliceX0> <sliceY0> <subX> <subY> <addX> <addY> | <uuid> <flags> <posErrCopied> <shapeErrCopied> | …`
-/

namespace Drv.C05
open Drv Aegean.Model.C05

def b2s (b : Bool) : String := if b then "1" else "0"

/-- the model's environment: every leaf is the regenerated definition -/
def env : Env Float :=
  { xminStep := Gen.C05.xminStep, xmaxStep := Gen.C05.xmaxStep
    yminStep := Gen.C05.yminStep, ymaxStep := Gen.C05.ymaxStep
    subX := Gen.C05.subXoVal, subY := Gen.C05.subYoVal
    sliceX0 := Gen.C05.sliceX0, sliceY0 := Gen.C05.sliceY0
    addX := Gen.C05.boxX0, addY := Gen.C05.boxY0
    varyAmp := Gen.C05.varyAmp, varyXo := Gen.C05.varyXo, varyYo := Gen.C05.varyYo
    varySx := Gen.C05.varySx, varySy := Gen.C05.varySy, varyTheta := Gen.C05.varyTheta
    copyPosErr := Gen.C05.copyPosErr, copyShapeErr := Gen.C05.copyShapeErr
    xoLocal := Gen.C05.xoLocal, yoLocal := Gen.C05.yoLocal
    xPix := Gen.C05.xPix, yPix := Gen.C05.yPix
    ofInt := Float.ofInt, nan := 0.0 / 0.0
    hasData := fun _ _ => true
    nPix := fun _ _ => 1000000000
    opt := fun _ cs => cs.map (·.p)
    fitErr := fun _ _ _ => ⟨2.0, 2.0, 2.0, 2.0, 2.0⟩ }

def zeroPar : Par Float := ⟨0.0, 0.0, 0.0, 1.0, 1.0, 0.0⟩
def inErr : Errs Float := ⟨1.0, 1.0, 1.0, 1.0, 1.0⟩

/-- rows, and the set of non-finite pixels they declare -/
def parseRows : List String → Option (List (Src Float × Bool))
  | [] => some []
  | u :: f :: x :: y :: xw :: yw :: fin :: rest =>
    match u.toNat?, f.toNat?, x.toInt?, y.toInt?, xw.toNat?, yw.toNat?, fin.toNat?, parseRows rest with
    | some u, some f, some x, some y, some xw, some yw, some fin, some rs =>
      some (({ uuid := u, flags := f, x := x, y := y, xw := xw, yw := yw, p := zeroPar, e := inErr }, fin != 0) :: rs)
    | _, _, _, _, _, _, _, _ => none
  | _ => none

def showOut (o : Out Float) : String :=
  s!"{o.uuid} {o.flags} {b2s (o.e.ra == 1.0 && o.e.dec == 1.0)} {b2s (o.e.a == 1.0 && o.e.b == 1.0 && o.e.pa == 1.0)}"

def handle (ws : List String) : String :=
  match ws with
  | ["gauss", x, y, amp, xo, yo, sx, sy, th] =>
    match [x, y, amp, xo, yo, sx, sy, th].mapM parseFloat? with
    | some [x, y, amp, xo, yo, sx, sy, th] => showFloat (Gen.C05.gauss x y amp xo yo sx sy th)
    | _ => "bad-op"
  | ["pos", xo, yo, xmin, ymin] =>
    match [xo, yo, xmin, ymin].mapM parseFloat? with
    | some [xo, yo, xmin, ymin] =>
      let xl := Gen.C05.xoLocal xo yo xmin ymin
      let yl := Gen.C05.yoLocal xo yo xmin ymin
      s!"{showFloat xl} {showFloat yl} {showFloat (Gen.C05.xPix xl yl xmin ymin)} {showFloat (Gen.C05.yPix xl yl xmin ymin)}"
    | _ => "bad-op"
  | ["accept", x, y, n0, n1, d, r, b] =>
    match x.toInt?, y.toInt?, [n0, n1, d, r, b].mapM String.toNat? with
    | some x, some y, some [n0, n1, d, r, b] => if Gen.C05.rejectSrc x y n0 n1 d r b then "reject" else "accept"
    | _, _, _ => "bad-op"
  | ["vary", stage] =>
    match stage.toNat? with
    | some s =>
      " ".intercalate ([Gen.C05.varyAmp s, Gen.C05.varyXo s, Gen.C05.varyYo s, Gen.C05.varySx s, Gen.C05.varySy s,
        Gen.C05.varyTheta s, Gen.C05.varyFlags s, Gen.C05.copyPosErr s, Gen.C05.copyShapeErr s].map b2s)
    | none => "bad-op"
  | "island" :: stage :: n0 :: n1 :: rest =>
    match stage.toNat?, n0.toNat?, n1.toNat?, parseRows rest with
    | some stage, some n0, some n1, some rows =>
      let bad := (rows.filter (fun r => !r.2)).map (fun r => (r.1.x, r.1.y))
      let im : Img := { n0 := n0, n1 := n1, finite := fun x y => !(bad.contains (x, y)) }
      let isle := rows.map (·.1)
      let acc := Aegean.Model.C05.loop env im stage isle
      if acc.inc.isEmpty then "empty" else
      let b := acc.box
      let f (g : BoxFn) : String := toString (g b.xmin b.xmax b.ymin b.ymax)
      let outs := refitIsland env im stage isle
      s!"box {b.xmin} {b.xmax} {b.ymin} {b.ymax} off {f env.sliceX0} {f env.sliceY0} {f env.subX} {f env.subY} {f env.addX} {f env.addY}"
        ++ String.join (outs.map (fun o => " | " ++ showOut o))
    | _, _, _, _ => "bad-op"
  | _ => "bad-op"

end Drv.C05
