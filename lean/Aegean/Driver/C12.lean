/-
  C12 driver.
    uniq <region>      the NPIX column `_uniq()` would write, from the *regenerated* encoder and loop
                       range, followed by `;` MOCORDER `;` the decoded (order,pixel) pairs `;` polygon count
    enc d x            Gen.C12.encode d x
    levels m           Gen.C12.levels m
    decode u1 u2 …     Spec decoder: `d:p` per number
-/
import Aegean.Driver.Common
import Aegean.Driver.C08
import Aegean.Generated.C12
import Aegean.Model.C12
import Aegean.Spec.C12

namespace Drv.C12
open Drv Aegean.Model.C08 Aegean.Model.C12

def showPairs (l : List (Nat × Nat)) : String := " ".intercalate (l.map (fun x => s!"{x.1}:{x.2}"))

def handle (ws : List String) : String :=
  match ws with
  | "uniq" :: rest =>
    match Drv.C08.parseRegion rest with
    | some (r, []) =>
      let u := uniq r
      s!"{showNats u};{mocOrder r};{showPairs (u.map Aegean.Spec.C12.decode)};{(regPolys r).length}"
    | _ => "bad-op"
  | ["enc", d, x] =>
    match d.toNat?, x.toNat? with
    | some d, some x => toString (Gen.C12.encode d x)
    | _, _ => "bad-op"
  | ["levels", m] =>
    match m.toNat? with
    | some m => showNats (Gen.C12.levels m)
    | none => "bad-op"
  | "decode" :: us =>
    match us.mapM String.toNat? with
    | some us => showPairs (us.map Aegean.Spec.C12.decode)
    | none => "bad-op"
  | _ => "bad-op"

end Drv.C12
