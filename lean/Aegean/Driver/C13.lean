import Aegean.Driver.Common
import Aegean.Generated.C13
import Aegean.Model.C13
import Aegean.Model.C13Glue

/-
  C13 driver ops (all floats as `x%016x` bit patterns; NaN = blank / masked):

  gauss x y amp xo yo sx sy theta                      -> Gen.C13.gauss at Float
  leaf <name> <4 or 5 floats>                          -> the regenerated leaf (amp r innerclip outerclip sampling | data rmsimg innerclip outerclip)
  islands H W seed flood <H*W im> <H*W bkg> <H*W rms>  -> components of the flood mask:  "own box i j k ...|..."
                                                          (own = owns a seed pixel, box = a seed pixel in its bounding box)
  curve imgH imgW xmin xmax ymin ymax r0 c0 sh sw <sh*sw img>
                                                       -> islandCurve over the island box, row-major ints
                                                          (img given on the sub-rectangle [r0,r0+sh) × [c0,c0+sw))
  est h w inner outer maxS <h*w data> <h*w rms> <h*w sampling> <h*w curve ints>
                                                       -> "neg=<0|1> none"  or  "neg=<0|1> amp min max xo yo flags vary psfvary;..."
                                                          (maxS = -1 for None)
  filter np nn <fluxes>                                -> indices kept by the polarity filter
-/
namespace Drv.C13
open Drv Aegean.Model.C13

def floats? (ws : List String) : Option (Array Float) :=
  (ws.mapM parseFloat?).map List.toArray

def optF (x : Float) : Option Float := if x.isNaN || x.isInf then none else some x

/-- curvature sees the raw pixel: only NaN is blank (±inf compare as IEEE values) -/
def optNaN (x : Float) : Option Float := if x.isNaN then none else some x

def b01 (b : Bool) : String := if b then "1" else "0"

def showComp (c : Comp Float) : String :=
  s!"{showFloat c.amp} {showFloat c.ampMin} {showFloat c.ampMax} {c.xo} {c.yo} {c.flags} {b01 c.vary} {b01 c.psfVary}"

def handle (ws : List String) : String :=
  match ws with
  | ["gauss", x, y, amp, xo, yo, sx, sy, th] =>
    match floats? [x, y, amp, xo, yo, sx, sy, th] with
    | some a => showFloat (Gen.C13.gauss a[0]! a[1]! a[2]! a[3]! a[4]! a[5]! a[6]! a[7]!)
    | none => "bad-op"
  | "leaf" :: name :: rest =>
    match floats? rest with
    | some a =>
      let L : Leaves Float := genLeaves
      match name, a.size with
      | "ampMinPos", 5 => showFloat (L.ampMinPos a[0]! a[1]! a[2]! a[3]! a[4]!)
      | "ampMaxPos", 5 => showFloat (L.ampMaxPos a[0]! a[1]! a[2]! a[3]! a[4]!)
      | "ampMinNeg", 5 => showFloat (L.ampMinNeg a[0]! a[1]! a[2]! a[3]! a[4]!)
      | "ampMaxNeg", 5 => showFloat (L.ampMaxNeg a[0]! a[1]! a[2]! a[3]! a[4]!)
      | "summitArgPos", 4 => showFloat (L.summitArgPos a[0]! a[1]! a[2]! a[3]!)
      | "summitArgNeg", 4 => showFloat (L.summitArgNeg a[0]! a[1]! a[2]! a[3]!)
      | _, _ => "bad-op"
    | none => "bad-op"
  | "islands" :: H :: W :: seed :: flood :: rest =>
    match H.toNat?, W.toNat?, parseFloat? seed, parseFloat? flood, floats? rest with
    | some H, some W, some seed, some flood, some a =>
      if a.size != 3 * H * W then "bad-op" else
      let get (k : Nat) : Px → Option Float := fun p =>
        if inGrid H W p then optF (a.getD (k * H * W + idx W p) (0.0 / 0.0)) else none
      let A := floodMask (get 0) (get 1) (get 2) flood
      let Sd := seedMask (get 0) (get 1) (get 2) seed
      let comps := components true H W A
      let one (c : List Px) : String :=
        let own := c.any Sd
        let b := boxOf c
        let box := (allPx H W).any (fun p => decide (b.xmin ≤ p.1) && decide (p.1 < b.xmax) &&
                                             decide (b.ymin ≤ p.2) && decide (p.2 < b.ymax) && Sd p)
        s!"{b01 own} {b01 box} " ++ showNats (c.map (idx W))
      "|".intercalate (comps.map one)
    | _, _, _, _, _ => "bad-op"
  | "curve" :: imgH :: imgW :: xmin :: xmax :: ymin :: ymax :: r0 :: c0 :: sh :: sw :: rest =>
    match [imgH, imgW, xmin, xmax, ymin, ymax, r0, c0, sh, sw].mapM String.toNat?, floats? rest with
    | some [imgH, imgW, xmin, xmax, ymin, ymax, r0, c0, sh, sw], some a =>
      if a.size != sh * sw then "bad-op" else
      let img : Px → Option Float := fun p =>
        if decide (r0 ≤ p.1) && decide (c0 ≤ p.2) && inGrid sh sw (p.1 - r0, p.2 - c0)
        then optNaN (a.getD (idx sw (p.1 - r0, p.2 - c0)) (0.0 / 0.0)) else none
      showInts (islandCurveList imgH imgW xmin xmax ymin ymax img)
    | _, _ => "bad-op"
  | "est" :: h :: w :: inner :: outer :: maxS :: rest =>
    match h.toNat?, w.toNat?, parseFloat? inner, parseFloat? outer, maxS.toInt? with
    | some h, some w, some inner, some outer, some maxS =>
      let n := h * w
      if rest.length != 4 * n then "bad-op" else
      match floats? (rest.take (3 * n)), (rest.drop (3 * n)).mapM String.toInt? with
      | some a, some cl =>
        let cv := cl.toArray
        let I : Island Float :=
          { h := h, w := w,
            data := fun p => if inGrid h w p then optF (a.getD (idx w p) (0.0 / 0.0)) else none,
            rms := fun p => a.getD (n + idx w p) (0.0 / 0.0),
            curve := fun p => cv.getD (idx w p) 0,
            sampling := fun p => a.getD (2 * n + idx w p) (0.0 / 0.0) }
        let P : Params Float := { inner := inner, outer := outer,
                                  maxSummits := if maxS < 0 then none else some maxS.toNat,
                                  leaves := genLeaves }
        let pre := s!"neg={b01 (isNegative I)} "
        match estimate P I with
        | none => pre ++ "none"
        | some l => pre ++ ";".intercalate (l.map showComp)
      | _, _ => "bad-op"
    | _, _, _, _, _ => "bad-op"
  | "filter" :: np :: nn :: rest =>
    match np.toNat?, nn.toNat?, floats? rest with
    | some np, some nn, some a =>
      let l := (List.range a.size).filter (fun i => keep (np != 0) (nn != 0) (sgnOf (a.getD i 0.0)))
      showNats l
    | _, _, _ => "bad-op"
  | _ => "bad-op"

end Drv.C13
