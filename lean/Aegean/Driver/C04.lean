import Aegean.Driver.Common
import Aegean.Generated.C04
import Aegean.Model.C04
import Aegean.Spec.C04

/-!
  C04 driver (Float instance of `R`).  Ops, one per line; floats as `x%016x` bit patterns:

    leaf x y amp xo yo sx sy theta            -> gauss dmds dmdxo dmdyo dmdsx dmdsy dmdtheta   (regenerated, at Float)
    sum  n  (amp xo yo sx sy theta)*n  x y     -> modelSum
    jac  n npix (amp xo yo sx sy theta mask)*n (x y)*npix
                                               -> nrows then nrows*npix entries, row-major (jacRows)
    lmjac n npix comps… pixels… E B            -> npix then nrows, then npix*nrows entries, row-major (lmfitJacGen:
                                                  the regenerated pipeline of lmfit_jacobian run by Model.runOps)
    ampzero                                    -> 1 if the source special-cases amp == 0 in the amplitude derivative, else 0
    pipeline                                   -> src len op0 op1 … (the regenerated pipeline itself)
    fisherwords                                -> jacC jacB sigma maskCovar maskFit C <word> B <word>  (regenerated Fisher assembly of covar_errors)
          E ::= enone | escalar v | evec v*npix       B ::= bnone | bmat v*(npix*npix)
    assign mask*n                              -> for each component, six entries `idx` or `-` (assignIdx)
    assignpinned mask*n                        -> the same for the pinned loop (j reset per component)
    tleaf / tsum / tjac / tlmjac               -> the same with the hand-written verified formulas (handDerivs)
    spec n mask*n obs*(6n)                     -> ok | violated   (Spec.ownDiagonal on an observed assignment; obs = idx or `-`)
    rank mask*n                                -> rank of every key (free or not), six per component
-/
namespace Drv.C04
open Drv Aegean.Model.C04 Aegean.Spec.C04


def takeFloats (k : Nat) (ws : List String) : Option (List Float × List String) :=
  if ws.length < k then none else
    match (ws.take k).mapM parseFloat? with
    | some fs => some (fs, ws.drop k)
    | none => none

def parseMask? (s : String) : Option Vary :=
  match s.toNat? with
  | some m => if m < 64 then some (Vary.ofMask m) else none
  | none => none

def parseComp (ws : List String) : Option ((Comp Float × Vary) × List String) :=
  match takeFloats 6 ws with
  | some ([a, xo, yo, sx, sy, th], m :: rest) =>
    match parseMask? m with
    | some v => some (({ amp := a, xo := xo, yo := yo, sx := sx, sy := sy, theta := th }, v), rest)
    | none => none
  | _ => none

def parseComps : Nat → List String → Option (List (Comp Float × Vary) × List String)
  | 0, ws => some ([], ws)
  | n + 1, ws =>
    match parseComp ws with
    | some (c, rest) =>
      match parseComps n rest with
      | some (cs, rest') => some (c :: cs, rest')
      | none => none
    | none => none

def parseCompsNoMask : Nat → List String → Option (List (Comp Float) × List String)
  | 0, ws => some ([], ws)
  | n + 1, ws =>
    match takeFloats 6 ws with
    | some ([a, xo, yo, sx, sy, th], rest) =>
      match parseCompsNoMask n rest with
      | some (cs, rest') => some ({ amp := a, xo := xo, yo := yo, sx := sx, sy := sy, theta := th } :: cs, rest')
      | none => none
    | _ => none

def pairUp : List Float → List (Float × Float)
  | a :: b :: r => (a, b) :: pairUp r
  | _ => []

def chunks (k : Nat) : Nat → List Float → List (List Float)
  | 0, _ => []
  | n + 1, l => l.take k :: chunks k n (l.drop k)

def showFloats (l : List Float) : String := " ".intercalate (l.map showFloat)

def parseErrs (npix : Nat) (ws : List String) : Option (Option (List Float) × List String) :=
  match ws with
  | "enone" :: rest => some (none, rest)
  | "escalar" :: v :: rest =>
    match parseFloat? v with
    | some f => some (some (List.replicate npix f), rest)
    | none => none
  | "evec" :: rest =>
    match takeFloats npix rest with
    | some (fs, rest') => some (some fs, rest')
    | none => none
  | _ => none

def parseB (npix : Nat) (ws : List String) : Option (Option (List (List Float)) × List String) :=
  match ws with
  | "bnone" :: rest => some (none, rest)
  | "bmat" :: rest =>
    match takeFloats (npix * npix) rest with
    | some (fs, rest') => some (some (chunks npix npix fs), rest')
    | none => none
  | _ => none

def showIdx : Option Nat → String
  | some j => toString j
  | none => "-"

def parseIdx? (s : String) : Option (Option Nat) :=
  if s = "-" then some none else s.toNat?.map some

def showTable (n : Nat) (t : Table) : String :=
  " ".intercalate ((keys n).map (fun k => showIdx (t k)))

/-- the regenerated leaves as the code evaluates them at Float: the `amp == 0` special case of the amplitude entry
    when the source has one (`Gen.C04.dmdsZero = 1`) -/
def genDerivsF : Derivs Float :=
  { (genDerivs : Derivs Float) with
    dmds := fun x y a xo yo sx sy th =>
      if Gen.C04.dmdsZero x y a xo yo sx sy th == 1 && a == 0 then Gen.C04.dmds0 x y a xo yo sx sy th
      else Gen.C04.dmds x y a xo yo sx sy th }

/-- the proved hand formulas; at `amp = 0` the true derivative is the unit-amplitude Gaussian -/
def handDerivsF : Derivs Float :=
  { (handDerivs : Derivs Float) with
    dmds := fun x y a xo yo sx sy th =>
      if a == 0 then dmds0Hand x y a xo yo sx sy th else dmdsHand x y a xo yo sx sy th }

def handleD (D : Derivs Float) (truth : Bool) (ws : List String) : String :=
  match ws with
  | "leaf" :: rest =>
    match takeFloats 8 rest with
    | some ([x, y, a, xo, yo, sx, sy, th], []) =>
      showFloats [D.gauss x y a xo yo sx sy th, D.dmds x y a xo yo sx sy th,
        D.dmdxo x y a xo yo sx sy th, D.dmdyo x y a xo yo sx sy th,
        D.dmdsx x y a xo yo sx sy th, D.dmdsy x y a xo yo sx sy th,
        D.dmdtheta x y a xo yo sx sy th]
    | _ => "bad-op"
  | "sum" :: n :: rest =>
    match n.toNat? with
    | some n =>
      match parseCompsNoMask n rest with
      | some (cs, rest') =>
        match takeFloats 2 rest' with
        | some ([x, y], []) => showFloat (modelSum D cs x y)
        | _ => "bad-op"
      | none => "bad-op"
    | none => "bad-op"
  | "jac" :: n :: npix :: rest =>
    match n.toNat?, npix.toNat? with
    | some n, some npix =>
      match parseComps n rest with
      | some (cs, rest') =>
        match takeFloats (2 * npix) rest' with
        | some (ps, []) =>
          let rows := jacRows D (pairUp ps) cs
          s!"{rows.length} {showFloats rows.flatten}"
        | _ => "bad-op"
      | none => "bad-op"
    | _, _ => "bad-op"
  | "lmjac" :: n :: npix :: rest =>
    match n.toNat?, npix.toNat? with
    | some n, some npix =>
      match parseComps n rest with
      | some (cs, rest') =>
        match takeFloats (2 * npix) rest' with
        | some (ps, rest'') =>
          match parseErrs npix rest'' with
          | some (errs, rest3) =>
            match parseB npix rest3 with
            | some (b, []) =>
              let rows := jacRows D (pairUp ps) cs
              -- `t` ops: the proved hand model; otherwise the regenerated pipeline run by the glue
              let out := if truth then lmfitJac rows npix errs b else lmfitJacGen rows npix errs b
              s!"{npix} {rows.length} {showFloats out.flatten}"
            | _ => "bad-op"
          | none => "bad-op"
        | none => "bad-op"
      | none => "bad-op"
    | _, _ => "bad-op"
  | _ => "bad-op"

def handle (ws : List String) : String :=
  match ws with
  | "tleaf" :: rest => handleD handDerivsF true ("leaf" :: rest)
  | "tsum" :: rest => handleD handDerivsF true ("sum" :: rest)
  | "tjac" :: rest => handleD handDerivsF true ("jac" :: rest)
  | "tlmjac" :: rest => handleD handDerivsF true ("lmjac" :: rest)
  | "leaf" :: _ | "sum" :: _ | "jac" :: _ | "lmjac" :: _ => handleD genDerivsF false ws
  | ["fisherwords"] =>
    s!"{Gen.C04.fisJacC 0} {Gen.C04.fisJacB 0} {Gen.C04.fisSigma 0} {Gen.C04.fisMask 0} {Gen.C04.fitMask 0} C " ++
      showNats ((List.range (Gen.C04.fisLenC 0)).map Gen.C04.fisWordC) ++ " B " ++
      showNats ((List.range (Gen.C04.fisLenB 0)).map Gen.C04.fisWordB)
  | ["ampzero"] => if Gen.C04.dmdsZero (0 : Float) 0 0 0 0 1 1 0 == 1 then "1" else "0"
  | ["pipeline"] =>
    s!"{Gen.C04.lmjSrc 0} {Gen.C04.lmjLen 0} " ++ showNats ((List.range (Gen.C04.lmjLen 0)).map Gen.C04.lmjOp)
  | "assign" :: masks =>
    match masks.mapM parseMask? with
    | some vs => showTable vs.length (assignIdx vs)
    | none => "bad-op"
  | "assignpinned" :: masks =>
    match masks.mapM parseMask? with
    | some vs => showTable vs.length (assignIdxPinned vs)
    | none => "bad-op"
  | "rank" :: masks =>
    match masks.mapM parseMask? with
    | some vs => " ".intercalate ((keys vs.length).map (fun k => toString (rank vs k.1 k.2)))
    | none => "bad-op"
  | "spec" :: n :: rest =>
    match n.toNat? with
    | some n =>
      match (rest.take n).mapM parseMask?, (rest.drop n).mapM parseIdx? with
      | some vs, some obs =>
        if vs.length = n ∧ obs.length = 6 * n then
          let t : Table := fun k => (obs.getD (6 * k.1 + k.2.idx) none)
          if ownDiagonal vs t then "ok" else "violated"
        else "bad-op"
      | _, _ => "bad-op"
    | none => "bad-op"
  | _ => "bad-op"

end Drv.C04
