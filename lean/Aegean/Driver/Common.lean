/-
  Line-protocol plumbing shared by all per-property drivers.  Mathlib-free.
  Floats cross the pipe as 16-hex-digit IEEE-754 bit patterns so that both sides see
  exactly the same double.
-/

namespace Drv

def hexDigit? (c : Char) : Option Nat :=
  if '0' ≤ c ∧ c ≤ '9' then some (c.toNat - '0'.toNat)
  else if 'a' ≤ c ∧ c ≤ 'f' then some (c.toNat - 'a'.toNat + 10)
  else if 'A' ≤ c ∧ c ≤ 'F' then some (c.toNat - 'A'.toNat + 10)
  else none

def parseHex? (s : String) : Option Nat :=
  if s.isEmpty then none else
  s.foldl (fun acc c => match acc, hexDigit? c with
    | some a, some d => some (a * 16 + d)
    | _, _ => none) (some 0)

/-- a float written as `x<16 hex digits>` -/
def parseFloat? (s : String) : Option Float :=
  if s.length = 17 ∧ s.front = 'x' then
    (parseHex? (s.drop 1).toString).map (fun n => Float.ofBits n.toUInt64)
  else none

def hexChar (n : Nat) : Char :=
  if n < 10 then Char.ofNat ('0'.toNat + n) else Char.ofNat ('a'.toNat + n - 10)

def toHex16 (n : Nat) : String :=
  String.ofList ((List.range 16).map (fun i => hexChar ((n >>> (4 * (15 - i))) % 16)))

def showFloat (f : Float) : String := "x" ++ toHex16 f.toBits.toNat

def parseInt? (s : String) : Option Int := s.toInt?
def parseNat? (s : String) : Option Nat := s.toNat?

def words (line : String) : List String :=
  (line.splitOn " ").filter (fun w => !w.isEmpty) |>.map (fun w => w.trimAscii.toString) |>.filter (fun w => !w.isEmpty)

def showNats (l : List Nat) : String := " ".intercalate (l.map toString)
def showInts (l : List Int) : String := " ".intercalate (l.map toString)

partial def loop (h : IO.FS.Stream) (out : IO.FS.Stream) (handle : List String → String) : IO Unit := do
  let line ← h.getLine
  if line.isEmpty then return ()
  out.putStrLn (handle (words line))
  loop h out handle

def run (handle : List String → String) : IO Unit := do
  let out ← IO.getStdout
  loop (← IO.getStdin) out handle
  out.flush

end Drv
