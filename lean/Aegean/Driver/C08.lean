/-
  C08 driver.  One line = one whole history (the line protocol is stateless):

    seq <maxdepth> <item> | <item> | …

  items:   A d n p1…pn        add_pixels(pix, d)                      (raw primitive)
           N d n p1…pn        add_pixels(pix, d); _renorm()           (add_circles / add_poly)
           R                  _renorm()
           U b <region>       union(other, renorm=b)
           W <region> | I <region> | X <region>     without / intersect / symmetric_difference
           D                  get_demoted()
           G                  get_area()        (in deepest-pixel units)
           Q n q1…qn          sky_within at positions inside deepest pixels q1…qn (one call)
           P                  save; load
  region:  m c k (d n p1…pn)*k      depth, cache-alias flag, k populated levels

  answer: for every item  `<status>;<state>;<obs>;<operand after>;<spec set>;<spec obs>`  joined by " | ".
  The model (`Model.C08.step`) and the Spec (`Spec.C08.step` on `absOp`) are run side by side.
-/
import Aegean.Driver.Common
import Aegean.Model.C08
import Aegean.Spec.C08
import Aegean.Proofs.C08Refine

namespace Drv.C08
open Drv Aegean.Model.C08

def sortNat (l : List Nat) : List Nat := l.mergeSort (fun a b => decide (a ≤ b))

def showSet (l : List Nat) : String := ",".intercalate ((sortNat l).map toString)

def showState (r : Region) : String :=
  s!"m{r.m} c{if r.cached then 1 else 0} " ++
    " ".intercalate ((List.range' 1 r.m).map (fun d => s!"{d}:{showSet (r.pd d)}"))

def takeNats : Nat → List String → Option (List Nat × List String)
  | 0, ws => some ([], ws)
  | _ + 1, [] => none
  | n + 1, w :: ws => do
    let x ← w.toNat?
    let (xs, r) ← takeNats n ws
    pure (x :: xs, r)

def counted : List String → Option (List Nat × List String)
  | [] => none
  | w :: ws => do
    let n ← w.toNat?
    takeNats n ws

def parseLevels : Nat → List String → Option (List (Nat × List Nat) × List String)
  | 0, ws => some ([], ws)
  | _ + 1, [] => none
  | k + 1, w :: ws => do
    let d ← w.toNat?
    let (ps, r) ← counted ws
    let (ls, r') ← parseLevels k r
    pure ((d, ps) :: ls, r')

def lookupLevel (ls : List (Nat × List Nat)) (d : Nat) : List Nat :=
  match ls.find? (fun x => x.1 == d) with
  | some x => x.2
  | none => []

def parseRegion : List String → Option (Region × List String)
  | m :: c :: k :: ws => do
    let m ← m.toNat?
    let c ← c.toNat?
    let k ← k.toNat?
    let (ls, r) ← parseLevels k ws
    if m = 0 ∨ ls.any (fun x => x.1 = 0 ∨ x.1 > m) then none
    else pure ({ m := m, pd := lookupLevel ls, cached := c != 0 }, r)
  | _ => none

/-- one protocol item = a list of model operations (only `Q` expands to several) -/
def parseItem : List String → Option (List Op)
  | "A" :: d :: ws => do let d ← d.toNat?; let (ps, r) ← counted ws; if r.isEmpty then pure [.addRaw ps d] else none
  | "N" :: d :: ws => do let d ← d.toNat?; let (ps, r) ← counted ws; if r.isEmpty then pure [.add ps d] else none
  | ["R"] => some [.renorm]
  | "U" :: b :: ws => do let b ← b.toNat?; let (o, r) ← parseRegion ws; if r.isEmpty then pure [.union o (b != 0)] else none
  | "W" :: ws => do let (o, r) ← parseRegion ws; if r.isEmpty then pure [.without o] else none
  | "I" :: ws => do let (o, r) ← parseRegion ws; if r.isEmpty then pure [.intersect o] else none
  | "X" :: ws => do let (o, r) ← parseRegion ws; if r.isEmpty then pure [.symdiff o] else none
  | ["D"] => some [.getDemoted]
  | ["G"] => some [.area]
  | "Q" :: ws => do let (qs, r) ← counted ws; if r.isEmpty ∧ !qs.isEmpty then pure (qs.map .within) else none
  | ["P"] => some [.saveLoad]
  | _ => none

def splitBar (ws : List String) : List (List String) :=
  let rec go (acc cur : List String) (out : List (List String)) : List String → List (List String)
    | [] => (cur.reverse :: out).reverse
    | w :: ws => if w == "|" then go acc [] (cur.reverse :: out) ws else go acc (w :: cur) out ws
  go [] [] [] ws

def showObs : List Obs → String
  | [] => "-"
  | [.none] => "-"
  | [.pixels l] => "P:" ++ showSet l
  | [.area n] => s!"A:{n}"
  | obs => "B:" ++ String.join (obs.map (fun o => match o with | .answer true => "1" | .answer false => "0" | _ => "?"))

def showSObs : List Aegean.Spec.C08.Obs → String
  | [] => "-"
  | [.none] => "-"
  | [.pixels l] => "P:" ++ showSet (Aegean.Spec.C08.dedup l)
  | [.area n] => s!"A:{n}"
  | obs => "B:" ++ String.join (obs.map (fun o => match o with | .answer true => "1" | .answer false => "0" | _ => "?"))

def errName : Err → String
  | .assertion => "assert"
  | .badDepth => "baddepth"

def serrName : Aegean.Spec.C08.Err → String
  | .assertion => "assert"
  | .badDepth => "baddepth"

/-- the same region with its level function tabulated (pure representation change: `pd` is a chain of
    closures after a few operations, and every access would re-run it) -/
def tabulate (r : Region) : Region :=
  let tbl := (List.range' 1 r.m).map (fun d => (d, r.pd d))
  { r with pd := lookupLevel tbl }

/-- run the operations of one item on the model; the first error aborts the item (state unchanged) -/
def runItem (r : Region) : List Op → Except Err (Region × List Obs)
  | [] => .ok (r, [])
  | op :: ops =>
    match step r op with
    | .error e => .error e
    | .ok (r', o) =>
      match runItem (tabulate r') ops with
      | .error e => .error e
      | .ok (rf, os) => .ok (rf, o :: os)

def runSItem (s : Aegean.Spec.C08.S) : List Op → Except Aegean.Spec.C08.Err (Aegean.Spec.C08.S × List Aegean.Spec.C08.Obs)
  | [] => .ok (s, [])
  | op :: ops =>
    match Aegean.Spec.C08.step s (Aegean.Proofs.C08.absOp op) with
    | .error e => .error e
    | .ok (s', o) =>
      match runSItem s' ops with
      | .error e => .error e
      | .ok (sf, os) => .ok (sf, o :: os)

def showOperand (ops : List Op) : String :=
  match ops with
  | [op] => match operandAfter op with
    | some o => showState o
    | none => "-"
  | _ => "-"

def runSeq (r : Region) (s : Aegean.Spec.C08.S) : List (List String) → List String
  | [] => []
  | it :: rest =>
    match parseItem it with
    | none => ["bad-op"]
    | some ops =>
      let (r', mtxt) := match runItem r ops with
        | .ok (r', obs) => (r', s!"ok;{showState r'};{showObs obs};{showOperand ops}")
        | .error e => (r, s!"err {errName e};{showState r};-;-")
      let (s', stxt) := match runSItem s ops with
        | .ok (s', obs) => (s', s!"{showSet (Aegean.Spec.C08.dedup s'.pix)};{showSObs obs}")
        | .error e => (s, s!"{showSet (Aegean.Spec.C08.dedup s.pix)};err {serrName e}")
      (mtxt ++ ";" ++ stxt) :: runSeq r' s' rest

def handle (ws : List String) : String :=
  match ws with
  | "seq" :: m :: rest =>
    match m.toNat? with
    | some m =>
      if m = 0 then "bad-op" else
      let items := if rest.isEmpty then [] else splitBar rest
      let out := runSeq (empty m) ⟨m, []⟩ items
      if out.contains "bad-op" then "bad-op" else " | ".intercalate out
    | none => "bad-op"
  | "abs" :: rest =>   -- the executable abstraction of a given state: covered deepest pixels, with repetition
    match parseRegion rest with
    | some (r, []) => s!"{showSet (dedup (absList r))};{(absList r).length};{area r}"
    | _ => "bad-op"
  | _ => "bad-op"

end Drv.C08
