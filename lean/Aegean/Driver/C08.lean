/-
  C08 driver.  One line = one whole history (the line protocol is stateless):

    seq <maxdepth> <item> | <item> | …

  items:   A d n p1…pn        add_pixels(pix, d)                      (raw primitive)
           N d n p1…pn        add_pixels(pix, d); _renorm()           (add_circles / add_poly)
           R                  _renorm()
           U b <region>       union(other, renorm=b)
           W <region> | I <region> | X <region>     without / intersect / symmetric_difference
           D                  get_demoted()
           G                  get_area()        (in deepest-pixel units)
           Q n q1…qn          sky_within at positions inside deepest pixels q1…qn (one call)
           P                  save; load      (one object: pickle round trip)
           S f | L f          save the current region to file f / replace it by a fresh load of file f
           UF b f | WF f | IF f | XF f     union / without / intersect / symmetric_difference with load(f)
  region:  m c k (d n p1…pn)*k      depth, cache-alias flag, k populated levels

  answer: for every item  `<status>;<state>;<obs>;<operand after>;<spec set>;<spec obs>`  joined by " | ".
  The model (`Model.C08.step`) and the Spec (`Spec.C08.step` on `absOp`) are run side by side.
-/
import Aegean.Driver.Common
import Aegean.Model.C08
import Aegean.Model.C08Gen
import Aegean.Spec.C08
import Aegean.Proofs.C08Session

namespace Drv.C08
open Drv Aegean.Model.C08

def sortNat (l : List Nat) : List Nat := l.mergeSort (fun a b => decide (a ≤ b))

def showSet (l : List Nat) : String := ",".intercalate ((sortNat l).map toString)

def showState (r : Region) : String :=
  s!"m{r.m} c{if r.cached then 1 else 0} " ++
    " ".intercalate ((List.range' 1 r.m).map (fun d => s!"{d}:{showSet (r.pd d)}"))

def takeNats : Nat → List String → Option (List Nat × List String)
  | 0, ws => some ([], ws)
  | _ + 1, [] => none
  | n + 1, w :: ws => do
    let x ← w.toNat?
    let (xs, r) ← takeNats n ws
    pure (x :: xs, r)

def counted : List String → Option (List Nat × List String)
  | [] => none
  | w :: ws => do
    let n ← w.toNat?
    takeNats n ws

def parseLevels : Nat → List String → Option (List (Nat × List Nat) × List String)
  | 0, ws => some ([], ws)
  | _ + 1, [] => none
  | k + 1, w :: ws => do
    let d ← w.toNat?
    let (ps, r) ← counted ws
    let (ls, r') ← parseLevels k r
    pure ((d, ps) :: ls, r')

def lookupLevel (ls : List (Nat × List Nat)) (d : Nat) : List Nat :=
  match ls.find? (fun x => x.1 == d) with
  | some x => x.2
  | none => []

def parseRegion : List String → Option (Region × List String)
  | m :: c :: k :: ws => do
    let m ← m.toNat?
    let c ← c.toNat?
    let k ← k.toNat?
    let (ls, r) ← parseLevels k ws
    if m = 0 ∨ ls.any (fun x => x.1 = 0 ∨ x.1 > m) then none
    else pure ({ m := m, pd := lookupLevel ls, cached := c != 0 }, r)
  | _ => none

def fileNo (w : String) : Option Nat := do let f ← w.toNat?; if f < 8 then pure f else none

/-- one protocol item = a list of model operations (only `Q` expands to several) -/
def parseItem : List String → Option (List SessOp)
  | "A" :: d :: ws => do let d ← d.toNat?; let (ps, r) ← counted ws; if r.isEmpty then pure [.op (.addRaw ps d)] else none
  | "N" :: d :: ws => do let d ← d.toNat?; let (ps, r) ← counted ws; if r.isEmpty then pure [.op (.add ps d)] else none
  | ["R"] => some [.op .renorm]
  | "U" :: b :: ws => do let b ← b.toNat?; let (o, r) ← parseRegion ws; if r.isEmpty then pure [.op (.union o (b != 0))] else none
  | "W" :: ws => do let (o, r) ← parseRegion ws; if r.isEmpty then pure [.op (.without o)] else none
  | "I" :: ws => do let (o, r) ← parseRegion ws; if r.isEmpty then pure [.op (.intersect o)] else none
  | "X" :: ws => do let (o, r) ← parseRegion ws; if r.isEmpty then pure [.op (.symdiff o)] else none
  | ["D"] => some [.op .getDemoted]
  | ["G"] => some [.op .area]
  | "Q" :: ws => do let (qs, r) ← counted ws; if r.isEmpty ∧ !qs.isEmpty then pure (qs.map (fun q => .op (.within q))) else none
  | ["P"] => some [.op .saveLoad]
  | ["S", f] => do let f ← fileNo f; pure [.save f]
  | ["L", f] => do let f ← fileNo f; pure [.load f]
  | ["UF", b, f] => do let b ← b.toNat?; let f ← fileNo f; pure [.unionFile f (b != 0)]
  | ["WF", f] => do let f ← fileNo f; pure [.withoutFile f]
  | ["IF", f] => do let f ← fileNo f; pure [.intersectFile f]
  | ["XF", f] => do let f ← fileNo f; pure [.symdiffFile f]
  | _ => none

def splitBar (ws : List String) : List (List String) :=
  let rec go (acc cur : List String) (out : List (List String)) : List String → List (List String)
    | [] => (cur.reverse :: out).reverse
    | w :: ws => if w == "|" then go acc [] (cur.reverse :: out) ws else go acc (w :: cur) out ws
  go [] [] [] ws

def showObs : List Obs → String
  | [] => "-"
  | [.none] => "-"
  | [.pixels l] => "P:" ++ showSet l
  | [.area n] => s!"A:{n}"
  | obs => "B:" ++ String.join (obs.map (fun o => match o with | .answer true => "1" | .answer false => "0" | _ => "?"))

def showSObs : List Aegean.Spec.C08.Obs → String
  | [] => "-"
  | [.none] => "-"
  | [.pixels l] => "P:" ++ showSet (Aegean.Spec.C08.dedup l)
  | [.area n] => s!"A:{n}"
  | obs => "B:" ++ String.join (obs.map (fun o => match o with | .answer true => "1" | .answer false => "0" | _ => "?"))

def errName : SessErr → String
  | .op .assertion => "assert"
  | .op .badDepth => "baddepth"
  | .noFile => "nofile"

def serrName : Aegean.Spec.C08.SessErr → String
  | .op .assertion => "assert"
  | .op .badDepth => "baddepth"
  | .noFile => "nofile"

/-- the same region with its level function tabulated (pure representation change: `pd` is a chain of
    closures after a few operations, and every access would re-run it) -/
def tabulate (r : Region) : Region :=
  let tbl := (List.range' 1 r.m).map (fun d => (d, r.pd d))
  { r with pd := lookupLevel tbl }

def lookupFile (tbl : List (Nat × Option Region)) (g : Nat) : Option Region :=
  match tbl.find? (fun x => x.1 == g) with
  | some x => x.2
  | none => none

/-- same representation change for the file map (file numbers 0..7 only; the parser rejects others) -/
def tabSession (s : Session) : Session :=
  let tbl := (List.range 8).map (fun f => (f, (s.files f).map tabulate))
  { cur := tabulate s.cur, files := lookupFile tbl }

/-- run the operations of one item on the model; the first error aborts the item (state unchanged) -/
def runItem (s : Session) : List SessOp → Except SessErr (Session × List Obs)
  | [] => .ok (s, [])
  | op :: ops =>
    match sessStepGen s op with
    | .error e => .error e
    | .ok (s', o) =>
      match runItem (tabSession s') ops with
      | .error e => .error e
      | .ok (sf, os) => .ok (sf, o :: os)

def runSItem (s : Aegean.Spec.C08.Sess) : List SessOp →
    Except Aegean.Spec.C08.SessErr (Aegean.Spec.C08.Sess × List Aegean.Spec.C08.Obs)
  | [] => .ok (s, [])
  | op :: ops =>
    match Aegean.Spec.C08.sessStep s (Aegean.Proofs.C08.absSessOp op) with
    | .error e => .error e
    | .ok (s', o) =>
      match runSItem s' ops with
      | .error e => .error e
      | .ok (sf, os) => .ok (sf, o :: os)

def showOperand (ops : List SessOp) : String :=
  match ops with
  | [.op op] => match operandAfterGen op with
    | some o => showState o
    | none => "-"
  | _ => "-"

def runSeq (r : Session) (s : Aegean.Spec.C08.Sess) : List (List String) → List String
  | [] => []
  | it :: rest =>
    match parseItem it with
    | none => ["bad-op"]
    | some ops =>
      let (r', mtxt) := match runItem r ops with
        | .ok (r', obs) => (r', s!"ok;{showState r'.cur};{showObs obs};{showOperand ops}")
        | .error e => (r, s!"err {errName e};{showState r.cur};-;-")
      let (s', stxt) := match runSItem s ops with
        | .ok (s', obs) => (s', s!"{showSet (Aegean.Spec.C08.dedup s'.cur.pix)};{showSObs obs}")
        | .error e => (s, s!"{showSet (Aegean.Spec.C08.dedup s.cur.pix)};err {serrName e}")
      (mtxt ++ ";" ++ stxt) :: runSeq r' s' rest

def handle (ws : List String) : String :=
  match ws with
  | "seq" :: m :: rest =>
    match m.toNat? with
    | some m =>
      if m = 0 then "bad-op" else
      let items := if rest.isEmpty then [] else splitBar rest
      let out := runSeq ⟨empty m, fun _ => none⟩ ⟨⟨m, []⟩, fun _ => none⟩ items
      if out.contains "bad-op" then "bad-op" else " | ".intercalate out
    | none => "bad-op"
  | "abs" :: rest =>   -- the executable abstraction of a given state: covered deepest pixels, with repetition
    match parseRegion rest with
    | some (r, []) => s!"{showSet (dedup (absList r))};{(absList r).length};{area r}"
    | _ => "bad-op"
  | _ => "bad-op"

end Drv.C08
