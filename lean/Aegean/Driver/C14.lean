import Aegean.Driver.Common
import Aegean.Generated.C14
import Aegean.Model.C14

/-
  Line protocol for C14 (floats as `x%016x`):
    k                                              -> FWHM2CC of the model
    gauss x y amp xo yo sx sy theta                -> Gen.C14.gauss
    leaf sx sy theta                               -> xoff yoff
    win nx ny xo yo sx sy theta                    -> `skip` | `x0 x1 y0 y1`
    winp nx ny xo yo sx sy theta                   -> the same with the pinned tree's skip rule
    model nx ny n (peak rms xo yo sx sy theta)*n   -> `ok` v(0,0) v(0,1) … (row-major)
    mask  nx ny frac|- sigma n (…)*n               -> `ok` string of 0/1, row-major
    resid nx ny add mask frac|- sigma n (…)*n d…   -> `ok` values (`nan` where blanked)
-/
namespace Drv.C14
open Drv Aegean.Model.C14

def genLeaves : Leaves Float :=
  { xoff := Gen.C14.xoff, yoff := Gen.C14.yoff, modelVal := Gen.C14.modelVal,
    skipLoX := Gen.C14.skipLoX, skipHiX := Gen.C14.skipHiX, skipOpsX := Gen.C14.skipOpsX,
    skipLoY := Gen.C14.skipLoY, skipHiY := Gen.C14.skipHiY, skipOpsY := Gen.C14.skipOpsY,
    thrFrac := Gen.C14.thrFrac, thrSigma := Gen.C14.thrSigma, maskOp := Gen.C14.maskOp,
    residPlus := Gen.C14.residPlus }

/-- FWHM2CC as the tree under test defines it (regenerated), at `ln2 = log 2` -/
def kF : Float := Gen.C14.fwhm2ccOf (RX.log (R.ofNat 2 : Float))

def floats (ws : List String) : Option (List Float) := ws.mapM parseFloat?

def srcs : Nat → List Float → Option (List (RSrc Float) × List Float)
  | 0, rest => some ([], rest)
  | n+1, peak :: rms :: xo :: yo :: sx :: sy :: th :: rest =>
    match srcs n rest with
    | some (l, r) => some ({ peak := peak, rms := rms, pix := ⟨xo, yo, sx, sy, th⟩ } :: l, r)
    | none => none
  | _, _ => none

def pixels (nx ny : Nat) : List (Nat × Nat) :=
  (List.range nx).flatMap (fun i => (List.range ny).map (fun j => (i, j)))

def showWin : Option Win → String
  | none => "skip"
  | some w => s!"{w.x0} {w.x1} {w.y0} {w.y1}"

def showOpt : Option Float → String
  | none => "nan"
  | some v => showFloat v

def fracOf (s : String) : Option (Option Float) :=
  if s = "-" then some none else (parseFloat? s).map some

def boolOf (s : String) : Option Bool :=
  if s = "1" then some true else if s = "0" then some false else none

def handle (ws : List String) : String :=
  match ws with
  | ["k"] => showFloat kF
  | "gauss" :: rest =>
    match floats rest with
    | some [x, y, amp, xo, yo, sx, sy, th] => showFloat (Gen.C14.gauss x y amp xo yo sx sy th)
    | _ => "bad-op"
  | "leaf" :: rest =>
    match floats rest with
    | some [sx, sy, th] => s!"{showFloat (Gen.C14.xoff sx sy th)} {showFloat (Gen.C14.yoff sx sy th)}"
    | _ => "bad-op"
  | "win" :: nx :: ny :: rest =>
    match nx.toNat?, ny.toNat?, floats rest with
    | some nx, some ny, some [xo, yo, sx, sy, th] => showWin (window genLeaves nx ny ⟨xo, yo, sx, sy, th⟩)
    | _, _, _ => "bad-op"
  | "winp" :: nx :: ny :: rest =>
    match nx.toNat?, ny.toNat?, floats rest with
    | some nx, some ny, some [xo, yo, sx, sy, th] =>
      showWin (windowWith onAxisPinned onAxisPinned genLeaves nx ny ⟨xo, yo, sx, sy, th⟩)
    | _, _, _ => "bad-op"
  | "model" :: nx :: ny :: n :: rest =>
    match nx.toNat?, ny.toNat?, n.toNat?, floats rest with
    | some nx, some ny, some n, some fl =>
      match srcs n fl with
      | some (cat, []) =>
        let m := makeModelR genLeaves kF nx ny cat
        "ok " ++ " ".intercalate ((pixels nx ny).map (fun p => showFloat (m p.1 p.2)))
      | _ => "bad-op"
    | _, _, _, _ => "bad-op"
  | "mask" :: nx :: ny :: frac :: sigma :: n :: rest =>
    match nx.toNat?, ny.toNat?, fracOf frac, parseFloat? sigma, n.toNat?, floats rest with
    | some nx, some ny, some frac, some sigma, some n, some fl =>
      match srcs n fl with
      | some (cat, []) =>
        let b := maskModelR genLeaves kF nx ny frac sigma cat
        "ok " ++ String.ofList ((pixels nx ny).map (fun p => if b p.1 p.2 then '1' else '0'))
      | _ => "bad-op"
    | _, _, _, _, _, _ => "bad-op"
  | "resid" :: nx :: ny :: add :: mask :: frac :: sigma :: n :: rest =>
    match nx.toNat?, ny.toNat?, boolOf add, boolOf mask, fracOf frac, parseFloat? sigma, n.toNat?, floats rest with
    | some nx, some ny, some add, some mask, some frac, some sigma, some n, some fl =>
      match srcs n fl with
      | some (cat, dl) =>
        if dl.length ≠ nx * ny then "bad-op" else
        let da := dl.toArray
        let data : Img Float := fun i j => da.getD (i * ny + j) 0.0
        let r := residualR genLeaves kF nx ny add mask frac sigma data cat
        "ok " ++ " ".intercalate ((pixels nx ny).map (fun p => showOpt (r p.1 p.2)))
      | none => "bad-op"
    | _, _, _, _, _, _, _, _ => "bad-op"
  | _ => "bad-op"

end Drv.C14
