import Aegean.Driver.Common
import Aegean.Generated.C19
import Aegean.Model.C19
import Aegean.Spec.C19

/-!
  Line protocol for C19 (floats as `x%016x`):

  eps <aereg|sf|hand> <x>                      the linking-length conversion (arcmin → chord)
  vec <raDeg> <decDeg>                         the three regenerated columns of the array given to DBSCAN
  resizef <a> <b> <psf_a> <psf_b> <ratio>      the two regenerated ratio formulas
  resize <ratio> (<id> <a> <b> <psf_a> <psf_b>)*   `resize(catalog, ratio)`; NaN psf = no psf information
  dbscan <chord|aereg|sf> <x> (<id> <raDeg> <decDeg> <fluxKey> <island> <source>)*
         `regroup_dbscan` with eps = x (chord) or the call-site conversion of x arcmin;
         answer `ok K | id isl src … | …` or `cert-fail`
  greedy <n> <bits n*n> (<id> <fluxKey> <decKey>)*     `regroup` with the nearness matrix given
         (bit i*n+j = row i, when it is the new row, is near row j)
-/

namespace Drv.C19
open Drv Aegean.Model.C19

def floats? (ws : List String) : Option (List Float) := ws.mapM parseFloat?

def isFinite (x : Float) : Bool := !x.isNaN && !x.isInf

def showSrcs (g : List Src) : String :=
  " ".intercalate (g.map fun s => s!"{s.id} {s.island} {s.source}")

def showGroups (gs : List (List Src)) : String :=
  " | ".intercalate (gs.map showSrcs)

instance : Inhabited (V3 Float) := ⟨{ x := 0.0, y := 0.0, z := 0.0 }⟩

structure Row where
  src : Src
  ra : Float
  dec : Float

def parseRows : List String → Option (List Row)
  | [] => some []
  | id :: ra :: dec :: fk :: isl :: so :: rest =>
    match id.toNat?, parseFloat? ra, parseFloat? dec, fk.toInt?, isl.toNat?, so.toNat?, parseRows rest with
    | some id, some ra, some dec, some fk, some isl, some so, some rs =>
      some ({ src := { id := id, flux := fk, dec := 0, island := isl, source := so, rest := id }, ra := ra, dec := dec } :: rs)
    | _, _, _, _, _, _, _ => none
  | _ => none

def parseKeyRows : List String → Option (List Src)
  | [] => some []
  | id :: fk :: dk :: rest =>
    match id.toNat?, fk.toInt?, dk.toInt?, parseKeyRows rest with
    | some id, some fk, some dk, some rs =>
      some ({ id := id, flux := fk, dec := dk, island := 0, source := 0, rest := id } :: rs)
    | _, _, _, _ => none
  | _ => none

def parseShapes : List String → Option (List (Nat × Shape Float))
  | [] => some []
  | id :: a :: b :: pa :: pb :: rest =>
    match id.toNat?, parseFloat? a, parseFloat? b, parseFloat? pa, parseFloat? pb, parseShapes rest with
    | some id, some a, some b, some pa, some pb, some rs =>
      let psf := if isFinite pa && isFinite pb then some (pa, pb) else none
      some ((id, { a := a, b := b, psf := psf }) :: rs)
    | _, _, _, _, _, _ => none
  | _ => none

def epsOf (mode : String) (x : Float) : Option Float :=
  match mode with
  | "chord" => some x
  | "aereg" => some (Gen.C19.epsAeReg x)
  | "sf" => some (Gen.C19.epsSF x)
  | "hand" => some (epsHand x)
  | _ => none

def handle (ws : List String) : String :=
  match ws with
  | ["eps", mode, x] =>
    match parseFloat? x with
    | some x => match epsOf mode x with
      | some e => showFloat e
      | none => "bad-op"
    | none => "bad-op"
  | ["vec", ra, dec] =>
    match floats? [ra, dec] with
    | some [ra, dec] =>
      s!"{showFloat (Gen.C19.vec0 ra dec)} {showFloat (Gen.C19.vec1 ra dec)} {showFloat (Gen.C19.vec2 ra dec)}"
    | _ => "bad-op"
  | ["resizef", a, b, pa, pb, r] =>
    match floats? [a, b, pa, pb, r] with
    | some [a, b, pa, pb, r] =>
      s!"{showFloat (Gen.C19.resizeA a b pa pb r)} {showFloat (Gen.C19.resizeB a b pa pb r)}"
    | _ => "bad-op"
  | "resize" :: r :: rest =>
    match parseFloat? r, parseShapes rest with
    | some r, some cat =>
      let out := resizeCat Gen.C19.resizeA Gen.C19.resizeB isFinite r cat
      "ok " ++ " ".intercalate (out.map fun (id, a, b) => s!"{id} {showFloat a} {showFloat b}")
    | _, _ => "bad-op"
  | "dbscan" :: mode :: x :: rest =>
    match parseFloat? x, parseRows rest with
    | some x, some rows =>
      match epsOf mode x with
      | none => "bad-op"
      | some eps =>
        let maxId := rows.foldl (fun m r => max m r.src.id) 0
        let vecs : Array (V3 Float) := rows.foldl
          (fun (acc : Array (V3 Float)) r => acc.set! r.src.id (embedWith Gen.C19.vec0 Gen.C19.vec1 Gen.C19.vec2 r.ra r.dec))
          (Array.replicate (maxId + 1) { x := 0.0, y := 0.0, z := 0.0 })
        -- the `≤ eps` test for every pair of ids, evaluated once (the chord is symmetric in IEEE
        -- arithmetic: `(a - b)² = (b - a)²` exactly), so that BFS and checker only do look-ups
        let m := maxId + 1
        let mat : Array Bool := Id.run do
          let mut t : Array Bool := Array.replicate (m * m) false
          for i in [0:m] do
            let u := vecs[i]!
            for j in [i:m] do
              let b := decide (chord u vecs[j]! ≤ eps)
              t := t.set! (i * m + j) b
              t := t.set! (j * m + i) b
          return t
        let link : Src → Src → Bool := fun a b => mat[a.id * m + b.id]!
        match regroupDbscan link (rows.map (·.src)) with
        | some gs => s!"ok {gs.length} | " ++ showGroups gs
        | none => "cert-fail"
    | _, _ => "bad-op"
  | "greedy" :: n :: bits :: rest =>
    match n.toNat?, parseKeyRows rest with
    | some n, some cat =>
      if bits.length ≠ n * n ∨ cat.length ≠ n then "bad-op" else
      let bs := bits.toList.toArray
      -- sources are addressed by their position in this request (`rest` field = id = row)
      let pos : Array Nat := cat.zipIdx.foldl (fun (acc : Array Nat) (s, i) => acc.set! s.id i)
        (Array.replicate ((cat.foldl (fun m s => max m s.id) 0) + 1) 0)
      let near : Src → Src → Bool := fun a b => bs[pos[a.id]! * n + pos[b.id]!]! == '1'
      let gs := regroupGreedy near cat
      s!"ok {gs.length} | " ++ showGroups gs
    | _, _ => "bad-op"
  | _ => "bad-op"

end Drv.C19
