import Aegean.Driver.Common
import Aegean.Generated.C15
import Aegean.Model.C15
import Aegean.Spec.C15

/-
  Line protocol for C15 (floats as `x<16 hex>`; a pixel may also be a decimal integer):

    idx  rows cols f                                   -> nx ny lcx lcy          (regenerated)
    node k rpx1 rpx2 f                                 -> row col                (regenerated)
    compress  f rows cols HDR BN px…                   -> ok rows cols HDR BN px… | err <token>
    expand      rows cols HDR BN px…                   -> ok rows cols HDR BN px… | err <token>
    roundtrip f rows cols HDR BN px…                   -> ok rows cols HDR BN px… | err <token>
    spec f rows cols  orows ocols  px…(rows*cols ints)  opx…(orows*ocols floats)
                                                       -> ok | violated <clause> <r> <c>

    HDR = naxis1 naxis2 crpix1 crpix2 cdelt1 cd11 cdelt2 cd22      (the last four: float or `-`)
    BN  = (`nobn`  |  `bn cfac npx1 npx2 rpx1 rpx2`)  `other` n key₁ val₁ … keyₙ valₙ     (raw cards, never interpreted)
-/
namespace Drv.C15
open Drv Aegean.Model.C15

def nan : Float := 0.0 / 0.0

def parsePx? (s : String) : Option Float :=
  match parseFloat? s with
  | some x => some x
  | none => (s.toInt?).map Float.ofInt

def parseOptF? (s : String) : Option (Option Float) :=
  if s = "-" then some none else (parseFloat? s).map some

def showOptF : Option Float → String
  | none => "-"
  | some x => showFloat x

def parseBN? : List String → Option (Option BN × List String)
  | "nobn" :: rest => some (none, rest)
  | "bn" :: a :: b :: c :: d :: e :: rest =>
    match a.toNat?, b.toNat?, c.toNat?, d.toNat?, e.toNat? with
    | some a, some b, some c, some d, some e =>
      some (some { cfac := a, npx1 := b, npx2 := c, rpx1 := d, rpx2 := e }, rest)
    | _, _, _, _, _ => none
  | _ => none

def showBN : Option BN → String
  | none => "nobn"
  | some b => s!"bn {b.cfac} {b.npx1} {b.npx2} {b.rpx1} {b.rpx2}"

def parseOther? : List String → Option (List (String × String) × List String)
  | "other" :: n :: rest =>
    match n.toNat? with
    | some n =>
      if rest.length < 2 * n then none else
        let rec go : Nat → List String → List (String × String) → List (String × String) × List String
          | 0, r, acc => (acc.reverse, r)
          | k + 1, a :: b :: r, acc => go k r ((a, b) :: acc)
          | _, r, acc => (acc.reverse, r)
        some (go n rest [])
    | none => none
  | _ => none

def showOther (l : List (String × String)) : String :=
  l.foldl (fun s (k, v) => s ++ " " ++ k ++ " " ++ v) s!"other {l.length}"

def parseHdr? : List String → Option (Hdr Float × List String)
  | n1 :: n2 :: c1 :: c2 :: d1 :: e1 :: d2 :: e2 :: rest =>
    match n1.toNat?, n2.toNat?, parseFloat? c1, parseFloat? c2,
          parseOptF? d1, parseOptF? e1, parseOptF? d2, parseOptF? e2, parseBN? rest with
    | some n1, some n2, some c1, some c2, some d1, some e1, some d2, some e2, some (bn, rest) =>
      match parseOther? rest with
      | some (other, rest) =>
        some ({ naxis1 := n1, naxis2 := n2, crpix1 := c1, crpix2 := c2,
                cdelt1 := d1, cd11 := e1, cdelt2 := d2, cd22 := e2, bn := bn, other := other }, rest)
      | none => none
    | _, _, _, _, _, _, _, _, _ => none
  | _ => none

def showHdr (h : Hdr Float) : String :=
  s!"{h.naxis1} {h.naxis2} {showFloat h.crpix1} {showFloat h.crpix2} " ++
  s!"{showOptF h.cdelt1} {showOptF h.cd11} {showOptF h.cdelt2} {showOptF h.cd22} {showBN h.bn} {showOther h.other}"

def mkImg (rows cols : Nat) (px : Array Float) : Img Float :=
  { rows := rows, cols := cols,
    px := fun i j => if i < rows ∧ j < cols then px.getD (i * cols + j) nan else nan }

def showImg (im : Img Float) : String :=
  " ".intercalate ((List.range im.rows).flatMap (fun i => (List.range im.cols).map (fun j => showFloat (im.px i j))))

def showErr : Err → String
  | .badFactor => "badFactor"
  | .squeezed => "squeezed"
  | .shapeMismatch => "shapeMismatch"
  | .noScale1 => "noScale1"
  | .noScale2 => "noScale2"
  | .degenerate => "degenerate"
  | .notAscending => "notAscending"
  | .outOfBounds => "outOfBounds"

def showRes : Except Err (Hdr Float × Img Float) → String
  | .error e => "err " ++ showErr e
  | .ok (h, im) => s!"ok {im.rows} {im.cols} {showHdr h} {showImg im}"

/-- parse `rows cols HDR BN px…` -/
def parseCase? (ws : List String) : Option (Hdr Float × Img Float) :=
  match ws with
  | rows :: cols :: rest =>
    match rows.toNat?, cols.toNat?, parseHdr? rest with
    | some rows, some cols, some (h, pxs) =>
      match pxs.mapM parsePx? with
      | some l => if l.length = rows * cols then some (h, mkImg rows cols l.toArray) else none
      | none => none
    | _, _, _ => none
  | _ => none

def genHdr : HdrArith Float :=
  { crpixC1 := Gen.C15.crpixC1, crpixC2 := Gen.C15.crpixC2, crpixE1 := Gen.C15.crpixE1, crpixE2 := Gen.C15.crpixE2,
    keyC1 := Gen.C15.keyC1, keyC2 := Gen.C15.keyC2, keyE1 := Gen.C15.keyE1, keyE2 := Gen.C15.keyE2,
    upA1 := Gen.C15.upA1, upB1 := Gen.C15.upB1, upA2 := Gen.C15.upA2, upB2 := Gen.C15.upB2,
    dnA1 := Gen.C15.dnA1, dnB1 := Gen.C15.dnB1, dnA2 := Gen.C15.dnA2, dnB2 := Gen.C15.dnB2 }
def genBn : BnArith :=
  { cfac := Gen.C15.bnCfac, npx1 := Gen.C15.bnNpx1, npx2 := Gen.C15.bnNpx2, rpx1 := Gen.C15.bnRpx1,
    rpx2 := Gen.C15.bnRpx2, outRows := Gen.C15.outRows, outCols := Gen.C15.outCols, deleted := Gen.C15.bnDeleted }
def cmp := compress (α := Float) Gen.C15.nxOf Gen.C15.nyOf Gen.C15.lcxOf Gen.C15.lcyOf genHdr genBn
def exp := expand (α := Float) Gen.C15.nodeRow Gen.C15.nodeCol genHdr genBn

def handle (ws : List String) : String :=
  match ws with
  | ["idx", rows, cols, f] =>
    match rows.toNat?, cols.toNat?, f.toNat? with
    | some r, some c, some f =>
      s!"{Gen.C15.nxOf r c f} {Gen.C15.nyOf r c f} {Gen.C15.lcxOf r c f} {Gen.C15.lcyOf r c f}"
    | _, _, _ => "bad-op"
  | ["node", k, r1, r2, f] =>
    match k.toNat?, r1.toNat?, r2.toNat?, f.toNat? with
    | some k, some r1, some r2, some f => s!"{Gen.C15.nodeRow k r1 r2 f} {Gen.C15.nodeCol k r1 r2 f}"
    | _, _, _, _ => "bad-op"
  | "compress" :: f :: rest =>
    match f.toNat?, parseCase? rest with
    | some f, some (h, im) => showRes (cmp f h im)
    | _, _ => "bad-op"
  | "expand" :: rest =>
    match parseCase? rest with
    | some (h, im) => showRes (exp h im)
    | _ => "bad-op"
  | "roundtrip" :: f :: rest =>
    match f.toNat?, parseCase? rest with
    | some f, some (h, im) =>
      showRes (roundTrip Gen.C15.nxOf Gen.C15.nyOf Gen.C15.lcxOf Gen.C15.lcyOf Gen.C15.nodeRow Gen.C15.nodeCol genHdr genBn f h im)
    | _, _ => "bad-op"
  | "spec" :: f :: rows :: cols :: orows :: ocols :: rest =>
    match f.toNat?, rows.toNat?, cols.toNat?, orows.toNat?, ocols.toNat? with
    | some f, some rows, some cols, some orows, some ocols =>
      match rest.mapM parsePx? with
      | some l =>
        if l.length = rows * cols + orows * ocols then
          let a := l.toArray
          let im := fun i j => a.getD (i * cols + j) nan
          let out := fun i j => a.getD (rows * cols + i * ocols + j) nan
          Aegean.Spec.C15.judge f rows cols orows ocols im out
        else "bad-op"
      | none => "bad-op"
    | _, _, _, _, _ => "bad-op"
  | _ => "bad-op"

end Drv.C15
