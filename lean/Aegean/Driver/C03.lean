import Aegean.Driver.Common
import Aegean.Generated.C03
import Aegean.Model.C03
import Aegean.Model.C03Gen
import Aegean.Spec.C03

namespace Drv.C03
open Drv Aegean.Model.C03

def showPairs (l : List (Nat × Nat)) : String :=
  " ".intercalate (l.map (fun p => s!"{p.1},{p.2}"))

def pairs : List Nat → List (Nat × Nat)
  | a :: b :: r => (a, b) :: pairs r
  | _ => []

def b? (s : String) : Option Bool :=
  if s = "1" then some true else if s = "0" then some false else none

def xv? : String → Option XV
  | "pos" => some .pos | "zero" => some .zero | "neg" => some .neg
  | "nan" => some .nan | "inf" => some .inf | "none" => some .none
  | _ => none

def showOut : Out → String
  | .masked => "m1"
  | .val .pos => "pos" | .val .zero => "zero" | .val .neg => "neg"
  | .val .nan => "nan" | .val .inf => "inf" | .val .none => "none"

def showErrOut (o : ErrOut) : String :=
  " ".intercalate ([o.peak, o.ra, o.dec, o.pa, o.a, o.b, o.int].map showOut)

def triples : List Int → Option (List Pix)
  | [] => some []
  | x :: y :: v :: r => (triples r).map (fun t => { x := x.toNat, y := y.toNat, v := v } :: t)
  | _ => none

def showOptInt : Option Int → String
  | none => "none"
  | some v => toString v

def verdict : Aegean.Spec.C03.StrVerdict → String
  | .ok => "ok" | .carry60 => "carry60" | .malformed => "malformed" | .disagree => "disagree"

/-- all row-level clauses; returns the list of violated clause names -/
def rowClauses (flags : Nat) (f : List Float) (raStr decStr : String) : List String :=
  match f with
  | [ra, dec, a, b, pa, peak, intf, psfA, psfB, eRa, eDec, ePeak, eInt, eA, eB, ePa] =>
    let S := @Aegean.Spec.C03.errOK Float _ _ _ _ _
    let notfit := (flags &&& NOTFIT) ≠ 0
    (if Aegean.Spec.C03.flagsOK flags then [] else ["flags"]) ++
    (if Aegean.Spec.C03.shapeOK a b then [] else ["shape"]) ++
    (if Aegean.Spec.C03.paOK pa then [] else ["pa"]) ++
    (if Aegean.Spec.C03.raOK ra then [] else ["ra"]) ++
    (if Aegean.Spec.C03.decOK dec then [] else ["dec"]) ++
    (if S eRa then [] else ["err_ra"]) ++ (if S eDec then [] else ["err_dec"]) ++
    (if S ePeak then [] else ["err_peak_flux"]) ++ (if S eInt then [] else ["err_int_flux"]) ++
    (if S eA then [] else ["err_a"]) ++ (if S eB then [] else ["err_b"]) ++
    (if S ePa then [] else ["err_pa"]) ++
    (if notfit && !(Aegean.Spec.C03.fin peak) then []
     else if Aegean.Spec.C03.fin peak && Aegean.Spec.C03.intFluxOK intf peak a b psfA psfB then [] else ["int_flux"]) ++
    (match Aegean.Spec.C03.strOK raStr ra 15.0 with
     | .ok => [] | v => ["ra_str:" ++ verdict v]) ++
    (match Aegean.Spec.C03.strOK decStr dec 1.0 with
     | .ok => [] | v => ["dec_str:" ++ verdict v])
  | _ => ["bad-op"]

def handle (ws : List String) : String :=
  match ws with
  | "blind" :: ns =>
    match ns.mapM String.toNat? with
    | some l => "ok " ++ showPairs (blindRows l)
    | none => "bad-op"
  | "refit" :: ns =>     -- regenerated istart and group_size
    match ns.mapM String.toNat? with
    | some l => "ok " ++ showPairs (refitRows Gen.C03.istart Gen.C03.groupSize l)
    | none => "bad-op"
  | "idsok" :: ns =>
    match ns.mapM String.toNat? with
    | some l =>
      if l.length % 2 ≠ 0 then "bad-op" else
      let r := pairs l
      if !Aegean.Spec.C03.noDup r then "dup"
      else if !Aegean.Spec.C03.numbered r then "gap" else "ok"
    | none => "bad-op"
  | "uu" :: us => if Aegean.Spec.C03.uuidsOK us then "ok" else "dup"
  | ["flagb", nn, ms, mx, en, eb, su, wf] =>
    match nn.toNat?, ms.toNat?, b? mx, b? en, b? eb, b? su, b? wf with
    | some nn, some ms, some mx, some en, some eb, some su, some wf =>
      toString (blindFlags nn ms mx en eb su wf)
    | _, _, _, _, _, _, _ => "bad-op"
  | "flagisl" :: nn :: ms :: maxs :: nc :: eb :: su :: wcs =>
    match nn.toNat?, ms.toNat?, maxs.toInt?, nc.toNat?, b? eb, b? su, wcs.mapM b? with
    | some nn, some ms, some maxs, some nc, some eb, some su, some wcs =>
      showNats (blindIslandFlagsG nn ms (if maxs < 0 then none else some maxs.toNat) nc eb su wcs)
    | _, _, _, _, _, _, _ => "bad-op"
  | ["str", s, v, scale] =>
    match parseFloat? v, parseFloat? scale with
    | some v, some scale => verdict (Aegean.Spec.C03.strOK s v scale)
    | _, _ => "bad-op"
  | ["str", s, v, scale, slack] =>
    match parseFloat? v, parseFloat? scale, parseFloat? slack with
    | some v, some scale, some slack => verdict (Aegean.Spec.C03.strOK s v scale slack)
    | _, _, _ => "bad-op"
  | ["radec", ra, dec] =>      -- the position clauses for an island row
    match parseFloat? ra, parseFloat? dec with
    | some ra, some dec =>
      if !(Aegean.Spec.C03.raOK ra) then "ra" else if !(Aegean.Spec.C03.decOK dec) then "dec" else "ok"
    | _, _ => "bad-op"
  | ["free", nn, ms, mx] =>
    match nn.toNat?, ms.toNat?, b? mx with
    | some nn, some ms, some mx => toString (freeVars1 (summitFlag (estimateIsFlag nn ms) mx) mx)
    | _, _, _ => "bad-op"
  | ["flagr", inp, nf, wf, st] =>
    match inp.toNat?, b? nf, b? wf, st.toNat? with
    | some inp, some nf, some wf, some st => toString (refitFlagsG inp nf wf st)
    | _, _, _, _ => "bad-op"
  | ["palimit", x] =>
    match parseFloat? x with
    | some x => showFloat (paLimitG 64 x)
    | none => "bad-op"
  | ["rawrap", x] =>
    match parseFloat? x with
    | some x => showFloat (raWrapG x)
    | none => "bad-op"
  | "fixshape" :: fs =>
    match fs.mapM parseFloat? with
    | some [a, b, pa, ea, eb] =>
      let s := fixShapeG { a := a, b := b, pa := pa, errA := ea, errB := eb : Shape Float }
      " ".intercalate ([s.a, s.b, s.pa, s.errA, s.errB].map showFloat)
    | _ => "bad-op"
  | "row" :: flags :: raStr :: decStr :: fs =>
    match flags.toNat?, fs.mapM parseFloat? with
    | some flags, some f =>
      match rowClauses flags f raStr decStr with
      | [] => "ok"
      | l => "bad " ++ " ".intercalate l
    | _, _ => "bad-op"
  | ["err", which, fl, eAmp, eXo, eYo, eSx, eSy, eTh, vP, vS, vT, rf, cRa, cDec, cPa, cA, cB, cInt] =>
    match fl.toNat?, [eAmp, eXo, eYo, eSx, eSy, eTh, cRa, cDec, cPa, cA, cB, cInt].mapM xv?, [vP, vS, vT, rf].mapM b? with
    | some fl, some [eAmp, eXo, eYo, eSx, eSy, eTh, cRa, cDec, cPa, cA, cB, cInt], some [vP, vS, vT, rf] =>
      let i : ErrIn := { flags := fl, errAmp := eAmp, errXo := eXo, errYo := eYo, errSx := eSx, errSy := eSy,
                         errTheta := eTh, varyPos := vP, varyShape := vS, varyTheta := vT, refFinite := rf,
                         convRa := cRa, convDec := cDec, convPa := cPa, convA := cA, convB := cB, convInt := cInt }
      if which = "fixed" then showErrOut (errorsFixed i)
      else if which = "pinned" then showErrOut (errorsPinned i) else "bad-op"
    | _, _, _ => "bad-op"
  | "eint" :: fs =>
    match fs.mapM parseFloat? with
    | some [intf, peak, ePeak, a, eA, b, eB] =>
      match errIntFlux intf peak ePeak a eA b eB with
      | some v => showFloat v
      | none => "masked"
    | _ => "bad-op"
  | "isl" :: nc :: x0 :: x1 :: y0 :: y1 :: rest =>
    match nc.toNat?, x0.toNat?, x1.toNat?, y0.toNat?, y1.toNat?, rest.mapM String.toInt? with
    | some nc, some x0, some x1, some y0, some y1, some l =>
      match triples l with
      | some pix =>
        let s := islandSummary nc x0 x1 y0 y1 pix
        let inb := pix.all (inBox x0 x1 y0 y1)
        let pp := match peakPix pix with
          | some p => s!"{p.x} {p.y}"
          | none => "none none"
        s!"{s.components} {s.pixels} {showOptInt s.peak} {s.xWidth} {s.yWidth} {if inb then 1 else 0} {pp}"
      | none => "bad-op"
    | _, _, _, _, _, _ => "bad-op"
  | _ => "bad-op"

end Drv.C03
