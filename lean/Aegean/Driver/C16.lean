/-
  C16 driver: the model of Aegean/Model/C16.lean at `Float`, with the abstract WCS instantiated by the
  Lean zenithal WCS.  One request per line; floats as `x<16 hex digits>`.

    p2w     <hdr> p1 p2            -> ra dec          (the Lean zenithal WCS itself, FITS 1-based pixel)
    w2p     <hdr> ra dec           -> p1 p2
    pix2sky <hdr> x y              -> ra dec          (WCSHelper.pix2sky)
    sky2pix <hdr> ra dec           -> x y
    s2pvec  <hdr> ra dec r pa      -> x y r theta
    p2svec  <hdr> x y r theta      -> ra dec r pa
    s2pell  <hdr> ra dec a b pa    -> x y sx sy theta
    p2sell  <hdr> x y sx sy theta  -> ra dec a b pa
    psf     <hdr> a b pa ra dec    -> sx sy theta  a' b' pa'   (psf at the reference pixel; get_psf_sky2sky)
    psfmap  <hdr> a b pa ra dec    -> sx sy theta (get_psf_sky2pix)  sx sy theta (get_psf_pix2pix)  area_pix
                                      for a psf MAP whose value at (ra, dec) is (a, b, pa)
    leaf    <name> args…           -> value           (one regenerated arithmetic leaf: translator self-check)
  <hdr> = PROJ crval1 crval2 crpix1 crpix2 cd11 cd12 cd21 cd22   (the CD matrix, degrees per pixel)
-/
import Aegean.Driver.Common
import Aegean.Generated.C16
import Aegean.Model.C16

namespace Drv.C16
open Drv Aegean.Model.C16

def proj? : String → Option Proj
  | "SIN" => some .SIN | "TAN" => some .TAN | "ZEA" => some .ZEA | "ARC" => some .ARC | "STG" => some .STG
  | _ => none

def fl (l : List Float) : String := " ".intercalate (l.map showFloat)

def leaf (name : String) (a : List Float) : String :=
  match name, a with
  | "gcdSep", [a, b, c, d] => fl [Gen.C16.gcdSep a b c d]
  | "bear", [a, b, c, d] => fl [Gen.C16.bear a b c d]
  | "translate", [a, b, c, d] => fl [Gen.C16.translateRa a b c d, Gen.C16.translateDec a b c d]
  | "s2pVec", [x, y, xo, yo] => fl [Gen.C16.s2pVecLen x y xo yo, Gen.C16.s2pVecAng x y xo yo]
  | "s2pEll", [x, y, xo, yo, x2, y2] =>
      fl [Gen.C16.s2pEllSx x y xo yo, Gen.C16.s2pEllSy R.pi x y xo yo x2 y2, Gen.C16.s2pEllAng x y xo yo]
  | "p2sEll", [r, d, r1, d1, r2, d2] =>
      fl [Gen.C16.p2sEllMajor r d r1 d1, Gen.C16.p2sEllMinor r d r1 d1 r2 d2, Gen.C16.p2sEllPa r d r1 d1]
  | _, _ => "bad-op"

def handle (ws : List String) : String :=
  match ws with
  | "leaf" :: name :: rest =>
    match rest.mapM parseFloat? with
    | some a => leaf name a
    | none => "bad-op"
  | op :: p :: rest =>
    match proj? p, rest.mapM parseFloat? with
    | some pr, some (v1 :: v2 :: x1 :: x2 :: c11 :: c12 :: c21 :: c22 :: a) =>
      let h : ZenHdr Float := ⟨pr, v1, v2, x1, x2, c11, c12, c21, c22⟩
      let W := zenWcs h
      match op, a with
      | "p2w", [p1, p2] => let s := zenP2W h p1 p2; fl [s.1, s.2]
      | "w2p", [ra, dec] => let q := zenW2P h ra dec; fl [q.1, q.2]
      | "pix2sky", [x, y] => let s := pix2sky W x y; fl [s.1, s.2]
      | "sky2pix", [ra, dec] => let q := sky2pix W ra dec; fl [q.1, q.2]
      | "s2pvec", [ra, dec, r, pa] => let v := sky2pixVec W ra dec r pa; fl [v.x, v.y, v.r, v.theta]
      | "p2svec", [x, y, r, th] => let v := pix2skyVec W x y r th; fl [v.ra, v.dec, v.r, v.pa]
      | "s2pell", [ra, dec, a, b, pa] =>
          let e := sky2pixEllipse W ra dec a b pa; fl [e.x, e.y, e.sx, e.sy, e.theta]
      | "p2sell", [x, y, sx, sy, th] =>
          let e := pix2skyEllipse W x y sx sy th; fl [e.ra, e.dec, e.a, e.b, e.pa]
      | "psf", [a, b, pa, ra, dec] =>
          let P := psfInit W h.crpix1 h.crpix2 a b pa
          let s := psfSky2Sky W P ra dec
          fl [P.sx, P.sy, P.theta, s.1, s.2.1, s.2.2]
      | "psfmap", [a, b, pa, ra, dec] =>
          -- one lookup on a helper whose psf map holds (a, b, pa) at (ra, dec): sky2pix then the pix2pix route
          let M : PsfMap Float := ⟨fun _ _ => (a, b, pa)⟩
          let p := psfMapSky2Pix W M ra dec
          let c := sky2pix W ra dec
          let q := psfMapPix2Pix W M c.1 c.2
          fl [p.1, p.2.1, p.2.2, q.1, q.2.1, q.2.2, beamAreaPix W M ra dec]
      | _, _ => "bad-op"
    | _, _ => "bad-op"
  | _ => "bad-op"

end Drv.C16
