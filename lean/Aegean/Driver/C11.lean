/-
  C11 driver: the same line protocol as C02 (`find … <inside>` with a region bit mask); the answer
  for a region is `Model.C11.findRestricted`, without one `findUnrestricted`.  The `gen` flag also compares with
  `findRestrictedSky` assembled from the regenerated probe (`Gen.C11`), the region being the bit mask read as a
  predicate on 0-based FITS positions (x = column, y = row).
-/
import Aegean.Driver.C02Core
import Aegean.Model.C11
import Aegean.Generated.C11

namespace Drv.C11
def handle (ws : List String) : String :=
  Drv.C02.handleCore (fun _ _ _ _ _ => true) (some (Aegean.Model.C11.findRestrictedSky Gen.C11.probeX Gen.C11.probeY Gen.C11.probeOrigin)) ws
end Drv.C11
