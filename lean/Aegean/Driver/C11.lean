/-
  C11 driver: the same line protocol as C02 (`find … <inside>` with a region bit mask); the answer
  for a region is `Model.C11.findRestricted`, without one `findUnrestricted`.
-/
import Aegean.Driver.C02
import Aegean.Model.C11

namespace Drv.C11
def handle (ws : List String) : String := Drv.C02.handle ws
end Drv.C11
