import Aegean.Driver.Common
import Aegean.Generated.C18
import Aegean.Model.C18

/-
  Line protocol for C18 (strings cross the pipe hex-encoded, UTF-8; `-` is the empty string).

  splitext <name>                         -> <root> <ext>
  plan <name>                             -> <extension> <writer> <comp-name> <isle-name> <simp-name>
  single x<16hex>                         -> x<16hex>        (round to float32 and back)
  cat <writer> <name> <prefix|-|~> <gal> <pinned> <src> <src> ...
        prefix `~` = None;  src = <C|I|S|O>:<cell>,<cell>,...   cells in the order of the class's names list
        cell  = i<int> | f<16hex> | n | s<hex> | b0 | b1 | N
        writer = table | fits | db
      -> ok <nfiles> ;; <file> ;; <file> ...
         file (table/fits) = <name> <kind> <rows: idx,idx,..> <cols: name:FMT,...> <strings: col=hex|hex|..;col=...>
         file (db)         = <tablename> <kind> <rows> <cols: name:TYPE,...> -
      -> raises            when the model says the writer raises (zero-width string column)
  gen fits <is_err> <is_uuid> <kind> <maxlen> <t> <vlen>  -> <letter> <width>     (regenerated table, raw)
  gen sql <t>                                             -> <code>
  gen cls <c>                                             -> <which>

  The partition, the FITS formats and the sqlite column types answered by `cat` are assembled from the
  REGENERATED tables (`classifyG Gen.C18.classifyWhich`, `columnFmtG Gen.C18.fitsLetter Gen.C18.fitsWidth`,
  `sqlTypeG Gen.C18.sqlCode`), which `Properties/C18.lean` proves equal to the model's.
-/
namespace Drv.C18
open Drv Aegean.Model.C18

def hexOfBytes (b : ByteArray) : String :=
  if b.size = 0 then "-" else
  String.ofList (b.data.toList.flatMap (fun x => [hexChar (x.toNat / 16), hexChar (x.toNat % 16)]))

def encS (s : Str) : String := hexOfBytes (String.ofList s).toUTF8

def pairs : List Char → Option (List (Char × Char))
  | [] => some []
  | a :: b :: r => (pairs r).map (fun l => (a, b) :: l)
  | _ => none

def decS (w : String) : Option Str :=
  if w = "-" then some [] else
  match pairs w.toList with
  | none => none
  | some ps =>
    match ps.mapM (fun (a, b) => match hexDigit? a, hexDigit? b with
        | some x, some y => some (UInt8.ofNat (x * 16 + y)) | _, _ => none) with
    | none => none
    | some bytes => (String.fromUTF8? (ByteArray.mk bytes.toArray)).map String.toList

def opsF : FloatOps Float := ⟨Float.ofInt, fun x => x.toFloat32.toFloat⟩

def parseCell (w : String) : Option (Val Float) :=
  match w.toList with
  | ['n'] => some .nan
  | ['N'] => some .none
  | ['b', '0'] => some (.bool false)
  | ['b', '1'] => some (.bool true)
  | 'i' :: r => (String.ofList r).toInt?.map .int
  | 'f' :: r => (parseFloat? (String.ofList ('x' :: r))).map .flt
  | ['s'] => some (.str [])
  | 's' :: r => (decS (String.ofList r)).map .str
  | _ => none

def idxName : Str := "#idx".toList

def parseSrc (idx : Nat) (w : String) : Option (Src Float) :=
  match w.splitOn ":" with
  | [c, cells] =>
    let k : Option (Cls × List Str) := match c with
      | "C" => some (.component, namesComponent)
      | "I" => some (.island, namesIsland)
      | "S" => some (.simple, namesSimple)
      | "O" => some (.other, [])
      | _ => none
    match k with
    | none => none
    | some (cls, names) =>
      let toks := if cells.isEmpty then [] else cells.splitOn ","
      if toks.length ≠ names.length then none else
      (toks.mapM parseCell).map (fun vs => ⟨cls, (idxName, .int idx) :: names.zip vs⟩)
  | _ => none

def parseSrcs (ws : List String) : Option (List (Src Float)) :=
  (ws.zipIdx).mapM (fun (w, i) => parseSrc i w)

def idxOf (s : Src Float) : String := match s.get idxName with | .int i => toString i | _ => "?"

def showKind : Kind → String
  | .comp => "comp" | .isle => "isle" | .simp => "simp"

def showFmt : Fmt → String
  | .L => "L" | .J => "J" | .E => "E" | .A w => s!"{w}A"

def showWriter : Writer → String
  | .ann f => "ann:" ++ encS f
  | .db => "db"
  | .table f => "table:" ++ encS f

def commaOr (l : List String) : String := if l.isEmpty then "-" else ",".intercalate l

/-- the sources that went into a file, recovered from the model's partition (same order) -/
def rowsOfKind (k : Kind) (cat : List (Src Float)) : List (Src Float) :=
  let c := classifyG Gen.C18.classifyWhich cat
  match k with
  | .comp => c.1
  | .isle => c.2.1
  | .simp => c.2.2

/-- the regenerated column decision; a letter the model does not know is shown as a zero-width `A` -/
def columnFmtGen (name : Str) (col : List (Val Float)) : Fmt :=
  (columnFmtG Gen.C18.fitsLetter Gen.C18.fitsWidth name col).getD (.A 0)

def showStrCol (c : Str × Fmt × List (Val Float)) : Option String :=
  match c.2.1 with
  | .A _ => some (encS c.1 ++ "=" ++ "|".intercalate (c.2.2.map (fun v => match v with | .str s => encS s | _ => "?")))
  | _ => none

def showFile (pinned : Bool) (fits : Bool) (cat : List (Src Float)) (f : FileOut Float) : Option String :=
  let rows := commaOr ((rowsOfKind f.kind cat).map idxOf)
  if fits then
    match fitsWrite opsF (if pinned then columnFmtPinned else columnFmtGen) f.table with
    | none => none
    | some cols =>
      let cs := commaOr (cols.map (fun c => encS c.1 ++ ":" ++ showFmt c.2.1))
      let strs := cols.filterMap showStrCol
      some s!"{encS f.name} {showKind f.kind} {rows} {cs} {if strs.isEmpty then "-" else ";".intercalate strs}"
  else
    let cs := commaOr (f.table.colnames.map (fun c => encS c ++ ":-"))
    some s!"{encS f.name} {showKind f.kind} {rows} {cs} -"

def kindOfTable (n : Str) : String :=
  if n = Kind.tableName .comp then "comp" else if n = Kind.tableName .isle then "isle" else "simp"

def showDb (cat : List (Src Float)) (t : DbTable Float) : String :=
  let k : Kind := if t.name = Kind.tableName .comp then .comp else if t.name = Kind.tableName .isle then .isle else .simp
  -- rows are identified by position in the model's partition (db rows carry no index): check lengths agree
  let srcs := rowsOfKind k cat
  let rows := if srcs.length = t.rows.length then commaOr (srcs.map idxOf) else "row-count-mismatch"
  let first : Src Float := srcs.head?.getD ⟨.other, []⟩
  let cs := commaOr (t.cols.map (fun c => encS c.1 ++ ":" ++
    (match sqlTypeG Gen.C18.sqlCode (first.get c.1) with | some ty => String.ofList ty | none => "?")))
  s!"{encS t.name} {showKind k} {rows} {cs} -"

def handle (ws : List String) : String :=
  match ws with
  | ["splitext", n] =>
    match decS n with
    | some p => s!"{encS (splitext p).1} {encS (splitext p).2}"
    | none => "bad-op"
  | ["plan", n] =>
    match decS n with
    | some p =>
      s!"{encS (extension p)} {showWriter (dispatch (extension p))} {encS (newName .comp p)} {encS (newName .isle p)} {encS (newName .simp p)}"
    | none => "bad-op"
  | ["gen", "fits", a, b, c, d, e, f] =>
    match a.toNat?, b.toNat?, c.toNat?, d.toNat?, e.toNat?, f.toNat? with
    | some a, some b, some c, some d, some e, some f =>
      s!"{Gen.C18.fitsLetter a b c d e f} {Gen.C18.fitsWidth a b c d e f}"
    | _, _, _, _, _, _ => "bad-op"
  | ["gen", "sql", t] => match t.toNat? with | some t => s!"{Gen.C18.sqlCode t}" | none => "bad-op"
  | ["gen", "cls", c] => match c.toNat? with | some c => s!"{Gen.C18.classifyWhich c}" | none => "bad-op"
  | ["single", x] =>
    match parseFloat? x with
    | some f => showFloat (opsF.single f)
    | none => "bad-op"
  | "cat" :: writer :: n :: pre :: gal :: pinned :: srcs =>
    let preO : Option (Option Str) := if pre = "~" then some none else (decS pre).map some
    match decS n, preO, parseSrcs srcs with
    | some p, some pre, some cat =>
      if writer = "db" then
        let ts := dbTables (fun x => x == -1.0) cat
        " ;; ".intercalate (s!"ok {ts.length}" :: ts.map (showDb cat))
      else
        let files := writeCatalog p (preOf pre) (gal = "1") cat
        match files.mapM (showFile (pinned = "1") (writer = "fits") cat) with
        | some ls => " ;; ".intercalate (s!"ok {files.length}" :: ls)
        | none => "raises"
    | _, _, _ => "bad-op"
  | _ => "bad-op"

end Drv.C18
