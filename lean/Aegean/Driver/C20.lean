import Aegean.Driver.Common
import Aegean.Generated.C20
import Aegean.Model.C20
import Aegean.Spec.C20

namespace Drv.C20
open Drv

def pairs : List Nat → List (Nat × Nat)
  | a :: b :: r => (a, b) :: pairs r
  | _ => []

def handle (ws : List String) : String :=
  match ws with
  | ["bounds", rows, n, i] =>
    match rows.toNat?, n.toNat?, i.toNat? with
    | some rows, some n, some i => s!"{Gen.C20.rowMin rows n i} {Gen.C20.rowMax rows n i}"
    | _, _, _ => "bad-op"
  | ["load", rows, i, n] =>   -- the hand model of the whole function on an image of `rows` rows
    match rows.toNat?, i.toInt?, n.toInt? with
    | some rows, some i, some n =>
      match Aegean.Model.C20.loadBand Gen.C20.rowMin Gen.C20.rowMax (List.range rows) i n with
      | .error .badTotal => "err badTotal"
      | .error .tooLarge => "err tooLarge"
      | .error .negative => "err negative"
      | .ok b => s!"ok {b.naxis2} {b.crpix2Shift} {showNats b.data}"
    | _, _, _ => "bad-op"
  | "spec" :: rows :: rest =>
    match rows.toNat?, rest.mapM String.toNat? with
    | some rows, some l =>
      if l.length % 2 = 0 then (if Aegean.Spec.C20.isTiling rows (pairs l) then "ok" else "violated") else "bad-op"
    | _, _ => "bad-op"
  | _ => "bad-op"

end Drv.C20
