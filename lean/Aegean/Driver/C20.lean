import Aegean.Driver.Common
import Aegean.Generated.C20
import Aegean.Model.C20
import Aegean.Spec.C20

namespace Drv.C20
open Drv

def pairs : List Nat → List (Nat × Nat)
  | a :: b :: r => (a, b) :: pairs r
  | _ => []

def genPieces : Aegean.Model.C20.Pieces :=
  { guard := Gen.C20.guard, rowMin := Gen.C20.rowMin, rowMax := Gen.C20.rowMax,
    hdrNaxis2P := Gen.C20.hdrNaxis2P, hdrCrpix2P := Gen.C20.hdrCrpix2P,
    hdrNaxis2C := Gen.C20.hdrNaxis2C, hdrCrpix2C := Gen.C20.hdrCrpix2C,
    secN := Gen.C20.secN, secL0 := Gen.C20.secL0, secL1 := Gen.C20.secL1, secRlo := Gen.C20.secRlo,
    secRhi := Gen.C20.secRhi, secClo := Gen.C20.secClo, secChi := Gen.C20.secChi,
    cmpRlo := Gen.C20.cmpRlo, cmpRhi := Gen.C20.cmpRhi, cmpClo := Gen.C20.cmpClo, cmpChi := Gen.C20.cmpChi }

def genFilePieces : Aegean.Model.C20.FilePieces :=
  { extHeader := Gen.C20.extHeader, extData := Gen.C20.extData, extCmp := Gen.C20.extCmp, scaled := Gen.C20.scaled }

/-- HDU descriptions: 7 numbers each (naxis n4 n3 rows cols crpix2 bscale; bscale 0 = no card) -/
def hdus (k : Nat) : List Int → Option (List Aegean.Model.C20.FHdu)
  | [] => some []
  | naxis :: n4 :: n3 :: rows :: cols :: crpix2 :: bs :: rest =>
    let (n4, n3, rows, cols) := (n4.toNat, n3.toNat, rows.toNat, cols.toNat)
    let data := (List.range n4).map fun a => (List.range n3).map fun b => (List.range rows).map fun r =>
      (List.range cols).map fun c => k * 1000000 + ((a * n3 + b) * rows + r) * cols + c
    match hdus (k + 1) rest with
    | none => none
    | some l => some ({ img := { naxis := naxis.toNat, naxis1 := cols, naxis2 := rows, crpix2 := crpix2, data := data },
                        bscale := if bs = 0 then none else some bs.toNat, compressed := false } :: l)
  | _ => none

def handle (ws : List String) : String :=
  match ws with
  | ["bounds", rows, n, i] =>
    match rows.toNat?, n.toNat?, i.toNat? with
    | some rows, some n, some i => s!"{Gen.C20.rowMin rows n i} {Gen.C20.rowMax rows n i}"
    | _, _, _ => "bad-op"
  | ["load", rows, i, n] =>   -- the hand model of the whole function on an image of `rows` rows
    match rows.toNat?, i.toInt?, n.toInt? with
    | some rows, some i, some n =>
      match Aegean.Model.C20.loadBand Gen.C20.rowMin Gen.C20.rowMax (List.range rows) i n with
      | .error .badTotal => "err badTotal"
      | .error .tooLarge => "err tooLarge"
      | .error .negative => "err negative"
      | .ok b => s!"ok {b.naxis2} {b.crpix2Shift} {showNats b.data}"
    | _, _, _ => "bad-op"
  | ["full", comp, naxis, n4, n3, rows, cols, crpix2, cube, i, n] =>
    -- the whole function assembled from the regenerated pieces, on an index-valued image
    match comp.toNat?, naxis.toNat?, n4.toNat?, n3.toNat?, rows.toNat?, cols.toNat?, crpix2.toInt?, cube.toNat?, i.toInt?, n.toInt? with
    | some comp, some naxis, some n4, some n3, some rows, some cols, some crpix2, some cube, some i, some n =>
      let data := (List.range n4).map fun a => (List.range n3).map fun b => (List.range rows).map fun r =>
        (List.range cols).map fun c => ((a * n3 + b) * rows + r) * cols + c
      let img : Aegean.Model.C20.Img Nat := { naxis := naxis, naxis1 := cols, naxis2 := rows, crpix2 := crpix2, data := data }
      match Aegean.Model.C20.loadFull genPieces img (comp != 0) cube i n with
      | .error (.guard k) => s!"err guard {k}"
      | .error .tooManyAxes => "err tooManyAxes"
      | .error .index => "err index"
      | .error .shape => "err shape"
      | .ok b => s!"ok {b.naxis2} {b.crpix2} {";".intercalate (b.data.map showNats)}"
    | _, _, _, _, _, _, _, _, _, _ => "bad-op"
  | "fullfile" :: hdu :: cube :: i :: n :: rest =>
    match hdu.toNat?, cube.toNat?, i.toInt?, n.toInt?, rest.mapM String.toInt? with
    | some hdu, some cube, some i, some n, some nums =>
      match hdus 0 nums with
      | none => "bad-op"
      | some file =>
        match Aegean.Model.C20.loadFullFile genPieces genFilePieces file [] hdu cube i n with
        | .error (.guard k) => s!"err guard {k}"
        | .error .tooManyAxes => "err tooManyAxes"
        | .error .index => "err index"
        | .error .shape => "err shape"
        | .ok b => s!"ok {b.naxis2} {b.crpix2} {";".intercalate (b.data.map showNats)}"
    | _, _, _, _, _ => "bad-op"
  | "spec" :: rows :: rest =>
    match rows.toNat?, rest.mapM String.toNat? with
    | some rows, some l =>
      if l.length % 2 = 0 then (if Aegean.Spec.C20.isTiling rows (pairs l) then "ok" else "violated") else "bad-op"
    | _, _ => "bad-op"
  | _ => "bad-op"

end Drv.C20
