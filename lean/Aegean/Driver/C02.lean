/-
  C02 driver: the core of Driver/C02Core.lean with the glue over the pieces regenerated from `find_islands`
  (`Gen.C02`) as the `gen` cross-check.
-/
import Aegean.Driver.C02Core
import Aegean.Generated.C02

namespace Drv.C02
open Aegean.Model.C02
def handle (ws : List String) : String :=
  handleCore (fun g lab n inside isl =>
    isl == findIslandsGen Gen.C02.seedScope Gen.C02.ownLabel Gen.C02.maskLabel g lab n inside) none ws
end Drv.C02
