import Aegean.Driver.Common
import Aegean.Generated.C17
import Aegean.Model.C17

namespace Drv.C17
open Drv Aegean.Model.C17

def floats (ws : List String) : Option (List Float) := ws.mapM parseFloat?

/-- a string sent as hex bytes (ASCII), so that leading/trailing blanks and tabs survive the line protocol -/
def unhex (s : String) : Option String :=
  let rec go : List Char → List Char → Option (List Char)
    | [], acc => some acc.reverse
    | a :: b :: r, acc =>
      match hexDigit? a, hexDigit? b with
      | some x, some y => go r (Char.ofNat (x * 16 + y) :: acc)
      | _, _ => none
    | _, _ => none
  if s == "-" then some "" else (go s.toList []).map String.ofList

def showErr : ParseErr → String
  | .index => "err index"
  | .value => "err value"

def handle (ws : List String) : String :=
  match ws with
  | "gcd" :: rest =>        -- selected value, then a, near branch, far branch
    match floats rest with
    | some [a, b, c, d] =>
      let hv := Gen.C17.havA a b c d
      let near := Gen.C17.gcdNear a b c d
      let far := Gen.C17.gcdFar a b c d
      s!"{showFloat (Gen.C17.gcdSelect hv far near)} {showFloat hv} {showFloat near} {showFloat far}"
    | _ => "bad-op"
  | "bear" :: rest =>
    match floats rest with
    | some [a, b, c, d] => showFloat (Gen.C17.bear a b c d)
    | _ => "bad-op"
  | "tra" :: rest =>
    match floats rest with
    | some [a, b, c, d] => s!"{showFloat (Gen.C17.translateRa a b c d)} {showFloat (Gen.C17.translateDec a b c d)}"
    | _ => "bad-op"
  | "vec" :: rest =>        -- independent vector formulas: distance and position angle
    match floats rest with
    | some [a, b, c, d] => s!"{showFloat (gcdVec a b c d)} {showFloat (paVec a b c d)}"
    | _ => "bad-op"
  | ["dms", neg, n] =>
    match n.toNat? with
    | some n => dmsString (neg == "1") (Gen.C17.dmsD n) (Gen.C17.dmsM n) (Gen.C17.dmsCs n)
    | none => "bad-op"
  | ["hms", k] =>
    match k.toInt? with
    | some k => let n := (Gen.C17.hmsWrapZ k).toNat; hmsString (Gen.C17.hmsH n) (Gen.C17.hmsM n) (Gen.C17.hmsCs n)
    | none => "bad-op"
  | "parse" :: kind :: rest =>
    let s := " ".intercalate rest
    match dec2dec (α := Float) Gen.C17.dec2decPos Gen.C17.dec2decNeg s with
    | .error e => showErr e
    | .ok v => if kind == "ra" then s!"ok {showFloat (Gen.C17.ra2decScale v)}" else s!"ok {showFloat v}"
  | ["parsex", kind, hx] =>    -- the same, the string given as hex bytes ("-" = empty string)
    match unhex hx with
    | none => "bad-op"
    | some s =>
      match dec2dec (α := Float) Gen.C17.dec2decPos Gen.C17.dec2decNeg s with
      | .error e => showErr e
      | .ok v => if kind == "ra" then s!"ok {showFloat (Gen.C17.ra2decScale v)}" else s!"ok {showFloat v}"
  | ["fmtx", kind, x] =>       -- the whole formatter: glue over the regenerated pieces, at Float
    match parseFloat? x with
    | some x =>
      if kind == "dms" then dec2dmsGlue Gen.C17.dmsScaled Gen.C17.dmsD Gen.C17.dmsM Gen.C17.dmsCs x
      else dec2hmsGlue Gen.C17.hmsScaled Gen.C17.hmsWrapZ Gen.C17.hmsH Gen.C17.hmsM Gen.C17.hmsCs x
    | none => "bad-op"
  | ["pdms", x] =>          -- the pinned Float formatter (negation witness model)
    match parseFloat? x with
    | some x => let (neg, d, m, cs) := pinnedDms x; dmsString neg d m cs
    | none => "bad-op"
  | ["phms", x] =>
    match parseFloat? x with
    | some x => let (h, m, cs) := pinnedHms x; hmsString h m cs
    | none => "bad-op"
  | _ => "bad-op"

end Drv.C17
