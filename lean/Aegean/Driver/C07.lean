import Aegean.Driver.Common
import Aegean.Generated.C07
import Aegean.Model.C07
import Aegean.Spec.C07

/-
  Driver for C07.
    layout <rows> <ns> <step>            regenerated width / edges, exact width, Spec verdict on them
    eff <cores> <nslice|none>            effective number of slices
    spec <rows> <ymins…> / <ymaxs…>      Spec verdict on observed regions
    trace <reset> <abort> <n> <parties> <slots> <mask> <ev…>
          ev = p1.i b1.i a1.i b2.i a2.i mk.i F.i  (hook events of stripe i; F = injected fault raised)
          answers `run <outcomes>` (the outcomes the model allows after this trace: done, exception, hang)
          or `notrun <k> <ev>` if the k-th event is not a step of the model
-/
namespace Drv.C07
open Drv Aegean.Model.C07

abbrev Key := List Phase × Barrier

def key (n : Nat) (s : State) : Key := ((List.range n).map s.ph, s.b)
def ofKey (k : Key) : State := { ph := fun i => k.1.getD i .queued, b := k.2 }

/-- search state of the trace validation: a model state plus, per stripe, how many `a1`/`a2` events it has
    logged.  Leaving a barrier happens under the barrier's lock; the hook logs `a1`/`a2` a moment later from
    another process, so the log may show it after events of other stripes that really happened later.  The
    validation therefore treats every barrier step as invisible and `a_k` as a later report of the stripe,
    which must precede whatever that stripe does next in program order. -/
abbrev DKey := Key × List Nat

/-- may stripe in phase `p` that has reported `rep` exits take its next step (program order: the `a_k`
    hook comes before `reset()`, pass 2, masking)? -/
def reported (p : Phase) (rep : Nat) : Bool :=
  match p with
  | .rst false | .pass2 => rep == 1
  | .rst true | .masking => rep == 2
  | _ => true

/-- the hook event a step emits (`none`: a step the hook cannot see) -/
def labelOf (p p' : Phase) : Option String :=
  match p, p' with
  | .queued, _ => some "p1"
  | .pass1, _ => some "b1"
  | .pass2, .atB _ => some "b2"
  | _, _ => none

def insertNew (acc : List DKey) (k : DKey) : List DKey := if acc.contains k then acc else k :: acc

/-- successors of `k` by invisible steps -/
def tauSucc (c : Cfg) (k : DKey) : List DKey :=
  let s := ofKey k.1
  (List.range c.n).filterMap (fun i =>
    if reported (s.ph i) (k.2.getD i 0) then
      match adv c s i with
      | some s' => if (labelOf (s.ph i) (s'.ph i)).isNone then some (key c.n s', k.2) else none
      | none => none
    else none)

def closure (c : Cfg) : Nat → List DKey → List DKey → List DKey
  | 0, seen, _ => seen
  | fuel + 1, seen, frontier =>
    if frontier.isEmpty then seen else
    let new := frontier.foldl (fun acc k => (tauSucc c k).foldl (fun a k' =>
      if seen.contains k' || a.contains k' then a else k' :: a) acc) []
    closure c fuel (new ++ seen) new

def close (c : Cfg) (ks : List DKey) : List DKey := closure c (12 * c.n + 2) ks ks

/-- successors of `k` by the visible event `ev` of stripe `i` -/
def visSucc (c : Cfg) (ev : String) (i : Nat) (k : DKey) : List DKey :=
  let s := ofKey k.1
  let rep := k.2.getD i 0
  if ev == "F" then
    if reported (s.ph i) rep then
      match fault c s i with
      | some s' => [(key c.n s', k.2)]
      | none => []
    else []
  else if ev == "mk" then
    (if s.ph i == .masking && rep == 2 then [k] else [])
  else if ev == "a1" then
    (if (s.ph i == .rst false || s.ph i == .pass2) && rep == 0 then [(k.1, k.2.set i 1)] else [])
  else if ev == "a2" then
    (if (s.ph i == .rst true || s.ph i == .masking) && rep == 1 then [(k.1, k.2.set i 2)] else [])
  else
    if reported (s.ph i) rep then
      match adv c s i with
      | some s' => if labelOf (s.ph i) (s'.ph i) == some ev then [(key c.n s', k.2)] else []
      | none => []
    else []

def parseEv (w : String) : Option (String × Nat) :=
  match w.splitOn "." with
  | [e, i] => i.toNat?.map (fun n => (e, n))
  | _ => none

/-- a finished execution: nothing can move and nothing is left to report -/
def classify (c : Cfg) (k : DKey) : Option String :=
  let s := ofKey k.1
  if stuck c s then
    if allDone c s then some "done"
    else if allTerminal c s then some "exception"
    else some "hang"
  else none

def runTrace (c : Cfg) (evs : List String) : String :=
  let rec go (pos : Nat) (cur : List DKey) : List String → String
    | [] =>
      let outs := (cur.filterMap (classify c)).eraseDups
      let order := ["done", "exception", "hang"].filter (fun o => outs.contains o)
      if order.isEmpty then "run unfinished" else "run " ++ "|".intercalate order
    | w :: rest =>
      match parseEv w with
      | none => "bad-op"
      | some (e, i) =>
        if i ≥ c.n then "bad-op" else
        let nxt := cur.foldl (fun acc k => (visSucc c e i k).foldl insertNew acc) []
        if nxt.isEmpty then s!"notrun {pos} {w}" else go (pos + 1) (close c nxt) rest
  go 0 (close c [(key c.n (init c), List.replicate c.n 0)]) evs

def pairUp : List Nat → List Nat → List (Nat × Nat) := List.zip

def showList (l : List Nat) : String := ",".intercalate (l.map toString)

def splitAt (ws : List String) (sep : String) : List String × List String :=
  (ws.takeWhile (· != sep), (ws.dropWhile (· != sep)).drop 1)

def handle (ws : List String) : String :=
  match ws with
  | ["layout", rows, ns, step] =>
    match rows.toNat?, ns.toNat?, step.toNat? with
    | some rows, some ns, some step =>
      if step = 0 ∨ ns = 0 then "err zero" else
      let w := Gen.C07.widthY rows ns step
      let wx := widthExact rows ns step
      let mins := Gen.C07.ymins rows ns w
      let maxs := Gen.C07.ymaxs rows ns w
      let til := if Aegean.Spec.C07.isTiling rows mins maxs then "ok" else "violated"
      s!"w={w} wx={wx} mins={showList mins} maxs={showList maxs} tiling={til}"
    | _, _, _ => "bad-op"
  | ["eff", cores, ns] =>
    match cores.toNat? with
    | some cores =>
      if ns == "none" then toString (effSlices cores none)
      else match ns.toNat? with
        | some k => toString (effSlices cores (some k))
        | none => "bad-op"
    | none => "bad-op"
  | "spec" :: rows :: rest =>
    let (a, b) := splitAt rest "/"
    match rows.toNat?, a.mapM String.toNat?, b.mapM String.toNat? with
    | some rows, some mins, some maxs => if Aegean.Spec.C07.isTiling rows mins maxs then "ok" else "violated"
    | _, _, _ => "bad-op"
  | "exitpath" :: outcome :: evs =>
    let ev? : String → Option Ev := fun w => match w with
      | "createBkg" => some .createBkg | "createRms" => some .createRms | "setup" => some .setup
      | "mapGet" => some .mapGet | "collect" => some .collect | "poolClose" => some .poolClose
      | "poolTerminate" => some .poolTerminate | "closeBkg" => some .closeBkg | "unlinkBkg" => some .unlinkBkg
      | "closeRms" => some .closeRms | "unlinkRms" => some .unlinkRms | _ => none
    match evs.mapM ev?, (if outcome == "normal" then some Outcome.normal else if outcome == "raised" then some .raised else none) with
    | some t, some o =>
      let path := if parentProg.runs.contains (t, o) then "ok" else "outside"
      let spec := if Aegean.Spec.C07.releasedOK t then "ok" else "violated"
      s!"path={path} spec={spec}"
    | _, _ => "bad-op"
  | "trace" :: reset :: abort :: n :: parties :: slots :: mask :: evs =>
    match reset.toNat?, abort.toNat?, n.toNat?, parties.toNat?, slots.toNat?, mask.toNat? with
    | some reset, some abort, some n, some parties, some slots, some mask =>
      if n = 0 ∨ n > 6 then "err size" else
      runTrace { n := n, parties := parties, slots := slots, mask := mask != 0, reset := reset != 0, abort := abort != 0 } evs
    | _, _, _, _, _, _ => "bad-op"
  | _ => "bad-op"

end Drv.C07
