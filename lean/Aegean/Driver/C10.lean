/-
  C10 driver.  Ops (all numbers decimal unless stated; pixel values / row fingerprints are hex bit
  patterns without prefix):

  file  P H W neg pole GRID NAN  b_1 … b_N  a_1 … a_N        (N = P·H·W)
        GRID: (H+2)·(W+2) characters, row-major in y, for FITS coordinates x ∈ [0, W+1], y ∈ [0, H+1]:
              '1' sky position finite and in the region, '0' finite and not in the region,
              'n' sky position not finite.   pole: what healpy says about the substituted position
        b = the array before, a = the array the implementation returned.
        →  "<ok | violated p i j | bad-shape> <model output, N hex words>"
  index H W                →  the model's index list "j i j i …"
  table neg pole CODES n fp_1 … fp_n m out_1 … out_m
        CODES: one character per input row ('1' inside, '0' outside, 'n' undefined coordinates)
        →  "<ok | violated> <model output fingerprints>"
-/
import Aegean.Driver.Common
import Aegean.Model.C10
import Aegean.Model.C10Gen
import Aegean.Spec.C10

namespace Drv.C10
open Drv Aegean.Model.C10

/-- the sentinel standing for "the position healpy is asked about instead of a non-finite one" -/
def zeroPix : Pix := (-1000000, -1000000)

structure Grid where
  H : Nat
  W : Nat
  cells : Array Char
  pole : Bool

def Grid.idx? (g : Grid) (p : Pix) : Option Nat :=
  if 0 ≤ p.1 ∧ p.1 ≤ (g.W : Int) + 1 ∧ 0 ≤ p.2 ∧ p.2 ≤ (g.H : Int) + 1 then
    some (p.2.toNat * (g.W + 2) + p.1.toNat)
  else none

def Grid.cell (g : Grid) (p : Pix) : Char :=
  match g.idx? p with
  | some k => g.cells.getD k '?'
  | none => '?'

def Grid.finite (g : Grid) (p : Pix) : Bool := g.cell p != 'n'
def Grid.member (g : Grid) (p : Pix) : Bool := if p == zeroPix then g.pole else g.cell p == '1'
/-- region membership of the sky position of a FITS pixel coordinate, through the model of
    `Region.sky_within` -/
def Grid.inside (g : Grid) (p : Pix) : Bool := skyWithin g.finite g.member zeroPix p

def showHexs (l : List Nat) : String := " ".intercalate (l.map toHex16)

def parseBool? (s : String) : Option Bool :=
  if s = "1" then some true else if s = "0" then some false else none

def handleFile (P H W : Nat) (neg pole : Bool) (grid : String) (nan : Nat) (vals : List Nat) : String :=
  let N := P * (H * W)
  if H = 0 ∨ W = 0 ∨ grid.length ≠ (H + 2) * (W + 2) ∨ vals.length ≠ 2 * N then "bad-op" else
  let g : Grid := { H := H, W := W, cells := grid.toList.toArray, pole := pole }
  -- every coordinate the model hands to the WCS must be one the harness evaluated
  if ((indexesP genPieces H W).map (fun p => pix2world (fun q => q) genPieces.origin
        (p.1 + genPieces.shift, p.2 + genPieces.shift))).any (fun p => g.cell p == '?') then
    "oracle-out-of-range"
  else
    let before := vals.take N
    let after := vals.drop N
    -- the model assembled from the pieces regenerated from the tree under test
    let model := maskFileP genPieces (fun p => (p.2, p.1)) nan 0 (fun p => p) g.inside neg P H W before
    let verdict := match Aegean.Spec.C10.checkFile nan (fun p => p) g.inside neg P H W before after with
      | none => "ok"
      | some (p, i, j) => if p = P ∧ i = H ∧ j = W then "bad-shape" else s!"violated {p} {i} {j}"
    verdict ++ " | " ++ showHexs model

def lookupCode (fps : List Nat) (codes : List Char) (fp : Nat) : Char :=
  match (fps.zip codes).find? (fun x => x.1 == fp) with
  | some x => x.2
  | none => 'n'

def handleTable (neg pole : Bool) (codes : String) (fps outs : List Nat) : String :=
  if codes.length ≠ fps.length then "bad-op" else
  let cl := codes.toList
  -- the "coordinate" of a row is its code; `none` plays the substituted position
  let coord : Nat → Option Char := fun fp => some (lookupCode fps cl fp)
  let finite : Option Char → Bool := fun c => c != some 'n'
  let member : Option Char → Bool := fun c => match c with | none => pole | some ch => ch == '1'
  let inside := skyWithin finite member none
  let model := maskTableP genPieces inside coord neg fps
  let verdict := if Aegean.Spec.C10.checkTable inside coord neg fps outs then "ok" else "violated"
  verdict ++ " | " ++ showHexs model

def handle (ws : List String) : String :=
  match ws with
  | ["index", H, W] =>
    match H.toNat?, W.toNat? with
    | some H, some W => showInts ((indexesP genPieces H W).flatMap (fun p => [p.1 + genPieces.shift - genPieces.origin, p.2 + genPieces.shift - genPieces.origin]))
    | _, _ => "bad-op"
  | "file" :: P :: H :: W :: neg :: pole :: grid :: nan :: rest =>
    match P.toNat?, H.toNat?, W.toNat?, parseBool? neg, parseBool? pole, parseHex? nan, rest.mapM parseHex? with
    | some P, some H, some W, some neg, some pole, some nan, some vals =>
      handleFile P H W neg pole grid nan vals
    | _, _, _, _, _, _, _ => "bad-op"
  | "table" :: neg :: pole :: codes :: n :: rest =>
    match parseBool? neg, parseBool? pole, n.toNat? with
    | some neg, some pole, some n =>
      let codes := if codes = "-" then "" else codes
      match (rest.take n).mapM parseHex?, rest.drop n with
      | some fps, m :: outs =>
        match m.toNat?, outs.mapM parseHex? with
        | some m, some outs =>
          if fps.length = n ∧ outs.length = m then handleTable neg pole codes fps outs else "bad-op"
        | _, _ => "bad-op"
      | _, _ => "bad-op"
    | _, _, _ => "bad-op"
  | _ => "bad-op"

end Drv.C10
