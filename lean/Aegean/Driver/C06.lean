/-
  C06 driver: runs the tabulated model (`Aegean.Model.C06.run`) at `Float`.

  requests (one per line; a pixel is `x<16 hex digits>` or `n` for non-finite)
    clip <reps> <pix>*                                  -> `none` | `<mean> <std>`
    bane <own|all> <mask 0|1> R C gy gx bY bX e ns (ymin ymax)*ns <pix>*(R*C)
                                                         -> `ok <pix>*(R*C) <pix>*(R*C)`   (bkg then rms)
    margin <same arguments as bane>                     -> `<float>`: the smallest relative distance of any value
                                                            from a clipping threshold over all nodes and both passes
                                                            (used by the harness to recognise rounding ties)
    genbox r c bY bX dn nc ymin ymax nr                 -> rmin rmax cmin cmax data_row_min data_row_max (Gen.C06)
    dec <n> <f>                                         -> the map index of every row (column) of a compressed file
  anything else / malformed -> `bad-op`
-/
import Aegean.Driver.Common
import Aegean.Model.C06
import Aegean.Generated.C06

namespace Drv.C06
open Drv Aegean.Model.C06

def parsePix? (s : String) : Option (Option Float) :=
  if s = "n" then some none else (parseFloat? s).map some

def showPix : Option Float → String
  | none => "n"
  | some f => if f.isNaN || f.isInf then "n" else showFloat f

def mkImg (C : Nat) (px : Array (Option Float)) (R : Nat) : Img Float :=
  fun y x => if y < R ∧ x < C then (px[y * C + x]?).getD none else none

def parseStripes : Nat → List Nat → Option (List Stripe)
  | 0, [] => some []
  | n + 1, a :: b :: r => (parseStripes n r).map (fun l => ⟨a, b⟩ :: l)
  | _, _ => none

structure Job where
  mode : Mode
  mask : Bool
  G : Geom
  stripes : List Stripe
  img : Img Float

def parseJob (ws : List String) : Option Job :=
  match ws with
  | mode :: mask :: r :: c :: gy :: gx :: bY :: bX :: e :: ns :: rest =>
    match (if mode = "own" then some Mode.own else if mode = "all" then some Mode.all else none),
          (if mask = "1" then some true else if mask = "0" then some false else none),
          [r, c, gy, gx, bY, bX, e, ns].mapM String.toNat? with
    | some mode, some mask, some [r, c, gy, gx, bY, bX, e, ns] =>
      if gy = 0 ∨ gx = 0 then none else
      match (rest.take (2 * ns)).mapM String.toNat? with
      | none => none
      | some sl =>
        match parseStripes ns sl, (rest.drop (2 * ns)).mapM parsePix? with
        | some stripes, some px =>
          if px.length = r * c then
            some { mode := mode, mask := mask, G := ⟨r, c, gy, gx, bY, bX, e⟩, stripes := stripes,
                   img := mkImg c px.toArray r }
          else none
        | _, _ => none
    | _, _, _ => none
  | _ => none

def showRows (l : List (List (Option Float))) : String :=
  " ".intercalate (l.map fun row => " ".intercalate (row.map showPix))

/-! margin of the clipping decisions (Float only; mirrors `clipLoop`) -/

def relDist (m s x : Float) : Float :=
  let lo := m - s * 3.0
  let hi := m + s * 3.0
  let d := if (x - lo).abs < (x - hi).abs then (x - lo).abs else (x - hi).abs
  d / (m.abs + s + 1e-300)

def clipMargin : Nat → List Float → Float → Float → Float → Float
  | 0, _, _, _, acc => acc
  | fuel + 1, l, m, s, acc =>
    let acc := l.foldl (fun a x => let d := relDist m s x; if d < a then d else a) acc
    let l' := l.filter (keep m s)
    if l'.length = 0 then acc
    else if l'.length = l.length then acc
    else clipMargin fuel l' (mean l') (std l') acc

def listMargin (arr : List (Option Float)) : Float :=
  let l := arr.filterMap id
  if l.length = 0 then 1.0 else clipMargin 10 l (mean l) (std l) 1.0

def passMargin (G : Geom) (stripes : List Stripe) (dOf : Stripe → Img Float) : Float :=
  stripes.foldl (fun acc S =>
    (List.range (G.nNodeR S)).foldl (fun acc k =>
      (List.range G.nNodeC).foldl (fun acc j =>
        let d := listMargin (boxvals G (G.dn S) (dOf S) (G.nodeR S k) (G.nodeC j))
        if d < acc then d else acc) acc) acc) 1.0

def jobMargin (J : Job) : Float :=
  let tB := passTab J.G J.stripes Prod.fst (fun S => cut J.G S J.img)
  let B : Img Float := tB.get (bkgFn J.G J.stripes J.img)
  let m1 := passMargin J.G J.stripes (fun S => cut J.G S J.img)
  let m2 := passMargin J.G J.stripes (fun S => d2Fn J.mode J.G S J.img B)
  if m1 < m2 then m1 else m2

def handle (ws : List String) : String :=
  match ws with
  | "clip" :: reps :: rest =>
    match reps.toNat?, rest.mapM parsePix? with
    | some reps, some l =>
      match sigmaclip (α := Float) reps l with
      | none => "none"
      | some (m, s) => s!"{showFloat m} {showFloat s}"
    | _, _ => "bad-op"
  | "bane" :: rest =>
    match parseJob rest with
    | some J =>
      let o := Aegean.Model.C06.run J.mode J.mask J.G J.stripes J.img
      s!"ok {showRows o.bkg} {showRows o.rms}"
    | none => "bad-op"
  | "genbox" :: rest =>     -- the regenerated box bounds and loaded rows: r c bY bX dn nc ymin ymax nr
    match rest.mapM String.toNat? with
    | some [r, c, bY, bX, dn, nc, ymin, ymax, nr] =>
      let i : List Int := [(Gen.C06.boxRMin r c bY bX dn nc : Int), (Gen.C06.boxRMax r c bY bX dn nc : Int),
        (Gen.C06.boxCMin r c bY bX dn nc : Int), (Gen.C06.boxCMax r c bY bX dn nc : Int),
        (Gen.C06.dataRowMin ymin ymax bY nr : Int), (Gen.C06.dataRowMax ymin ymax bY nr : Int)]
      showInts i
    | _ => "bad-op"
  | ["dec", n, f] =>      -- file index -> map index of a compressed output, for every file row/column
    match n.toNat?, f.toNat? with
    | some n, some f => if f = 0 then "bad-op" else showNats ((List.range ((n + f - 1) / f + 1)).map (decIdx n f))
    | _, _ => "bad-op"
  | "margin" :: rest =>
    match parseJob rest with
    | some J => showFloat (jobMargin J)
    | none => "bad-op"
  | _ => "bad-op"

end Drv.C06
