/-
  C11 — Region-restricted finding = unrestricted finding filtered by island membership.

  Theorems about `findRestricted` / `findUnrestricted` (C02's model of the repaired `find_islands`
  with and without `region`), for every grid, every flood/seed mask, every labelling satisfying
  `IsLabelling` (certified per case by C02's verified checker) and **every** predicate
  `f : Px → Bool` ("the centre of this pixel is inside the region": any region, any depth, any
  WCS — those are oracles evaluated by the harness).

  What the model cannot carry: "with identical fitted values".  In the code the fit of an island is
  a function of the island (box, mask), the image, the noise map and the PSF only
  (`fit_is_local`, by construction of `find_sources_in_image`, which maps a per-island routine
  over the list returned by `find_islands`); `restricted_eq_filter` shows the restricted list is a
  sublist of the unrestricted one with *equal* entries, and the thorough tier of the harness
  compares the fitted values of `find_sources_in_image(mask=…)` with the filtered unrestricted run.
-/
import Aegean.Proofs.C11
import Aegean.Generated.C11

set_option linter.unusedSimpArgs false

namespace Aegean.Properties.C11
open Aegean.Model.C02 Aegean.Model.C11 Aegean.Spec.C02 Aegean.Proofs.C02 Aegean.Proofs.C11

section theorems
variable {g : Grid} {lab : Px → Nat} {n : Nat}

/-- **restricted_eq_filter** — `find_islands` with a region returns exactly the islands of the
    unrestricted run that have at least one own pixel inside the region: same islands (box, pixel
    set, mask frame), same order, nothing else. -/
theorem restricted_eq_filter (hl : IsLabelling g lab n) (f : Px → Bool) :
    findRestricted g lab n f = filterSpec g lab n f := by
  unfold findRestricted filterSpec findUnrestricted findIslands
  apply filterMap_filter_pointwise
  intro k _
  exact islandOf_region hl f (Nat.succ_ne_zero k)

/-- **inside_never_lost** — an island of the unrestricted run all of whose pixels are inside the
    region is reported by the restricted run -/
theorem inside_never_lost (hl : IsLabelling g lab n) (f : Px → Bool) {I : Island}
    (hI : I ∈ findUnrestricted g lab n) (hin : ∀ p ∈ I.pixels, f p = true) :
    I ∈ findRestricted g lab n f := by
  rw [restricted_eq_filter hl f, filterSpec, List.mem_filter]
  refine ⟨hI, ?_⟩
  cases hp : I.pixels with
  | nil =>
    exfalso
    obtain ⟨k, hk, hk'⟩ := List.mem_filterMap.1 hI
    simp only [islandOf, Option.bind_eq_some_iff, islandIn] at hk'
    obtain ⟨fb, _, h⟩ := hk'
    split at h
    · simp only [Option.map_eq_some_iff] at h
      obtain ⟨b, hb, rfl⟩ := h
      simp only at hp
      rw [hp] at hb; cases hb
    · cases h
  | cons p ps =>
    simp only [touches, hp, List.any_cons]
    rw [hin p (by rw [hp]; exact List.mem_cons_self)]
    rfl

/-- **outside_never_appears** — an island none of whose pixels is inside the region is never
    reported by the restricted run -/
theorem outside_never_appears (hl : IsLabelling g lab n) (f : Px → Bool) {I : Island}
    (hout : ∀ p ∈ I.pixels, f p = false) : I ∉ findRestricted g lab n f := by
  rw [restricted_eq_filter hl f, filterSpec, List.mem_filter]
  rintro ⟨_, ht⟩
  obtain ⟨p, hp, hf⟩ := List.any_eq_true.1 ht
  rw [hout p hp] at hf; cases hf

/-- a restricted run never reports anything the unrestricted run does not, and keeps the order -/
theorem restricted_sublist (hl : IsLabelling g lab n) (f : Px → Bool) :
    (findRestricted g lab n f).Sublist (findUnrestricted g lab n) := by
  rw [restricted_eq_filter hl f]; exact List.filter_sublist

/-- **whole_image_region_noop** — a region containing every pixel centre of the image changes
    nothing -/
theorem whole_image_region_noop (hl : IsLabelling g lab n) (f : Px → Bool)
    (hall : ∀ p, g.inGrid p = true → f p = true) :
    findRestricted g lab n f = findUnrestricted g lab n := by
  rw [restricted_eq_filter hl f, filterSpec, List.filter_eq_self]
  intro I hI
  obtain ⟨k, hk, hk'⟩ := List.mem_filterMap.1 hI
  obtain ⟨hpix, _, ⟨p, hp, _⟩, _⟩ := islandOf_some hl (Nat.succ_ne_zero k) hk'
  exact List.any_eq_true.2 ⟨p, hp, hall p ((hpix p).1 hp).1⟩


/-- membership form of `restricted_eq_filter`: reported with the region iff reported without it
    and some own pixel is inside -/
theorem mem_restricted_iff (hl : IsLabelling g lab n) (f : Px → Bool) (I : Island) :
    I ∈ findRestricted g lab n f ↔ I ∈ findUnrestricted g lab n ∧ ∃ p ∈ I.pixels, f p = true := by
  rw [restricted_eq_filter hl f, filterSpec, List.mem_filter, touches, List.any_eq_true]

/-- **restricted_eq_spec** — the property in its own terms: a pixel set is reported by the
    restricted run iff it is a seeded 8-connected flood group (C02's Spec) with at least one of
    its pixels inside the region -/
theorem restricted_eq_spec (hl : IsLabelling g lab n) (f : Px → Bool) (S : Px → Prop) :
    (∃ I ∈ findRestricted g lab n f, ∀ p, p ∈ I.pixels ↔ S p) ↔
      (IsIsland g S ∧ ∃ q, S q ∧ f q = true) := by
  constructor
  · rintro ⟨I, hI, hS⟩
    obtain ⟨hU, q, hq, hf⟩ := (mem_restricted_iff hl f I).1 hI
    exact ⟨(islands_eq_spec_core hl S).1 ⟨I, hU, hS⟩, q, (hS q).1 hq, hf⟩
  · rintro ⟨hS, q, hq, hf⟩
    obtain ⟨I, hI, hp⟩ := (islands_eq_spec_core hl S).2 hS
    exact ⟨I, (mem_restricted_iff hl f I).2 ⟨hI, q, (hp q).2 hq, hf⟩, hp⟩

end theorems

/-! ### Non-vacuity and negation witness: a 1×4 island in row 0, columns 2–5, region = columns ≥ 4 -/

namespace Example
def g : Grid := { H := 3, W := 7, A := fun p => p.1 == 0 && 2 ≤ p.2 && p.2 ≤ 5, Sd := fun p => p == (0, 2) }
def lab : Px → Nat := fun p => if g.A p then 1 else 0
def cert : Cert := { parent := fun p => (p.1, p.2 - 1), depth := fun p => p.2, root := fun _ => (0, 2) }
def region : Px → Bool := fun p => 4 ≤ p.2

example : IsLabelling g lab 1 := Aegean.Proofs.C02.checkLabelling_sound (cert := cert) (by decide +kernel)
/-- the island straddles the region edge and is kept … -/
example : findRestricted g lab 1 region =
    [{ box := ⟨0, 1, 2, 6⟩, pixels := [(0, 2), (0, 3), (0, 4), (0, 5)], frame := ⟨0, 1, 2, 6⟩ }] := by
  decide +kernel
/-- … and a region that misses it drops it -/
example : findRestricted g lab 1 (fun p => 6 ≤ p.2) = [] := by decide +kernel
/-- the pinned test (crossed offsets, origin 1) probes column 1 only and drops the island -/
example : pinnedTouches g ⟨0, 1, 2, 6⟩ (fun q => 4 ≤ q.2) = false := by decide +kernel
end Example

/-! ### Obligations on the region probe regenerated from `find_islands` (translator/targets/C11.py → `Gen.C11`) -/

section regenerated
open Gen.C11

/-- **probe_is_pixel_centre** — the position handed to `pix2world(…, origin)` for the island pixel at offsets
    `(r, c)` of a box starting at row `row0`, column `col0` is, as a 0-based FITS position, `(x, y) = (col0 + c,
    row0 + r)`: the centre of that pixel (no crossed offsets, no row/column swap, origin consistent) -/
theorem probe_is_pixel_centre (r c row0 col0 : Nat) :
    (probeX r c row0 col0 : Int) - (probeOrigin r c row0 col0 : Int) = (col0 : Int) + c ∧
    (probeY r c row0 col0 : Int) - (probeOrigin r c row0 col0 : Int) = (row0 : Int) + r := by
  constructor <;> simp [probeX, probeY, probeOrigin, probeXHand, probeYHand, probeOriginHand] <;> omega

/-- the probed pixels are the island's own pixels -/
theorem probe_scope_own (r c row0 col0 : Nat) : probeScope r c row0 col0 = 1 := by
  simp [probeScope, probeScopeHand]

/-- **probe_uses_full_wcs** — the sky position of a pixel centre is taken from the FULL pixel → sky transformation
    (`all_pix2world`: core WCS plus SIP / distortion terms), the one `WCSHelper.pix2sky` uses for source
    positions; with `wcs_pix2world` a SIP header shifts the probed positions by the distortion -/
theorem probe_uses_full_wcs (r c row0 col0 : Nat) : probeFull r c row0 col0 = 1 := by
  simp [probeFull, probeFullHand]

/-- **regenerated_region_eq** — `find_islands(region=…)` assembled from the regenerated probe (glue
    `findRestrictedSky`; `sky (x, y)` = "the 0-based FITS position (x, y) is inside the region") is the model
    `findRestricted` with `inside (row, col) := sky (col, row)` -/
theorem regenerated_region_eq (sky : Int × Int → Bool) (g : Grid) (lab : Px → Nat) (n : Nat) :
    findRestrictedSky probeX probeY probeOrigin sky g lab n =
      findRestricted g lab n (fun p => sky ((p.2 : Int), (p.1 : Int))) :=
  findRestrictedSky_eq (fun r c a b => (probe_is_pixel_centre r c a b).1)
    (fun r c a b => (probe_is_pixel_centre r c a b).2) sky g lab n

/-- **restricted_eq_filter_regenerated** — the headline theorem about the assembled regenerated probe -/
theorem restricted_eq_filter_regenerated {g : Grid} {lab : Px → Nat} {n : Nat} (hl : IsLabelling g lab n)
    (sky : Int × Int → Bool) :
    findRestrictedSky probeX probeY probeOrigin sky g lab n =
      filterSpec g lab n (fun p => sky ((p.2 : Int), (p.1 : Int))) := by
  rw [regenerated_region_eq]; exact restricted_eq_filter hl _

/-- non-vacuity / negation witness: with crossed offsets and origin 1 (the pinned probe) the glue drops the
    straddling bar of `Example`, with the regenerated probe it keeps it -/
example : findRestrictedSky (fun r _ _ col0 => r + col0) (fun _ c row0 _ => c + row0) (fun _ _ _ _ => 1)
      (fun q => decide (4 ≤ q.1)) Example.g Example.lab 1 = [] ∧
    (findRestrictedSky probeX probeY probeOrigin (fun q => decide (4 ≤ q.1)) Example.g Example.lab 1).length = 1 := by
  decide +kernel

end regenerated

end Aegean.Properties.C11
