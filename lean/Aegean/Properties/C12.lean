/-
  C12 — Region exports describe exactly the region's sky area.

  `Gen.C12.encode` / `Gen.C12.levels` are regenerated from `Region._uniq` on every run; the
  theorems below are the obligations they must meet.  `uniq_covers` discharges "whatever
  operations or queries preceded the export" through C08's invariant (`Reachable r → Valid r`).
  File formats (FITS table, DS9 text, pickle) are tied by `harness/corr_C12.py`.
-/
import Aegean.Model.C12
import Aegean.Model.C12Hand
import Aegean.Spec.C12
import Aegean.Proofs.C12Nuniq
import Aegean.Properties.C08

namespace Aegean.Properties.C12
open Aegean.Model.C08 Aegean.Model.C12 Aegean.Spec.C12 Aegean.Proofs.C08

/-! ### obligations on the regenerated definitions -/

/-- the regenerated encoder is NUNIQ: `4·4^d + x`.  Written to survive harmless rewrites of the source (renamed
    locals, hoisted offset, `4*4**d`, `x + …`) and the hand fallback used when `_uniq` is UNTRANSLATABLE. -/
theorem encode_eq (d x : Nat) : Gen.C12.encode d x = 4 ^ (d + 1) + x := by
  first
    | rfl
    | (simp only [Gen.C12.encode, encodeHand]; done)
    | (simp only [Gen.C12.encode, encodeHand]; omega)
    | (simp only [Gen.C12.encode, encodeHand, Nat.pow_succ]; omega)
    | (simp only [Gen.C12.encode, encodeHand]; rw [Nat.pow_succ]; omega)

/-- the regenerated loop visits exactly the levels `1 … maxdepth` -/
theorem levels_spec (m d : Nat) : d ∈ Gen.C12.levels m ↔ (1 ≤ d ∧ d ≤ m) := by
  simp only [Gen.C12.levels, levelsHand, Py.range, Nat.one_ne_zero, if_false, Nat.div_one, Nat.mul_one, List.mem_map,
    List.mem_range]
  constructor
  · rintro ⟨k, hk, rfl⟩
    omega
  · rintro ⟨h1, h2⟩
    exact ⟨d - 1, by omega, by omega⟩

/-- the regenerated level loop of `write_reg` visits exactly the levels `1 … maxdepth` -/
theorem regLevels_spec (m d : Nat) : d ∈ Gen.C12.regLevels m ↔ (1 ≤ d ∧ d ≤ m) := by
  simp only [Gen.C12.regLevels, regLevelsHand, Py.range, Nat.one_ne_zero, if_false, Nat.div_one, Nat.mul_one, List.mem_map,
    List.mem_range]
  constructor
  · rintro ⟨k, hk, rfl⟩
    omega
  · rintro ⟨h1, h2⟩
    exact ⟨d - 1, by omega, by omega⟩

/-- the regenerated value of the MOCORDER card is the region depth -/
theorem mocOrderOf_eq (m : Nat) : Gen.C12.mocOrderOf m = m := by
  first
    | rfl
    | (simp only [Gen.C12.mocOrderOf, mocOrderHand]; done)
    | (simp only [Gen.C12.mocOrderOf, mocOrderHand]; omega)

/-! ### the property -/

/-- **decode_encode**: the standard decoder recovers (order, pixel) from the exported number, for
    every valid pixel of every order -/
theorem decode_encode {d p : Nat} (hp : p < 12 * 4 ^ d) : decode (Gen.C12.encode d p) = (d, p) := by
  rw [encode_eq]; exact Aegean.Proofs.C12.decode_encode hp

/-- **encode_injective**: two valid pixels (of any orders) never share a NUNIQ number -/
theorem encode_injective {d p d' p' : Nat} (hp : p < 12 * 4 ^ d) (hp' : p' < 12 * 4 ^ d')
    (h : Gen.C12.encode d p = Gen.C12.encode d' p') : d = d' ∧ p = p' := by
  rw [encode_eq, encode_eq] at h; exact Aegean.Proofs.C12.encode_injective hp hp' h

theorem mem_insertSorted {a x : Nat} : ∀ {l : List Nat}, x ∈ insertSorted a l ↔ (x = a ∨ x ∈ l)
  | [] => by simp [insertSorted]
  | b :: l => by
    by_cases h : a ≤ b
    · simp [insertSorted, h]
    · simp only [insertSorted, if_neg h, List.mem_cons, mem_insertSorted (l := l)]
      constructor
      · rintro (h | h | h)
        · exact Or.inr (Or.inl h)
        · exact Or.inl h
        · exact Or.inr (Or.inr h)
      · rintro (h | h | h)
        · exact Or.inr (Or.inl h)
        · exact Or.inl h
        · exact Or.inr (Or.inr h)

theorem mem_isort {x : Nat} : ∀ {l : List Nat}, x ∈ isort l ↔ x ∈ l
  | [] => by simp [isort]
  | a :: l => by simp only [isort, mem_insertSorted, mem_isort (l := l), List.mem_cons]

theorem mem_uniq {r : Region} {u : Nat} :
    u ∈ uniq r ↔ ∃ d, (1 ≤ d ∧ d ≤ r.m) ∧ ∃ p, p ∈ r.pd d ∧ Gen.C12.encode d p = u := by
  simp only [uniq, uniqWith, mem_isort, List.mem_flatMap, List.mem_map, levels_spec]

/-- **uniq_decodes_to_pixeldict**: decoding the exported list yields exactly the stored pixels,
    level by level — nothing lost (in particular not the pixels at `maxdepth`, which is all there
    is after a demoting query), nothing invented -/
theorem uniq_decodes_to_pixeldict {r : Region} (hv : Valid r) (d p : Nat) :
    (∃ u, u ∈ uniq r ∧ decode u = (d, p)) ↔ p ∈ r.pd d := by
  constructor
  · rintro ⟨u, hu, hdec⟩
    rw [mem_uniq] at hu
    obtain ⟨d', _, p', hp', rfl⟩ := hu
    rw [decode_encode (hv.range _ _ hp').2.2] at hdec
    injection hdec with h1 h2
    subst h1; subst h2; exact hp'
  · intro hp
    have h := hv.range _ _ hp
    exact ⟨Gen.C12.encode d p, mem_uniq.2 ⟨d, ⟨h.1, h.2.1⟩, p, hp, rfl⟩, decode_encode h.2.2⟩

/-- **uniq_covers**: the sky described by the exported MOC (each decoded cell standing for the
    deepest-level pixels below it) is exactly the region's covered set `abs r` -/
theorem uniq_covers {r : Region} (hv : Valid r) (q : Nat) :
    (∃ u, u ∈ uniq r ∧ cellCovers r.m u q) ↔ abs r q := by
  constructor
  · rintro ⟨u, hu, h1, h2, h3⟩
    have := (uniq_decodes_to_pixeldict hv (decode u).1 (decode u).2).1 ⟨u, hu, rfl⟩
    exact ⟨(decode u).1, h1, h2, by unfold covP; rw [h3]; exact this⟩
  · rintro ⟨d, h1, h2, hc⟩
    obtain ⟨u, hu, hdec⟩ := (uniq_decodes_to_pixeldict hv d _).2 hc
    refine ⟨u, hu, ?_⟩
    unfold cellCovers
    rw [hdec]
    exact ⟨h1, h2, rfl⟩

/-- … for every reachable region: whatever operations or queries preceded the export -/
theorem uniq_covers_reachable {r : Region} (h : Aegean.Properties.C08.Reachable r) (q : Nat) :
    (∃ u, u ∈ uniq r ∧ cellCovers r.m u q) ↔ abs r q :=
  uniq_covers (Aegean.Properties.C08.reachable_inv h).1 q

/-- the export of a demoted region (after `get_demoted` / `sky_within`) still describes the same sky -/
theorem uniq_covers_after_query {r : Region} (hv : Valid r) (q : Nat) :
    (∃ u, u ∈ uniq (demoteAll r) ∧ cellCovers r.m u q) ↔ abs r q := by
  obtain ⟨v, m', _, _, a⟩ := demoteAll_spec hv
  rw [← a q, ← m']
  exact uniq_covers v q

/-- **mocorder**: the stated order is the region depth, and no exported cell is deeper -/
theorem mocorder {r : Region} (hv : Valid r) {u : Nat} (hu : u ∈ uniq r) :
    mocOrder r = r.m ∧ 1 ≤ (decode u).1 ∧ (decode u).1 ≤ mocOrder r := by
  rw [mem_uniq] at hu
  obtain ⟨d, hd, p, hp, rfl⟩ := hu
  rw [decode_encode (hv.range _ _ hp).2.2]
  exact ⟨mocOrderOf_eq r.m, hd.1, by rw [show mocOrder r = r.m from mocOrderOf_eq r.m]; exact hd.2⟩

/-- **reg_polys**: the DS9 export has one polygon per stored pixel (and only those) -/
theorem reg_polys {r : Region} (hv : Valid r) (d p : Nat) : (d, p) ∈ regPolys r ↔ p ∈ r.pd d := by
  simp only [regPolys, List.mem_flatMap, regLevels_spec, List.mem_map, Prod.mk.injEq]
  constructor
  · rintro ⟨d', _, p', hp', rfl, rfl⟩; exact hp'
  · intro hp
    have h := hv.range _ _ hp
    exact ⟨d, ⟨h.1, h.2.1⟩, p, hp, rfl, rfl⟩

/-- **save_load**: `load(save(r))` is `r` (pickle is trusted to keep values and the aliasing) -/
theorem save_load (r : Region) : step r .saveLoad = .ok (r, .none) := rfl

/-! ### non-vacuity and the pinned defect -/

example : uniq { m := 3, pd := fun d => if d = 2 then [5] else if d = 3 then [9, 40] else [], cached := false }
    = [69, 265, 296] := by decide +kernel

/-- the pinned loop `range(1, maxdepth)` never visits `maxdepth`: `Region(4)` with pixel 9 at level 4
    exports nothing -/
example : uniqWith Gen.C12.encode (fun m => Py.range 1 m 1)
    { m := 4, pd := fun d => if d = 4 then [9] else [], cached := false } = [] := by decide +kernel

end Aegean.Properties.C12
