/-
  C06 — BANE background/noise maps obey the estimator contract.

  Theorems about the hand model `Aegean.Model.C06` (tied to `AegeanTools/BANE.py` by the differential
  correspondence `harness/corr_C06.py`), interpreted at ℝ.  `Mode.all`, `Geom.e = 0` is the repaired code
  (fixes/C06-01, C06-02); `Mode.own`, `Geom.e = 1` the pinned one.  Images are total functions
  `Nat → Nat → Option ℝ` (`none` = non-finite pixel); `shiftImg k`, `scaleImg k` add / multiply every
  finite pixel.  All statements are for every image, every grid/box/stripe list, every pixel.

  Not a theorem (see PARTIAL in the harness): "for stationary Gaussian noise of mean m and rms s the maps
  equal m and s to within sampling error" — a statistical statement, sampled by the harness.
-/
import Aegean.Proofs.C06Grid
import Aegean.Generated.C06

namespace Aegean.Properties.C06
open Aegean.Model.C06 Aegean.Proofs.C06

/-! ### sigma clipping (re-exported from Proofs/C06Clip) -/

/-- **clip_const**: a list whose finite entries all equal `c` clips to mean `c`, std `0` -/
theorem clip_const (n : Nat) (arr : List (Option ℝ)) (c : ℝ)
    (h : ∀ v, some v ∈ arr → v = c) (hne : ∃ v, some v ∈ arr) : sigmaclip n arr = some (c, 0) :=
  sigmaclip_const n arr c h hne

/-- **clip_shift**: adding `c` shifts the mean by `c` and leaves the std unchanged -/
theorem clip_shift (n : Nat) (arr : List (Option ℝ)) (c : ℝ) :
    sigmaclip n (arr.map (Option.map (· + c))) = (sigmaclip n arr).map (fun p => (p.1 + c, p.2)) :=
  sigmaclip_shift n arr c

/-- **clip_scale**: multiplying by `k` (any sign, also 0) gives `(k·m, |k|·s)` -/
theorem clip_scale (n : Nat) (arr : List (Option ℝ)) (k : ℝ) :
    sigmaclip n (arr.map (Option.map (k * ·))) = (sigmaclip n arr).map (fun p => (k * p.1, |k| * p.2)) :=
  sigmaclip_scale n arr k

/-- **clip_mean_in_range / clip_std_bounds**: `a ≤ mean ≤ b` and `0 ≤ std ≤ (b − a)/2 ≤ b − a` whenever
    the finite inputs lie in `[a, b]` -/
theorem clip_mean_in_range (n : Nat) (arr : List (Option ℝ)) (a b : ℝ)
    (h : ∀ v, some v ∈ arr → a ≤ v ∧ v ≤ b) (p : ℝ × ℝ) (hp : sigmaclip n arr = some p) :
    a ≤ p.1 ∧ p.1 ≤ b ∧ 0 ≤ p.2 ∧ p.2 ≤ (b - a) / 2 ∧ p.2 ≤ b - a := by
  have := sigmaclip_range n arr a b h p hp
  refine ⟨this.1, this.2.1, this.2.2.1, this.2.2.2, ?_⟩
  linarith [this.1, this.2.1, this.2.2.2]

/-! ### interpolation -/

/-- **interp_convex**: the interpolated value is a convex combination of the node values (range preservation) -/
theorem interp_convex (G : Geom) (S : Stripe) (v : Nat → Nat → Option ℝ) (r c : Nat) (lo hi : ℝ)
    (hgy : 0 < G.gy) (hgx : 0 < G.gx) (hr0 : G.r0 S ≤ r) (hr1 : r < G.rEnd S) (hc : c < G.C)
    (hv : ∀ i j w, v i j = some w → lo ≤ w ∧ w ≤ hi)
    (w : ℝ) (hw : interp G S v r c = some w) : lo ≤ w ∧ w ≤ hi :=
  Aegean.Proofs.C06.interp_convex G S v r c lo hi hgy hgx hr0 hr1 hc hv w hw

/-- **interp_affine**: exact on affine node data -/
theorem interp_affine (G : Geom) (S : Stripe) (v : Nat → Nat → Option ℝ) (p q e : ℝ) (r c : Nat)
    (hgy : 0 < G.gy) (hgx : 0 < G.gx) (hr0 : G.r0 S ≤ r) (hr1 : r < G.rEnd S) (hc : c < G.C)
    (hv : ∀ i j, v i j = some (p * (G.nodeR S i : ℝ) + q * (G.nodeC j : ℝ) + e)) :
    interp G S v r c = some (p * (r : ℝ) + q * (c : ℝ) + e) :=
  Aegean.Proofs.C06.interp_affine G S v p q e r c hgy hgx hr0 hr1 hc hv

/-! ### what the driver runs is what the theorems are about -/

theorem run_is_bane (mode : Mode) (mask : Bool) (G : Geom) (stripes : List Stripe) (img : Img ℝ) :
    run mode mask G stripes img = bane mode mask G stripes img := run_eq mode mask G stripes img

/-! ### zero point -/

/-- **bkg_shift**: adding `k` to the image adds `k` to the background, for every stripe layout -/
theorem bkg_shift (G : Geom) (stripes : List Stripe) (img : Img ℝ) (k : ℝ) (y x : Nat) :
    bkgFn G stripes (shiftImg k img) y x = (bkgFn G stripes img y x).map (· + k) := by
  unfold bkgFn
  apply passFn_shift
  intro S _ i j
  exact nodeVal_shift_fst G S (cut G S img) k i j

theorem bkgFn_shift_fun (G : Geom) (stripes : List Stripe) (img : Img ℝ) (k : ℝ) :
    bkgFn G stripes (shiftImg k img) = fun y x => (bkgFn G stripes img y x).map (· + k) := by
  funext y x; exact bkg_shift G stripes img k y x

/-- **rms_shift_invariant** (repaired subtraction: every loaded row): the noise map does not depend on
    the zero point, for every stripe layout -/
theorem rms_shift_invariant (G : Geom) (stripes : List Stripe) (img : Img ℝ) (k : ℝ) (y x : Nat) :
    rmsFn Mode.all G stripes (shiftImg k img) y x = rmsFn Mode.all G stripes img y x := by
  unfold rmsFn
  rw [bkgFn_shift_fun]
  simp only [d2Fn_all_shift]

/-- **rms_shift_invariant_own_partial** (pinned subtraction: own rows only): zero-point invariance of the
    noise map holds when there is a single stripe — and only then, see `d2Fn_own_leaks_offset` and the
    evaluated two-stripe witness below.  Full statement (false for the pinned code):
    `∀ stripes, rmsFn Mode.own G stripes (shiftImg k img) y x = rmsFn Mode.own G stripes img y x`. -/
theorem rms_shift_invariant_own_partial (G : Geom) (img : Img ℝ) (k : ℝ) (y x : Nat) :
    rmsFn Mode.own G [⟨0, G.R⟩] (shiftImg k img) y x = rmsFn Mode.own G [⟨0, G.R⟩] img y x := by
  unfold rmsFn
  rw [bkgFn_shift_fun]
  apply passFn_congr
  intro S hS i j
  rw [List.mem_singleton] at hS
  subst hS
  apply nodeVal_congr
  intro rr cc hr _
  simp only [Geom.dn, Geom.drmax, Geom.drmin] at hr
  have h1 : G.r0 ⟨0, G.R⟩ ≤ rr := by simp only [Geom.r0, Geom.drmin]; omega
  have h2 : rr < G.rEnd ⟨0, G.R⟩ := by simp only [Geom.rEnd, Geom.drmin]; omega
  have hown : (decide (G.r0 ⟨0, G.R⟩ ≤ rr) && decide (rr < G.rEnd ⟨0, G.R⟩)) = true := by
    simp [h1, h2]
  simp only [d2Fn, hown, Bool.or_true, if_true, cut, shiftImg, osub_shift]

/-! ### scale -/

/-- **bkg_scale** -/
theorem bkg_scale (G : Geom) (stripes : List Stripe) (img : Img ℝ) (k : ℝ) (y x : Nat) :
    bkgFn G stripes (scaleImg k img) y x = (bkgFn G stripes img y x).map (k * ·) := by
  unfold bkgFn
  apply passFn_scale
  intro S _ i j
  exact nodeVal_scale_fst G S (cut G S img) k i j

/-- **rms_scale**: multiplying the image by `k` multiplies the noise map by `|k|` (both subtraction modes) -/
theorem rms_scale (mode : Mode) (G : Geom) (stripes : List Stripe) (img : Img ℝ) (k : ℝ) (y x : Nat) :
    rmsFn mode G stripes (scaleImg k img) y x = (rmsFn mode G stripes img y x).map (|k| * ·) := by
  unfold rmsFn
  have hB : bkgFn G stripes (scaleImg k img) = fun y x => (bkgFn G stripes img y x).map (k * ·) := by
    funext y x; exact bkg_scale G stripes img k y x
  rw [hB]
  apply passFn_scale
  intro S _ i j
  have e : d2Fn mode G S (scaleImg k img) (fun y x => (bkgFn G stripes img y x).map (k * ·))
      = fun r c => (d2Fn mode G S img (bkgFn G stripes img) r c).map (k * ·) := by
    funext r c; exact d2Fn_scale mode G S img _ k r c
  rw [e]
  exact nodeVal_scale_snd G S _ k i j

/-! ### range -/

/-- **bkg_in_range**: the background lies within the range of the finite input pixels -/
theorem bkg_in_range (G : Geom) (stripes : List Stripe) (img : Img ℝ) (a b : ℝ)
    (hgy : 0 < G.gy) (hgx : 0 < G.gx) (h : ∀ y x v, img y x = some v → a ≤ v ∧ v ≤ b)
    (y x : Nat) (hx : x < G.C) (w : ℝ) (hw : bkgFn G stripes img y x = some w) : a ≤ w ∧ w ≤ b := by
  unfold bkgFn at hw
  refine passFn_range G stripes Prod.fst _ a b hgy hgx ?_ y x hx w hw
  intro S _ i j w' h'
  exact (nodeVal_range G S (cut G S img) i j a b (fun rr cc v _ _ hv => h _ _ v hv)).1 w' h'

/-- **rms_in_range** (repaired subtraction): `0 ≤ noise ≤ b − a` when the finite pixels lie in `[a, b]`.
    For the pinned subtraction with ≥ 2 stripes this is false (noise ≈ offset/2, ledger item 8). -/
theorem rms_in_range (G : Geom) (stripes : List Stripe) (img : Img ℝ) (a b : ℝ)
    (hgy : 0 < G.gy) (hgx : 0 < G.gx) (h : ∀ y x v, img y x = some v → a ≤ v ∧ v ≤ b)
    (y x : Nat) (hx : x < G.C) (w : ℝ) (hw : rmsFn Mode.all G stripes img y x = some w) :
    0 ≤ w ∧ w ≤ b - a := by
  unfold rmsFn at hw
  refine passFn_range G stripes Prod.snd _ 0 (b - a) hgy hgx ?_ y x hx w hw
  intro S _ i j w' h'
  have hr := (nodeVal_range G S (d2Fn Mode.all G S img (bkgFn G stripes img)) i j (a - b) (b - a) ?_).2 w' h'
  · constructor
    · exact hr.1
    · linarith [hr.2]
  · intro rr cc v _ hcc hv
    simp only [d2Fn, Bool.true_or, if_true, decide_true, cut] at hv
    obtain ⟨p, q, hp, hq, rfl⟩ := osub_eq_some hv
    have h1 := h _ _ p hp
    have h2 := bkg_in_range G stripes img a b hgy hgx h _ cc (by omega) q hq
    constructor <;> linarith [h1.1, h1.2, h2.1, h2.2]

/-! ### constant image -/

/-- **const_image**: a constant image gives background = that constant and noise = 0 wherever the maps
    are finite (and they are finite everywhere by `no_blanks_no_nans`) -/
theorem const_image (G : Geom) (stripes : List Stripe) (img : Img ℝ) (k : ℝ)
    (h : ∀ y x, y < G.R → x < G.C → img y x = some k) (y x : Nat) :
    (∀ w, bkgFn G stripes img y x = some w → w = k) ∧
    (∀ w, rmsFn Mode.all G stripes img y x = some w → w = 0) := by
  have hread : ∀ (S : Stripe) rr cc, rr < G.dn S - G.e → cc < G.C - G.e → G.drmin S + rr < G.R ∧ cc < G.C := by
    intro S rr cc h1 h2
    simp only [Geom.dn, Geom.drmax, Geom.drmin] at h1 ⊢
    omega
  have hb : ∀ y x w, bkgFn G stripes img y x = some w → w = k := by
    intro y x w hw
    unfold bkgFn at hw
    refine passFn_const G stripes Prod.fst _ k ?_ y x w hw
    intro S _ i j w' h'
    refine (nodeVal_const G S (cut G S img) i j k ?_).1 w' h'
    intro rr cc v h1 h2 hv
    have := hread S rr cc h1 h2
    simp only [cut, h _ _ this.1 this.2, Option.some.injEq] at hv
    exact hv.symm
  refine ⟨hb y x, ?_⟩
  intro w hw
  unfold rmsFn at hw
  refine passFn_const G stripes Prod.snd _ 0 ?_ y x w hw
  intro S _ i j w' h'
  refine (nodeVal_const G S _ i j 0 ?_).2 w' h'
  intro rr cc v h1 h2 hv
  have := hread S rr cc h1 h2
  simp only [d2Fn, Bool.true_or, if_true, decide_true, cut] at hv
  obtain ⟨p, q, hp, hq, rfl⟩ := osub_eq_some hv
  rw [h _ _ this.1 this.2] at hp
  have hq' := hb _ _ q hq
  simp only [Option.some.injEq] at hp
  rw [← hp, hq']; ring

/-! ### shape -/

/-- **shape_eq**: both maps have the image's shape -/
theorem shape_eq (mode : Mode) (mask : Bool) (G : Geom) (stripes : List Stripe) (img : Img ℝ) :
    (bane mode mask G stripes img).bkg.length = G.R ∧ (bane mode mask G stripes img).rms.length = G.R ∧
    (∀ row ∈ (bane mode mask G stripes img).bkg, row.length = G.C) ∧
    (∀ row ∈ (bane mode mask G stripes img).rms, row.length = G.C) := by
  simp only [bane, toRows, List.length_map, List.length_range, List.mem_map, List.mem_range]
  refine ⟨trivial, trivial, ?_, ?_⟩ <;>
  · rintro row ⟨y, _, rfl⟩
    simp

/-- the pixel `(y, x)` of an output map is the corresponding pixel function -/
theorem toRows_get (G : Geom) (f : Img ℝ) (y x : Nat) (hy : y < G.R) (hx : x < G.C) :
    ((toRows G f)[y]?.bind (·[x]?)) = some (f y x) := by
  simp [toRows, hy, hx]

/-! ### mask -/

/-- **masked_iff_nonfinite**: with masking on, an output pixel is NaN in the background map iff the input
    pixel is non-finite or the interpolated background itself is NaN there; in the noise map iff one of
    those or the interpolated noise is NaN.  (`no_blanks_no_nans` shows the interpolants are finite.) -/
theorem masked_iff_nonfinite (mode : Mode) (G : Geom) (stripes : List Stripe) (img : Img ℝ) (y x : Nat) :
    (bkgOut true G stripes img y x = none ↔ (img y x = none ∨ bkgFn G stripes img y x = none)) ∧
    (rmsOut mode true G stripes img y x = none ↔
      (img y x = none ∨ bkgFn G stripes img y x = none ∨ rmsFn mode G stripes img y x = none)) := by
  simp only [bkgOut, rmsOut, masked, Bool.true_and]
  cases hi : img y x <;> cases hb : bkgFn G stripes img y x <;> simp [osub]

/-- **every non-finite input pixel is NaN in both maps** (masking on) -/
theorem masked_of_nonfinite (mode : Mode) (G : Geom) (stripes : List Stripe) (img : Img ℝ) (y x : Nat)
    (h : img y x = none) :
    bkgOut true G stripes img y x = none ∧ rmsOut mode true G stripes img y x = none := by
  have := masked_iff_nonfinite mode G stripes img y x
  exact ⟨this.1.mpr (Or.inl h), this.2.mpr (Or.inl h)⟩

/-- **no_blanks_no_nans**: an image without blank pixels gives maps without blank pixels, for every
    stripe list that covers the rows with non-empty stripes inside the image.  The shape hypotheses the
    proof forces: `e < bY/2`, `e < bX/2`, `e < R`, `e < C`; i.e. for the pinned box clamp (`e = 1`) rows and
    columns ≥ 2 (and box ≥ 4); for the repaired clamp (`e = 0`) any non-empty image and box ≥ 2. -/
theorem no_blanks_no_nans (mask : Bool) (G : Geom) (stripes : List Stripe) (img : Img ℝ)
    (hY : G.e < G.bY / 2) (hX : G.e < G.bX / 2) (hR : G.e < G.R) (hC : G.e < G.C)
    (hS : ∀ S ∈ stripes, S.ymin < S.ymax ∧ S.ymax ≤ G.R)
    (hcover : ∀ y, y < G.R → (stripeAt stripes y).isSome)
    (himg : ∀ y x, y < G.R → x < G.C → (img y x).isSome)
    (y x : Nat) (hy : y < G.R) (hx : x < G.C) :
    (bkgOut mask G stripes img y x).isSome ∧ (rmsOut Mode.all mask G stripes img y x).isSome := by
  have hread : ∀ (S : Stripe) rr cc, rr < G.dn S - G.e → cc < G.C - G.e → G.drmin S + rr < G.R ∧ cc < G.C := by
    intro S rr cc h1 h2
    simp only [Geom.dn, Geom.drmax, Geom.drmin] at h1 ⊢
    omega
  have hb : ∀ y x, y < G.R → (bkgFn G stripes img y x).isSome := by
    intro y x hy
    unfold bkgFn
    apply passFn_isSome G stripes Prod.fst _ y x (hcover y hy)
    intro S hm i j
    apply nodeVal_isSome G S Prod.fst _ i j hY hX hR hC (hS S hm)
    intro rr cc h1 h2
    have := hread S rr cc h1 h2
    exact himg _ _ this.1 this.2
  have hr : (rmsFn Mode.all G stripes img y x).isSome := by
    unfold rmsFn
    apply passFn_isSome G stripes Prod.snd _ y x (hcover y hy)
    intro S hm i j
    apply nodeVal_isSome G S Prod.snd _ i j hY hX hR hC (hS S hm)
    intro rr cc h1 h2
    have := hread S rr cc h1 h2
    simp only [d2Fn, Bool.true_or, if_true, decide_true, cut, osub_isSome, himg _ _ this.1 this.2, hb _ cc this.1,
      Bool.and_self]
  have hm : masked mask G stripes img y x = false := by
    obtain ⟨p, hp⟩ := Option.isSome_iff_exists.mp (himg y x hy hx)
    obtain ⟨q, hq⟩ := Option.isSome_iff_exists.mp (hb y x hy)
    simp [masked, hp, hq, osub]
  simp only [bkgOut, rmsOut, hm, Bool.false_eq_true, if_false]
  exact ⟨hb y x hy, hr⟩

/-- the excluded point of `no_blanks_no_nans` for the pinned clamp: with `e = 1` an image of at most one
    row gives an all-NaN background (ledger item 22; the real code is run on 1×N by the harness) -/
theorem one_row_all_nan_pinned (G : Geom) (stripes : List Stripe) (img : Img ℝ) (he : G.e = 1) (hR : G.R ≤ 1)
    (y x : Nat) : bkgFn G stripes img y x = none := by
  unfold bkgFn passFn
  cases hS : stripeAt stripes y with
  | none => rfl
  | some S =>
    have hsmall : G.dn S ≤ G.e := by
      simp only [Geom.dn, Geom.drmax, Geom.drmin]; omega
    have e : nodeVal G S Prod.fst (cut G S img) = fun _ _ => none := by
      funext i j; exact nodeVal_none_of_small G S _ _ i j hsmall
    simp only [e, Aegean.Proofs.C06.interp_eq, bilin]

/-! ### the metric form of the mask clause -/

/-- **finite_far_from_blanks**: a pixel `(y, x)` of stripe `S` such that every blank pixel of the image is
    farther than `bY/2 + gy` in rows **or** farther than `bX/2 + gx` in columns (`FarFromBlanks`; the boxes are
    rectangles) is finite in both output maps, masking on or off, for both subtraction modes.
    What the code guarantees and the proof uses: a node is finite as soon as its (non-empty) box holds one finite
    pixel (`nodeVal_isSome_of_mem`); each of the four surrounding nodes has in its box a pixel of the same grid cell
    as `(y, x)` (`row_witness`, `col_witness`) — finite by the distance hypothesis, and with a finite background
    because it is interpolated from the same four nodes; interpolation of four finite nodes is finite.
    Hypotheses the proof forces: repaired box clamp `e = 0` (with the pinned clamp the last row/column is in no
    box), `box/2 ≥ 1`, positive grid, the stripe is non-empty, inside the image and owns its rows. -/
theorem finite_far_from_blanks (mode : Mode) (mask : Bool) (G : Geom) (stripes : List Stripe) (img : Img ℝ) (S : Stripe)
    (y x : Nat) (hgy : 0 < G.gy) (hgx : 0 < G.gx) (hY : 1 ≤ G.bY / 2) (hX : 1 ≤ G.bX / 2) (he : G.e = 0)
    (hS : S.ymin < S.ymax ∧ S.ymax ≤ G.R)
    (hown : ∀ y', S.has y' = true → stripeAt stripes y' = some S) (hy : S.has y = true) (hx : x < G.C)
    (hfar : FarFromBlanks G img y x) :
    (bkgOut mask G stripes img y x).isSome ∧ (rmsOut mode mask G stripes img y x).isSome :=
  finite_far mode mask G stripes img S y x hgy hgx hY hX he hS hown hy hx hfar

/-! ### own-rows subtraction, one stripe -/

/-- **rms_in_range_own_partial**: pinned subtraction, single stripe only (false with ≥ 2 stripes: ledger item 8) -/
theorem rms_in_range_own_partial (G : Geom) (img : Img ℝ) (a b : ℝ)
    (hgy : 0 < G.gy) (hgx : 0 < G.gx) (h : ∀ y x v, img y x = some v → a ≤ v ∧ v ≤ b)
    (y x : Nat) (hx : x < G.C) (w : ℝ) (hw : rmsFn Mode.own G [⟨0, G.R⟩] img y x = some w) :
    0 ≤ w ∧ w ≤ b - a := by
  rw [rmsFn_own_single] at hw
  exact rms_in_range G _ img a b hgy hgx h y x hx w hw

/-- **const_image_own_partial**: pinned subtraction, single stripe only -/
theorem const_image_own_partial (G : Geom) (img : Img ℝ) (k : ℝ)
    (h : ∀ y x, y < G.R → x < G.C → img y x = some k) (y x : Nat) (w : ℝ)
    (hw : rmsFn Mode.own G [⟨0, G.R⟩] img y x = some w) : w = 0 := by
  rw [rmsFn_own_single] at hw
  exact (const_image G _ img k h y x).2 w hw

/-! ### file plumbing: cube plane, BSCALE, returned maps, written files -/

theorem rmsOut_scale (mode : Mode) (mask : Bool) (G : Geom) (stripes : List Stripe) (img : Img ℝ) (k : ℝ) (y x : Nat) :
    rmsOut mode mask G stripes (scaleImg k img) y x = (rmsOut mode mask G stripes img y x).map (|k| * ·) := by
  simp only [rmsOut, masked_scale, rms_scale]
  split <;> rfl

/-- an out-of-range cube index is rejected: nothing returned, nothing written -/
theorem filterImage_cube_rejected (mode : Mode) (mask : Bool) (G : Geom) (stripesOf : Geom → List Stripe)
    (f : FileIn ℝ) (cube : Nat) (outBase compressed : Bool) (h : f.naxis > 2 ∧ cube ≥ f.n3) :
    (filterImage mode mask G stripesOf f cube outBase compressed).returned = none ∧
    (filterImage mode mask G stripesOf f cube outBase compressed).bkgFile = none ∧
    (filterImage mode mask G stripesOf f cube outBase compressed).rmsFile = none := by
  simp [filterImage, h.1, h.2]

/-- **filterImage_returned** (lifts `run_is_bane` through the plumbing): whatever `out_base` and whether or not the
    output is compressed, the returned maps are the estimator applied to the *physical* image (selected plane ×
    BSCALE) on the effective grid — in particular they do not depend on `out_base`, and on `compressed` only through
    the squared grid step -/
theorem filterImage_returned (mode : Mode) (mask : Bool) (G : Geom) (stripesOf : Geom → List Stripe)
    (f : FileIn ℝ) (cube : Nat) (outBase compressed : Bool) (h : f.naxis ≤ 2 ∨ cube < f.n3) :
    (filterImage mode mask G stripesOf f cube outBase compressed).returned =
      some (bkgOut mask (effGeom G compressed) (stripesOf (effGeom G compressed)) (physical f cube),
            rmsOut mode mask (effGeom G compressed) (stripesOf (effGeom G compressed)) (physical f cube)) := by
  have hc : (decide (f.naxis > 2) && decide (cube ≥ f.n3)) = false := by
    rcases h with h | h <;> simp <;> omega
  simp [filterImage, hc]

/-- the maps depend on the file only through the selected plane, BSCALE and the axis bookkeeping -/
theorem filterImage_plane_only (mode : Mode) (mask : Bool) (G : Geom) (stripesOf : Geom → List Stripe)
    (f f' : FileIn ℝ) (cube : Nat) (outBase compressed : Bool)
    (h1 : f.naxis = f'.naxis) (h2 : f.n3 = f'.n3) (h3 : f.bscale = f'.bscale) (h4 : selected f cube = selected f' cube) :
    filterImage mode mask G stripesOf f cube outBase compressed = filterImage mode mask G stripesOf f' cube outBase compressed := by
  have hp : physical f cube = physical f' cube := by
    simp only [physical, h3, h4]
  simp only [filterImage, h1, h2, h3, hp]

/-- BSCALE is a scale of the image: with `BSCALE = b` the returned maps are `b ·` background and `|b| ·` noise of
    the raw plane (the scale law applied to the file plumbing) -/
theorem filterImage_bscale_is_scale (mode : Mode) (mask : Bool) (G : Geom) (stripes : List Stripe)
    (f : FileIn ℝ) (cube : Nat) (b : ℝ) (hb : f.bscale = some b) (y x : Nat) :
    bkgOut mask G stripes (physical f cube) y x = (bkgOut mask G stripes (selected f cube) y x).map (b * ·) ∧
    rmsOut mode mask G stripes (physical f cube) y x = (rmsOut mode mask G stripes (selected f cube) y x).map (|b| * ·) := by
  simp only [physical, hb, mulImg_eq_scaleImg]
  exact ⟨bkgOut_scale mask G stripes _ b y x, rmsOut_scale mode mask G stripes _ b y x⟩

/-- **file_times_bscale_is_returned** (uncompressed): the written `*_bkg.fits` / `*_rms.fits`, read back with their
    BSCALE, are the returned maps, pixel for pixel, and have the image's shape (what seeded change C06-3 broke) -/
theorem file_times_bscale_is_returned (mode : Mode) (mask : Bool) (G : Geom) (stripesOf : Geom → List Stripe)
    (f : FileIn ℝ) (cube : Nat) (h : f.naxis ≤ 2 ∨ cube < f.n3) (hb : f.bscale ≠ some 0) :
    (filterImage mode mask G stripesOf f cube true false).bkgFile.map FileOut.readBack
      = (filterImage mode mask G stripesOf f cube true false).returned.map Prod.fst ∧
    (filterImage mode mask G stripesOf f cube true false).rmsFile.map FileOut.readBack
      = (filterImage mode mask G stripesOf f cube true false).returned.map Prod.snd ∧
    (filterImage mode mask G stripesOf f cube true false).bkgFile.map (fun o => (o.rows, o.cols)) = some (G.R, G.C) ∧
    (filterImage mode mask G stripesOf f cube true false).rmsFile.map (fun o => (o.rows, o.cols)) = some (G.R, G.C) := by
  have hc : (decide (f.naxis > 2) && decide (cube ≥ f.n3)) = false := by
    rcases h with h | h <;> simp <;> omega
  cases hbs : f.bscale with
  | none =>
    have d1 : ∀ m : Img ℝ, divImg (1 : ℝ) m = m := by
      intro m; funext y x; cases hm : m y x <;> simp [divImg, hm]
    simp [filterImage, hc, hbs, effGeom, FileOut.readBack, d1]
  | some b =>
    have hb0 : b ≠ 0 := by intro e; exact hb (by rw [hbs, e])
    simp [filterImage, hc, hbs, effGeom, FileOut.readBack, mul_div_img b hb0]

/-- **compressed_file_is_returned_at_nodes**: entry `(i, j)` of a compressed output file, read back with its BSCALE,
    is the returned map at `(decIdx R f i, decIdx C f j)` — every `f`-th row/column and the last one -/
theorem compressed_file_is_returned_at_nodes (mode : Mode) (mask : Bool) (G : Geom) (stripesOf : Geom → List Stripe)
    (f : FileIn ℝ) (cube : Nat) (h : f.naxis ≤ 2 ∨ cube < f.n3) (hb : f.bscale ≠ some 0) (i j : Nat) :
    (filterImage mode mask G stripesOf f cube true true).bkgFile.map (fun o => o.readBack i j)
      = (filterImage mode mask G stripesOf f cube true true).returned.map
          (fun p => p.1 (decIdx (effGeom G true).R (effGeom G true).gy i) (decIdx (effGeom G true).C (effGeom G true).gy j)) ∧
    (filterImage mode mask G stripesOf f cube true true).rmsFile.map (fun o => o.readBack i j)
      = (filterImage mode mask G stripesOf f cube true true).returned.map
          (fun p => p.2 (decIdx (effGeom G true).R (effGeom G true).gy i) (decIdx (effGeom G true).C (effGeom G true).gy j)) := by
  have hc : (decide (f.naxis > 2) && decide (cube ≥ f.n3)) = false := by
    rcases h with h | h <;> simp <;> omega
  cases hbs : f.bscale with
  | none => simp [filterImage, hc, hbs, FileOut.readBack, divImg]
  | some b =>
    have hb0 : b ≠ 0 := by intro e; exact hb (by rw [hbs, e])
    have e2 : ∀ (v : Option ℝ), (v.map (· / b)).map (· * b) = v := by
      intro v; cases v <;> simp [div_mul_cancel₀ _ hb0]
    simp [filterImage, hc, hbs, FileOut.readBack, divImg, mulImg, e2]

/-! ### the regenerated arithmetic of `sigma_filter` (Gen.C06, re-translated from the source on every run) is the
    model's arithmetic — so the theorems above are theorems about it.  The proofs are written to survive harmless
    rewrites (reordered operands, `max`/`min` argument order, an alias, Nat- or Int-typed results) and to break when a
    bound, a half-width, a clamp or a slice changes. -/

section Regenerated
open Gen.C06
set_option linter.unnecessarySeqFocus false
set_option linter.unusedTactic false
set_option linter.unreachableTactic false

/-- closes goals about `max(0, ·)`, `min(·, ·)`, `// 2` and Nat/Int casts after the generated definition is unfolded -/
macro "gen_arith" : tactic =>
  `(tactic| first
    | omega
    | (split <;> omega)
    | (split <;> split <;> omega)
    | (push_cast; omega)
    | (push_cast; split <;> omega)
    | (push_cast; split <;> split <;> omega))

/-- **gen_loaded_rows**: the rows a stripe loads are `[Geom.drmin, Geom.drmax)` -/
theorem gen_loaded_rows (G : Geom) (S : Stripe) :
    (dataRowMin S.ymin S.ymax G.bY G.R : Int) = ((G.drmin S : Nat) : Int) ∧
    (dataRowMax S.ymin S.ymax G.bY G.R : Int) = ((G.drmax S : Nat) : Int) := by
  constructor
  · simp only [dataRowMin, Geom.drmin] <;> gen_arith
  · simp only [dataRowMax, Geom.drmax] <;> gen_arith

/-- **gen_box**: the slice bounds of `box(r, c)` are the bounds `boxvals` uses, with no edge row/column excluded
    (`e = 0`; the pinned `min(shape - 1, ·)` does not satisfy this) -/
theorem gen_box (G : Geom) (he : G.e = 0) (dn r c : Nat) :
    (boxRMin r c G.bY G.bX dn G.C : Int) = ((r - G.bY / 2 : Nat) : Int) ∧
    (boxRMax r c G.bY G.bX dn G.C : Int) = ((min (dn - G.e) (r + G.bY / 2) : Nat) : Int) ∧
    (boxCMin r c G.bY G.bX dn G.C : Int) = ((c - G.bX / 2 : Nat) : Int) ∧
    (boxCMax r c G.bY G.bX dn G.C : Int) = ((min (G.C - G.e) (c + G.bX / 2) : Nat) : Int) := by
  refine ⟨?_, ?_, ?_, ?_⟩
  · simp only [boxRMin] <;> gen_arith
  · simp only [boxRMax, he] <;> gen_arith
  · simp only [boxCMin] <;> gen_arith
  · simp only [boxCMax, he] <;> gen_arith

/-- **gen_grid_rows**: `rows = list(range(A, B, S)); rows.append(L)` has `A = r0`, `B = L = rEnd`, `S = gy`;
    with `grid_rows_eq_nodes` the list is `[nodeR 0, …]`, the model's closed form -/
theorem gen_grid_rows (G : Geom) (S : Stripe) (h : S.ymin ≤ S.ymax) :
    (gridR0 S.ymin S.ymax (G.drmin S) G.gy : Int) = ((G.r0 S : Nat) : Int) ∧
    (gridREnd S.ymin S.ymax (G.drmin S) G.gy : Int) = ((G.rEnd S : Nat) : Int) ∧
    (gridRStep S.ymin S.ymax (G.drmin S) G.gy : Int) = ((G.gy : Nat) : Int) ∧
    (gridRLast S.ymin S.ymax (G.drmin S) G.gy : Int) = ((G.rEnd S : Nat) : Int) := by
  refine ⟨?_, ?_, ?_, ?_⟩
  · simp only [gridR0, Geom.r0, Geom.drmin] <;> gen_arith
  · simp only [gridREnd, Geom.rEnd, Geom.drmin] <;> gen_arith
  · simp only [gridRStep] <;> gen_arith
  · simp only [gridRLast, Geom.rEnd, Geom.drmin] <;> gen_arith

theorem gen_grid_cols (G : Geom) :
    (gridC0 G.C G.gx : Int) = 0 ∧ (gridCEnd G.C G.gx : Int) = ((G.C : Nat) : Int) ∧
    (gridCStep G.C G.gx : Int) = ((G.gx : Nat) : Int) ∧ (gridCLast G.C G.gx : Int) = ((G.C : Nat) : Int) := by
  refine ⟨?_, ?_, ?_, ?_⟩
  · simp only [gridC0] <;> gen_arith
  · simp only [gridCEnd] <;> gen_arith
  · simp only [gridCStep] <;> gen_arith
  · simp only [gridCLast] <;> gen_arith

/-- the grids the code builds are the model's node lists -/
theorem grid_lists_are_nodes (G : Geom) (S : Stripe) (hgy : 0 < G.gy) (hgx : 0 < G.gx) (h : S.ymin ≤ S.ymax) :
    Py.range (G.r0 S) (G.rEnd S) G.gy ++ [G.rEnd S] = (List.range (G.nNodeR S)).map (G.nodeR S) ∧
    Py.range 0 G.C G.gx ++ [G.C] = (List.range G.nNodeC).map G.nodeC :=
  ⟨grid_rows_eq_nodes G S hgy (by simp only [Geom.r0, Geom.rEnd, Geom.drmin]; omega), grid_cols_eq_nodes G hgx⟩

/-- **gen_subtract_rows**: the background is subtracted from *every* row of the loaded block, taken from rows
    `[drmin, drmax)` of the full-size map: the regenerated slices are `subRows Mode.all` (and by `d2Fn_subRows` that is
    what `d2Fn Mode.all` does).  For the pinned `data[ymin-drmin : …] -= ibkg[ymin:ymax]` this does not check. -/
theorem gen_subtract_rows (G : Geom) (S : Stripe) :
    (subTLo S.ymin S.ymax (G.drmin S) (G.drmax S) (G.dn S) G.R : Int) = (((subRows Mode.all G S).1 : Nat) : Int) ∧
    (subTHi S.ymin S.ymax (G.drmin S) (G.drmax S) (G.dn S) G.R : Int) = (((subRows Mode.all G S).2 : Nat) : Int) ∧
    (subSLo S.ymin S.ymax (G.drmin S) (G.drmax S) (G.dn S) G.R : Int) = ((G.drmin S : Nat) : Int) ∧
    (subSHi S.ymin S.ymax (G.drmin S) (G.drmax S) (G.dn S) G.R : Int) = ((G.drmax S : Nat) : Int) := by
  refine ⟨?_, ?_, ?_, ?_⟩
  · simp only [subTLo, subRows] <;> gen_arith
  · simp only [subTHi, subRows] <;> gen_arith
  · simp only [subSLo] <;> gen_arith
  · simp only [subSHi] <;> gen_arith

theorem subtract_rows_semantics (mode : Mode) (G : Geom) (S : Stripe) (img B : Img ℝ) (r c : Nat) (hr : r < G.dn S) :
    d2Fn mode G S img B r c =
      if (subRows mode G S).1 ≤ r ∧ r < (subRows mode G S).2 then osub (cut G S img r c) (B (G.drmin S + r) c)
      else cut G S img r c := d2Fn_subRows mode G S img B r c hr

/-- **gen_worker_state**: in the model a stripe's maps are a function of the stripe's arguments (`nodeVal`, `d2Fn`, `passFn`
    take the geometry, the stripe, the image and the background map — there is no ambient state).  The code meets this only if
    what `sigma_filter` reads reaches the worker through its arguments or the pool initializer: the regenerated count of module
    globals that the parent writes (`filter_mc_sharemem`, `filter_image`) and the worker code reads (`sigma_filter`, `_sf2`)
    without the initializer setting them from `initargs` is zero, and `initargs` matches the initializer's parameters.  A global
    that is merely inherited exists in the workers only under the `fork` start method (seeded C06-13: BSCALE silently dropped
    under `spawn` / `forkserver`). -/
theorem gen_worker_state : (wsLeaks 0 : Int) = 0 ∧ (wsInitParams 0 : Int) = (wsInitArgs 0 : Int) := by
  constructor
  · simp only [wsLeaks] <;> gen_arith
  · simp only [wsInitParams, wsInitArgs] <;> gen_arith

/-- non-vacuity: on a concrete geometry the regenerated bounds evaluate to the expected numbers -/
example : (boxRMin 10 3 8 6 12 20 : Int) = 6 ∧ (boxRMax 10 3 8 6 12 20 : Int) = 12 ∧
    (boxCMin 10 3 8 6 12 20 : Int) = 0 ∧ (boxCMax 10 3 8 6 12 20 : Int) = 6 ∧
    (dataRowMin 2 9 8 10 : Int) = 0 ∧ (dataRowMax 2 9 8 10 : Int) = 10 := by decide

end Regenerated

/-! ### evaluated witnesses (tests, not theorems): the toy image is 4 rows × 2 columns, grid 2, box 4,
    two stripes `[0,2)`, `[2,4)`; a constant image 0 and the same image + 1.  Run at `Float`. -/

def toyG : Geom := ⟨4, 2, 2, 2, 4, 4, 0⟩
def toyStripes : List Stripe := [⟨0, 2⟩, ⟨2, 4⟩]
def toyImg (c : Float) : Img Float := fun y x => if y < 4 ∧ x < 2 then some c else none
def pix (o : List (List (Option Float))) (y x : Nat) : Float := ((o[y]?.bind (·[x]?)).join).getD (0.0 / 0.0)

-- pinned subtraction, two stripes: the noise map changes from 0 to 0.25 when 1 is added to the image
-- (negation witness for `rms_shift_invariant` with `Mode.own`; it also violates `const_image`)
#guard pix (run Mode.own true toyG toyStripes (toyImg 0.0)).rms 1 0 == 0.0
#guard pix (run Mode.own true toyG toyStripes (toyImg 1.0)).rms 1 0 == 0.25
-- repaired subtraction: invariant on the same toy
#guard pix (run Mode.all true toyG toyStripes (toyImg 1.0)).rms 1 0 == 0.0
-- pinned subtraction, one stripe: invariant (the `_partial` theorem)
#guard pix (run Mode.own true toyG [⟨0, 4⟩] (toyImg 1.0)).rms 1 0 == 0.0
-- pinned box clamp on a one-row image: all NaN; repaired clamp: the constant
#guard (pix (run Mode.all true ⟨1, 4, 2, 2, 4, 4, 1⟩ [⟨0, 1⟩] (fun y x => if y < 1 ∧ x < 4 then some 3.0 else none)).bkg 0 1).isNaN
#guard pix (run Mode.all true ⟨1, 4, 2, 2, 4, 4, 0⟩ [⟨0, 1⟩] (fun y x => if y < 1 ∧ x < 4 then some 3.0 else none)).bkg 0 1 == 3.0

end Aegean.Properties.C06
