/-
  C17 — Spherical geometry and sexagesimal primitives are exact and well formed.

  Theorems are about `Gen.C17.*`, the definitions the translator regenerates from
  `AegeanTools/angle_tools.py` on every run (gcd → havA / gcdNear / gcdFar, bear, translate,
  the arithmetic of dec2dec / ra2dec, the integer field arithmetic of dec2dms / dec2hms), at `α := ℝ`
  (numeric) and over `Nat`/`Int` (sexagesimal).  `sphDist` is `(180/π) · InnerProductGeometry.angle`
  of the unit vectors (Aegean/Proofs/C17Sphere.lean).

  What is NOT proved here and is left to the sampled correspondence (harness/corr_C17.py): IEEE
  rounding (in particular the 1e-9 deg agreement with the vector formula), Python's string
  formatting/splitting/float(), and the rounding step `n = int(round(x·c))`, which enters the
  theorems as the hypothesis `IsRound (x·c) n` (|x·c − n| ≤ ½).
-/
import Aegean.Generated.C17
import Aegean.Model.C17
import Aegean.Proofs.C17Sphere
import Aegean.Proofs.C17Translate
import Aegean.Proofs.C17Sexa
import Aegean.Proofs.C17String

-- the `_eq_hand` proofs deliberately end in tactics that only fire after a harmless rewrite of the source, and name
-- the hand definitions that stand in when a piece of the source is reported UNTRANSLATABLE (fallback path)
set_option linter.unusedSimpArgs false
set_option linter.unnecessarySeqFocus false
set_option linter.unusedTactic false
set_option linter.unreachableTactic false

namespace Aegean.Properties.C17
open Gen.C17 Aegean.Model.C17 Aegean.C17 Real

/-! ### The regenerated definitions are the modelled formulas (re-proved on every run;
      robust to reordering of factors, not to a changed constant or a dropped term) -/

theorem havA_eq_hand (ra1 dec1 ra2 dec2 : ℝ) : havA ra1 dec1 ra2 dec2 = havAHand ra1 dec1 ra2 dec2 := by
  try simp only [havA, havAHand, R.real_npow, R.real_sin, R.real_cos, R.real_ofNat, R.real_radians]
  try ring_nf

theorem gcdNear_eq_hand (ra1 dec1 ra2 dec2 : ℝ) :
    gcdNear ra1 dec1 ra2 dec2 = gcdNearHand ra1 dec1 ra2 dec2 := by
  try simp only [gcdNear, gcdNearHand, havAHand, R.real_npow, R.real_sin, R.real_cos, R.real_ofNat,
    R.real_radians, R.real_degrees, R.real_asin, real_min', R.real_sqrt]
  try ring_nf

theorem gcdFar_eq_hand (ra1 dec1 ra2 dec2 : ℝ) :
    gcdFar ra1 dec1 ra2 dec2 = gcdFarHand ra1 dec1 ra2 dec2 := by
  try simp only [gcdFar, gcdFarHand, havBHand, R.real_npow, R.real_sin, R.real_cos, R.real_ofNat,
    R.real_radians, R.real_degrees, R.real_asin, real_min', R.real_sqrt]
  try ring_nf

theorem bear_eq_hand (ra1 dec1 ra2 dec2 : ℝ) : bear ra1 dec1 ra2 dec2 = bearHand ra1 dec1 ra2 dec2 := by
  try simp only [bear, bearHand, R.real_sin, R.real_cos, R.real_radians, R.real_degrees, R.real_atan2]
  try ring_nf

theorem translateDec_eq_hand (ra dec r theta : ℝ) :
    translateDec ra dec r theta = translateDecHand ra dec r theta := by
  try simp only [translateDec, translateDecHand, R.real_sin, R.real_cos, R.real_radians, R.real_degrees,
    R.real_asin, R.real_ofNat, real_min', real_max']
  try ring_nf

theorem translateRa_eq_hand (ra dec r theta : ℝ) :
    translateRa ra dec r theta = translateRaHand ra dec r theta := by
  try simp only [translateRa, translateRaHand, translateDecHand, R.real_sin, R.real_cos, R.real_radians,
    R.real_degrees, R.real_asin, R.real_atan2, R.real_ofNat, real_min', real_max']
  try ring_nf

/-! ### gcd is the angle between the unit vectors, for BOTH branches of the `np.where` -/

/-- the haversine argument: `a = (1 − ⟪v₁, v₂⟫)/2` -/
theorem havA_eq (ra1 dec1 ra2 dec2 : ℝ) :
    havA ra1 dec1 ra2 dec2 = (1 - dot (unitVec ra1 dec1) (unitVec ra2 dec2)) / 2 := by
  rw [havA_eq_hand, havAHand_eq]

/-- `sep` (the arcsin branch) `= (180/π)·angle v₁ v₂` -/
theorem gcdNear_eq_angle (ra1 dec1 ra2 dec2 : ℝ) :
    gcdNear ra1 dec1 ra2 dec2 = 180 / π * InnerProductGeometry.angle (uvec ra1 dec1) (uvec ra2 dec2) := by
  rw [gcdNear_eq_hand, gcdNearHand_eq_sphDist]; rfl

/-- `far` (the antipodal branch of the repaired code) `= (180/π)·angle v₁ v₂` as well -/
theorem gcdFar_eq_angle (ra1 dec1 ra2 dec2 : ℝ) :
    gcdFar ra1 dec1 ra2 dec2 = 180 / π * InnerProductGeometry.angle (uvec ra1 dec1) (uvec ra2 dec2) := by
  rw [gcdFar_eq_hand, gcdFarHand_eq_sphDist]; rfl

/-- **the selection is total**: `gcdSelect` is the final `return` of `gcd` (`np.where(a > 0.5, far, sep)`),
    sliced out of the source and regenerated at `Float`, where the comparison actually happens.  For
    EVERY double `a` — NaN and the threshold itself included — the value returned is one of the two
    branch values.  A pair of strict conditions with a gap (`np.select([a < t, a > t], [sep, far])`,
    whose default is 0) does not satisfy this: at `a = t` neither branch is chosen. -/
theorem gcd_select_total (a far sep : Float) :
    Gen.C17.gcdSelect a far sep = far ∨ Gen.C17.gcdSelect a far sep = sep := by
  simp only [Gen.C17.gcdSelect, Aegean.Model.C17.gcdSelect] <;> (repeat' split) <;> first | exact Or.inl rfl | exact Or.inr rfl | exact Or.inr trivial | exact Or.inl trivial

/-- What `gcd` returns: `np.where(a > 0.5, far, sep)` — whichever branch is selected
    (`gcd_select_total`: it is always one of the two).  All metric
    theorems below are stated for an arbitrary selection `g ∈ {sep, far}` at each argument. -/
def IsGcd (ra1 dec1 ra2 dec2 g : ℝ) : Prop :=
  g = gcdNear ra1 dec1 ra2 dec2 ∨ g = gcdFar ra1 dec1 ra2 dec2

theorem isGcd_iff (ra1 dec1 ra2 dec2 g : ℝ) : IsGcd ra1 dec1 ra2 dec2 g ↔ g = sphDist ra1 dec1 ra2 dec2 := by
  unfold IsGcd
  rw [gcdNear_eq_hand, gcdNearHand_eq_sphDist, gcdFar_eq_hand, gcdFarHand_eq_sphDist, or_self]

theorem gcd_symm (ra1 dec1 ra2 dec2 g g' : ℝ) (h : IsGcd ra1 dec1 ra2 dec2 g) (h' : IsGcd ra2 dec2 ra1 dec1 g') :
    g = g' := by
  rw [isGcd_iff] at h h'; rw [h, h', sphDist_comm]

theorem gcd_range (ra1 dec1 ra2 dec2 g : ℝ) (h : IsGcd ra1 dec1 ra2 dec2 g) : 0 ≤ g ∧ g ≤ 180 := by
  rw [isGcd_iff] at h; rw [h]; exact ⟨sphDist_nonneg _ _ _ _, sphDist_le _ _ _ _⟩

/-- zero exactly for identical points of the sphere (equal unit vectors; at a pole every right
    ascension is the same point, and right ascensions 360 apart are the same point) -/
theorem gcd_eq_zero_iff (ra1 dec1 ra2 dec2 g : ℝ) (h : IsGcd ra1 dec1 ra2 dec2 g) :
    g = 0 ↔ unitVec ra1 dec1 = unitVec ra2 dec2 := by
  rw [isGcd_iff] at h; rw [h]; exact sphDist_eq_zero_iff _ _ _ _

theorem gcd_triangle (ra1 dec1 ra2 dec2 ra3 dec3 g12 g23 g13 : ℝ)
    (h12 : IsGcd ra1 dec1 ra2 dec2 g12) (h23 : IsGcd ra2 dec2 ra3 dec3 g23) (h13 : IsGcd ra1 dec1 ra3 dec3 g13) :
    g13 ≤ g12 + g23 := by
  rw [isGcd_iff] at h12 h23 h13; rw [h12, h23, h13]; exact sphDist_triangle _ _ _ _ _ _

/-! ### bearing = standard position angle -/

/-- the textbook position-angle formula
    `atan2(sin Δα cos δ₂, cos δ₁ sin δ₂ − sin δ₁ cos δ₂ cos Δα)`, in degrees -/
theorem bear_eq_pa (ra1 dec1 ra2 dec2 : ℝ) :
    bear ra1 dec1 ra2 dec2 = 180 / π * Complex.arg
      ⟨cos (dec1 * (π / 180)) * sin (dec2 * (π / 180))
          - sin (dec1 * (π / 180)) * cos (dec2 * (π / 180)) * cos ((ra2 - ra1) * (π / 180)),
       sin ((ra2 - ra1) * (π / 180)) * cos (dec2 * (π / 180))⟩ := by
  rw [bear_eq_hand]
  simp only [bearHand, R.real_sin, R.real_cos, R.real_radians, R.real_degrees, R.real_atan2]
  ring

/-- … which is the direction of point 2 in the tangent plane at point 1: the angle, counted from
    local North through local East, of the projection of `v₂` (`atan2(v₂·East₁, v₂·North₁)`) -/
theorem bear_eq_tangent (ra1 dec1 ra2 dec2 : ℝ) :
    bear ra1 dec1 ra2 dec2 = paVec ra1 dec1 ra2 dec2 := by
  rw [bear_eq_hand]; exact bearHand_eq_paVec _ _ _ _

/-! ### translate -/

/-- **translate_gcd**: the point returned by `translate (ra, dec) r θ` is at distance `r` from the
    start, for every start point `−90 ≤ dec ≤ 90` (poles included), every bearing, every `0 ≤ r ≤ 180`,
    whichever branch `gcd` selects -/
theorem translate_gcd (ra dec r theta g : ℝ) (hd0 : -90 ≤ dec) (hd1 : dec ≤ 90) (h0 : 0 ≤ r) (h1 : r ≤ 180)
    (h : IsGcd ra dec (translateRa ra dec r theta) (translateDec ra dec r theta) g) : g = r := by
  rw [isGcd_iff, translateRa_eq_hand, translateDec_eq_hand] at h
  rw [h]; exact sphDist_translate ra dec r theta hd0 hd1 h0 h1

/-- **translate_bear**: away from the poles and for `0 < r < 180` the initial bearing from the start
    to the translated point is `θ` modulo 360 -/
theorem translate_bear (ra dec r theta : ℝ) (h0 : 0 < r) (h1 : r < 180) (hd : |dec| < 90) :
    ∃ k : ℤ, bear ra dec (translateRa ra dec r theta) (translateDec ra dec r theta) = theta + 360 * k := by
  rw [translateRa_eq_hand, translateDec_eq_hand, bear_eq_hand]
  exact bearHand_translate ra dec r theta h0 h1 hd

/-! ### sexagesimal: every printed field is in range -/

theorem dmsM_eq (n : Nat) : dmsM n = fldM n := by simp only [dmsM, fldM] <;> omega
theorem dmsD_eq (n : Nat) : dmsD n = fldHi n := by simp only [dmsD, fldHi] <;> omega
theorem dmsCs_eq (n : Nat) : dmsCs n = fldCs n := by simp only [dmsCs, fldCs] <;> omega
theorem hmsM_eq (n : Nat) : hmsM n = fldM n := by simp only [hmsM, fldM] <;> omega
theorem hmsH_eq (n : Nat) : hmsH n = fldHi n := by simp only [hmsH, fldHi] <;> omega
theorem hmsCs_eq (n : Nat) : hmsCs n = fldCs n := by simp only [hmsCs, fldCs] <;> omega

/-- dec2dms: minutes < 60, whole seconds < 60 (so "60.00" is never printed), decimals < 100; the
    fields recompose to `n` -/
theorem dms_fields (n : Nat) :
    dmsM n < 60 ∧ dmsCs n / 100 < 60 ∧ dmsCs n % 100 < 100 ∧
      dmsD n * 360000 + dmsM n * 6000 + dmsCs n = n := by
  simp only [dmsM, dmsCs, dmsD, fldM, fldCs, fldHi]; omega

/-- dec2dms on `|x| ≤ 90` (so `n ≤ 90·360000`): degrees ≤ 90, and 90 only as `90:00:00.00` -/
theorem dms_degrees (n : Nat) (h : n ≤ 90 * 360000) :
    dmsD n ≤ 90 ∧ (dmsD n = 90 → dmsM n = 0 ∧ dmsCs n = 0) := by
  simp only [dmsM, dmsCs, dmsD, fldM, fldCs, fldHi]; omega

/-- dec2hms for every integer count `k` (negative RA, RA ≥ 360 and a carry into 24h included):
    hours < 24, minutes < 60, whole seconds < 60 -/
theorem hms_fields (k : Int) :
    hmsH (hmsWrap k) < 24 ∧ hmsM (hmsWrap k) < 60 ∧ hmsCs (hmsWrap k) / 100 < 60 ∧
      hmsCs (hmsWrap k) % 100 < 100 ∧
      hmsH (hmsWrap k) * 360000 + hmsM (hmsWrap k) * 6000 + hmsCs (hmsWrap k) = hmsWrap k := by
  have := hmsWrap_lt k
  simp only [hmsM, hmsCs, hmsH, fldM, fldCs, fldHi]; omega

/-! ### sexagesimal: parsing inverts formatting -/

theorem dec2decNeg_eq_hand (d0 d1 d2 : ℝ) : dec2decNeg d0 d1 d2 = dec2decNegHand d0 d1 d2 := by
  try simp only [dec2decNeg, dec2decNegHand, R.real_ofNat]
  try ring_nf

theorem ra2decScale_eq (v : ℝ) : ra2decScale v = v * 15 := by
  try simp only [ra2decScale, ra2decScaleHand, R.real_ofNat, Nat.cast_ofNat]
  try ring_nf

/-- `dec2dec (dec2dms ·)` on the printed fields, non-negative angles: exactly `n/360000` degrees,
    i.e. parse ∘ format = id on hundredths of an arcsecond -/
theorem dms_roundtrip_pos (n : Nat) :
    dec2decPosHand (dmsD n : ℝ) (dmsM n : ℝ) ((dmsCs n : ℝ) / 100) * 360000 = n := by
  rw [dmsD_eq, dmsM_eq, dmsCs_eq, pos_value]; field_simp

/-- the same for negative angles (leading '-': the regenerated subtracting branch of `dec2dec`) -/
theorem dms_roundtrip_neg (n : Nat) :
    dec2decNeg (-(dmsD n : ℝ)) (dmsM n : ℝ) ((dmsCs n : ℝ) / 100) * 360000 = -(n : ℝ) := by
  rw [dec2decNeg_eq_hand, dmsD_eq, dmsM_eq, dmsCs_eq, neg_value]; field_simp

/-- `ra2dec (dec2hms ·)`: exactly `n/24000` degrees for the wrapped count, which differs from the
    unwrapped count `k` by a whole number of turns (360 deg) -/
theorem hms_roundtrip (k : Int) :
    ∃ j : Int, ra2decScale (dec2decPosHand (hmsH (hmsWrap k) : ℝ) (hmsM (hmsWrap k) : ℝ)
        ((hmsCs (hmsWrap k) : ℝ) / 100)) = (k : ℝ) / 24000 - 360 * j := by
  obtain ⟨j, hj⟩ := hmsWrap_spec k
  refine ⟨j, ?_⟩
  rw [ra2decScale_eq, hmsH_eq, hmsM_eq, hmsCs_eq, pos_value]
  have : ((hmsWrap k : ℕ) : ℝ) = (k : ℝ) - 8640000 * j := by exact_mod_cast hj
  rw [this]; ring

/-- **half a unit of the last printed digit** (Dec): if `n` is `|x|·360000` rounded to nearest
    (any tie rule), the parsed value of the printed fields is within 0.005 arcsec of `|x|` -/
theorem dms_half_unit (x : ℝ) (n : Nat) (h : IsRound (abs x * 360000) n) :
    abs (dec2decPosHand (dmsD n : ℝ) (dmsM n : ℝ) ((dmsCs n : ℝ) / 100) - abs x) ≤ 1 / 720000 := by
  rw [dmsD_eq, dmsM_eq, dmsCs_eq, pos_value]
  have := half_unit (abs x) n 360000 (by norm_num) (by simpa using h)
  norm_num at this ⊢; exact this

/-- **half a unit of the last printed digit** (RA, modulo 360 deg): if `k` is `x·24000` rounded to
    nearest, the parsed value is within 0.005 s of time (1/48000 deg) of `x` up to whole turns -/
theorem hms_half_unit (x : ℝ) (k : Int) (h : IsRound (x * 24000) k) :
    ∃ j : Int, |ra2decScale (dec2decPosHand (hmsH (hmsWrap k) : ℝ) (hmsM (hmsWrap k) : ℝ)
        ((hmsCs (hmsWrap k) : ℝ) / 100)) + 360 * j - x| ≤ 1 / 48000 := by
  obtain ⟨j, hj⟩ := hms_roundtrip k
  refine ⟨j, ?_⟩
  rw [hj]
  have := half_unit x k 24000 (by norm_num) h
  have e : (k : ℝ) / 24000 - 360 * j + 360 * j - x = (k : ℝ) / 24000 - x := by ring
  rw [e]; norm_num at this ⊢; exact this

/-! ### sexagesimal, at the level of the printed STRING: `dec2dec (dec2dms ·)` and `ra2dec (dec2hms ·)`

The model of Python's `str.format` / `str.split` / `float` (Model.C17: `dmsString`, `hmsString`,
`dec2dec`) is hand-written and tied to the code by exact string correspondence; what is proved here is
that, for that model, parsing the formatted string returns the number that was formatted — for every
count `n` (not for a sample of strings). -/

/-- parse ∘ format = id on hundredths of an arcsecond, both signs, for every `n` below 100 deg -/
theorem dms_string_roundtrip (sgn : Bool) (n : Nat) (h : n < 100 * 360000) :
    dec2dec dec2decPosHand dec2decNeg (dmsString sgn (dmsD n) (dmsM n) (dmsCs n))
      = .ok (if sgn then -((n : ℝ) / 360000) else (n : ℝ) / 360000) := by
  have hd : dmsD n < 100 := by rw [dmsD_eq]; unfold fldHi; omega
  have hm : dmsM n < 100 := by rw [dmsM_eq]; have := fldM_lt n; omega
  have hc : dmsCs n < 10000 := by rw [dmsCs_eq]; have := fldCs_lt n; omega
  unfold dec2dec dmsString
  rw [String.toList_ofList, dec2decL_dmsChars _ _ sgn _ _ _ hd hm hc]
  simp only [numVal_int, numVal_negInt, numVal_centi]
  cases sgn
  · simp only [Bool.false_eq_true, if_false]
    rw [dmsD_eq, dmsM_eq, dmsCs_eq, pos_value]
  · simp only [if_true]
    rw [dec2decNeg_eq_hand, dmsD_eq, dmsM_eq, dmsCs_eq, neg_value]

/-- `ra2dec (dec2hms ·)`: the string printed for any integer count `k` parses to `k/24000` degrees
    modulo 360 -/
theorem hms_string_roundtrip (k : Int) :
    ∃ j : Int, (dec2dec dec2decPosHand dec2decNeg
        (hmsString (hmsH (hmsWrap k)) (hmsM (hmsWrap k)) (hmsCs (hmsWrap k)))).map ra2decScale
      = .ok ((k : ℝ) / 24000 - 360 * j) := by
  obtain ⟨j, hj⟩ := hms_roundtrip k
  refine ⟨j, ?_⟩
  have hw := hmsWrap_lt k
  have hh : hmsH (hmsWrap k) < 100 := by rw [hmsH_eq]; unfold fldHi; omega
  have hm : hmsM (hmsWrap k) < 100 := by rw [hmsM_eq]; have := fldM_lt (hmsWrap k); omega
  have hc : hmsCs (hmsWrap k) < 10000 := by rw [hmsCs_eq]; have := fldCs_lt (hmsWrap k); omega
  unfold dec2dec hmsString
  rw [String.toList_ofList, dec2decL_hmsChars _ _ _ _ _ hh hm hc]
  simp only [numVal_int, numVal_centi, Except.map]
  rw [hj]

/-! ### white space, separators and the sign column

`dec2dec` documents the input as `[+- ]dd:mm[:ss.s]` with colons replaceable by white space, so a
right-justified table cell, a tab, or blanks for the colons must parse to the same number, and the
sign must come from the first *field* (not from the raw string, and not from the numeric value of the
degrees field: `float('-00')` is `-0.0`, which is not `< 0`). -/

theorem dec2dec_ofList {α : Type} [R α] (pos neg : α → α → α → α) (l : List Char) :
    dec2dec pos neg (String.ofList l) = dec2decL pos neg l := by
  unfold dec2dec; rw [String.toList_ofList]

theorem blank_isSep (l : List Char) (h : ∀ c ∈ l, c.isWhitespace = true) : ∀ c ∈ l, isSep c = true := by
  intro c hc; simp [isSep, h c hc]

/-- **parsing is invariant under leading/trailing ASCII white space and under blanks for colons**:
    any padding of the printed Dec string, with either separator, parses to `±n/360000` -/
theorem dms_string_roundtrip_padded (sgn : Bool) (n : Nat) (h : n < 100 * 360000) (pre post : List Char)
    (hpre : ∀ c ∈ pre, c.isWhitespace = true) (hpost : ∀ c ∈ post, c.isWhitespace = true) :
    dec2dec dec2decPosHand dec2decNeg
        (String.ofList (pre ++ (dmsChars sgn (dmsD n) (dmsM n) (dmsCs n) ++ post)))
      = .ok (if sgn then -((n : ℝ) / 360000) else (n : ℝ) / 360000) ∧
    dec2dec dec2decPosHand dec2decNeg
        (String.ofList (pre ++ ((dmsChars sgn (dmsD n) (dmsM n) (dmsCs n)).map colonToSpace ++ post)))
      = .ok (if sgn then -((n : ℝ) / 360000) else (n : ℝ) / 360000) := by
  have base := dms_string_roundtrip sgn n h
  unfold dmsString at base
  rw [dec2dec_ofList] at base
  refine ⟨?_, ?_⟩
  · rw [dec2dec_ofList, dec2decL_pad _ _ _ _ _ (blank_isSep pre hpre) (blank_isSep post hpost)]
    exact base
  · rw [dec2dec_ofList, dec2decL_pad _ _ _ _ _ (blank_isSep pre hpre) (blank_isSep post hpost),
      dec2decL_colonToSpace]
    exact base

/-- **the sign survives a zero degrees field**: for a negative angle with |x| < 1° the printed string
    is `-00:MM:SS.SS`, and however it is padded it parses to the negative number `−n/360000` -/
theorem dms_negative_below_one_degree (n : Nat) (h0 : 0 < n) (h1 : n < 360000) (pre post : List Char)
    (hpre : ∀ c ∈ pre, c.isWhitespace = true) (hpost : ∀ c ∈ post, c.isWhitespace = true) :
    dmsD n = 0 ∧
    dec2dec dec2decPosHand dec2decNeg
        (String.ofList (pre ++ (dmsChars true (dmsD n) (dmsM n) (dmsCs n) ++ post)))
      = .ok (-((n : ℝ) / 360000)) ∧ -((n : ℝ) / 360000) < 0 := by
  refine ⟨by rw [dmsD_eq]; unfold fldHi; omega, ?_, ?_⟩
  · have := (dms_string_roundtrip_padded true n (by omega) pre post hpre hpost).1
    simpa using this
  · have : (0 : ℝ) < n := by exact_mod_cast h0
    have : (0 : ℝ) < (n : ℝ) / 360000 := by positivity
    linarith

/-- the RA string, padded and with either separator -/
theorem hms_string_roundtrip_padded (k : Int) (pre post : List Char)
    (hpre : ∀ c ∈ pre, c.isWhitespace = true) (hpost : ∀ c ∈ post, c.isWhitespace = true) :
    ∃ j : Int,
      (dec2dec dec2decPosHand dec2decNeg (String.ofList
        (pre ++ (hmsChars (hmsH (hmsWrap k)) (hmsM (hmsWrap k)) (hmsCs (hmsWrap k)) ++ post)))).map ra2decScale
        = .ok ((k : ℝ) / 24000 - 360 * j) ∧
      (dec2dec dec2decPosHand dec2decNeg (String.ofList
        (pre ++ ((hmsChars (hmsH (hmsWrap k)) (hmsM (hmsWrap k)) (hmsCs (hmsWrap k))).map colonToSpace ++ post)))).map
          ra2decScale = .ok ((k : ℝ) / 24000 - 360 * j) := by
  obtain ⟨j, base⟩ := hms_string_roundtrip k
  unfold hmsString at base
  rw [dec2dec_ofList] at base
  refine ⟨j, ?_, ?_⟩
  · rw [dec2dec_ofList, dec2decL_pad _ _ _ _ _ (blank_isSep pre hpre) (blank_isSep post hpost)]
    exact base
  · rw [dec2dec_ofList, dec2decL_pad _ _ _ _ _ (blank_isSep pre hpre) (blank_isSep post hpost),
      dec2decL_colonToSpace]
    exact base

/-- whatever the fields are: if the first field starts with '-', a successful parse used the
    subtracting branch (so `-00 07 24.42`, `-0:30` are negative) -/
theorem sign_from_first_field (s : String) (b t1 : List Char) (rest : List (List Char))
    (ht : tokensL s.toList = ('-' :: b) :: t1 :: rest) (v : ℝ)
    (hv : dec2dec dec2decPosHand dec2decNeg s = .ok v) : ∃ x y z, v = dec2decNeg x y z :=
  dec2decL_minus _ _ _ b t1 rest ht v hv

/-! ### Deepening round: more of the formatters and of the parser regenerated, and the end-to-end inverse

`dec2decPos` (the non-negative branch of `dec2dec`), `dmsScaled` / `hmsScaled` (the quantities that are
rounded: `abs(float(x))·360000`, `float(x)·24000`) and `hmsWrapZ` (`· % 8640000`) are regenerated too.
`Model.C17.dec2dmsGlue / dec2hmsGlue` assemble the whole formatters from the regenerated pieces (tied to
the code by the driver op `fmtx`); what stays hand-written is the non-finite guard, `int(round(·))`,
the sign test and the format string. -/

theorem dec2decPos_eq_hand (d0 d1 d2 : ℝ) : dec2decPos d0 d1 d2 = dec2decPosHand d0 d1 d2 := by
  try simp only [dec2decPos, dec2decPosHand, R.real_ofNat]
  try ring_nf

/-- the quantity `dec2dms` rounds is `|x|·360000`: hundredths of an arcsecond, the unit of `dmsD/dmsM/dmsCs` -/
theorem dmsScaled_eq (x : ℝ) : dmsScaled x = |x| * 360000 := by
  try simp only [dmsScaled, dmsScaledHand, R.real_abs, R.real_ofNat, Nat.cast_ofNat]
  try ring_nf

/-- the quantity `dec2hms` rounds is `x·24000`: hundredths of a second of time -/
theorem hmsScaled_eq (x : ℝ) : hmsScaled x = x * 24000 := by
  try simp only [hmsScaled, hmsScaledHand, R.real_ofNat, Nat.cast_ofNat]
  try ring_nf

/-- the regenerated wrap lands in one day, changes the count by whole days, and is the modelled `hmsWrap` -/
theorem hmsWrapZ_spec (k : Int) :
    0 ≤ hmsWrapZ k ∧ hmsWrapZ k < 8640000 ∧ (∃ j : Int, hmsWrapZ k = k - 8640000 * j) ∧
      (hmsWrapZ k).toNat = hmsWrap k := by
  have e : hmsWrapZ k = k % 8640000 := by
    simp only [hmsWrapZ, hmsWrapZHand]
    first
      | exact Int.fmod_eq_emod_of_nonneg k (by decide)
      | (rw [Int.fmod_eq_emod_of_nonneg k (by omega)]; omega)
  refine ⟨by omega, by omega, ⟨k / 8640000, by omega⟩, ?_⟩
  unfold hmsWrap; rw [e]

theorem dec2decPos_funext : (dec2decPos : ℝ → ℝ → ℝ → ℝ) = dec2decPosHand := by
  funext a b c; exact dec2decPos_eq_hand a b c

/-- **Dec, end to end at the string level.**  Let `n` be the regenerated `dmsScaled x = |x|·360000`
    rounded to nearest (any tie rule), `|x| < 99`, and let the sign character agree with the sign of `x`
    whenever the printed digits are not all zero (for an all-zero string either sign is allowed).  Then
    `dec2dec` accepts the string `dec2dms` prints and returns a value within half a unit of the last
    printed digit (0.005 arcsec) of `x` itself. -/
theorem dec2dms_dec2dec_inverse (x : ℝ) (n : Nat) (sgn : Bool) (hr : IsRound (dmsScaled x) n) (hx : |x| < 99)
    (hs : n ≠ 0 → (sgn = true ↔ x < 0)) :
    ∃ v : ℝ, dec2dec dec2decPos dec2decNeg (dmsString sgn (dmsD n) (dmsM n) (dmsCs n)) = .ok v ∧
      |v - x| ≤ 1 / 720000 := by
  rw [dmsScaled_eq] at hr
  have hu := half_unit |x| n 360000 (by norm_num) (by simpa using hr)
  have hn : n < 100 * 360000 := by
    have h1 : abs (abs x * 360000 - (n : ℝ)) ≤ 1 / 2 := by simpa [IsRound] using hr
    have h2 := (abs_le.mp h1).1
    have : (n : ℝ) < 100 * 360000 := by nlinarith
    exact_mod_cast this
  rw [dec2decPos_funext]
  refine ⟨_, dms_string_roundtrip sgn n hn, ?_⟩
  have hu' : abs ((n : ℝ) / 360000 - abs x) ≤ 1 / 720000 := by norm_num at hu ⊢; exact hu
  by_cases h0 : n = 0
  · subst h0
    have : |x| ≤ 1 / 720000 := by
      have := (abs_le.mp hu').1; norm_num at this ⊢; linarith
    cases sgn <;> simp <;> simpa [abs_neg] using this
  · have hs' := hs h0
    by_cases hneg : x < 0
    · have : sgn = true := hs'.mpr hneg
      subst this
      simp only [if_true]
      rw [abs_of_neg hneg] at hu'
      have e : -((n : ℝ) / 360000) - x = -((n : ℝ) / 360000 - -x) := by ring
      rw [e, abs_neg]; exact hu'
    · have : sgn = false := by
        cases sgn
        · rfl
        · exact absurd (hs'.mp rfl) hneg
      subst this
      simp only [Bool.false_eq_true, if_false]
      rw [abs_of_nonneg (not_lt.mp hneg)] at hu'
      exact hu'

/-- **RA, end to end at the string level.**  Let `k` be the regenerated `hmsScaled x = x·24000` rounded to
    nearest; the string `dec2hms` prints for the regenerated wrap of `k` is accepted by `ra2dec`, whose
    value is within half a unit of the last printed digit (0.005 s = 1/48000 deg) of `x` modulo 360. -/
theorem dec2hms_ra2dec_inverse (x : ℝ) (k : Int) (hr : IsRound (hmsScaled x) k) :
    ∃ (v : ℝ) (j : Int),
      (dec2dec dec2decPos dec2decNeg
        (hmsString (hmsH (hmsWrapZ k).toNat) (hmsM (hmsWrapZ k).toNat) (hmsCs (hmsWrapZ k).toNat))).map ra2decScale
        = .ok v ∧ |v + 360 * j - x| ≤ 1 / 48000 := by
  rw [hmsScaled_eq] at hr
  obtain ⟨j, hj⟩ := hms_string_roundtrip k
  rw [(hmsWrapZ_spec k).2.2.2, dec2decPos_funext]
  refine ⟨_, j, hj, ?_⟩
  have := half_unit x k 24000 (by norm_num) hr
  have e : (k : ℝ) / 24000 - 360 * j + 360 * j - x = (k : ℝ) / 24000 - x := by ring
  rw [e]; norm_num at this ⊢; exact this

/-- the fields printed by `dec2hms` through the regenerated wrap are in range for every integer count -/
theorem hms_fields_wrapZ (k : Int) :
    hmsH (hmsWrapZ k).toNat < 24 ∧ hmsM (hmsWrapZ k).toNat < 60 ∧ hmsCs (hmsWrapZ k).toNat / 100 < 60 := by
  rw [(hmsWrapZ_spec k).2.2.2]
  exact ⟨(hms_fields k).1, (hms_fields k).2.1, (hms_fields k).2.2.1⟩

/-! ### Non-vacuity, and the negation witnesses for the pinned Float formatters -/

example : dmsD 3960000 = 11 ∧ dmsM 3960000 = 0 ∧ dmsCs 3960000 = 0 := by decide
example : dmsD 3959999 = 10 ∧ dmsM 3959999 = 59 ∧ dmsCs 3959999 = 5999 := by decide
example : hmsWrap (-1) = 8639999 ∧ hmsH (hmsWrap 8640000) = 0 := by decide
example : hmsWrapZ (-1) = 8639999 ∧ hmsWrapZ 8640000 = 0 ∧ hmsWrapZ 565627 = 565627 := by decide
example : IsRound (dmsScaled (-0.12345 : ℝ)) 44442 := by
  rw [dmsScaled_eq]; unfold IsRound; norm_num [abs_of_neg, abs_le]
example : dmsString false (dmsD 3960000) (dmsM 3960000) (dmsCs 3960000) = "+11:00:00.00" := by decide +kernel
example : dmsString true (dmsD 3959999) (dmsM 3959999) (dmsCs 3959999) = "-10:59:59.99" := by decide +kernel
example : hmsString (hmsH (hmsWrap (-1))) (hmsM (hmsWrap (-1))) (hmsCs (hmsWrap (-1))) = "23:59:59.99" := by
  decide +kernel
example : tokensL "  -00:07:24.42".toList = ["-00".toList, "07".toList, "24.42".toList] := by decide +kernel
example : tokensL "\t-0 30 ".toList = ["-0".toList, "30".toList] := by decide +kernel
example : tokensL "-00 01 23.456".toList = ["-00".toList, "01".toList, "23.456".toList] := by decide +kernel

/-- the pinned `dec2dms` prints a seconds field of 60.00: `10.9999999 ↦ "+10:59:60.00"` -/
theorem pinned_dms_prints_60 : pinnedDms 10.9999999 = (false, 10, 59, 6000) := by decide +kernel

/-- the pinned `dec2hms` prints `"00:59:60.00"` for RA = 14.9999999 deg, and an hour field of 24 for a
    tiny negative RA -/
theorem pinned_hms_prints_60 : pinnedHms 14.9999999 = (0, 59, 6000) := by decide +kernel
theorem pinned_hms_prints_24h : (pinnedHms (-1e-20)).1 = 24 := by decide +kernel

end Aegean.Properties.C17
