/-
  C05 — Priorized fitting measures the catalogued sources where and as catalogued.

  The theorems are about the model `Aegean.Model.C05` of `SourceFinder._refit_islands` instantiated
  with the leaves regenerated from the current source (`Gen.C05.*`: the four bound updates, the bounds
  of the data / rms / result cut-outs, the offsets subtracted from and added to the positions, the
  stage → vary table, the two copy-back guards, `elliptical_gaussian`).  The optimiser and the error
  propagation are arbitrary functions; where a theorem needs something of them it says so (`OptLaw`).

  PARTIAL (clauses of the property that are *not* theorems; they are sampled by harness/corr_C05.py):
    * "the returned fluxes / positions / shapes equal the catalogue values (0.1 % / 0.01 px)" — proved is
      `residual_zero_at_catalogue` (the catalogue parameters are an exact zero of the residual the
      optimiser is given, for every cut-out); that lmfit/MINPACK stays at / converges to that zero is
      the optimiser's behaviour.
    * "parameters not freed come back equal to the input values" — proved in pixel space
      (`fixed_params_returned_partial`: the 1-based pixel position handed to `pix2sky_ellipse` is exactly
      the one `sky2pix` gave, and sx, sy, theta are untouched); the sky ↔ pixel round trip of
      `wcs_helpers` is property C16's.
-/
import Aegean.Generated.C05
import Aegean.Model.C05
import Aegean.Proofs.C05
import Aegean.Proofs.C05Real

namespace Aegean.Properties.C05
open Gen.C05 Aegean.Model.C05 Aegean.Proofs.C05

/-! ### 0. the environment: every code-derived leaf is the regenerated definition -/

/-- the model of the current source, over a numeric type `α`, with an arbitrary optimiser -/
def genEnv {α : Type} [R α] (ofInt : Int → α) (nan : α) (hasData : Box → Par α → Bool)
    (nPix : Box → List (Comp α) → Nat) (opt : Box → List (Comp α) → List (Par α))
    (fitErr : Box → Par α → Vary → Errs α) : Env α :=
  { xminStep := xminStep, xmaxStep := xmaxStep, yminStep := yminStep, ymaxStep := ymaxStep
    subX := subXoVal, subY := subYoVal, sliceX0 := sliceX0, sliceY0 := sliceY0, addX := boxX0, addY := boxY0
    varyAmp := varyAmp, varyXo := varyXo, varyYo := varyYo, varySx := varySx, varySy := varySy
    varyTheta := varyTheta, copyPosErr := copyPosErr, copyShapeErr := copyShapeErr
    xoLocal := xoLocal, yoLocal := yoLocal, xPix := xPix, yPix := yPix
    ofInt := ofInt, nan := nan, hasData := hasData, nPix := nPix, opt := opt, fitErr := fitErr }

/-! ### 1. obligations on the regenerated leaves (these break when the source changes meaning) -/

theorem xminStep_spec (a b c d x y : Int) (xw yw n0 n1 : Nat) :
    xminStep a b c d x y xw yw n0 n1 = min a (max 0 (x - ((xw / 2 : Nat) : Int))) := by
  simp only [xminStep, xminStepHand] <;> (first | omega | grind)

theorem xmaxStep_spec (a b c d x y : Int) (xw yw n0 n1 : Nat) :
    xmaxStep a b c d x y xw yw n0 n1 = max b (min (n0 : Int) (x + ((xw / 2 : Nat) : Int) + 1)) := by
  simp only [xmaxStep, xmaxStepHand] <;> (first | omega | grind)

theorem yminStep_spec (a b c d x y : Int) (xw yw n0 n1 : Nat) :
    yminStep a b c d x y xw yw n0 n1 = min c (max 0 (y - ((yw / 2 : Nat) : Int))) := by
  simp only [yminStep, yminStepHand] <;> (first | omega | grind)

theorem ymaxStep_spec (a b c d x y : Int) (xw yw n0 n1 : Nat) :
    ymaxStep a b c d x y xw yw n0 n1 = max d (min (n1 : Int) (y + ((yw / 2 : Nat) : Int) + 1)) := by
  simp only [ymaxStep, ymaxStepHand] <;> (first | omega | grind)

theorem genEnv_stepLaws {α : Type} [R α] (oi : Int → α) (nan : α) (hd : Box → Par α → Bool)
    (np : Box → List (Comp α) → Nat) (opt : Box → List (Comp α) → List (Par α))
    (fe : Box → Par α → Vary → Errs α) : StepLaws (genEnv oi nan hd np opt fe) :=
  ⟨xminStep_spec, xmaxStep_spec, yminStep_spec, ymaxStep_spec⟩

/-- **same_offset**: the first pixel of the data cut-out, of the rms cut-out and of the box used by
    `result_to_components`, the offset subtracted from every `xo` (value and both limits) and the
    offset added back are all one and the same integer — `xmin` itself (likewise `ymin`); the data and
    rms cut-outs also end at the same pixel -/
theorem same_offset (xmin xmax ymin ymax : Int) :
    sliceX0 xmin xmax ymin ymax = xmin ∧ subXoVal xmin xmax ymin ymax = xmin ∧
    subXoMin xmin xmax ymin ymax = xmin ∧ subXoMax xmin xmax ymin ymax = xmin ∧
    boxX0 xmin xmax ymin ymax = xmin ∧ rmsX0 xmin xmax ymin ymax = xmin ∧
    sliceY0 xmin xmax ymin ymax = ymin ∧ subYoVal xmin xmax ymin ymax = ymin ∧
    subYoMin xmin xmax ymin ymax = ymin ∧ subYoMax xmin xmax ymin ymax = ymin ∧
    boxY0 xmin xmax ymin ymax = ymin ∧ rmsY0 xmin xmax ymin ymax = ymin ∧
    sliceX1 xmin xmax ymin ymax = xmax ∧ rmsX1 xmin xmax ymin ymax = xmax ∧
    sliceY1 xmin xmax ymin ymax = ymax ∧ rmsY1 xmin xmax ymin ymax = ymax := by
  simp only [sliceX0, subXoVal, subXoMin, subXoMax, boxX0, rmsX0, sliceY0, subYoVal, subYoMin, subYoMax,
    boxY0, rmsY0, sliceX1, rmsX1, sliceY1, rmsY1]
  first | trivial | omega | grind

/-- **vary_table**: the amplitude is always free; the position from stage 2; the shape from stage 3;
    the flags never — for every stage number -/
theorem vary_table (stage : Nat) :
    varyAmp stage = true ∧ (varyXo stage = true ↔ 2 ≤ stage) ∧ (varyYo stage = true ↔ 2 ≤ stage) ∧
    (varySx stage = true ↔ 3 ≤ stage) ∧ (varySy stage = true ↔ 3 ≤ stage) ∧
    (varyTheta stage = true ↔ 3 ≤ stage) ∧ varyFlags stage = false := by
  simp only [varyAmp, varyXo, varyYo, varySx, varySy, varyTheta, varyFlags, varyAmpHand, varyPosHand, varyShapeHand,
    varyFlagsHand, decide_eq_true_eq, ge_iff_le]
  first | trivial | omega | grind

/-- the table at the three documented stages -/
theorem vary_table_stages :
    (varyAmp 1, varyXo 1, varyYo 1, varySx 1, varySy 1, varyTheta 1) = (true, false, false, false, false, false) ∧
    (varyAmp 2, varyXo 2, varyYo 2, varySx 2, varySy 2, varyTheta 2) = (true, true, true, false, false, false) ∧
    (varyAmp 3, varyXo 3, varyYo 3, varySx 3, varySy 3, varyTheta 3) = (true, true, true, true, true, true) := by
  decide

/-- **copy_iff_not_varied**: the input position errors are copied back exactly when the position is
    not freed, the input shape errors exactly when the shape is not freed -/
theorem copy_iff_not_varied (stage : Nat) :
    (copyPosErr stage = true ↔ varyXo stage = false) ∧ (copyPosErr stage = true ↔ varyYo stage = false) ∧
    (copyShapeErr stage = true ↔ varySx stage = false) ∧ (copyShapeErr stage = true ↔ varySy stage = false) ∧
    (copyShapeErr stage = true ↔ varyTheta stage = false) := by
  simp only [copyPosErr, copyShapeErr, varyXo, varyYo, varySx, varySy, varyTheta, copyPosErrHand, copyShapeErrHand,
    varyPosHand, varyShapeHand, decide_eq_true_eq, decide_eq_false_iff_not, ge_iff_le]
  first | omega | grind

/-! ### 1b. the regenerated per-source acceptance decision -/

/-- **reject_iff**: for EVERY image shape `(n0, n1)` — square or not — and every pixel, the regenerated test lets a row
    through exactly when its rounded pixel is a valid index of the image (row index against the number of rows, column
    index against the number of columns), the image and the rms map are finite there and there is a beam -/
theorem reject_iff (x y : Int) (n0 n1 d r b : Nat) :
    rejectSrc x y n0 n1 d r b = false ↔
      (0 ≤ x ∧ x < (n0 : Int) ∧ 0 ≤ y ∧ y < (n1 : Int) ∧ d ≠ 0 ∧ r ≠ 0 ∧ b = 0) := by
  simp only [rejectSrc, rejectSrcHand, decide_eq_false_iff_not, Bool.not_eq_false', Bool.and_eq_true, decide_eq_true_eq,
    and_false, false_or, or_false, false_and, and_true, true_and, not_not, ne_eq]
  first | omega | grind

/-- a row that is let through never indexes outside the arrays: `data[x, y]`, `rmsimg[x, y]` are legal for it -/
theorem accepted_pixel_is_valid_index (x y : Int) (n0 n1 d r b : Nat) (h : rejectSrc x y n0 n1 d r b = false) :
    0 ≤ x ∧ x < (n0 : Int) ∧ 0 ≤ y ∧ y < (n1 : Int) := by
  have := (reject_iff x y n0 n1 d r b).mp h
  omega

/-- **accepted_eq_regenerated**: the model's acceptance filter `accepted` (on which every theorem of §2–§5 rests) IS the
    regenerated decision, for every image and every row: with `finite = data finite ∧ rms finite` and a beam present -/
theorem accepted_eq_regenerated {α : Type} (n0 n1 : Nat) (dfin rfin : Int → Int → Bool) (s : Src α) :
    accepted ⟨n0, n1, fun x y => dfin x y && rfin x y⟩ s
      = !rejectSrc s.x s.y n0 n1 (dfin s.x s.y).toNat (rfin s.x s.y).toNat 0 := by
  have h := reject_iff s.x s.y n0 n1 (dfin s.x s.y).toNat (rfin s.x s.y).toNat 0
  cases hr : rejectSrc s.x s.y n0 n1 (dfin s.x s.y).toNat (rfin s.x s.y).toNat 0
  · obtain ⟨h1, h2, h3, h4, h5, h6, _⟩ := h.mp hr
    have d1 : dfin s.x s.y = true := by cases hd : dfin s.x s.y <;> simp [hd] at h5 ⊢
    have r1 : rfin s.x s.y = true := by cases hd : rfin s.x s.y <;> simp [hd] at h6 ⊢
    simp [accepted, h1, h2, h3, h4, d1, r1]
  · cases ha : accepted ⟨n0, n1, fun x y => dfin x y && rfin x y⟩ s
    · rfl
    · exfalso
      obtain ⟨a1, a2, a3, a4, a5⟩ := accepted_range _ s ha
      simp only [Bool.and_eq_true] at a5
      have : rejectSrc s.x s.y n0 n1 (dfin s.x s.y).toNat (rfin s.x s.y).toNat 0 = false :=
        h.mpr ⟨a1, a2, a3, a4, by simp [a5.1], by simp [a5.2], rfl⟩
      rw [hr] at this
      exact Bool.noConfusion this

/-- without a beam the row is always skipped -/
theorem no_beam_rejected (x y : Int) (n0 n1 d r b : Nat) (hb : b ≠ 0) : rejectSrc x y n0 n1 d r b = true := by
  cases h : rejectSrc x y n0 n1 d r b
  · exact absurd ((reject_iff x y n0 n1 d r b).mp h).2.2.2.2.2.2 hb
  · rfl

/-- non-vacuity on a landscape image (60 rows × 110 columns): row 65 is off the image, column 65 is on it -/
example : rejectSrc 65 50 60 110 1 1 0 = true ∧ rejectSrc 50 65 60 110 1 1 0 = false ∧ rejectSrc 50 65 60 110 0 1 0 = true := by
  decide

/-- negation witness for the slip "both indices against the number of columns" (seeded C05-11): on the landscape image
    it lets row 65 of 60 through (→ IndexError), on the portrait one it skips the valid row 65 of 110 -/
theorem both_against_columns_is_wrong :
    rejectBothAgainstColumns 65 50 60 110 1 1 0 = false ∧ rejectBothAgainstColumns 65 50 110 60 1 1 0 = true := by
  decide

section island
variable {α : Type} [R α] (oi : Int → α) (nan : α) (hd : Box → Par α → Bool)
  (np : Box → List (Comp α) → Nat) (opt : Box → List (Comp α) → List (Par α))
  (fe : Box → Par α → Vary → Errs α)

local notation "E" => genEnv oi nan hd np opt fe

/-! ### 2. acceptance filter, one component per accepted source -/

/-- **acceptance filter**: a source takes part iff its rounded pixel lies in the image and the image
    and rms map are finite there -/
theorem accepted_iff (im : Img) (s : Src α) :
    accepted im s = true ↔
      (0 ≤ s.x ∧ s.x < (im.n0 : Int) ∧ 0 ≤ s.y ∧ s.y < (im.n1 : Int) ∧ im.finite s.x s.y = true) := by
  constructor
  · exact accepted_range im s
  · intro ⟨h1, h2, h3, h4, h5⟩
    simp [accepted, h1, h2, h3, h4, h5]

/-- **one_component_per_accepted_source** (one island): whatever the optimiser returns, the outputs
    are in one-to-one, order-preserving correspondence with an initial segment of the island's
    accepted sources and carry their uuids; in particular there are never more outputs than
    accepted sources and a rejected source never yields an output -/
theorem one_component_per_accepted_source (im : Img) (stage : Nat) (isle : List (Src α)) :
    ((refitIsland E im stage isle).map (·.uuid)) <+: ((isle.filter (accepted im)).map (·.uuid)) ∧
    (refitIsland E im stage isle).length ≤ (isle.filter (accepted im)).length := by
  have h := refitIsland_uuid_prefix E im stage isle
  refine ⟨h, ?_⟩
  have := h.length_le
  simpa using this

/-- … over the whole catalogue (all islands of all groups): the output uuids are a sub-sequence of
    the accepted sources' uuids -/
theorem one_component_catalogue (im : Img) (stage : Nat) (groups : List (List (Src α))) :
    ((refitAll E im stage groups).map (·.uuid)).Sublist ((groups.flatten.filter (accepted im)).map (·.uuid)) :=
  refitAll_uuid_sublist E im stage groups

/-- … so when the catalogue's uuids are distinct no uuid is measured twice -/
theorem at_most_one_component_per_source (im : Img) (stage : Nat) (groups : List (List (Src α)))
    (hnd : (groups.flatten.map (·.uuid)).Nodup) :
    ((refitAll E im stage groups).map (·.uuid)).Nodup := by
  have h1 := one_component_catalogue oi nan hd np opt fe im stage groups
  have h2 : ((groups.flatten.filter (accepted im)).map (·.uuid)).Sublist (groups.flatten.map (·.uuid)) :=
    (List.filter_sublist).map _
  exact List.Nodup.sublist (h1.trans h2) hnd

/-- every output carries its own source's uuid and the PRIORIZED flag (bit 6) — whatever flags the
    fit produced -/
theorem uuid_and_priorized (im : Img) (stage : Nat) (isle : List (Src α)) (k : Nat) (o : Out α)
    (h : (refitIsland E im stage isle)[k]? = some o) :
    ∃ s, (isle.filter (accepted im))[k]? = some s ∧ o.uuid = s.uuid ∧ o.flags.testBit 6 = true := by
  unfold refitIsland at h
  rw [loop_eq] at h
  obtain ⟨ps, p, s, _, _, hs, ho⟩ := finish_getElem? E stage _ _ _ k o h
  refine ⟨s, hs, ?_, ?_⟩
  · rw [ho]; rfl
  · rw [ho]; exact copyBack_priorized _ _ _ _

/-- when the island is fitted (not skipped for lack of pixels) and the optimiser returns one block
    per block it was given, every accepted source is measured: exactly one component each -/
theorem one_component_exact (hl : OptLaw E) (im : Img) (stage : Nat) (isle : List (Src α))
    (hfit : fitIsland E (bounds E im (isle.filter (accepted im)))
      ((isle.filter (accepted im)).map (blockOf E stage (bounds E im (isle.filter (accepted im))))) ≠ none) :
    (refitIsland E im stage isle).map (·.uuid) = (isle.filter (accepted im)).map (·.uuid) := by
  unfold refitIsland
  rw [loop_eq]
  have e := finish_eq E stage (isFlags isle) (bounds E im (isle.filter (accepted im))) (isle.filter (accepted im))
  unfold accOf at e
  rw [e]
  by_cases hemp : (isle.filter (accepted im)).isEmpty = true
  · rw [if_pos hemp]; simp [List.isEmpty_iff.mp hemp]
  · rw [if_neg hemp]
    cases hf : fitIsland E (bounds E im (isle.filter (accepted im)))
        ((isle.filter (accepted im)).map (blockOf E stage (bounds E im (isle.filter (accepted im))))) with
    | none => exact absurd hf hfit
    | some ps =>
      simp only
      rw [zipWith_map_take (outOf E stage _ _) (·.uuid) (·.uuid) (by intro a s; rfl)]
      have hlen := (fitIsland_spec E hl _ _ ps hf).1
      simp only [List.length_map] at hlen
      rw [hlen, List.take_length]

/-- **rejected_sources_do_not_perturb**: the state the per-source loop hands on — cut-out bounds,
    parameter blocks (values, limits' offsets, vary flags) and `included_sources` — is the same whether
    or not rejected sources are present, wherever they sit in the island -/
theorem rejected_sources_do_not_perturb (im : Img) (stage : Nat) (isle isle' : List (Src α))
    (h : isle.filter (accepted im) = isle'.filter (accepted im)) :
    (loop E im stage isle).box = (loop E im stage isle').box ∧
    (loop E im stage isle).comps.map (fun c => (c.v, c.flags)) = (loop E im stage isle').comps.map (fun c => (c.v, c.flags)) ∧
    (loop E im stage isle).comps.map (·.p) = (loop E im stage isle').comps.map (·.p) ∧
    (loop E im stage isle).inc.map (·.uuid) = (loop E im stage isle').inc.map (·.uuid) := by
  rw [loop_eq, loop_eq, h]
  exact ⟨rfl, rfl, rfl, rfl⟩

/-- inserting a rejected source anywhere changes nothing of that state -/
theorem insert_rejected (im : Img) (stage : Nat) (l₁ l₂ : List (Src α)) (r : Src α) (hr : accepted im r = false) :
    (loop E im stage (l₁ ++ r :: l₂)).box = (loop E im stage (l₁ ++ l₂)).box ∧
    (loop E im stage (l₁ ++ r :: l₂)).inc.map (·.uuid) = (loop E im stage (l₁ ++ l₂)).inc.map (·.uuid) := by
  have h := rejected_sources_do_not_perturb oi nan hd np opt fe im stage (l₁ ++ r :: l₂) (l₁ ++ l₂)
    (by simp [List.filter_append, hr])
  exact ⟨h.1, h.2.2.2⟩

/-- … and, the island flags being equal (they are those of the island's last row), the outputs are
    identical -/
theorem rejected_sources_same_output (im : Img) (stage : Nat) (isle isle' : List (Src α))
    (h : isle.filter (accepted im) = isle'.filter (accepted im)) (hf : isFlags isle = isFlags isle') :
    (refitIsland E im stage isle).map (fun o => (o.uuid, o.flags)) =
      (refitIsland E im stage isle').map (fun o => (o.uuid, o.flags)) ∧
    (refitIsland E im stage isle).map (·.p) = (refitIsland E im stage isle').map (·.p) ∧
    (refitIsland E im stage isle).map (·.e) = (refitIsland E im stage isle').map (·.e) := by
  unfold refitIsland
  rw [loop_eq, loop_eq, h, hf]
  exact ⟨rfl, rfl, rfl⟩

/-! ### 3. the cut-out bounds -/

/-- **cutout_contains_sources**: the cut-out lies inside the image and contains the rounded pixel of
    every accepted source of the island (so it is never empty) -/
theorem cutout_contains_sources (im : Img) (isle : List (Src α)) :
    let b := bounds E im (isle.filter (accepted im))
    0 ≤ b.xmin ∧ b.xmax ≤ (im.n0 : Int) ∧ 0 ≤ b.ymin ∧ b.ymax ≤ (im.n1 : Int) ∧
    ∀ s ∈ isle.filter (accepted im), b.xmin ≤ s.x ∧ s.x < b.xmax ∧ b.ymin ≤ s.y ∧ s.y < b.ymax := by
  intro b
  have hl := genEnv_stepLaws oi nan hd np opt fe
  have hr := foldl_range E hl im (isle.filter (accepted im)) (Box.init im)
    (by simp only [Box.init]; omega)
  refine ⟨hr.1, hr.2.1, hr.2.2.1, hr.2.2.2, ?_⟩
  intro s hs
  have hw := foldl_window E hl im (isle.filter (accepted im)) (Box.init im) s hs
  have ha := accepted_range im s (List.mem_filter.mp hs).2
  simp only [winLoX, winHiX, winLoY, winHiY] at hw
  show (bounds E im _).xmin ≤ s.x ∧ s.x < (bounds E im _).xmax ∧ (bounds E im _).ymin ≤ s.y ∧ s.y < (bounds E im _).ymax
  unfold bounds
  omega

/-- **cutout_covers_windows**: for every accepted source the window
    `[x − xwidth div 2, x + xwidth div 2]`, clipped to the image, lies inside the cut-out -/
theorem cutout_covers_windows (im : Img) (isle : List (Src α)) (s : Src α) (hs : s ∈ isle.filter (accepted im)) :
    let b := bounds E im (isle.filter (accepted im))
    b.xmin ≤ max 0 (s.x - ((s.xw / 2 : Nat) : Int)) ∧ min (im.n0 : Int) (s.x + ((s.xw / 2 : Nat) : Int) + 1) ≤ b.xmax ∧
    b.ymin ≤ max 0 (s.y - ((s.yw / 2 : Nat) : Int)) ∧ min (im.n1 : Int) (s.y + ((s.yw / 2 : Nat) : Int) + 1) ≤ b.ymax :=
  foldl_window E (genEnv_stepLaws oi nan hd np opt fe) im (isle.filter (accepted im)) (Box.init im) s hs

/-- **cutout_tight**: each side of the cut-out is attained by the window of some accepted source — the
    cut-out is the bounding box of the windows, nothing more -/
theorem cutout_tight (im : Img) (isle : List (Src α)) (hne : isle.filter (accepted im) ≠ []) :
    let b := bounds E im (isle.filter (accepted im))
    (∃ s ∈ isle.filter (accepted im), b.xmin = max 0 (s.x - ((s.xw / 2 : Nat) : Int))) ∧
    (∃ s ∈ isle.filter (accepted im), b.xmax = min (im.n0 : Int) (s.x + ((s.xw / 2 : Nat) : Int) + 1)) ∧
    (∃ s ∈ isle.filter (accepted im), b.ymin = max 0 (s.y - ((s.yw / 2 : Nat) : Int))) ∧
    (∃ s ∈ isle.filter (accepted im), b.ymax = min (im.n1 : Int) (s.y + ((s.yw / 2 : Nat) : Int) + 1)) := by
  intro b
  have hl := genEnv_stepLaws oi nan hd np opt fe
  obtain ⟨t1, t2, t3, t4⟩ := foldl_tight E hl im (isle.filter (accepted im)) (Box.init im)
  obtain ⟨s0, hs0⟩ := List.exists_mem_of_ne_nil _ hne
  have hc := (cutout_contains_sources oi nan hd np opt fe im isle).2.2.2.2 s0 hs0
  have ha := accepted_range im s0 (List.mem_filter.mp hs0).2
  simp only [winLoX, winHiX, winLoY, winHiY] at t1 t2 t3 t4
  have i1 : (Box.init im).xmin = (im.n0 : Int) := rfl
  have i2 : (Box.init im).xmax = 0 := rfl
  have i3 : (Box.init im).ymin = (im.n1 : Int) := rfl
  have i4 : (Box.init im).ymax = 0 := rfl
  rw [i1] at t1; rw [i2] at t2; rw [i3] at t3; rw [i4] at t4
  unfold bounds at hc
  refine ⟨?_, ?_, ?_, ?_⟩
  · rcases t1 with t | t
    · exfalso; omega
    · exact t
  · rcases t2 with t | t
    · exfalso; omega
    · exact t
  · rcases t3 with t | t
    · exfalso; omega
    · exact t
  · rcases t4 with t | t
    · exfalso; omega
    · exact t

end island

/-! ### 4. registration: the model on the cut-out is the model on the image -/

section real
variable (hd : Box → Par ℝ → Bool) (np : Box → List (Comp ℝ) → Nat)
  (opt : Box → List (Comp ℝ) → List (Par ℝ)) (fe : Box → Par ℝ → Vary → Errs ℝ)

/-- the model over ℝ; `nan` is irrelevant to the theorems (any value) -/
noncomputable def envR : Env ℝ := genEnv (fun z => (z : ℝ)) 0 hd np opt fe

local notation "ER" => envR hd np opt fe

theorem toLocal_par (b : Box) (c : Comp ℝ) :
    (toLocal ER b c).p = shiftPar (b.xmin : ℝ) (b.ymin : ℝ) c.p := by
  have so := same_offset b.xmin b.xmax b.ymin b.ymax
  simp only [toLocal, envR, genEnv, shiftPar, so.2.1, so.2.2.2.2.2.2.2.1]

/-- **registration**: `idata[i][j] = data[i + ox][j + oy]` and every `xo_local = xo − ox`,
    `yo_local = yo − oy` with **the same** `(ox, oy)` (`same_offset`), hence the model evaluated at
    cut-out pixel `(i, j)` with the shifted blocks equals the model on the image at the pixel the
    cut-out value came from — for every box, every number of components, every pixel -/
theorem registration (b : Box) (cs : List (Comp ℝ)) (i j : Int) :
    modelAt ((cs.map (toLocal ER b)).map (·.p)) (i : ℝ) (j : ℝ) =
      modelAt (cs.map (·.p)) ((i + sliceX0 b.xmin b.xmax b.ymin b.ymax : Int) : ℝ)
        ((j + sliceY0 b.xmin b.xmax b.ymin b.ymax : Int) : ℝ) := by
  have so := same_offset b.xmin b.xmax b.ymin b.ymax
  rw [so.1, so.2.2.2.2.2.2.1]
  have e : (cs.map (toLocal ER b)).map (·.p) = (cs.map (·.p)).map (shiftPar (b.xmin : ℝ) (b.ymin : ℝ)) := by
    simp only [List.map_map]
    apply List.map_congr_left
    intro c _
    exact toLocal_par hd np opt fe b c
  rw [e, modelAt_shift]
  push_cast
  rfl

/-- **residual_zero_at_catalogue**: if the image is exactly the noise-free model of the blocks built
    from the catalogue, then on the cut-out the residual `idata − model(local blocks)` that the
    optimiser is handed vanishes at every pixel: the catalogue values are an exact solution, for every
    source size and position (every box, odd or even width) -/
theorem residual_zero_at_catalogue (b : Box) (cs : List (Comp ℝ)) (data : Int → Int → ℝ)
    (hdata : ∀ p q : Int, data p q = modelAt (cs.map (·.p)) (p : ℝ) (q : ℝ)) (i j : Int) :
    data (i + sliceX0 b.xmin b.xmax b.ymin b.ymax) (j + sliceY0 b.xmin b.xmax b.ymin b.ymax)
      - modelAt ((cs.map (toLocal ER b)).map (·.p)) (i : ℝ) (j : ℝ) = 0 := by
  rw [hdata, registration]
  exact sub_self _

/-- **position_roundtrip**: the pixel position reported for a block whose position was not moved by
    the fit is the catalogue position's own pixel (1-based): `(xo − xmin) + xmin + 1 = xo + 1` -/
theorem position_roundtrip (b : Box) (xo yo : ℝ) :
    let ox : ℝ := ((subXoVal b.xmin b.xmax b.ymin b.ymax : Int) : ℝ)
    let oy : ℝ := ((subYoVal b.xmin b.xmax b.ymin b.ymax : Int) : ℝ)
    let ax : ℝ := ((boxX0 b.xmin b.xmax b.ymin b.ymax : Int) : ℝ)
    let ay : ℝ := ((boxY0 b.xmin b.xmax b.ymin b.ymax : Int) : ℝ)
    xPix (xoLocal xo yo ox oy) (yoLocal xo yo ox oy) ax ay = xo + 1 ∧
    yPix (xoLocal xo yo ox oy) (yoLocal xo yo ox oy) ax ay = yo + 1 := by
  have so := same_offset b.xmin b.xmax b.ymin b.ymax
  simp only [so.2.1, so.2.2.2.2.1, so.2.2.2.2.2.2.2.1, so.2.2.2.2.2.2.2.2.2.2.1,
    xPix_eq, yPix_eq, xoLocal_eq, yoLocal_eq]
  constructor <;> ring

/-! ### 5. copy-back -/

/-- **errors_copied** (and uuid / flags): for every output `o` of an island and the accepted source
    `s` at the same position: `o` has `s`'s uuid and PRIORIZED; at stage < 2 the input `err_ra`,
    `err_dec` (and FIXED2PSF); at stage < 3 the input `err_a`, `err_b`, `err_pa` — whatever the
    optimiser and the error propagation returned -/
theorem errors_copied (im : Img) (stage : Nat) (isle : List (Src ℝ)) (k : Nat) (o : Out ℝ)
    (h : (refitIsland ER im stage isle)[k]? = some o) :
    ∃ s, (isle.filter (accepted im))[k]? = some s ∧ o.uuid = s.uuid ∧ o.flags.testBit 6 = true ∧
      (stage < 2 → o.e.ra = s.e.ra ∧ o.e.dec = s.e.dec ∧ o.flags.testBit 2 = true) ∧
      (stage < 3 → o.e.a = s.e.a ∧ o.e.b = s.e.b ∧ o.e.pa = s.e.pa) := by
  unfold refitIsland at h
  rw [loop_eq] at h
  obtain ⟨ps, p, s, _, _, hs, ho⟩ := finish_getElem? ER stage _ _ _ k o h
  refine ⟨s, hs, ?_, ?_, ?_, ?_⟩
  · rw [ho]; rfl
  · rw [ho]; exact copyBack_priorized _ _ _ _
  · intro hst
    rw [ho]
    apply copyBack_pos
    show copyPosErr stage = true
    simp only [copyPosErr, copyPosErrHand, decide_eq_true_eq]
    first | omega | grind
  · intro hst
    rw [ho]
    apply copyBack_shape
    show copyShapeErr stage = true
    simp only [copyShapeErr, copyShapeErrHand, decide_eq_true_eq]
    first | omega | grind

/-- Full statement wanted: *parameters the stage does not free come back equal to the input values*
    (sky position, a, b, pa).  Proved here, in pixel space and for an optimiser that honours
    `vary=False` (`OptLaw`): at stage < 2 the pixel position handed to `pix2sky_ellipse` is exactly the
    1-based pixel position `sky2pix` gave for the catalogue row; at stage < 3 `sx, sy, theta` are exactly
    those `sky2pix_ellipse` gave — also for a component that was not fitted for lack of data.  Not
    proved here: that `pix2sky_ellipse ∘ sky2pix_ellipse` is the identity on (ra, dec, a, b, pa)
    (property C16; sampled by the harness with the property's tolerances). -/
theorem fixed_params_returned_partial (hl : OptLaw ER) (im : Img) (stage : Nat) (isle : List (Src ℝ)) (k : Nat)
    (o : Out ℝ) (h : (refitIsland ER im stage isle)[k]? = some o) :
    ∃ s, (isle.filter (accepted im))[k]? = some s ∧
      (stage < 2 → o.p.xo = s.p.xo + 1 ∧ o.p.yo = s.p.yo + 1) ∧
      (stage < 3 → o.p.sx = s.p.sx ∧ o.p.sy = s.p.sy ∧ o.p.theta = s.p.theta) := by
  unfold refitIsland at h
  rw [loop_eq] at h
  obtain ⟨ps, p, s, hfit, hp, hs, ho⟩ := finish_getElem? ER stage _ _ _ k o h
  refine ⟨s, hs, ?_, ?_⟩
  all_goals
    intro hst
    have hc : ((isle.filter (accepted im)).map
        (blockOf ER stage (bounds ER im (isle.filter (accepted im)))))[k]? =
        some (blockOf ER stage (bounds ER im (isle.filter (accepted im))) s) := by
      simp [List.getElem?_map, hs]
    have hfix := (fitIsland_spec ER hl _ _ ps hfit).2 k _ p hc hp
    have hb := blockOf_spec ER stage (bounds ER im (isle.filter (accepted im))) s
    simp only at hb
    obtain ⟨b1, b2, b3, b4, b5, bv⟩ := hb
    have vt := vary_table stage
  · -- position
    have hvx : (blockOf ER stage (bounds ER im (isle.filter (accepted im))) s).v.xo = false := by
      rcases bv with bv | bv
      · rw [bv]; show varyXo stage = false
        have := vt.2.1
        cases hv : varyXo stage
        · rfl
        · exfalso; have := this.mp hv; omega
      · rw [bv]; rfl
    have hvy : (blockOf ER stage (bounds ER im (isle.filter (accepted im))) s).v.yo = false := by
      rcases bv with bv | bv
      · rw [bv]; show varyYo stage = false
        have := vt.2.2.1
        cases hv : varyYo stage
        · rfl
        · exfalso; have := this.mp hv; omega
      · rw [bv]; rfl
    have px := hfix.1 hvx
    have py := hfix.2.1 hvy
    have rt := position_roundtrip (bounds ER im (isle.filter (accepted im))) s.p.xo s.p.yo
    simp only at rt
    rw [ho]
    simp only [outOf, copyBack_par, toOut]
    rw [px, py, b1, b2]
    exact rt
  · -- shape
    have hv3 : ∀ f : Vary → Bool, (f (varyOf ER stage) = false) → f Vary.none = false →
        f (blockOf ER stage (bounds ER im (isle.filter (accepted im))) s).v = false := by
      intro f h1 h2
      rcases bv with bv | bv <;> rw [bv] <;> assumption
    have nsx : varySx stage = false := by
      cases hv : varySx stage
      · rfl
      · exfalso; have := vt.2.2.2.1.mp hv; omega
    have nsy : varySy stage = false := by
      cases hv : varySy stage
      · rfl
      · exfalso; have := vt.2.2.2.2.1.mp hv; omega
    have nth : varyTheta stage = false := by
      cases hv : varyTheta stage
      · rfl
      · exfalso; have := vt.2.2.2.2.2.1.mp hv; omega
    have p3 := hfix.2.2.1 (hv3 (·.sx) nsx rfl)
    have p4 := hfix.2.2.2.1 (hv3 (·.sy) nsy rfl)
    have p5 := hfix.2.2.2.2 (hv3 (·.theta) nth rfl)
    rw [ho]
    simp only [outOf, copyBack_par, toOut]
    exact ⟨by rw [p3, b3], by rw [p4, b4], by rw [p5, b5]⟩

end real

/-! ### 5b. the 3×3 "has data" box: a source on a finite pixel is never left unfitted for lack of data -/

/-- **data_box_clipped_to_own_axis**: the row range of the box is clipped to the cut-out's number of
    rows and the column range to its number of columns (both from 0) -/
theorem data_box_clipped_to_own_axis (rows cols : Nat) :
    clipXLo rows cols = 0 ∧ clipXHi rows cols = rows ∧ clipYLo rows cols = 0 ∧ clipYHi rows cols = cols := by
  simp only [clipXLo, clipXHi, clipYLo, clipYHi]
  first | trivial | omega | grind

theorem data_box_edges (cx cy : ℝ) :
    boxLoX cx cy = cx - 1 ∧ boxHiX cx cy = cx + 2 ∧ boxLoY cx cy = cy - 1 ∧ boxHiY cx cy = cy + 2 := by
  simp [boxLoX, boxHiX, boxLoY, boxHiY]

/-- **own_pixel_in_data_box**: for every cut-out shape (rows × cols, square or not) and every local
    position `(cx, cy)` whose rounded pixel lies inside the cut-out, that pixel lies inside the box
    `idata[xmn:xmx, ymn:ymx]` the code inspects.  So a component whose own pixel holds finite data (an
    accepted source: the image is finite there, and the FWHM mask keeps the centre) always has data
    and is never flagged NOTFIT — in a wide group as in a tall one -/
theorem own_pixel_in_data_box (rnd : ℝ → ℤ) (hr : RoundLaw rnd) (rows cols : Nat) (cx cy : ℝ)
    (hx0 : 0 ≤ rnd cx) (hx1 : rnd cx < (rows : ℤ)) (hy0 : 0 ≤ rnd cy) (hy1 : rnd cy < (cols : ℤ)) :
    (dataBoxRows rnd rows cols cx cy).1 ≤ rnd cx ∧ rnd cx < (dataBoxRows rnd rows cols cx cy).2 ∧
    (dataBoxCols rnd rows cols cx cy).1 ≤ rnd cy ∧ rnd cy < (dataBoxCols rnd rows cols cx cy).2 := by
  obtain ⟨c1, c2, c3, c4⟩ := data_box_clipped_to_own_axis rows cols
  obtain ⟨e1, e2, e3, e4⟩ := data_box_edges cx cy
  have hx := own_pixel_in_axis_box rnd hr rows cx hx0 hx1
  have hy := own_pixel_in_axis_box rnd hr cols cy hy0 hy1
  simp only [dataBoxRows, dataBoxCols, c1, c2, c3, c4, e1, e2, e3, e4]
  exact ⟨hx.1, hx.2, hy.1, hy.2⟩

/-- negation witness for a column box clipped to the *row* extent (cut-out 10 rows × 21 columns,
    component at column 15.4): with `clip(·, 0, 10)` both column edges are 10, so for any rounding the
    box `[rnd 10, rnd 10)` is empty and the component would be left unfitted -/
theorem misclipped_column_box_is_empty : clipR (15.4 - 1) 0 10 = clipR (15.4 + 2) 0 10 := by
  unfold clipR
  norm_num

/-! ### 6. non-vacuity and the negation witnesses for the pinned float bounds -/

/-- a concrete island: sources with odd (7) and even (6) widths, one off the image, one on a blank
    pixel; the cut-out is `[7, 54) × [0, 54)` and two sources are accepted -/
example :
    let im : Img := { n0 := 100, n1 := 100, finite := fun x y => !(x == 30 && y == 30) }
    let mk (u : Nat) (x y : Int) (w : Nat) : Src Float :=
      { uuid := u, flags := 0, x := x, y := y, xw := w, yw := w, p := ⟨1, 0, 0, 1, 1, 0⟩, e := ⟨0, 0, 0, 0, 0⟩ }
    let isle := [mk 1 10 3 7, mk 2 (-3) 5 7, mk 3 30 30 6, mk 4 50 50 6]
    let env : Env Float := genEnv Float.ofInt 0 (fun _ _ => true) (fun _ _ => 1000)
      (fun _ cs => cs.map (·.p)) (fun _ _ _ => ⟨0, 0, 0, 0, 0⟩)
    ((isle.filter (accepted im)).map (·.uuid) = [1, 4]) ∧
    (bounds env im (isle.filter (accepted im)) = ⟨7, 54, 0, 54⟩) := by
  decide

/-- **the pinned float bounds misregister model and data by half a pixel exactly when the width is
    odd** (single source, window not clipped at 0): the offset subtracted from `xo` is `xmin = x − w/2`
    while the data cut-out starts at `int(xmin)`; twice their difference is 1 iff `w` is odd -/
theorem pinned_misregistration_iff_odd (shape0 : Nat) (x : Int) (w : Nat)
    (h0 : (w : Int) ≤ 2 * x) (h1 : x < (shape0 : Int)) :
    pinnedMisreg2 shape0 x w = (if w % 2 = 1 then 1 else 0) := by
  unfold pinnedMisreg2 pinnedSliceX0 pinnedXmin2
  split <;> omega

/-- negation witness (integers, half-pixel units): `x = 10`, `xwidth = 7`: `xmin = 6.5`, the data
    start at row 6, the positions are shifted by 6.5 -/
theorem pinned_offset_differs : pinnedXmin2 100 10 7 = 13 ∧ pinnedSliceX0 100 10 7 = 6 ∧ pinnedMisreg2 100 10 7 = 1 := by
  decide

/-- the same witness in IEEE doubles, as the pinned code evaluates it: misregistration 0.5 px for
    width 7, none for width 6 -/
theorem pinned_offset_differs_float :
    pinnedMisregFloat 100 10 7 == 0.5 ∧ pinnedMisregFloat 100 10 6 == 0.0 := by
  decide +kernel

/-- with the regenerated (integer) bounds the same source is registered exactly -/
example : xminStep 100 0 100 0 10 10 7 7 100 100 = 7 ∧ sliceX0 7 14 7 14 = subXoVal 7 14 7 14 := by decide

end Aegean.Properties.C05
