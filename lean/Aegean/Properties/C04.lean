/-
  C04 — Model derivatives and per-parameter 1-sigma errors are the true ones.

  The theorems are about
    * `Gen.C04.gauss`, `Gen.C04.dmds … dmdtheta`: regenerated on every run from
      `fitting.elliptical_gaussian` and from the six derivative expressions of `fitting.jacobian`
      (interpreted at ℝ through `Aegean.Proofs.Real`);
    * the hand model `Aegean.Model.C04` of the Jacobian row order (`jacRows`), of the sum model
      (`modelSum`), of `lmfit_jacobian` (`lmfitJac`) and of the stderr-assignment loop at the end of
      `covar_errors` (`assignIdx`), tied to the code by `harness/corr_C04.py`.

  theta is in DEGREES everywhere, exactly as in the Python: the function differentiated is
  `v ↦ gauss … (theta := v)` with `np.radians` inside, so the chain-rule factor π/180 is part of
  the obligation.  Each derivative proof reduces, by `HasDerivAt.congr_deriv`, to an algebraic
  identity between the regenerated expression and the canonical closed form of
  `Aegean/Proofs/C04Canon.lean`, closed by `field_simp; ring`: reordering factors, renaming or
  splitting temporaries re-proves; a dropped or changed factor does not.

  `onesigma = sqrt(diag(inv(F)))` is numpy's (a definition, not a theorem).
-/
import Mathlib.Data.Matrix.Mul
import Aegean.Proofs.C04Real
import Aegean.Proofs.C04Index
import Aegean.Proofs.C04Hand
import Aegean.Proofs.C04Fisher
import Aegean.Proofs.C04Bridge

set_option linter.unusedVariables false
set_option linter.unusedSimpArgs false
set_option linter.unusedTactic false
set_option linter.unreachableTactic false

attribute [-instance] R.toAdd R.toSub R.toMul R.toDiv R.toNeg

namespace Aegean.Properties.C04
open Gen.C04 Aegean.Model.C04 Aegean.Spec.C04 Aegean.C04Canon Aegean.C04Real Aegean.C04Index

/-- closes an algebraic identity between a regenerated expression and its canonical form:
    clear denominators (`sx ≠ 0`, `sy ≠ 0`, `amp ≠ 0` are in context), then commutative-ring
    normalisation.  Nothing here knows the shape of the Python expression. -/
macro "c04_algebra" : tactic =>
  `(tactic| first
      | (field_simp; done)
      | (field_simp; ring)
      | ring
      | (field_simp; ring_nf; done)
      | (norm_num; field_simp; ring)
      | (norm_num; field_simp; done))

/-- the same inside the argument of `exp`: normalise both sides as commutative-ring expressions
    (decimal literals such as `-0.5` are evaluated by `norm_num` first when present) -/
macro "c04_normalise" : tactic =>
  `(tactic| first
      | (ring_nf; done)
      | (norm_num; ring_nf; done)
      | (norm_num; done)
      | (field_simp; ring_nf; done))

/-! ### Obligations on the regenerated arithmetic

  `rsimp` rewrites the `R ℝ` operations of a regenerated definition into Mathlib syntax. -/

/-- the regenerated `elliptical_gaussian` is the canonical Gaussian (theta in degrees) -/
theorem gauss_eq_canon (x y amp xo yo sx sy th : ℝ) :
    gauss x y amp xo yo sx sy th = G x y amp xo yo sx sy th := by
  first
  | (simp only [gauss, r_add, r_sub, r_mul, r_div, r_neg, r_radians, R.real_sin, R.real_cos, R.real_exp,
      R.real_npow, R.real_ofNat, R.real_ofSci, R.real_pi, Nat.cast_ofNat, Nat.cast_one]
     unfold G E U W rad
     c04_normalise)
  | -- the source was UNTRANSLATABLE: `Gen.C04.gauss` is the hand definition
    (simp only [gauss]; exact Aegean.C04Hand.gaussHand_eq x y amp xo yo sx sy th)

theorem dmds_eq_canon (x y amp xo yo sx sy th : ℝ) (hamp : amp ≠ 0) :
    D_amp x y amp xo yo sx sy th = dmds x y amp xo yo sx sy th := by
  first
  | (simp only [dmds, r_add, r_sub, r_mul, r_div, r_neg, r_radians, R.real_sin, R.real_cos, R.real_exp,
     R.real_npow, R.real_ofNat, R.real_ofSci, R.real_pi, Nat.cast_ofNat, Nat.cast_one]
     rw [gauss_eq_canon]
     unfold D_amp G
     c04_algebra)
  | -- the source was UNTRANSLATABLE: `Gen.C04.dmds` is the hand definition
    (simp only [dmds]; exact Aegean.C04Hand.dmdsHand_eq_canon x y amp xo yo sx sy th hamp)

theorem dmdxo_eq_canon (x y amp xo yo sx sy th : ℝ) (hsx : sx ≠ 0) (hsy : sy ≠ 0) :
    D_xo x y amp xo yo sx sy th = dmdxo x y amp xo yo sx sy th := by
  first
  | (simp only [dmdxo, r_add, r_sub, r_mul, r_div, r_neg, r_radians, R.real_sin, R.real_cos, R.real_exp,
     R.real_npow, R.real_ofNat, R.real_ofSci, R.real_pi, Nat.cast_ofNat, Nat.cast_one]
     rw [gauss_eq_canon]
     unfold D_xo U W rad
     c04_algebra)
  | -- the source was UNTRANSLATABLE: `Gen.C04.dmdxo` is the hand definition
    (simp only [dmdxo]; exact Aegean.C04Hand.dmdxoHand_eq_canon x y amp xo yo sx sy th hsx hsy)

theorem dmdyo_eq_canon (x y amp xo yo sx sy th : ℝ) (hsx : sx ≠ 0) (hsy : sy ≠ 0) :
    D_yo x y amp xo yo sx sy th = dmdyo x y amp xo yo sx sy th := by
  first
  | (simp only [dmdyo, r_add, r_sub, r_mul, r_div, r_neg, r_radians, R.real_sin, R.real_cos, R.real_exp,
     R.real_npow, R.real_ofNat, R.real_ofSci, R.real_pi, Nat.cast_ofNat, Nat.cast_one]
     rw [gauss_eq_canon]
     unfold D_yo U W rad
     c04_algebra)
  | -- the source was UNTRANSLATABLE: `Gen.C04.dmdyo` is the hand definition
    (simp only [dmdyo]; exact Aegean.C04Hand.dmdyoHand_eq_canon x y amp xo yo sx sy th hsx hsy)

theorem dmdsx_eq_canon (x y amp xo yo sx sy th : ℝ) (hsx : sx ≠ 0) :
    D_sx x y amp xo yo sx sy th = dmdsx x y amp xo yo sx sy th := by
  first
  | (simp only [dmdsx, r_add, r_sub, r_mul, r_div, r_neg, r_radians, R.real_sin, R.real_cos, R.real_exp,
     R.real_npow, R.real_ofNat, R.real_ofSci, R.real_pi, Nat.cast_ofNat, Nat.cast_one]
     rw [gauss_eq_canon]
     unfold D_sx U rad
     c04_algebra)
  | -- the source was UNTRANSLATABLE: `Gen.C04.dmdsx` is the hand definition
    (simp only [dmdsx]; exact Aegean.C04Hand.dmdsxHand_eq_canon x y amp xo yo sx sy th hsx)

theorem dmdsy_eq_canon (x y amp xo yo sx sy th : ℝ) (hsy : sy ≠ 0) :
    D_sy x y amp xo yo sx sy th = dmdsy x y amp xo yo sx sy th := by
  first
  | (simp only [dmdsy, r_add, r_sub, r_mul, r_div, r_neg, r_radians, R.real_sin, R.real_cos, R.real_exp,
     R.real_npow, R.real_ofNat, R.real_ofSci, R.real_pi, Nat.cast_ofNat, Nat.cast_one]
     rw [gauss_eq_canon]
     unfold D_sy W rad
     c04_algebra)
  | -- the source was UNTRANSLATABLE: `Gen.C04.dmdsy` is the hand definition
    (simp only [dmdsy]; exact Aegean.C04Hand.dmdsyHand_eq_canon x y amp xo yo sx sy th hsy)

/-- the theta entry, per DEGREE: this is the obligation that fails when the factor π/180 is
    missing from `dmdtheta` -/
theorem dmdtheta_eq_canon (x y amp xo yo sx sy th : ℝ) (hsx : sx ≠ 0) (hsy : sy ≠ 0) :
    D_theta x y amp xo yo sx sy th = dmdtheta x y amp xo yo sx sy th := by
  first
  | (simp only [dmdtheta, r_add, r_sub, r_mul, r_div, r_neg, r_radians, R.real_sin, R.real_cos, R.real_exp,
     R.real_npow, R.real_ofNat, R.real_ofSci, R.real_pi, Nat.cast_ofNat, Nat.cast_one]
     rw [gauss_eq_canon]
     unfold D_theta U W rad
     c04_algebra)
  | -- the source was UNTRANSLATABLE: `Gen.C04.dmdtheta` is the hand definition
    (simp only [dmdtheta]; exact Aegean.C04Hand.dmdthetaHand_eq_canon x y amp xo yo sx sy th hsx hsy)

/-! ### The six partial derivatives (single component) -/

theorem fun_gauss_eq {f : ℝ → ℝ} {g : ℝ → ℝ} (h : ∀ v, f v = g v) : f = g := funext h

/-- ∂model/∂amp = `dmds` (as coded: model/amp, hence amp ≠ 0) -/
theorem hasDerivAt_amp (x y amp xo yo sx sy theta : ℝ) (hamp : amp ≠ 0) :
    HasDerivAt (fun v => gauss x y v xo yo sx sy theta) (dmds x y amp xo yo sx sy theta) amp := by
  rw [fun_gauss_eq (fun v => gauss_eq_canon x y v xo yo sx sy theta)]
  exact (hasDerivAt_G_amp x y amp xo yo sx sy theta).congr_deriv (dmds_eq_canon x y amp xo yo sx sy theta hamp)

/-- ∂model/∂xo = `dmdxo` -/
theorem hasDerivAt_xo (x y amp xo yo sx sy theta : ℝ) (hsx : sx ≠ 0) (hsy : sy ≠ 0) :
    HasDerivAt (fun v => gauss x y amp v yo sx sy theta) (dmdxo x y amp xo yo sx sy theta) xo := by
  rw [fun_gauss_eq (fun v => gauss_eq_canon x y amp v yo sx sy theta)]
  exact (hasDerivAt_G_xo x y amp xo yo sx sy theta).congr_deriv (dmdxo_eq_canon x y amp xo yo sx sy theta hsx hsy)

/-- ∂model/∂yo = `dmdyo` -/
theorem hasDerivAt_yo (x y amp xo yo sx sy theta : ℝ) (hsx : sx ≠ 0) (hsy : sy ≠ 0) :
    HasDerivAt (fun v => gauss x y amp xo v sx sy theta) (dmdyo x y amp xo yo sx sy theta) yo := by
  rw [fun_gauss_eq (fun v => gauss_eq_canon x y amp xo v sx sy theta)]
  exact (hasDerivAt_G_yo x y amp xo yo sx sy theta).congr_deriv (dmdyo_eq_canon x y amp xo yo sx sy theta hsx hsy)

/-- ∂model/∂sx = `dmdsx` -/
theorem hasDerivAt_sx (x y amp xo yo sx sy theta : ℝ) (hsx : sx ≠ 0) :
    HasDerivAt (fun v => gauss x y amp xo yo v sy theta) (dmdsx x y amp xo yo sx sy theta) sx := by
  rw [fun_gauss_eq (fun v => gauss_eq_canon x y amp xo yo v sy theta)]
  exact (hasDerivAt_G_sx x y amp xo yo sx sy theta hsx).congr_deriv (dmdsx_eq_canon x y amp xo yo sx sy theta hsx)

/-- ∂model/∂sy = `dmdsy` -/
theorem hasDerivAt_sy (x y amp xo yo sx sy theta : ℝ) (hsy : sy ≠ 0) :
    HasDerivAt (fun v => gauss x y amp xo yo sx v theta) (dmdsy x y amp xo yo sx sy theta) sy := by
  rw [fun_gauss_eq (fun v => gauss_eq_canon x y amp xo yo sx v theta)]
  exact (hasDerivAt_G_sy x y amp xo yo sx sy theta hsy).congr_deriv (dmdsy_eq_canon x y amp xo yo sx sy theta hsy)

/-- ∂model/∂theta = `dmdtheta`, **theta in degrees**: the derivative of
    `v ↦ elliptical_gaussian(…, theta = v)` (which applies `np.radians` to `v`) at `theta` -/
theorem hasDerivAt_theta (x y amp xo yo sx sy theta : ℝ) (hsx : sx ≠ 0) (hsy : sy ≠ 0) :
    HasDerivAt (fun v => gauss x y amp xo yo sx sy v) (dmdtheta x y amp xo yo sx sy theta) theta := by
  rw [fun_gauss_eq (fun v => gauss_eq_canon x y amp xo yo sx sy v)]
  exact (hasDerivAt_G_theta x y amp xo yo sx sy theta).congr_deriv
    (dmdtheta_eq_canon x y amp xo yo sx sy theta hsx hsy)

/-! ### The amplitude derivative at `amp = 0`

  `model/amp` is 0/0 at `amp = 0`; a source that special-cases it (`if amp == 0: dmds = <unit
  Gaussian>`) is regenerated as two definitions, `dmds` (the branch for `amp ≠ 0`) and `dmds0`
  (the branch for `amp = 0`), and the flag `dmdsZero` (1 when the source has the special case). -/

/-- the regenerated `amp == 0` branch is the canonical derivative `exp(E)` too (for every `amp`,
    since it does not depend on it) -/
theorem dmds0_eq_canon (x y amp xo yo sx sy th : ℝ) :
    D_amp x y amp xo yo sx sy th = dmds0 x y amp xo yo sx sy th := by
  first
  | (simp only [dmds0, r_add, r_sub, r_mul, r_div, r_neg, r_radians, R.real_sin, R.real_cos, R.real_exp,
      R.real_npow, R.real_ofNat, R.real_ofSci, R.real_pi, Nat.cast_ofNat, Nat.cast_one]
     rw [gauss_eq_canon]
     unfold D_amp G
     ring)
  | (simp only [dmds0]; exact Aegean.C04Hand.dmds0Hand_eq_canon x y amp xo yo sx sy th)

open Classical in
/-- what the (regenerated) code computes for the amplitude entry: the special case when the source
    has one and `amp = 0`, otherwise `model/amp` -/
noncomputable def dmdsCode (x y amp xo yo sx sy theta : ℝ) : ℝ :=
  if dmdsZero x y amp xo yo sx sy theta = 1 ∧ amp = 0 then dmds0 x y amp xo yo sx sy theta
  else dmds x y amp xo yo sx sy theta

/-- for `amp ≠ 0` nothing changes: the code's amplitude entry is the derivative (as before) -/
theorem hasDerivAt_amp_code (x y amp xo yo sx sy theta : ℝ) (hamp : amp ≠ 0) :
    HasDerivAt (fun v => gauss x y v xo yo sx sy theta) (dmdsCode x y amp xo yo sx sy theta) amp := by
  have : dmdsCode x y amp xo yo sx sy theta = dmds x y amp xo yo sx sy theta := by
    unfold dmdsCode; rw [if_neg (fun h => hamp h.2)]
  rw [this]; exact hasDerivAt_amp x y amp xo yo sx sy theta hamp

/-- **hasDerivAt_amp_everywhere**: when the source special-cases `amp == 0` (regenerated flag), the
    amplitude entry is the true derivative for EVERY amplitude, zero included — no hypothesis on
    `amp`, `sx`, `sy` at all (a strictly stronger statement than `hasDerivAt_amp`) -/
theorem hasDerivAt_amp_everywhere (x y amp xo yo sx sy theta : ℝ)
    (hz : dmdsZero x y amp xo yo sx sy theta = 1) :
    HasDerivAt (fun v => gauss x y v xo yo sx sy theta) (dmdsCode x y amp xo yo sx sy theta) amp := by
  by_cases hamp : amp = 0
  · have : dmdsCode x y amp xo yo sx sy theta = dmds0 x y amp xo yo sx sy theta := by
      unfold dmdsCode; rw [if_pos ⟨hz, hamp⟩]
    rw [this, fun_gauss_eq (fun v => gauss_eq_canon x y v xo yo sx sy theta)]
    exact (hasDerivAt_G_amp x y amp xo yo sx sy theta).congr_deriv (dmds0_eq_canon x y amp xo yo sx sy theta)
  · exact hasDerivAt_amp_code x y amp xo yo sx sy theta hamp

/-! ### Every free parameter of every component -/

/-- for each of the six parameters `p` of a component `c`, the Jacobian entry for `p` is the
    derivative of the component's model with respect to `p` in `p`'s own units -/
theorem hasDerivAt_entry (c : Comp ℝ) (p : Par) (x y : ℝ) (hsx : c.sx ≠ 0) (hsy : c.sy ≠ 0)
    (hamp : p = .amp → c.amp ≠ 0) :
    HasDerivAt (fun v => (genDerivs (α := ℝ)).model (c.setPar p v) x y) (genDerivs.entry p c x y) (c.get p) := by
  cases p with
  | amp => exact hasDerivAt_amp x y c.amp c.xo c.yo c.sx c.sy c.theta (hamp rfl)
  | xo => exact hasDerivAt_xo x y c.amp c.xo c.yo c.sx c.sy c.theta hsx hsy
  | yo => exact hasDerivAt_yo x y c.amp c.xo c.yo c.sx c.sy c.theta hsx hsy
  | sx => exact hasDerivAt_sx x y c.amp c.xo c.yo c.sx c.sy c.theta hsx
  | sy => exact hasDerivAt_sy x y c.amp c.xo c.yo c.sx c.sy c.theta hsy
  | theta => exact hasDerivAt_theta x y c.amp c.xo c.yo c.sx c.sy c.theta hsx hsy

/-- **linearity**: for the multi-component model `Σ gauss_i` (`ntwodgaussian_lmfit`), the
    derivative with respect to parameter `p` of component `i` is the entry of component `i`
    alone — for any number of components, whatever the other components are -/
theorem sum_model_derivative (comps : List (Comp ℝ)) (i : Nat) (h : i < comps.length) (p : Par) (x y : ℝ)
    (hsx : comps[i].sx ≠ 0) (hsy : comps[i].sy ≠ 0) (hamp : p = .amp → comps[i].amp ≠ 0) :
    HasDerivAt (fun v => modelSum genDerivs (comps.set i (comps[i].setPar p v)) x y)
      (genDerivs.entry p comps[i] x y) (comps[i].get p) := by
  have e : (fun v => modelSum genDerivs (comps.set i (comps[i].setPar p v)) x y)
      = fun v => ((comps.map (fun c => (genDerivs (α := ℝ)).model c x y)).sum - genDerivs.model comps[i] x y)
          + genDerivs.model (comps[i].setPar p v) x y := by
    funext v
    rw [modelSum_eq_sum, sum_map_set (fun c => (genDerivs (α := ℝ)).model c x y) comps i h]
  rw [e]
  exact (hasDerivAt_entry comps[i] p x y hsx hsy hamp).const_add _

/-! ### Row order of `fitting.jacobian` -/

/-- **row_index**: in the matrix returned by `fitting.jacobian` (the loop as coded), row number
    `rank vs i p` is the derivative row of parameter `p` of component `i`, for every free `(i, p)`;
    `rank` counts the free parameters before `(i, p)` over all components -/
theorem row_index (D : Derivs α) (pix : List (α × α)) (comps : List (Comp α × Vary)) (i : Nat) (p : Par)
    (h : i < comps.length) (hv : comps[i].2 p = true) :
    (jacRows D pix comps)[rank (comps.map (·.2)) i p]? = some (D.row pix comps[i].1 p) := by
  unfold jacRows
  rw [jacLoop_eq, List.nil_append]
  exact rowsSpec_rank D pix comps i p h hv

/-- the matrix has exactly one row per free parameter -/
theorem row_count (D : Derivs α) (pix : List (α × α)) (comps : List (Comp α × Vary)) :
    (jacRows D pix comps).length = nfree (comps.map (·.2)) := by
  unfold jacRows
  rw [jacLoop_eq, List.nil_append]
  exact rowsSpec_length D pix comps

/-- the documented order (component-major; amp, xo, yo, sx, sy, theta inside a component;
    filtered by `vary`): `(i, p)` is its entry number `rank vs i p` … -/
theorem documented_order (vs : List Vary) (i : Nat) (p : Par) (h : i < vs.length) (hv : vs[i] p = true) :
    (freeList vs)[rank vs i p]? = some (i, p) := by
  have := freeListFrom_rank vs 0 i p h hv
  simpa [freeList] using this

/-- … it lists exactly the free parameters, and `rank` is below the number of free parameters -/
theorem documented_order_complete (vs : List Vary) (k : Nat × Par) :
    k ∈ freeList vs ↔ ∃ h : k.1 < vs.length, vs[k.1] k.2 = true := by
  unfold freeList
  rw [mem_freeListFrom]
  constructor
  · rintro ⟨i, h, h1, h2⟩
    have : k.1 = i := by omega
    subst this
    exact ⟨h, h2⟩
  · rintro ⟨h, h2⟩
    exact ⟨k.1, h, by omega, h2⟩

theorem rank_closed_form (vs : List Vary) (i : Nat) (p : Par) (h : i < vs.length) :
    rank vs i p = nfree (vs.take i) + countBefore vs[i] p := rank_eq vs i p h

theorem rank_lt (vs : List Vary) (i : Nat) (p : Par) (h : i < vs.length) (hv : vs[i] p = true) :
    rank vs i p < nfree vs := rank_lt_nfree vs i p h hv

/-! ### The stderr-assignment loop of `covar_errors` -/

/-- **assign_own_diagonal**: after the loop, the stderr of every free parameter `p` of every
    component `i` is `onesigma[rank(i, p)]` — the entry belonging to that parameter's own row of
    the Jacobian (`row_index`), hence to its own diagonal entry of the inverse Fisher matrix.
    For every number of components and every choice of `vary` flags. -/
theorem assign_own_diagonal {β : Type} (onesigma : List β) (vs : List Vary) (i : Nat) (p : Par)
    (h : i < vs.length) (hv : vs[i] p = true) :
    assignStderr onesigma vs (i, p) = onesigma[rank vs i p]? := by
  unfold assignStderr assignIdx
  have := compLoop_own vs 0 0 Table.empty i p h hv
  simp only [Nat.zero_add] at this
  rw [this]
  rfl

/-- when `onesigma` has one entry per free parameter (the diagonal of the `nfree × nfree` inverse
    Fisher matrix), the entry exists -/
theorem assign_own_diagonal_defined {β : Type} (onesigma : List β) (vs : List Vary) (i : Nat) (p : Par)
    (h : i < vs.length) (hv : vs[i] p = true) (hlen : onesigma.length = nfree vs) :
    ∃ s, assignStderr onesigma vs (i, p) = some s ∧ onesigma[rank vs i p]? = some s := by
  have hlt : rank vs i p < onesigma.length := by rw [hlen]; exact rank_lt vs i p h hv
  exact ⟨onesigma[rank vs i p], by rw [assign_own_diagonal onesigma vs i p h hv]; simp [hlt], by simp [hlt]⟩

/-- parameters that are not free are not assigned an error by the loop -/
theorem assign_fixed_untouched {β : Type} (onesigma : List β) (vs : List Vary) (i : Nat) (p : Par)
    (hv : ∀ h : i < vs.length, vs[i] p = false) :
    assignStderr onesigma vs (i, p) = none := by
  unfold assignStderr assignIdx
  have := compLoop_notfree vs 0 0 Table.empty i p hv
  simp only [Nat.zero_add] at this
  rw [this]
  rfl

/-- two different free parameters never share an `onesigma` entry: components of one island do
    not inherit each other's errors -/
theorem assign_injective (vs : List Vary) (i i' : Nat) (p p' : Par)
    (h : i < vs.length) (hv : vs[i] p = true) (h' : i' < vs.length) (hv' : vs[i'] p' = true)
    (e : assignIdx vs (i, p) = assignIdx vs (i', p')) : (i, p) = (i', p') := by
  have a := compLoop_own vs 0 0 Table.empty i p h hv
  have b := compLoop_own vs 0 0 Table.empty i' p' h' hv'
  simp only [Nat.zero_add] at a b
  unfold assignIdx at e
  rw [a, b] at e
  have er : rank vs i p = rank vs i' p' := by injection e
  have d1 := documented_order vs i p h hv
  have d2 := documented_order vs i' p' h' hv'
  rw [er] at d1
  rw [d1] at d2
  injection d2

/-- the model's assignment meets the executable Spec used by the failing-input search -/
theorem model_meets_spec (vs : List Vary) : ownDiagonal vs (assignIdx vs) = true := by
  unfold ownDiagonal
  rw [List.all_eq_true]
  intro k _
  cases hk : vs[k.1]? with
  | none => rfl
  | some v =>
    have hlt : k.1 < vs.length := by
      rcases List.getElem?_eq_some_iff.mp hk with ⟨h, _⟩; exact h
    have hve : vs[k.1] = v := by
      rcases List.getElem?_eq_some_iff.mp hk with ⟨_, e⟩; exact e
    simp only
    cases hv : v k.2
    · have := compLoop_notfree vs 0 0 Table.empty k.1 k.2 (fun _ => by rw [hve]; exact hv)
      simp only [Nat.zero_add] at this
      simp [assignIdx, this, Table.empty]
    · have := compLoop_own vs 0 0 Table.empty k.1 k.2 hlt (by rw [hve]; exact hv)
      simp only [Nat.zero_add] at this
      simp [assignIdx, this]

/-! ### Whitening: the two branches of `covar_errors` build the same Fisher matrix -/

section Whitening
open Matrix
variable {n m : Type} [Fintype m]

/-- `lmfit_jacobian` on matrices: rows of `jacobian` (`n` free parameters × `m` pixels), divided
    entrywise by `errs[pixel]`, multiplied by `B` if given, transposed -/
noncomputable def lmfitJacM (M : Matrix n m ℝ) (errs : m → ℝ) (B : Option (Matrix m m ℝ)) : Matrix m n ℝ :=
  match B with
  | some b => ((Matrix.of fun k j => M k j / errs j) * b)ᵀ
  | none => (Matrix.of fun k j => M k j / errs j)ᵀ

/-- **whitening_consistent**: if `B·Bᵀ = C⁻¹` (what `Bmatrix` is documented to return), the
    Fisher matrix `JᵀJ` of the `B` branch of `covar_errors` equals the Fisher matrix
    `Jᵀ C⁻¹ J` of the `C` branch -/
theorem whitening_consistent (M : Matrix n m ℝ) (errs : m → ℝ) (B Cinv : Matrix m m ℝ) (hB : B * Bᵀ = Cinv) :
    (lmfitJacM M errs (some B))ᵀ * lmfitJacM M errs (some B)
      = (lmfitJacM M errs none)ᵀ * Cinv * lmfitJacM M errs none := by
  simp only [lmfitJacM, Matrix.transpose_transpose, Matrix.transpose_mul]
  rw [← hB]
  simp only [Matrix.mul_assoc]

end Whitening

/-! ### The executable `lmfitJac` is the matrix-level `lmfitJacM`  (bridge)

  `toM rows n m i j = rows[i][j]`.  With it the whitening statement and everything about the
  Fisher matrix below is about the list-level definitions that the driver executes. -/

section Bridge
open Aegean.C04Bridge Aegean.C04Fisher

/-- `errs` as a function of the pixel index (`None` divides by nothing, i.e. by 1) -/
def errsFun (errs : Option (List ℝ)) (m : ℕ) : Fin m → ℝ :=
  fun j => match errs with | some e => e.getD j 0 | none => 1

/-- the rows produced by the Jacobian loop form an `nfree × npix` rectangle -/
theorem jacRows_rect (D : Derivs ℝ) (pix : List (ℝ × ℝ)) (comps : List (Comp ℝ × Vary)) :
    Rect (jacRows D pix comps) (nfree (comps.map (·.2))) pix.length := by
  refine ⟨row_count D pix comps, ?_⟩
  intro r hr
  unfold jacRows at hr
  rw [jacLoop_eq, List.nil_append] at hr
  induction comps with
  | nil => simp [rowsSpec] at hr
  | cons cv rest ih =>
    obtain ⟨c, v⟩ := cv
    simp only [rowsSpec, List.mem_append, List.mem_map] at hr
    rcases hr with ⟨p, _, rfl⟩ | h
    · simp [Derivs.row]
    · exact ih h

/-- **lmfitJac_bridge**: entry by entry, the list-level `lmfit_jacobian` model equals the matrix
    expression `(M / errs · B)ᵀ`, for rectangular input of any size, `errs` none or a vector
    (a scalar is the constant vector), `B` none or a square matrix -/
theorem lmfitJac_bridge (rows : List (List ℝ)) (n m : ℕ) (errs : Option (List ℝ))
    (B : Option (List (List ℝ))) (hr : Rect rows n m)
    (he : ∀ e, errs = some e → e.length = m) (hb : ∀ b, B = some b → Rect b m m) :
    toM (lmfitJac rows m errs B) m n
      = lmfitJacM (toM rows n m) (errsFun errs m) (B.map (fun b => toM b m m)) := by
  have hnone : toM rows n m = Matrix.of fun k j => toM rows n m k j / errsFun none m j := by
    ext k j; simp [errsFun]
  cases errs with
  | none =>
    cases B with
    | none =>
      simp only [lmfitJac, Option.map_none, lmfitJacM]
      rw [toM_transpose _ n m hr.1, ← hnone]
    | some b =>
      simp only [lmfitJac, Option.map_some, lmfitJacM]
      rw [toM_transpose _ n m (by rw [matMul_length]; exact hr.1), toM_matMul _ b n m hr (hb b rfl), ← hnone]
  | some e =>
    have hrect := divErrs_rect rows e n m hr (he e rfl)
    have hM : toM (divErrs rows e) n m = Matrix.of fun k j => toM rows n m k j / errsFun (some e) m j := by
      rw [toM_divErrs rows e n m hr (he e rfl)]; rfl
    cases B with
    | none =>
      simp only [lmfitJac, Option.map_none, lmfitJacM]
      rw [toM_transpose _ n m hrect.1, hM]
    | some b =>
      simp only [lmfitJac, Option.map_some, lmfitJacM]
      rw [toM_transpose _ n m (by rw [matMul_length]; exact hrect.1), toM_matMul _ b n m hrect (hb b rfl), hM]

/-- **whitening_consistent_exec**: the whitening statement for the executable definition: with
    `B·Bᵀ = C⁻¹`, `JᵀJ` of the B branch equals `Jᵀ C⁻¹ J` of the C branch, `J` computed by `lmfitJac` -/
theorem whitening_consistent_exec (rows : List (List ℝ)) (n m : ℕ) (errs : Option (List ℝ))
    (b : List (List ℝ)) (Cinv : Matrix (Fin m) (Fin m) ℝ) (hr : Rect rows n m)
    (he : ∀ e, errs = some e → e.length = m) (hb : Rect b m m)
    (hB : toM b m m * Matrix.transpose (toM b m m) = Cinv) :
    Matrix.transpose (toM (lmfitJac rows m errs (some b)) m n) * toM (lmfitJac rows m errs (some b)) m n
      = Matrix.transpose (toM (lmfitJac rows m errs none) m n) * Cinv * toM (lmfitJac rows m errs none) m n := by
  rw [lmfitJac_bridge rows n m errs (some b) hr he (fun b' h => by cases h; exact hb),
    lmfitJac_bridge rows n m errs none hr he (fun b' h => by cases h)]
  exact whitening_consistent (toM rows n m) (errsFun errs m) (toM b m m) Cinv hB

end Bridge

/-! ### The Fisher matrix and `onesigma` of `covar_errors`

  `covar = Jᵀ·J` (or `Jᵀ·C⁻¹·J`), `onesigma = sqrt(diag(inv(covar)))` with `J = lmfitJac …`. -/

section Fisher
open Aegean.C04Bridge Aegean.C04Fisher

/-- the whitened Jacobian `A` (free parameters × pixels) whose transpose `covar_errors` calls `J` -/
noncomputable def whitened {n m : ℕ} (M : Matrix (Fin n) (Fin m) ℝ) (e : Fin m → ℝ)
    (B : Option (Matrix (Fin m) (Fin m) ℝ)) : Matrix (Fin n) (Fin m) ℝ :=
  match B with
  | some b => (Matrix.of fun k j => M k j / e j) * b
  | none => Matrix.of fun k j => M k j / e j

/-- **covar_is_fisher**: `np.transpose(J).dot(J)` computed from the executable `lmfitJac` is the
    Gram matrix `A·Aᵀ` of the whitened derivative rows (for scalar errs: `M·Mᵀ/errs²`, see
    `Aegean.C04Fisher.fisher_scalar_errs`) -/
theorem covar_is_fisher (rows : List (List ℝ)) (n m : ℕ) (errs : Option (List ℝ))
    (B : Option (List (List ℝ))) (hr : Rect rows n m)
    (he : ∀ e, errs = some e → e.length = m) (hb : ∀ b, B = some b → Rect b m m) :
    Matrix.transpose (toM (lmfitJac rows m errs B) m n) * toM (lmfitJac rows m errs B) m n
      = fisher (whitened (toM rows n m) (errsFun errs m) (B.map (fun b => toM b m m))) := by
  rw [lmfitJac_bridge rows n m errs B hr he hb]
  cases B <;> simp [lmfitJacM, whitened, fisher]

/-- **covar_psd_pd**: `covar` is symmetric positive semidefinite; it is positive definite exactly
    when the whitened derivative rows of the free parameters are linearly independent as
    functions on the unmasked pixels; and then every `onesigma` entry is the square root of a
    positive diagonal entry of the inverse, hence a positive real. -/
theorem covar_psd_pd {n m : ℕ} (A : Matrix (Fin n) (Fin m) ℝ) :
    Matrix.transpose (fisher A) = fisher A ∧ (fisher A).PosSemidef ∧
      ((fisher A).PosDef ↔ LinearIndependent ℝ A.row) ∧
      (LinearIndependent ℝ A.row → IsUnit (fisher A) ∧ ∀ i, 0 < onesigma (fisher A) i) :=
  ⟨fisher_symm A, fisher_posSemidef A, fisher_posDef_iff A,
   fun h => ⟨fisher_invertible A h, fun i => (onesigma_pos A h i).2⟩⟩

/-- the regenerated theta entry vanishes identically for a circular component (`sx = sy`):
    the model does not depend on theta there -/
theorem dmdtheta_circular (x y amp xo yo s theta : ℝ) (hs : s ≠ 0) :
    dmdtheta x y amp xo yo s s theta = 0 := by
  rw [← dmdtheta_eq_canon x y amp xo yo s s theta hs hs]
  unfold D_theta
  simp

/-- **circular_component_singular**: if some component has `sx = sy` and a free theta, the
    row of the Jacobian for that theta (row `rank(i, theta)`) is identically zero on every
    pixel, so — for any `errs`, with or without `B` — the Fisher matrix is singular: its
    determinant is 0, it is not positive definite, and Mathlib's inverse is the junk value 0.
    (`scipy.linalg.inv` raises `LinAlgError`; `covar_errors` then takes its `except` branch and
    gives *every* free parameter of the island the marker -2.) -/
theorem circular_component_singular (pix : List (ℝ × ℝ)) (comps : List (Comp ℝ × Vary)) (i : Nat)
    (h : i < comps.length) (hv : comps[i].2 .theta = true)
    (hc : comps[i].1.sx = comps[i].1.sy) (hs : comps[i].1.sx ≠ 0)
    (e : Fin pix.length → ℝ) (B : Option (Matrix (Fin pix.length) (Fin pix.length) ℝ)) :
    let A := whitened (toM (jacRows genDerivs pix comps) (nfree (comps.map (·.2))) pix.length) e B
    (fisher A).det = 0 ∧ ¬ (fisher A).PosDef ∧ (fisher A)⁻¹ = 0 := by
  intro A
  have hlen : i < (comps.map (fun cv => cv.2)).length := by simpa using h
  have hv' : ((List.map (fun cv : Comp ℝ × Vary => cv.2) comps)[i]'hlen) Par.theta = true := by simpa using hv
  let k : Fin (nfree (comps.map (·.2))) := ⟨rank (comps.map (·.2)) i .theta, rank_lt _ i .theta hlen hv'⟩
  have hrow0 : ∀ j, toM (jacRows genDerivs pix comps) (nfree (comps.map (·.2))) pix.length k j = 0 := by
    intro j
    have hri := row_index genDerivs pix comps i .theta h hv
    have hget : (jacRows genDerivs pix comps).getD k [] = genDerivs.row pix comps[i].1 .theta := by
      rw [List.getD_eq_getElem?_getD, hri]; rfl
    simp only [toM, hget, Derivs.row]
    rw [getD_map pix _ j 0 (0, 0) j.2]
    simp only [Derivs.entry, genDerivs]
    rw [← hc]
    exact dmdtheta_circular _ _ _ _ _ _ _ hs
  have hA0 : ∀ j, A k j = 0 := by
    intro j
    cases B with
    | none => simp [A, whitened, hrow0]
    | some b => simp [A, whitened, Matrix.mul_apply, hrow0]
  exact ⟨(fisher_singular_of_zero_row A k hA0).1, (fisher_singular_of_zero_row A k hA0).2.1,
    fisher_inv_junk_of_zero_row A k hA0⟩

end Fisher

/-! ### What is handed to the optimiser is the gradient of the residual it minimises

  `do_lmfit` minimises `residual = (model − data[mask])` (plain) or `(model − data[mask])·B`
  (whitened) and passes `lmfit_jacobian(…, errs=None, B=B)` as `Dfun`. -/

section Residual
open Aegean.C04Bridge

/-- entry `(l, k)` of the rectangular matrix of Jacobian rows is the derivative entry of the free
    parameter with rank `k` at pixel `l` -/
theorem jacRows_entry (pix : List (ℝ × ℝ)) (comps : List (Comp ℝ × Vary)) (i : Nat) (p : Par)
    (h : i < comps.length) (hv : comps[i].2 p = true) (l : Fin pix.length)
    (k : Fin (nfree (comps.map (·.2)))) (hk : (k : ℕ) = rank (comps.map (·.2)) i p) :
    toM (jacRows genDerivs pix comps) (nfree (comps.map (·.2))) pix.length k l
      = genDerivs.entry p comps[i].1 pix[l].1 pix[l].2 := by
  have hri := row_index genDerivs pix comps i p h hv
  have hget : (jacRows genDerivs pix comps).getD k [] = genDerivs.row pix comps[i].1 p := by
    rw [List.getD_eq_getElem?_getD, hk, hri]; rfl
  simp only [toM, hget, Derivs.row]
  rw [getD_map pix _ l 0 (0, 0) l.2, getD_of_lt pix (0, 0) l l.2]
  rfl

/-- **residual_gradient** (plain branch): the derivative of the residual `model − data` at a pixel
    with respect to parameter `p` of component `i` is that parameter's Jacobian entry -/
theorem residual_gradient (comps : List (Comp ℝ)) (i : Nat) (h : i < comps.length) (p : Par) (x y d : ℝ)
    (hsx : comps[i].sx ≠ 0) (hsy : comps[i].sy ≠ 0) (hamp : p = .amp → comps[i].amp ≠ 0) :
    HasDerivAt (fun v => modelSum genDerivs (comps.set i (comps[i].setPar p v)) x y - d)
      (genDerivs.entry p comps[i] x y) (comps[i].get p) :=
  (sum_model_derivative comps i h p x y hsx hsy hamp).sub_const d

/-- **whitened_residual_gradient**: component `j` of the whitened residual `(model − data)·B`
    has derivative `Σ_l entry(pixel l)·B[l][j]` with respect to parameter `p` of component `i` -/
theorem whitened_residual_gradient (comps : List (Comp ℝ)) (i : Nat) (h : i < comps.length) (p : Par)
    {m : ℕ} (px : Fin m → ℝ × ℝ) (data : Fin m → ℝ) (B : Matrix (Fin m) (Fin m) ℝ) (j : Fin m)
    (hsx : comps[i].sx ≠ 0) (hsy : comps[i].sy ≠ 0) (hamp : p = .amp → comps[i].amp ≠ 0) :
    HasDerivAt
      (fun v => ∑ l, (modelSum genDerivs (comps.set i (comps[i].setPar p v)) (px l).1 (px l).2 - data l) * B l j)
      (∑ l, genDerivs.entry p comps[i] (px l).1 (px l).2 * B l j) (comps[i].get p) :=
  HasDerivAt.fun_sum fun l _ =>
    (residual_gradient comps i h p (px l).1 (px l).2 (data l) hsx hsy hamp).mul_const (B l j)

/-- **dfun_is_residual_gradient**: entry `(j, rank(i,p))` of what the executable
    `lmfit_jacobian(…, errs=None, B=b)` returns — the matrix `do_lmfit` hands to lmfit as `Dfun` —
    is the derivative of the `j`-th component of the whitened residual `(model − data)·b` with
    respect to the free parameter `(i, p)`, in that parameter's own units; for every number of
    components, every vary subset, every pixel list and every square `b`. -/
theorem dfun_is_residual_gradient (pix : List (ℝ × ℝ)) (comps : List (Comp ℝ × Vary)) (i : Nat) (p : Par)
    (h : i < comps.length) (hv : comps[i].2 p = true)
    (b : List (List ℝ)) (hb : Rect b pix.length pix.length) (data : Fin pix.length → ℝ) (j : Fin pix.length)
    (k : Fin (nfree (comps.map (·.2)))) (hk : (k : ℕ) = rank (comps.map (·.2)) i p)
    (hsx : comps[i].1.sx ≠ 0) (hsy : comps[i].1.sy ≠ 0) (hamp : p = .amp → comps[i].1.amp ≠ 0) :
    HasDerivAt
      (fun v => ∑ l : Fin pix.length,
        (modelSum genDerivs ((comps.map (·.1)).set i (comps[i].1.setPar p v)) pix[l].1 pix[l].2 - data l)
          * toM b pix.length pix.length l j)
      (toM (lmfitJac (jacRows genDerivs pix comps) pix.length none (some b)) pix.length
        (nfree (comps.map (·.2))) j k)
      (comps[i].1.get p) := by
  have hlen : i < (comps.map (·.1)).length := by simpa using h
  have hci : (comps.map (·.1))[i] = comps[i].1 := by simp
  have hW := whitened_residual_gradient (comps.map (·.1)) i hlen p (fun l : Fin pix.length => pix[l]) data
    (toM b pix.length pix.length) j (by rw [hci]; exact hsx) (by rw [hci]; exact hsy)
    (fun e => by rw [hci]; exact hamp e)
  rw [hci] at hW
  refine hW.congr_deriv ?_
  rw [lmfitJac_bridge _ _ _ none (some b) (jacRows_rect genDerivs pix comps) (fun e he => by cases he)
    (fun b' hb' => by cases hb'; exact hb)]
  simp only [lmfitJacM, Option.map_some, Matrix.transpose_apply, Matrix.mul_apply, Matrix.of_apply, errsFun,
    div_one]
  refine Finset.sum_congr rfl fun l _ => ?_
  rw [jacRows_entry pix comps i p h hv l k hk]

end Residual

/-! ### The regenerated `lmfit_jacobian` pipeline -/

section Pipeline
open Aegean.C04Bridge

/-- obligation on the regenerated pipeline: rows from the analytic `jacobian(pars, x, y)`, then
    exactly three steps in this order — divide by `errs` (if given), right-multiply by `B` (if
    given), transpose.  Breaks if the source reorders, drops or adds a step. -/
theorem lmj_pipeline_spec :
    lmjSrc 0 = 1 ∧ lmjLen 0 = 3 ∧ lmjOp 0 = 1 ∧ lmjOp 1 = 2 ∧ lmjOp 2 = 3 := by decide

/-- the glue run on that pipeline is the model `lmfitJac` about which everything above is proved -/
theorem lmfitJacGen_eq (rows : List (List α)) [R α] (npix : Nat) (errs : Option (List α))
    (B : Option (List (List α))) : lmfitJacGen rows npix errs B = lmfitJac rows npix errs B := by
  obtain ⟨_, hl, h0, h1, h2⟩ := lmj_pipeline_spec
  unfold lmfitJacGen runOps
  rw [hl]
  have hr : List.range 3 = [0, 1, 2] := by decide
  rw [hr]
  simp only [List.foldl_cons, List.foldl_nil, h0, h1, h2, stepOp]
  cases errs <;> cases B <;> simp [lmfitJac, matMul, divErrs]

/-- the bridge, for what the driver executes -/
theorem lmfitJacGen_bridge (rows : List (List ℝ)) (n m : ℕ) (errs : Option (List ℝ))
    (B : Option (List (List ℝ))) (hr : Rect rows n m)
    (he : ∀ e, errs = some e → e.length = m) (hb : ∀ b, B = some b → Rect b m m) :
    toM (lmfitJacGen rows m errs B) m n
      = lmfitJacM (toM rows n m) (errsFun errs m) (B.map (fun b => toM b m m)) := by
  rw [lmfitJacGen_eq]; exact lmfitJac_bridge rows n m errs B hr he hb

/-- **dfun_gen_is_residual_gradient**: `dfun_is_residual_gradient` for the regenerated pipeline -/
theorem dfun_gen_is_residual_gradient (pix : List (ℝ × ℝ)) (comps : List (Comp ℝ × Vary)) (i : Nat) (p : Par)
    (h : i < comps.length) (hv : comps[i].2 p = true)
    (b : List (List ℝ)) (hb : Rect b pix.length pix.length) (data : Fin pix.length → ℝ) (j : Fin pix.length)
    (k : Fin (nfree (comps.map (·.2)))) (hk : (k : ℕ) = rank (comps.map (·.2)) i p)
    (hsx : comps[i].1.sx ≠ 0) (hsy : comps[i].1.sy ≠ 0) (hamp : p = .amp → comps[i].1.amp ≠ 0) :
    HasDerivAt
      (fun v => ∑ l : Fin pix.length,
        (modelSum genDerivs ((comps.map (·.1)).set i (comps[i].1.setPar p v)) pix[l].1 pix[l].2 - data l)
          * toM b pix.length pix.length l j)
      (toM (lmfitJacGen (jacRows genDerivs pix comps) pix.length none (some b)) pix.length
        (nfree (comps.map (·.2))) j k)
      (comps[i].1.get p) := by
  rw [lmfitJacGen_eq]
  exact dfun_is_residual_gradient pix comps i p h hv b hb data j k hk hsx hsy hamp

end Pipeline

/-! ### The regenerated Fisher-matrix assembly of `covar_errors` -/

section Assembly
open Aegean.C04Bridge Aegean.C04Fisher

/-- the regenerated word of a branch, as a list -/
def fisWord (w : Nat → Nat) (len : Nat) : List Nat := (List.range len).map w

/-- the matrix a word denotes (1 = `Jᵀ`, 2 = `J`, 3 = `C⁻¹`); only the two shapes `covar_errors`
    may use have a meaning as an `nfree × nfree` Fisher matrix, anything else is `none` -/
noncomputable def covarOfWord {n m : ℕ} (w : List Nat) (J : Matrix (Fin m) (Fin n) ℝ)
    (Cinv : Matrix (Fin m) (Fin m) ℝ) : Option (Matrix (Fin n) (Fin n) ℝ) :=
  if w = [1, 2] then some (Matrix.transpose J * J)
  else if w = [1, 3, 2] then some (Matrix.transpose J * Cinv * J)
  else none

/-- obligation on the regenerated assembly: the B branch asks `lmfit_jacobian` for the Jacobian
    with `errs` and `B` and forms `Jᵀ·J`; the C branch asks for it with `errs` only and forms
    `Jᵀ·inv(C)·J`; both take `sqrt(diag(inv(covar)))`.  Breaks when the source changes a factor,
    its side, a transpose, or the arguments of the call. -/
theorem fisher_assembly_spec :
    fisJacB 0 = 2 ∧ fisWord fisWordB (fisLenB 0) = [1, 2] ∧
    fisJacC 0 = 1 ∧ fisWord fisWordC (fisLenC 0) = [1, 3, 2] ∧ fisSigma 0 = 1 := by decide

/-- **covar_errors_fisher**: with `J` what the regenerated `lmfit_jacobian` pipeline returns for the
    arguments each branch passes, the regenerated products are the Fisher matrices of
    `Aegean.C04Fisher`: B branch `A·Aᵀ` with `A = M/errs·B`, C branch `A·C⁻¹·Aᵀ` with `A = M/errs` —
    to which `covar_psd_pd`, `circular_component_singular` and `whitening_consistent` apply. -/
theorem covar_errors_fisher (rows : List (List ℝ)) (n m : ℕ) (errs : Option (List ℝ)) (b : List (List ℝ))
    (Cinv : Matrix (Fin m) (Fin m) ℝ) (hr : Rect rows n m)
    (he : ∀ e, errs = some e → e.length = m) (hb : Rect b m m) :
    covarOfWord (fisWord fisWordB (fisLenB 0)) (toM (lmfitJacGen rows m errs (some b)) m n) Cinv
        = some (fisher (whitened (toM rows n m) (errsFun errs m) (some (toM b m m)))) ∧
    covarOfWord (fisWord fisWordC (fisLenC 0)) (toM (lmfitJacGen rows m errs none) m n) Cinv
        = some (fisherC (whitened (toM rows n m) (errsFun errs m) none) Cinv) := by
  obtain ⟨_, hwb, _, hwc, _⟩ := fisher_assembly_spec
  rw [hwb, hwc]
  rw [lmfitJacGen_bridge rows n m errs (some b) hr he (fun b' h => by cases h; exact hb),
    lmfitJacGen_bridge rows n m errs none hr he (fun b' h => by cases h)]
  constructor
  · simp [covarOfWord, lmfitJacM, whitened, fisher]
  · simp [covarOfWord, lmfitJacM, whitened, fisherC]

example : covarOfWord (n := 1) (m := 1) [2, 1] 1 1 = none := by simp [covarOfWord]

/-- **mask_is_the_finite_pixels** (regenerated pixel selections of `covar_errors` and of `do_lmfit`):
    both keep exactly the finite pixels — so NaN *and* ±inf blanks are excluded, and the Fisher
    matrix is built on the same pixels the fit used -/
theorem mask_is_the_finite_pixels (v : PixVal) :
    keeps (fisMask 0) v = decide (v = .finite) ∧ keeps (fitMask 0) v = keeps (fisMask 0) v := by
  cases v <;> decide

/-- `~np.isnan` would let ±inf through -/
example : keeps 2 .posInf = true ∧ keeps 1 .posInf = false := by decide

end Assembly

/-! ### Non-vacuity and the negation witness for the pinned loop -/

/-- all six parameters free -/
def allFree : Vary := fun _ => true

/-- xo, yo free only -/
def posOnly : Vary := fun p => p == .xo || p == .yo

example : (freeList [posOnly, allFree]).length = 8 ∧ rank [posOnly, allFree] 1 .amp = 2
    ∧ assignIdx [posOnly, allFree] (1, .theta) = some 7 ∧ assignIdx [posOnly, allFree] (0, .amp) = none := by
  decide

example : HasDerivAt (fun v : ℝ => gauss 1 2 3 0.5 0.25 2 1 v) (dmdtheta 1 2 3 0.5 0.25 2 1 30) 30 :=
  hasDerivAt_theta 1 2 3 0.5 0.25 2 1 30 (by norm_num) (by norm_num)

/-- **the pinned loop violates the property**: with `j = 0` inside the component loop, the
    amplitude of component 1 of a two-component model receives `onesigma[0]` — component 0's
    amplitude error — instead of its own entry `onesigma[6]` -/
theorem pinned_loop_inherits_errors :
    assignIdxPinned [allFree, allFree] (1, .amp) = some 0 ∧ rank [allFree, allFree] 1 .amp = 6
      ∧ assignIdxPinned [allFree, allFree] (1, .amp) = assignIdxPinned [allFree, allFree] (0, .amp) := by
  decide

end Aegean.Properties.C04
