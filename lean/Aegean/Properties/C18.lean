/-
  C18 — Catalogues survive a write/read round trip in every readable format.

  PARTIAL for the proof technique.  The full property is

    "writing a catalogue with save_catalog and reading it back with load_table /
     table_to_source_list gives the same number of sources in the same order with identical
     island/source numbers, flags, uuids and coordinate strings, numeric columns equal to full
     double precision for csv/tab/tex/VOTable and to single precision for FITS; NaN and the -1
     marker are preserved; components / islands / simple sources go to the _comp/_isle/_simp
     files, each holding exactly the sources of that type; sqlite holds the same rows"

  The bytes on disk are produced and parsed by astropy (ascii, votable, fits) and sqlite3; those
  are not modelled.  What is *logic in AegeanTools* is modelled in `Aegean/Model/C18.lean` and the
  clauses of the property about that logic are proved here for ALL catalogues, file names,
  prefixes:

    classify_stable_partition, files_receive_their_type, files_in_order, newName_*        (partition, names)
    columns_follow_names, rows_in_order, colnames_nodup                                  (table construction)
    fits_format_decision, fits_strings_roundtrip, fits_float_column, fits_int_column,
      minus_one_preserved                                                                (FITS typing)
    db_rows_equal, db_tables_in_order, nulls_noop_on_rows                                (sqlite rows)
    table_to_source_list_inverse, roundtrip_with_masking_partial                         (reading back)

  and the serialisers are tied by the correspondence harness (`harness/corr_C18.py`), which also
  evaluates the property itself on the real round trip.
-/
import Aegean.Generated.C18
import Aegean.Model.C18
import Aegean.Proofs.C18

namespace Aegean.Properties.C18
open Aegean.Model.C18 Aegean.Proofs.C18

variable {α : Type}

/-! ### (1) classification, dispatch, file names -/

/-- **classify_stable_partition**: `classify_catalog` returns, for each of the three classes, the
    sources of exactly that class in catalogue order (a sub-list of the catalogue, so relative
    order is preserved); together the three lists are a permutation of the catalogue's sources
    (nothing lost, nothing duplicated, non-source objects dropped); every member of a list has
    that list's class, so no source is in two lists. -/
theorem classify_stable_partition (cat : List (Src α)) :
    classify cat = (ofClass .component cat, ofClass .island cat, ofClass .simple cat) ∧
    ((classify cat).1.Sublist cat ∧ (classify cat).2.1.Sublist cat ∧ (classify cat).2.2.Sublist cat) ∧
    ((classify cat).1 ++ (classify cat).2.1 ++ (classify cat).2.2).Perm
        (cat.filter (fun s => decide (s.cls ≠ .other))) ∧
    (∀ s, (s ∈ (classify cat).1 ↔ s ∈ cat ∧ s.cls = .component) ∧
          (s ∈ (classify cat).2.1 ↔ s ∈ cat ∧ s.cls = .island) ∧
          (s ∈ (classify cat).2.2 ↔ s ∈ cat ∧ s.cls = .simple)) := by
  rw [classify_eq]
  refine ⟨rfl, ⟨List.filter_sublist, List.filter_sublist, List.filter_sublist⟩, ofClass_perm cat, ?_⟩
  intro s
  simp [ofClass, List.mem_filter]

/-- **classify_single_pass**: the model reads the catalogue once, front to back, one step per element
    (a single left fold): the result is a function of the SEQUENCE of sources only, so it is the same for
    a list, a tuple, an object array or a one-shot iterator delivering that sequence. -/
theorem classify_single_pass (cat : List (Src α)) :
    classify cat = cat.foldl classifyStep ([], [], []) ∧
    ∀ (front back : List (Src α)), classify (front ++ back) = back.foldl classifyStep (classify front) := by
  refine ⟨rfl, ?_⟩
  intro front back
  simp [classify, List.foldl_append]

/-- negation witness: a three-pass implementation fed a one-shot iterator loses the islands and the
    simple sources (the model of the code does not) -/
theorem three_pass_over_iterator_drops_sources :
    let cat : List (Src Int) := [⟨.component, []⟩, ⟨.island, []⟩, ⟨.simple, []⟩]
    (classifyThreePassOneShot cat).2.1 = [] ∧ (classifyThreePassOneShot cat).2.2 = [] ∧
    (classify cat).2.1 = [⟨.island, []⟩] ∧ (classify cat).2.2 = [⟨.simple, []⟩] := by decide

/-- the sources `write_catalog` hands to the writer of kind `k` -/
def sourcesOf (k : Kind) (cat : List (Src α)) : List (Src α) := ofClass (Kind.cls k) cat

/-- **files_receive_their_type**: every file written by `write_catalog` is named
    `root ++ suffix ++ ext` where `(root, ext) = splitext filename` and the suffix is the one
    documented for its type, holds the table built from exactly the sources of that type (in
    catalogue order) with that type's `names`, and is only written when there is such a source. -/
theorem files_receive_their_type (filename pre : Str) (gal : Bool) (cat : List (Src α))
    (f : FileOut α) (hf : f ∈ writeCatalog filename pre gal cat) :
    f.name = (splitext filename).1 ++ f.kind.suffix ++ (splitext filename).2 ∧
    f.table = mkTable pre gal (namesOf f.kind) (sourcesOf f.kind cat) ∧
    sourcesOf f.kind cat ≠ [] := by
  unfold writeCatalog at hf
  rw [classify_eq] at hf
  simp only [List.mem_append] at hf
  rcases hf with (hf | hf) | hf
  all_goals
    split at hf
    · cases hf
    · rename_i hne
      simp only [List.mem_singleton] at hf
      subst hf
      refine ⟨rfl, rfl, ?_⟩
      intro h
      simp only [sourcesOf, Kind.cls] at h
      simp [h] at hne

/-- **files_in_order**: exactly one file per type that occurs in the catalogue, in the order
    comp, isle, simp — and no file for a type that does not occur. -/
theorem files_in_order (filename pre : Str) (gal : Bool) (cat : List (Src α)) :
    (writeCatalog filename pre gal cat).map (fun f => f.kind) =
      [Kind.comp, Kind.isle, Kind.simp].filter (fun k => !(sourcesOf k cat).isEmpty) := by
  unfold writeCatalog
  rw [classify_eq]
  simp only [sourcesOf, Kind.cls, List.filter_cons, List.filter_nil]
  cases h1 : (ofClass Cls.component cat).isEmpty <;> cases h2 : (ofClass Cls.island cat).isEmpty <;>
    cases h3 : (ofClass Cls.simple cat).isEmpty <;> simp

/-- the suffix is inserted before the extension: removing it gives the file name back -/
theorem newName_shape (k : Kind) (filename : Str) :
    ∃ root ext, root ++ ext = filename ∧ newName k filename = root ++ k.suffix ++ ext :=
  ⟨(splitext filename).1, (splitext filename).2, splitext_concat filename, rfl⟩

/-- the three per-type files of one `save_catalog` call never collide -/
theorem newName_injective (k k' : Kind) (filename : Str) (h : newName k filename = newName k' filename) :
    k = k' := by
  unfold newName at h
  rw [List.append_assoc, List.append_assoc] at h
  have h2 := List.append_cancel_left h
  have h3 := List.append_cancel_right h2
  exact suffix_injective k k' h3

/-- the suffix table -/
theorem suffix_table : Kind.comp.suffix = "_comp".toList ∧ Kind.isle.suffix = "_isle".toList ∧
    Kind.simp.suffix = "_simp".toList := ⟨rfl, rfl, rfl⟩

/-- the extension → writer table of `save_catalog` for the readable formats -/
theorem dispatch_table :
    dispatch "csv".toList = .table "csv".toList ∧ dispatch "tab".toList = .table "tab".toList ∧
    dispatch "tex".toList = .table "latex".toList ∧ dispatch "vot".toList = .table "vot".toList ∧
    dispatch "xml".toList = .table "xml".toList ∧ dispatch "fits".toList = .table "fits".toList ∧
    dispatch "db".toList = .db ∧ dispatch "sqlite".toList = .db ∧
    dispatch "ann".toList = .ann "ann".toList ∧ dispatch "reg".toList = .ann "reg".toList := by
  decide

/-- an extension outside the table is written in `tab` format -/
theorem unknown_extension_gets_tab (ext : Str)
    (h : ext ∉ ["ann", "reg", "db", "sqlite", "hdf5", "fits", "vo", "vot", "xml", "csv", "tab", "tex", "html"].map
      String.toList) : dispatch ext = .table "tab".toList := by
  simp only [List.map_cons, List.map_nil, List.mem_cons, List.not_mem_nil, or_false, not_or] at h
  obtain ⟨h1, h2, h3, h4, h5, h6, h7, h8, h9, h10, h11, h12, h13⟩ := h
  unfold dispatch
  simp only [h1, h2, h3, h4, h5, h6, h7, h8, h9, h10, h11, h12, h13, or_self, if_false]

/-! ### (2) table construction -/

/-- **columns_follow_names**: the columns are those of the `names` list, in that order, renamed by
    prefix / galactic -/
theorem columns_follow_names (pre : Str) (gal : Bool) (names : List Str) (srcs : List (Src α)) :
    (mkTable pre gal names srcs).colnames = names.map (colName pre gal) := by
  simp [mkTable, Table.colnames, List.map_map, Function.comp_def]

theorem table_nrows (pre : Str) (gal : Bool) (names : List Str) (srcs : List (Src α)) (h : names ≠ []) :
    (mkTable pre gal names srcs).nrows = srcs.length := mkTable_nrows pre gal names srcs h

/-- **rows_in_order**: row `i` of the table is source `i` of the list, attribute by attribute in
    `names` order; one row per source -/
theorem rows_in_order (pre : Str) (gal : Bool) (names : List Str) (srcs : List (Src α)) (i : Nat)
    (s : Src α) (hi : srcs[i]? = some s) :
    (mkTable pre gal names srcs).row i = names.map (fun n => s.get n) := by
  simp only [mkTable, Table.row, List.map_map, Function.comp_def]
  apply List.map_congr_left
  intro n _
  simp [List.getD, List.getElem?_map, hi]

/-- no two attributes of a class end up in the same column, for any prefix, galactic or not (so the
    dict the writer builds loses nothing) -/
theorem colnames_nodup (k : Kind) (pre : Str) (gal : Bool) :
    ((namesOf k).map (colName pre gal)).Nodup := by
  have base : ((namesOf k).map (fun n => if gal then galName n else n)).Nodup := by
    cases k <;> cases gal <;> decide
  unfold List.Nodup at base ⊢
  rw [List.pairwise_map] at base ⊢
  refine base.imp ?_
  intro a b hab h
  exact hab (List.append_cancel_left h)

/-! ### (3) FITS column typing -/

/-- **fits_format_decision**: the format chosen (repaired code) for a non-empty column, as a
    function of the Python values handed to `Table(...)`: `err_*` → `E`; all strings → `A` with
    the width of the longest (≥ 1); all numbers → `E` if any is a float, else `J`
    — *independent of which row comes first*; anything else (object columns) → first row's type. -/
theorem fits_format_decision (ops : FloatOps α) (name : Str) (v : Val α) (vs : List (Val α)) :
    columnFmt name (unify ops (v :: vs)) =
      if errPrefix.isPrefixOf name then .E
      else if (v :: vs).all Val.isStr then .A (max 1 (maxLen (v :: vs)))
      else if (v :: vs).all Val.isNum then (if (v :: vs).any Val.isFloat then .E else .J)
      else fitsType v := by
  unfold columnFmt
  by_cases he : errPrefix.isPrefixOf name = true
  · simp [he]
  · simp only [he, Bool.false_eq_true, if_false]
    by_cases hn : (v :: vs).all Val.isNum = true
    · by_cases hf : (v :: vs).any Val.isFloat = true
      · have hu : unify ops (v :: vs) = (v :: vs).map (castInt ops) := by
          unfold unify; rw [hn, hf]; rfl
        have hs : ¬ ((v :: vs).all Val.isStr = true) := by
          cases v <;> simp_all [Val.isStr, Val.isNum]
        have hs2 : isStrCol (unify ops (v :: vs)) = false := by
          rw [hu]; cases v <;> simp_all [isStrCol, Val.isStr, Val.isNum, castInt]
        rw [hs2, hu]
        simp only [Bool.false_eq_true, if_false, hs, hn, hf, if_true, List.map_cons, List.head?_cons,
          Option.getD_some]
        cases v <;> simp_all [fitsType, Val.isNum, castInt]
      · have hu : unify ops (v :: vs) = v :: vs := by simp [unify, hf]
        have hs : ¬ ((v :: vs).all Val.isStr = true) := by
          cases v <;> simp_all [Val.isStr, Val.isNum]
        have hs2 : isStrCol (v :: vs) = false := by
          cases v <;> simp_all [isStrCol, Val.isStr, Val.isNum]
        rw [hu, hs2]
        simp only [Bool.false_eq_true, if_false, hs, hn, hf, if_true, List.head?_cons, Option.getD_some]
        cases v <;> simp_all [fitsType, Val.isNum, Val.isFloat]
    · have hu : unify ops (v :: vs) = v :: vs := by simp [unify, hn]
      rw [hu]
      by_cases hs : (v :: vs).all Val.isStr = true
      · have : isStrCol (v :: vs) = true := by simp [isStrCol, hs]
        simp [this, hs]
      · have : isStrCol (v :: vs) = false := by simp [isStrCol, hs]
        simp [this, hs, hn]

/-- **fits_strings_roundtrip**: with the repaired width (max over the column) every string of a
    string column comes back whole (FITS does not keep trailing blanks: `rstrip`), whichever row is
    first, including empty strings, for every column name that does not start with `err_`
    — so also for `uuid`, `ra_str`, `dec_str` *with a column prefix*. -/
theorem fits_strings_roundtrip (ops : FloatOps α) (name : Str) (col : List (Val α))
    (hname : errPrefix.isPrefixOf name = false) (hcol : col.all Val.isStr = true)
    (s : Str) (hs : Val.str s ∈ col) :
    fitsStore ops (columnFmt name (unify ops col)) (.str s) = some (.str (rstrip s)) := by
  cases col with
  | nil => cases hs
  | cons v vs =>
    rw [fits_format_decision]
    simp only [hname, Bool.false_eq_true, if_false, hcol, if_true]
    have hw : s.length ≤ maxLen (v :: vs) := maxLen_ge (v :: vs) (.str s) hs
    have h1 : max 1 (maxLen (v :: vs)) ≠ 0 := by omega
    have h2 : s.take (max 1 (maxLen (v :: vs))) = s := List.take_of_length_le (by omega)
    simp [fitsStore, h1, h2]

/-- a string without trailing blanks comes back identical -/
theorem fits_strings_identical (ops : FloatOps α) (name : Str) (col : List (Val α))
    (hname : errPrefix.isPrefixOf name = false) (hcol : col.all Val.isStr = true)
    (s : Str) (hs : Val.str s ∈ col) (hblank : rstrip s = s) :
    fitsStore ops (columnFmt name (unify ops col)) (.str s) = some (.str s) := by
  rw [fits_strings_roundtrip ops name col hname hcol s hs, hblank]

/-- the single-precision image of a numeric cell -/
def singleOf (ops : FloatOps α) : Val α → Val α
  | .int i => .flt (ops.single (ops.ofInt i))
  | .flt x => .flt (ops.single x)
  | v => v

/-- **fits_float_column** (single precision): in a numeric column that holds a float anywhere, or
    whose name starts with `err_`, every cell — float, NaN, or Python int such as the −1 marker —
    comes back as its single-precision value; NaN comes back NaN. -/
theorem fits_float_column (ops : FloatOps α) (name : Str) (col : List (Val α))
    (hnum : col.all Val.isNum = true)
    (hE : col.any Val.isFloat = true ∨ errPrefix.isPrefixOf name = true)
    (v : Val α) (hv : v ∈ col) :
    ∃ v', v' ∈ unify ops col ∧ fitsStore ops (columnFmt name (unify ops col)) v' = some (singleOf ops v) := by
  cases col with
  | nil => cases hv
  | cons c cs =>
    have hvn : v.isNum = true := (List.all_eq_true.mp hnum) v hv
    have hfmt : columnFmt name (unify ops (c :: cs)) = .E := by
      rw [fits_format_decision]
      by_cases he : errPrefix.isPrefixOf name = true
      · simp [he]
      · have hf : (c :: cs).any Val.isFloat = true := by
          cases hE with
          | inl h => exact h
          | inr h => exact absurd h he
        have hs : ¬ ((c :: cs).all Val.isStr = true) := by
          cases c <;> simp_all [Val.isStr, Val.isNum]
        simp only [he, Bool.false_eq_true, if_false, hs, hnum, hf, if_true]
    rw [hfmt]
    by_cases hf : (c :: cs).any Val.isFloat = true
    · refine ⟨castInt ops v, ?_, ?_⟩
      · have : unify ops (c :: cs) = (c :: cs).map (castInt ops) := by
          unfold unify; rw [hnum, hf]; rfl
        rw [this]
        exact List.mem_map_of_mem hv
      · cases v <;> simp_all [fitsStore, singleOf, Val.isNum, castInt]
    · refine ⟨v, ?_, ?_⟩
      · have : unify ops (c :: cs) = c :: cs := by simp [unify, hf]
        rw [this]; exact hv
      · have hnf : v.isFloat = false := by
          cases h : v.isFloat with
          | false => rfl
          | true => exact absurd (List.any_eq_true.mpr ⟨v, hv, h⟩) hf
        cases v <;> simp_all [fitsStore, singleOf, Val.isNum, Val.isFloat]

/-- **fits_int_column**: an all-integer column (island, source, flags) whose name does not start
    with `err_` is a `J` column and gives every integer in the 32-bit range back exactly. -/
theorem fits_int_column (ops : FloatOps α) (name : Str) (col : List (Val α))
    (hname : errPrefix.isPrefixOf name = false)
    (hnum : col.all Val.isNum = true) (hint : col.any Val.isFloat = false)
    (i : Int) (hv : Val.int i ∈ col) (hlo : -2147483648 ≤ i) (hhi : i < 2147483648) :
    unify ops col = col ∧ fitsStore ops (columnFmt name (unify ops col)) (.int i) = some (.int i) := by
  cases col with
  | nil => cases hv
  | cons c cs =>
    have hs : ¬ ((c :: cs).all Val.isStr = true) := by
      cases c <;> simp_all [Val.isStr, Val.isNum]
    have hu : unify ops (c :: cs) = c :: cs := by simp [unify, hint]
    refine ⟨hu, ?_⟩
    rw [fits_format_decision]
    simp only [hname, Bool.false_eq_true, if_false, hs, hnum, hint, if_true]
    have : wrap32 i = i := by unfold wrap32; omega
    simp [fitsStore, this]

/-- **minus_one_preserved**: the −1 "no error" marker survives a FITS `err_*` column, whether it was
    stored as the Python int −1 or the float −1.0, provided −1 is a single-precision number
    (hypotheses `h1`, `h2`: true of IEEE arithmetic, sampled by the harness). -/
theorem minus_one_preserved (ops : FloatOps α) (m1 : α)
    (h1 : ops.ofInt (-1) = m1) (h2 : ops.single m1 = m1) :
    singleOf ops (.int (-1)) = .flt m1 ∧ singleOf ops (.flt m1) = .flt m1 := by
  simp [singleOf, h1, h2]

/-! #### the pinned decision: negation witnesses (`decide`) -/

/-- integer stand-in for doubles in the concrete witnesses -/
def opsZ : FloatOps Int := ⟨id, id⟩

def witnessCol : List (Val Int) := [.str "1:2:3.4".toList, .str "12:34:56.78".toList]

/-- PINNED: `ra_str` takes the width of the first row (7), so the second row's 11-character string
    comes back truncated -/
theorem pinned_truncates_later_strings :
    fitsWrite opsZ columnFmtPinned ⟨[("ra_str".toList, witnessCol)]⟩ =
      some [("ra_str".toList, Fmt.A 7, [.str "1:2:3.4".toList, .str "12:34:5".toList])] := by decide

/-- PINNED: an empty first string gives a zero-width column and the writer raises -/
theorem pinned_empty_first_string_raises :
    fitsWrite opsZ columnFmtPinned ⟨[("ra_str".toList, [.str [], .str "12:34:56.78".toList])]⟩ = none := by
  decide

/-- PINNED: with a column prefix the uuid column is no longer called `uuid` and is truncated too -/
theorem pinned_prefixed_uuid_truncated :
    fitsWrite opsZ columnFmtPinned ⟨[("x_uuid".toList, [.str "ab".toList, .str "abcdef".toList])]⟩ =
      some [("x_uuid".toList, Fmt.A 2, [.str "ab".toList, .str "ab".toList])] := by decide

/-- REPAIRED: the same tables come back whole -/
theorem repaired_keeps_witnesses :
    fitsWrite opsZ columnFmt ⟨[("ra_str".toList, witnessCol)]⟩ =
      some [("ra_str".toList, Fmt.A 11, witnessCol)] ∧
    fitsWrite opsZ columnFmt ⟨[("ra_str".toList, [.str [], .str "12:34:56.78".toList])]⟩ =
      some [("ra_str".toList, Fmt.A 11, [.str [], .str "12:34:56.78".toList])] ∧
    fitsWrite opsZ columnFmt ⟨[("x_uuid".toList, [.str "ab".toList, .str "abcdef".toList])]⟩ =
      some [("x_uuid".toList, Fmt.A 6, [.str "ab".toList, .str "abcdef".toList])] :=
  ⟨by decide, by decide, by decide⟩

/-- the numeric decision does not depend on the first row: an integer-valued first row (Python
    int 2) in a float column still gives `E`; an all-int `err_` column gives `E` -/
example : columnFmt "peak_flux".toList (unify opsZ [.int 2, .flt 5, .nan]) = Fmt.E ∧
    columnFmt "err_ra".toList (unify opsZ [.int (-1), .int (-1)]) = Fmt.E ∧
    columnFmt "flags".toList (unify opsZ [.int 0, .int 3]) = Fmt.J := by decide

/-! ### (4) sqlite rows -/

/-- `nulls` is applied to whole rows, and a row is never `-1`: it changes nothing (the −1 marker is kept) -/
theorem nulls_noop_on_rows (isM1 : α → Bool) (r : List (Val α)) : nulls isM1 (.row r) = some (.row r) := rfl

/-- **db_rows_equal**: the table written for a non-empty list of sources of kind `k` is called
    components / islands / simples, has the `names` columns in order, and holds one row per
    source, in order, equal to the rows of the table the other writers build. -/
theorem db_rows_equal (isM1 : α → Bool) (k : Kind) (s : Src α) (rest : List (Src α)) :
    ∃ tb, dbTable isM1 k (s :: rest) = some tb ∧
      tb.name = k.tableName ∧ tb.cols.map Prod.fst = namesOf k ∧
      tb.cols.map Prod.snd = (namesOf k).map (fun n => sqlType (s.get n)) ∧
      tb.rows = (s :: rest).map (asList (namesOf k)) ∧
      tb.rows = (List.range (s :: rest).length).map ((mkTable [] false (namesOf k) (s :: rest)).row) := by
  refine ⟨_, rfl, rfl, ?_, ?_, ?_, ?_⟩
  · simp [List.map_map, Function.comp_def]
  · simp [List.map_map, Function.comp_def]
  · simp only [List.filterMap_map, Function.comp_def, nulls, filterMap_some_eq_map]
  · simp only [List.filterMap_map, Function.comp_def, nulls, filterMap_some_eq_map, asList]
    apply List.ext_getElem?
    intro i
    simp only [List.getElem?_map]
    by_cases hi : i < (s :: rest).length
    · have h1 : (s :: rest)[i]? = some ((s :: rest)[i]) := List.getElem?_eq_getElem hi
      rw [h1, List.getElem?_range hi]
      simp only [Option.map_some]
      rw [rows_in_order [] false (namesOf k) (s :: rest) i _ h1]
    · have h1 : (s :: rest)[i]? = none := List.getElem?_eq_none (by omega)
      have h2 : (List.range (s :: rest).length)[i]? = none := List.getElem?_eq_none (by simpa using hi)
      rw [h1, h2]; rfl

/-- one sqlite table per type that occurs, in the order components, islands, simples -/
theorem db_tables_in_order (isM1 : α → Bool) (cat : List (Src α)) :
    (dbTables isM1 cat).map (fun t => t.name) =
      ([Kind.comp, Kind.isle, Kind.simp].filter (fun k => !(sourcesOf k cat).isEmpty)).map Kind.tableName := by
  unfold dbTables
  rw [classify_eq]
  simp only [sourcesOf, Kind.cls, List.filter_cons, List.filter_nil]
  cases h1 : ofClass Cls.component cat <;> cases h2 : ofClass Cls.island cat <;>
    cases h3 : ofClass Cls.simple cat <;> simp [dbTable]

/-! #### histories: a second write to the same name -/

/-- **db_depends_on_last_write_only**: whatever database file was there before (any tables, from
    any earlier catalogue), after `writeDB` the file holds exactly the tables of the catalogue just
    written — in particular no table of a source type that does not occur in it. -/
theorem db_depends_on_last_write_only (isM1 : α → Bool) (old : Option (List (DbTable α))) (cat : List (Src α)) :
    writeDBFile isM1 old cat = dbTables isM1 cat := by
  unfold writeDBFile
  cases old <;> simp

/-- for every history of writes to the same name, the database is that of the last catalogue alone -/
theorem db_history_last_only (isM1 : α → Bool) (old : Option (List (DbTable α))) (hist : List (List (Src α)))
    (last : List (Src α)) :
    writeDBHistory isM1 old (hist ++ [last]) = some (dbTables isM1 last) := by
  induction hist generalizing old with
  | nil => simp [writeDBHistory, db_depends_on_last_write_only]
  | cons c cs ih => simp only [List.cons_append, writeDBHistory]; exact ih _

/-- after any history the tables present are those of the types occurring in the last catalogue -/
theorem db_history_tables (isM1 : α → Bool) (old : Option (List (DbTable α))) (hist : List (List (Src α)))
    (last : List (Src α)) :
    (writeDBHistory isM1 old (hist ++ [last])).map (fun ts => ts.map (fun t => t.name)) =
      some (([Kind.comp, Kind.isle, Kind.simp].filter (fun k => !(sourcesOf k last).isEmpty)).map Kind.tableName) := by
  rw [db_history_last_only, Option.map_some, db_tables_in_order]

/-- negation witness for the "update in place" variant (keep the file, drop only the tables that
    are rewritten): an islands table from the first write survives a second write without islands -/
theorem in_place_keeps_stale_table :
    let isle : Src Int := ⟨.island, []⟩
    let comp : Src Int := ⟨.component, []⟩
    let w1 := writeDBInPlace (fun x => x == -1) none [comp, isle]
    let w2 := writeDBInPlace (fun x => x == -1) (some w1) [comp]
    w2.map (fun t => t.name) = ["islands".toList, "components".toList] ∧
    (writeDBFile (fun x => x == -1) (some w1) [comp]).map (fun t => t.name) = ["components".toList] := by
  decide

/-- per-type files: a write leaves every file it does not name untouched (a stale `_isle` file of
    an earlier write is not an output of a write without islands) -/
theorem fsWrite_other_files_untouched (fs : List (Str × Table α)) (outs : List (FileOut α)) (n : Str)
    (h : ∀ f ∈ outs, f.name ≠ n) : (fsWrite fs outs).lookup n = fs.lookup n := by
  unfold fsWrite
  induction outs generalizing fs with
  | nil => rfl
  | cons f rest ih =>
    rw [List.foldl_cons, ih _ (fun g hg => h g (List.mem_cons_of_mem _ hg))]
    have hf : f.name ≠ n := h f List.mem_cons_self
    have hb : (n == f.name) = false := by simpa using (fun e => hf e.symm)
    simp only [List.lookup_cons, hb]
    induction fs with
    | nil => rfl
    | cons e es ihe =>
      obtain ⟨k, v⟩ := e
      by_cases hk : k = f.name
      · subst hk
        simp only [List.filter_cons, bne_self_eq_false, Bool.false_eq_true, if_false, ihe, List.lookup_cons, hb]
      · by_cases hn : n = k
        · subst hn; simp [hk]
        · have : (n == k) = false := by simpa using hn
          simp [hk, List.lookup_cons, this, ihe]

/-! ### (5) reading back: `table_to_source_list` inverts the table construction -/

theorem toSources_length (names : List Str) (dflt : Src α) (t : Table α) :
    (toSources names dflt t).length = t.nrows := by simp [toSources]

theorem toSources_getElem? (names : List Str) (dflt : Src α) (t : Table α) (i : Nat) (hi : i < t.nrows) :
    (toSources names dflt t)[i]? = some (rebuild names dflt t i) := by
  simp [toSources, List.getElem?_map, List.getElem?_range hi]

/--
  **roundtrip_with_masking_partial**.  Full statement wanted: for every format, the sources rebuilt
  from the file equal the sources written.  Proved here (for every `names` list, default object,
  list of sources): if the reader hands back the table that was built, except that it may have
  *masked* NaN cells and/or empty-string cells (what astropy's FITS / VOTable / ascii readers do),
  then the repaired `table_to_source_list` gives one source per row, in order, and every attribute
  `n ∈ names` of source `i` equals the attribute that was written — provided the class default of
  a float attribute is NaN and of a string attribute is '' wherever such a value was written
  (hypotheses `hnan`, `hemp`; true of the three source classes, checked by the harness), and
  attributes outside `names` keep their default.  NOT proved (left to the correspondence): that
  astropy's writers and readers reproduce the table cell for cell.
-/
theorem roundtrip_with_masking_partial (names : List Str) (dflt : Src α) (srcs : List (Src α))
    (maskNaN maskEmpty : Bool) (hne : names ≠ []) :
    let t := (mkTable [] false names srcs).mapCells (maskOnRead maskNaN maskEmpty)
    (toSources names dflt t).length = srcs.length ∧
    ∀ (i : Nat) (s : Src α), srcs[i]? = some s →
      ∃ r : Src α, (toSources names dflt t)[i]? = some r ∧
        (∀ n, n ∉ names → r.get n = dflt.get n) ∧
        (∀ n, n ∈ names → s.get n ≠ .masked →
          (maskNaN = true → s.get n = .nan → dflt.get n = .nan) →
          (maskEmpty = true → s.get n = .str [] → dflt.get n = .str []) →
          r.get n = s.get n) := by
  intro t
  have hrows : t.nrows = srcs.length := by
    show ((mkTable [] false names srcs).mapCells _).nrows = _
    rw [mapCells_nrows, mkTable_nrows _ _ _ _ hne]
  refine ⟨by rw [toSources_length, hrows], ?_⟩
  intro i s hs
  have hi : i < srcs.length := by
    rcases Nat.lt_or_ge i srcs.length with h | h
    · exact h
    · rw [List.getElem?_eq_none h] at hs; cases hs
  refine ⟨rebuild names dflt t i, toSources_getElem? names dflt t i (by omega), ?_, ?_⟩
  · intro n hn
    unfold rebuild; rw [rebuild_get]; simp [hn]
  · intro n hn hmask hnan hemp
    unfold rebuild; rw [rebuild_get]
    simp only [hn, if_true]
    have hcol : t.col? n = some ((srcs.map (fun s => s.get n)).map (maskOnRead maskNaN maskEmpty)) := by
      show ((mkTable [] false names srcs).mapCells _).col? n = _
      rw [mapCells_col, mkTable_plain_col names srcs n hn]; rfl
    unfold cellOr
    rw [hcol]
    have hcell : ((srcs.map (fun s => s.get n)).map (maskOnRead maskNaN maskEmpty)).getD i .none =
        maskOnRead maskNaN maskEmpty (s.get n) := by
      simp [List.getD, List.getElem?_map, hs]
    simp only [hcell]
    generalize hv : s.get n = v at hmask hnan hemp
    cases v with
    | nan => cases maskNaN <;> simp_all [maskOnRead, unmask]
    | str x =>
      cases x with
      | nil => cases maskEmpty <;> simp_all [maskOnRead, unmask]
      | cons c cs => simp [maskOnRead, unmask]
    | masked => exact absurd rfl hmask
    | _ => simp [maskOnRead, unmask]

/-- **table_to_source_list_inverse**: reading the table that was built (no masking) gives back, in
    order, sources whose `names` attributes are the ones written — unconditionally. -/
theorem table_to_source_list_inverse (names : List Str) (dflt : Src α) (srcs : List (Src α)) (hne : names ≠ [])
    (i : Nat) (s : Src α) (hs : srcs[i]? = some s) (n : Str) (hn : n ∈ names) (hm : s.get n ≠ .masked) :
    (toSources names dflt (mkTable [] false names srcs)).length = srcs.length ∧
    ∃ r : Src α, (toSources names dflt (mkTable [] false names srcs))[i]? = some r ∧ r.get n = s.get n := by
  have h := roundtrip_with_masking_partial names dflt srcs false false hne
  have hid : (mkTable [] false names srcs).mapCells (maskOnRead false false) = mkTable [] false names srcs := by
    have hf : ∀ v : Val α, maskOnRead false false v = v := by
      intro v; cases v with
      | str x => cases x <;> rfl
      | _ => rfl
    simp [Table.mapCells, mkTable, List.map_map, Function.comp_def, hf]
  simp only [hid] at h
  obtain ⟨hl, hr⟩ := h
  obtain ⟨r, hr1, _, hr3⟩ := hr i s hs
  exact ⟨hl, r, hr1, hr3 n hn hm (by intro h; cases h) (by intro h; cases h)⟩

/-- PINNED `table_to_source_list`: a masked cell (a NaN read back from FITS / VOTable) is copied
    into the source as `numpy.ma.masked` instead of NaN -/
theorem pinned_copies_masked :
    (toSourcesPinned ["peak_flux".toList] (⟨.component, [("peak_flux".toList, .nan)]⟩ : Src Int)
        ((mkTable [] false ["peak_flux".toList] [⟨.component, [("peak_flux".toList, .nan)]⟩]).mapCells
          (maskOnRead true true))).map (fun r : Src Int => r.get "peak_flux".toList) = [.masked] ∧
    (toSources ["peak_flux".toList] (⟨.component, [("peak_flux".toList, .nan)]⟩ : Src Int)
        ((mkTable [] false ["peak_flux".toList] [⟨.component, [("peak_flux".toList, .nan)]⟩]).mapCells
          (maskOnRead true true))).map (fun r : Src Int => r.get "peak_flux".toList) = [.nan] := by decide

/-! ### (6) obligations on the decision tables REGENERATED from the source on every run
    (`Gen.C18.fitsLetter`, `fitsWidth`, `sqlCode`, `classifyWhich`; they break when the code changes meaning) -/

set_option linter.unusedSimpArgs false

/-- **gen_classify_table**: the regenerated isinstance chain of `classify_catalog` sends ComponentSource to
    the 1st returned list, IslandSource to the 2nd, a plain SimpleSource to the 3rd, anything else nowhere -/
theorem gen_classify_table :
    Gen.C18.classifyWhich 3 = 1 ∧ Gen.C18.classifyWhich 2 = 2 ∧ Gen.C18.classifyWhich 1 = 3 ∧
    Gen.C18.classifyWhich 0 = 0 := by decide

/-- **gen_classify_subclasses**: the regenerated chain treats an instance of a user-defined SUBCLASS of
    ComponentSource / IslandSource / SimpleSource (class codes 6, 5, 4) exactly like an instance of the base
    class — it is `isinstance` dispatch, not exact-class dispatch; this is what licenses the model's `Cls`
    (the library class an object is an instance of).  Fails for `type(x) is C` / dict-on-`__class__` code. -/
theorem gen_classify_subclasses :
    Gen.C18.classifyWhich 6 = Gen.C18.classifyWhich 3 ∧ Gen.C18.classifyWhich 5 = Gen.C18.classifyWhich 2 ∧
    Gen.C18.classifyWhich 4 = Gen.C18.classifyWhich 1 := by decide

/-- **gen_classify_eq**: `classify_catalog` assembled from the regenerated table IS the model `classify`, for
    every catalogue — so `classify_stable_partition` and everything downstream speak about the code's own chain -/
theorem gen_classify_eq (cat : List (Src α)) : classifyG Gen.C18.classifyWhich cat = classify cat := by
  obtain ⟨h3, h2, h1, h0⟩ := gen_classify_table
  have hstep : ∀ (acc : List (Src α) × List (Src α) × List (Src α)) (s : Src α),
      classifyStepG Gen.C18.classifyWhich acc s = classifyStep acc s := by
    intro acc s
    cases h : s.cls <;> simp [classifyStepG, classifyStep, Cls.code, Cls.isInstance, h, h0, h1, h2, h3]
  unfold classifyG classify
  generalize (([], [], []) : List (Src α) × List (Src α) × List (Src α)) = acc
  induction cat generalizing acc with
  | nil => rfl
  | cons s t ih => simp only [List.foldl_cons, hstep, ih]

/-- the regenerated partition has all the properties of `classify_stable_partition` -/
theorem gen_classify_stable_partition (cat : List (Src α)) :
    classifyG Gen.C18.classifyWhich cat = (ofClass .component cat, ofClass .island cat, ofClass .simple cat) := by
  rw [gen_classify_eq, classify_eq]

/-- **gen_fits_err**: a column whose name starts with `err_` is an `E` column whatever it holds -/
theorem gen_fits_err (u k m t v : Nat) : Gen.C18.fitsLetter 1 u k m t v = 69 := by
  simp [Gen.C18.fitsLetter, fitsLetterHand]

/-- **gen_fits_string_width**: a string column (dtype kind U or S) whose name does not start with `err_`
    is an `A` column as wide as the longest entry of ANY row (and at least 1) — not the first row's width,
    and whatever the column is called (the obligation DESIGN §6 #23 fails on the pinned code) -/
theorem gen_fits_string_width (u k m t v : Nat) (hk : k = 3 ∨ k = 4) :
    Gen.C18.fitsLetter 0 u k m t v = 65 ∧ Gen.C18.fitsWidth 0 u k m t v = max 1 m := by
  constructor
  · rcases hk with rfl | rfl <;> simp [Gen.C18.fitsLetter, fitsLetterHand]
  · rcases hk with rfl | rfl <;> simp only [Gen.C18.fitsWidth, fitsWidthHand] <;>
      simp <;> (try split) <;> omega

/-- **gen_fits_first_row**: every other column takes the type letter of its first row's python type:
    bool `L`, int `J`, float `E`, str `A` of that string's length, anything else `5A` -/
theorem gen_fits_first_row (u k m t v : Nat) (h3 : k ≠ 3) (h4 : k ≠ 4) :
    (t = 0 → Gen.C18.fitsLetter 0 u k m t v = 76) ∧ (t = 1 → Gen.C18.fitsLetter 0 u k m t v = 74) ∧
    (t = 2 → Gen.C18.fitsLetter 0 u k m t v = 69) ∧
    (t = 3 → Gen.C18.fitsLetter 0 u k m t v = 65 ∧ Gen.C18.fitsWidth 0 u k m t v = v) ∧
    (4 ≤ t → Gen.C18.fitsLetter 0 u k m t v = 65 ∧ Gen.C18.fitsWidth 0 u k m t v = 5) := by
  refine ⟨?_, ?_, ?_, ?_, ?_⟩
  · rintro rfl; simp [Gen.C18.fitsLetter, fitsLetterHand, h3, h4]
  · rintro rfl; simp [Gen.C18.fitsLetter, fitsLetterHand, h3, h4]
  · rintro rfl; simp [Gen.C18.fitsLetter, fitsLetterHand, h3, h4]
  · rintro rfl; simp [Gen.C18.fitsLetter, Gen.C18.fitsWidth, fitsLetterHand, fitsWidthHand, h3, h4]
  · intro ht
    have a0 : t ≠ 0 := by omega
    have a1 : t ≠ 1 := by omega
    have a2 : t ≠ 2 := by omega
    have a3 : t ≠ 3 := by omega
    simp [Gen.C18.fitsLetter, Gen.C18.fitsWidth, fitsLetterHand, fitsWidthHand, h3, h4, a0, a1, a2, a3]

theorem colKind_str (col : List (Val α)) (h : isStrCol col = true) : colKind col = 3 := by simp [colKind, h]

theorem colKind_not_str (col : List (Val α)) (h : isStrCol col = false) : colKind col ≠ 3 ∧ colKind col ≠ 4 := by
  unfold colKind
  simp only [h, Bool.false_eq_true, if_false]
  repeat' split
  all_goals omega

/-- **gen_column_decision**: the column format assembled from the regenerated table IS the model's
    `columnFmt`, for every column name and every column — so `fits_format_decision`,
    `fits_strings_roundtrip`, `fits_float_column`, `fits_int_column` speak about the code's own chain -/
theorem gen_column_decision (name : Str) (col : List (Val α)) :
    columnFmtG Gen.C18.fitsLetter Gen.C18.fitsWidth name col = some (columnFmt name col) := by
  unfold columnFmtG columnFmt
  by_cases he : errPrefix.isPrefixOf name = true
  · simp only [he, if_true, gen_fits_err]; rfl
  · simp only [he, Bool.false_eq_true, if_false]
    cases hs : isStrCol col
    · obtain ⟨k3, k4⟩ := colKind_not_str col hs
      obtain ⟨f0, f1, f2, f3, f4⟩ := gen_fits_first_row (if name = uuidName then 1 else 0) (colKind col) (maxLen col)
        ((col.head?.getD .none).tag) ((col.head?.getD .none).strLen) k3 k4
      simp only [Bool.false_eq_true, if_false]
      cases hv : col.head?.getD .none <;> simp only [hv, Val.tag, Val.strLen, fitsType] at f0 f1 f2 f3 f4 ⊢
      all_goals simp_all [decodeFmt]
    · obtain ⟨g1, g2⟩ := gen_fits_string_width (if name = uuidName then 1 else 0) (colKind col) (maxLen col)
        ((col.head?.getD .none).tag) ((col.head?.getD .none).strLen) (Or.inl (colKind_str col hs))
      simp only [if_true, g1, g2]; rfl

/-- the characterisation `fits_format_decision`, for the regenerated decision -/
theorem gen_fits_format_decision (ops : FloatOps α) (name : Str) (v : Val α) (vs : List (Val α)) :
    columnFmtG Gen.C18.fitsLetter Gen.C18.fitsWidth name (unify ops (v :: vs)) = some (
      if errPrefix.isPrefixOf name then .E
      else if (v :: vs).all Val.isStr then .A (max 1 (maxLen (v :: vs)))
      else if (v :: vs).all Val.isNum then (if (v :: vs).any Val.isFloat then .E else .J)
      else fitsType v) := by
  rw [gen_column_decision, fits_format_decision]

/-- with the regenerated decision every string of a string column fits its column, whichever row is first -/
theorem gen_strings_fit (ops : FloatOps α) (name : Str) (col : List (Val α))
    (hname : errPrefix.isPrefixOf name = false) (hcol : col.all Val.isStr = true) (s : Str) (hs : Val.str s ∈ col) :
    ∃ f, columnFmtG Gen.C18.fitsLetter Gen.C18.fitsWidth name (unify ops col) = some f ∧
      fitsStore ops f (.str s) = some (.str (rstrip s)) :=
  ⟨_, gen_column_decision name (unify ops col), fits_strings_roundtrip ops name col hname hcol s hs⟩

/-- **gen_sql_type**: the regenerated `sqlTypes` chain declares BOOL / INT / FLOAT / VARCHAR exactly as the model -/
theorem gen_sql_type (v : Val α) : sqlTypeG Gen.C18.sqlCode v = some (sqlType v) := by
  cases v <;> simp [sqlTypeG, Val.tag, Gen.C18.sqlCode, sqlCodeHand, decodeSql, sqlType]

/-- non-vacuity: the assembled decisions on concrete columns -/
example : columnFmtG Gen.C18.fitsLetter Gen.C18.fitsWidth "x_uuid".toList
      ([.str "ab".toList, .str "abcdef".toList] : List (Val Int)) = some (.A 6) ∧
    columnFmtG Gen.C18.fitsLetter Gen.C18.fitsWidth "flags".toList ([.int 1, .int 2] : List (Val Int)) = some .J ∧
    sqlTypeG Gen.C18.sqlCode (.nan : Val Int) = some "FLOAT".toList := by decide

end Aegean.Properties.C18
