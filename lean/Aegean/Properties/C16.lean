/-
  C16 — Pixel <-> sky conversion of positions, vectors, ellipses: inverse and correct.

  Model: Aegean/Model/C16.lean (`WCSHelper.pix2sky / sky2pix / sky2pix_vec / pix2sky_vec /
  sky2pix_ellipse / pix2sky_ellipse`, exactly as coded, over an abstract `Wcs`), whose arithmetic leaves
  `Gen.C16.*` are regenerated from `wcs_helpers.py` and `angle_tools.py` on every run.  The theorems
  hold for EVERY world coordinate system satisfying the inverse laws `WcsLaws` (the contract assumed of
  astropy/wcslib, sampled by harness/corr_C16.py against an independent Lean zenithal WCS); the facts
  about the sphere (`SphereLaws`) are discharged from C17's lemmas (Aegean/Proofs/C16FromC17.lean).

  Property clauses and where they are:
    "pixel → sky → pixel returns the same pixel"                      pix_roundtrip
    "sky position agrees with FITS for 1-based (row, column)"         pix2sky_is_fits_row_column, pix2sky_origin0
                                                                      (+ agreement of astropy with FITS Paper II: sampled)
    "vector sky → pixel → sky returns length and position angle"      vec_roundtrip            (exact)
    "ellipse … returns the original length(s) and position angle"     ellipse_major_pa_roundtrip (exact),
                                                                      ellipse_minor_roundtrip_partial / _mirror_partial
    "lengths are great-circle lengths, angles East of North"          vec_is_great_circle_east_of_north,
                                                                      ellipse_is_great_circle_east_of_north
    executable zenithal WCS                                           radial_inverse, radial_radialInv, lin_inverse,
                                                                      rotation_involutive, rotation_orthogonal,
                                                                      zen_w2p_p2w, zen_p2w_w2p, zen_wcsLaws; hence
                                                                      zen_pix_roundtrip, zen_vec_roundtrip,
                                                                      zen_ellipse_major_pa_roundtrip UNCONDITIONALLY
    psf lookups through a psf map (any number type)                   psf_lookup_is_local, psf_lookups_history_independent,
                                                                      cached_lookup_returns_stale (negation witness)
  NOT proved: the 1e-3 bound on the minor axis for real projections (false at first order in
  axis × distance from the reference point: open known finding C16-minor-axis-reflection), that astropy
  computes what the Lean zenithal WCS computes (sampled: 1e-9 deg / 2e-6 px on every case), IEEE rounding (the 1e-6 px / 1e-9 deg clauses are sampled).
-/
import Aegean.Proofs.C16Round
import Aegean.Proofs.C16Minor
import Aegean.Proofs.C16Zen
import Aegean.Proofs.C16FromC17
import Aegean.Proofs.C16Psf
import Aegean.Proofs.C16ZenInv

namespace Aegean.Properties.C16
open Gen.C16 Aegean.Model.C16 Aegean.C16 Real
open Aegean.Model.C16Hand (offX offY)

/-! ### Positions -/

/-- **which FITS coordinate is handed to the WCS**: `pix2sky((x, y))` evaluates the WCS at FITS pixel
    coordinates `(p1, p2) = (y, x)` with no shift: `x` is the 1-based ROW coordinate (FITS axis 2) and
    `y` the 1-based COLUMN coordinate (FITS axis 1).  The pixel `data[i][j]` of the numpy array is
    therefore `pix2sky((i+1, j+1))`. -/
theorem pix2sky_is_fits_row_column (W : Wcs ℝ) (x y : ℝ) : pix2sky W x y = W.p2w y x :=
  pix2sky_fits W x y

/-- the same sky position through astropy's 0-based entry point -/
theorem pix2sky_origin0 (W : Wcs ℝ) (x y : ℝ) : pix2sky W x y = allPix2World W (y - 1) (x - 1) 0 :=
  Aegean.C16.pix2sky_origin0 W x y

/-- **both directions use the header's full WCS**: every pixel<->world call in `pix2sky` and in `sky2pix` is astropy's
    `all_*` entry point (core + SIP + look-up tables), none the core-only `wcs_*` one — regenerated from the source; this is
    what makes the single abstract `Wcs` (with ONE pair `p2w`/`w2p`) the right model for a header with distortions -/
theorem conversions_use_full_wcs : (Gen.C16.pix2skyEntryAll : ℝ) = 1 ∧ (Gen.C16.sky2pixEntryAll : ℝ) = 1 :=
  ⟨pix2skyEntryAll_eq, sky2pixEntryAll_eq⟩

/-- `sky2pix` returns `(row, column)`: the WCS's `(p1, p2)` transposed, unshifted -/
theorem sky2pix_is_fits_row_column (W : Wcs ℝ) (ra dec : ℝ) :
    sky2pix W ra dec = ((W.w2p ra dec).2, (W.w2p ra dec).1) :=
  sky2pix_fits W ra dec

/-- **pix_roundtrip**: for every WCS with `w2p ∘ p2w = id` on its pixel domain -/
theorem pix_roundtrip (W : Wcs ℝ) {pdom sdom} (L : WcsLaws W pdom sdom) (x y : ℝ) (h : pdom y x) :
    sky2pix W (pix2sky W x y).1 (pix2sky W x y).2 = (x, y) :=
  Aegean.C16.pix_roundtrip W L x y h

theorem sky_roundtrip (W : Wcs ℝ) {pdom sdom} (L : WcsLaws W pdom sdom) (ra dec : ℝ) (h : sdom ra dec) :
    ∃ k : ℤ, pix2sky W (sky2pix W ra dec).1 (sky2pix W ra dec).2 = (ra + 360 * k, dec) :=
  Aegean.C16.sky_roundtrip W L ra dec h

/-- negation witness: had `sky2pix` NOT transposed the WCS's answer (the swap applied in one direction
    only), the round trip would return the transposed pixel — already for the identity WCS -/
theorem unswapped_sky2pix_breaks_roundtrip :
    let W : Wcs ℝ := ⟨fun a b => (a, b), fun a b => (a, b)⟩
    allWorld2Pix W (pix2sky W 3 5).1 (pix2sky W 3 5).2 1 = (5, 3) := by
  simp [pix2sky, allPix2World, allWorld2Pix, pix2skyP1_eq, pix2skyP2_eq, pix2skyOrigin_eq]

/-- negation witness: had `pix2sky` passed `origin = 0`, the WCS would be evaluated one pixel further
    along both axes -/
theorem origin0_shifts_by_one (W : Wcs ℝ) (x y : ℝ) : allPix2World W y x 0 = W.p2w (y + 1) (x + 1) := by
  simp [allPix2World]

/-! ### Vectors and ellipses: sky → pixel → sky -/

/-- **vec_roundtrip**: `pix2sky_vec (sky2pix_vec (pos, r, pa))` returns the position (RA modulo whole
    turns), EXACTLY the length `r`, and the position angle `pa` (modulo 360; exactly for
    `pa ∈ (−180, 180]`), for every WCS with the inverse laws, every start point off the poles, every
    `0 < r < 180`. -/
theorem vec_roundtrip (W : Wcs ℝ) {pdom sdom} (L : WcsLaws W pdom sdom) (ra dec r pa : ℝ)
    (hd : |dec| < 90) (hr0 : 0 < r) (hr1 : r < 180)
    (hs : sdom ra dec) (hs' : sdom (translateRa ra dec r pa) (translateDec ra dec r pa)) :
    let v := sky2pixVec W ra dec r pa
    let s := pix2skyVec W v.x v.y v.r v.theta
    (∃ k : ℤ, s.ra = ra + 360 * k) ∧ s.dec = dec ∧ s.r = r ∧
      (∃ k : ℤ, s.pa = pa + 360 * k) ∧ (-180 < pa → pa ≤ 180 → s.pa = pa) :=
  Aegean.C16.vec_roundtrip W L sphereLaws ra dec r pa hd hr0 hr1 hs hs'

/-- **ellipse_major_pa_roundtrip**: centre, semi-major axis and position angle come back exactly -/
theorem ellipse_major_pa_roundtrip (W : Wcs ℝ) {pdom sdom} (L : WcsLaws W pdom sdom) (ra dec a b pa : ℝ)
    (hd : |dec| < 90) (ha0 : 0 < a) (ha1 : a < 180)
    (hs : sdom ra dec) (hs' : sdom (translateRa ra dec a pa) (translateDec ra dec a pa)) :
    let e := sky2pixEllipse W ra dec a b pa
    let s := pix2skyEllipse W e.x e.y e.sx e.sy e.theta
    (∃ k : ℤ, s.ra = ra + 360 * k) ∧ s.dec = dec ∧ s.a = a ∧
      (∃ k : ℤ, s.pa = pa + 360 * k) ∧ (-180 < pa → pa ≤ 180 → s.pa = pa) :=
  Aegean.C16.ellipse_major_pa_roundtrip W L sphereLaws ra dec a b pa hd ha0 ha1 hs hs'

/-- what the pixel-side minor axis is, for any WCS: the component of the minor pixel offset
    `s·(cos τ, sin τ)` perpendicular to the major pixel offset (direction θ): `s·|sin(τ − θ)|` -/
theorem sy_is_perp_component (x y xo yo x2 y2 s τ : ℝ) (hs : 0 ≤ s)
    (h1 : x2 - x = s * cos τ) (h2 : y2 - y = s * sin τ) :
    s2pEllSy (R.pi : ℝ) x y xo yo x2 y2 = s * |sin (τ - Complex.arg ⟨xo - x, yo - y⟩)| :=
  Aegean.C16.sy_is_perp_component x y xo yo x2 y2 s τ hs h1 h2

/-- **ellipse_minor_roundtrip_partial** (ordinary images: the pixel image of the sky offset at
    `pa − 90` lies on the θ + 90° side).  PARTIAL: exact only under the two hypotheses
    `hperp` (the two pixel offsets are perpendicular) and `hsym` (the WCS maps the REFLECTED pixel offset
    `2c − o2`, which is where pix2sky_ellipse looks, to the reflected sky point at `pa + 90`).  For a
    real projection both hold to first order only; the property's 1e-3 clause is measured. -/
theorem ellipse_minor_roundtrip_partial (W : Wcs ℝ) {pdom sdom} (L : WcsLaws W pdom sdom)
    (ra dec a b pa s : ℝ)
    (hd : |dec| < 90) (ha0 : 0 < a) (ha1 : a < 180) (hb0 : 0 < b) (hb1 : b < 180)
    (hs : sdom ra dec) (hs1 : sdom (translateRa ra dec a pa) (translateDec ra dec a pa))
    (hs0 : 0 ≤ s)
    (hperp :
      let c := sky2pix W ra dec
      let o1 := sky2pix W (translateRa ra dec a pa) (translateDec ra dec a pa)
      let o2 := sky2pix W (translateRa ra dec b (pa - 90)) (translateDec ra dec b (pa - 90))
      let θ := Complex.arg ⟨o1.1 - c.1, o1.2 - c.2⟩
      o2.1 - c.1 = s * cos (θ + π / 2) ∧ o2.2 - c.2 = s * sin (θ + π / 2))
    (hsym :
      let c := sky2pix W ra dec
      let o2 := sky2pix W (translateRa ra dec b (pa - 90)) (translateDec ra dec b (pa - 90))
      ∃ k : ℤ, pix2sky W (2 * c.1 - o2.1) (2 * c.2 - o2.2)
        = (translateRa ra dec b (pa + 90) + 360 * k, translateDec ra dec b (pa + 90))) :
    let e := sky2pixEllipse W ra dec a b pa
    (pix2skyEllipse W e.x e.y e.sx e.sy e.theta).b = b :=
  Aegean.C16.ellipse_minor_roundtrip_partial W L sphereLaws ra dec a b pa s hd ha0 ha1 hb0 hb1 hs hs1 hs0 hperp hsym

/-- **mirror-reversed images** (the minor pixel offset lies on the θ − 90° side): perpendicularity alone
    makes the minor axis come back exactly -/
theorem ellipse_minor_roundtrip_mirror_partial (W : Wcs ℝ) {pdom sdom} (L : WcsLaws W pdom sdom)
    (ra dec a b pa s : ℝ)
    (hd : |dec| < 90) (ha0 : 0 < a) (ha1 : a < 180) (hb0 : 0 < b) (hb1 : b < 180)
    (hs : sdom ra dec) (hs1 : sdom (translateRa ra dec a pa) (translateDec ra dec a pa))
    (hs2 : sdom (translateRa ra dec b (pa - 90)) (translateDec ra dec b (pa - 90)))
    (hs0 : 0 ≤ s)
    (hperp :
      let c := sky2pix W ra dec
      let o1 := sky2pix W (translateRa ra dec a pa) (translateDec ra dec a pa)
      let o2 := sky2pix W (translateRa ra dec b (pa - 90)) (translateDec ra dec b (pa - 90))
      let θ := Complex.arg ⟨o1.1 - c.1, o1.2 - c.2⟩
      o2.1 - c.1 = s * cos (θ - π / 2) ∧ o2.2 - c.2 = s * sin (θ - π / 2)) :
    let e := sky2pixEllipse W ra dec a b pa
    (pix2skyEllipse W e.x e.y e.sx e.sy e.theta).b = b :=
  Aegean.C16.ellipse_minor_roundtrip_mirror_partial W L sphereLaws ra dec a b pa s hd ha0 ha1 hb0 hb1 hs hs1 hs2 hs0 hperp

/-! ### Lengths are great-circle lengths, angles are East of North -/

/-- what `pix2sky_vec` returns: the great-circle distance `sphDist` (= (180/π)·angle between the unit
    vectors) from the sky image of the pixel to the sky image of the offset pixel, and the direction of
    the latter in the tangent plane at the former, counted from local North through local East -/
theorem vec_is_great_circle_east_of_north (W : Wcs ℝ) (x y r theta : ℝ) :
    let s := pix2sky W x y
    let e := pix2sky W (offX x r theta) (offY y r theta)
    (pix2skyVec W x y r theta).r = Aegean.C17.sphDist s.1 s.2 e.1 e.2 ∧
    (pix2skyVec W x y r theta).pa = Aegean.Model.C17.paVec s.1 s.2 e.1 e.2 := by
  intro s e
  constructor
  · simp only [pix2skyVec, p2sVecLen_eq, p2sVecOffX_eq, p2sVecOffY_eq]; exact gcdSep_eq_sphDist _ _ _ _
  · simp only [pix2skyVec, p2sVecPa_eq, p2sVecOffX_eq, p2sVecOffY_eq]; exact bear_eq_paVec _ _ _ _

theorem ellipse_is_great_circle_east_of_north (W : Wcs ℝ) (x y sx sy theta : ℝ) :
    let s := pix2sky W x y
    let e := pix2sky W (offX x sx theta) (offY y sx theta)
    (pix2skyEllipse W x y sx sy theta).a = Aegean.C17.sphDist s.1 s.2 e.1 e.2 ∧
    (pix2skyEllipse W x y sx sy theta).pa = Aegean.Model.C17.paVec s.1 s.2 e.1 e.2 := by
  intro s e
  constructor
  · simp only [pix2skyEllipse, p2sEllMajor_eq, p2sEllOff1X_eq, p2sEllOff1Y_eq]; exact gcdSep_eq_sphDist _ _ _ _
  · simp only [pix2skyEllipse, p2sEllPa_eq, p2sEllOff1X_eq, p2sEllOff1Y_eq]; exact bear_eq_paVec _ _ _ _

/-- and on the pixel side: the vector `sky2pix_vec` returns points from the pixel image of the start to
    the pixel image of the sky point `r` degrees away in direction `pa` -/
theorem pixel_vector_points_at_translated (W : Wcs ℝ) (ra dec r pa : ℝ) :
    let v := sky2pixVec W ra dec r pa
    let o := sky2pix W (translateRa ra dec r pa) (translateDec ra dec r pa)
    (v.x, v.y) = sky2pix W ra dec ∧ offX v.x v.r v.theta = o.1 ∧ offY v.y v.r v.theta = o.2 := by
  intro v o
  refine ⟨by simp [v, sky2pixVec, s2pVecX_eq, s2pVecY_eq], ?_, ?_⟩
  · simp only [v, sky2pixVec, s2pVecX_eq, s2pVecY_eq]; exact vec_polar_x _ _ _ _
  · simp only [v, sky2pixVec, s2pVecX_eq, s2pVecY_eq]; exact vec_polar_y _ _ _ _

/-! ### psf lookups through a psf map: functions of (map value at the position, position) only -/

/-- `get_psf_sky2pix(ra, dec)` is the map's value at (ra, dec) converted AT (ra, dec), nothing else -/
theorem psf_lookup_is_local {α : Type} [R α] (W : Wcs α) (M M' : PsfMap α) (q : PsfQuery α)
    (h : M.val (q.pos W).1 (q.pos W).2 = M'.val (q.pos W).1 (q.pos W).2) :
    answer W M q = answer W M' q :=
  answer_local W M M' q h

theorem psf_sky2pix_is_convert_at {α : Type} [R α] (W : Wcs α) (M : PsfMap α) (ra dec : α) :
    psfMapSky2Pix W M ra dec = psfConvertAt W ra dec (M.val ra dec) :=
  psfMapSky2Pix_eq W M ra dec

/-- **history independence**: whatever lookups (get_psf_sky2sky / sky2pix / pix2pix / get_skybeam /
    get_beamarea_pix / get_beamarea_deg2) were made before on the same helper object, each answer is the
    one a fresh helper gives -/
theorem psf_lookups_history_independent {α : Type} [R α] (W : Wcs α) (M : PsfMap α) (qs : List (PsfQuery α)) :
    (PsfHelper.fresh M).run W qs = qs.map (answer W M) :=
  psf_history_independent W M qs

theorem psf_lookup_after_any_history {α : Type} [R α] (W : Wcs α) (M : PsfMap α) (pre : List (PsfQuery α))
    (q : PsfQuery α) :
    ((PsfHelper.fresh M).run W (pre ++ [q])).getLast? = ((PsfHelper.fresh M).run W [q]).head? :=
  psf_lookup_after_history W M pre q

/-- negation witness (seeded change C16-3): a helper that keeps the last conversion keyed on the map
    VALUE returns, for a repeated value, the ellipse converted at the earlier position -/
theorem cached_lookup_returns_stale {α : Type} [R α] [DecidableEq α] (W : Wcs α) (M : PsfMap α)
    (ra1 dec1 ra2 dec2 : α) (h : M.val ra1 dec1 = M.val ra2 dec2) :
    let s1 := CachedHelper.sky2pix W M ⟨none⟩ ra1 dec1
    (CachedHelper.sky2pix W M s1.2 ra2 dec2).1 = psfConvertAt W ra1 dec1 (M.val ra1 dec1) :=
  cached_helper_returns_stale W M ra1 dec1 ra2 dec2 h

/-! ### The executable zenithal WCS -/

/-- **radial_inverse**: for each of SIN TAN ZEA ARC STG the co-latitude recovered from the native radius
    is the co-latitude one started from, anywhere within a quadrant of the reference point -/
theorem radial_inverse (p : Proj) (z : ℝ) (h1 : 0 ≤ z) (h2 : z < π / 2) :
    radialInv p (radial p z : ℝ) = z :=
  Aegean.C16.radial_inverse p z h1 h2

theorem radial_inverse_TAN (z : ℝ) (h1 : -(π / 2) < z) (h2 : z < π / 2) : radialInv .TAN (radial .TAN z : ℝ) = z :=
  Aegean.C16.radial_inverse_TAN z h1 h2
theorem radial_inverse_SIN (z : ℝ) (h1 : -(π / 2) ≤ z) (h2 : z ≤ π / 2) : radialInv .SIN (radial .SIN z : ℝ) = z :=
  Aegean.C16.radial_inverse_SIN z h1 h2
theorem radial_inverse_ARC (z : ℝ) : radialInv .ARC (radial .ARC z : ℝ) = z :=
  Aegean.C16.radial_inverse_ARC z
theorem radial_inverse_STG (z : ℝ) (h1 : -π < z) (h2 : z < π) : radialInv .STG (radial .STG z : ℝ) = z :=
  Aegean.C16.radial_inverse_STG z h1 h2
theorem radial_inverse_ZEA (z : ℝ) (h1 : -π ≤ z) (h2 : z ≤ π) : radialInv .ZEA (radial .ZEA z : ℝ) = z :=
  Aegean.C16.radial_inverse_ZEA z h1 h2

/-- the linear part of the Lean zenithal WCS (CD matrix: CDELT, PC·CDELT, CROTA2, any rotation / mirror)
    is inverted exactly whenever its determinant is non-zero -/
theorem lin_inverse (h : ZenHdr ℝ) (hdet : h.cd11 * h.cd22 - h.cd12 * h.cd21 ≠ 0) (p1 p2 : ℝ) :
    linInv h (linFwd h p1 p2).1 (linFwd h p1 p2).2 = (p1, p2) :=
  Aegean.C16.lin_inverse h hdet p1 p2

theorem lin_inverse_right (h : ZenHdr ℝ) (hdet : h.cd11 * h.cd22 - h.cd12 * h.cd21 ≠ 0) (x y : ℝ) :
    linFwd h (linInv h x y).1 (linInv h x y).2 = (x, y) :=
  Aegean.C16.lin_inverse' h hdet x y

/-! ### The Lean zenithal WCS satisfies the contract: the round trips hold unconditionally for it -/

/-- **orthogonality, part 1**: the native ↔ celestial rotation (FITS Paper II eq. 2; eq. 5 is the same matrix)
    is its own inverse -/
theorem rotation_involutive (δp : ℝ) (v : ℝ × ℝ × ℝ) :
    rotA (R.sin (R.radians δp)) (R.cos (R.radians δp)) (rotA (R.sin (R.radians δp)) (R.cos (R.radians δp)) v) = v :=
  rotA_involutive _ _ (sin_cos_radians_sq δp) v

/-- **orthogonality, part 2**: it preserves scalar products (hence lengths and angles) -/
theorem rotation_orthogonal (δp : ℝ) (v w : ℝ × ℝ × ℝ) :
    dot3 (rotA (R.sin (R.radians δp)) (R.cos (R.radians δp)) v) (rotA (R.sin (R.radians δp)) (R.cos (R.radians δp)) w)
      = dot3 v w :=
  rotA_dot _ _ (sin_cos_radians_sq δp) v w

/-- the radial inverse law in the other direction, with the range of the returned co-latitude -/
theorem radial_radialInv (p : Proj) (r : ℝ) (hr : 0 ≤ r) (hd : radialDom p r) :
    0 ≤ (radialInv p r : ℝ) ∧ (radialInv p r : ℝ) < π ∧ (radial p (radialInv p r : ℝ) : ℝ) = r :=
  radialInv_spec p r hr hd

/-- **zen_w2p_p2w**: SIN TAN ZEA ARC STG with any non-singular CD matrix: pixel → sky → pixel = id -/
theorem zen_w2p_p2w (h : ZenHdr ℝ) (hdet : h.cd11 * h.cd22 - h.cd12 * h.cd21 ≠ 0) (p1 p2 : ℝ)
    (hd : zenPdom h p1 p2) : zenW2P h (zenP2W h p1 p2).1 (zenP2W h p1 p2).2 = (p1, p2) :=
  Aegean.C16.zen_w2p_p2w h hdet p1 p2 hd

/-- **zen_p2w_w2p**: sky → pixel → sky = id up to whole turns of RA, off the poles and within range -/
theorem zen_p2w_w2p (h : ZenHdr ℝ) (hdet : h.cd11 * h.cd22 - h.cd12 * h.cd21 ≠ 0) (ra dec : ℝ)
    (hs : zenSdom h ra dec) : ∃ k : ℤ, zenP2W h (zenW2P h ra dec).1 (zenW2P h ra dec).2 = (ra + 360 * k, dec) :=
  Aegean.C16.zen_p2w_w2p h hdet ra dec hs

theorem zen_wcsLaws (h : ZenHdr ℝ) (hdet : h.cd11 * h.cd22 - h.cd12 * h.cd21 ≠ 0) :
    WcsLaws (zenWcs h) (zenPdom h) (zenSdom h) :=
  Aegean.C16.zen_wcsLaws h hdet

/-- gnomonic images: every pixel is in the domain -/
theorem zenPdom_TAN (h : ZenHdr ℝ) (hp : h.proj = .TAN) (p1 p2 : ℝ) : zenPdom h p1 p2 := by
  simp only [zenPdom, hp, radialDom]

theorem zenPdom_STG (h : ZenHdr ℝ) (hp : h.proj = .STG) (p1 p2 : ℝ) : zenPdom h p1 p2 := by
  simp only [zenPdom, hp, radialDom]

/-- the reference point is in the sky domain of every projection (non-vacuity) -/
theorem zenSdom_reference (h : ZenHdr ℝ) (hd : |h.crval2| < 90) : zenSdom h h.crval1 h.crval2 :=
  Aegean.C16.zenSdom_reference h hd

/-- pixel → sky → pixel through `WCSHelper.pix2sky / sky2pix`, on the Lean zenithal WCS: no hypothesis left
    but the pixel being in the projection's domain -/
theorem zen_pix_roundtrip (h : ZenHdr ℝ) (hdet : h.cd11 * h.cd22 - h.cd12 * h.cd21 ≠ 0) (x y : ℝ)
    (hd : zenPdom h y x) :
    sky2pix (zenWcs h) (pix2sky (zenWcs h) x y).1 (pix2sky (zenWcs h) x y).2 = (x, y) :=
  pix_roundtrip (zenWcs h) (zen_wcsLaws h hdet) x y hd

theorem zen_vec_roundtrip (h : ZenHdr ℝ) (hdet : h.cd11 * h.cd22 - h.cd12 * h.cd21 ≠ 0) (ra dec r pa : ℝ)
    (hd : |dec| < 90) (hr0 : 0 < r) (hr1 : r < 180)
    (hs : zenSdom h ra dec) (hs' : zenSdom h (translateRa ra dec r pa) (translateDec ra dec r pa)) :
    let v := sky2pixVec (zenWcs h) ra dec r pa
    let s := pix2skyVec (zenWcs h) v.x v.y v.r v.theta
    (∃ k : ℤ, s.ra = ra + 360 * k) ∧ s.dec = dec ∧ s.r = r ∧
      (∃ k : ℤ, s.pa = pa + 360 * k) ∧ (-180 < pa → pa ≤ 180 → s.pa = pa) :=
  vec_roundtrip (zenWcs h) (zen_wcsLaws h hdet) ra dec r pa hd hr0 hr1 hs hs'

theorem zen_ellipse_major_pa_roundtrip (h : ZenHdr ℝ) (hdet : h.cd11 * h.cd22 - h.cd12 * h.cd21 ≠ 0)
    (ra dec a b pa : ℝ) (hd : |dec| < 90) (ha0 : 0 < a) (ha1 : a < 180)
    (hs : zenSdom h ra dec) (hs' : zenSdom h (translateRa ra dec a pa) (translateDec ra dec a pa)) :
    let e := sky2pixEllipse (zenWcs h) ra dec a b pa
    let s := pix2skyEllipse (zenWcs h) e.x e.y e.sx e.sy e.theta
    (∃ k : ℤ, s.ra = ra + 360 * k) ∧ s.dec = dec ∧ s.a = a ∧
      (∃ k : ℤ, s.pa = pa + 360 * k) ∧ (-180 < pa → pa ≤ 180 → s.pa = pa) :=
  ellipse_major_pa_roundtrip (zenWcs h) (zen_wcsLaws h hdet) ra dec a b pa hd ha0 ha1 hs hs'

/-! ### Non-vacuity: the laws are satisfiable, and by a WCS on which the swap is visible -/

/-- a (non-symmetric) affine "WCS" with its exact inverse satisfies `WcsLaws` on everything -/
example : WcsLaws (⟨fun a b => (2 * a + 1, b - 3), fun r d => ((r - 1) / 2, d + 3)⟩ : Wcs ℝ)
    (fun _ _ => True) (fun _ _ => True) where
  inv_pix p1 p2 _ := by simp
  inv_sky ra dec _ := ⟨0, by simp; ring⟩

example : SphereLaws := sphereLaws

end Aegean.Properties.C16
