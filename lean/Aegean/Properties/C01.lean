/-
  C01 — Closed-loop recovery: an injected isolated Gaussian is found and characterised.

  FULL STATEMENT (the property; kept visible, NOT proved here):

    If an image contains an isolated elliptical Gaussian that is at least as large as the
    synthesized beam and lies wholly inside the image, blind source finding reports exactly one
    component for it whose sky position, peak flux, major/minor FWHM, position angle (East of
    North) and integrated flux equal the injected values (noise-free: within 0.02 pixel, 0.1 %,
    0.5 %, 0.5 deg, 0.5 %; with Gaussian noise: within 5 reported standard errors), for every
    sub-pixel position, orientation, axis ratio, amplitude, beam shape, pixel scale, sky location
    and zenithal projection (SIN/TAN/ZEA/ARC/STG), with or without covariance weighting, and with
    noise/background either forced or estimated internally.        i.e.   find ∘ render = id  (± tol).

  That statement depends on MINPACK converging from Aegean's starting point inside Aegean's
  bounds, on the curvature of the projection across an island, on float32/float64 rounding and
  (noisy clause) on statistics; no Lean model here carries those.  It is decided by the closed
  loop itself in `harness/corr_C01.py` (exploration strength).

  WHAT IS PROVED, for all inputs, is every link of the loop that is logic:

   (1) `residual_zero_at_truth`, `truth_is_global_minimiser`, `global_minimisers_fit_exactly`
       the vector `do_lmfit.residual` hands to lmfit — (model − data) on the finite pixels,
       optionally `.dot(B)` — is identically 0 at the true parameters whatever the mask and
       whatever B; hence the truth minimises exactly the objective MINPACK is given, and (B = None)
       every other global minimiser reproduces the data on every unmasked pixel.
       `gauss_axis_swap`, `gauss_theta_period`: the other parameter vectors that do so — (sy, sx,
       θ+90) and θ+180k — which is why `fix_shape` and `pa_limit` exist.
   (2) `conversion_inverse` (+ `…_pa_general`, `…_swapped_fit`): `result_to_components`' conversion
       (+1 FITS offset, x/y order, CC2FWHM, pix2sky_ellipse, ×3600, fix_shape, pa_limit, RA wrap)
       composed with the injection conventions (sky2pix_ellipse, /3600, FWHM2CC, xo−1) is the
       identity on (ra, dec, a, pa, peak) for EVERY ellipse oracle obeying the inverse laws, and on
       b under the explicit hypothesis that the oracle recovers the minor axis (C16:
       perpendicularity, `defect = 0`).  `cc2fwhm_mul_fwhm2cc`, `fwhm_is_full_width_at_half_max`,
       `paLimit_spec`, `paLimit_fuel_independent`, `fixShape_ordered`, `fixShape_same_ellipse`,
       `paLimit_same_ellipse`, `raWrap_spec`.
   (3) `int_flux_pixel_identity` (unconditional), `int_flux_identity` (exact when pixel → sky
       lengths at the source scale by one factor, i.e. the WCS is locally a similarity there),
       `int_flux_vs_injected_partial` (what remains between the reported and the injected flux:
       the ratio of the local sky beam to the header beam).
   (4) "exactly one island" is NOT proved here (C02 owns the island model); the closed loop counts
       components on every case.

  The leaves are `Gen.C01.*`, regenerated from the Python source on every run; the
  `…_eq_hand` obligations below tie them to the canonical forms used by the hand model.
-/
import Aegean.Generated.C01
import Aegean.Model.C01
import Aegean.Proofs.C01Real

set_option linter.unusedVariables false
set_option linter.unusedSimpArgs false
set_option linter.unusedTactic false
set_option linter.unreachableTactic false

attribute [-instance] R.toAdd R.toSub R.toMul R.toDiv R.toNeg

namespace Aegean.Properties.C01
open Aegean.Model.C01 Aegean.C01Real

/-- closes an algebraic identity between a regenerated expression and its canonical form -/
macro "c01_algebra" : tactic =>
  `(tactic| first | rfl | ring1 | (norm_num; done) | (norm_num; ring1) | (field_simp; done) | (field_simp; ring1) | (ring_nf; done) | (norm_num; ring_nf; done) | (simp only [sqrt_eight_mul]; done) | (simp only [sqrt_eight_mul]; ring_nf; done) | (simp only [sqrt_eight_mul]; field_simp; done))

/-- after unfolding a regenerated leaf and its canonical form: move to Mathlib syntax (if anything
    is left to do), then algebra (if anything is left to prove) -/
macro "c01_leaf" : tactic => `(tactic| ((try rsimp) <;> (try c01_algebra)))

/-! ### Obligations on the regenerated arithmetic (these break when the source changes meaning) -/

theorem gauss_eq_hand (x y amp xo yo sx sy th : ℝ) :
    Gen.C01.gauss x y amp xo yo sx sy th = gaussHand x y amp xo yo sx sy th := by
  simp only [Gen.C01.gauss, gaussHand] <;> c01_leaf

theorem cc2fwhm_eq_hand (ln2 : ℝ) : Gen.C01.cc2fwhm ln2 = cc2fwhmHand ln2 := by
  simp only [Gen.C01.cc2fwhm, cc2fwhmHand] <;> c01_leaf

theorem fwhm2cc_eq_hand (ln2 : ℝ) : Gen.C01.fwhm2cc ln2 = fwhm2ccHand ln2 := by
  simp only [Gen.C01.fwhm2cc, fwhm2ccHand, cc2fwhmHand] <;> c01_leaf

/-- AeRes.py carries its own copy of the constant; it is the same number -/
theorem fwhm2ccRes_eq_hand (ln2 : ℝ) : Gen.C01.fwhm2ccRes ln2 = fwhm2ccHand ln2 := by
  simp only [Gen.C01.fwhm2ccRes, fwhm2ccHand, cc2fwhmHand] <;> c01_leaf

theorem xPix_eq_hand (xo xmin : ℝ) : Gen.C01.xPix xo xmin = xPixHand xo xmin := by
  simp only [Gen.C01.xPix, xPixHand] <;> c01_leaf

theorem yPix_eq_hand (yo ymin : ℝ) : Gen.C01.yPix yo ymin = yPixHand yo ymin := by
  simp only [Gen.C01.yPix, yPixHand] <;> c01_leaf

/-- first coordinate handed to `pix2sky_ellipse` is the ROW coordinate x_pix (not y_pix) -/
theorem p2sArgX_eq_hand (xo yo xmin ymin : ℝ) :
    Gen.C01.p2sArgX xo yo xmin ymin = p2sArgXHand xo yo xmin ymin := by
  simp only [Gen.C01.p2sArgX, p2sArgXHand, xPixHand] <;> c01_leaf

theorem p2sArgY_eq_hand (xo yo xmin ymin : ℝ) :
    Gen.C01.p2sArgY xo yo xmin ymin = p2sArgYHand xo yo xmin ymin := by
  simp only [Gen.C01.p2sArgY, p2sArgYHand, yPixHand] <;> c01_leaf

theorem p2sArgSx_eq_hand (sx sy cc : ℝ) : Gen.C01.p2sArgSx sx sy cc = p2sArgSxHand sx sy cc := by
  simp only [Gen.C01.p2sArgSx, p2sArgSxHand] <;> c01_leaf

theorem p2sArgSy_eq_hand (sx sy cc : ℝ) : Gen.C01.p2sArgSy sx sy cc = p2sArgSyHand sx sy cc := by
  simp only [Gen.C01.p2sArgSy, p2sArgSyHand] <;> c01_leaf

theorem p2sArgTheta_eq_hand (th : ℝ) : Gen.C01.p2sArgTheta th = p2sArgThetaHand th := by
  simp only [Gen.C01.p2sArgTheta, p2sArgThetaHand]

theorem aArcsec_eq_hand (v : ℝ) : Gen.C01.aArcsec v = arcsecHand v := by
  simp only [Gen.C01.aArcsec, arcsecHand] <;> c01_leaf

theorem bArcsec_eq_hand (v : ℝ) : Gen.C01.bArcsec v = arcsecHand v := by
  simp only [Gen.C01.bArcsec, arcsecHand] <;> c01_leaf

theorem intFlux_eq_hand (amp sx sy cc area : ℝ) :
    Gen.C01.intFlux amp sx sy cc area = intFluxHand amp sx sy cc area := by
  simp only [Gen.C01.intFlux, intFluxHand] <;> c01_leaf

theorem beamAreaPix_eq_hand (a b : ℝ) : Gen.C01.beamAreaPix a b = beamAreaPixHand a b := by
  simp only [Gen.C01.beamAreaPix, beamAreaPixHand] <;> c01_leaf

theorem s2pArgs_eq_hand (ra dec a b pa : ℝ) :
    Gen.C01.s2pArgRa ra dec a b pa = s2pArgRaHand ra dec a b pa ∧
    Gen.C01.s2pArgDec ra dec a b pa = s2pArgDecHand ra dec a b pa ∧
    Gen.C01.s2pArgA ra dec a b pa = s2pArgAHand ra dec a b pa ∧
    Gen.C01.s2pArgB ra dec a b pa = s2pArgBHand ra dec a b pa ∧
    Gen.C01.s2pArgPa ra dec a b pa = s2pArgPaHand ra dec a b pa := by
  refine ⟨?_, ?_, ?_, ?_, ?_⟩
  · simp only [Gen.C01.s2pArgRa, s2pArgRaHand]
  · simp only [Gen.C01.s2pArgDec, s2pArgDecHand]
  · simp only [Gen.C01.s2pArgA, s2pArgAHand] <;> c01_leaf
  · simp only [Gen.C01.s2pArgB, s2pArgBHand] <;> c01_leaf
  · simp only [Gen.C01.s2pArgPa, s2pArgPaHand]

/-- the rendering convention of AeRes.make_model: centre `(xo−1, yo−1)`, sigmas `FWHM·FWHM2CC` -/
theorem renderVal_eq_hand (f2c peak xo yo sx sy th x y : ℝ) :
    Gen.C01.renderVal f2c peak xo yo sx sy th x y = renderValHand f2c peak xo yo sx sy th x y := by
  simp only [Gen.C01.renderVal, renderValHand, gauss_eq_hand] <;> c01_leaf

/-! ### (1) the residual at the truth -/

/-- the finite pixels of a rendered image are exactly the kept pixels, in row-major order,
    each carrying the true model value -/
theorem maskIdx_renderOn (G : GaussFn ℝ) (truth : List (Comp ℝ)) (rows cols : Nat) (keep : Nat → Nat → Bool) :
    maskIdx (renderOn G truth rows cols keep)
      = (List.range rows).flatMap (fun i => ((List.range cols).filter (keep i)).map
          (fun j => (i, j, modelSum G truth (R.ofNat i) (R.ofNat j)))) := by
  have h := maskFrom_render (fun i j => modelSum G truth (R.ofNat i) (R.ofNat j)) keep cols rows 0
  rw [← List.range_eq_range'] at h
  exact h

/-- "data = Σ gauss(truth) on the mask": every finite pixel holds the true model value -/
def DataIsTruth (G : GaussFn ℝ) (truth : List (Comp ℝ)) (img : List (List (Option ℝ))) : Prop :=
  ∀ p ∈ maskIdx img, p.2.2 = modelSum G truth (R.ofNat p.1) (R.ofNat p.2.1)

theorem renderOn_dataIsTruth (G : GaussFn ℝ) (truth : List (Comp ℝ)) (rows cols : Nat) (keep : Nat → Nat → Bool) :
    DataIsTruth G truth (renderOn G truth rows cols keep) := by
  intro p hp
  rw [maskIdx_renderOn] at hp
  simp only [List.mem_flatMap, List.mem_map] at hp
  obtain ⟨i, _, j, _, rfl⟩ := hp
  rfl

theorem diffVec_zero (G : GaussFn ℝ) (truth : List (Comp ℝ)) (img : List (List (Option ℝ)))
    (h : DataIsTruth G truth img) : ∀ r ∈ diffVec G truth (maskIdx img), r = 0 := by
  intro r hr
  simp only [diffVec, List.mem_map] at hr
  obtain ⟨p, hp, rfl⟩ := hr
  rw [h p hp]; rsimp; ring

/-- **residual_zero_at_truth**: for data equal to the true model on ANY pixel mask, with or
    without a whitening matrix `B` (any `B`, any shape), the vector handed to lmfit at the true
    parameters is identically 0.  `G` is any pixel model function — in particular `Gen.C01.gauss`. -/
theorem residual_zero_at_truth (G : GaussFn ℝ) (truth : List (Comp ℝ)) (img : List (List (Option ℝ)))
    (B : Option (List (List ℝ))) (h : DataIsTruth G truth img) :
    ∀ r ∈ residual G truth img B, r = 0 := by
  have hd := diffVec_zero G truth img h
  cases B with
  | none => exact hd
  | some Bc =>
    intro r hr
    simp only [Aegean.Model.C01.residual, vecMat, List.mem_map] at hr
    obtain ⟨col, _, rfl⟩ := hr
    exact dot_zero_left _ col hd

/-- the same for a rendered image (so the hypothesis of the theorem above is not vacuous) -/
theorem residual_zero_on_render (truth : List (Comp ℝ)) (rows cols : Nat) (keep : Nat → Nat → Bool)
    (B : Option (List (List ℝ))) :
    ∀ r ∈ residual Gen.C01.gauss truth (renderOn Gen.C01.gauss truth rows cols keep) B, r = 0 :=
  residual_zero_at_truth _ truth _ B (renderOn_dataIsTruth _ truth rows cols keep)

/-- **truth_is_global_minimiser**: the objective MINPACK is given (the sum of squares of the
    residual vector) is 0 at the truth and ≥ 0 at every other parameter vector, of any length. -/
theorem truth_is_global_minimiser (G : GaussFn ℝ) (truth : List (Comp ℝ)) (img : List (List (Option ℝ)))
    (B : Option (List (List ℝ))) (h : DataIsTruth G truth img) (other : List (Comp ℝ)) :
    sumSq (residual G truth img B) = 0 ∧ sumSq (residual G truth img B) ≤ sumSq (residual G other img B) := by
  have h0 : sumSq (residual G truth img B) = 0 :=
    (sumSq_eq_zero_iff _).mpr (residual_zero_at_truth G truth img B h)
  exact ⟨h0, by rw [h0]; exact sumSq_nonneg _⟩

/-- **global_minimisers_fit_exactly** (B = None): any parameter vector that attains the minimum
    reproduces the data on every unmasked pixel. -/
theorem global_minimisers_fit_exactly (G : GaussFn ℝ) (truth other : List (Comp ℝ)) (img : List (List (Option ℝ)))
    (h : DataIsTruth G truth img)
    (hmin : sumSq (residual G other img none) ≤ sumSq (residual G truth img none)) :
    ∀ p ∈ maskIdx img, modelSum G other (R.ofNat p.1) (R.ofNat p.2.1) = p.2.2 := by
  have h0 := (truth_is_global_minimiser G truth img none h other).1
  have hz : sumSq (residual G other img none) = 0 := le_antisymm (by rw [← h0]; exact hmin) (sumSq_nonneg _)
  have hall := (sumSq_eq_zero_iff _).mp hz
  intro p hp
  have := hall (modelSum G other (R.ofNat p.1) (R.ofNat p.2.1) - p.2.2)
    (by simp only [Aegean.Model.C01.residual, diffVec, List.mem_map]; exact ⟨p, hp, rfl⟩)
  rsimp at this
  rsimp
  linarith

/-- **gauss_axis_swap**: exchanging the axes and turning by 90° is the same Gaussian -/
theorem gauss_axis_swap (x y amp xo yo sx sy th : ℝ) :
    Gen.C01.gauss x y amp xo yo sy sx (th + 90) = Gen.C01.gauss x y amp xo yo sx sy th := by
  simp only [gauss_eq_hand, gaussHand]; rsimp
  rw [sin_deg_add_90, cos_deg_add_90]
  congr 2
  ring

/-- **gauss_theta_period**: θ and θ + 180·k give the same Gaussian -/
theorem gauss_theta_period (x y amp xo yo sx sy th : ℝ) (k : ℤ) :
    Gen.C01.gauss x y amp xo yo sx sy (th + 180 * k) = Gen.C01.gauss x y amp xo yo sx sy th := by
  simp only [gauss_eq_hand, gaussHand]; rsimp
  rw [sin_deg_add_180k, cos_deg_add_180k]
  have hs := neg_one_zpow_sq k
  congr 2
  have e1 : ((x - xo) * ((-1) ^ k * Real.cos (th * (Real.pi / 180))) + (y - yo) * ((-1) ^ k * Real.sin (th * (Real.pi / 180)))) ^ 2
      = ((-1 : ℝ) ^ k * (-1) ^ k) * ((x - xo) * Real.cos (th * (Real.pi / 180)) + (y - yo) * Real.sin (th * (Real.pi / 180))) ^ 2 := by ring
  have e2 : ((x - xo) * ((-1) ^ k * Real.sin (th * (Real.pi / 180))) - (y - yo) * ((-1) ^ k * Real.cos (th * (Real.pi / 180)))) ^ 2
      = ((-1 : ℝ) ^ k * (-1) ^ k) * ((x - xo) * Real.sin (th * (Real.pi / 180)) - (y - yo) * Real.cos (th * (Real.pi / 180))) ^ 2 := by ring
  rw [e1, e2, hs, one_mul, one_mul]

/-! ### (2) constants, `pa_limit`, `fix_shape`, RA wrap -/

theorem cc2fwhm_pos (ln2 : ℝ) (h : 0 < ln2) : 0 < Gen.C01.cc2fwhm ln2 := by
  rw [cc2fwhm_eq_hand]; simp only [cc2fwhmHand]; rsimp
  have : 0 < Real.sqrt (2 * ln2) := Real.sqrt_pos.mpr (by linarith)
  linarith

/-- **cc2fwhm_mul_fwhm2cc**: σ→FWHM then FWHM→σ is the identity, for source_finder's pair of
    constants and for AeRes's own copy -/
theorem cc2fwhm_mul_fwhm2cc (ln2 : ℝ) (h : 0 < ln2) :
    Gen.C01.cc2fwhm ln2 * Gen.C01.fwhm2cc ln2 = 1 ∧ Gen.C01.cc2fwhm ln2 * Gen.C01.fwhm2ccRes ln2 = 1 := by
  have hp := cc2fwhm_pos ln2 h
  rw [cc2fwhm_eq_hand] at hp ⊢
  rw [fwhm2cc_eq_hand, fwhm2ccRes_eq_hand]
  simp only [fwhm2ccHand]; rsimp
  have : cc2fwhmHand ln2 ≠ 0 := ne_of_gt hp
  exact ⟨by field_simp, by field_simp⟩

/-- **fwhm_is_full_width_at_half_max**: with `ln2 = log 2`, half of `CC2FWHM·σ` away from the
    centre along the major axis the Gaussian has half its peak value -/
theorem fwhm_is_full_width_at_half_max (amp xo yo sx sy : ℝ) (hsx : sx ≠ 0) :
    Gen.C01.gauss (xo + Gen.C01.cc2fwhm (Real.log 2) * sx / 2) yo amp xo yo sx sy 0 = amp / 2 := by
  rw [cc2fwhm_eq_hand, gauss_eq_hand]
  simp only [gaussHand, cc2fwhmHand]; rsimp
  have hl : (0 : ℝ) ≤ 2 * Real.log 2 := by have := Real.log_pos (by norm_num : (1 : ℝ) < 2); linarith
  have hs : Real.sqrt (2 * Real.log 2) ^ 2 = 2 * Real.log 2 := Real.sq_sqrt hl
  have e : ((xo + 2 * Real.sqrt (2 * Real.log 2) * sx / 2 - xo) * Real.cos (0 * (Real.pi / 180)) +
        (yo - yo) * Real.sin (0 * (Real.pi / 180))) ^ 2 / sx ^ 2 +
      ((xo + 2 * Real.sqrt (2 * Real.log 2) * sx / 2 - xo) * Real.sin (0 * (Real.pi / 180)) -
        (yo - yo) * Real.cos (0 * (Real.pi / 180))) ^ 2 / sy ^ 2 = 2 * Real.log 2 := by
    simp only [zero_mul, Real.cos_zero, Real.sin_zero, mul_zero, mul_one, sub_self, add_zero, sub_zero]
    have : (xo + 2 * Real.sqrt (2 * Real.log 2) * sx / 2 - xo) = Real.sqrt (2 * Real.log 2) * sx := by ring
    rw [this, mul_pow, hs]
    simp only [ne_eq, OfNat.ofNat_ne_zero, not_false_eq_true, zero_pow, zero_div, add_zero]
    field_simp
  rw [e]
  have : 2 * Real.log 2 * (-1 / 2) = -Real.log 2 := by ring
  rw [this, Real.exp_neg, Real.exp_log (by norm_num)]
  ring

theorem paLimit_eq (n : Nat) (pa : ℝ) : paLimit n pa = paDown n (paUp n pa) := rfl

/-- **paLimit_spec**: once the fuel covers |pa| the loops of `pa_limit` end in (−90, 90] and have
    only moved the angle by a multiple of 180 -/
theorem paLimit_spec (n : Nat) (pa : ℝ) (h : |pa| < 90 + 180 * n) :
    -90 < paLimit n pa ∧ paLimit n pa ≤ 90 ∧ ∃ k : ℤ, paLimit n pa = pa + 180 * k := by
  have hlo : -90 - 180 * (n : ℝ) < pa := by have := neg_abs_le pa; linarith
  have hhi : pa < 90 + 180 * (n : ℝ) := lt_of_le_of_lt (le_abs_self pa) h
  obtain ⟨u1, u2, ku, hu⟩ := paUp_spec n pa hlo
  have hn : (0 : ℝ) ≤ 180 * (n : ℝ) := by positivity
  have hq : paUp n pa ≤ 90 + 180 * (n : ℝ) := le_trans u2 (max_le (le_of_lt hhi) (by linarith))
  obtain ⟨d1, d2, kd, hd⟩ := paDown_spec n (paUp n pa) hq u1
  refine ⟨by rw [paLimit_eq]; exact d1, by rw [paLimit_eq]; exact d2, ku + kd, ?_⟩
  rw [paLimit_eq, hd, hu]; push_cast; ring

/-- every angle has enough fuel (the Python loops terminate) -/
theorem paLimit_fuel_exists (pa : ℝ) : ∃ N : Nat, ∀ n ≥ N, |pa| < 90 + 180 * (n : ℝ) := by
  obtain ⟨N, hN⟩ := exists_nat_gt |pa|
  refine ⟨N, fun n hn => ?_⟩
  have : (N : ℝ) ≤ n := by exact_mod_cast hn
  have h0 : (0 : ℝ) ≤ n := by positivity
  linarith

/-- **paLimit_fuel_independent**: with enough fuel the value no longer depends on the fuel — it is
    THE representative of `pa` modulo 180 in (−90, 90], the value of the unbounded Python loops -/
theorem paLimit_fuel_independent (n m : Nat) (pa : ℝ) (hn : |pa| < 90 + 180 * n) (hm : |pa| < 90 + 180 * m) :
    paLimit n pa = paLimit m pa := by
  obtain ⟨a1, a2, ka, ha⟩ := paLimit_spec n pa hn
  obtain ⟨b1, b2, kb, hb⟩ := paLimit_spec m pa hm
  exact range_unique (paLimit m pa) (paLimit n pa) (ka - kb) ⟨b1, b2⟩ ⟨a1, a2⟩ (by rw [ha, hb]; push_cast; ring)

/-- an angle already in (−90, 90] is left alone -/
theorem paLimit_id (n : Nat) (pa : ℝ) (h1 : -90 < pa) (h2 : pa ≤ 90) : paLimit n pa = pa := by
  have hu : paUp n pa = pa := by
    cases n with
    | zero => rfl
    | succ m => rw [paUp_succ, if_neg (not_le.mpr h1)]
  have hd : paDown n pa = pa := by
    cases n with
    | zero => rfl
    | succ m => rw [paDown_succ, if_neg (not_lt.mpr h2)]
  rw [paLimit_eq, hu, hd]

/-- the quadratic form of the ellipse with FWHM axes `a`, `b` and position angle `pa` (degrees);
    two parameter triples describe the same ellipse iff they give the same form -/
noncomputable def ellForm (a b pa u v : ℝ) : ℝ :=
  (u * Real.cos (pa * (Real.pi / 180)) + v * Real.sin (pa * (Real.pi / 180))) ^ 2 / a ^ 2 +
  (u * Real.sin (pa * (Real.pi / 180)) - v * Real.cos (pa * (Real.pi / 180))) ^ 2 / b ^ 2

/-- **fixShape_ordered**: after `fix_shape`, a ≥ b -/
theorem fixShape_ordered (a b pa : ℝ) : (fixShape a b pa).2.1 ≤ (fixShape a b pa).1 := by
  unfold fixShape
  by_cases h : a < b
  · rw [if_pos h]; exact le_of_lt h
  · rw [if_neg h]; exact not_lt.mp h

/-- **fixShape_same_ellipse**: `fix_shape` does not change the ellipse -/
theorem fixShape_same_ellipse (a b pa u v : ℝ) :
    ellForm (fixShape a b pa).1 (fixShape a b pa).2.1 (fixShape a b pa).2.2 u v = ellForm a b pa u v := by
  unfold fixShape
  by_cases h : a < b
  · rw [if_pos h]
    simp only [ellForm]; rsimp
    rw [sin_deg_add_90, cos_deg_add_90]
    ring
  · rw [if_neg h]

/-- the ellipse does not change when pa moves by a multiple of 180 -/
theorem ellForm_add_180k (a b pa u v : ℝ) (k : ℤ) : ellForm a b (pa + 180 * k) u v = ellForm a b pa u v := by
  simp only [ellForm]
  rw [sin_deg_add_180k, cos_deg_add_180k]
  have hs := neg_one_zpow_sq k
  have e1 : (u * ((-1) ^ k * Real.cos (pa * (Real.pi / 180))) + v * ((-1) ^ k * Real.sin (pa * (Real.pi / 180)))) ^ 2
      = ((-1 : ℝ) ^ k * (-1) ^ k) * (u * Real.cos (pa * (Real.pi / 180)) + v * Real.sin (pa * (Real.pi / 180))) ^ 2 := by ring
  have e2 : (u * ((-1) ^ k * Real.sin (pa * (Real.pi / 180))) - v * ((-1) ^ k * Real.cos (pa * (Real.pi / 180)))) ^ 2
      = ((-1 : ℝ) ^ k * (-1) ^ k) * (u * Real.sin (pa * (Real.pi / 180)) - v * Real.cos (pa * (Real.pi / 180))) ^ 2 := by ring
  rw [e1, e2, hs, one_mul, one_mul]

/-- **paLimit_same_ellipse**: `pa_limit` does not change the ellipse -/
theorem paLimit_same_ellipse (n : Nat) (a b pa u v : ℝ) (h : |pa| < 90 + 180 * n) :
    ellForm a b (paLimit n pa) u v = ellForm a b pa u v := by
  obtain ⟨_, _, k, hk⟩ := paLimit_spec n pa h
  rw [hk, ellForm_add_180k]

theorem raWrap_eq (ra : ℝ) : raWrap ra = if ra < 0 then ra + 360 else ra := by
  simp only [raWrap]; rsimp

/-- **raWrap_spec**: a right ascension in [−360, 360) is brought into [0, 360) by adding 0 or 360 -/
theorem raWrap_spec (ra : ℝ) (h1 : -360 ≤ ra) (h2 : ra < 360) :
    0 ≤ raWrap ra ∧ raWrap ra < 360 ∧ (raWrap ra = ra ∨ raWrap ra = ra + 360) := by
  rw [raWrap_eq]
  by_cases h : ra < 0
  · rw [if_pos h]; exact ⟨by linarith, by linarith, Or.inr rfl⟩
  · rw [if_neg h]; exact ⟨not_lt.mp h, h2, Or.inl rfl⟩

/-! ### (2) the conversion chain -/

/-- the inverse laws of the two `WCSHelper` ellipse conversions on a domain `dom` of sky ellipses
    (C16 proves them for the code over ANY point-level invertible WCS; here they are the contract) -/
structure InverseLaws (O : EllOracle ℝ) (dom : SkyEll ℝ → Prop) : Prop where
  ra : ∀ e, dom e → (O.p2s (O.s2p e)).ra = e.ra
  dec : ∀ e, dom e → (O.p2s (O.s2p e)).dec = e.dec
  a : ∀ e, dom e → (O.p2s (O.s2p e)).a = e.a
  pa : ∀ e, dom e → (O.p2s (O.s2p e)).pa = e.pa

/-- the injected truth as the sky ellipse AeRes hands to `sky2pix_ellipse` (axes in degrees) -/
noncomputable def skyOf (t : Truth ℝ) : SkyEll ℝ := ⟨t.ra, t.dec, t.a / 3600, t.b / 3600, t.pa⟩

theorem toComponent_ra (O : EllOracle ℝ) (n : Nat) (cc : ℝ) (ar : ℝ → ℝ → ℝ) (xmin ymin : ℝ) (f : Comp ℝ) :
    (toComponent O n cc ar xmin ymin f).ra = raWrap (O.p2s (p2sArgs cc xmin ymin f)).ra := rfl
theorem toComponent_dec (O : EllOracle ℝ) (n : Nat) (cc : ℝ) (ar : ℝ → ℝ → ℝ) (xmin ymin : ℝ) (f : Comp ℝ) :
    (toComponent O n cc ar xmin ymin f).dec = (O.p2s (p2sArgs cc xmin ymin f)).dec := rfl
theorem toComponent_peak (O : EllOracle ℝ) (n : Nat) (cc : ℝ) (ar : ℝ → ℝ → ℝ) (xmin ymin : ℝ) (f : Comp ℝ) :
    (toComponent O n cc ar xmin ymin f).peak = f.amp := rfl
theorem toComponent_a (O : EllOracle ℝ) (n : Nat) (cc : ℝ) (ar : ℝ → ℝ → ℝ) (xmin ymin : ℝ) (f : Comp ℝ) :
    (toComponent O n cc ar xmin ymin f).a =
      (fixShape (arcsecHand (O.p2s (p2sArgs cc xmin ymin f)).a) (arcsecHand (O.p2s (p2sArgs cc xmin ymin f)).b)
        (O.p2s (p2sArgs cc xmin ymin f)).pa).1 := rfl
theorem toComponent_b (O : EllOracle ℝ) (n : Nat) (cc : ℝ) (ar : ℝ → ℝ → ℝ) (xmin ymin : ℝ) (f : Comp ℝ) :
    (toComponent O n cc ar xmin ymin f).b =
      (fixShape (arcsecHand (O.p2s (p2sArgs cc xmin ymin f)).a) (arcsecHand (O.p2s (p2sArgs cc xmin ymin f)).b)
        (O.p2s (p2sArgs cc xmin ymin f)).pa).2.1 := rfl
theorem toComponent_pa (O : EllOracle ℝ) (n : Nat) (cc : ℝ) (ar : ℝ → ℝ → ℝ) (xmin ymin : ℝ) (f : Comp ℝ) :
    (toComponent O n cc ar xmin ymin f).pa =
      paLimit n (fixShape (arcsecHand (O.p2s (p2sArgs cc xmin ymin f)).a) (arcsecHand (O.p2s (p2sArgs cc xmin ymin f)).b)
        (O.p2s (p2sArgs cc xmin ymin f)).pa).2.2 := rfl
theorem toComponent_intFlux (O : EllOracle ℝ) (n : Nat) (cc : ℝ) (ar : ℝ → ℝ → ℝ) (xmin ymin : ℝ) (f : Comp ℝ) :
    (toComponent O n cc ar xmin ymin f).intFlux =
      intFluxHand f.amp f.sx f.sy cc (ar (raWrap (O.p2s (p2sArgs cc xmin ymin f)).ra) (O.p2s (p2sArgs cc xmin ymin f)).dec) := rfl

theorem arcsecHand_eq (v : ℝ) : arcsecHand v = v * 3600 := by simp only [arcsecHand]; rsimp

/-- **report_sees_injected_ellipse**: for the injected truth, the pixel ellipse handed to
    `pix2sky_ellipse` is exactly the one `sky2pix_ellipse` produced at injection: the `xo − 1` of the
    renderer cancels the `+ 1` of the reporter (whatever the island offset), the coordinate order
    is the same on both sides, and FWHM2CC·CC2FWHM = 1. -/
theorem report_sees_injected_ellipse (O : EllOracle ℝ) (ln2 : ℝ) (h : 0 < ln2) (xmin ymin : ℝ) (t : Truth ℝ) :
    p2sArgs (Gen.C01.cc2fwhm ln2) xmin ymin (toIsland xmin ymin (inject O (Gen.C01.fwhm2ccRes ln2) t))
      = O.s2p (skyOf t) := by
  have hc := (cc2fwhm_mul_fwhm2cc ln2 h).2
  simp only [p2sArgs, toIsland, inject, skyOf, p2sArgXHand, p2sArgYHand, p2sArgSxHand, p2sArgSyHand, p2sArgThetaHand,
    xPixHand, yPixHand, s2pArgRaHand, s2pArgDecHand, s2pArgAHand, s2pArgBHand, s2pArgPaHand]
  rsimp
  generalize O.s2p ⟨t.ra, t.dec, t.a / 3600, t.b / 3600, t.pa⟩ = p
  cases p with
  | mk x y sx sy th =>
    simp only [PixEll.mk.injEq]
    refine ⟨by ring, by ring, ?_, ?_, trivial⟩
    · rw [mul_assoc, mul_comm (Gen.C01.fwhm2ccRes ln2), hc, mul_one]
    · rw [mul_assoc, mul_comm (Gen.C01.fwhm2ccRes ln2), hc, mul_one]

/-- **conversion_inverse**: report ∘ inject is the identity on (ra, dec, a, pa, peak) for every
    ellipse oracle obeying the inverse laws — provided the recovered minor axis does not exceed the
    major axis (otherwise `fix_shape` swaps) — and on b when the oracle recovers the minor axis
    exactly (C16: the two pixel-space offset vectors are perpendicular, `defect = 0`).
    Truth normalised as the catalogue is: ra ≥ 0, pa ∈ (−90, 90]. -/
theorem conversion_inverse (O : EllOracle ℝ) (dom : SkyEll ℝ → Prop) (L : InverseLaws O dom)
    (ln2 : ℝ) (hln2 : 0 < ln2) (fuel : Nat) (area : ℝ → ℝ → ℝ) (xmin ymin : ℝ) (t : Truth ℝ)
    (hdom : dom (skyOf t)) (hra : 0 ≤ t.ra) (hpa1 : -90 < t.pa) (hpa2 : t.pa ≤ 90)
    (hminor : (O.p2s (O.s2p (skyOf t))).b ≤ (skyOf t).a) :
    let r := toComponent O fuel (Gen.C01.cc2fwhm ln2) area xmin ymin
              (toIsland xmin ymin (inject O (Gen.C01.fwhm2ccRes ln2) t))
    r.ra = t.ra ∧ r.dec = t.dec ∧ r.a = t.a ∧ r.pa = t.pa ∧ r.peak = t.peak ∧
      ((O.p2s (O.s2p (skyOf t))).b = (skyOf t).b → r.b = t.b) := by
  intro r
  have he := report_sees_injected_ellipse O ln2 hln2 xmin ymin t
  have hA : (O.p2s (O.s2p (skyOf t))).a = t.a / 3600 := L.a _ hdom
  have hnoswap : ¬ (arcsecHand (O.p2s (O.s2p (skyOf t))).a < arcsecHand (O.p2s (O.s2p (skyOf t))).b) := by
    rw [arcsecHand_eq, arcsecHand_eq, hA]
    have : (O.p2s (O.s2p (skyOf t))).b ≤ t.a / 3600 := hminor
    intro hlt; nlinarith
  refine ⟨?_, ?_, ?_, ?_, ?_, ?_⟩
  · show r.ra = t.ra
    rw [toComponent_ra, he, L.ra _ hdom, raWrap_eq]
    exact if_neg (not_lt.mpr hra)
  · show r.dec = t.dec
    rw [toComponent_dec, he, L.dec _ hdom]; rfl
  · show r.a = t.a
    rw [toComponent_a, he]; unfold fixShape; rw [if_neg hnoswap, arcsecHand_eq, hA]
    field_simp
  · show r.pa = t.pa
    rw [toComponent_pa, he]; unfold fixShape; rw [if_neg hnoswap]
    show paLimit fuel (O.p2s (O.s2p (skyOf t))).pa = t.pa
    rw [L.pa _ hdom]; exact paLimit_id fuel t.pa hpa1 hpa2
  · show r.peak = t.peak
    rw [toComponent_peak]; rfl
  · intro hb
    show r.b = t.b
    rw [toComponent_b, he]; unfold fixShape; rw [if_neg hnoswap, arcsecHand_eq]
    show (O.p2s (O.s2p (skyOf t))).b * 3600 = t.b
    rw [hb]; show t.b / 3600 * 3600 = t.b
    field_simp

/-- **conversion_inverse_pa_general**: for a truth whose pa is NOT normalised, the reported pa is the
    representative of the injected pa modulo 180 in (−90, 90] (fuel covering |pa| = the loops ran
    to completion) -/
theorem conversion_inverse_pa_general (O : EllOracle ℝ) (dom : SkyEll ℝ → Prop) (L : InverseLaws O dom)
    (ln2 : ℝ) (hln2 : 0 < ln2) (fuel : Nat) (area : ℝ → ℝ → ℝ) (xmin ymin : ℝ) (t : Truth ℝ)
    (hdom : dom (skyOf t)) (hfuel : |t.pa| < 90 + 180 * fuel)
    (hminor : (O.p2s (O.s2p (skyOf t))).b ≤ (skyOf t).a) :
    let r := toComponent O fuel (Gen.C01.cc2fwhm ln2) area xmin ymin
              (toIsland xmin ymin (inject O (Gen.C01.fwhm2ccRes ln2) t))
    (-90 : ℝ) < r.pa ∧ r.pa ≤ 90 ∧ ∃ k : ℤ, r.pa = t.pa + 180 * k := by
  intro r
  have he := report_sees_injected_ellipse O ln2 hln2 xmin ymin t
  have hA : (O.p2s (O.s2p (skyOf t))).a = t.a / 3600 := L.a _ hdom
  have hnoswap : ¬ (arcsecHand (O.p2s (O.s2p (skyOf t))).a < arcsecHand (O.p2s (O.s2p (skyOf t))).b) := by
    rw [arcsecHand_eq, arcsecHand_eq, hA]
    have : (O.p2s (O.s2p (skyOf t))).b ≤ t.a / 3600 := hminor
    intro hlt; nlinarith
  have hr : r.pa = paLimit fuel t.pa := by
    show (toComponent O fuel (Gen.C01.cc2fwhm ln2) area xmin ymin
              (toIsland xmin ymin (inject O (Gen.C01.fwhm2ccRes ln2) t))).pa = _
    rw [toComponent_pa, he]; unfold fixShape; rw [if_neg hnoswap]
    show paLimit fuel (O.p2s (O.s2p (skyOf t))).pa = _
    rw [L.pa _ hdom]; rfl
  rw [hr]; exact paLimit_spec fuel t.pa hfuel

/-- the equivalent parameter vector the optimiser may land on: axes exchanged, θ + 90 -/
def swapFit (f : Comp ℝ) : Comp ℝ := { f with sx := f.sy, sy := f.sx, theta := f.theta + 90 }

/-- the oracle's answer for the axis-exchanged pixel ellipse at the same centre: the sky axes are
    exchanged and the position angle moves by 90° (what `pix2sky_ellipse` does when the two pixel offset
    vectors map to perpendicular sky offsets of the same lengths either way round) -/
def SwapLaw (O : EllOracle ℝ) (p : PixEll ℝ) : Prop :=
  O.p2s ⟨p.x, p.y, p.sy, p.sx, p.theta + 90⟩ =
    ⟨(O.p2s p).ra, (O.p2s p).dec, (O.p2s p).b, (O.p2s p).a, (O.p2s p).pa + 90⟩

theorem paLimit_add_180 (n : Nat) (pa : ℝ) (h1 : |pa| < 90 + 180 * n) (h2 : |pa + 180| < 90 + 180 * n) :
    paLimit n (pa + 180) = paLimit n pa := by
  obtain ⟨a1, a2, ka, ha⟩ := paLimit_spec n pa h1
  obtain ⟨b1, b2, kb, hb⟩ := paLimit_spec n (pa + 180) h2
  exact range_unique (paLimit n pa) (paLimit n (pa + 180)) (kb + 1 - ka) ⟨a1, a2⟩ ⟨b1, b2⟩
    (by rw [ha, hb]; push_cast; ring)

/-- **conversion_swapped_fit**: if the optimiser returns the equivalent vector (sy, sx, θ + 90) — the
    same Gaussian by `gauss_axis_swap` — instead of (sx, sy, θ), the reported component is the same:
    `fix_shape` exchanges the axes back and `pa_limit` absorbs the half turn.  (Strictly elongated
    source, oracle obeying the swap law at that pixel ellipse, fuel covering the angles.) -/
theorem conversion_swapped_fit (O : EllOracle ℝ) (fuel : Nat) (cc : ℝ) (area : ℝ → ℝ → ℝ) (xmin ymin : ℝ) (f : Comp ℝ)
    (hlaw : SwapLaw O (p2sArgs cc xmin ymin f))
    (hstrict : (O.p2s (p2sArgs cc xmin ymin f)).b < (O.p2s (p2sArgs cc xmin ymin f)).a)
    (hf1 : |(O.p2s (p2sArgs cc xmin ymin f)).pa| < 90 + 180 * fuel)
    (hf2 : |(O.p2s (p2sArgs cc xmin ymin f)).pa + 180| < 90 + 180 * fuel) :
    let r := toComponent O fuel cc area xmin ymin f
    let r' := toComponent O fuel cc area xmin ymin (swapFit f)
    r'.ra = r.ra ∧ r'.dec = r.dec ∧ r'.a = r.a ∧ r'.b = r.b ∧ r'.pa = r.pa ∧ r'.peak = r.peak := by
  intro r r'
  have hargs : p2sArgs cc xmin ymin (swapFit f)
      = ⟨(p2sArgs cc xmin ymin f).x, (p2sArgs cc xmin ymin f).y, (p2sArgs cc xmin ymin f).sy,
         (p2sArgs cc xmin ymin f).sx, (p2sArgs cc xmin ymin f).theta + 90⟩ := by
    simp only [p2sArgs, swapFit, p2sArgXHand, p2sArgYHand, p2sArgSxHand, p2sArgSyHand, p2sArgThetaHand]
  have he : O.p2s (p2sArgs cc xmin ymin (swapFit f)) =
      ⟨(O.p2s (p2sArgs cc xmin ymin f)).ra, (O.p2s (p2sArgs cc xmin ymin f)).dec, (O.p2s (p2sArgs cc xmin ymin f)).b,
       (O.p2s (p2sArgs cc xmin ymin f)).a, (O.p2s (p2sArgs cc xmin ymin f)).pa + 90⟩ := by
    rw [hargs]; exact hlaw
  generalize hE : O.p2s (p2sArgs cc xmin ymin f) = e at he hstrict hf1 hf2
  have hswap : arcsecHand e.b < arcsecHand e.a := by rw [arcsecHand_eq, arcsecHand_eq]; linarith
  have hno : ¬ (arcsecHand e.a < arcsecHand e.b) := not_lt.mpr (le_of_lt hswap)
  refine ⟨?_, ?_, ?_, ?_, ?_, rfl⟩
  · show (toComponent O fuel cc area xmin ymin (swapFit f)).ra = (toComponent O fuel cc area xmin ymin f).ra
    rw [toComponent_ra, toComponent_ra, he, hE]
  · show (toComponent O fuel cc area xmin ymin (swapFit f)).dec = (toComponent O fuel cc area xmin ymin f).dec
    rw [toComponent_dec, toComponent_dec, he, hE]
  · show (toComponent O fuel cc area xmin ymin (swapFit f)).a = (toComponent O fuel cc area xmin ymin f).a
    rw [toComponent_a, toComponent_a, he, hE]; unfold fixShape; rw [if_pos hswap, if_neg hno]
  · show (toComponent O fuel cc area xmin ymin (swapFit f)).b = (toComponent O fuel cc area xmin ymin f).b
    rw [toComponent_b, toComponent_b, he, hE]; unfold fixShape; rw [if_pos hswap, if_neg hno]
  · show (toComponent O fuel cc area xmin ymin (swapFit f)).pa = (toComponent O fuel cc area xmin ymin f).pa
    rw [toComponent_pa, toComponent_pa, he, hE]; unfold fixShape; rw [if_pos hswap, if_neg hno]
    show paLimit fuel (e.pa + 90 + R.ofNat 90) = paLimit fuel e.pa
    have : e.pa + 90 + (R.ofNat 90 : ℝ) = e.pa + 180 := by rsimp; ring
    rw [this]; exact paLimit_add_180 fuel e.pa hf1 hf2

/-! ### (3) integrated flux -/

theorem fixShape_prod (a b pa : ℝ) : (fixShape a b pa).1 * (fixShape a b pa).2.1 = a * b := by
  unfold fixShape
  by_cases h : a < b
  · rw [if_pos h]; ring
  · rw [if_neg h]

/-- **int_flux_pixel_identity** (unconditional): as coded, with `get_beamarea_pix = A·B·π` for the
    pixel psf (A, B), the integrated flux is peak × (source FWHM area in pixels) / (psf FWHM area
    in pixels); the two π cancel. -/
theorem int_flux_pixel_identity (amp sx sy cc A B : ℝ) (hA : A ≠ 0) (hB : B ≠ 0) :
    Gen.C01.intFlux amp sx sy cc (Gen.C01.beamAreaPix A B) = amp * ((sx * cc) * (sy * cc)) / (A * B) := by
  rw [intFlux_eq_hand, beamAreaPix_eq_hand]
  simp only [intFluxHand, beamAreaPixHand]; rsimp
  have := Real.pi_ne_zero
  field_simp

/-- at pixel (x, y) the conversion pixel → sky multiplies every length by the same factor `s`, in
    every direction: the WCS is locally a similarity there (true to first order for the conformal
    STG; true up to the projection's shear/curvature over the source for the others) -/
def LocalSimilarity (O : EllOracle ℝ) (x y s : ℝ) : Prop :=
  ∀ sx sy th, (O.p2s ⟨x, y, sx, sy, th⟩).a = s * sx ∧ (O.p2s ⟨x, y, sx, sy, th⟩).b = s * sy

/-- **int_flux_identity**: `int_flux = peak·a·b / (psf_a·psf_b)` in the REPORTED quantities, exactly,
    when pixel → sky is a local similarity at the source (the pixel psf (A, B, Θ) is whatever
    `WCSHelper.__init__` computed; `fix_shape` may or may not have swapped a and b). -/
theorem int_flux_identity (O : EllOracle ℝ) (fuel : Nat) (cc xmin ymin : ℝ) (fit : Comp ℝ) (A B Th s : ℝ)
    (hs : s ≠ 0) (hA : A ≠ 0) (hB : B ≠ 0)
    (hsim : LocalSimilarity O (xPixHand fit.xo xmin) (yPixHand fit.yo ymin) s) :
    let r := toComponent O fuel cc (fun _ _ => Gen.C01.beamAreaPix A B) xmin ymin fit
    let psf := reportedPsf O xmin ymin fit A B Th
    r.intFlux = r.peak * r.a * r.b / (psf.1 * psf.2) := by
  intro r psf
  have h1 := hsim (fit.sx * cc) (fit.sy * cc) fit.theta
  have h2 := hsim A B Th
  have hargs : p2sArgs cc xmin ymin fit
      = ⟨xPixHand fit.xo xmin, yPixHand fit.yo ymin, fit.sx * cc, fit.sy * cc, fit.theta⟩ := by
    simp only [p2sArgs, p2sArgXHand, p2sArgYHand, p2sArgSxHand, p2sArgSyHand, p2sArgThetaHand] <;> (try rsimp)
  have hab : r.a * r.b = arcsecHand (O.p2s (p2sArgs cc xmin ymin fit)).a * arcsecHand (O.p2s (p2sArgs cc xmin ymin fit)).b := by
    show (toComponent O fuel cc _ xmin ymin fit).a * (toComponent O fuel cc _ xmin ymin fit).b = _
    rw [toComponent_a, toComponent_b, fixShape_prod]
  have hp1 : psf.1 = s * A * 3600 := by
    show arcsecHand (O.p2s ⟨xPixHand fit.xo xmin, yPixHand fit.yo ymin, A, B, Th⟩).a = _
    rw [arcsecHand_eq, h2.1]
  have hp2 : psf.2 = s * B * 3600 := by
    show arcsecHand (O.p2s ⟨xPixHand fit.xo xmin, yPixHand fit.yo ymin, A, B, Th⟩).b = _
    rw [arcsecHand_eq, h2.2]
  have hI : r.intFlux = fit.amp * ((fit.sx * cc) * (fit.sy * cc)) / (A * B) := by
    show (toComponent O fuel cc _ xmin ymin fit).intFlux = _
    rw [toComponent_intFlux, ← intFlux_eq_hand]
    exact int_flux_pixel_identity fit.amp fit.sx fit.sy cc A B hA hB
  have hpk : r.peak = fit.amp := rfl
  rw [mul_assoc, hab, hargs, arcsecHand_eq, arcsecHand_eq, h1.1, h1.2, hp1, hp2, hI, hpk]
  field_simp

/-- **int_flux_vs_injected_partial**: what separates the reported integrated flux from the
    injected one, `peak·a·b/(BMAJ·BMIN)`.  If the fit returned the truth (peak, a, b) and the WCS is a
    local similarity at the source, the two agree EXACTLY WHEN the sky beam at the source has the
    header beam's area, `psf_a·psf_b = BMAJ·BMIN`.  That hypothesis is not a theorem: the pixel psf is
    computed once at the reference pixel (`WCSHelper.__init__`), so it fails by the change of the
    pixel's sky area between the reference pixel and the source; the harness measures it. -/
theorem int_flux_vs_injected_partial (O : EllOracle ℝ) (fuel : Nat) (cc xmin ymin : ℝ) (fit : Comp ℝ) (A B Th s : ℝ)
    (hs : s ≠ 0) (hA : A ≠ 0) (hB : B ≠ 0)
    (hsim : LocalSimilarity O (xPixHand fit.xo xmin) (yPixHand fit.yo ymin) s)
    (bmaj bmin : ℝ)
    (hbeam : (reportedPsf O xmin ymin fit A B Th).1 * (reportedPsf O xmin ymin fit A B Th).2 = bmaj * bmin) :
    let r := toComponent O fuel cc (fun _ _ => Gen.C01.beamAreaPix A B) xmin ymin fit
    r.intFlux = r.peak * r.a * r.b / (bmaj * bmin) := by
  intro r
  have h := int_flux_identity O fuel cc xmin ymin fit A B Th s hs hA hB hsim
  simp only at h
  rw [← hbeam]; exact h

/-! ### (5) the truth lies inside the bounds `estimate_lmfit_parinfo` hands to lmfit -/

theorem sampling_eq_hand (ln2 f2c amp0 rms ic oc A B xs ys : ℝ) :
    Gen.C01.sampling ln2 f2c amp0 rms ic oc A B xs ys = samplingHand ln2 f2c amp0 rms ic oc A B xs ys := by
  simp only [Gen.C01.sampling, samplingHand] <;> c01_leaf
theorem ampMinPos_eq_hand (ln2 f2c amp0 rms ic oc A B xs ys : ℝ) :
    Gen.C01.ampMinPos ln2 f2c amp0 rms ic oc A B xs ys = ampMinPosHand ln2 f2c amp0 rms ic oc A B xs ys := by
  simp only [Gen.C01.ampMinPos, ampMinPosHand] <;> c01_leaf
theorem ampMaxPos_eq_hand (ln2 f2c amp0 rms ic oc A B xs ys : ℝ) :
    Gen.C01.ampMaxPos ln2 f2c amp0 rms ic oc A B xs ys = ampMaxPosHand ln2 f2c amp0 rms ic oc A B xs ys := by
  simp only [Gen.C01.ampMaxPos, ampMaxPosHand, samplingHand] <;> c01_leaf
theorem ampMinNeg_eq_hand (ln2 f2c amp0 rms ic oc A B xs ys : ℝ) :
    Gen.C01.ampMinNeg ln2 f2c amp0 rms ic oc A B xs ys = ampMinNegHand ln2 f2c amp0 rms ic oc A B xs ys := by
  simp only [Gen.C01.ampMinNeg, ampMinNegHand, samplingHand] <;> c01_leaf
theorem ampMaxNeg_eq_hand (ln2 f2c amp0 rms ic oc A B xs ys : ℝ) :
    Gen.C01.ampMaxNeg ln2 f2c amp0 rms ic oc A B xs ys = ampMaxNegHand ln2 f2c amp0 rms ic oc A B xs ys := by
  simp only [Gen.C01.ampMaxNeg, ampMaxNegHand] <;>
  first
    | (c01_leaf; done)
    | (rsimp   -- the limit written with a sign factor and `min` (helper form): −min(x, −a) = max(−x, a)
       have h : max (-oc * rms) amp0 = -(min (oc * rms) (-amp0)) := by rw [neg_min_neg]; congr 1; ring
       rw [h]; first | (norm_num; done) | ring1 | (norm_num; ring1))
theorem xoLim_eq_hand (ln2 f2c amp0 rms ic oc A B xs ys : ℝ) :
    Gen.C01.xoLim ln2 f2c amp0 rms ic oc A B xs ys = xoLimHand ln2 f2c amp0 rms ic oc A B xs ys := by
  simp only [Gen.C01.xoLim, xoLimHand] <;> c01_leaf
theorem sMin_eq_hand (ln2 f2c amp0 rms ic oc A B xs ys : ℝ) :
    Gen.C01.sxMin ln2 f2c amp0 rms ic oc A B xs ys = sMinHand ln2 f2c amp0 rms ic oc A B xs ys ∧
    Gen.C01.syMin ln2 f2c amp0 rms ic oc A B xs ys = sMinHand ln2 f2c amp0 rms ic oc A B xs ys := by
  constructor
  · simp only [Gen.C01.sxMin, sxMinHand, sMinHand] <;> c01_leaf
  · simp only [Gen.C01.syMin, syMinHand, sMinHand] <;> c01_leaf
theorem sMax_eq_hand (ln2 f2c amp0 rms ic oc A B xs ys : ℝ) :
    Gen.C01.sxMax ln2 f2c amp0 rms ic oc A B xs ys = sMaxHand ln2 f2c amp0 rms ic oc A B xs ys ∧
    Gen.C01.syMax ln2 f2c amp0 rms ic oc A B xs ys = sMaxHand ln2 f2c amp0 rms ic oc A B xs ys := by
  constructor
  · simp only [Gen.C01.sxMax, sxMaxHand, sMaxHand, sxInitHand] <;> c01_leaf
  · simp only [Gen.C01.syMax, syMaxHand, sMaxHand, sxInitHand] <;> c01_leaf
theorem sInit_eq_hand (ln2 f2c amp0 rms ic oc A B xs ys : ℝ) :
    Gen.C01.sxInit ln2 f2c amp0 rms ic oc A B xs ys = sxInitHand ln2 f2c amp0 rms ic oc A B xs ys ∧
    Gen.C01.syInit ln2 f2c amp0 rms ic oc A B xs ys = syInitHand ln2 f2c amp0 rms ic oc A B xs ys := by
  constructor
  · simp only [Gen.C01.sxInit, sxInitHand] <;> c01_leaf
  · simp only [Gen.C01.syInit, syInitHand] <;> c01_leaf

theorem cc2fwhm_sq (ln2 : ℝ) (h : 0 < ln2) : Gen.C01.cc2fwhm ln2 ^ 2 = 8 * ln2 := by
  rw [cc2fwhm_eq_hand]; simp only [cc2fwhmHand]; rsimp
  rw [mul_pow, Real.sq_sqrt (by linarith)]; ring

/-- the σ of the beam's minor axis, `B · FWHM2CC`, squared -/
theorem beam_sigma_sq (ln2 B : ℝ) (h : 0 < ln2) : (B * Gen.C01.fwhm2cc ln2) ^ 2 = B ^ 2 / (8 * ln2) := by
  have hc := cc2fwhm_pos ln2 h
  have h1 := (cc2fwhm_mul_fwhm2cc ln2 h).1
  have hf : Gen.C01.fwhm2cc ln2 = 1 / Gen.C01.cc2fwhm ln2 := by
    field_simp; linarith [h1]
  rw [hf, mul_pow, div_pow, one_pow, cc2fwhm_sq ln2 h]; ring

/-- **pixel_value_bounds**: a pixel within half a pixel (in x and in y) of the centre of an elliptical Gaussian whose
    two sigmas are at least the σ of the beam's minor axis (`B·FWHM2CC`, B the minor FWHM of the pixel beam in
    pixels) holds between `exp(−ln2·2/B²) = 2^(−2/B²)` and 1 times the peak — for EVERY orientation.
    Hypotheses: noise-free sample of the model; source no narrower than the beam's minor axis in any direction;
    `FWHM2CC = 1/(2√(2 ln 2))` with the SAME `ln2` as in the `2 ** …` of the bound. -/
theorem pixel_value_bounds (ln2 B x0 y0 sx sy th i j : ℝ) (hln2 : 0 < ln2) (hB : 0 < B)
    (hsx : B * Gen.C01.fwhm2cc ln2 ≤ sx) (hsy : B * Gen.C01.fwhm2cc ln2 ≤ sy)
    (hi : |i - x0| ≤ 1 / 2) (hj : |j - y0| ≤ 1 / 2) :
    Real.exp (-(ln2 * (2 / B ^ 2))) ≤ Gen.C01.gauss i j 1 x0 y0 sx sy th ∧ Gen.C01.gauss i j 1 x0 y0 sx sy th ≤ 1 := by
  have hc := cc2fwhm_pos ln2 hln2
  have hfpos : 0 < Gen.C01.fwhm2cc ln2 := by
    have h1 := (cc2fwhm_mul_fwhm2cc ln2 hln2).1
    by_contra hneg
    have : Gen.C01.cc2fwhm ln2 * Gen.C01.fwhm2cc ln2 ≤ 0 := mul_nonpos_of_nonneg_of_nonpos (le_of_lt hc) (not_lt.mp hneg)
    linarith
  have hm : 0 < B * Gen.C01.fwhm2cc ln2 := mul_pos hB hfpos
  have hq := quad_form_le (i - x0) (j - y0) (Real.cos (th * (Real.pi / 180))) (Real.sin (th * (Real.pi / 180))) sx sy
    (B * Gen.C01.fwhm2cc ln2) (Real.cos_sq_add_sin_sq _) hm hsx hsy hi hj
  rw [beam_sigma_sq ln2 B hln2] at hq
  have hk : 1 / 2 / (B ^ 2 / (8 * ln2)) = 2 * (ln2 * (2 / B ^ 2)) := by
    field_simp; ring
  rw [hk] at hq
  rw [gauss_eq_hand]
  simp only [gaussHand]; rsimp
  rw [one_mul]
  constructor
  · apply Real.exp_le_exp.mpr; nlinarith [hq.2]
  · have h0 := Real.exp_le_exp.mpr (show
      (((i - x0) * Real.cos (th * (Real.pi / 180)) + (j - y0) * Real.sin (th * (Real.pi / 180))) ^ 2 / sx ^ 2 +
        ((i - x0) * Real.sin (th * (Real.pi / 180)) - (j - y0) * Real.cos (th * (Real.pi / 180))) ^ 2 / sy ^ 2) * (-1 / 2) ≤ 0
      by nlinarith [hq.1])
    rw [Real.exp_zero] at h0; exact h0

/-- the Gaussian is linear in its amplitude -/
theorem gauss_amp (x y P xo yo sx sy th : ℝ) :
    Gen.C01.gauss x y P xo yo sx sy th = P * Gen.C01.gauss x y 1 xo yo sx sy th := by
  simp only [gauss_eq_hand, gaussHand]; rsimp; ring

/-- **peak_le_brightest_times_sampling** — the theorem behind fix C01-01: for a noise-free positive source no narrower
    than the beam, if SOME pixel within half a pixel of the centre is no brighter than the brightest pixel `vmax`,
    then `peak ≤ vmax · 2^(2/B²)` (`2^e = exp(ln2·e)`), hence `peak ≤ vmax · sampling`. -/
theorem peak_le_brightest_times_sampling (ln2 B P x0 y0 sx sy th i j vmax : ℝ) (hln2 : 0 < ln2) (hB : 0 < B)
    (hsx : B * Gen.C01.fwhm2cc ln2 ≤ sx) (hsy : B * Gen.C01.fwhm2cc ln2 ≤ sy)
    (hi : |i - x0| ≤ 1 / 2) (hj : |j - y0| ≤ 1 / 2) (hP : 0 < P)
    (hmax : Gen.C01.gauss i j P x0 y0 sx sy th ≤ vmax) :
    P ≤ vmax * Real.exp (ln2 * (2 / B ^ 2)) := by
  have hb := (pixel_value_bounds ln2 B x0 y0 sx sy th i j hln2 hB hsx hsy hi hj).1
  rw [gauss_amp] at hmax
  have he : Real.exp (-(ln2 * (2 / B ^ 2))) * Real.exp (ln2 * (2 / B ^ 2)) = 1 := by
    rw [← Real.exp_add]; simp
  have hpos : 0 < Real.exp (ln2 * (2 / B ^ 2)) := Real.exp_pos _
  calc P = P * (Real.exp (-(ln2 * (2 / B ^ 2))) * Real.exp (ln2 * (2 / B ^ 2))) := by rw [he, mul_one]
    _ = (P * Real.exp (-(ln2 * (2 / B ^ 2)))) * Real.exp (ln2 * (2 / B ^ 2)) := by ring
    _ ≤ (P * Gen.C01.gauss i j 1 x0 y0 sx sy th) * Real.exp (ln2 * (2 / B ^ 2)) := by
        apply mul_le_mul_of_nonneg_right _ (le_of_lt hpos)
        exact mul_le_mul_of_nonneg_left hb (le_of_lt hP)
    _ ≤ vmax * Real.exp (ln2 * (2 / B ^ 2)) := mul_le_mul_of_nonneg_right hmax (le_of_lt hpos)

theorem samplingHand_ge (ln2 f2c amp0 rms ic oc A B xs ys : ℝ) :
    Real.exp (ln2 * (2 / B ^ 2)) ≤ samplingHand ln2 f2c amp0 rms ic oc A B xs ys ∧
    1 ≤ samplingHand ln2 f2c amp0 rms ic oc A B xs ys := by
  simp only [samplingHand]; rsimp
  constructor
  · exact le_max_right _ _
  · exact le_trans (by norm_num) (le_max_left _ _)

/-- **truth_within_bounds_pos**: for a noise-free POSITIVE isolated Gaussian at least as large as the beam whose
    brightest pixel (ib, jb) — value `amp0` — lies within half a pixel of the centre, the true (amp, xo, yo, sx, sy)
    satisfy the bounds `estimate_lmfit_parinfo` gives lmfit (theta is unbounded):
      amp_min ≤ P ≤ amp_max,  |x0 − ib| ≤ xo_lim,  |y0 − jb| ≤ yo_lim,  s_min ≤ sx, sy,
    and sx, sy ≤ s_max when the island box is large enough (`hsize`, explicit: (max(xsize, ysize)+1)·√2·FWHM2CC ≥ σ).
    Further explicit hypotheses: rms ≥ 0, clips ≥ 0, pixel beam with A² + B² ≥ 1 (so that xo_lim ≥ ½). -/
theorem truth_within_bounds_pos (ln2 rms ic oc A B xs ys P x0 y0 sx sy th ib jb : ℝ)
    (hln2 : 0 < ln2) (hB : 0 < B) (hAB : 1 ≤ A ^ 2 + B ^ 2) (hrms : 0 ≤ rms) (hic : 0 ≤ ic) (hP : 0 < P)
    (hsx : B * Gen.C01.fwhm2cc ln2 ≤ sx) (hsy : B * Gen.C01.fwhm2cc ln2 ≤ sy)
    (hi : |ib - x0| ≤ 1 / 2) (hj : |jb - y0| ≤ 1 / 2)
    (hsize : max sx sy ≤ (max xs ys + 1) * Real.sqrt 2 * Gen.C01.fwhm2cc ln2) :
    let f2c := Gen.C01.fwhm2cc ln2
    let amp0 := Gen.C01.gauss ib jb P x0 y0 sx sy th
    Gen.C01.ampMinPos ln2 f2c amp0 rms ic oc A B xs ys ≤ P ∧ P ≤ Gen.C01.ampMaxPos ln2 f2c amp0 rms ic oc A B xs ys ∧
    |x0 - ib| ≤ Gen.C01.xoLim ln2 f2c amp0 rms ic oc A B xs ys ∧ |y0 - jb| ≤ Gen.C01.xoLim ln2 f2c amp0 rms ic oc A B xs ys ∧
    Gen.C01.sxMin ln2 f2c amp0 rms ic oc A B xs ys ≤ sx ∧ Gen.C01.syMin ln2 f2c amp0 rms ic oc A B xs ys ≤ sy ∧
    sx ≤ Gen.C01.sxMax ln2 f2c amp0 rms ic oc A B xs ys ∧ sy ≤ Gen.C01.syMax ln2 f2c amp0 rms ic oc A B xs ys := by
  intro f2c amp0
  have hb := pixel_value_bounds ln2 B x0 y0 sx sy th ib jb hln2 hB hsx hsy hi hj
  have hamp0 : amp0 = P * Gen.C01.gauss ib jb 1 x0 y0 sx sy th := gauss_amp _ _ _ _ _ _ _ _
  have hg0 : 0 < Gen.C01.gauss ib jb 1 x0 y0 sx sy th := lt_of_lt_of_le (Real.exp_pos _) hb.1
  have hamp0pos : 0 < amp0 := by rw [hamp0]; exact mul_pos hP hg0
  have hamp0le : amp0 ≤ P := by rw [hamp0]; nlinarith [hb.2]
  have hpk := peak_le_brightest_times_sampling ln2 B P x0 y0 sx sy th ib jb amp0 hln2 hB hsx hsy hi hj hP (le_refl _)
  have hs := samplingHand_ge ln2 f2c amp0 rms ic oc A B xs ys
  have hfpos : 0 < f2c := by
    have h1 := (cc2fwhm_mul_fwhm2cc ln2 hln2).1
    have hc := cc2fwhm_pos ln2 hln2
    by_contra hneg
    have : Gen.C01.cc2fwhm ln2 * Gen.C01.fwhm2cc ln2 ≤ 0 := mul_nonpos_of_nonneg_of_nonpos (le_of_lt hc) (not_lt.mp hneg)
    linarith
  have hlim : (1 : ℝ) / 2 ≤ Gen.C01.xoLim ln2 f2c amp0 rms ic oc A B xs ys := by
    rw [xoLim_eq_hand]; simp only [xoLimHand, R.real_hypot]; rsimp
    have : (1 : ℝ) ≤ Real.sqrt (A * A + B * B) := by
      rw [show (1 : ℝ) = Real.sqrt 1 by simp]; apply Real.sqrt_le_sqrt; nlinarith
    norm_num; linarith
  refine ⟨?_, ?_, ?_, ?_, ?_, ?_, ?_, ?_⟩
  · rw [ampMinPos_eq_hand]; simp only [ampMinPosHand]; rsimp
    have : min (oc * rms) amp0 ≤ amp0 := min_le_right _ _
    norm_num; nlinarith
  · rw [ampMaxPos_eq_hand]; simp only [ampMaxPosHand]; rsimp
    have h1 : amp0 * Real.exp (ln2 * (2 / B ^ 2)) ≤ amp0 * samplingHand ln2 f2c amp0 rms ic oc A B xs ys :=
      mul_le_mul_of_nonneg_left hs.1 (le_of_lt hamp0pos)
    have h2 : 0 ≤ ic * rms := mul_nonneg hic hrms
    linarith
  · rw [abs_sub_comm]; exact le_trans hi hlim
  · rw [abs_sub_comm]; exact le_trans hj hlim
  · rw [(sMin_eq_hand ln2 f2c amp0 rms ic oc A B xs ys).1]; simp only [sMinHand]; rsimp
    have : 0 < B * f2c := mul_pos hB hfpos
    norm_num; nlinarith [hsx]
  · rw [(sMin_eq_hand ln2 f2c amp0 rms ic oc A B xs ys).2]; simp only [sMinHand]; rsimp
    have : 0 < B * f2c := mul_pos hB hfpos
    norm_num; nlinarith [hsy]
  · rw [(sMax_eq_hand ln2 f2c amp0 rms ic oc A B xs ys).1]; simp only [sMaxHand]; rsimp
    exact le_trans (le_trans (le_max_left _ _) hsize) (le_max_left _ _)
  · rw [(sMax_eq_hand ln2 f2c amp0 rms ic oc A B xs ys).2]; simp only [sMaxHand]; rsimp
    exact le_trans (le_trans (le_max_right _ _) hsize) (le_max_left _ _)

/-- **truth_within_bounds_neg**: the amplitude bounds of the NEGATIVE branch (`amp ≤ 0`) contain a negative true peak
    under the same hypotheses (position and shape bounds do not depend on the sign) -/
theorem truth_within_bounds_neg (ln2 rms ic oc A B xs ys P x0 y0 sx sy th ib jb : ℝ)
    (hln2 : 0 < ln2) (hB : 0 < B) (hrms : 0 ≤ rms) (hic : 0 ≤ ic) (hP : P < 0)
    (hsx : B * Gen.C01.fwhm2cc ln2 ≤ sx) (hsy : B * Gen.C01.fwhm2cc ln2 ≤ sy)
    (hi : |ib - x0| ≤ 1 / 2) (hj : |jb - y0| ≤ 1 / 2) :
    let f2c := Gen.C01.fwhm2cc ln2
    let amp0 := Gen.C01.gauss ib jb P x0 y0 sx sy th
    Gen.C01.ampMinNeg ln2 f2c amp0 rms ic oc A B xs ys ≤ P ∧ P ≤ Gen.C01.ampMaxNeg ln2 f2c amp0 rms ic oc A B xs ys := by
  intro f2c amp0
  have hb := pixel_value_bounds ln2 B x0 y0 sx sy th ib jb hln2 hB hsx hsy hi hj
  have hamp0 : amp0 = P * Gen.C01.gauss ib jb 1 x0 y0 sx sy th := gauss_amp _ _ _ _ _ _ _ _
  have hg0 : 0 < Gen.C01.gauss ib jb 1 x0 y0 sx sy th := lt_of_lt_of_le (Real.exp_pos _) hb.1
  have hamp0neg : amp0 < 0 := by rw [hamp0]; exact mul_neg_of_neg_of_pos hP hg0
  have hPle : P ≤ amp0 := by rw [hamp0]; nlinarith [hb.2]
  have hpk := peak_le_brightest_times_sampling ln2 B (-P) x0 y0 sx sy th ib jb (-amp0) hln2 hB hsx hsy hi hj
    (by linarith) (by rw [gauss_amp, hamp0]; ring_nf; exact le_refl _)
  have hs := samplingHand_ge ln2 f2c amp0 rms ic oc A B xs ys
  constructor
  · rw [ampMinNeg_eq_hand]; simp only [ampMinNegHand]; rsimp
    have h1 : (-amp0) * Real.exp (ln2 * (2 / B ^ 2)) ≤ (-amp0) * samplingHand ln2 f2c amp0 rms ic oc A B xs ys :=
      mul_le_mul_of_nonneg_left hs.1 (by linarith)
    have h2 : 0 ≤ ic * rms := mul_nonneg hic hrms
    nlinarith
  · rw [ampMaxNeg_eq_hand]; simp only [ampMaxNegHand]; rsimp
    have h1 : amp0 ≤ max (-oc * rms) amp0 := le_max_right _ _
    have h2 : amp0 ≤ max (-(oc * rms)) amp0 := le_max_right _ _
    norm_num; linarith

/-! #### which limit is handed to which lmfit parameter (`params.add`), regenerated -/

theorem pAmpValuePos_eq_hand (ln2 f2c amp0 rms ic oc A B xs ys xo0 yo0 : ℝ) :
    Gen.C01.pAmpValuePos ln2 f2c amp0 rms ic oc A B xs ys xo0 yo0 = pAmpValuePosHand ln2 f2c amp0 rms ic oc A B xs ys xo0 yo0 := by
  simp only [Gen.C01.pAmpValuePos, pAmpValuePosHand, ampMinPosHand, ampMaxPosHand, ampMinNegHand, ampMaxNegHand, samplingHand, xoLimHand, sxInitHand, syInitHand, sMinHand, sMaxHand] <;>
  first
    | (c01_leaf; done)
    | (rsimp
       have h : max (-oc * rms) amp0 = -(min (oc * rms) (-amp0)) := by rw [neg_min_neg]; congr 1; ring
       rw [h]; first | (norm_num; done) | ring1 | (norm_num; ring1))
theorem pAmpMinPos_eq_hand (ln2 f2c amp0 rms ic oc A B xs ys xo0 yo0 : ℝ) :
    Gen.C01.pAmpMinPos ln2 f2c amp0 rms ic oc A B xs ys xo0 yo0 = pAmpMinPosHand ln2 f2c amp0 rms ic oc A B xs ys xo0 yo0 := by
  simp only [Gen.C01.pAmpMinPos, pAmpMinPosHand, ampMinPosHand, ampMaxPosHand, ampMinNegHand, ampMaxNegHand, samplingHand, xoLimHand, sxInitHand, syInitHand, sMinHand, sMaxHand] <;>
  first
    | (c01_leaf; done)
    | (rsimp
       have h : max (-oc * rms) amp0 = -(min (oc * rms) (-amp0)) := by rw [neg_min_neg]; congr 1; ring
       rw [h]; first | (norm_num; done) | ring1 | (norm_num; ring1))
theorem pAmpMaxPos_eq_hand (ln2 f2c amp0 rms ic oc A B xs ys xo0 yo0 : ℝ) :
    Gen.C01.pAmpMaxPos ln2 f2c amp0 rms ic oc A B xs ys xo0 yo0 = pAmpMaxPosHand ln2 f2c amp0 rms ic oc A B xs ys xo0 yo0 := by
  simp only [Gen.C01.pAmpMaxPos, pAmpMaxPosHand, ampMinPosHand, ampMaxPosHand, ampMinNegHand, ampMaxNegHand, samplingHand, xoLimHand, sxInitHand, syInitHand, sMinHand, sMaxHand] <;>
  first
    | (c01_leaf; done)
    | (rsimp
       have h : max (-oc * rms) amp0 = -(min (oc * rms) (-amp0)) := by rw [neg_min_neg]; congr 1; ring
       rw [h]; first | (norm_num; done) | ring1 | (norm_num; ring1))
theorem pAmpValueNeg_eq_hand (ln2 f2c amp0 rms ic oc A B xs ys xo0 yo0 : ℝ) :
    Gen.C01.pAmpValueNeg ln2 f2c amp0 rms ic oc A B xs ys xo0 yo0 = pAmpValueNegHand ln2 f2c amp0 rms ic oc A B xs ys xo0 yo0 := by
  simp only [Gen.C01.pAmpValueNeg, pAmpValueNegHand, ampMinPosHand, ampMaxPosHand, ampMinNegHand, ampMaxNegHand, samplingHand, xoLimHand, sxInitHand, syInitHand, sMinHand, sMaxHand] <;>
  first
    | (c01_leaf; done)
    | (rsimp
       have h : max (-oc * rms) amp0 = -(min (oc * rms) (-amp0)) := by rw [neg_min_neg]; congr 1; ring
       rw [h]; first | (norm_num; done) | ring1 | (norm_num; ring1))
theorem pAmpMinNeg_eq_hand (ln2 f2c amp0 rms ic oc A B xs ys xo0 yo0 : ℝ) :
    Gen.C01.pAmpMinNeg ln2 f2c amp0 rms ic oc A B xs ys xo0 yo0 = pAmpMinNegHand ln2 f2c amp0 rms ic oc A B xs ys xo0 yo0 := by
  simp only [Gen.C01.pAmpMinNeg, pAmpMinNegHand, ampMinPosHand, ampMaxPosHand, ampMinNegHand, ampMaxNegHand, samplingHand, xoLimHand, sxInitHand, syInitHand, sMinHand, sMaxHand] <;>
  first
    | (c01_leaf; done)
    | (rsimp
       have h : max (-oc * rms) amp0 = -(min (oc * rms) (-amp0)) := by rw [neg_min_neg]; congr 1; ring
       rw [h]; first | (norm_num; done) | ring1 | (norm_num; ring1))
theorem pAmpMaxNeg_eq_hand (ln2 f2c amp0 rms ic oc A B xs ys xo0 yo0 : ℝ) :
    Gen.C01.pAmpMaxNeg ln2 f2c amp0 rms ic oc A B xs ys xo0 yo0 = pAmpMaxNegHand ln2 f2c amp0 rms ic oc A B xs ys xo0 yo0 := by
  simp only [Gen.C01.pAmpMaxNeg, pAmpMaxNegHand, ampMinPosHand, ampMaxPosHand, ampMinNegHand, ampMaxNegHand, samplingHand, xoLimHand, sxInitHand, syInitHand, sMinHand, sMaxHand] <;>
  first
    | (c01_leaf; done)
    | (rsimp
       have h : max (-oc * rms) amp0 = -(min (oc * rms) (-amp0)) := by rw [neg_min_neg]; congr 1; ring
       rw [h]; first | (norm_num; done) | ring1 | (norm_num; ring1))
theorem pXoValue_eq_hand (ln2 f2c amp0 rms ic oc A B xs ys xo0 yo0 : ℝ) :
    Gen.C01.pXoValue ln2 f2c amp0 rms ic oc A B xs ys xo0 yo0 = pXoValueHand ln2 f2c amp0 rms ic oc A B xs ys xo0 yo0 := by
  simp only [Gen.C01.pXoValue, pXoValueHand, ampMinPosHand, ampMaxPosHand, ampMinNegHand, ampMaxNegHand, samplingHand, xoLimHand, sxInitHand, syInitHand, sMinHand, sMaxHand] <;>
  first
    | (c01_leaf; done)
    | (rsimp
       have h : max (-oc * rms) amp0 = -(min (oc * rms) (-amp0)) := by rw [neg_min_neg]; congr 1; ring
       rw [h]; first | (norm_num; done) | ring1 | (norm_num; ring1))
theorem pXoMin_eq_hand (ln2 f2c amp0 rms ic oc A B xs ys xo0 yo0 : ℝ) :
    Gen.C01.pXoMin ln2 f2c amp0 rms ic oc A B xs ys xo0 yo0 = pXoMinHand ln2 f2c amp0 rms ic oc A B xs ys xo0 yo0 := by
  simp only [Gen.C01.pXoMin, pXoMinHand, ampMinPosHand, ampMaxPosHand, ampMinNegHand, ampMaxNegHand, samplingHand, xoLimHand, sxInitHand, syInitHand, sMinHand, sMaxHand] <;>
  first
    | (c01_leaf; done)
    | (rsimp
       have h : max (-oc * rms) amp0 = -(min (oc * rms) (-amp0)) := by rw [neg_min_neg]; congr 1; ring
       rw [h]; first | (norm_num; done) | ring1 | (norm_num; ring1))
theorem pXoMax_eq_hand (ln2 f2c amp0 rms ic oc A B xs ys xo0 yo0 : ℝ) :
    Gen.C01.pXoMax ln2 f2c amp0 rms ic oc A B xs ys xo0 yo0 = pXoMaxHand ln2 f2c amp0 rms ic oc A B xs ys xo0 yo0 := by
  simp only [Gen.C01.pXoMax, pXoMaxHand, ampMinPosHand, ampMaxPosHand, ampMinNegHand, ampMaxNegHand, samplingHand, xoLimHand, sxInitHand, syInitHand, sMinHand, sMaxHand] <;>
  first
    | (c01_leaf; done)
    | (rsimp
       have h : max (-oc * rms) amp0 = -(min (oc * rms) (-amp0)) := by rw [neg_min_neg]; congr 1; ring
       rw [h]; first | (norm_num; done) | ring1 | (norm_num; ring1))
theorem pYoValue_eq_hand (ln2 f2c amp0 rms ic oc A B xs ys xo0 yo0 : ℝ) :
    Gen.C01.pYoValue ln2 f2c amp0 rms ic oc A B xs ys xo0 yo0 = pYoValueHand ln2 f2c amp0 rms ic oc A B xs ys xo0 yo0 := by
  simp only [Gen.C01.pYoValue, pYoValueHand, ampMinPosHand, ampMaxPosHand, ampMinNegHand, ampMaxNegHand, samplingHand, xoLimHand, sxInitHand, syInitHand, sMinHand, sMaxHand] <;>
  first
    | (c01_leaf; done)
    | (rsimp
       have h : max (-oc * rms) amp0 = -(min (oc * rms) (-amp0)) := by rw [neg_min_neg]; congr 1; ring
       rw [h]; first | (norm_num; done) | ring1 | (norm_num; ring1))
theorem pYoMin_eq_hand (ln2 f2c amp0 rms ic oc A B xs ys xo0 yo0 : ℝ) :
    Gen.C01.pYoMin ln2 f2c amp0 rms ic oc A B xs ys xo0 yo0 = pYoMinHand ln2 f2c amp0 rms ic oc A B xs ys xo0 yo0 := by
  simp only [Gen.C01.pYoMin, pYoMinHand, ampMinPosHand, ampMaxPosHand, ampMinNegHand, ampMaxNegHand, samplingHand, xoLimHand, sxInitHand, syInitHand, sMinHand, sMaxHand] <;>
  first
    | (c01_leaf; done)
    | (rsimp
       have h : max (-oc * rms) amp0 = -(min (oc * rms) (-amp0)) := by rw [neg_min_neg]; congr 1; ring
       rw [h]; first | (norm_num; done) | ring1 | (norm_num; ring1))
theorem pYoMax_eq_hand (ln2 f2c amp0 rms ic oc A B xs ys xo0 yo0 : ℝ) :
    Gen.C01.pYoMax ln2 f2c amp0 rms ic oc A B xs ys xo0 yo0 = pYoMaxHand ln2 f2c amp0 rms ic oc A B xs ys xo0 yo0 := by
  simp only [Gen.C01.pYoMax, pYoMaxHand, ampMinPosHand, ampMaxPosHand, ampMinNegHand, ampMaxNegHand, samplingHand, xoLimHand, sxInitHand, syInitHand, sMinHand, sMaxHand] <;>
  first
    | (c01_leaf; done)
    | (rsimp
       have h : max (-oc * rms) amp0 = -(min (oc * rms) (-amp0)) := by rw [neg_min_neg]; congr 1; ring
       rw [h]; first | (norm_num; done) | ring1 | (norm_num; ring1))
theorem pSxValue_eq_hand (ln2 f2c amp0 rms ic oc A B xs ys xo0 yo0 : ℝ) :
    Gen.C01.pSxValue ln2 f2c amp0 rms ic oc A B xs ys xo0 yo0 = pSxValueHand ln2 f2c amp0 rms ic oc A B xs ys xo0 yo0 := by
  simp only [Gen.C01.pSxValue, pSxValueHand, ampMinPosHand, ampMaxPosHand, ampMinNegHand, ampMaxNegHand, samplingHand, xoLimHand, sxInitHand, syInitHand, sMinHand, sMaxHand] <;>
  first
    | (c01_leaf; done)
    | (rsimp
       have h : max (-oc * rms) amp0 = -(min (oc * rms) (-amp0)) := by rw [neg_min_neg]; congr 1; ring
       rw [h]; first | (norm_num; done) | ring1 | (norm_num; ring1))
theorem pSxMin_eq_hand (ln2 f2c amp0 rms ic oc A B xs ys xo0 yo0 : ℝ) :
    Gen.C01.pSxMin ln2 f2c amp0 rms ic oc A B xs ys xo0 yo0 = pSxMinHand ln2 f2c amp0 rms ic oc A B xs ys xo0 yo0 := by
  simp only [Gen.C01.pSxMin, pSxMinHand, ampMinPosHand, ampMaxPosHand, ampMinNegHand, ampMaxNegHand, samplingHand, xoLimHand, sxInitHand, syInitHand, sMinHand, sMaxHand] <;>
  first
    | (c01_leaf; done)
    | (rsimp
       have h : max (-oc * rms) amp0 = -(min (oc * rms) (-amp0)) := by rw [neg_min_neg]; congr 1; ring
       rw [h]; first | (norm_num; done) | ring1 | (norm_num; ring1))
theorem pSxMax_eq_hand (ln2 f2c amp0 rms ic oc A B xs ys xo0 yo0 : ℝ) :
    Gen.C01.pSxMax ln2 f2c amp0 rms ic oc A B xs ys xo0 yo0 = pSxMaxHand ln2 f2c amp0 rms ic oc A B xs ys xo0 yo0 := by
  simp only [Gen.C01.pSxMax, pSxMaxHand, ampMinPosHand, ampMaxPosHand, ampMinNegHand, ampMaxNegHand, samplingHand, xoLimHand, sxInitHand, syInitHand, sMinHand, sMaxHand] <;>
  first
    | (c01_leaf; done)
    | (rsimp
       have h : max (-oc * rms) amp0 = -(min (oc * rms) (-amp0)) := by rw [neg_min_neg]; congr 1; ring
       rw [h]; first | (norm_num; done) | ring1 | (norm_num; ring1))
theorem pSyValue_eq_hand (ln2 f2c amp0 rms ic oc A B xs ys xo0 yo0 : ℝ) :
    Gen.C01.pSyValue ln2 f2c amp0 rms ic oc A B xs ys xo0 yo0 = pSyValueHand ln2 f2c amp0 rms ic oc A B xs ys xo0 yo0 := by
  simp only [Gen.C01.pSyValue, pSyValueHand, ampMinPosHand, ampMaxPosHand, ampMinNegHand, ampMaxNegHand, samplingHand, xoLimHand, sxInitHand, syInitHand, sMinHand, sMaxHand] <;>
  first
    | (c01_leaf; done)
    | (rsimp
       have h : max (-oc * rms) amp0 = -(min (oc * rms) (-amp0)) := by rw [neg_min_neg]; congr 1; ring
       rw [h]; first | (norm_num; done) | ring1 | (norm_num; ring1))
theorem pSyMin_eq_hand (ln2 f2c amp0 rms ic oc A B xs ys xo0 yo0 : ℝ) :
    Gen.C01.pSyMin ln2 f2c amp0 rms ic oc A B xs ys xo0 yo0 = pSyMinHand ln2 f2c amp0 rms ic oc A B xs ys xo0 yo0 := by
  simp only [Gen.C01.pSyMin, pSyMinHand, ampMinPosHand, ampMaxPosHand, ampMinNegHand, ampMaxNegHand, samplingHand, xoLimHand, sxInitHand, syInitHand, sMinHand, sMaxHand] <;>
  first
    | (c01_leaf; done)
    | (rsimp
       have h : max (-oc * rms) amp0 = -(min (oc * rms) (-amp0)) := by rw [neg_min_neg]; congr 1; ring
       rw [h]; first | (norm_num; done) | ring1 | (norm_num; ring1))
theorem pSyMax_eq_hand (ln2 f2c amp0 rms ic oc A B xs ys xo0 yo0 : ℝ) :
    Gen.C01.pSyMax ln2 f2c amp0 rms ic oc A B xs ys xo0 yo0 = pSyMaxHand ln2 f2c amp0 rms ic oc A B xs ys xo0 yo0 := by
  simp only [Gen.C01.pSyMax, pSyMaxHand, ampMinPosHand, ampMaxPosHand, ampMinNegHand, ampMaxNegHand, samplingHand, xoLimHand, sxInitHand, syInitHand, sMinHand, sMaxHand] <;>
  first
    | (c01_leaf; done)
    | (rsimp
       have h : max (-oc * rms) amp0 = -(min (oc * rms) (-amp0)) := by rw [neg_min_neg]; congr 1; ring
       rw [h]; first | (norm_num; done) | ring1 | (norm_num; ring1))

/-- **truth_within_lmfit_bounds_pos**: the statement in terms of what lmfit actually receives — for a noise-free positive
    Gaussian no narrower than the beam whose brightest pixel (ib, jb) is within half a pixel of its centre, each of the five
    bounded lmfit parameters is created (`params.add`) with limits that contain its true value, and with the starting
    values amp = brightest pixel, (xo, yo) = (ib, jb).  Hypotheses as in `truth_within_bounds_pos`. -/
theorem truth_within_lmfit_bounds_pos (ln2 rms ic oc A B xs ys P x0 y0 sx sy th ib jb : ℝ)
    (hln2 : 0 < ln2) (hB : 0 < B) (hAB : 1 ≤ A ^ 2 + B ^ 2) (hrms : 0 ≤ rms) (hic : 0 ≤ ic) (hP : 0 < P)
    (hsx : B * Gen.C01.fwhm2cc ln2 ≤ sx) (hsy : B * Gen.C01.fwhm2cc ln2 ≤ sy)
    (hi : |ib - x0| ≤ 1 / 2) (hj : |jb - y0| ≤ 1 / 2)
    (hsize : max sx sy ≤ (max xs ys + 1) * Real.sqrt 2 * Gen.C01.fwhm2cc ln2) :
    let f2c := Gen.C01.fwhm2cc ln2
    let amp0 := Gen.C01.gauss ib jb P x0 y0 sx sy th
    (Gen.C01.pAmpMinPos ln2 f2c amp0 rms ic oc A B xs ys ib jb ≤ P ∧ P ≤ Gen.C01.pAmpMaxPos ln2 f2c amp0 rms ic oc A B xs ys ib jb) ∧
    (Gen.C01.pXoMin ln2 f2c amp0 rms ic oc A B xs ys ib jb ≤ x0 ∧ x0 ≤ Gen.C01.pXoMax ln2 f2c amp0 rms ic oc A B xs ys ib jb) ∧
    (Gen.C01.pYoMin ln2 f2c amp0 rms ic oc A B xs ys ib jb ≤ y0 ∧ y0 ≤ Gen.C01.pYoMax ln2 f2c amp0 rms ic oc A B xs ys ib jb) ∧
    (Gen.C01.pSxMin ln2 f2c amp0 rms ic oc A B xs ys ib jb ≤ sx ∧ sx ≤ Gen.C01.pSxMax ln2 f2c amp0 rms ic oc A B xs ys ib jb) ∧
    (Gen.C01.pSyMin ln2 f2c amp0 rms ic oc A B xs ys ib jb ≤ sy ∧ sy ≤ Gen.C01.pSyMax ln2 f2c amp0 rms ic oc A B xs ys ib jb) ∧
    Gen.C01.pAmpValuePos ln2 f2c amp0 rms ic oc A B xs ys ib jb = amp0 ∧
    Gen.C01.pXoValue ln2 f2c amp0 rms ic oc A B xs ys ib jb = ib ∧ Gen.C01.pYoValue ln2 f2c amp0 rms ic oc A B xs ys ib jb = jb := by
  intro f2c amp0
  have h := truth_within_bounds_pos ln2 rms ic oc A B xs ys P x0 y0 sx sy th ib jb hln2 hB hAB hrms hic hP hsx hsy hi hj hsize
  simp only at h
  obtain ⟨h1, h2, h3, h4, h5, h6, h7, h8⟩ := h
  rw [ampMinPos_eq_hand] at h1
  rw [ampMaxPos_eq_hand] at h2
  rw [xoLim_eq_hand] at h3 h4
  rw [(sMin_eq_hand _ _ _ _ _ _ _ _ _ _).1] at h5
  rw [(sMin_eq_hand _ _ _ _ _ _ _ _ _ _).2] at h6
  rw [(sMax_eq_hand _ _ _ _ _ _ _ _ _ _).1] at h7
  rw [(sMax_eq_hand _ _ _ _ _ _ _ _ _ _).2] at h8
  rw [pAmpMinPos_eq_hand, pAmpMaxPos_eq_hand, pXoMin_eq_hand, pXoMax_eq_hand, pYoMin_eq_hand, pYoMax_eq_hand,
    pSxMin_eq_hand, pSxMax_eq_hand, pSyMin_eq_hand, pSyMax_eq_hand, pAmpValuePos_eq_hand, pXoValue_eq_hand, pYoValue_eq_hand]
  simp only [pAmpMinPosHand, pAmpMaxPosHand, pXoMinHand, pXoMaxHand, pYoMinHand, pYoMaxHand, pSxMinHand, pSxMaxHand,
    pSyMinHand, pSyMaxHand, pAmpValuePosHand, pXoValueHand, pYoValueHand]
  have a3 := abs_le.mp h3
  have a4 := abs_le.mp h4
  rsimp
  exact ⟨⟨h1, h2⟩, ⟨by linarith [a3.2], by linarith [a3.1]⟩, ⟨by linarith [a4.2], by linarith [a4.1]⟩, ⟨h5, h7⟩, ⟨h6, h8⟩,
    trivial, trivial, trivial⟩

/-- **truth_within_lmfit_bounds_neg**: the amplitude limits handed to lmfit for a NEGATIVE source contain its true peak -/
theorem truth_within_lmfit_bounds_neg (ln2 rms ic oc A B xs ys P x0 y0 sx sy th ib jb : ℝ)
    (hln2 : 0 < ln2) (hB : 0 < B) (hrms : 0 ≤ rms) (hic : 0 ≤ ic) (hP : P < 0)
    (hsx : B * Gen.C01.fwhm2cc ln2 ≤ sx) (hsy : B * Gen.C01.fwhm2cc ln2 ≤ sy)
    (hi : |ib - x0| ≤ 1 / 2) (hj : |jb - y0| ≤ 1 / 2) :
    let f2c := Gen.C01.fwhm2cc ln2
    let amp0 := Gen.C01.gauss ib jb P x0 y0 sx sy th
    Gen.C01.pAmpMinNeg ln2 f2c amp0 rms ic oc A B xs ys ib jb ≤ P ∧ P ≤ Gen.C01.pAmpMaxNeg ln2 f2c amp0 rms ic oc A B xs ys ib jb ∧
    Gen.C01.pAmpValueNeg ln2 f2c amp0 rms ic oc A B xs ys ib jb = amp0 := by
  intro f2c amp0
  have h := truth_within_bounds_neg ln2 rms ic oc A B xs ys P x0 y0 sx sy th ib jb hln2 hB hrms hic hP hsx hsy hi hj
  simp only at h
  obtain ⟨h1, h2⟩ := h
  rw [ampMinNeg_eq_hand] at h1
  rw [ampMaxNeg_eq_hand] at h2
  rw [pAmpMinNeg_eq_hand, pAmpMaxNeg_eq_hand, pAmpValueNeg_eq_hand]
  exact ⟨h1, h2, rfl⟩

/-! ### which astropy transform the sky conversions go through (regenerated from `WCSHelper.pix2sky / sky2pix`) -/

/-- **wcs_entry_points**: both conversions call the `all_` transform (core WCS plus SIP / distortion tables; code 1), not the
    core-only `wcs_` transform (code 2), and with origin 1 (FITS pixel coordinates).  A header in the `-SIP` spelling is
    therefore honoured in both directions. -/
theorem wcs_entry_points :
    Gen.C01.pix2skyEntry = 1 ∧ Gen.C01.pix2skyOrigin = 1 ∧ Gen.C01.sky2pixEntry = 1 ∧ Gen.C01.sky2pixOrigin = 1 := by
  refine ⟨?_, ?_, ?_, ?_⟩ <;> rfl

/-! ### Non-vacuity -/

/-- a concrete oracle obeying the laws: a uniform scale of 1/360 degree per pixel, identity on
    positions and angles (so `InverseLaws`, minor-axis exactness and `LocalSimilarity` are all
    satisfiable together) -/
noncomputable def scaleOracle : EllOracle ℝ where
  p2s p := ⟨p.x, p.y, p.sx / 360, p.sy / 360, p.theta⟩
  s2p e := ⟨e.ra, e.dec, e.a * 360, e.b * 360, e.pa⟩

example : InverseLaws scaleOracle (fun _ => True) :=
  ⟨fun e _ => rfl, fun e _ => rfl, fun e _ => by simp [scaleOracle], fun e _ => rfl⟩

example (x y : ℝ) : LocalSimilarity scaleOracle x y (1 / 360) := by
  intro sx sy th; simp only [scaleOracle]; constructor <;> ring

example : paLimit 3 (200 : ℝ) = 20 := by
  simp only [paLimit, paUp_succ, paDown_succ]; norm_num [paUp_zero, paDown_zero]

end Aegean.Properties.C01
