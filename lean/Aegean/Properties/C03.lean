/-
  C03 — Every output catalogue is internally consistent and reproducible.

  Full statement (properties.jsonl): blind and priorized fitting complete on every valid image,
  flagging rather than aborting on islands that cannot be fitted, and in every resulting catalogue
  (island, source) pairs and uuids are unique, the components of an island are numbered 0..n-1,
  a >= b > 0, -90 < pa <= 90, 0 <= ra < 360, |dec| <= 90, flags use only the seven documented bits,
  each uncertainty of a successfully fitted component is positive and finite or exactly -1, the
  sexagesimal strings agree with the decimal coordinates, and int_flux = peak_flux*a*b/(psf_a*psf_b)
  to within 1 %.  Island rows agree with component rows and with the detected pixels (component count,
  pixel count, peak pixel, extent).  Re-running on identical input yields an identical catalogue apart
  from uuids.

  What is proved here, for ALL inputs, about the model `Aegean.Model.C03` (tied to the code by the
  translator for `istart`/`group_size` and by `harness/corr_C03.py` for the rest):
  numbering (blind, priorized with the regenerated `Gen.C03.istart`, 0..n−1), ranges (`pa_limit`,
  `fix_shape`, RA wrap, int-flux identity), flag words, error masking, island summary, and that
  uuids are the only non-functional output of the model.  What is NOT a theorem (see
  `catalogue_consistent_partial`): that the optimiser terminates on every image, b > 0 and |dec| ≤ 90
  (third-party WCS), the agreement of strings and decimals (C17), IEEE rounding; these clauses are
  evaluated by the executable `Spec.C03` predicates on every row the real code writes.
-/
import Aegean.Generated.C03
import Aegean.Model.C03
import Aegean.Spec.C03
import Aegean.Proofs.C03
import Aegean.Proofs.C03Real
import Aegean.Proofs.C03Gen
import Aegean.Proofs.C03Box
import Aegean.Proofs.C03Flags

namespace Aegean.Properties.C03
open Aegean.Model.C03 Aegean.Proofs.C03

/-! ### 1. Numbering -/

/-- obligation on the regenerated batch start: batch `i` starts at island `i · group_size`
    (this is what does not hold for the pinned `istart=i`) -/
theorem gen_istart (i gs : Nat) : Gen.C03.istart i gs = i * gs := by
  unfold Gen.C03.istart
  first
    | rfl
    | exact Nat.mul_comm _ _
    | (simp only []; ring_nf)

theorem gen_groupSize_pos : 0 < Gen.C03.groupSize := by
  unfold Gen.C03.groupSize
  first
    | decide
    | (simp only []; omega)

/-- **blind_ids_unique**: in blind mode, for any number of islands with any component counts, and
    after any filtering of the rows (polarity filters, dropped islands), no (island, source) pair
    occurs twice. -/
theorem blind_ids_unique (ncomps : List Nat) (out : List (Nat × Nat)) (h : out.Sublist (blindRows ncomps)) :
    out.Nodup := by
  apply List.Nodup.sublist h
  exact rowsOf_nodup _ (sorted_nodup _ (enumFrom_ids_sorted ncomps 1))

/-- blind island numbers are 1, 2, …, N in detection order -/
theorem blind_islands_numbered (ncomps : List Nat) :
    (blindIslands ncomps).map (·.1) = List.range' 1 ncomps.length :=
  enumFrom_ids ncomps 1

/-- **refit_ids_unique** (general form): for ANY batch start satisfying `istart i gs = i·gs`, ANY
    group size `gs > 0`, ANY number of groups with ANY component counts, the priorized catalogue —
    in any order (`sorted(sources)`) — has no repeated (island, source) pair. -/
theorem refit_ids_unique_general (istart : Nat → Nat → Nat) (hI : ∀ i gs, istart i gs = i * gs)
    (gs : Nat) (hgs : 0 < gs) (groups : List Nat) (out : List (Nat × Nat))
    (h : out.Perm (refitRows istart gs groups)) : out.Nodup := by
  rw [h.nodup_iff]
  exact rowsOf_nodup _ (sorted_nodup _ (refit_ids_sorted istart hI gs hgs groups))

/-- **refit_ids_unique**: the same for the arithmetic regenerated from the source on this run -/
theorem refit_ids_unique (groups : List Nat) (out : List (Nat × Nat))
    (h : out.Perm (refitRows Gen.C03.istart Gen.C03.groupSize groups)) : out.Nodup :=
  refit_ids_unique_general Gen.C03.istart gen_istart Gen.C03.groupSize gen_groupSize_pos groups out h

/-- the batching loses and reorders nothing: every group is refitted exactly once -/
theorem batches_partition (gs : Nat) (groups : List Nat) : (batch gs groups).flatten = groups :=
  batch_flatten gs groups

/-- no batch is larger than the group size (what makes `i · gs` a safe start) -/
theorem batches_bounded (gs : Nat) (hgs : 0 < gs) (groups : List Nat) :
    ∀ b ∈ batch gs groups, b.length ≤ gs := batch_len gs hgs groups

/-- **components_numbered_0_to_n**: in the unfiltered catalogue of either mode the source numbers of
    an island with `n` components are exactly `0, 1, …, n − 1`. -/
theorem components_numbered_0_to_n_blind (ncomps : List Nat) (p : Nat × Nat) (hp : p ∈ blindIslands ncomps) :
    ((blindRows ncomps).filter (fun r => r.1 = p.1)).map (·.2) = List.range p.2 :=
  rowsOf_numbered _ (sorted_nodup _ (enumFrom_ids_sorted ncomps 1)) p hp

theorem components_numbered_0_to_n_refit (groups : List Nat) (p : Nat × Nat)
    (hp : p ∈ refitIslands Gen.C03.istart Gen.C03.groupSize groups) :
    ((refitRows Gen.C03.istart Gen.C03.groupSize groups).filter (fun r => r.1 = p.1)).map (·.2)
      = List.range p.2 :=
  rowsOf_numbered _ (sorted_nodup _
    (refit_ids_sorted Gen.C03.istart gen_istart Gen.C03.groupSize gen_groupSize_pos groups)) p hp

/-- the model's (island, source) lists satisfy the executable Spec used on the real catalogues -/
theorem blind_meets_spec (ncomps : List Nat) : Aegean.Spec.C03.idsOK (blindRows ncomps) = true := by
  simp only [Aegean.Spec.C03.idsOK, Bool.and_eq_true]
  exact ⟨(noDup_iff _).2 (blind_ids_unique ncomps _ (List.Sublist.refl _)), rowsOf_numbered_spec _⟩

theorem refit_meets_spec (groups : List Nat) :
    Aegean.Spec.C03.idsOK (refitRows Gen.C03.istart Gen.C03.groupSize groups) = true := by
  simp only [Aegean.Spec.C03.idsOK, Bool.and_eq_true]
  exact ⟨(noDup_iff _).2 (refit_ids_unique groups _ (List.Perm.refl _)), rowsOf_numbered_spec _⟩

/-- negation witness for the pinned `istart = i`: 21 single-component groups in batches of 20 give
    the pair (1, 0) twice (group 1 of batch 0 and group 0 of batch 1) -/
theorem refit_ids_pinned_duplicate :
    hasDup (refitRows (fun i _ => i) 20 (List.replicate 21 1)) = true := by decide

theorem refit_ids_pinned_not_unique : ¬ (refitRows (fun i _ => i) 20 (List.replicate 21 1)).Nodup :=
  (hasDup_iff _).1 refit_ids_pinned_duplicate

/-- non-vacuity: 45 groups, three batches, island numbers 0 … 44 -/
example : (refitIslands istartHand 20 (List.replicate 45 1)).map (·.1) = List.range 45 := by decide

/-- uuids in priorized mode are copied from the refitted input rows (`ns.uuid = s.uuid`): a sublist
    of distinct input uuids is distinct -/
theorem refit_uuids_unique {U : Type} (inputUuids out : List U) (hin : inputUuids.Nodup)
    (h : out.Sublist inputUuids) : out.Nodup := List.Nodup.sublist h hin

/-! ### 2. Ranges -/

/-- **pa_limit_range**: for every real `pa`, once the loops have run long enough (the `while` loops
    of the code run until their conditions fail), the result lies in (−90, 90] and is `pa` shifted by
    a whole number of half-turns. -/
theorem pa_limit_range (pa : ℝ) :
    ∃ N, ∀ fuel ≥ N, -90 < paLimit fuel pa ∧ paLimit fuel pa ≤ 90 ∧
      ∃ k : ℤ, paLimit fuel pa = pa + 180 * (k : ℝ) := by
  obtain ⟨N, hN⟩ := exists_nat_gt |pa|
  refine ⟨N, fun fuel hf => ?_⟩
  have h1 : (N : ℝ) ≤ (fuel : ℝ) := by exact_mod_cast hf
  have h2 := abs_lt.1 hN
  have h3 : (0 : ℝ) ≤ (fuel : ℝ) := by positivity
  exact paLimit_spec fuel pa (by linarith [h2.1]) (by linarith [h2.2])

/-- the values the code feeds to `pa_limit` (a bearing in [−180, 180], plus 90 from `fix_shape`)
    need at most two iterations -/
theorem pa_limit_range_two (pa : ℝ) (h1 : -450 < pa) (h2 : pa ≤ 450) :
    -90 < paLimit 2 pa ∧ paLimit 2 pa ≤ 90 ∧ ∃ k : ℤ, paLimit 2 pa = pa + 180 * (k : ℝ) :=
  paLimit_spec 2 pa (by norm_num; linarith) (by norm_num; linarith)

/-- **fix_shape_order**: afterwards a ≥ b, the pair {a, b} is the same, and the ellipse — as a
    quadratic form in the plane — is the same one (pa shifted by 90 exactly when the axes swap). -/
theorem fix_shape_order (s : Shape ℝ) :
    (fixShape s).b ≤ (fixShape s).a ∧
    (((fixShape s).a = s.a ∧ (fixShape s).b = s.b ∧ (fixShape s).errA = s.errA ∧ (fixShape s).errB = s.errB) ∨
     ((fixShape s).a = s.b ∧ (fixShape s).b = s.a ∧ (fixShape s).errA = s.errB ∧ (fixShape s).errB = s.errA)) ∧
    ∀ x y, ellQ (fixShape s).a (fixShape s).b (fixShape s).pa x y = ellQ s.a s.b s.pa x y := by
  unfold fixShape
  split_ifs with h
  · refine ⟨le_of_lt h, Or.inr ⟨rfl, rfl, rfl, rfl⟩, fun x y => ?_⟩
    simp only [R.real_ofNat]
    push_cast
    exact ellQ_swap s.a s.b s.pa x y
  · exact ⟨not_lt.1 h, Or.inl ⟨rfl, rfl, rfl, rfl⟩, fun _ _ => rfl⟩

/-- **ra_wrap_range**: a right ascension in [−360, 360) (what a WCS returns) is mapped into
    [0, 360) and is unchanged modulo 360. -/
theorem ra_wrap_range (ra : ℝ) (h1 : -360 ≤ ra) (h2 : ra < 360) :
    0 ≤ raWrap ra ∧ raWrap ra < 360 ∧ (raWrap ra = ra ∨ raWrap ra = ra + 360) := by
  unfold raWrap
  simp only [R.real_ofNat]
  push_cast
  split_ifs with h
  · exact ⟨by linarith, by linarith, Or.inr rfl⟩
  · exact ⟨not_lt.1 h, h2, Or.inl rfl⟩

/-! #### the same clauses for the definitions re-assembled from the regenerated source pieces -/

/-- obligation: the two `while` loops of the current `pa_limit` (bounds, steps and comparison kinds
    regenerated from source) are the loops of the model, for every fuel -/
theorem gen_paLimit (fuel : Nat) (pa : ℝ) : paLimitG fuel pa = paLimit fuel pa := by
  unfold paLimitG paLimit
  rw [upLoopG_eq, downLoopG_eq]

/-- obligation: the current `fix_shape` (test kind and swapped branch regenerated) is the model's -/
theorem gen_fixShape (s : Shape ℝ) : fixShapeG s = fixShape s := by
  unfold fixShapeG fixShape
  simp only [cmpLe, Gen.C03.fixClosed, Gen.C03.fixA, Gen.C03.fixB, Gen.C03.fixPa, Gen.C03.fixErrA,
    Gen.C03.fixErrB, fixClosedHand, fixAHand, fixBHand, fixPaHand, fixErrAHand, fixErrBHand, Nat.zero_ne_one, if_false]
  refine ite_decide_congr _ _ _ _ _ Iff.rfl ?_
  first | rfl | (congr 1 <;> first | rfl | (simp only [R.real_ofNat]; push_cast; ring))

/-- obligation: the current RA wrap is the model's -/
theorem gen_raWrap (ra : ℝ) : raWrapG ra = raWrap ra := by
  unfold raWrapG raWrap
  simp only [cmpLe, Gen.C03.wrapClosed, Gen.C03.raWrapBound, Gen.C03.raWrapNext, wrapClosedHand, raWrapBoundHand,
    raWrapNextHand, Nat.zero_ne_one, if_false]
  refine ite_decide_congr _ _ _ _ _ Iff.rfl ?_
  first | rfl | (simp only [R.real_ofNat]; push_cast; ring)

/-- **pa_limit_fuel_independent**: once the fuel covers |pa| the result no longer depends on it —
    the fuel-indexed recursion computes what the Python `while` loops compute on termination -/
theorem pa_limit_fuel_independent (pa : ℝ) :
    ∃ N, ∀ n ≥ N, ∀ m ≥ N, paLimitG n pa = paLimitG m pa := by
  obtain ⟨N, hN⟩ := pa_limit_range pa
  refine ⟨N, fun n hn m hm => ?_⟩
  obtain ⟨a1, a2, ka, ha⟩ := hN n hn
  obtain ⟨b1, b2, kb, hb⟩ := hN m hm
  rw [gen_paLimit, gen_paLimit]
  exact range_unique _ _ pa ka kb a1 a2 b1 b2 ha hb

/-- the regenerated `pa_limit` lands in (−90, 90] and preserves the angle modulo 180 -/
theorem pa_limit_range_gen (pa : ℝ) :
    ∃ N, ∀ fuel ≥ N, -90 < paLimitG fuel pa ∧ paLimitG fuel pa ≤ 90 ∧
      ∃ k : ℤ, paLimitG fuel pa = pa + 180 * (k : ℝ) := by
  obtain ⟨N, hN⟩ := pa_limit_range pa
  exact ⟨N, fun fuel hf => by rw [gen_paLimit]; exact hN fuel hf⟩

/-- the regenerated `fix_shape`: a ≥ b and the same ellipse -/
theorem fix_shape_order_gen (s : Shape ℝ) :
    (fixShapeG s).b ≤ (fixShapeG s).a ∧
    ∀ x y, ellQ (fixShapeG s).a (fixShapeG s).b (fixShapeG s).pa x y = ellQ s.a s.b s.pa x y := by
  rw [gen_fixShape]
  exact ⟨(fix_shape_order s).1, (fix_shape_order s).2.2⟩

theorem ra_wrap_range_gen (ra : ℝ) (h1 : -360 ≤ ra) (h2 : ra < 360) :
    0 ≤ raWrapG ra ∧ raWrapG ra < 360 ∧ (raWrapG ra = ra ∨ raWrapG ra = ra + 360) := by
  rw [gen_raWrap]; exact ra_wrap_range ra h1 h2

/-- **int_flux_identity_gen**: the `int_flux` expression and `get_beamarea_pix` as they stand in the
    source: on a locally uniform grid (sky size = k · pixel size) the catalogue's
    `int_flux` IS `peak·a·b/(psf_a·psf_b)` -/
theorem int_flux_identity_gen (peak sx sy cc pa pb k : ℝ) (hk : k ≠ 0) (hpa : pa ≠ 0) (hpb : pb ≠ 0) :
    Gen.C03.intFluxG peak sx sy cc Real.pi (Gen.C03.beamAreaG pa pb Real.pi)
      = peak * (k * (sx * cc)) * (k * (sy * cc)) / ((k * pa) * (k * pb)) := by
  have hpi : Real.pi ≠ 0 := Real.pi_ne_zero
  simp only [Gen.C03.intFluxG, Gen.C03.beamAreaG, intFluxGHand, beamAreaGHand, R.real_npow]
  field_simp

/-- the model's outputs satisfy the range clauses of the executable Spec -/
theorem ranges_meet_spec (s : Shape ℝ) (ha : 0 < s.a) (hb : 0 < s.b) (ra : ℝ) (h1 : -360 ≤ ra) (h2 : ra < 360) :
    Aegean.Spec.C03.shapeOK (fixShape s).a (fixShape s).b = true ∧
    Aegean.Spec.C03.raOK (raWrap ra) = true ∧
    ∃ N, ∀ fuel ≥ N, Aegean.Spec.C03.paOK (paLimit fuel (fixShape s).pa) = true := by
  obtain ⟨o1, o2, _⟩ := fix_shape_order s
  obtain ⟨r1, r2, _⟩ := ra_wrap_range ra h1 h2
  have hbpos : 0 < (fixShape s).b := by
    rcases o2 with ⟨_, e, _⟩ | ⟨_, e, _⟩ <;> rw [e] <;> assumption
  refine ⟨?_, ?_, ?_⟩
  · simp [Aegean.Spec.C03.shapeOK, Aegean.Spec.C03.fin, o1, hbpos]
  · simp [Aegean.Spec.C03.raOK, r1, r2]
  · obtain ⟨N, hN⟩ := pa_limit_range (fixShape s).pa
    refine ⟨N, fun fuel hf => ?_⟩
    obtain ⟨p1, p2, _⟩ := hN fuel hf
    simp [Aegean.Spec.C03.paOK, p1, p2]

/-- **int_flux_identity**: when sky sizes are pixel sizes times one scale `k` (a locally uniform
    pixel grid), the catalogue's `int_flux` IS `peak·a·b/(psf_a·psf_b)`; the 1 % of the statement
    is the room for a non-uniform grid. -/
theorem int_flux_identity (peak sx sy cc pa pb k : ℝ) (hk : k ≠ 0) (hpa : pa ≠ 0) (hpb : pb ≠ 0) :
    intFlux peak sx sy cc pa pb = peak * (k * (sx * cc)) * (k * (sy * cc)) / ((k * pa) * (k * pb)) :=
  intFlux_identity peak sx sy cc pa pb k hk hpa hpb

/-! ### 3. Flags -/

theorem estimate_lt (n m : Nat) : estimateIsFlag n m < 128 := by
  rcases estimate_cases n m with h | h | h <;> rw [h] <;> decide

theorem summit_lt (f : Nat) (hf : f < 128) (mx : Bool) : summitFlag f mx < 128 := by
  unfold summitFlag
  split
  · exact lt128_or (lt128_or hf (show NOTFIT < 128 by decide)) (show FIXED2PSF < 128 by decide)
  · exact hf

theorem fitIs_lt (en eb su : Bool) : fitIsFlag en eb su < 128 := by
  cases en <;> cases eb <;> cases su <;> decide

theorem component_lt (a b : Nat) (ha : a < 128) (hb : b < 128) (w : Bool) : componentFlags a b w < 128 := by
  unfold componentFlags
  split
  · exact lt128_or ha hb
  · exact lt128_or (lt128_or ha hb) (show WCSERR < 128 by decide)

/-- **flags_documented_bits** (blind): every flag word written in blind mode is a union of the seven
    documented bits, for every island size, shape and fit outcome. -/
theorem flags_documented_bits_blind (nn ms : Nat) (mx en eb su wf : Bool) :
    Aegean.Spec.C03.flagsOK (blindFlags nn ms mx en eb su wf) = true := by
  simp only [Aegean.Spec.C03.flagsOK, decide_eq_true_eq]
  exact component_lt _ _ (fitIs_lt en eb su) (summit_lt _ (estimate_lt nn ms) mx) wf

/-- the same for every component of an island, whatever `max_summits`, the component count and the
    fit outcome (the flag words the correspondence compares with the catalogue) -/
theorem flags_documented_bits_island (nn ms : Nat) (mxs : Option Nat) (nc : Nat) (eb su : Bool)
    (wcs : List Bool) :
    ∀ f ∈ blindIslandFlags nn ms mxs nc eb su wcs, Aegean.Spec.C03.flagsOK f = true := by
  intro f hf
  simp only [blindIslandFlags, List.mem_map] at hf
  obtain ⟨j, _, rfl⟩ := hf
  exact flags_documented_bits_blind _ _ _ _ _ _ _

theorem refitFlags_eq (inp : Nat) (nf wf : Bool) (stage : Nat) :
    refitFlags inp nf wf stage =
      if stage < 2 then (componentFlags inp (if nf = true then NOTFIT else 0) wf ||| PRIORIZED) ||| FIXED2PSF
      else componentFlags inp (if nf = true then NOTFIT else 0) wf ||| PRIORIZED := rfl

/-- **flags_documented_bits** (priorized): provided the input catalogue's flag word uses only the
    documented bits, so does every output flag word. -/
theorem flags_documented_bits_refit (inp : Nat) (hin : inp < 128) (nf wf : Bool) (stage : Nat) :
    Aegean.Spec.C03.flagsOK (refitFlags inp nf wf stage) = true := by
  simp only [Aegean.Spec.C03.flagsOK, decide_eq_true_eq]
  have h : componentFlags inp (if nf = true then NOTFIT else 0) wf < 128 :=
    component_lt _ _ hin (by split <;> decide) wf
  rw [refitFlags_eq]
  by_cases hs : stage < 2
  · rw [if_pos hs]
    exact lt128_or (lt128_or h (show PRIORIZED < 128 by decide)) (show FIXED2PSF < 128 by decide)
  · rw [if_neg hs]
    exact lt128_or h (show PRIORIZED < 128 by decide)

/-! #### the same for the flag data-flow re-assembled from the regenerated source pieces
(`Proofs/C03Flags.lean`: `gen_flag_values`, `gen_estimateIsFlag`, `gen_summitFlag`, `gen_fitIsFlag`,
`gen_componentFlags`, `gen_refitFlags`, `gen_notFitMask`, `gen_blindIslandFlags` are the obligations
"regenerated = model") -/

/-- the constants of flags.py as they stand in the source are seven distinct single bits whose union
    is 127: "the seven documented bits" -/
theorem flag_constants_are_seven_bits :
    [Gen.C03.flagFITERRSMALL, Gen.C03.flagFITERR, Gen.C03.flagFIXED2PSF, Gen.C03.flagFIXEDCIRCULAR,
     Gen.C03.flagNOTFIT, Gen.C03.flagWCSERR, Gen.C03.flagPRIORIZED] = [1, 2, 4, 8, 16, 32, 64] := by
  obtain ⟨h1, h2, h3, h4, h5, h6, h7⟩ := gen_flag_values
  rw [h1, h2, h3, h4, h5, h6, h7]; rfl

/-- **flags_documented_bits** for the regenerated blind flag flow: every component of every island -/
theorem flags_documented_bits_island_gen (nn ms : Nat) (mxs : Option Nat) (nc : Nat) (eb su : Bool)
    (wcs : List Bool) :
    ∀ f ∈ blindIslandFlagsG nn ms mxs nc eb su wcs, Aegean.Spec.C03.flagsOK f = true := by
  rw [gen_blindIslandFlags]; exact flags_documented_bits_island nn ms mxs nc eb su wcs

/-- … and for the regenerated marking of refitted rows (input flag word < 128) -/
theorem flags_documented_bits_refit_gen (inp : Nat) (hin : inp < 128) (nf wf : Bool) (stage : Nat) :
    Aegean.Spec.C03.flagsOK (refitFlagsG inp nf wf stage) = true := by
  rw [gen_refitFlags]; exact flags_documented_bits_refit inp hin nf wf stage

/-- non-vacuity: a 5-pixel island with two summits and `max_summits = 1` -/
example : blindIslandFlagsG 5 3 (some 1) 2 true true [] = [4, 20] := by decide

/-- blind mode never sets PRIORIZED or FIXEDCIRCULAR; a refitted row always carries PRIORIZED -/
theorem blind_never_priorized (nn ms : Nat) (mx en eb su wf : Bool) :
    blindFlags nn ms mx en eb su wf &&& (PRIORIZED ||| FIXEDCIRCULAR) = 0 := by
  unfold blindFlags
  rcases estimate_cases nn ms with h | h | h <;> rw [h] <;>
    cases mx <;> cases en <;> cases eb <;> cases su <;> cases wf <;> decide

theorem refit_always_priorized (inp : Nat) (nf wf : Bool) (stage : Nat) :
    (refitFlags inp nf wf stage).testBit 6 = true := by
  have key : ∀ x : Nat, (x ||| PRIORIZED).testBit 6 = true := by
    intro x
    rw [Nat.testBit_or, show PRIORIZED.testBit 6 = true by decide, Bool.or_true]
  rw [refitFlags_eq]
  by_cases hs : stage < 2
  · rw [if_pos hs, Nat.testBit_or, key, Bool.true_or]
  · rw [if_neg hs]; exact key _

/-- a component that is NOTFIT or FITERR has every uncertainty masked (both versions of `errors`) -/
theorem unfit_all_masked (i : ErrIn) (h : (i.flags &&& (NOTFIT ||| FITERR)) ≠ 0) :
    errorsFixed i = allMasked ∧ errorsPinned i = allMasked := by
  simp [errorsFixed, errorsPinned, early, h]

/-- the bits that make `fitting.errors` mask everything are, in the source, NOTFIT | FITERR -/
theorem unfit_all_masked_gen (i : ErrIn) (h : (i.flags &&& notFitMaskG) ≠ 0) :
    errorsFixed i = allMasked ∧ errorsPinned i = allMasked := by
  rw [gen_notFitMask] at h; exact unfit_all_masked i h

/-! ### 4. Error masking -/

/-- **errors_valid**: with the repaired `errors()` every reported uncertainty is positive and finite
    or exactly −1 — for every stderr lmfit can hand over (None, NaN, ±inf, the −2 filler, 0), every
    vary pattern, every flag word, and WHATEVER the sky conversions return. -/
theorem errors_valid (i : ErrIn) : (errorsFixed i).valid = true := by
  simp only [errorsFixed]
  split_ifs <;>
    simp [ErrOut.valid, allMasked, valid_masked, sanitise_valid]

/-- the pinned `errors()` is valid only under the hypotheses the proof forces: `err_amp` itself is
    positive and finite (it is copied unguarded) and every conversion that is taken returns a
    positive finite number (a finite but huge pixel error steps off the sky: NaN) -/
theorem errors_valid_pinned_needs (i : ErrIn) (hAmp : i.errAmp = .pos)
    (hRa : i.convRa = .pos) (hDec : i.convDec = .pos) (hPa : i.convPa = .pos)
    (hA : i.convA = .pos) (hB : i.convB = .pos) (hInt : i.convInt = .pos) :
    (errorsPinned i).valid = true := by
  simp only [errorsPinned, hAmp, hRa, hDec, hPa, hA, hB, hInt]
  split_ifs <;> simp [ErrOut.valid, allMasked, valid_masked, valid_pos]

/-- negation witnesses for the pinned code: a NaN `err_amp` is reported as NaN; the −2 filler of the
    failed-inverse path is reported as −2 (class `neg`); a NaN conversion is reported as NaN -/
theorem errors_pinned_leaks :
    (errorsPinned ⟨0, .nan, .pos, .pos, .pos, .pos, .pos, true, true, true, true, .pos, .pos, .pos, .pos, .pos, .pos⟩).peak = .val .nan ∧
    (errorsPinned ⟨0, .neg, .neg, .neg, .neg, .neg, .neg, true, true, true, true, .pos, .pos, .pos, .pos, .pos, .pos⟩).peak = .val .neg ∧
    (errorsPinned ⟨0, .pos, .pos, .pos, .pos, .pos, .pos, true, true, true, true, .nan, .nan, .pos, .pos, .pos, .pos⟩).ra = .val .nan := by
  decide

/-- the repair changes nothing where the pinned code was already right -/
theorem errors_fixed_conservative (i : ErrIn) (h : (errorsPinned i).valid = true) :
    errorsFixed i = errorsPinned i := by
  simp only [errorsPinned] at h
  simp only [errorsFixed, errorsPinned]
  split_ifs at h ⊢ <;>
    simp_all [ErrOut.valid, Out.valid, sanitise_of_valid, isPos_sanitise]

/-- **copy_back_valid**: priorized copy-back keeps validity under the hypothesis the proof forces — the
    input catalogue row's own uncertainties are valid.  (The copied uncertainties are not fit products:
    that they equal the input's is C05's clause; a row whose own err_* are NaN comes back with NaN.) -/
theorem copy_back_valid (stage : Nat) (fit inp : ErrOut) (hf : fit.valid = true) (hi : inp.valid = true) :
    (copyBack stage fit inp).valid = true := by
  unfold copyBack
  simp only [ErrOut.valid, Bool.and_eq_true] at hf hi ⊢
  split_ifs <;> simp_all

/-- what the stage FITS stays valid whatever the input row holds: the peak flux and integrated flux
    always, the position from stage 2 on, the shape at stage 3 -/
theorem copy_back_fitted_valid (stage : Nat) (fit inp : ErrOut) (hf : fit.valid = true) :
    (copyBack stage fit inp).peak.valid = true ∧ (copyBack stage fit inp).int.valid = true ∧
    (2 ≤ stage → (copyBack stage fit inp).ra.valid = true ∧ (copyBack stage fit inp).dec.valid = true) ∧
    (3 ≤ stage → (copyBack stage fit inp).a.valid = true ∧ (copyBack stage fit inp).b.valid = true ∧
      (copyBack stage fit inp).pa.valid = true) := by
  simp only [ErrOut.valid, Bool.and_eq_true] at hf
  unfold copyBack
  refine ⟨?_, ?_, ?_, ?_⟩
  · split_ifs <;> simp_all
  · split_ifs <;> simp_all
  · intro h; split_ifs <;> first | omega | simp_all
  · intro h; split_ifs <;> first | omega | simp_all

/-- what the stage does not fit comes back as the input row had it -/
theorem copy_back_copies (stage : Nat) (fit inp : ErrOut) :
    (stage < 2 → (copyBack stage fit inp).ra = inp.ra ∧ (copyBack stage fit inp).dec = inp.dec) ∧
    (stage < 3 → (copyBack stage fit inp).a = inp.a ∧ (copyBack stage fit inp).b = inp.b ∧
      (copyBack stage fit inp).pa = inp.pa) := by
  unfold copyBack
  refine ⟨?_, ?_⟩
  · intro h; split_ifs <;> first | omega | simp_all
  · intro h; split_ifs <;> first | omega | simp_all

/-! ### 5. Island summary -/

/-- **summary_consistent**: the island row's component count is the number of component rows of that
    island, its pixel count is the number of detected pixels, its widths are the extent's, every
    detected pixel lies inside the extent, and the peak is the value of one of the detected pixels:
    the largest if the island has a non-negative pixel, else the smallest (negative island). -/
theorem summary_consistent (ncomp isle xmin xmax ymin ymax : Nat) (pix : List Pix)
    (hbox : ∀ p ∈ pix, inBox xmin xmax ymin ymax p = true) (hne : pix ≠ []) :
    let s := islandSummary ncomp xmin xmax ymin ymax pix
    s.components = (compRows isle ncomp).length ∧
    s.pixels = pix.length ∧
    s.xWidth = s.extent.2.1 - s.extent.1 ∧ s.yWidth = s.extent.2.2.2 - s.extent.2.2.1 ∧
    (∀ p ∈ pix, s.extent.1 ≤ p.x ∧ p.x < s.extent.2.1 ∧ s.extent.2.2.1 ≤ p.y ∧ p.y < s.extent.2.2.2) ∧
    ∃ pk, s.peak = some pk ∧ (∃ p ∈ pix, p.v = pk) ∧
      ((∃ p ∈ pix, 0 ≤ p.v) → ∀ p ∈ pix, p.v ≤ pk) ∧
      ((∀ p ∈ pix, p.v < 0) → ∀ p ∈ pix, pk ≤ p.v) := by
  have hv : pix.map (·.v) ≠ [] := by simpa using hne
  obtain ⟨m, hm⟩ := maxOf_isSome _ hv
  obtain ⟨n, hn⟩ := minOf_isSome _ hv
  obtain ⟨m1, m2⟩ := maxOf_spec _ m hm
  obtain ⟨n1, n2⟩ := minOf_spec _ n hn
  refine ⟨by simp [islandSummary, compRows], rfl, rfl, rfl, ?_, ?_⟩
  · intro p hp
    have := hbox p hp
    simp only [inBox, Bool.and_eq_true, decide_eq_true_eq] at this
    simp only [islandSummary]; omega
  · simp only [islandSummary, peakOf, hm]
    by_cases hneg : m < 0
    · simp only [hneg, if_true, hn]
      refine ⟨n, rfl, by simpa using n1, ?_, ?_⟩
      · rintro ⟨p, hp, h0⟩
        have := m2 p.v (List.mem_map.2 ⟨p, hp, rfl⟩); omega
      · intro _ p hp; exact n2 p.v (List.mem_map.2 ⟨p, hp, rfl⟩)
    · simp only [hneg, if_false]
      refine ⟨m, rfl, by simpa using m1, ?_, ?_⟩
      · intro _ p hp; exact m2 p.v (List.mem_map.2 ⟨p, hp, rfl⟩)
      · intro hall
        obtain ⟨p, hp, e⟩ := List.mem_map.1 m1
        have := hall p hp; omega

/-- **peak_pixel_consistent**: the pixel the island row is positioned at is one of the detected
    pixels, it holds exactly the island's `peak_flux`, and that value is the largest detected value
    for an island with a non-negative pixel and the smallest (most negative) one for an all-negative
    island — never the `nanargmax` of a negative island. -/
theorem peak_pixel_consistent (ncomp xmin xmax ymin ymax : Nat) (pix : List Pix) (hne : pix ≠ []) :
    ∃ p, peakPix pix = some p ∧ p ∈ pix ∧
      (islandSummary ncomp xmin xmax ymin ymax pix).peak = some p.v ∧
      ((∃ q ∈ pix, 0 ≤ q.v) → ∀ q ∈ pix, q.v ≤ p.v) ∧
      ((∀ q ∈ pix, q.v < 0) → ∀ q ∈ pix, p.v ≤ q.v) := by
  have hv : pix.map (·.v) ≠ [] := by simpa using hne
  obtain ⟨m, hm⟩ := maxOf_isSome _ hv
  obtain ⟨n, hn⟩ := minOf_isSome _ hv
  obtain ⟨m1, m2⟩ := maxOf_spec _ m hm
  obtain ⟨n1, n2⟩ := minOf_spec _ n hn
  -- the peak value and a pixel that holds it
  have key : ∀ pk, peakOf (pix.map (·.v)) = some pk → (∃ q ∈ pix, q.v = pk) →
      ∃ p, peakPix pix = some p ∧ p ∈ pix ∧ p.v = pk := by
    intro pk hpk hex
    have hs : (pix.find? (fun p => decide (p.v = pk))).isSome = true := by
      rw [List.find?_isSome]
      obtain ⟨q, hq, e⟩ := hex
      exact ⟨q, hq, by simpa using e⟩
    obtain ⟨p, hp⟩ := Option.isSome_iff_exists.1 hs
    refine ⟨p, by simp only [peakPix, hpk]; exact hp, List.mem_of_find?_eq_some hp, ?_⟩
    simpa using List.find?_some hp
  by_cases hneg : m < 0
  · have hpk : peakOf (pix.map (·.v)) = some n := by simp [peakOf, hm, hneg, hn]
    obtain ⟨q0, hq0, e0⟩ := List.mem_map.1 n1
    obtain ⟨p, h1, h2, h3⟩ := key n hpk ⟨q0, hq0, e0⟩
    refine ⟨p, h1, h2, by simp [islandSummary, hpk, h3], ?_, ?_⟩
    · rintro ⟨q, hq, h0⟩
      have := m2 q.v (List.mem_map.2 ⟨q, hq, rfl⟩); omega
    · intro _ q hq; rw [h3]; exact n2 q.v (List.mem_map.2 ⟨q, hq, rfl⟩)
  · have hpk : peakOf (pix.map (·.v)) = some m := by simp [peakOf, hm, hneg]
    obtain ⟨q0, hq0, e0⟩ := List.mem_map.1 m1
    obtain ⟨p, h1, h2, h3⟩ := key m hpk ⟨q0, hq0, e0⟩
    refine ⟨p, h1, h2, by simp [islandSummary, hpk, h3], ?_, ?_⟩
    · intro _ q hq; rw [h3]; exact m2 q.v (List.mem_map.2 ⟨q, hq, rfl⟩)
    · intro hall
      have := hall q0 hq0; omega

/-- **pixel_count_le_extent_area** (pigeonhole): detected pixels sit at distinct positions inside the
    extent, so the island row's `pixels` is at most `x_width · y_width` -/
theorem pixel_count_le_extent_area (ncomp xmin xmax ymin ymax : Nat) (pix : List Pix)
    (hbox : ∀ p ∈ pix, inBox xmin xmax ymin ymax p = true)
    (hnd : (pix.map (fun p => (p.x, p.y))).Nodup) :
    (islandSummary ncomp xmin xmax ymin ymax pix).pixels ≤
      (islandSummary ncomp xmin xmax ymin ymax pix).xWidth * (islandSummary ncomp xmin xmax ymin ymax pix).yWidth :=
  pixels_le_area xmin xmax ymin ymax pix hbox hnd

/-- **extent_is_tight_box**: when the extent is the tight box of the detected pixels (what
    `find_islands` hands over), every pixel is inside it, each of its four sides is touched by a
    detected pixel, and the pixel count is at most its area -/
theorem extent_is_tight_box (ncomp : Nat) (pix : List Pix) (x0 x1 y0 y1 : Nat)
    (hb : tightBox pix = some (x0, x1, y0, y1)) (hnd : (pix.map (fun p => (p.x, p.y))).Nodup) :
    (∀ p ∈ pix, inBox x0 x1 y0 y1 p = true) ∧
    (∃ p ∈ pix, p.x = x0) ∧ (∃ p ∈ pix, p.x + 1 = x1) ∧ (∃ p ∈ pix, p.y = y0) ∧ (∃ p ∈ pix, p.y + 1 = y1) ∧
    (islandSummary ncomp x0 x1 y0 y1 pix).pixels ≤ (x1 - x0) * (y1 - y0) := by
  obtain ⟨h1, h2, h3, h4, h5⟩ := tightBox_spec pix x0 x1 y0 y1 hb
  have hin : ∀ p ∈ pix, inBox x0 x1 y0 y1 p = true := by
    intro p hp
    have := h1 p hp
    simp only [inBox, Bool.and_eq_true, decide_eq_true_eq]; omega
  exact ⟨hin, h2, h3, h4, h5, pixels_le_area x0 x1 y0 y1 pix hin hnd⟩

/-- a non-empty pixel list has a tight box -/
theorem tight_box_exists (pix : List Pix) (hne : pix ≠ []) : ∃ b, tightBox pix = some b := by
  cases h : tightBox pix with
  | none => exact absurd ((tightBox_none pix).1 h) hne
  | some b => exact ⟨b, rfl⟩

/-! ### 6. Determinism -/

/-- **deterministic**: the model's catalogue is a function of its input; the uuid stream influences
    nothing but the uuid column — two runs on the same input agree apart from uuids. -/
theorem deterministic (u1 u2 : Nat → Nat) (isles : List (Nat × Nat)) (flagOf : Nat → Nat → Nat) :
    eraseUuid (blindCatalogue u1 isles flagOf) = eraseUuid (blindCatalogue u2 isles flagOf) := by
  simp [eraseUuid, blindCatalogue, List.map_map, Function.comp_def]

/-- with an injective uuid stream (what `uuid4` is assumed to be) the uuids of a catalogue are distinct -/
theorem blind_uuids_unique (u : Nat → Nat) (hu : Function.Injective u) (isles : List (Nat × Nat))
    (flagOf : Nat → Nat → Nat) : ((blindCatalogue u isles flagOf).map (·.uuid)).Nodup := by
  simp only [blindCatalogue, List.map_map, Function.comp_def]
  have : (List.map (fun x : Nat × Nat × Nat => u x.1) (enumFrom 0 (rowsOf isles)))
      = ((enumFrom 0 (rowsOf isles)).map (·.1)).map u := by simp [List.map_map, Function.comp_def]
  rw [this]
  exact List.Nodup.map hu (sorted_nodup _ (enumFrom_ids_sorted _ 0))

/-! #### reproducibility as the harness checks it: a run is a function of the VALUES it is given

Every model function above (`blindRows`, `refitRows`, `blindIslandFlags`, `refitFlags`, `errorsFixed`,
`copyBack`, `islandSummary`, `peakPix`, `paLimitG`, `fixShapeG`, `raWrapG`) is a Lean function of its
explicit arguments — component counts, island sizes, lmfit outcomes, stderr classes, pixel lists, the
input rows' flag words and uuids.  There is no other argument: no earlier run, no object identity, no
cache.  For the model this is by construction (`run_function_of_values` is `congrArg`); the content is
in the heap model of the caller's catalogue, where the pinned behaviour (resize in place) is NOT a
function of the values passed in the second call.  What remains only sampled on the real pipeline
(in-process re-runs, interleaved histories A/B/A/B, same file rewritten, warm vs fresh interpreter,
one catalogue list refitted twice, input list compared before/after): that lmfit/MINPACK, numpy,
scipy.ndimage, astropy.wcs and the module/class-level state of AegeanTools (`global_data`, any cache)
give the same numbers for the same input — e.g. the covariance-cache mutant is outside the model. -/

/-- **priorized_keeps_callers_catalogue**: the repaired run leaves the caller's objects untouched -/
theorem priorized_keeps_callers_catalogue {Out : Type} (rz : Src → Src) (fit : List Src → Out) (heap : List Src) :
    (runFixed rz fit heap).1 = heap := rfl

/-- **priorized_rerun_identical**: refitting the same catalogue object again gives the same catalogue,
    whatever `resize` and the fit do -/
theorem priorized_rerun_identical {Out : Type} (rz : Src → Src) (fit : List Src → Out) (heap : List Src) :
    (runFixed rz fit (runFixed rz fit heap).1).2 = (runFixed rz fit heap).2 := rfl

/-- **run_function_of_values**: two catalogue objects holding equal values give equal catalogues
    (by construction of the model: there is nothing else a run could depend on) -/
theorem run_function_of_values {P H O Out : Type} (run : RunInput P H O → Out) (i j : RunInput P H O)
    (hp : i.pixels = j.pixels) (hh : i.header = j.header) (ho : i.options = j.options)
    (hc : i.catalogue = j.catalogue) : run i = run j := by
  cases i; cases j; simp_all

/-- the pinned run is a function of the values only when `resize` is idempotent (equal catalogue and
    image psf): the second run sees the heap the first one left behind -/
theorem pinned_rerun (rz : Src → Src) {Out : Type} (fit : List Src → Out) (heap : List Src) :
    (runPinned rz fit (runPinned rz fit heap).1).2 = fit ((heap.map rz).map rz) := rfl

theorem pinned_rerun_same_of_idempotent {Out : Type} (rz : Src → Src) (hid : ∀ s, rz (rz s) = rz s)
    (fit : List Src → Out) (heap : List Src) :
    (runPinned rz fit (runPinned rz fit heap).1).2 = (runPinned rz fit heap).2 := by
  simp [runPinned, List.map_map, Function.comp_def, hid]

/-- negation witness for the pinned code: a 40″ source from a 40″-psf catalogue refitted on a 60″
    image (resize adds the psf difference to `a`; psf is not updated) — 60 the first time, 80 the second -/
theorem pinned_rerun_differs :
    let rz : Src → Src := fun s => { s with a := s.a + 20, b := s.b + 15 }
    (runPinned rz id (runPinned rz id [⟨40, 30, 40, 1⟩]).1).2 ≠ (runPinned rz id [⟨40, 30, 40, 1⟩]).2 := by
  decide

/-- The property as a whole, for the part the model carries.  PARTIAL: fit completion on arbitrary
    images, b > 0, |dec| ≤ 90, string/decimal agreement and the 1 % int-flux tolerance on a
    non-uniform grid are not theorems; they are checked by `Spec.C03` on every row of every
    catalogue the correspondence harness makes the real code produce. -/
theorem catalogue_consistent_partial (ncomps groups : List Nat) (i : ErrIn)
    (nn ms : Nat) (mx en eb su wf : Bool) :
    Aegean.Spec.C03.idsOK (blindRows ncomps) = true ∧
    Aegean.Spec.C03.idsOK (refitRows Gen.C03.istart Gen.C03.groupSize groups) = true ∧
    Aegean.Spec.C03.flagsOK (blindFlags nn ms mx en eb su wf) = true ∧
    (errorsFixed i).valid = true :=
  ⟨blind_meets_spec ncomps, refit_meets_spec groups, flags_documented_bits_blind nn ms mx en eb su wf,
   errors_valid i⟩

end Aegean.Properties.C03
