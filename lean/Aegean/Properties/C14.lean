/-
  C14 — AeRes model images are the catalogue's Gaussians; subtraction closes the loop.

  The theorems are about `Aegean.Model.C14.makeModel / maskModel / residualR` instantiated with the
  leaves `Gen.C14.xoff / yoff / modelVal / gauss` that the translator regenerates from
  `AeRes.make_model` and `fitting.elliptical_gaussian` on every run.  Numeric statements are over ℝ
  (float32 accumulation is the named gap); structural statements (skipping, masking) hold for
  every interpretation of the arithmetic, including `Float`.

  The WCS enters as an arbitrary oracle `wcs : Wcs α` (what `sky2pix_ellipse` returns); nothing
  is assumed about it.
-/
import Aegean.Generated.C14
import Aegean.Model.C14
import Aegean.Proofs.C14

set_option linter.unusedTactic false
set_option linter.unusedSimpArgs false
set_option linter.unreachableTactic false

namespace Aegean.Properties.C14
open Aegean.Model.C14

/-- the regenerated leaves, as the model's parameter -/
def genL {α : Type} [R α] : Leaves α :=
  { xoff := Gen.C14.xoff, yoff := Gen.C14.yoff, modelVal := Gen.C14.modelVal,
    skipLoX := Gen.C14.skipLoX, skipHiX := Gen.C14.skipHiX, skipOpsX := Gen.C14.skipOpsX,
    skipLoY := Gen.C14.skipLoY, skipHiY := Gen.C14.skipHiY, skipOpsY := Gen.C14.skipOpsY,
    thrFrac := Gen.C14.thrFrac, thrSigma := Gen.C14.thrSigma, maskOp := Gen.C14.maskOp,
    residPlus := Gen.C14.residPlus }

/-- FWHM2CC as the tree under test defines it: the regenerated expression at `ln2 = log 2` -/
noncomputable def kG : ℝ := Gen.C14.fwhm2ccOf (Real.log 2)

/-! ### Obligations on the regenerated arithmetic (these break if the source changes meaning) -/

/-- cos / sin of the position angle given in degrees -/
noncomputable def cs (theta : ℝ) : ℝ := Real.cos (theta * (Real.pi / 180))
noncomputable def sn (theta : ℝ) : ℝ := Real.sin (theta * (Real.pi / 180))

theorem cs_sq_add_sn_sq (theta : ℝ) : cs theta ^ 2 + sn theta ^ 2 = 1 := by
  unfold cs sn; exact Real.cos_sq_add_sin_sq _

/-- the quadratic form in the exponent of `elliptical_gaussian`, as a function of the offset `(u, v)`
    from the centre (u along numpy axis 0) -/
noncomputable def quad (u v a b theta : ℝ) : ℝ :=
  (u * cs theta + v * sn theta) ^ 2 / a ^ 2 + (u * sn theta - v * cs theta) ^ 2 / b ^ 2

theorem quad_nonneg (u v a b theta : ℝ) : 0 ≤ quad u v a b theta := by
  unfold quad; positivity

/-- `elliptical_gaussian` is `amp · exp(−Q/2)` with `Q` the rotated quadratic form.
    (The hand definitions are unfolded as well, so that the proof also compiles when the translator reports
    UNTRANSLATABLE and `Gen.C14.gauss` is the fallback `gaussHand`.) -/
theorem gauss_eq (x y amp xo yo sx sy theta : ℝ) :
    Gen.C14.gauss x y amp xo yo sx sy theta
      = amp * Real.exp (-(quad (x - xo) (y - yo) sx sy theta) / 2) := by
  simp only [Gen.C14.gauss, gaussHand, quad, cs, sn, R.real_radians, R.real_sin, R.real_cos, R.real_exp,
    R.real_npow, R.real_ofNat, R.real_ofSci]
  have h5 : (OfScientific.ofScientific 5 true 1 : ℝ) = 1 / 2 := by norm_num
  try simp only [h5]
  have key : ∀ a b : ℝ, a = b → amp * Real.exp a = amp * Real.exp b := fun a b h => by rw [h]
  first
    | (apply key; push_cast; ring)
    | (rw [mul_comm (Real.exp _) amp]; apply key; push_cast; ring)

theorem xoff_eq (sx sy theta : ℝ) :
    Gen.C14.xoff sx sy theta = 5 * (|sx * cs theta| + |sy * sn theta|) := by
  simp only [Gen.C14.xoff, xoffHand, cs, sn, R.real_radians, R.real_sin, R.real_cos, R.real_abs, R.real_ofNat]
  push_cast; ring

theorem yoff_eq (sx sy theta : ℝ) :
    Gen.C14.yoff sx sy theta = 5 * (|sx * sn theta| + |sy * cs theta|) := by
  simp only [Gen.C14.yoff, yoffHand, cs, sn, R.real_radians, R.real_sin, R.real_cos, R.real_abs, R.real_ofNat]
  push_cast; ring

/-- the value `make_model` adds, in canonical form: centre `(xo−1, yo−1)`, sigmas `sx·FWHM2CC`, `sy·FWHM2CC`,
    `x` = row index first, `y` = column index second, amplitude = the catalogued peak.  Proved by unfolding
    whatever the translator produced (the regenerated call into the regenerated Gaussian, or either fallback). -/
theorem modelVal_canon (k peak xo yo sx sy theta x y : ℝ) :
    Gen.C14.modelVal k peak xo yo sx sy theta x y
      = peak * Real.exp (-(quad (x - (xo - 1)) (y - (yo - 1)) (sx * k) (sy * k) theta) / 2) := by
  simp only [Gen.C14.modelVal, modelValHand, Gen.C14.gauss, gaussHand, quad, cs, sn, R.real_radians, R.real_sin,
    R.real_cos, R.real_exp, R.real_npow, R.real_ofNat, R.real_ofSci]
  have h5 : (OfScientific.ofScientific 5 true 1 : ℝ) = 1 / 2 := by norm_num
  try simp only [h5]
  have key : ∀ a b : ℝ, a = b → peak * Real.exp a = peak * Real.exp b := fun a b h => by rw [h]
  first
    | (apply key; push_cast; ring)
    | (rw [mul_comm (Real.exp _) peak]; apply key; push_cast; ring)

/-- the call convention of `make_model`, stated against the regenerated Gaussian -/
theorem modelVal_eq (k peak xo yo sx sy theta x y : ℝ) :
    Gen.C14.modelVal k peak xo yo sx sy theta x y
      = Gen.C14.gauss x y peak (xo - 1) (yo - 1) (sx * k) (sy * k) theta := by
  rw [modelVal_canon, gauss_eq]

/-! #### the sliced pieces: FWHM2CC, skip rule, mask thresholds, add / subtract dispatch -/

/-- `FWHM2CC = 1 / (2·sqrt(2·ln 2))` -/
theorem kG_eq : kG = (fwhm2cc : ℝ) := by
  rw [fwhm2cc_real]
  simp only [kG, Gen.C14.fwhm2ccOf, fwhm2ccOfHand, R.real_ofNat, R.real_sqrt]
  first
    | rfl
    | (push_cast; rfl)
    | (push_cast; ring)

theorem kG_pos : 0 < kG := by rw [kG_eq]; exact fwhm2cc_pos
theorem kG_lt_one : kG < 1 := by rw [kG_eq]; exact fwhm2cc_lt_one

theorem skipLo_eq (n : ℝ) : Gen.C14.skipLoX n = 1 / 2 ∧ Gen.C14.skipLoY n = 1 / 2 := by
  simp only [Gen.C14.skipLoX, Gen.C14.skipLoY, skipLoHand, R.real_ofSci, R.real_ofNat]
  constructor <;> norm_num

theorem skipHi_eq (n : ℝ) : Gen.C14.skipHiX n = n + 1 / 2 ∧ Gen.C14.skipHiY n = n + 1 / 2 := by
  simp only [Gen.C14.skipHiX, Gen.C14.skipHiY, skipHiHand, R.real_ofSci, R.real_ofNat]
  constructor <;> first | (norm_num; done) | (norm_num; ring) | ring

/-- the chain is `LO ≤ xo < HI` on both axes -/
theorem skipOps_eq : Gen.C14.skipOpsX = 2 ∧ Gen.C14.skipOpsY = 2 := by
  simp only [Gen.C14.skipOpsX, Gen.C14.skipOpsY, skipOpsHand]; decide

/-- the mask thresholds are `frac·peak` and `sigma·local_rms`, compared with `≥` -/
theorem thr_eq (frac sigma peak rms : ℝ) :
    Gen.C14.thrFrac frac sigma peak rms = frac * peak ∧ Gen.C14.thrSigma frac sigma peak rms = sigma * rms := by
  constructor <;> simp only [Gen.C14.thrFrac, Gen.C14.thrSigma, thrFracHand, thrSigmaHand] <;> try ring

theorem maskOp_eq : Gen.C14.maskOp = 1 := by
  simp only [Gen.C14.maskOp, maskOpHand]

/-- `residual = data + model` iff `add or mask` -/
theorem residPlus_table (add mask : Bool) :
    (Gen.C14.residPlus (if add then 1 else 0) (if mask then 1 else 0) == 1) = (add || mask) := by
  cases add <;> cases mask <;> simp [Gen.C14.residPlus, residPlusHand]

theorem residPlus_vals :
    ((genL : Leaves ℝ).residPlus 0 0 == 1) = false ∧ ((genL : Leaves ℝ).residPlus 1 0 == 1) = true ∧
    ((genL : Leaves ℝ).residPlus 0 1 == 1) = true ∧ ((genL : Leaves ℝ).residPlus 1 1 == 1) = true := by
  have h := residPlus_table
  refine ⟨?_, ?_, ?_, ?_⟩
  · simpa [genL] using h false false
  · simpa [genL] using h true false
  · simpa [genL] using h false true
  · simpa [genL] using h true true

/-- **skip rule, regenerated**: the sliced bounds and operators, assembled by the glue `onAxisG`, test exactly
    whether the 0-based centre `xo − 1` lies in `[−½, n−½)` -/
theorem onX_real (xo : ℝ) (n : Nat) : (genL : Leaves ℝ).onX xo n = true ↔ (1 / 2 ≤ xo ∧ xo < n + 1 / 2) := by
  simp only [Leaves.onX, genL, onAxisG, cmpG, skipOps_eq.1, (skipLo_eq _).1, (skipHi_eq _).1, R.real_ofNat]
  simp

theorem onY_real (yo : ℝ) (n : Nat) : (genL : Leaves ℝ).onY yo n = true ↔ (1 / 2 ≤ yo ∧ yo < n + 1 / 2) := by
  simp only [Leaves.onY, genL, onAxisG, cmpG, skipOps_eq.2, (skipLo_eq _).2, (skipHi_eq _).2, R.real_ofNat]
  simp

theorem maskHit_real (t v : ℝ) : maskHit (genL : Leaves ℝ) t v = true ↔ t ≤ v := by
  simp [maskHit, genL, maskOp_eq]

/-- **gaussian_peak**: the value at the centre is the amplitude -/
theorem gaussian_peak (amp xo yo sx sy theta : ℝ) :
    Gen.C14.gauss xo yo amp xo yo sx sy theta = amp := by
  rw [gauss_eq]; simp [quad]

/-- **gaussian_symmetry**: the Gaussian is invariant under `theta ↦ theta + 180` -/
theorem gaussian_symmetry (x y amp xo yo sx sy theta : ℝ) :
    Gen.C14.gauss x y amp xo yo sx sy (theta + 180) = Gen.C14.gauss x y amp xo yo sx sy theta := by
  have hc : cs (theta + 180) = -cs theta := by
    unfold cs
    rw [show (theta + 180) * (Real.pi / 180) = theta * (Real.pi / 180) + Real.pi by ring, Real.cos_add_pi]
  have hs : sn (theta + 180) = -sn theta := by
    unfold sn
    rw [show (theta + 180) * (Real.pi / 180) = theta * (Real.pi / 180) + Real.pi by ring, Real.sin_add_pi]
  rw [gauss_eq, gauss_eq]
  have : quad (x - xo) (y - yo) sx sy (theta + 180) = quad (x - xo) (y - yo) sx sy theta := by
    unfold quad; rw [hc, hs]; ring
  rw [this]

/-- the Gaussian is point-symmetric about its centre -/
theorem gaussian_point_symmetry (u v amp xo yo sx sy theta : ℝ) :
    Gen.C14.gauss (xo + u) (yo + v) amp xo yo sx sy theta
      = Gen.C14.gauss (xo - u) (yo - v) amp xo yo sx sy theta := by
  rw [gauss_eq, gauss_eq]
  have : quad (xo + u - xo) (yo + v - yo) sx sy theta = quad (xo - u - xo) (yo - v - yo) sx sy theta := by
    unfold quad; ring
  rw [this]

/-- `|gauss| ≤ |amp|` everywhere -/
theorem gaussian_abs_le (x y amp xo yo sx sy theta : ℝ) :
    |Gen.C14.gauss x y amp xo yo sx sy theta| ≤ |amp| := by
  rw [gauss_eq, abs_mul, abs_of_pos (Real.exp_pos _)]
  have h : Real.exp (-(quad (x - xo) (y - yo) sx sy theta) / 2) ≤ 1 := by
    rw [Real.exp_le_one_iff]; linarith [quad_nonneg (x - xo) (y - yo) sx sy theta]
  nlinarith [abs_nonneg amp]

/-- the value `make_model` adds at index `(i, j)` for a resolved source -/
theorem srcVal_eq (k : ℝ) (s : RSrc ℝ) (i j : Nat) :
    srcVal genL k s i j
      = s.peak * Real.exp (-(quad ((i : ℝ) - (s.pix.xo - 1)) ((j : ℝ) - (s.pix.yo - 1))
          (s.pix.sx * k) (s.pix.sy * k) s.pix.theta) / 2) := by
  simp only [srcVal, genL, modelVal_eq, gauss_eq, R.real_ofNat]

/-! ### The window -/

/-- the repaired skip test over ℝ: the 0-based centre `xo − 1` lies in `[−½, n−½)` -/
theorem onAxis_real (xo : ℝ) (n : Nat) : onAxis xo n = true ↔ (1 / 2 ≤ xo ∧ xo < n + 1 / 2) := by
  simp only [onAxis, Bool.and_eq_true, real_leb, real_ltb, real_half, R.real_ofNat]

/-- the pinned tree's test over ℝ: `0 < xo < n` on the 1-based coordinate, i.e. the 0-based centre in
    `(−1, n−1)` — half a pixel too far out at the low edge, a whole half-pixel short at the high edge -/
theorem onAxisPinned_real (xo : ℝ) (n : Nat) : onAxisPinned xo n = true ↔ (0 < xo ∧ xo < n) := by
  simp only [onAxisPinned, Bool.and_eq_true, real_ltb, R.real_ofNat, Nat.cast_zero]

/-- when (over ℝ) a source is modelled, and over which index window -/
theorem window_some_iff (nx ny : Nat) (p : Pix ℝ) (w : Win) :
    window (genL : Leaves ℝ) nx ny p = some w ↔
      (1 / 2 ≤ p.xo ∧ p.xo < nx + 1 / 2) ∧ (1 / 2 ≤ p.yo ∧ p.yo < ny + 1 / 2) ∧
      w = { x0 := clipLo ⌊p.xo - (genL : Leaves ℝ).xoff p.sx p.sy p.theta⌋,
            x1 := clipHi ⌈p.xo + (genL : Leaves ℝ).xoff p.sx p.sy p.theta⌉ nx,
            y0 := clipLo ⌊p.yo - (genL : Leaves ℝ).yoff p.sx p.sy p.theta⌋,
            y1 := clipHi ⌈p.yo + (genL : Leaves ℝ).yoff p.sx p.sy p.theta⌉ ny } := by
  unfold window windowWith
  by_cases hx : (genL : Leaves ℝ).onX p.xo nx = true
  · by_cases hy : (genL : Leaves ℝ).onY p.yo ny = true
    · simp only [hx, hy, real_isNaN, real_floorI, real_ceilI, Bool.not_true, Bool.or_self,
        Bool.false_eq_true, if_false, Option.some.injEq]
      rw [onX_real] at hx; rw [onY_real] at hy
      constructor
      · intro h; exact ⟨hx, hy, h.symm⟩
      · intro h; exact h.2.2.symm
    · have hy' : (genL : Leaves ℝ).onY p.yo ny = false := by simpa using hy
      simp only [hx, hy', Bool.not_true, Bool.not_false, Bool.false_eq_true, if_false, if_true]
      rw [onY_real] at hy
      constructor
      · intro h; cases h
      · intro h; exact absurd h.2.1 hy
  · have hx' : (genL : Leaves ℝ).onX p.xo nx = false := by simpa using hx
    simp only [hx', Bool.not_false, if_true]
    rw [onX_real] at hx
    constructor
    · intro h; cases h
    · intro h; exact absurd h.1 hx

/-- **offimage ⇒ skipped** (ℝ): a source whose 0-based centre `(xo−1, yo−1)` is not in
    `[−½, nx−½) × [−½, ny−½)` has no window -/
theorem offimage_window_none (nx ny : Nat) (p : Pix ℝ)
    (h : ¬ ((1 / 2 ≤ p.xo ∧ p.xo < nx + 1 / 2) ∧ (1 / 2 ≤ p.yo ∧ p.yo < ny + 1 / 2))) :
    window (genL : Leaves ℝ) nx ny p = none := by
  cases hw : window (genL : Leaves ℝ) nx ny p with
  | none => rfl
  | some w =>
    have := (window_some_iff nx ny p w).mp hw
    exact absurd ⟨this.1, this.2.1⟩ h

/-- conversely every source centred on the image is modelled (over ℝ nothing is non-finite) -/
theorem onimage_window_some (nx ny : Nat) (p : Pix ℝ)
    (hx : 1 / 2 ≤ p.xo ∧ p.xo < nx + 1 / 2) (hy : 1 / 2 ≤ p.yo ∧ p.yo < ny + 1 / 2) :
    ∃ w, window (genL : Leaves ℝ) nx ny p = some w :=
  ⟨_, (window_some_iff nx ny p _).mpr ⟨hx, hy, rfl⟩⟩

/-- every window lies inside the image (for any interpretation of the arithmetic) -/
theorem window_in_image {α : Type} [R α] [RX α] (onX onY : α → Nat → Bool) (L : Leaves α) (nx ny : Nat)
    (p : Pix α) (w : Win) (h : windowWith onX onY L nx ny p = some w) : w.x1 ≤ nx ∧ w.y1 ≤ ny := by
  unfold windowWith at h
  split at h
  · cases h
  · split at h
    · cases h
    · simp only at h
      split at h
      · cases h
      · cases h
        exact ⟨clipHi_le _ _, clipHi_le _ _⟩

theorem mem_in_image {α : Type} [R α] [RX α] (L : Leaves α) (nx ny : Nat)
    (p : Pix α) (w : Win) (h : window L nx ny p = some w) (i j : Nat) (hm : w.mem i j = true) :
    i < nx ∧ j < ny := by
  have := window_in_image L.onX L.onY L nx ny p w h
  simp [Win.mem] at hm
  omega

/-- **window_covers (general radius)**: with sigmas `sx·k`, `sy·k` (`0 < k`), every image pixel whose
    offset from the centre `(xo−1, yo−1)` lies in the `r`-sigma ellipse, `r·k < 5`, is inside the
    source's index window.  What the code's extent formula `5(|sx cos φ| + |sy sin φ|)` (in FWHM
    units!) guarantees is therefore `5/k = 5·2√(2 ln 2) ≈ 11.77` sigma, not merely 5. -/
theorem window_covers_rsigma (nx ny : Nat) (p : Pix ℝ) (w : Win) (k r : ℝ)
    (hw : window genL nx ny p = some w) (hsx : 0 < p.sx) (hsy : 0 < p.sy) (hk : 0 < k)
    (hr : 0 ≤ r) (hrk : r * k < 5) (i j : Nat) (hi : i < nx) (hj : j < ny)
    (hq : quad ((i : ℝ) - (p.xo - 1)) ((j : ℝ) - (p.yo - 1)) (p.sx * k) (p.sy * k) p.theta ≤ r ^ 2) :
    w.mem i j = true := by
  obtain ⟨_, _, rfl⟩ := (window_some_iff nx ny p w).mp hw
  have ha : p.sx * k ≠ 0 := by positivity
  have hb : p.sy * k ≠ 0 := by positivity
  obtain ⟨bu, bv⟩ := ellipse_bbox _ _ (cs p.theta) (sn p.theta) (p.sx * k) (p.sy * k) r
    (cs_sq_add_sn_sq p.theta) ha hb hr hq
  have hX : genL.xoff p.sx p.sy p.theta = 5 * (|p.sx * cs p.theta| + |p.sy * sn p.theta|) := xoff_eq _ _ _
  have hY : genL.yoff p.sx p.sy p.theta = 5 * (|p.sx * sn p.theta| + |p.sy * cs p.theta|) := yoff_eq _ _ _
  have kx : |p.sx * k * cs p.theta| = k * |p.sx * cs p.theta| := by
    rw [show p.sx * k * cs p.theta = k * (p.sx * cs p.theta) by ring, abs_mul, abs_of_pos hk]
  have ky : |p.sy * k * sn p.theta| = k * |p.sy * sn p.theta| := by
    rw [show p.sy * k * sn p.theta = k * (p.sy * sn p.theta) by ring, abs_mul, abs_of_pos hk]
  have kx' : |p.sx * k * sn p.theta| = k * |p.sx * sn p.theta| := by
    rw [show p.sx * k * sn p.theta = k * (p.sx * sn p.theta) by ring, abs_mul, abs_of_pos hk]
  have ky' : |p.sy * k * cs p.theta| = k * |p.sy * cs p.theta| := by
    rw [show p.sy * k * cs p.theta = k * (p.sy * cs p.theta) by ring, abs_mul, abs_of_pos hk]
  have px := halfwidth_pos p.sx p.sy (cs p.theta) (sn p.theta) (cs_sq_add_sn_sq _) hsx.ne' hsy.ne'
  have py := halfwidth_pos p.sx p.sy (sn p.theta) (cs p.theta)
    (by rw [add_comm]; exact cs_sq_add_sn_sq _) hsx.ne' hsy.ne'
  -- strict bounds |u| < xoff, |v| < yoff
  have su : |(i : ℝ) - (p.xo - 1)| < genL.xoff p.sx p.sy p.theta := by
    rw [hX]; rw [kx, ky] at bu
    calc |(i : ℝ) - (p.xo - 1)| ≤ r * (k * |p.sx * cs p.theta| + k * |p.sy * sn p.theta|) := bu
      _ = (r * k) * (|p.sx * cs p.theta| + |p.sy * sn p.theta|) := by ring
      _ < 5 * (|p.sx * cs p.theta| + |p.sy * sn p.theta|) := by nlinarith
  have sv : |(j : ℝ) - (p.yo - 1)| < genL.yoff p.sx p.sy p.theta := by
    rw [hY]; rw [kx', ky'] at bv
    calc |(j : ℝ) - (p.yo - 1)| ≤ r * (k * |p.sx * sn p.theta| + k * |p.sy * cs p.theta|) := bv
      _ = (r * k) * (|p.sx * sn p.theta| + |p.sy * cs p.theta|) := by ring
      _ < 5 * (|p.sx * sn p.theta| + |p.sy * cs p.theta|) := by nlinarith
  rw [abs_lt] at su sv
  have mx := index_in_clip p.xo (genL.xoff p.sx p.sy p.theta) nx i hi (by linarith) (by linarith)
  have my := index_in_clip p.yo (genL.yoff p.sx p.sy p.theta) ny j hj (by linarith) (by linarith)
  simp only [Win.mem, Bool.and_eq_true, decide_eq_true_eq]
  exact ⟨⟨⟨mx.1, mx.2⟩, my.1⟩, my.2⟩

/-- **window_covers_5sigma**: with the code's `FWHM2CC`, every image pixel inside a modelled source's
    5σ ellipse (σ = FWHM·FWHM2CC along the rotated axes) is inside the index window over which the
    source is evaluated — the window's half-widths bound the ellipse's bounding box. -/
theorem window_covers_5sigma (nx ny : Nat) (p : Pix ℝ) (w : Win)
    (hw : window genL nx ny p = some w) (hsx : 0 < p.sx) (hsy : 0 < p.sy)
    (i j : Nat) (hi : i < nx) (hj : j < ny)
    (hq : quad ((i : ℝ) - (p.xo - 1)) ((j : ℝ) - (p.yo - 1)) (p.sx * kG) (p.sy * kG) p.theta ≤ 25) :
    w.mem i j = true :=
  window_covers_rsigma nx ny p w kG 5 hw hsx hsy kG_pos (by norm_num)
    (by nlinarith [kG_lt_one, kG_pos]) i j hi hj (by norm_num; exact hq)

/-- the half-widths of the window bound the half-widths of the 5σ bounding box:
    `5·sqrt(σx² cos² + σy² sin²) ≤ FWHM2CC · xoff ≤ xoff` (and likewise for `yoff`) -/
theorem halfwidth_bounds_bbox (sx sy theta : ℝ) :
    5 * Real.sqrt ((sx * kG) ^ 2 * cs theta ^ 2 + (sy * kG) ^ 2 * sn theta ^ 2)
      ≤ Gen.C14.xoff sx sy theta ∧
    5 * Real.sqrt ((sx * kG) ^ 2 * sn theta ^ 2 + (sy * kG) ^ 2 * cs theta ^ 2)
      ≤ Gen.C14.yoff sx sy theta := by
  have hk := kG_pos
  have hk1 := kG_lt_one
  have key : ∀ a b : ℝ, Real.sqrt ((sx * kG) ^ 2 * a ^ 2 + (sy * kG) ^ 2 * b ^ 2)
      ≤ |sx * a| + |sy * b| := by
    intro a b
    apply Real.sqrt_le_iff.mpr
    refine ⟨by positivity, ?_⟩
    have h1 : (sx * kG) ^ 2 * a ^ 2 ≤ |sx * a| ^ 2 := by
      rw [sq_abs]
      have : (sx * kG) ^ 2 * a ^ 2 = (sx * a) ^ 2 * kG ^ 2 := by ring
      rw [this]
      have : kG ^ 2 ≤ 1 := by nlinarith
      nlinarith [sq_nonneg (sx * a)]
    have h2 : (sy * kG) ^ 2 * b ^ 2 ≤ |sy * b| ^ 2 := by
      rw [sq_abs]
      have : (sy * kG) ^ 2 * b ^ 2 = (sy * b) ^ 2 * kG ^ 2 := by ring
      rw [this]
      have : kG ^ 2 ≤ 1 := by nlinarith
      nlinarith [sq_nonneg (sy * b)]
    nlinarith [abs_nonneg (sx * a), abs_nonneg (sy * b)]
  rw [xoff_eq, yoff_eq]
  exact ⟨by linarith [key (cs theta) (sn theta)], by linarith [key (sn theta) (cs theta)]⟩

/-- **truncation_small**: an image pixel OUTSIDE a modelled source's window carries less than
    `|peak|·exp(−25/2)` (< 1e-4·|peak|) of that source's Gaussian -/
theorem truncation_small (nx ny : Nat) (s : RSrc ℝ) (w : Win)
    (hw : window genL nx ny s.pix = some w) (hsx : 0 < s.pix.sx) (hsy : 0 < s.pix.sy)
    (i j : Nat) (hi : i < nx) (hj : j < ny) (hm : w.mem i j = false) :
    |srcVal genL kG s i j| ≤ |s.peak| * Real.exp (-(25 / 2)) := by
  rw [srcVal_eq, abs_mul, abs_of_pos (Real.exp_pos _)]
  apply mul_le_mul_of_nonneg_left _ (abs_nonneg _)
  rw [Real.exp_le_exp]
  by_contra hlt
  have hq : quad ((i : ℝ) - (s.pix.xo - 1)) ((j : ℝ) - (s.pix.yo - 1)) (s.pix.sx * kG)
      (s.pix.sy * kG) s.pix.theta ≤ 25 := by linarith
  have := window_covers_5sigma nx ny s.pix w hw hsx hsy i j hi hj hq
  rw [this] at hm; cases hm

theorem exp_neg_25_half_lt_1e4 : Real.exp (-(25 / 2 : ℝ)) < 1 / 10000 := exp_neg_25_half_lt

/-! ### The model image as a sum over the catalogue -/

/-- what one source contributes to pixel `(i, j)` -/
noncomputable def contrib (L : Leaves ℝ) (k : ℝ) (nx ny : Nat) (s : RSrc ℝ) (i j : Nat) : ℝ :=
  match window L nx ny s.pix with
  | none => 0
  | some w => if w.mem i j then srcVal L k s i j else 0

theorem step_pixel (L : Leaves ℝ) (k : ℝ) (nx ny : Nat) (img : Img ℝ) (s : RSrc ℝ) (i j : Nat) :
    step L k nx ny img s i j = img i j + contrib L k nx ny s i j := by
  unfold step contrib
  cases window L nx ny s.pix with
  | none => simp
  | some w =>
    simp only [addWindowed]
    by_cases h : w.mem i j = true <;> simp [h]

theorem foldl_step_pixel (L : Leaves ℝ) (k : ℝ) (nx ny : Nat) (cat : List (RSrc ℝ)) (img : Img ℝ)
    (i j : Nat) :
    cat.foldl (step L k nx ny) img i j = img i j + (cat.map (fun s => contrib L k nx ny s i j)).sum := by
  induction cat generalizing img with
  | nil => simp
  | cons s rest ih =>
    simp only [List.foldl_cons, List.map_cons, List.sum_cons]
    rw [ih, step_pixel]; ring

/-- **model_pixel_sum**: each pixel of the model image is the sum, over the catalogue, of the
    sources' Gaussians restricted to their windows; skipped sources contribute 0 -/
theorem model_pixel_sum (L : Leaves ℝ) (k : ℝ) (nx ny : Nat) (cat : List (RSrc ℝ)) (i j : Nat) :
    makeModelR L k nx ny cat i j = (cat.map (fun s => contrib L k nx ny s i j)).sum := by
  unfold makeModelR
  rw [foldl_step_pixel]; simp [zeroImg]

/-- **model_additive**: the model of a concatenated catalogue is the pixel-wise sum of the models,
    for every WCS oracle, image shape and pair of catalogues -/
theorem model_additive (wcs : Wcs ℝ) (nx ny : Nat) (c₁ c₂ : List (Src ℝ)) (i j : Nat) :
    makeModel genL kG wcs nx ny (c₁ ++ c₂) i j
      = makeModel genL kG wcs nx ny c₁ i j + makeModel genL kG wcs nx ny c₂ i j := by
  unfold makeModel
  rw [model_pixel_sum, model_pixel_sum, model_pixel_sum, List.map_append, List.map_append, List.sum_append]

/-- the model does not depend on the order of the catalogue -/
theorem model_perm (wcs : Wcs ℝ) (nx ny : Nat) (c₁ c₂ : List (Src ℝ)) (h : c₁.Perm c₂) (i j : Nat) :
    makeModel genL kG wcs nx ny c₁ i j = makeModel genL kG wcs nx ny c₂ i j := by
  unfold makeModel
  rw [model_pixel_sum, model_pixel_sum]
  exact ((h.map _).map _).sum_eq

/-- the empty catalogue gives the zero image -/
theorem model_nil (wcs : Wcs ℝ) (nx ny : Nat) (i j : Nat) :
    makeModel genL kG wcs nx ny [] i j = 0 := by
  simp [makeModel, makeModelR, zeroImg]

/-- the model vanishes outside the image: no window reaches beyond `nx × ny` -/
theorem model_zero_outside (wcs : Wcs ℝ) (nx ny : Nat) (cat : List (Src ℝ)) (i j : Nat)
    (h : ¬ (i < nx ∧ j < ny)) : makeModel genL kG wcs nx ny cat i j = 0 := by
  unfold makeModel
  rw [model_pixel_sum]
  apply List.sum_eq_zero
  intro x hx
  simp only [List.mem_map] at hx
  obtain ⟨s, _, rfl⟩ := hx
  unfold contrib
  cases hw : window genL nx ny s.pix with
  | none => rfl
  | some w =>
    by_cases hm : w.mem i j = true
    · exact absurd (mem_in_image genL nx ny s.pix w hw i j hm) h
    · simp [hm]

/-! ### Sources centred off the image -/

/-- a skipped source leaves the image untouched — for ANY interpretation of the arithmetic
    (in particular `Float`), and the function is total: nothing is raised -/
theorem step_skip {α : Type} [R α] [RX α] (L : Leaves α) (k : α) (nx ny : Nat) (img : Img α)
    (s : RSrc α) (h : window L nx ny s.pix = none) : step L k nx ny img s = img := by
  unfold step; rw [h]

theorem makeModelR_skip {α : Type} [R α] [RX α] (L : Leaves α) (k : α) (nx ny : Nat)
    (pre post : List (RSrc α)) (s : RSrc α) (h : window L nx ny s.pix = none) :
    makeModelR L k nx ny (pre ++ s :: post) = makeModelR L k nx ny (pre ++ post) := by
  unfold makeModelR
  rw [List.foldl_append, List.foldl_append, List.foldl_cons, step_skip L k nx ny _ s h]

/-- **offimage_skipped**: a source whose centre the WCS places off the image — 0-based centre
    `(xo−1, yo−1)` outside `[−½, nx−½) × [−½, ny−½)` — contributes nothing: the model image with it
    anywhere in the catalogue is the model image without it. -/
theorem offimage_skipped (wcs : Wcs ℝ) (nx ny : Nat) (pre post : List (Src ℝ)) (s : Src ℝ)
    (h : ¬ ((1 / 2 ≤ (s.resolve wcs).pix.xo ∧ (s.resolve wcs).pix.xo < nx + 1 / 2) ∧
            (1 / 2 ≤ (s.resolve wcs).pix.yo ∧ (s.resolve wcs).pix.yo < ny + 1 / 2))) :
    makeModel genL kG wcs nx ny (pre ++ s :: post) = makeModel genL kG wcs nx ny (pre ++ post) := by
  unfold makeModel
  rw [List.map_append, List.map_append, List.map_cons]
  exact makeModelR_skip genL kG nx ny _ _ _ (offimage_window_none nx ny _ h)

/-- the same in mask mode -/
theorem offimage_skipped_mask (wcs : Wcs ℝ) (nx ny : Nat) (frac : Option ℝ) (sigma : ℝ)
    (pre post : List (Src ℝ)) (s : Src ℝ)
    (h : ¬ ((1 / 2 ≤ (s.resolve wcs).pix.xo ∧ (s.resolve wcs).pix.xo < nx + 1 / 2) ∧
            (1 / 2 ≤ (s.resolve wcs).pix.yo ∧ (s.resolve wcs).pix.yo < ny + 1 / 2))) :
    maskModel genL kG wcs nx ny frac sigma (pre ++ s :: post)
      = maskModel genL kG wcs nx ny frac sigma (pre ++ post) := by
  unfold maskModel maskModelR
  rw [List.map_append, List.map_append, List.map_cons, List.foldl_append, List.foldl_append, List.foldl_cons]
  congr 1
  unfold maskStep
  rw [offimage_window_none nx ny _ h]

/-! ### "Equals the catalogued Gaussians" — relative to the WCS oracle -/

/-- the untruncated sum of the Gaussians of the sources centred on the image -/
noncomputable def fullSum (k : ℝ) (nx ny : Nat) (cat : List (RSrc ℝ)) (i j : Nat) : ℝ :=
  (cat.map (fun s => match window genL nx ny s.pix with
                     | none => 0
                     | some _ => srcVal genL k s i j)).sum

/-- **model_matches_catalogue_partial**.
    Full statement of the clause: *the model image equals, to 1e-4 of the peak, the sum over the
    catalogue of elliptical Gaussians with the catalogued peak, SKY position, FWHM axes and position
    angle, evaluated out to 5σ*.
    Proved here: for every WCS oracle, on every image pixel, the model differs from the untruncated
    sum of the pixel-space Gaussians `peak·exp(−Q/2)` (centre `(xo−1, yo−1)`, sigmas `FWHM·FWHM2CC`,
    angle `theta`, all as delivered by the oracle) of the sources centred on the image by at most
    `exp(−25/2)·Σ|peak|  <  1e-4·Σ|peak|`.
    Not proved (sampled by `corr_C14`'s independent rendering): that the oracle `sky2pix_ellipse`
    maps the catalogued sky ellipse to that pixel ellipse. -/
theorem model_matches_catalogue_partial (nx ny : Nat) (cat : List (RSrc ℝ))
    (hpos : ∀ s ∈ cat, 0 < s.pix.sx ∧ 0 < s.pix.sy) (i j : Nat) (hi : i < nx) (hj : j < ny) :
    |makeModelR genL kG nx ny cat i j - fullSum kG nx ny cat i j|
      ≤ (cat.map (fun s => |s.peak| * Real.exp (-(25 / 2)))).sum := by
  rw [model_pixel_sum]
  unfold fullSum
  apply abs_sum_sub_le
  intro s hs
  unfold contrib
  cases hw : window genL nx ny s.pix with
  | none => simp; positivity
  | some w =>
    by_cases hm : w.mem i j = true
    · simp [hm]; positivity
    · simp only [hm, Bool.false_eq_true, if_false, zero_sub, abs_neg]
      exact truncation_small nx ny s w hw (hpos s hs).1 (hpos s hs).2 i j hi hj (by simpa using hm)

/-! ### Mask mode -/

theorem foldl_maskStep {α : Type} [R α] [RX α] (L : Leaves α) (k : α) (nx ny : Nat)
    (frac : Option α) (sigma : α) (cat : List (RSrc α)) (b : Nat → Nat → Bool) (i j : Nat) :
    cat.foldl (maskStep L k nx ny frac sigma) b i j = true ↔
      b i j = true ∨ ∃ s ∈ cat, ∃ w, window L nx ny s.pix = some w ∧ w.mem i j = true ∧
        maskHit L (thr L frac sigma s) (srcVal L k s i j) = true := by
  induction cat generalizing b with
  | nil => simp
  | cons s rest ih =>
    rw [List.foldl_cons, ih]
    constructor
    · rintro (h | ⟨t, ht, w, hw, hm, hv⟩)
      · unfold maskStep at h
        cases hw : window L nx ny s.pix with
        | none => rw [hw] at h; exact Or.inl h
        | some w =>
          rw [hw] at h
          simp only [Bool.or_eq_true, Bool.and_eq_true] at h
          rcases h with h | ⟨hm, hv⟩
          · exact Or.inl h
          · exact Or.inr ⟨s, by simp, w, hw, hm, hv⟩
      · exact Or.inr ⟨t, by simp [ht], w, hw, hm, hv⟩
    · rintro (h | ⟨t, ht, w, hw, hm, hv⟩)
      · left
        unfold maskStep
        cases window L nx ny s.pix with
        | none => exact h
        | some w => simp [h]
      · rcases List.mem_cons.mp ht with rfl | ht'
        · left
          unfold maskStep
          rw [hw]; simp [hm, hv]
        · exact Or.inr ⟨t, ht', w, hw, hm, hv⟩

/-- **mask_exact** (any interpretation of the arithmetic): pixel `(i, j)` is blanked iff some source of
    the catalogue is modelled, `(i, j)` lies in its window, and its own model value there is at least
    its threshold (`frac·peak`, or `sigma·local_rms` when `frac` is `None`) -/
theorem mask_exact {α : Type} [R α] [RX α] (L : Leaves α) (k : α) (wcs : Wcs α) (nx ny : Nat)
    (frac : Option α) (sigma : α) (cat : List (Src α)) (i j : Nat) :
    maskModel L k wcs nx ny frac sigma cat i j = true ↔
      ∃ s ∈ cat, ∃ w, window L nx ny (s.resolve wcs).pix = some w ∧ w.mem i j = true ∧
        maskHit L (thr L frac sigma (s.resolve wcs)) (srcVal L k (s.resolve wcs) i j) = true := by
  unfold maskModel maskModelR
  rw [foldl_maskStep]
  simp only [Bool.false_eq_true, false_or, List.mem_map]
  constructor
  · rintro ⟨r, ⟨s, hs, rfl⟩, h⟩; exact ⟨s, hs, h⟩
  · rintro ⟨s, hs, h⟩; exact ⟨_, ⟨s, hs, rfl⟩, h⟩

/-- **mask_exact over ℝ**, thresholds spelled out: blank ⇔ some on-image source's Gaussian is `≥` its
    threshold at that pixel, inside that source's window -/
theorem mask_exact_real (wcs : Wcs ℝ) (nx ny : Nat) (frac : Option ℝ) (sigma : ℝ)
    (cat : List (Src ℝ)) (i j : Nat) :
    maskModel genL kG wcs nx ny frac sigma cat i j = true ↔
      ∃ s ∈ cat, ∃ w, window genL nx ny (s.resolve wcs).pix = some w ∧ w.mem i j = true ∧
        (match frac with | some f => f * s.peak | none => sigma * s.rms)
          ≤ srcVal genL kG (s.resolve wcs) i j := by
  rw [mask_exact]
  have e : ∀ s : Src ℝ, thr (genL : Leaves ℝ) frac sigma (s.resolve wcs)
      = (match frac with | some f => f * s.peak | none => sigma * s.rms) := by
    intro s
    cases frac <;> simp [thr, genL, Src.resolve, (thr_eq _ _ _ _).1, (thr_eq _ _ _ _).2]
  constructor
  · rintro ⟨s, hs, w, hw, hm, hv⟩
    refine ⟨s, hs, w, hw, hm, ?_⟩
    rw [maskHit_real, e] at hv; exact hv
  · rintro ⟨s, hs, w, hw, hm, hv⟩
    refine ⟨s, hs, w, hw, hm, ?_⟩
    rw [maskHit_real, e]; exact hv

/-- in mask mode the residual is NaN exactly on the blanked pixels and the input elsewhere -/
theorem residual_mask (nx ny : Nat) (add : Bool) (frac : Option ℝ) (sigma : ℝ) (data : Img ℝ)
    (cat : List (RSrc ℝ)) (i j : Nat) :
    residualR genL kG nx ny add true frac sigma data cat i j
      = if maskModelR genL kG nx ny frac sigma cat i j then none else some (data i j) := by
  cases add <;> simp [residualR, residPlus_vals.2.2.1, residPlus_vals.2.2.2]

/-! ### add / subtract -/

theorem residual_sub (nx ny : Nat) (frac : Option ℝ) (sigma : ℝ) (data : Img ℝ) (cat : List (RSrc ℝ))
    (i j : Nat) :
    residualR genL kG nx ny false false frac sigma data cat i j
      = some (data i j - makeModelR genL kG nx ny cat i j) := by
  simp [residualR, residPlus_vals.1]

theorem residual_add (nx ny : Nat) (frac : Option ℝ) (sigma : ℝ) (data : Img ℝ) (cat : List (RSrc ℝ))
    (i j : Nat) :
    residualR genL kG nx ny true false frac sigma data cat i j
      = some (data i j + makeModelR genL kG nx ny cat i j) := by
  simp [residualR, residPlus_vals.2.1]

/-- **add_sub_restore** (over ℝ; float32 rounding of the two FITS round trips is the named gap):
    running `make_residual(add=True)` and then `make_residual` (subtract) on its output with the same
    catalogue restores every pixel of the input image -/
theorem add_sub_restore (nx ny : Nat) (frac : Option ℝ) (sigma : ℝ) (data : Img ℝ)
    (cat : List (RSrc ℝ)) (i j : Nat) :
    residualR genL kG nx ny false false frac sigma
        (fun i j => data i j + makeModelR genL kG nx ny cat i j) cat i j
      = some (data i j) := by
  rw [residual_sub]; simp

/-- and the other way round -/
theorem sub_add_restore (nx ny : Nat) (frac : Option ℝ) (sigma : ℝ) (data : Img ℝ)
    (cat : List (RSrc ℝ)) (i j : Nat) :
    residualR genL kG nx ny true false frac sigma
        (fun i j => data i j - makeModelR genL kG nx ny cat i j) cat i j
      = some (data i j) := by
  rw [residual_add]; simp

/-- subtracting the model of a catalogue from the model image of that same catalogue leaves exactly 0
    (the loop closes for the model's own output; what the source finder extracts is C01's business) -/
theorem subtract_own_model (nx ny : Nat) (frac : Option ℝ) (sigma : ℝ) (cat : List (RSrc ℝ)) (i j : Nat) :
    residualR genL kG nx ny false false frac sigma (makeModelR genL kG nx ny cat) cat i j
      = some 0 := by
  rw [residual_sub]; simp

/-! ### Non-vacuity and negation witnesses (tests, not proofs) -/

/-- a 1-based centre `xo = n` (the centre of the LAST pixel row) is on the image for the repaired
    test and off it for the pinned tree's `0 < xo < n` -/
example : onAxis (20.0 : Float) 20 = true ∧ onAxisPinned (20.0 : Float) 20 = false := by
  decide +kernel

/-- a centre 0.9 px beyond the first row (`xo = 0.1`) is off the image, yet passes the pinned test -/
example : onAxis (0.1 : Float) 20 = false ∧ onAxisPinned (0.1 : Float) 20 = true := by
  decide +kernel

example : Win.mem ⟨2, 5, 0, 3⟩ 4 2 = true ∧ Win.mem ⟨2, 5, 0, 3⟩ 5 2 = false := by decide

example : clipLo (-3) = 0 ∧ clipHi 99 40 = 40 ∧ clipHi (-2) 40 = 0 := by decide

end Aegean.Properties.C14
