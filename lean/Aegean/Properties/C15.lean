/-
  C15 — Compress then expand restores shape, WCS and grid-node values.

  Objects:
  * `Gen.C15.nxOf nyOf lcxOf lcyOf` — the index arithmetic of `fits_tools.compress`, and
    `Gen.C15.nodeRow nodeCol` — the node coordinates of `fits_tools.expand`, regenerated from the
    source by the translator on every run;
  * `Aegean.Model.C15.compress / expand / roundTrip` — the hand model of everything else, tied to
    the code by `harness/corr_C15.py`;
  * `Aegean.Spec.C15` — the clauses of the property in their own terms.

  The theorems hold for every image of at least 2 × 2 pixels with real pixel values, every header
  that describes it and carries a pixel scale on both axes (CDELTi or CDi_i, in any mixture), and
  every factor `1 ≤ f ≤ 64` for the node coordinates exactly as the code computes them
  (`int(lc / factor)` is IEEE float division followed by truncation; that it is 0 is checked by kernel
  evaluation for every factor in 1..64 and every residual below it — the property's own range),
  and for every factor `f ≥ 1` when the same quotient is taken in the naturals (`…_anyFactor`).
-/
import Aegean.Generated.C15
import Aegean.Model.C15
import Aegean.Spec.C15
import Aegean.Proofs.C15
import Aegean.Proofs.C15Float

-- the `first | … | …` alternatives below exist for harmless rewrites of the source; only one is ever used
set_option linter.unusedTactic false
set_option linter.unreachableTactic false

namespace Aegean.Properties.C15
open Aegean.Model.C15 Aegean.Proofs.C15 Aegean.Spec.C15

/-! ### Obligations on the regenerated arithmetic (these break if the source changes meaning) -/

/-- "one more node if there is a residual" is the ceiling of `n / f` -/
theorem ceil_if (n f : Nat) (hf : 0 < f) : (if n % f > 0 then n / f + 1 else n / f) = (n + f - 1) / f := by
  have h1 := Nat.div_add_mod n f
  have h2 := Nat.mod_lt n hf
  split
  · rename_i h
    symm
    apply Nat.div_eq_of_lt_le
    · rw [Nat.add_mul, Nat.one_mul, Nat.mul_comm]; omega
    · rw [Nat.add_mul, Nat.add_mul, Nat.one_mul, Nat.mul_comm]; omega
  · rename_i h
    symm
    apply Nat.div_eq_of_lt_le
    · rw [Nat.mul_comm]; omega
    · rw [Nat.add_mul, Nat.one_mul, Nat.mul_comm]; omega

/-- closes `E = (n + f − 1) / f` for the ways of writing "n // f, plus one if n % f > 0" -/
macro "ceil_tac" n:term "," f:term "," hf:term : tactic => `(tactic|
  first
    | exact ceil_if $n $f $hf
    | rfl
    | (simp only [Aegean.Model.C15.nNodesHand]; exact ceil_if $n $f $hf)
    | ((try simp only [])
       (try simp only [Aegean.Model.C15.nNodesHand])
       have h1 := Nat.div_add_mod $n $f
       have h2 := Nat.mod_lt $n $hf
       symm
       apply Nat.div_eq_of_lt_le <;> (repeat' split) <;>
         simp only [Nat.add_mul, Nat.mul_add, Nat.one_mul, Nat.mul_one, Nat.zero_mul, Nat.mul_zero, Nat.add_zero,
           Nat.mul_comm _ $f] <;> omega))

theorem nxOf_ceil (rows cols f : Nat) (hf : 0 < f) : Gen.C15.nxOf rows cols f = (rows + f - 1) / f := by
  unfold Gen.C15.nxOf
  ceil_tac rows, f, hf

theorem nyOf_ceil (rows cols f : Nat) (hf : 0 < f) : Gen.C15.nyOf rows cols f = (cols + f - 1) / f := by
  unfold Gen.C15.nyOf
  ceil_tac cols, f, hf

/-- BN_RPX1 is the residual of the row count (`cx = data.shape[0]`) -/
theorem lcxOf_mod (rows cols f : Nat) : Gen.C15.lcxOf rows cols f = rows % f := by
  unfold Gen.C15.lcxOf; first | rfl | (simp only []; done) | omega

/-- BN_RPX2 is the residual of the column count -/
theorem lcyOf_mod (rows cols f : Nat) : Gen.C15.lcyOf rows cols f = cols % f := by
  unfold Gen.C15.lcyOf; first | rfl | (simp only []; done) | omega

theorem gen_idx_laws : IdxLaws Gen.C15.nxOf Gen.C15.nyOf Gen.C15.lcxOf Gen.C15.lcyOf :=
  ⟨nxOf_ceil, nyOf_ceil, fun r c f _ => lcxOf_mod r c f, fun r c f _ => lcyOf_mod r c f⟩

/-- the node coordinate `expand` gives to the `k`-th compressed row is `k·f`: the residual written by
    `compress` never shifts the grid -/
theorem nodeRow_eq (k r1 r2 f : Nat) (h64 : f ≤ 64) (h2 : r2 < f) : Gen.C15.nodeRow k r1 r2 f = k * f := by
  unfold Gen.C15.nodeRow
  try simp only []
  first
    | rw [float_offset_zero f h64 r2 h2, Nat.add_zero]
    | (simp only [Aegean.Model.C15.nodeHand]; rw [Nat.div_eq_of_lt h2, Nat.add_zero])
    | rw [Nat.div_eq_of_lt h2, Nat.add_zero]
    | (have h0 := float_offset_zero f h64 r2 h2; have h1 := Nat.div_eq_of_lt h2; simp [h0, h1, Nat.mul_comm])

theorem nodeCol_eq (k r1 r2 f : Nat) (h64 : f ≤ 64) (h1 : r1 < f) : Gen.C15.nodeCol k r1 r2 f = k * f := by
  unfold Gen.C15.nodeCol
  try simp only []
  first
    | rw [float_offset_zero f h64 r1 h1, Nat.add_zero]
    | (simp only [Aegean.Model.C15.nodeHand]; rw [Nat.div_eq_of_lt h1, Nat.add_zero])
    | rw [Nat.div_eq_of_lt h1, Nat.add_zero]
    | (have h0 := float_offset_zero f h64 r1 h1; have h2 := Nat.div_eq_of_lt h1; simp [h0, h2, Nat.mul_comm])

/-! ### Obligations on the regenerated keyword arithmetic and BN_* bookkeeping (deepening round)

  They are *round-trip* laws, not canonical forms: any pair of formulas in compress / expand that undo each other
  passes, a pair that does not (a shifted reference pixel, a keyword divided that was not multiplied, …) fails. -/

/-- the regenerated keyword arithmetic, over ℝ -/
noncomputable def genHdr : HdrArith ℝ :=
  { crpixC1 := Gen.C15.crpixC1, crpixC2 := Gen.C15.crpixC2, crpixE1 := Gen.C15.crpixE1, crpixE2 := Gen.C15.crpixE2,
    keyC1 := Gen.C15.keyC1, keyC2 := Gen.C15.keyC2, keyE1 := Gen.C15.keyE1, keyE2 := Gen.C15.keyE2,
    upA1 := Gen.C15.upA1, upB1 := Gen.C15.upB1, upA2 := Gen.C15.upA2, upB2 := Gen.C15.upB2,
    dnA1 := Gen.C15.dnA1, dnB1 := Gen.C15.dnB1, dnA2 := Gen.C15.dnA2, dnB2 := Gen.C15.dnB2 }

/-- the regenerated BN_* bookkeeping -/
def genBn : BnArith :=
  { cfac := Gen.C15.bnCfac, npx1 := Gen.C15.bnNpx1, npx2 := Gen.C15.bnNpx2, rpx1 := Gen.C15.bnRpx1,
    rpx2 := Gen.C15.bnRpx2, outRows := Gen.C15.outRows, outCols := Gen.C15.outCols, deleted := Gen.C15.bnDeleted }

/-- unfolds a regenerated real-mode definition (or its hand fallback) and closes a field identity -/
macro "hdr_tac" : tactic => `(tactic|
  (simp only [Gen.C15.crpixC1, Gen.C15.crpixC2, Gen.C15.crpixE1, Gen.C15.crpixE2, Gen.C15.upA1, Gen.C15.upB1, Gen.C15.upA2,
      Gen.C15.upB2, Gen.C15.dnA1, Gen.C15.dnB1, Gen.C15.dnA2, Gen.C15.dnB2, Aegean.Model.C15.crpixC1Hand,
      Aegean.Model.C15.crpixC2Hand, Aegean.Model.C15.crpixE1Hand, Aegean.Model.C15.crpixE2Hand,
      Aegean.Model.C15.upHand, Aegean.Model.C15.dnHand, R.real_ofNat]
   push_cast
   field_simp
   try ring))

/-- **CRPIX1 round trip**: expand's formula applied to compress's result gives the original reference pixel -/
theorem crpix1_roundtrip (c1 c2 f : ℝ) (hf : f ≠ 0) :
    Gen.C15.crpixE1 (Gen.C15.crpixC1 c1 c2 f) (Gen.C15.crpixC2 c1 c2 f) f = c1 := by hdr_tac
theorem crpix2_roundtrip (c1 c2 f : ℝ) (hf : f ≠ 0) :
    Gen.C15.crpixE2 (Gen.C15.crpixC1 c1 c2 f) (Gen.C15.crpixC2 c1 c2 f) f = c2 := by hdr_tac
/-- **scale round trips**: what expand does to CDELTi (A) / CDi_i (B) undoes what compress did -/
theorem scaleA1_roundtrip (v f : ℝ) (hf : f ≠ 0) : Gen.C15.dnA1 (Gen.C15.upA1 v f) f = v := by hdr_tac
theorem scaleB1_roundtrip (v f : ℝ) (hf : f ≠ 0) : Gen.C15.dnB1 (Gen.C15.upB1 v f) f = v := by hdr_tac
theorem scaleA2_roundtrip (v f : ℝ) (hf : f ≠ 0) : Gen.C15.dnA2 (Gen.C15.upA2 v f) f = v := by hdr_tac
theorem scaleB2_roundtrip (v f : ℝ) (hf : f ≠ 0) : Gen.C15.dnB2 (Gen.C15.upB2 v f) f = v := by hdr_tac

/-- **keyword dispatch**, axis 1: with only CDELT1 it is CDELT1 that is rescaled, with only CD1_1 it is CD1_1, with
    both it is one of them and the same one in compress and in expand (evaluated on the regenerated chains) -/
theorem key1_table : Gen.C15.keyC1 1 0 = 1 ∧ Gen.C15.keyC1 0 1 = 2 ∧ (Gen.C15.keyC1 1 1 = 1 ∨ Gen.C15.keyC1 1 1 = 2) ∧
    Gen.C15.keyE1 1 0 = 1 ∧ Gen.C15.keyE1 0 1 = 2 ∧ Gen.C15.keyE1 1 1 = Gen.C15.keyC1 1 1 := by decide
theorem key2_table : Gen.C15.keyC2 1 0 = 1 ∧ Gen.C15.keyC2 0 1 = 2 ∧ (Gen.C15.keyC2 1 1 = 1 ∨ Gen.C15.keyC2 1 1 = 2) ∧
    Gen.C15.keyE2 1 0 = 1 ∧ Gen.C15.keyE2 0 1 = 2 ∧ Gen.C15.keyE2 1 1 = Gen.C15.keyC2 1 1 := by decide
/-- with neither keyword both functions refuse (code 0) -/
theorem key_none : Gen.C15.keyC1 0 0 = 0 ∧ Gen.C15.keyC2 0 0 = 0 ∧ Gen.C15.keyE1 0 0 = 0 ∧ Gen.C15.keyE2 0 0 = 0 := by decide

theorem gen_hdr_laws : HdrLaws genHdr :=
  ⟨crpix1_roundtrip, crpix2_roundtrip, scaleA1_roundtrip, scaleB1_roundtrip, scaleA2_roundtrip, scaleB2_roundtrip,
   key1_table, key2_table⟩

/-- unfolds the regenerated BN_* bookkeeping (or its hand fallback) -/
macro "bn_tac" : tactic => `(tactic|
  first
    | rfl
    | (simp [Gen.C15.bnCfac, Gen.C15.bnNpx1, Gen.C15.bnNpx2, Gen.C15.bnRpx1, Gen.C15.bnRpx2, Gen.C15.outRows,
         Gen.C15.outCols, Gen.C15.bnDeleted, Aegean.Model.C15.bnCfacHand, Aegean.Model.C15.bnNpx1Hand,
         Aegean.Model.C15.bnNpx2Hand, Aegean.Model.C15.bnRpx1Hand, Aegean.Model.C15.bnRpx2Hand,
         Aegean.Model.C15.outRowsHand, Aegean.Model.C15.outColsHand, Aegean.Model.C15.bnDeletedHand]))

/-- BN_CFAC holds the factor, BN_RPX1 / BN_RPX2 the two residuals -/
theorem bn_cfac (f n1 n2 lx ly : Nat) : Gen.C15.bnCfac f n1 n2 lx ly = f := by bn_tac
theorem bn_rpx1 (f n1 n2 lx ly : Nat) : Gen.C15.bnRpx1 f n1 n2 lx ly = lx := by bn_tac
theorem bn_rpx2 (f n1 n2 lx ly : Nat) : Gen.C15.bnRpx2 f n1 n2 lx ly = ly := by bn_tac
/-- **shape round trip**: the two mgrid bounds of expand, read from the BN_NPX* cards compress wrote, are the
    original (NAXIS2, NAXIS1) -/
theorem bn_shape_roundtrip (f n1 n2 lx ly : Nat) :
    Gen.C15.outRows (Gen.C15.bnNpx1 f n1 n2 lx ly) (Gen.C15.bnNpx2 f n1 n2 lx ly) = n2 ∧
    Gen.C15.outCols (Gen.C15.bnNpx1 f n1 n2 lx ly) (Gen.C15.bnNpx2 f n1 n2 lx ly) = n1 := by
  constructor <;> bn_tac
/-- expand deletes all five BN_* cards -/
theorem bn_all_deleted : Gen.C15.bnDeleted 0 = 31 := by decide

theorem gen_bn_laws : BnLaws genBn :=
  ⟨bn_cfac, bn_rpx1, bn_rpx2, fun f n1 n2 lx ly => (bn_shape_roundtrip f n1 n2 lx ly).1,
   fun f n1 n2 lx ly => (bn_shape_roundtrip f n1 n2 lx ly).2, bn_all_deleted⟩

/-- **load_dispatch_table** (round 8): `load_file_or_hdu`, through which compress, expand (and, via expand,
    load_image_band) take their input, uses an HDUList as it is and OPENS every kind of file name — a `str`, a
    `pathlib.Path`, any other `os.PathLike` — (read off the regenerated isinstance chain; "file or in-memory HDU
    input" in the property's quantifier does not say which type names the file) -/
theorem load_dispatch_table :
    Gen.C15.loadAction 0 = 0 ∧ Gen.C15.loadAction 1 = 1 ∧ Gen.C15.loadAction 2 = 1 := by decide

/-! ### The round trip under study -/

/-- `expand(compress(img, f))` with the regenerated index arithmetic, for node-coordinate functions
    `nodeRow nodeCol` -/
noncomputable abbrev rtWith (nodeRow nodeCol : Nat → Nat → Nat → Nat → Nat) (f : Nat) (h : Hdr ℝ) (im : Img ℝ) :=
  roundTrip Gen.C15.nxOf Gen.C15.nyOf Gen.C15.lcxOf Gen.C15.lcyOf nodeRow nodeCol genHdr genBn f h im

/-- … with the node coordinates exactly as the code computes them -/
noncomputable abbrev rt (f : Nat) (h : Hdr ℝ) (im : Img ℝ) := rtWith Gen.C15.nodeRow Gen.C15.nodeCol f h im

/-- … with `int(lc / factor)` taken as the natural-number quotient `lc / factor` -/
def natRow (k _r1 r2 f : Nat) : Nat := nodeHand k r2 f
def natCol (k r1 _r2 f : Nat) : Nat := nodeHand k r1 f
noncomputable abbrev rtNat (f : Nat) (h : Hdr ℝ) (im : Img ℝ) := rtWith natRow natCol f h im

/-- the node coordinates are `k·f` for the residuals `compress` writes for this image -/
def NodesOK (nodeRow nodeCol : Nat → Nat → Nat → Nat → Nat) (f rows cols : Nat) : Prop :=
  (∀ k, nodeRow k (rows % f) (cols % f) f = k * f) ∧ (∀ k, nodeCol k (rows % f) (cols % f) f = k * f)

theorem gen_nodes_ok (f rows cols : Nat) (hf : 0 < f) (h64 : f ≤ 64) :
    NodesOK Gen.C15.nodeRow Gen.C15.nodeCol f rows cols :=
  ⟨fun k => nodeRow_eq k _ _ f h64 (Nat.mod_lt _ hf), fun k => nodeCol_eq k _ _ f h64 (Nat.mod_lt _ hf)⟩

theorem nat_nodes_ok (f rows cols : Nat) (hf : 0 < f) : NodesOK natRow natCol f rows cols :=
  ⟨fun k => by simp only [natRow, nodeHand]; rw [Nat.div_eq_of_lt (Nat.mod_lt _ hf), Nat.add_zero],
   fun k => by simp only [natCol, nodeHand]; rw [Nat.div_eq_of_lt (Nat.mod_lt _ hf), Nat.add_zero]⟩

/-- the explicit value of the round trip (from `Proofs.C15.roundTrip_eq`) -/
theorem rt_value {nodeRow nodeCol : Nat → Nat → Nat → Nat → Nat} (f : Nat) (hf : 0 < f) (h : Hdr ℝ) (im : Img ℝ)
    (wf : WF h im) (N : NodesOK nodeRow nodeCol f im.rows im.cols) {h' : Hdr ℝ} {out : Img ℝ}
    (hrt : rtWith nodeRow nodeCol f h im = .ok (h', out)) :
    h' = { naxis1 := h.naxis1, naxis2 := h.naxis2,
           crpix1 := h.crpix1, crpix2 := h.crpix2,
           cdelt1 := h.cdelt1, cd11 := h.cd11, cdelt2 := h.cdelt2, cd22 := h.cd22, bn := none, other := h.other } ∧
    out = { rows := h.naxis2, cols := h.naxis1,
            px := interp2 (fun k => k * f) (fun k => k * f) ((im.rows + f - 1) / f + 1) ((im.cols + f - 1) / f + 1)
                    (cpx f im) } := by
  have e := roundTrip_eq gen_idx_laws gen_hdr_laws gen_bn_laws f hf h im wf N.1 N.2
  unfold rtWith at hrt
  rw [e] at hrt
  have := Except.ok.inj hrt
  exact ⟨(Prod.mk.inj this).1.symm, (Prod.mk.inj this).2.symm⟩

/-! ### The property, clause by clause

  In every theorem: `f ≥ 1`, `WF h im` (image ≥ 2 × 2, header describes it, pixel scale present),
  `N : NodesOK …` (discharged by `gen_nodes_ok` for `f ≤ 64`, by `nat_nodes_ok` for every `f`).  -/

/-- **succeeds**: compress accepts the input and expand accepts what compress produced — in
    particular `RegularGridInterpolator` finds a strictly ascending grid containing every pixel. -/
theorem succeeds {nodeRow nodeCol : Nat → Nat → Nat → Nat → Nat} (f : Nat) (hf : 0 < f) (h : Hdr ℝ) (im : Img ℝ)
    (wf : WF h im) (N : NodesOK nodeRow nodeCol f im.rows im.cols) :
    ∃ h' out, rtWith nodeRow nodeCol f h im = .ok (h', out) :=
  ⟨_, _, roundTrip_eq gen_idx_laws gen_hdr_laws gen_bn_laws f hf h im wf N.1 N.2⟩

/-- **succeeds**, the reason, on the regenerated definitions themselves: with `nx = nxOf rows cols f`
    the `nx + 1` row-node coordinates `nodeRow 0 … nodeRow nx` start at 0, are strictly increasing
    and reach at least the last row `rows − 1` (this is what the extra copied row buys), so no pixel
    is ever outside the grid; likewise for columns.  Holds for `f > rows` and non-multiples. -/
theorem grid_covers (rows cols f : Nat) (hf : 0 < f) (h64 : f ≤ 64) (hr : 0 < rows) (hc : 0 < cols) :
    let r1 := Gen.C15.lcxOf rows cols f
    let r2 := Gen.C15.lcyOf rows cols f
    (Gen.C15.nodeRow 0 r1 r2 f = 0 ∧ Gen.C15.nodeCol 0 r1 r2 f = 0) ∧
    (∀ k, Gen.C15.nodeRow k r1 r2 f < Gen.C15.nodeRow (k + 1) r1 r2 f) ∧
    (∀ k, Gen.C15.nodeCol k r1 r2 f < Gen.C15.nodeCol (k + 1) r1 r2 f) ∧
    rows - 1 < Gen.C15.nodeRow (Gen.C15.nxOf rows cols f) r1 r2 f ∧
    cols - 1 < Gen.C15.nodeCol (Gen.C15.nyOf rows cols f) r1 r2 f ∧
    -- and the last *decimation* node is inside the image
    Gen.C15.nodeRow (Gen.C15.nxOf rows cols f - 1) r1 r2 f ≤ rows - 1 ∧
    Gen.C15.nodeCol (Gen.C15.nyOf rows cols f - 1) r1 r2 f ≤ cols - 1 := by
  intro r1 r2
  have R : ∀ k, Gen.C15.nodeRow k r1 r2 f = k * f :=
    fun k => nodeRow_eq k _ _ f h64 (by simp only [r2, lcyOf_mod]; exact Nat.mod_lt _ hf)
  have C : ∀ k, Gen.C15.nodeCol k r1 r2 f = k * f :=
    fun k => nodeCol_eq k _ _ f h64 (by simp only [r1, lcxOf_mod]; exact Nat.mod_lt _ hf)
  have br := ceil_bounds rows f hf hr
  have bc := ceil_bounds cols f hf hc
  simp only [R, C, nxOf_ceil rows cols f hf, nyOf_ceil rows cols f hf]
  refine ⟨⟨by simp, by simp⟩, fun k => Nat.mul_lt_mul_of_pos_right (Nat.lt_succ_self k) hf,
    fun k => Nat.mul_lt_mul_of_pos_right (Nat.lt_succ_self k) hf, by omega, by omega, by omega, by omega⟩

/-- **shape_restored**: the expanded image and its header have the original dimensions. -/
theorem shape_restored {nodeRow nodeCol : Nat → Nat → Nat → Nat → Nat} (f : Nat) (hf : 0 < f) (h : Hdr ℝ) (im : Img ℝ)
    (wf : WF h im) (N : NodesOK nodeRow nodeCol f im.rows im.cols) {h' : Hdr ℝ} {out : Img ℝ}
    (hrt : rtWith nodeRow nodeCol f h im = .ok (h', out)) :
    ShapeRestored im.rows im.cols out.rows out.cols ∧ h'.naxis1 = h.naxis1 ∧ h'.naxis2 = h.naxis2 := by
  obtain ⟨e1, e2⟩ := rt_value f hf h im wf N hrt
  subst e1 e2
  exact ⟨⟨wf.naxis2, wf.naxis1⟩, rfl, rfl⟩

/-- **keywords_restored**: CRPIX1/2 and whichever of CDELTi / CDi_i carries the pixel scale come back exactly (by the
    round-trip obligations `crpix1_roundtrip … scaleB2_roundtrip`, `key1_table`, `key2_table` on the regenerated
    formulas: `((c + f − 1)/f − 1)·f + 1 = c`, `v·f/f = v` on the pinned tree); the other keyword of each pair is untouched. -/
theorem keywords_restored {nodeRow nodeCol : Nat → Nat → Nat → Nat → Nat} (f : Nat) (hf : 0 < f) (h : Hdr ℝ) (im : Img ℝ)
    (wf : WF h im) (N : NodesOK nodeRow nodeCol f im.rows im.cols) {h' : Hdr ℝ} {out : Img ℝ}
    (hrt : rtWith nodeRow nodeCol f h im = .ok (h', out)) :
    h'.crpix1 = h.crpix1 ∧ h'.crpix2 = h.crpix2 ∧
    h'.cdelt1 = h.cdelt1 ∧ h'.cd11 = h.cd11 ∧ h'.cdelt2 = h.cdelt2 ∧ h'.cd22 = h.cd22 := by
  obtain ⟨e1, _⟩ := rt_value f hf h im wf N hrt
  subst e1
  exact ⟨rfl, rfl, rfl, rfl, rfl, rfl⟩

/-- **other_keys_unchanged**: every card other than NAXISi, CRPIXi, the scale keyword of each axis and
    BN_* — in particular the off-diagonal CD1_2 / CD2_1 of a rotated image, PCi_j, CROTA2, CRVALi,
    CTYPEi — has the same value after the round trip, and none appears or disappears. -/
theorem other_keys_unchanged {nodeRow nodeCol : Nat → Nat → Nat → Nat → Nat} (f : Nat) (hf : 0 < f) (h : Hdr ℝ) (im : Img ℝ)
    (wf : WF h im) (N : NodesOK nodeRow nodeCol f im.rows im.cols) {h' : Hdr ℝ} {out : Img ℝ}
    (hrt : rtWith nodeRow nodeCol f h im = .ok (h', out)) : h'.other = h.other := by
  obtain ⟨e1, _⟩ := rt_value f hf h im wf N hrt
  subst e1; rfl

/-- the compressed header in between: it *is* marked compressed (BN_CFAC = f, BN_RPX1/2 = the residuals, BN_NPX*
    such that expand reads back the original shape), its reference pixel and other cards are as the regenerated
    formulas say, its NAXIS match its data -/
theorem compressed_header (f : Nat) (hf : 0 < f) (h : Hdr ℝ) (im : Img ℝ) (wf : WF h im) :
    ∃ hc c bn, compress Gen.C15.nxOf Gen.C15.nyOf Gen.C15.lcxOf Gen.C15.lcyOf genHdr genBn f h im = .ok (hc, c) ∧
      hc.bn = some bn ∧ bn.cfac = f ∧ bn.rpx1 = im.rows % f ∧ bn.rpx2 = im.cols % f ∧
      Gen.C15.outRows bn.npx1 bn.npx2 = h.naxis2 ∧ Gen.C15.outCols bn.npx1 bn.npx2 = h.naxis1 ∧
      hc.crpix1 = Gen.C15.crpixC1 h.crpix1 h.crpix2 f ∧ hc.crpix2 = Gen.C15.crpixC2 h.crpix1 h.crpix2 f ∧
      hc.other = h.other ∧     -- compress itself leaves every other card (CD1_2, CD2_1, …) alone
      c.rows = (im.rows + f - 1) / f + 1 ∧ c.cols = (im.cols + f - 1) / f + 1 ∧
      hc.naxis2 = c.rows ∧ hc.naxis1 = c.cols := by
  have hfr : (f : ℝ) ≠ 0 := by
    have : (0 : ℝ) < f := by exact_mod_cast hf
    exact ne_of_gt this
  obtain ⟨a1, b1, u1, _⟩ := scale_roundtrip genHdr.keyC1 genHdr.keyE1 genHdr.upA1 genHdr.upB1 genHdr.dnA1 genHdr.dnB1
    (f : ℝ) hfr gen_hdr_laws.a1 gen_hdr_laws.b1 gen_hdr_laws.k1 h.cdelt1 h.cd11 wf.scale1
  obtain ⟨a2, b2, u2, _⟩ := scale_roundtrip genHdr.keyC2 genHdr.keyE2 genHdr.upA2 genHdr.upB2 genHdr.dnA2 genHdr.dnB2
    (f : ℝ) hfr gen_hdr_laws.a2 gen_hdr_laws.b2 gen_hdr_laws.k2 h.cdelt2 h.cd22 wf.scale2
  refine ⟨_, _, _, compress_ok gen_idx_laws genHdr genBn f hf h im wf.rows wf.cols u1 u2, rfl, ?_, ?_, ?_, ?_, ?_,
    rfl, rfl, rfl, rfl, rfl, rfl, rfl⟩
  · exact bn_cfac f h.naxis1 h.naxis2 (im.rows % f) (im.cols % f)
  · exact bn_rpx1 f h.naxis1 h.naxis2 (im.rows % f) (im.cols % f)
  · exact bn_rpx2 f h.naxis1 h.naxis2 (im.rows % f) (im.cols % f)
  · exact (bn_shape_roundtrip f h.naxis1 h.naxis2 (im.rows % f) (im.cols % f)).1
  · exact (bn_shape_roundtrip f h.naxis1 h.naxis2 (im.rows % f) (im.cols % f)).2

/-- **bn_keys_removed**: no BN_* keyword survives the round trip (so `is_compressed` is false). -/
theorem bn_keys_removed {nodeRow nodeCol : Nat → Nat → Nat → Nat → Nat} (f : Nat) (hf : 0 < f) (h : Hdr ℝ) (im : Img ℝ)
    (wf : WF h im) (N : NodesOK nodeRow nodeCol f im.rows im.cols) {h' : Hdr ℝ} {out : Img ℝ}
    (hrt : rtWith nodeRow nodeCol f h im = .ok (h', out)) : h'.bn = none := by
  obtain ⟨e1, _⟩ := rt_value f hf h im wf N hrt
  subst e1; rfl

/-- **node_exact**: every decimation node `(i·f, j·f)` inside the image gets its original value back. -/
theorem node_exact {nodeRow nodeCol : Nat → Nat → Nat → Nat → Nat} (f : Nat) (hf : 0 < f) (h : Hdr ℝ) (im : Img ℝ)
    (wf : WF h im) (N : NodesOK nodeRow nodeCol f im.rows im.cols) {h' : Hdr ℝ} {out : Img ℝ}
    (hrt : rtWith nodeRow nodeCol f h im = .ok (h', out)) :
    NodeExact f im.rows im.cols im.px out.px := by
  obtain ⟨_, e2⟩ := rt_value f hf h im wf N hrt
  subst e2
  intro i j hi hj
  exact node_value f hf im i j hi hj

/-- **within_range**: any interval containing the compressed samples contains every expanded pixel. -/
theorem within_range {nodeRow nodeCol : Nat → Nat → Nat → Nat → Nat} (f : Nat) (hf : 0 < f) (h : Hdr ℝ) (im : Img ℝ)
    (wf : WF h im) (N : NodesOK nodeRow nodeCol f im.rows im.cols) {h' : Hdr ℝ} {out : Img ℝ}
    (hrt : rtWith nodeRow nodeCol f h im = .ok (h', out)) :
    WithinRange f im.rows im.cols im.px out.px := by
  obtain ⟨_, e2⟩ := rt_value f hf h im wf N hrt
  subst e2
  exact within_range_explicit f hf im

/-- **within_range**, local form: each expanded pixel is a convex combination of the four compressed
    samples around it, with weights `(1−ty)(1−tx), (1−ty)·tx, ty·(1−tx), ty·tx`, `0 ≤ ty, tx < 1`. -/
theorem convex_combination {nodeRow nodeCol : Nat → Nat → Nat → Nat → Nat} (f : Nat) (hf : 0 < f) (h : Hdr ℝ) (im : Img ℝ)
    (wf : WF h im) (N : NodesOK nodeRow nodeCol f im.rows im.cols) {h' : Hdr ℝ} {out : Img ℝ}
    (hrt : rtWith nodeRow nodeCol f h im = .ok (h', out)) (r c : Nat) (hr : r < im.rows) (hc : c < im.cols) :
    ∃ (i j : Nat) (ty tx : ℝ), i + 1 ≤ (im.rows + f - 1) / f ∧ j + 1 ≤ (im.cols + f - 1) / f ∧
      0 ≤ ty ∧ ty < 1 ∧ 0 ≤ tx ∧ tx < 1 ∧
      out.px r c = bilin (cpx f im i j) (cpx f im i (j + 1)) (cpx f im (i + 1) j) (cpx f im (i + 1) (j + 1)) ty tx := by
  obtain ⟨_, e2⟩ := rt_value f hf h im wf N hrt
  subst e2
  exact pixel_convex f hf im r c hr hc

/-- **linear_exact**: on every complete cell on which the image is `a + b·r + g·c + d·r·c` (affine for
    `d = 0`; what BANE's own interpolation writes), expand ∘ compress is the identity — on the
    closed cell, edges and corners included. -/
theorem linear_exact {nodeRow nodeCol : Nat → Nat → Nat → Nat → Nat} (f : Nat) (hf : 0 < f) (h : Hdr ℝ) (im : Img ℝ)
    (wf : WF h im) (N : NodesOK nodeRow nodeCol f im.rows im.cols) {h' : Hdr ℝ} {out : Img ℝ}
    (hrt : rtWith nodeRow nodeCol f h im = .ok (h', out)) :
    LinearExact f im.rows im.cols im.px out.px := by
  obtain ⟨_, e2⟩ := rt_value f hf h im wf N hrt
  subst e2
  exact linear_exact_explicit f hf im

/-! ### The property as one statement -/

/-- everything the property asks of one round trip -/
structure Holds (f : Nat) (h : Hdr ℝ) (im : Img ℝ) (h' : Hdr ℝ) (out : Img ℝ) : Prop where
  shape : ShapeRestored im.rows im.cols out.rows out.cols ∧ h'.naxis1 = h.naxis1 ∧ h'.naxis2 = h.naxis2
  keywords : h'.crpix1 = h.crpix1 ∧ h'.crpix2 = h.crpix2 ∧
    h'.cdelt1 = h.cdelt1 ∧ h'.cd11 = h.cd11 ∧ h'.cdelt2 = h.cdelt2 ∧ h'.cd22 = h.cd22
  others : h'.other = h.other
  bn : h'.bn = none
  nodes : NodeExact f im.rows im.cols im.px out.px
  range : WithinRange f im.rows im.cols im.px out.px
  linear : LinearExact f im.rows im.cols im.px out.px

/-- **C15 for the code's own node arithmetic, every factor 1 … 64**, every shape ≥ 2 × 2 (multiples
    of the factor or not, factor larger than the image or not), CDELT or CD headers. -/
theorem roundtrip_holds (f : Nat) (hf : 1 ≤ f) (h64 : f ≤ 64) (h : Hdr ℝ) (im : Img ℝ) (wf : WF h im) :
    ∃ h' out, rt f h im = .ok (h', out) ∧ Holds f h im h' out := by
  have N := gen_nodes_ok f im.rows im.cols hf h64
  obtain ⟨h', out, hrt⟩ := succeeds f hf h im wf N
  exact ⟨h', out, hrt, shape_restored f hf h im wf N hrt, keywords_restored f hf h im wf N hrt,
    other_keys_unchanged f hf h im wf N hrt, bn_keys_removed f hf h im wf N hrt, node_exact f hf h im wf N hrt, within_range f hf h im wf N hrt,
    linear_exact f hf h im wf N hrt⟩

/-- **C15 for every factor ≥ 1**, with `int(lc / factor)` read as the natural-number quotient. -/
theorem roundtrip_holds_anyFactor (f : Nat) (hf : 1 ≤ f) (h : Hdr ℝ) (im : Img ℝ) (wf : WF h im) :
    ∃ h' out, rtNat f h im = .ok (h', out) ∧ Holds f h im h' out := by
  have N := nat_nodes_ok f im.rows im.cols hf
  obtain ⟨h', out, hrt⟩ := succeeds f hf h im wf N
  exact ⟨h', out, hrt, shape_restored f hf h im wf N hrt, keywords_restored f hf h im wf N hrt,
    other_keys_unchanged f hf h im wf N hrt, bn_keys_removed f hf h im wf N hrt, node_exact f hf h im wf N hrt, within_range f hf h im wf N hrt,
    linear_exact f hf h im wf N hrt⟩

/-! ### The hypotheses are forced: what happens outside them (each observed on the real code by the
    malformed stream of `corr_C15.py`) -/

/-- factor 0 is rejected (the code returns None) -/
theorem zero_factor_rejected (h : Hdr ℝ) (im : Img ℝ) :
    compress Gen.C15.nxOf Gen.C15.nyOf Gen.C15.lcxOf Gen.C15.lcyOf genHdr genBn 0 h im = .error .badFactor := by
  simp [compress]

/-- an axis of length < 2 is rejected (`np.squeeze` drops it and `data.shape[1]` raises IndexError) -/
theorem thin_image_rejected (f : Nat) (hf : 0 < f) (h : Hdr ℝ) (im : Img ℝ) (hs : im.rows < 2 ∨ im.cols < 2) :
    compress Gen.C15.nxOf Gen.C15.nyOf Gen.C15.lcxOf Gen.C15.lcyOf genHdr genBn f h im = .error .squeezed := by
  have : f ≠ 0 := by omega
  unfold compress
  rw [if_neg this, if_pos hs]

/-- a header without CDELT1 and CD1_1 is rejected (the code logs an error and returns None) -/
theorem missing_scale_rejected (f : Nat) (hf : 0 < f) (h : Hdr ℝ) (im : Img ℝ) (hr : 2 ≤ im.rows) (hc : 2 ≤ im.cols)
    (h1 : h.cdelt1 = none) (h2 : h.cd11 = none) :
    compress Gen.C15.nxOf Gen.C15.nyOf Gen.C15.lcxOf Gen.C15.lcyOf genHdr genBn f h im = .error .noScale1 := by
  have hf0 : f ≠ 0 := by omega
  have h2' : ¬ (im.rows < 2 ∨ im.cols < 2) := by omega
  unfold compress
  simp only [hf0, if_false, h2', nxOf_ceil _ _ _ hf, nyOf_ceil _ _ _ hf, range_length _ _ hf, ne_eq,
    not_true_eq_false, or_self, h1, h2, scaleWith, genHdr, Option.isSome_none, Bool.false_eq_true, if_false,
    (by decide : Gen.C15.keyC1 0 0 = 0)]

/-- a file that is not marked compressed is returned unchanged -/
theorem uncompressed_unchanged (h : Hdr ℝ) (im : Img ℝ) (hb : h.bn = none) :
    expand Gen.C15.nodeRow Gen.C15.nodeCol genHdr genBn h im = .ok (h, im) := by
  simp [expand, hb]

/-- **negation witness**: were the residual keyword ever to shift the grid (offset 1 instead of 0, as a
    residual ≥ factor would make it), the grid would start at `f > 0` and pixel 0 would be out of
    bounds: `covers` is false, `RegularGridInterpolator` raises. -/
theorem shifted_grid_not_covering (f m n : Nat) (hf : 0 < f) (hn : 0 < n) :
    covers (fun k => (k + 1) * f) m n = false := by
  have h0 : ¬ n = 0 := by omega
  simp only [covers, h0, decide_false, Bool.false_or, Bool.and_eq_false_imp, decide_eq_true_eq]
  intro h
  rw [Nat.zero_add, Nat.one_mul] at h
  omega

/-! ### Non-vacuity -/

/-- a concrete well-formed input: 7 × 5 ramp, CDELT on axis 1 and CD on axis 2 -/
noncomputable def exH : Hdr ℝ :=
  { naxis1 := 5, naxis2 := 7, crpix1 := 3, crpix2 := 5.5, cdelt1 := some (-0.0125), cd11 := none,
    cdelt2 := none, cd22 := some 0.03125, bn := none,
    other := [("CD1_2", "0.004"), ("CD2_1", "-0.004"), ("CTYPE1", "RA---SIN")] }
noncomputable def exI : Img ℝ := { rows := 7, cols := 5, px := fun r c => 2 + 3 * r - c }

example : WF exH exI := ⟨by decide, by decide, rfl, rfl, Or.inl rfl, Or.inr rfl⟩

example : ∃ h' out, rt 3 exH exI = .ok (h', out) ∧ Holds 3 exH exI h' out :=
  roundtrip_holds 3 (by decide) (by decide) exH exI ⟨by decide, by decide, rfl, rfl, Or.inl rfl, Or.inr rfl⟩

-- 7 rows, 5 columns, factor 3: 3 and 2 decimation nodes, residuals 1 and 2, nodes at 0, 3, 6, 9
example : Gen.C15.nxOf 7 5 3 = 3 ∧ Gen.C15.nyOf 7 5 3 = 2 ∧ Gen.C15.lcxOf 7 5 3 = 1 ∧ Gen.C15.lcyOf 7 5 3 = 2 := by
  decide
example : Gen.C15.nodeRow 3 1 2 3 = 9 ∧ Gen.C15.nodeCol 2 1 2 3 = 6 := by decide +kernel
-- factor larger than the image: one decimation node, the copied last row sits at coordinate f
example : Gen.C15.nxOf 2 2 64 = 1 ∧ Gen.C15.nodeRow 1 2 2 64 = 64 := by decide +kernel
-- the cell (0, 0) of the example is complete and the example image is linear on it
example : CompleteCell 3 7 5 0 0 := ⟨by decide, by decide⟩
example : LinearOnCell 3 0 0 exI.px := ⟨2, 3, -1, 0, fun r c _ => by simp [exI]; ring⟩

end Aegean.Properties.C15
