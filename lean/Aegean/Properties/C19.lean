/-
  C19 — Regrouping = eps-connected partition of the catalogue, independent of row order.

  * `Gen.C19.epsAeReg / epsSF / resizeA / resizeB` are regenerated from `CLI/AeReg.py`,
    `source_finder.py` and `cluster.resize` on every run; the obligations of §1 are about them.
  * The graph logic is stated under the contract of `DBSCAN(min_samples = 1)`
    (`Spec.C19.IsComponents`: labels = connected components of the `≤ eps` graph); DBSCAN's
    internals are sklearn's.  For the executable model the contract is not assumed but *checked*
    per case by `checkComponents`, proved sound in `Proofs/C19Graph.lean`.
  * The hand model (`Model/C19.lean`) is tied to the code by `harness/corr_C19.py`.
-/
import Aegean.Generated.C19
import Aegean.Model.C19
import Aegean.Spec.C19
import Aegean.Proofs.C19Chord
import Aegean.Proofs.C19Graph
import Aegean.Proofs.C19Relabel
import Aegean.Proofs.C19Labels
import Aegean.Proofs.C19Greedy

-- the closing tactic after `simp only […] <;>` is needed only for some (harmless) rewrites of the source
set_option linter.unusedTactic false
-- simp sets also name the hand fall-backs (`…Hand`), which are unused when the translation succeeds
set_option linter.unusedSimpArgs false
set_option linter.unreachableTactic false

namespace Aegean.Properties.C19
open Gen.C19 Aegean.Model.C19 Aegean.Spec.C19 Aegean.C19

/-! ### 1. Obligations on the regenerated arithmetic -/

/-- the AeReg call site turns a linking length of `x` arcmin into the chord `2 sin(ε/2)`,
    `ε = radians(x/60)`.  (With the pinned `sin(ε)` this does not check.) -/
theorem epsAeReg_is_chord (x : ℝ) : epsAeReg x = 2 * Real.sin (x / 60 * (Real.pi / 180) / 2) := by
  simp only [epsAeReg, epsHand, chordOfAngle, R.real_sin, R.real_radians, R.real_ofNat, Nat.cast_ofNat]
    <;> ring_nf

/-- the same for the priorized-fitting call site -/
theorem epsSF_is_chord (x : ℝ) : epsSF x = 2 * Real.sin (x / 60 * (Real.pi / 180) / 2) := by
  simp only [epsSF, epsHand, chordOfAngle, R.real_sin, R.real_radians, R.real_ofNat, Nat.cast_ofNat]
    <;> ring_nf

theorem resizeA_eq (a b pa pb r : ℝ) :
    resizeA a b pa pb r = Real.sqrt (a ^ 2 + pa ^ 2 * (1 - 1 / r ^ 2)) := by
  simp only [resizeA, resizeHand, R.real_sqrt, R.real_npow, R.real_ofNat, Nat.cast_one]
    <;> (congr 1; ring)

theorem resizeB_eq (a b pa pb r : ℝ) :
    resizeB a b pa pb r = Real.sqrt (b ^ 2 + pb ^ 2 * (1 - 1 / r ^ 2)) := by
  simp only [resizeB, resizeHand, R.real_sqrt, R.real_npow, R.real_ofNat, Nat.cast_one]
    <;> (congr 1; ring)

/-- the embedded catalogue row, assembled from the three regenerated columns of the array `regroup_dbscan`
    hands to DBSCAN -/
noncomputable def genVec (ra dec : ℝ) : V3 ℝ := embedWith vec0 vec1 vec2 ra dec

/-- **genVec_unit**: the regenerated embedding of a row `(ra, dec)` (degrees) lies on the unit sphere.
    Stated through the symmetric function `x² + y² + z²`, so the order of the three columns is irrelevant. -/
theorem genVec_unit (ra dec : ℝ) : dot (genVec ra dec) (genVec ra dec) = 1 := by
  have h1 := Real.sin_sq_add_cos_sq (ra * (Real.pi / 180))
  have h2 := Real.sin_sq_add_cos_sq (dec * (Real.pi / 180))
  simp only [genVec, embedWith, dot, vec0, vec1, vec2, vec0Hand, vec1Hand, vec2Hand, unitVecDeg, unitVec,
    R.real_cos, R.real_sin, R.real_radians]
  linear_combination (Real.cos (dec * (Real.pi / 180))) ^ 2 * h1 + h2

/-- **genVec_dot**: the inner product of two regenerated embeddings is the spherical law of cosines
    `sin δ₁ sin δ₂ + cos δ₁ cos δ₂ cos(α₁ − α₂)` (angles converted from degrees), i.e. the cosine of the
    great-circle separation of the two rows. -/
theorem genVec_dot (ra₁ dec₁ ra₂ dec₂ : ℝ) :
    dot (genVec ra₁ dec₁) (genVec ra₂ dec₂) =
      Real.sin (R.radians dec₁) * Real.sin (R.radians dec₂)
        + Real.cos (R.radians dec₁) * Real.cos (R.radians dec₂) * Real.cos (R.radians ra₁ - R.radians ra₂) := by
  simp only [genVec, embedWith, dot, vec0, vec1, vec2, vec0Hand, vec1Hand, vec2Hand, unitVecDeg, unitVec,
    R.real_cos, R.real_sin, R.real_radians]
  rw [Real.cos_sub]
  ring

/-! ### 2. Linking length = angular separation -/

/-- **chord_iff_angle** (any real inner-product space): for unit vectors and `0 ≤ ε ≤ π`,
    `‖u − v‖ ≤ 2 sin(ε/2) ↔ angle u v ≤ ε`. -/
theorem chord_iff_angle {V : Type*} [NormedAddCommGroup V] [InnerProductSpace ℝ V] (u v : V)
    (hu : ‖u‖ = 1) (hv : ‖v‖ = 1) (ε : ℝ) (h0 : 0 ≤ ε) (hπ : ε ≤ Real.pi) :
    ‖u - v‖ ≤ 2 * Real.sin (ε / 2) ↔ InnerProductGeometry.angle u v ≤ ε :=
  Aegean.C19.chord_iff_angle u v hu hv ε h0 hπ

/-- two catalogue rows (degrees), embedded by the REGENERATED columns, are linked by the AeReg conversion of `x` arcmin exactly when
    their great-circle separation `arccos(sin δ₁ sin δ₂ + cos δ₁ cos δ₂ cos Δα)` is at most
    `x` arcmin, for every linking length up to 180° -/
theorem rows_linked_iff_separation (ra₁ dec₁ ra₂ dec₂ x : ℝ) (h0 : 0 ≤ x) (h1 : x ≤ 10800) :
    chord (genVec ra₁ dec₁) (genVec ra₂ dec₂) ≤ epsAeReg x ↔
      Real.arccos (Real.sin (R.radians dec₁) * Real.sin (R.radians dec₂)
        + Real.cos (R.radians dec₁) * Real.cos (R.radians dec₂)
          * Real.cos (R.radians ra₁ - R.radians ra₂)) ≤ x / 60 * (Real.pi / 180) := by
  have hp := Real.pi_pos
  rw [epsAeReg_is_chord, ← chordOfAngle_real,
    chord_le_iff_sep _ _ (genVec_unit _ _) (genVec_unit _ _) _
      (by positivity) (by nlinarith), genVec_dot]

/-- the same for the priorized-fitting call site -/
theorem rows_linked_iff_separation_sf (ra₁ dec₁ ra₂ dec₂ x : ℝ) (h0 : 0 ≤ x) (h1 : x ≤ 10800) :
    chord (genVec ra₁ dec₁) (genVec ra₂ dec₂) ≤ epsSF x ↔
      Real.arccos (Real.sin (R.radians dec₁) * Real.sin (R.radians dec₂)
        + Real.cos (R.radians dec₁) * Real.cos (R.radians dec₂)
          * Real.cos (R.radians ra₁ - R.radians ra₂)) ≤ x / 60 * (Real.pi / 180) := by
  have hp := Real.pi_pos
  rw [epsSF_is_chord, ← chordOfAngle_real,
    chord_le_iff_sep _ _ (genVec_unit _ _) (genVec_unit _ _) _
      (by positivity) (by nlinarith), genVec_dot]

/-- negation witness for the pinned conversion: for every linking length `0 < ε ≤ π/2` there is a
    separation `θ < ε` whose chord exceeds `sin ε`, i.e. a pair closer than the linking length
    that `eps = sin(ε)` does not link -/
theorem pinned_sin_conversion_splits (ε : ℝ) (h0 : 0 < ε) (hπ : ε ≤ Real.pi / 2) :
    ∃ θ : ℝ, 0 < θ ∧ θ < ε ∧ Real.sin ε < 2 * Real.sin (θ / 2) :=
  sin_conversion_splits ε h0 hπ

/-! ### 3. Groups are the eps-connected partition (under the DBSCAN contract) -/

section contract
variable {link : Src → Src → Bool} {cat : List Src} {lab : Src → Nat} {K : Nat}

/-- **groups_partition**: every source of the catalogue lies in exactly one group; no group is
    empty; and the groups concatenated are a rearrangement of the catalogue (nothing lost,
    nothing duplicated). -/
theorem groups_partition (H : IsComponents link cat lab K) :
    (∀ s, s ∈ cat → ∃ k, (k < K ∧ s ∈ groupRows cat lab k) ∧
        ∀ k', (k' < K ∧ s ∈ groupRows cat lab k') → k' = k) ∧
    (∀ k, k < K → groupRows cat lab k ≠ []) ∧
    ((List.range K).flatMap (groupRows cat lab)).Perm cat := by
  refine ⟨?_, ?_, groups_flatten_perm cat lab K H.lt⟩
  · intro s hs
    refine ⟨lab s, ⟨H.lt s hs, (mem_groupRows cat lab _ s).mpr ⟨hs, rfl⟩⟩, ?_⟩
    intro k' ⟨_, hk'⟩
    exact ((mem_groupRows cat lab _ s).mp hk').2.symm
  · intro k hk
    obtain ⟨a, ha, hl⟩ := H.used k hk
    intro e
    have : a ∈ groupRows cat lab k := (mem_groupRows cat lab k a).mpr ⟨ha, hl⟩
    rw [e] at this
    cases this

/-- **same_group_iff_chain**: two sources share a group exactly when they are linked by a chain
    of catalogue sources whose consecutive separations do not exceed the linking length. -/
theorem same_group_iff_chain (H : IsComponents link cat lab K) (a b : Src) (ha : a ∈ cat)
    (hb : b ∈ cat) :
    (∃ k, k < K ∧ a ∈ groupRows cat lab k ∧ b ∈ groupRows cat lab k) ↔
      Chain (SrcLink link cat) a b := by
  rw [← H.comp a b ha hb]
  constructor
  · rintro ⟨k, _, h1, h2⟩
    rw [((mem_groupRows cat lab k a).mp h1).2, ((mem_groupRows cat lab k b).mp h2).2]
  · intro e
    exact ⟨lab a, H.lt a ha, (mem_groupRows cat lab _ a).mpr ⟨ha, rfl⟩,
      (mem_groupRows cat lab _ b).mpr ⟨hb, e.symm⟩⟩

/-- **perm_invariant**: for ANY permutation of the input rows (`List.Perm`), the grouping — as a
    set of sets of sources — is the same. -/
theorem perm_invariant {cat₁ cat₂ : List Src} {lab₁ lab₂ : Src → Nat} {K₁ K₂ : Nat}
    (hp : cat₁.Perm cat₂) (H₁ : IsComponents link cat₁ lab₁ K₁) (H₂ : IsComponents link cat₂ lab₂ K₂) :
    groupSets cat₁ lab₁ = groupSets cat₂ lab₂ ∧
    ∀ a b, a ∈ cat₁ → b ∈ cat₁ → (lab₁ a = lab₁ b ↔ lab₂ a = lab₂ b) :=
  ⟨groupSets_perm hp H₁ H₂, same_label_perm hp H₁ H₂⟩

/-- **labels_are_0_to_n−1_by_flux**: within the group of label `k` the source numbers are exactly
    `0 … n−1`, each once; a smaller number never has a smaller peak flux; a strictly brighter
    source always has the smaller number; equal fluxes keep their row order (stable). -/
theorem labels_are_0_to_n_by_flux (hid : (cat.map Src.id).Nodup) (k : Nat) :
    let g := groupRows cat lab k
    ((relabelGroup k g).map Src.source).Perm (List.range g.length) ∧
    (∀ a b, a ∈ g → b ∈ g → rankIn g a < rankIn g b → b.flux ≤ a.flux) ∧
    (∀ a b, a ∈ g → b ∈ g → b.flux < a.flux → rankIn g a < rankIn g b) ∧
    (∀ a b, [a, b].Sublist g → a.flux = b.flux → rankIn g a < rankIn g b) := by
  intro g
  have hg := groupRows_ids_nodup cat lab k hid
  exact ⟨relabel_sources_perm k g hg, fun a b ha hb => rank_by_flux g hg a b ha hb,
    fun a b ha hb => rank_brighter_first g hg a b ha hb, fun a b => rank_stable g hg a b⟩

/-- **labels_unique**: (island, source) pairs are unique over the whole output. -/
theorem labels_unique (hid : (cat.map Src.id).Nodup) :
    ((regroupWith cat lab K).flatten.map fun s => (s.island, s.source)).Nodup :=
  regroupWith_labels_nodup cat lab K hid

/-- the property does not say *which* integer an island gets, nor in which order groups are returned: uniqueness of
    the labels survives every injective renumbering `σ` of the island numbers (the correspondence compares the code
    with the model up to such a renumbering) -/
theorem labels_unique_up_to_renumbering (hid : (cat.map Src.id).Nodup) (σ : Nat → Nat)
    (hσ : Function.Injective σ) :
    ((regroupWith cat lab K).flatten.map fun s => (σ s.island, s.source)).Nodup := by
  have h := regroupWith_labels_nodup cat lab K hid
  have e : ((regroupWith cat lab K).flatten.map fun s => (σ s.island, s.source))
      = ((regroupWith cat lab K).flatten.map fun s => (s.island, s.source)).map (fun p => (σ p.1, p.2)) := by
    rw [List.map_map]; rfl
  rw [e]
  refine List.Nodup.map ?_ h
  intro p q hpq
  simp only [Prod.mk.injEq] at hpq
  exact Prod.ext (hσ hpq.1) hpq.2

/-- **other_attrs_unchanged**: the output, with the two labels blanked, is a rearrangement of the
    input with the two labels blanked — every source is returned once and nothing but
    `island`/`source` is touched; within a group even the order is the input order. -/
theorem other_attrs_unchanged (H : IsComponents link cat lab K) :
    ((regroupWith cat lab K).flatten.map unlabel).Perm (cat.map unlabel) ∧
    ∀ k, (relabelGroup k (groupRows cat lab k)).map unlabel = (groupRows cat lab k).map unlabel :=
  ⟨regroupWith_unlabel_perm cat lab K H.lt, fun k => relabel_unlabel k _⟩

end contract

/-! ### 4. The executable model: the contract is checked, not assumed -/

/-- **checkComponents_sound**: `checkComponents n adj K cert = true` ⇒ the labels are exactly the
    connected components. -/
theorem checkComponents_sound {n : Nat} {adj : Nat → Nat → Bool} {K : Nat} {c : Cert}
    (h : checkComponents n adj K c = true) :
    ∀ i j, i < n → j < n → (c.lab i = c.lab j ↔ Chain (RowLink n adj) i j) :=
  Aegean.C19.checkComponents_sound h

/-- whenever `regroupDbscan` answers, the answer is the relabelled partition into connected
    components -/
theorem model_is_components (link : Src → Src → Bool) (cat : List Src)
    (hid : (cat.map Src.id).Nodup) (gs : List (List Src)) (h : regroupDbscan link cat = some gs) :
    ∃ lab K, IsComponents link cat lab K ∧ gs = regroupWith cat lab K :=
  regroupDbscan_sound link cat hid gs h

/-- permutation invariance of the executable model, for all catalogues and all permutations -/
theorem model_perm_invariant (link : Src → Src → Bool) (cat₁ cat₂ : List Src)
    (hid : (cat₁.map Src.id).Nodup) (hp : cat₁.Perm cat₂) (gs₁ gs₂ : List (List Src))
    (h₁ : regroupDbscan link cat₁ = some gs₁) (h₂ : regroupDbscan link cat₂ = some gs₂) :
    ∃ lab₁ K₁ lab₂ K₂, gs₁ = regroupWith cat₁ lab₁ K₁ ∧ gs₂ = regroupWith cat₂ lab₂ K₂ ∧
      groupSets cat₁ lab₁ = groupSets cat₂ lab₂ := by
  have hid₂ : (cat₂.map Src.id).Nodup := (hp.map Src.id).nodup_iff.mp hid
  obtain ⟨lab₁, K₁, H₁, e₁⟩ := regroupDbscan_sound link cat₁ hid gs₁ h₁
  obtain ⟨lab₂, K₂, H₂, e₂⟩ := regroupDbscan_sound link cat₂ hid₂ gs₂ h₂
  exact ⟨lab₁, K₁, lab₂, K₂, e₁, e₂, groupSets_perm hp H₁ H₂⟩

/-! ### 5. `resize` -/

/-- **resize_ratio_one_id**: rescaling by ratio 1 leaves every source unchanged, with or without
    psf information -/
theorem resize_ratio_one_id (s : Shape ℝ) (ha : 0 ≤ s.a) (hb : 0 ≤ s.b) :
    resizeShape resizeA resizeB 1 s = (s.a, s.b) := by
  unfold resizeShape
  cases h : s.psf with
  | none => rfl
  | some p =>
    obtain ⟨pa, pb⟩ := p
    simp only [resizeA_eq, resizeB_eq]
    rw [resize_scalar_one s.a pa ha, resize_scalar_one s.b pb hb]

/-- **resize_never_shrinks**: a ratio `≥ 1` never makes a source smaller than it was -/
theorem resize_never_shrinks (s : Shape ℝ) (r : ℝ) (hr : 1 ≤ r) (ha : 0 ≤ s.a) (hb : 0 ≤ s.b) :
    s.a ≤ (resizeShape resizeA resizeB r s).1 ∧ s.b ≤ (resizeShape resizeA resizeB r s).2 := by
  unfold resizeShape
  cases h : s.psf with
  | none => exact ⟨le_refl _, le_refl _⟩
  | some p =>
    obtain ⟨pa, pb⟩ := p
    simp only [resizeA_eq, resizeB_eq]
    exact ⟨resize_scalar_ge s.a pa r ha hr, resize_scalar_ge s.b pb r hb hr⟩

/-- **resize_monotone**: a larger ratio never gives a smaller source than a smaller ratio does -/
theorem resize_monotone (s : Shape ℝ) (r₁ r₂ : ℝ) (h1 : 0 < r₁) (h12 : r₁ ≤ r₂) :
    (resizeShape resizeA resizeB r₁ s).1 ≤ (resizeShape resizeA resizeB r₂ s).1 ∧
    (resizeShape resizeA resizeB r₁ s).2 ≤ (resizeShape resizeA resizeB r₂ s).2 := by
  unfold resizeShape
  cases h : s.psf with
  | none => exact ⟨le_refl _, le_refl _⟩
  | some p =>
    obtain ⟨pa, pb⟩ := p
    simp only [resizeA_eq, resizeB_eq]
    exact ⟨resize_scalar_mono s.a pa r₁ r₂ h1 h12, resize_scalar_mono s.b pb r₁ r₂ h1 h12⟩

/-! ### 6. The elliptical-distance variant `regroup` (greedy, declination-sorted)

Full statement asked for: partition, each group chain-connected, permutation invariance for
distinct declinations.  All three are proved of the model for an arbitrary nearness test `near`
(the code's `|Δra| ≤ far/cos δ ∧ norm_dist < eps`); `norm_dist` itself is the code's and enters
only through the correspondence. -/

/-- every source is placed in exactly one group, no group is empty -/
theorem greedy_partition (near : Src → Src → Bool) (cat : List Src) :
    (greedy near cat).flatten.Perm cat ∧ ∀ g, g ∈ greedy near cat → g ≠ [] :=
  ⟨Aegean.C19.greedy_partition near cat, Aegean.C19.greedy_nonempty near cat⟩

/-- every group is chain-connected through its own members -/
theorem greedy_groups_chain_connected (near : Src → Src → Bool) (cat : List Src) :
    ∀ g, g ∈ greedy near cat → ∀ a, a ∈ g → ∀ b, b ∈ g → Chain (SrcLink near g) a b :=
  Aegean.C19.greedy_chain_connected near cat

/-- for pairwise distinct declinations the groups (and the labels) do not depend on the row order -/
theorem greedy_perm_invariant (near : Src → Src → Bool) (cat₁ cat₂ : List Src)
    (hp : cat₁.Perm cat₂) (hd : cat₁.Pairwise (fun a b => a.dec ≠ b.dec)) :
    greedy near cat₁ = greedy near cat₂ ∧ regroupGreedy near cat₁ = regroupGreedy near cat₂ :=
  ⟨Aegean.C19.greedy_perm_invariant near cat₁ cat₂ hp hd,
   Aegean.C19.regroupGreedy_perm_invariant near cat₁ cat₂ hp hd⟩

/-- relabelling the greedy groups changes nothing but the labels -/
theorem greedy_other_attrs_unchanged (near : Src → Src → Bool) (cat : List Src) :
    (regroupGreedy near cat).map (fun g => g.map unlabel) = (greedy near cat).map (fun g => g.map unlabel) :=
  regroupGreedy_unlabel near cat

/-! ### 7. Non-vacuity and negation witnesses -/

/-- a path 0–1–2 plus an isolated row 3: the right labelling with a spanning forest checks … -/
def exAdj : Nat → Nat → Bool := fun i j => (i == 0 && j == 1) || (i == 1 && j == 2)
def exCert : Cert :=
  { lab := fun i => if i = 3 then 1 else 0, par := fun i => if i = 0 then 0 else if i = 3 then 3 else i - 1,
    dep := fun i => if i = 3 then 0 else i, root := fun k => if k = 0 then 0 else 3 }

example : checkComponents 4 exAdj 2 exCert = true := by decide

/-- … a labelling that splits the path is rejected (a link leaves a class) … -/
example : checkComponents 4 exAdj 3
    { exCert with lab := fun i => if i = 3 then 1 else if i = 2 then 2 else 0,
                  par := fun i => if i = 1 then 0 else i, root := fun k => if k = 0 then 0 else if k = 1 then 3 else 2 }
    = false := by decide

/-- … and so is one that merges row 3 into the path (no linked parent) -/
example : checkComponents 4 exAdj 1
    { exCert with lab := fun _ => 0, root := fun _ => 0 } = false := by decide

/-- the pinned conversion at 10°: `sin ε < 2 sin(ε/2)` strictly -/
example : Real.sin (Real.pi / 18) < 2 * Real.sin (Real.pi / 18 / 2) :=
  sin_lt_chord _ (by positivity) (by linarith [Real.pi_pos])

end Aegean.Properties.C19
