/-
  C02 — Islands are exactly the seeded, flood-thresholded 8-connected pixel groups.

  Theorems about `Aegean.Model.C02.findIslands` (the model of the repaired `find_islands`), for
  every grid shape, every flood/seed mask (hence every image, background, noise map and pair of
  thresholds) and every labelling `lab` with `IsLabelling g lab n` — the contract of
  `scipy.ndimage.label`, which `checkLabelling` certifies on every correspondence case for both the
  driver's own labeller and scipy's output (`checkLabelling_sound`).  No bound on sizes.

  Clause of the property                          theorem
  ------------------------------------------------------------------------------------------
  islands = seeded 8-connected flood groups        islands_eq_spec
  pairwise disjoint                                islands_disjoint (+ islands_nonempty, pixels_nodup)
  box tight around the island's own pixels         bbox_tight, mask_frame_eq_box
  blank pixels never members                       blank_never_member, members_on_mask
  raising the seed threshold only removes islands  seed_monotone, seed_monotone_images, seed_monotone_real
  label array is a labelling (checked per case)    checkLabelling_sound, labelling_independent
-/
import Aegean.Proofs.C02
import Aegean.Proofs.C02Real
import Aegean.Generated.C02

set_option linter.unusedSimpArgs false
set_option linter.unusedTactic false
set_option linter.unreachableTactic false

namespace Aegean.Properties.C02
open Aegean.Model.C02 Aegean.Spec.C02 Aegean.Proofs.C02

section theorems
variable {g : Grid} {lab : Px → Nat} {n : Nat}

/-- **islands_eq_spec** — the reported pixel sets are exactly the Spec's islands: a set of pixels
    `S` is the pixel set of some reported island iff `S` is the 8-connectivity class (inside the
    flood mask) of a flood pixel and contains one of its own pixels above the seed threshold. -/
theorem islands_eq_spec (hl : IsLabelling g lab n) (S : Px → Prop) :
    (∃ I ∈ findIslands g lab n none, ∀ p, p ∈ I.pixels ↔ S p) ↔ IsIsland g S :=
  islands_eq_spec_core hl S

/-- **islands_disjoint** — two different entries of the returned list share no pixel (with or
    without a region). -/
theorem islands_disjoint (hl : IsLabelling g lab n) (inside : Option (Px → Bool)) :
    (findIslands g lab n inside).Pairwise (fun I J => ∀ p, p ∈ I.pixels → p ∉ J.pixels) := by
  unfold findIslands
  refine List.Pairwise.filterMap _ ?_ (List.pairwise_lt_range (n := n))
  intro a a' hlt I hI J hJ p hpI hpJ
  have h1 := ((islandOf_some hl (Nat.succ_ne_zero a) hI).1 p).1 hpI
  have h2 := ((islandOf_some hl (Nat.succ_ne_zero a') hJ).1 p).1 hpJ
  omega


/-- **bbox_tight** — the reported box contains every pixel of the island and each of its four
    sides touches one of the island's own pixels.  (Holds for any label array.) -/
theorem bbox_tight (inside : Option (Px → Bool)) {I : Island} (hI : I ∈ findIslands g lab n inside) :
    Tight I.box I.pixels := by
  obtain ⟨k, _, hk⟩ := mem_findIslands.1 hI
  exact boxOf_tight (islandOf_box hk).1

/-- the frame of the stored mask (the `find_objects` slice) and the reported box coincide, so
    `mask.shape` is the shape of `bounding_box` -/
theorem mask_frame_eq_box (hl : IsLabelling g lab n) (inside : Option (Px → Bool)) {I : Island}
    (hI : I ∈ findIslands g lab n inside) : I.frame = I.box := by
  obtain ⟨k, _, hk⟩ := mem_findIslands.1 hI
  exact (islandOf_some hl (Nat.succ_ne_zero k) hk).2.2.2.2

/-- every reported island has at least one pixel -/
theorem islands_nonempty (inside : Option (Px → Bool)) {I : Island}
    (hI : I ∈ findIslands g lab n inside) : I.pixels ≠ [] := by
  obtain ⟨k, _, hk⟩ := mem_findIslands.1 hI
  intro e
  have := (islandOf_box hk).1
  rw [e] at this; cases this

section numeric
variable {α : Type} [R α] [Cmp α]

/-- **blank_never_member** — a pixel of a reported island has an image, a background and a noise
    value (none of them blank) and its signal-to-noise is at least the flood threshold.
    (Holds for any label array.) -/
theorem blank_never_member {H W : Nat} {im bkg rms : Px → Option α} {flood seed : α}
    (inside : Option (Px → Bool)) {I : Island}
    (hI : I ∈ findIslands (Grid.ofImages H W im bkg rms flood seed) lab n inside) {p : Px}
    (hp : p ∈ I.pixels) :
    ∃ i b r, im p = some i ∧ bkg p = some b ∧ rms p = some r ∧ Cmp.le flood (R.abs (i - b) / r) = true := by
  obtain ⟨k, _, hk⟩ := mem_findIslands.1 hI
  have hA := ((islandOf_box hk).2 p hp).1
  simp only [Grid.ofImages, geClip, snr] at hA
  split at hA
  · rename_i x hx
    split at hx
    · rename_i i b r hi hb hr
      simp only [Option.some.injEq] at hx
      subst hx
      exact ⟨i, b, r, hi, hb, hr, hA⟩
    · cases hx
  · cases hA

end numeric

/-- **seed_monotone** (mask form) — if every pixel above the new seed threshold is above the old
    one, the new result is a sublist of the old result (same islands, same boxes, same order;
    some removed) -/
theorem seed_monotone (Sd' : Px → Bool) (hmono : ∀ p, Sd' p = true → g.Sd p = true)
    (inside : Option (Px → Bool)) :
    (findIslands { g with Sd := Sd' } lab n inside).Sublist (findIslands g lab n inside) := by
  unfold findIslands
  apply sublist_filterMap_of_imp
  intro k I h
  simp only [islandOf, Option.bind_eq_some_iff] at h ⊢
  obtain ⟨fb, hfb, h⟩ := h
  refine ⟨fb, hfb, ?_⟩
  simp only [islandIn] at h ⊢
  split at h
  · rename_i hc
    simp only [Bool.and_eq_true] at hc
    obtain ⟨q, hq, hs⟩ := List.any_eq_true.1 hc.1
    have : ((boxPx fb).filter (fun p => lab p == k + 1)).any g.Sd = true :=
      List.any_eq_true.2 ⟨q, hq, hmono q hs⟩
    simp only [this, hc.2, Bool.and_self, if_true]
    exact h
  · cases h

/-- every member of a reported island is inside the image and on the flood mask -/
theorem members_on_mask (hl : IsLabelling g lab n) (inside : Option (Px → Bool)) {I : Island}
    (hI : I ∈ findIslands g lab n inside) {p : Px} (hp : p ∈ I.pixels) : g.inA p = true := by
  obtain ⟨k, _, hk⟩ := mem_findIslands.1 hI
  have h := ((islandOf_some hl (Nat.succ_ne_zero k) hk).1 p).1 hp
  exact inA_of_label hl h.1 (by omega)

section numeric
variable {α : Type} [R α] [Cmp α]

/-- **seed_monotone** (threshold form) — for any ordered number type satisfying
    `seed ≤ seed' → seed' < x → seed < x`: raising the seed threshold can only remove islands.
    The flood mask, hence the labelling, does not depend on the seed threshold. -/
theorem seed_monotone_images [CmpLaws α] (H W : Nat) (im bkg rms : Px → Option α) (flood seed seed' : α)
    (hle : Cmp.le seed seed' = true) (inside : Option (Px → Bool)) :
    (findIslands (Grid.ofImages H W im bkg rms flood seed') lab n inside).Sublist
      (findIslands (Grid.ofImages H W im bkg rms flood seed) lab n inside) := by
  have e : Grid.ofImages H W im bkg rms flood seed' =
      { Grid.ofImages H W im bkg rms flood seed with
        Sd := fun p => gtClip (snr (im p) (bkg p) (rms p)) seed' } := rfl
  rw [e]
  apply seed_monotone
  intro p hp
  simp only [Grid.ofImages, gtClip] at hp ⊢
  cases hs : snr (im p) (bkg p) (rms p) with
  | none => rw [hs] at hp; cases hp
  | some x =>
    rw [hs] at hp
    exact CmpLaws.lt_of_le_of_lt seed seed' x hle hp

end numeric

/-- **seed_monotone** over the reals -/
theorem seed_monotone_real (H W : Nat) (im bkg rms : Px → Option ℝ) (flood seed seed' : ℝ)
    (hle : seed ≤ seed') (inside : Option (Px → Bool)) :
    (findIslands (Grid.ofImages H W im bkg rms flood seed') lab n inside).Sublist
      (findIslands (Grid.ofImages H W im bkg rms flood seed) lab n inside) :=
  seed_monotone_images H W im bkg rms flood seed seed' (by simp [Cmp.le, hle]) inside

/-- the pixel list of a reported island has no duplicates (it represents a set) -/
theorem pixels_nodup (inside : Option (Px → Bool)) {I : Island}
    (hI : I ∈ findIslands g lab n inside) : I.pixels.Nodup := by
  obtain ⟨k, _, hk⟩ := mem_findIslands.1 hI
  exact islandOf_pixels_nodup hk

/-- **labelling_independent** — any two labellings of the same mask give the same islands (pixel
    sets and boxes): it does not matter whether the driver's BFS labelling or scipy's is used -/
theorem labelling_independent (hl : IsLabelling g lab n) {lab' : Px → Nat} {n' : Nat}
    (hl' : IsLabelling g lab' n') {I : Island} (hI : I ∈ findIslands g lab n none) :
    ∃ J ∈ findIslands g lab' n' none, (∀ p, p ∈ I.pixels ↔ p ∈ J.pixels) ∧ I.box = J.box := by
  have h := (islands_eq_spec hl (fun p => p ∈ I.pixels)).1 ⟨I, hI, fun _ => Iff.rfl⟩
  obtain ⟨J, hJ, hp⟩ := (islands_eq_spec hl' (fun p => p ∈ I.pixels)).2 h
  refine ⟨J, hJ, fun p => (hp p).symm, ?_⟩
  exact tight_unique (bbox_tight none hI) (bbox_tight none hJ) (fun p => (hp p).symm)

/-- **checkLabelling_sound** — the verified checker: if the per-pixel conditions hold for a label
    array and a BFS parent forest, the label array is a labelling in the sense of the Spec.  Run by
    the driver on its own labelling and on `scipy.ndimage.label`'s output for every case. -/
theorem checkLabelling_sound {cert : Cert} (h : checkLabelling g lab n cert = true) :
    IsLabelling g lab n :=
  Aegean.Proofs.C02.checkLabelling_sound h

/-- the Spec's connectivity is the reflexive-transitive closure of "8-adjacent, both on the mask" -/
theorem spec_conn_is_closure (p q : Px) :
    Conn g p q ↔ g.inA p = true ∧ Relation.ReflTransGen (maskStep g) p q :=
  conn_iff_reflTransGen g p q

end theorems

/-! ### Non-vacuity: a concrete grid with a diagonal contact and an unseeded component -/

namespace Example
/-  flood mask        seed mask       labels
    1 0 0 1           0 0 0 1         1 0 0 2
    0 1 0 0           0 0 0 0         0 1 0 0
    0 0 0 1           0 0 0 0         0 0 0 3   -/
def A : Px → Bool := fun p => [(0, 0), (1, 1), (0, 3), (2, 3)].contains p
def g : Grid := { H := 3, W := 4, A := A, Sd := fun p => p == (0, 3) }
def lab : Px → Nat := fun p =>
  if p == (0, 0) || p == (1, 1) then 1 else if p == (0, 3) then 2 else if p == (2, 3) then 3 else 0
def cert : Cert :=
  { parent := fun p => if p == (1, 1) then (0, 0) else p,
    depth := fun p => if p == (1, 1) then 1 else 0,
    root := fun i => if i == 1 then (0, 0) else if i == 2 then (0, 3) else (2, 3) }

example : checkLabelling g lab 3 cert = true := by decide +kernel
example : IsLabelling g lab 3 := checkLabelling_sound (cert := cert) (by decide +kernel)
example : findIslands g lab 3 none = [{ box := ⟨0, 1, 3, 4⟩, pixels := [(0, 3)], frame := ⟨0, 1, 3, 4⟩ }] := by
  decide +kernel
/-- a wrong label array (the diagonal contact split in two) is rejected by the checker -/
example : checkLabelling g (fun p => if p == (1, 1) then 4 else lab p) 4 cert = false := by decide +kernel
end Example

/-! ### Negation witnesses: the two pinned defects (DESIGN §6 items 3 and 21) in the model -/

namespace Pinned
/-  5×5: a ring of flood pixels (label 1) around a gap around one bright pixel (label 2, seeded) -/
def ring : Px → Bool := fun p => p.1 == 0 || p.1 == 4 || p.2 == 0 || p.2 == 4
def g : Grid := { H := 5, W := 5, A := fun p => ring p || p == (2, 2), Sd := fun p => p == (2, 2) }
def lab : Px → Nat := fun p => if ring p then 1 else if p == (2, 2) then 2 else 0

/-- the seed test over the whole box reports the ring, which has no seed pixel of its own … -/
example : (islandOfPinnedSeed g lab 1).isSome = true := by decide +kernel
/-- … the repaired test does not -/
example : islandOf g lab none 1 = none := by decide +kernel

/-- a box built from the non-zero *values* misses an island pixel whose value is 0: pixels at
    columns 1–3 of row 1, value 0 at column 1 ⇒ columns [2, 4) instead of [1, 4) -/
example : boxPinned (fun p => p != (1, 1)) [(1, 1), (1, 2), (1, 3)] = some ⟨1, 2, 2, 4⟩ ∧
    boxOf [(1, 1), (1, 2), (1, 3)] = some ⟨1, 2, 1, 4⟩ := by decide +kernel
end Pinned

/-! ### Obligations on the pieces regenerated from `find_islands` (they break if the source changes meaning)

`Gen.C02` is written by the translator on every run from the tree under test (translator/targets/C02.py):
the two threshold comparisons, whether the flood mask requires a finite signal-to-noise, whether the seed
comparison ranges over the island's own pixels, and the label arithmetic of the loop.  The proofs also go
through on the hand fallbacks. -/

section regenerated
open Gen.C02

/-- the flood comparison is `snr ≥ flood` (direction and non-strictness) -/
theorem flood_test_is_ge (s clip : Int) : floodTest s clip = decide (clip ≤ s) := by
  by_cases h : clip ≤ s <;> simp [floodTest, floodTestHand, h] <;> omega

/-- the seed comparison is `snr > seed`, strictly -/
theorem seed_test_is_gt (s clip : Int) : seedTest s clip = decide (clip < s) := by
  by_cases h : clip < s <;> simp [seedTest, seedTestHand, h] <;> omega

/-- the flood mask is and-ed with `isfinite` -/
theorem flood_requires_finite (i : Nat) : floodFinite i = 1 := by
  simp [floodFinite, floodFiniteHand]

/-- the seed comparison is restricted to the island's own pixels -/
theorem seed_scope_own (i : Nat) : seedScope i = 1 := by
  simp [seedScope, seedScopeHand]

/-- iteration `i` selects, and masks with, label `i + 1` -/
theorem labels_consistent (i : Nat) : ownLabel i = i + 1 ∧ maskLabel i = i + 1 := by
  constructor <;> simp [ownLabel, maskLabel, ownLabelHand, maskLabelHand] <;> omega

/-- **regenerated_eq_model** — `find_islands` assembled (by the fixed glue `findIslandsGen`) from the regenerated
    seed scope and label arithmetic is the model every theorem above is about -/
theorem regenerated_eq_model (g : Grid) (lab : Px → Nat) (n : Nat) (inside : Option (Px → Bool)) :
    findIslandsGen seedScope ownLabel maskLabel g lab n inside = findIslands g lab n inside :=
  findIslandsGen_eq seed_scope_own (fun k => (labels_consistent k).1) (fun k => (labels_consistent k).2) g lab n inside

/-- **regenerated_masks** — the masks built with the regenerated comparisons from an integer signal-to-noise map
    are "finite and ≥ flood" and "finite and > seed" -/
theorem regenerated_masks (blankOn : Px → Bool) (H W : Nat) (snr : Px → Option Int) (flood seed : Int) (p : Px) :
    ((gridOfSnr floodTest seedTest (floodFinite 0) blankOn H W snr flood seed).A p = true ↔
        ∃ s, snr p = some s ∧ flood ≤ s) ∧
    ((gridOfSnr floodTest seedTest (floodFinite 0) blankOn H W snr flood seed).Sd p = true ↔
        ∃ s, snr p = some s ∧ seed < s) :=
  ⟨gridOfSnr_A blankOn flood_test_is_ge (flood_requires_finite 0) H W snr flood seed p,
   gridOfSnr_Sd blankOn seed_test_is_gt H W snr flood seed p⟩

/-- **islands_eq_spec_regenerated** — the headline theorem stated about the assembled regenerated pieces -/
theorem islands_eq_spec_regenerated {g : Grid} {lab : Px → Nat} {n : Nat} (hl : IsLabelling g lab n) (S : Px → Prop) :
    (∃ I ∈ findIslandsGen seedScope ownLabel maskLabel g lab n none, ∀ p, p ∈ I.pixels ↔ S p) ↔ IsIsland g S := by
  rw [regenerated_eq_model]; exact islands_eq_spec hl S

/-- non-vacuity / negation witness: with the pinned scope (0 = whole box) the glue reports the unseeded ring -/
example : (findIslandsGen (fun _ => 0) ownLabel maskLabel Pinned.g Pinned.lab 2 none).length = 2 ∧
    (findIslandsGen seedScope ownLabel maskLabel Pinned.g Pinned.lab 2 none).length = 1 := by decide +kernel

end regenerated

end Aegean.Properties.C02
