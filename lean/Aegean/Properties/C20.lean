/-
  C20 — Image bands tile the image exactly and keep its astrometry.

  The theorems are about `Gen.C20.rowMin / rowMax`, i.e. about the two expressions that the
  translator regenerates from `fits_tools.load_image_band` on every run, and about the hand
  model `Aegean.Model.C20.loadBand` of the rest of that function (tied to the code by the
  correspondence check `harness/corr_C20.py`).
-/
import Aegean.Generated.C20
import Aegean.Model.C20
import Aegean.Proofs.Tiling
import Aegean.Spec.C20

namespace Aegean.Properties.C20
open Gen.C20 Aegean.Model.C20 Aegean.Tiling

/-! ### Obligations on the regenerated arithmetic (these break if the source changes meaning) -/

theorem rowMin_zero (rows n : Nat) : rowMin rows n 0 = 0 := by
  simp [rowMin, rowMinHand]

theorem rowMax_last (rows n : Nat) (hn : 0 < n) : rowMax rows n (n - 1) = rows := by
  simp only [rowMax, rowMaxHand]
  have e : n - 1 + 1 = n := Nat.sub_add_cancel hn
  first
    | (rw [e]
       first
         | exact Nat.mul_div_cancel _ hn
         | exact Nat.mul_div_cancel_left _ hn)
    | (apply Nat.div_eq_of_eq_mul_left hn; grind)

theorem rowMax_eq_next (rows n i : Nat) : rowMax rows n i = rowMin rows n (i + 1) := by
  simp only [rowMax, rowMin, rowMaxHand, rowMinHand]
  try grind

theorem rowMin_le_rowMax (rows n i : Nat) : rowMin rows n i ≤ rowMax rows n i := by
  simp only [rowMax, rowMin, rowMaxHand, rowMinHand]
  apply Nat.div_le_div_right
  first
    | exact Nat.mul_le_mul_left _ (Nat.le_succ _)
    | exact Nat.mul_le_mul_right _ (Nat.le_succ _)
    | grind

/-! ### The property -/

/-- the cut points `b i = rowMin rows n i` for `i < n`, and `rows` at `n` -/
def cut (rows n : Nat) (i : Nat) : Nat := rowMin rows n i

theorem cut_last (rows n : Nat) (hn : 0 < n) : cut rows n n = rows := by
  have h := rowMax_eq_next rows n (n - 1)
  rw [Nat.sub_add_cancel hn] at h
  unfold cut; rw [← h]; exact rowMax_last rows n hn

theorem cut_stepMono (rows n : Nat) : StepMono (cut rows n) n := by
  intro i _
  unfold cut; rw [← rowMax_eq_next]; exact rowMin_le_rowMax rows n i

/-- **bands_tile**: consecutive, non-overlapping row ranges starting at 0 and ending at `rows`. -/
theorem bands_tile (rows n : Nat) (hn : 0 < n) :
    rowMin rows n 0 = 0 ∧ rowMax rows n (n - 1) = rows ∧
    ∀ i, rowMax rows n i = rowMin rows n (i + 1) ∧ rowMin rows n i ≤ rowMax rows n i :=
  ⟨rowMin_zero rows n, rowMax_last rows n hn,
   fun i => ⟨rowMax_eq_next rows n i, rowMin_le_rowMax rows n i⟩⟩

/-- **every row of the image lies in exactly one band**, for every `rows` and every `n > 0`. -/
theorem bands_cover_exactly_once (rows n : Nat) (hn : 0 < n) (r : Nat) (hr : r < rows) :
    ∃ i, (i < n ∧ rowMin rows n i ≤ r ∧ r < rowMax rows n i) ∧
      ∀ j, (j < n ∧ rowMin rows n j ≤ r ∧ r < rowMax rows n j) → j = i := by
  have h := existsUnique_band (b := cut rows n) (n := n) (rowMin_zero rows n) (cut_stepMono rows n) r
    (by rw [cut_last rows n hn]; exact hr)
  obtain ⟨i, ⟨hi, h1, h2⟩, hu⟩ := h
  refine ⟨i, ⟨hi, h1, ?_⟩, ?_⟩
  · rw [rowMax_eq_next]; exact h2
  · intro j ⟨hj, g1, g2⟩
    exact hu j ⟨hj, g1, by rw [rowMax_eq_next] at g2; exact g2⟩

/-- a successful `loadBand` returns rows `[rowMin, rowMax)` of the image, the matching NAXIS2 and
    a CRPIX2 lowered by `rowMin` -/
theorem band_values {β : Type} (img : List β) (i n : Nat) (hi : i < n) :
    loadBand rowMin rowMax img i n = .ok
      { data := Aegean.Model.C20.slice img (rowMin img.length n i) (rowMax img.length n i),
        naxis2 := rowMax img.length n i - rowMin img.length n i,
        crpix2Shift := -((rowMin img.length n i : Nat) : Int) } := by
  have h1 : ¬ (n = 0) := by omega
  have h2 : ¬ (n ≤ i) := by omega
  have h3 : ¬ ((i : Int) < 0) := by omega
  simp [loadBand, validate, h1, h2, h3]

/-- the bands, concatenated in order, are the image: values are preserved and nothing is
    duplicated or lost -/
theorem bands_concat {β : Type} (img : List β) (n : Nat) (hn : 0 < n) :
    ((List.range n).map (fun i =>
        Aegean.Model.C20.slice img (rowMin img.length n i) (rowMax img.length n i))).flatten = img := by
  have h := flatten_bands img (b := cut img.length n) (n := n) (rowMin_zero _ n) (cut_stepMono _ n) n
    (Nat.le_refl _)
  rw [cut_last _ n hn, List.take_length] at h
  have e : (fun i => Aegean.Model.C20.slice img (rowMin img.length n i) (rowMax img.length n i))
      = (fun i => Aegean.Tiling.slice img (cut img.length n i) (cut img.length n (i + 1))) := by
    funext i
    rw [rowMax_eq_next]; rfl
  rw [e]; exact h

/-- each band holds `NAXIS2' = rowMax − rowMin` rows -/
theorem band_length {β : Type} (img : List β) (n i : Nat) (hn : 0 < n) (hi : i < n) :
    (Aegean.Model.C20.slice img (rowMin img.length n i) (rowMax img.length n i)).length
      = rowMax img.length n i - rowMin img.length n i := by
  have hle : rowMax img.length n i ≤ img.length := by
    have m := mono_of_step (cut_stepMono img.length n) (i + 1) n (by omega) (Nat.le_refl _)
    rw [cut_last _ n hn] at m
    rw [rowMax_eq_next]; exact m
  have := rowMin_le_rowMax img.length n i
  simp [Aegean.Model.C20.slice]; omega

/-- **band_header**: FITS world coordinates depend on the pixel coordinate only through
    `p − CRPIX`.  With `CRPIX2' = CRPIX2 − rowMin`, row `y` of the band and row `y + rowMin` of
    the image have the same offset from the reference pixel, hence the same sky position for
    any WCS. -/
theorem band_header (crpix2 : Int) (y rowMin : Nat) (shift : Int) (hs : shift = -(rowMin : Int)) :
    (y : Int) - (crpix2 + shift) = ((y + rowMin : Nat) : Int) - crpix2 := by
  subst hs; omega

/-- **invalid_band_rejected**: exactly the band specifications outside `0 ≤ i < n`, `n > 0`
    are rejected, and they are always rejected -/
theorem invalid_band_rejected {β : Type} (img : List β) (i n : Int) :
    (∃ e, loadBand rowMin rowMax img i n = .error e) ↔ ¬ (0 ≤ i ∧ i < n ∧ 0 < n) := by
  unfold loadBand validate
  by_cases h1 : n ≤ 0
  · simp [h1]; try omega
  · by_cases h2 : i ≥ n
    · simp [h1, h2]; try omega
    · by_cases h3 : i < 0
      · simp [h1, h2, h3]
      · simp [h1, h2, h3]; try omega


/-! ### The model meets the executable Spec used by the failing-input search -/

theorem chain_cuts (rows n : Nat) (k j : Nat) (hjk : j + k = n) :
    Aegean.Spec.C20.chain (rowMin rows n j)
      ((List.range' j k).map (fun i => (rowMin rows n i, rowMax rows n i))) = some (rowMin rows n n) := by
  induction k generalizing j with
  | zero => simp [Aegean.Spec.C20.chain]; subst hjk; rfl
  | succ k ih =>
    rw [List.range'_succ, List.map_cons, Aegean.Spec.C20.chain]
    rw [if_pos ⟨rfl, rowMin_le_rowMax rows n j⟩, rowMax_eq_next]
    exact ih (j + 1) (by omega)

/-- **model_meets_spec**: the list of ranges the model produces for `i = 0 … n-1` satisfies the
    decidable tiling predicate, for every `rows` and every `n > 0` -/
theorem model_meets_spec (rows n : Nat) (hn : 0 < n) :
    Aegean.Spec.C20.isTiling rows
      ((List.range n).map (fun i => (rowMin rows n i, rowMax rows n i))) = true := by
  have h := chain_cuts rows n n 0 (by omega)
  rw [rowMin_zero, ← List.range_eq_range'] at h
  have hl : cut rows n n = rows := cut_last rows n hn
  unfold cut at hl
  simp [Aegean.Spec.C20.isTiling, h, hl]
  omega


/-! ### The band is cut from the requested HDU and plane, and from nothing else -/

/-- **band_from_requested_hdu**: the result depends on the file only through the requested HDU: two files
    that agree on HDU `hdu` (whatever their other HDUs hold — an empty primary, a decoy image of the same
    dimensionality, …) give the same band -/
theorem band_from_requested_hdu {β : Type} (file file' : List (Hdu β)) (hdu cube : Nat) (i n : Int)
    (h : file[hdu]? = file'[hdu]?) :
    loadBandFile rowMin rowMax file hdu cube i n = loadBandFile rowMin rowMax file' hdu cube i n := by
  unfold loadBandFile; rw [h]

/-- **band_from_requested_plane**: for a 3-D or 4-D image the band is rows `[rowMin, rowMax)` of plane
    `cube` of the requested HDU, with that plane's row count as NAXIS2 basis -/
theorem band_from_requested_plane {β : Type} (file : List (Hdu β)) (hdu cube : Nat) (hd : Hdu β)
    (plane : List β) (i n : Nat) (hi : i < n)
    (hh : file[hdu]? = some hd) (hn : hd.naxis = 3 ∨ hd.naxis = 4) (hp : hd.planes[cube]? = some plane) :
    loadBandFile rowMin rowMax file hdu cube i n = .ok
      { data := Aegean.Model.C20.slice plane (rowMin plane.length n i) (rowMax plane.length n i),
        naxis2 := rowMax plane.length n i - rowMin plane.length n i,
        crpix2Shift := -((rowMin plane.length n i : Nat) : Int) } := by
  unfold loadBandFile
  rw [hh]
  have hs : selectPlane hd cube = .ok plane := by
    unfold selectPlane
    rcases hn with h3 | h4
    · rw [h3]; simp [hp]
    · rw [h4]; simp [hp]
  simp only [hs]
  rw [band_values plane i n hi]

/-- other planes of the cube are irrelevant -/
theorem band_ignores_other_planes {β : Type} (hd hd' : Hdu β) (cube : Nat)
    (hn : hd.naxis = hd'.naxis) (h3 : hd.naxis = 3 ∨ hd.naxis = 4) (hp : hd.planes[cube]? = hd'.planes[cube]?) :
    selectPlane hd cube = selectPlane hd' cube := by
  unfold selectPlane
  rw [← hn]
  rcases h3 with h | h <;> rw [h] <;> simp [hp]


/-! ### Scaled inputs (BSCALE) and compressed inputs

`load_image_band` multiplies the rows it has read by BSCALE; for a compressed file it first expands the
file and then cuts the band out of the expanded image.  Both commute with the band cut. -/

theorem slice_map {β γ : Type} (f : β → γ) (img : List β) (lo hi : Nat) :
    Aegean.Model.C20.slice (img.map f) lo hi = (Aegean.Model.C20.slice img lo hi).map f := by
  simp [Aegean.Model.C20.slice, List.map_take, List.map_drop]

/-- **band_of_scaled_image**: cutting band `i` of `n` out of the stored rows and then applying any
    per-row transformation `f` (multiplication by BSCALE) gives band `i` of `n` of the transformed
    (physical) image: same rows, same NAXIS2, same CRPIX2 shift -/
theorem band_of_scaled_image {β γ : Type} (f : β → γ) (img : List β) (i n : Nat) (hi : i < n) :
    loadBand rowMin rowMax (img.map f) i n = .ok
      { data := (Aegean.Model.C20.slice img (rowMin img.length n i) (rowMax img.length n i)).map f,
        naxis2 := rowMax img.length n i - rowMin img.length n i,
        crpix2Shift := -((rowMin img.length n i : Nat) : Int) } := by
  rw [band_values (img.map f) i n hi, slice_map]
  simp

/-- **band_of_expanded_image**: for a compressed input the band is cut from `expand file` — whatever
    `expand` is (C15), the bands of a compressed file tile the expanded image exactly as the bands of
    an uncompressed file tile the stored image -/
theorem bands_of_expanded_concat {β : Type} (expand : List β) (n : Nat) (hn : 0 < n) :
    ((List.range n).map (fun i =>
        Aegean.Model.C20.slice expand (rowMin expand.length n i) (rowMax expand.length n i))).flatten = expand :=
  bands_concat expand n hn

/-! ### Non-vacuity and the negation witness for the pinned float arithmetic -/

example : rowMin 10 3 1 = 3 ∧ rowMax 10 3 1 = 6 ∧ rowMax 10 3 2 = 10 := by decide

/-- the float arithmetic `int(NAXIS2/n*(i+1))` of the pinned tree loses the only row of a
    one-row image split into 49 bands: the last band ends at 0, not 1 -/
theorem float_bands_lose_row : rowMaxFloat 1 49 48 = 0 := by decide +kernel


/-! ### The whole function, assembled from the pieces regenerated from the source

Besides the two row bounds, the translator regenerates the validation prologue (`guard`), the header adjustments of both
return sites (`hdr…P`, `hdr…C`), the NAXIS dispatch with the subscript of `.section[…]` per branch (`sec…`) and the
subscript of the compressed branch (`cmp…`).  `Model.C20.loadFull` is the fixed glue; the theorems below are about
`loadFull genPieces`, for every well-formed image, every plane, every valid band. -/

set_option linter.unusedSimpArgs false

/-- the pieces regenerated from the source on this run -/
def genPieces : Pieces :=
  { guard := Gen.C20.guard, rowMin := rowMin, rowMax := rowMax,
    hdrNaxis2P := hdrNaxis2P, hdrCrpix2P := hdrCrpix2P, hdrNaxis2C := hdrNaxis2C, hdrCrpix2C := hdrCrpix2C,
    secN := secN, secL0 := secL0, secL1 := secL1, secRlo := secRlo, secRhi := secRhi, secClo := secClo, secChi := secChi,
    cmpRlo := cmpRlo, cmpRhi := cmpRhi, cmpClo := cmpClo, cmpChi := cmpChi }

/-- **guard_accepts_iff**: the regenerated validation prologue raises nothing exactly for `0 ≤ i < n` -/
theorem guard_accepts_iff (i n : Int) : Gen.C20.guard i n = 0 ↔ (0 ≤ i ∧ i < n) := by
  unfold Gen.C20.guard
  try unfold guardHand
  first
  | grind
  | (constructor
     · intro h; simp only at h; split at h <;> (try split at h) <;> (try split at h) <;> omega
     · intro ⟨h1, h2⟩
       have a : ¬ (n ≤ 0) := by omega
       have b : ¬ (i ≥ n) := by omega
       have c : ¬ (i < 0) := by omega
       simp [a, b, c])

theorem hdr_plain (naxis2 crpix2 lo hi : Int) :
    hdrNaxis2P naxis2 crpix2 lo hi = hi - lo ∧ hdrCrpix2P naxis2 crpix2 lo hi = crpix2 - lo := by
  unfold hdrNaxis2P hdrCrpix2P; try unfold hdrNaxis2Hand hdrCrpix2Hand
  constructor <;> (try simp) <;> (try omega)

theorem hdr_compressed (naxis2 crpix2 lo hi : Int) :
    hdrNaxis2C naxis2 crpix2 lo hi = hi - lo ∧ hdrCrpix2C naxis2 crpix2 lo hi = crpix2 - lo := by
  unfold hdrNaxis2C hdrCrpix2C; try unfold hdrNaxis2Hand hdrCrpix2Hand
  constructor <;> (try simp) <;> (try omega)


theorem slice_full {β : Type} (r : List β) (k : Nat) (h : r.length = k) : Aegean.Model.C20.slice r 0 k = r := by
  simp [Aegean.Model.C20.slice, ← h]

theorem mem_slice {β : Type} (l : List β) (lo hi : Nat) (x : β) (h : x ∈ Aegean.Model.C20.slice l lo hi) : x ∈ l := by
  unfold Aegean.Model.C20.slice at h
  exact List.mem_of_mem_drop (List.mem_of_mem_take h)

theorem sliceRC_allcols {β : Type} (plane : List (List β)) (lo hi k : Nat) (h : ∀ r ∈ plane, r.length = k) :
    sliceRC plane lo hi 0 k = Aegean.Model.C20.slice plane lo hi := by
  unfold sliceRC
  conv => rhs; rw [← List.map_id (Aegean.Model.C20.slice plane lo hi)]
  apply List.map_congr_left
  intro r hr
  simp [slice_full r k (h r (mem_slice _ _ _ _ hr))]


/-- what the property promises for band `i` of `n` of the plane `plane` of an image with reference row `crpix2` -/
def promised {β : Type} (plane : List (List β)) (crpix2 : Int) (i n : Nat) : FullBand β :=
  { data := Aegean.Model.C20.slice plane (rowMin plane.length n i) (rowMax plane.length n i),
    naxis2 := (rowMax plane.length n i : Int) - (rowMin plane.length n i : Int),
    crpix2 := crpix2 - (rowMin plane.length n i : Int) }

theorem wf_plane {β : Type} (img : Img β) (cube : Nat) (plane : List (List β)) (hw : WF img)
    (hp : planeOf img cube = some plane) : plane.length = img.naxis2 ∧ ∀ r ∈ plane, r.length = img.naxis1 := by
  unfold planeOf at hp
  have key : ∀ (a b : Nat), (img.data[a]? >>= (·[b]?)) = some plane →
      plane.length = img.naxis2 ∧ ∀ r ∈ plane, r.length = img.naxis1 := by
    intro a b h
    cases hv : img.data[a]? with
    | none => simp [hv] at h
    | some vol =>
      simp [hv] at h
      exact hw vol (List.mem_of_getElem? hv) plane (List.mem_of_getElem? h)
  split at hp
  · exact key _ _ hp
  · exact key _ _ hp
  · exact key _ _ hp
  · simp at hp

/-- **full_plain**: for every well-formed 2-D / 3-D / 4-D image, every valid band specification and every plane
    index that exists, the function assembled from the regenerated pieces returns exactly the promised band -/
theorem full_plain {β : Type} (img : Img β) (cube : Nat) (plane : List (List β)) (i n : Nat) (hi : i < n)
    (hw : WF img) (hp : planeOf img cube = some plane) :
    loadFull genPieces img false cube i n = .ok (promised plane img.crpix2 i n) := by
  obtain ⟨hl, hc⟩ := wf_plane img cube plane hw hp
  have hg : Gen.C20.guard (i : Int) (n : Int) = 0 := (guard_accepts_iff _ _).2 ⟨by omega, by omega⟩
  unfold loadFull promised
  simp only [genPieces, hg, ne_eq, not_true_eq_false, ↓reduceIte, Int.toNat_natCast, Bool.false_eq_true]
  rw [(hdr_plain _ _ _ _).1, (hdr_plain _ _ _ _).2, hl]
  unfold planeOf at hp
  split at hp
  · rename_i h2
    cases hv : img.data[0]? with
    | none => simp [hv] at hp
    | some vol =>
      simp [hv] at hp
      simp [readSection, secN, secL0, secL1, secRlo, secRhi, secClo, secChi, secNHand, secL0Hand, secL1Hand, secRloHand, secRhiHand, secCloHand, secChiHand, h2, hv, hp, sliceRC_allcols _ _ _ _ hc]
  · rename_i h3
    cases hv : img.data[0]? with
    | none => simp [hv] at hp
    | some vol =>
      simp [hv] at hp
      simp [readSection, secN, secL0, secL1, secRlo, secRhi, secClo, secChi, secNHand, secL0Hand, secL1Hand, secRloHand, secRhiHand, secCloHand, secChiHand, h3, hv, hp, sliceRC_allcols _ _ _ _ hc]
  · rename_i h4
    cases hv : img.data[0]? with
    | none => simp [hv] at hp
    | some vol =>
      simp [hv] at hp
      simp [readSection, secN, secL0, secL1, secRlo, secRhi, secClo, secChi, secNHand, secL0Hand, secL1Hand, secRloHand, secRhiHand, secCloHand, secChiHand, h4, hv, hp, sliceRC_allcols _ _ _ _ hc]
  · simp at hp


/-- **full_compressed**: for a compressed file the band is cut from the expanded image the same way -/
theorem full_compressed {β : Type} (img : Img β) (cube : Nat) (plane : List (List β)) (i n : Nat) (hi : i < n)
    (hw : WF img) (hp : (img.data[0]? >>= (·[0]?)) = some plane) :
    loadFull genPieces img true cube i n = .ok (promised plane img.crpix2 i n) := by
  have hwf : plane.length = img.naxis2 ∧ ∀ r ∈ plane, r.length = img.naxis1 := by
    cases hv : img.data[0]? with
    | none => simp [hv] at hp
    | some vol =>
      simp [hv] at hp
      exact hw vol (List.mem_of_getElem? hv) plane (List.mem_of_getElem? hp)
  obtain ⟨hl, hc⟩ := hwf
  have hg : Gen.C20.guard (i : Int) (n : Int) = 0 := (guard_accepts_iff _ _).2 ⟨by omega, by omega⟩
  unfold loadFull promised
  simp only [genPieces, hg, ne_eq, not_true_eq_false, ↓reduceIte, Int.toNat_natCast]
  rw [(hdr_compressed _ _ _ _).1, (hdr_compressed _ _ _ _).2, hl]
  cases hv : img.data[0]? with
  | none => simp [hv] at hp
  | some vol =>
    simp [hv] at hp
    simp [cmpRlo, cmpRhi, cmpClo, cmpChi, cmpRloHand, cmpRhiHand, cmpCloHand, cmpChiHand, hp, sliceRC_allcols _ _ _ _ hc]

/-- **full_rejects_invalid**: every band specification outside `0 ≤ i < n` is rejected by one of the `raise`s of
    the validation prologue, before the file is looked at, compressed or not -/
theorem full_rejects_invalid {β : Type} (img : Img β) (c : Bool) (cube : Nat) (i n : Int) (h : ¬ (0 ≤ i ∧ i < n)) :
    ∃ k, k ≠ 0 ∧ loadFull genPieces img c cube i n = .error (.guard k) := by
  have hg : Gen.C20.guard i n ≠ 0 := fun e => h ((guard_accepts_iff i n).1 e)
  exact ⟨Gen.C20.guard i n, hg, by simp [loadFull, genPieces, hg]⟩

/-- **full_tiles**: the data of the promised bands `0 … n-1`, concatenated, are the rows of the plane, each once -/
theorem full_tiles {β : Type} (plane : List (List β)) (crpix2 : Int) (n : Nat) (hn : 0 < n) :
    ((List.range n).map (fun i => (promised plane crpix2 i n).data)).flatten = plane :=
  bands_concat plane n hn

/-- **full_header**: the band's NAXIS2 is its number of rows, and row `y` of the band is as far from the band's
    reference row as row `y + rowMin` of the image is from the image's — so any FITS WCS (a function of
    `pixel − CRPIX`, the other cards being untouched) sends them to the same sky position -/
theorem full_header {β : Type} (plane : List (List β)) (crpix2 : Int) (i n : Nat) (hn : 0 < n) (hi : i < n) :
    (promised plane crpix2 i n).naxis2 = ((promised plane crpix2 i n).data.length : Int) ∧
    ∀ y : Nat, ((y : Int) + 1) - (promised plane crpix2 i n).crpix2
        = (((y + rowMin plane.length n i : Nat) : Int) + 1) - crpix2 := by
  constructor
  · have := band_length plane n i hn hi
    have := rowMin_le_rowMax plane.length n i
    simp only [promised]; omega
  · intro y; simp only [promised]; omega

/-- **full_only_requested_plane**: two well-formed images with the same requested plane and the same CRPIX2 give
    the same band, whatever their other planes hold -/
theorem full_only_requested_plane {β : Type} (a b : Img β) (cube : Nat) (plane : List (List β)) (i n : Nat) (hi : i < n)
    (ha : WF a) (hb : WF b) (pa : planeOf a cube = some plane) (pb : planeOf b cube = some plane)
    (hc : a.crpix2 = b.crpix2) :
    loadFull genPieces a false cube i n = loadFull genPieces b false cube i n := by
  rw [full_plain a cube plane i n hi ha pa, full_plain b cube plane i n hi hb pb, hc]

/-- the regenerated pieces agree with the hand pieces the model was written from (so the driver's `full` operation,
    which runs `genPieces`, and the theorems talk about the same function) -/
theorem gen_guard_eq_hand (i n : Int) : Gen.C20.guard i n = guardHand i n := by
  unfold Gen.C20.guard; try unfold guardHand
  first | rfl | grind

/-- non-vacuity: a 3-D image with two planes of 3 rows × 2 columns is well-formed, and band 1 of 2 of plane 1 is its
    last two rows -/
example : (loadFull genPieces
    ({ naxis := 3, naxis1 := 2, naxis2 := 3, crpix2 := 2,
       data := [[[[1, 2], [3, 4], [5, 6]], [[7, 8], [9, 10], [11, 12]]]] } : Img Nat) false 1 1 2).toOption.map
      (fun b => (b.data, b.naxis2, b.crpix2)) = some ([[9, 10], [11, 12]], 2, 1) := by decide


/-! ### The file level: the requested HDU, and BSCALE -/

def genFilePieces : FilePieces :=
  { extHeader := extHeader, extData := extData, extCmp := extCmp, scaled := scaled }

/-- **ext_consistent**: header and pixels are both taken from the requested HDU; the expanded image is HDU 0 of what
    `expand` returns -/
theorem ext_consistent (hdu : Nat) : extHeader hdu = hdu ∧ extData hdu = hdu ∧ extCmp hdu = 0 := by
  simp [extHeader, extData, extCmp, extHeaderHand, extDataHand, extCmpHand]

/-- **scaled_spec**: the stored value is multiplied by BSCALE exactly when the card is present -/
theorem scaled_spec (x v : Nat) : scaled 1 x v = x * v ∧ scaled 0 x 1 = x := by
  simp [scaled, scaledHand]

/-- what BSCALE promises: physical value = stored value × BSCALE -/
def physical (bscale : Option Nat) (b : FullBand Nat) : FullBand Nat :=
  match bscale with
  | some v => { b with data := b.data.map (fun r => r.map (fun x => x * v)) }
  | none => b

theorem applyScale_eq (bscale : Option Nat) (b : FullBand Nat) : applyScale genFilePieces bscale b = physical bscale b := by
  cases bscale with
  | none =>
    have h : (fun x => scaled 0 x 1) = (fun x : Nat => x) := by funext x; exact (scaled_spec x 1).2
    simp [applyScale, physical, genFilePieces, h]
  | some v =>
    have h : (fun x => scaled 1 x v) = (fun x : Nat => x * v) := by funext x; exact (scaled_spec x v).1
    simp [applyScale, physical, genFilePieces, h]

/-- **full_file_plain**: on an uncompressed HDU the file-level function is the image-level function on the REQUESTED
    HDU (header and pixels), followed by the BSCALE multiplication — whatever the other HDUs of the file hold -/
theorem full_file_plain (file expanded : List FHdu) (hdu cube : Nat) (fh : FHdu) (i n : Nat) (hi : i < n)
    (hf : file[hdu]? = some fh) (hc : fh.compressed = false) :
    loadFullFile genPieces genFilePieces file expanded hdu cube i n =
      (match loadFull genPieces fh.img false cube i n with
       | .error e => .error e
       | .ok b => .ok (physical fh.bscale b)) := by
  have hg : Gen.C20.guard (i : Int) (n : Int) = 0 := (guard_accepts_iff _ _).2 ⟨by omega, by omega⟩
  obtain ⟨e1, e2, _⟩ := ext_consistent hdu
  unfold loadFullFile
  simp only [genPieces, genFilePieces] at *
  simp only [hg, ne_eq, not_true_eq_false, ↓reduceIte, e1, e2, hf, hc, Bool.false_eq_true]
  cases h : loadFull genPieces fh.img false cube i n with
  | error e => simp [genPieces] at h; simp [h]
  | ok b =>
    simp [genPieces] at h; simp [h]
    exact applyScale_eq fh.bscale b

/-- **full_file_only_requested_hdu**: two files that agree on HDU `hdu` give the same band -/
theorem full_file_only_requested_hdu (f1 f2 ex1 ex2 : List FHdu) (hdu cube : Nat) (fh : FHdu) (i n : Nat) (hi : i < n)
    (h1 : f1[hdu]? = some fh) (h2 : f2[hdu]? = some fh) (hc : fh.compressed = false) :
    loadFullFile genPieces genFilePieces f1 ex1 hdu cube i n = loadFullFile genPieces genFilePieces f2 ex2 hdu cube i n := by
  rw [full_file_plain f1 ex1 hdu cube fh i n hi h1 hc, full_file_plain f2 ex2 hdu cube fh i n hi h2 hc]

/-- **full_file_compressed**: on a compressed HDU the band is cut from HDU 0 of the expanded file, with no BSCALE step -/
theorem full_file_compressed (file expanded : List FHdu) (hdu cube : Nat) (fh e : FHdu) (i n : Nat) (hi : i < n)
    (hf : file[hdu]? = some fh) (hc : fh.compressed = true) (he : expanded[0]? = some e) :
    loadFullFile genPieces genFilePieces file expanded hdu cube i n = loadFull genPieces e.img true cube i n := by
  have hg : Gen.C20.guard (i : Int) (n : Int) = 0 := (guard_accepts_iff _ _).2 ⟨by omega, by omega⟩
  obtain ⟨e1, _, e3⟩ := ext_consistent hdu
  unfold loadFullFile
  simp only [genPieces, genFilePieces] at *
  simp only [hg, ne_eq, not_true_eq_false, ↓reduceIte, e1, e3, hf, hc, he]

/-- **full_file_promise**: the property's statement at file level, for a well-formed uncompressed image HDU: band i of n
    is rows [rowMin, rowMax) of the requested plane of the requested HDU in physical units, with NAXIS2' / CRPIX2' as
    promised -/
theorem full_file_promise (file expanded : List FHdu) (hdu cube : Nat) (fh : FHdu) (plane : List (List Nat)) (i n : Nat)
    (hi : i < n) (hf : file[hdu]? = some fh) (hc : fh.compressed = false) (hw : WF fh.img)
    (hp : planeOf fh.img cube = some plane) :
    loadFullFile genPieces genFilePieces file expanded hdu cube i n
      = .ok (physical fh.bscale (promised plane fh.img.crpix2 i n)) := by
  rw [full_file_plain file expanded hdu cube fh i n hi hf hc, full_plain fh.img cube plane i n hi hw hp]

end Aegean.Properties.C20
