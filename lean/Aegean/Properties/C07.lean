/-
  C07 — BANE always terminates, is schedule-independent and fails cleanly.

  Layout theorems are about `Gen.C07.ymins / ymaxs` (regenerated from `BANE.filter_mc_sharemem` on
  every run); protocol theorems are about the hand model `Aegean.Model.C07` (tied to the code by the
  hook-driven trace validation of `harness/corr_C07.py`).
-/
import Aegean.Generated.C07
import Aegean.Model.C07
import Aegean.Spec.C07
import Aegean.Proofs.Tiling
import Aegean.Proofs.C07
import Aegean.Proofs.C07Data

namespace Aegean.Properties.C07
open Aegean.Model.C07 Aegean.Proofs.C07 Aegean.Tiling

/-! ## 1. Layout -/

/-- the realised number of stripes for width `w`: `⌈rows / w⌉` if more than one slice is asked for -/
def stripes (rows ns w : Nat) : Nat := if ns > 1 then (rows + w - 1) / w else 1

/-- the cut points of the realised layout -/
def cut (rows ns w : Nat) (i : Nat) : Nat := if i < stripes rows ns w then i * w else rows

theorem ceil_eq (rows w : Nat) (hr : 1 ≤ rows) (hw : 1 ≤ w) : (rows + w - 1) / w = (rows - 1) / w + 1 := by
  have e : rows + w - 1 = (rows - 1) + w := by omega
  rw [e, Nat.add_div_right _ (by omega)]

theorem maxs_len (rows w : Nat) (hr : 1 ≤ rows) (hw : 1 ≤ w) : (rows - w + w - 1) / w = (rows - 1) / w := by
  by_cases h : w ≤ rows
  · have e : rows - w + w - 1 = rows - 1 := by omega
    rw [e]
  · have e : rows - w + w - 1 = w - 1 := by omega
    rw [e, Nat.div_eq_of_lt (by omega), Nat.div_eq_of_lt (by omega)]

theorem last_lt (rows w : Nat) (hr : 1 ≤ rows) : (rows - 1) / w * w < rows := by
  have := Nat.div_mul_le_self (rows - 1) w
  omega

/-- **layout_lengths**: both edge lists have exactly `stripes` entries (so `zip` drops nothing, and the
    barrier's `parties = len(ymaxs)` is the number of tasks), for every `rows ≥ 1`, `w ≥ 1`, any `ns` -/
theorem layout_lengths (rows ns w : Nat) (hr : 1 ≤ rows) (hw : 1 ≤ w) :
    (Gen.C07.ymins rows ns w).length = stripes rows ns w ∧
    (Gen.C07.ymaxs rows ns w).length = stripes rows ns w := by
  unfold Gen.C07.ymins Gen.C07.ymaxs stripes
  try unfold Aegean.Model.C07.yminsHand Aegean.Model.C07.ymaxsHand
  by_cases h : ns > 1
  · have hw0 : ¬ (w = 0) := by omega
    simp only [h, if_true, Py.range, hw0, if_false, List.length_map, List.length_range, List.length_append,
      List.length_cons, List.length_nil, Nat.sub_zero]
    rw [maxs_len rows w hr hw, ceil_eq rows w hr hw]
    simp
  · simp [h]

/-- **realised stripe count**: `⌈rows / w⌉` — at least one, and `(count − 1)·w < rows ≤ count·w` -/
theorem stripes_formula (rows ns w : Nat) (hr : 1 ≤ rows) (hw : 1 ≤ w) (hns : ns > 1) :
    1 ≤ stripes rows ns w ∧ (stripes rows ns w - 1) * w < rows ∧ rows ≤ stripes rows ns w * w := by
  unfold stripes
  rw [if_pos hns, ceil_eq rows w hr hw]
  refine ⟨Nat.le_add_left _ _, ?_, ?_⟩
  · simpa using last_lt rows w hr
  · have := Nat.lt_div_mul_add (a := rows - 1) (b := w) (by omega)
    rw [Nat.add_mul]; omega

theorem stripes_pos (rows ns w : Nat) (hr : 1 ≤ rows) (hw : 1 ≤ w) : 1 ≤ stripes rows ns w := by
  by_cases h : ns > 1
  · exact (stripes_formula rows ns w hr hw h).1
  · simp [stripes, h]

theorem ymins_get (rows ns w : Nat) (_hr : 1 ≤ rows) (hw : 1 ≤ w) (i : Nat) (hi : i < stripes rows ns w) :
    (Gen.C07.ymins rows ns w)[i]? = some (cut rows ns w i) := by
  unfold cut; rw [if_pos hi]
  unfold Gen.C07.ymins
  try unfold Aegean.Model.C07.yminsHand
  unfold stripes at hi
  by_cases h : ns > 1
  · have hw0 : ¬ (w = 0) := by omega
    rw [if_pos h] at hi
    simp only [h, if_true, Py.range, hw0, if_false, Nat.sub_zero]
    rw [List.getElem?_map, List.getElem?_range hi]; simp
  · rw [if_neg h] at hi
    have : i = 0 := by omega
    subst this; simp [h]

theorem ymaxs_get (rows ns w : Nat) (hr : 1 ≤ rows) (hw : 1 ≤ w) (i : Nat) (hi : i < stripes rows ns w) :
    (Gen.C07.ymaxs rows ns w)[i]? = some (cut rows ns w (i + 1)) := by
  unfold cut Gen.C07.ymaxs
  try unfold Aegean.Model.C07.ymaxsHand
  unfold stripes at hi ⊢
  by_cases h : ns > 1
  · have hw0 : ¬ (w = 0) := by omega
    rw [if_pos h] at hi ⊢
    simp only [h, if_true, Py.range, hw0, if_false]
    rw [ceil_eq rows w hr hw] at hi ⊢
    by_cases hlast : i + 1 < (rows - 1) / w + 1
    · rw [if_pos hlast, List.getElem?_append_left (by simp [maxs_len rows w hr hw]; omega)]
      rw [List.getElem?_map, List.getElem?_range (by rw [maxs_len rows w hr hw]; omega)]
      simp [Nat.add_mul, Nat.add_comm]
    · rw [if_neg hlast, List.getElem?_append_right (by simp [maxs_len rows w hr hw]; omega)]
      have : i - (List.map (fun k => w + k * w) (List.range ((rows - w + w - 1) / w))).length = 0 := by
        simp [maxs_len rows w hr hw]; omega
      rw [this]; rfl
  · rw [if_neg h] at hi ⊢
    have : i = 0 := by omega
    subst this; simp [h]

theorem cut_zero (rows ns w : Nat) (hr : 1 ≤ rows) (hw : 1 ≤ w) : cut rows ns w 0 = 0 := by
  unfold cut; rw [if_pos (show 0 < stripes rows ns w from stripes_pos rows ns w hr hw)]; simp

theorem cut_last (rows ns w : Nat) : cut rows ns w (stripes rows ns w) = rows := by
  unfold cut; rw [if_neg (Nat.lt_irrefl _)]

/-- every stripe is non-empty -/
theorem cut_strict (rows ns w : Nat) (hr : 1 ≤ rows) (hw : 1 ≤ w) (i : Nat) (hi : i < stripes rows ns w) :
    cut rows ns w i < cut rows ns w (i + 1) := by
  unfold cut; rw [if_pos hi]
  by_cases h : i + 1 < stripes rows ns w
  · rw [if_pos h, Nat.add_mul]; omega
  · rw [if_neg h]
    by_cases hns : ns > 1
    · have hf := (stripes_formula rows ns w hr hw hns).2.1
      have : i = stripes rows ns w - 1 := by omega
      rw [this]; exact hf
    · have : stripes rows ns w = 1 := by simp [stripes, hns]
      have : i = 0 := by omega
      subst this; omega

theorem cut_stepMono (rows ns w : Nat) (hr : 1 ≤ rows) (hw : 1 ≤ w) : StepMono (cut rows ns w) (stripes rows ns w) :=
  fun i hi => Nat.le_of_lt (cut_strict rows ns w hr hw i hi)

/-- **layout_tiles**: for every image height `rows ≥ 1`, every width `w ≥ 1` and every requested number of
    slices, stripe `i` of the regenerated layout is the non-empty row range `[cut i, cut (i+1))`, the first
    stripe starts at row 0, the last ends at `rows`, and every row lies in exactly one stripe. -/
theorem layout_tiles (rows ns w : Nat) (hr : 1 ≤ rows) (hw : 1 ≤ w) :
    (∀ i, i < stripes rows ns w →
        (Gen.C07.ymins rows ns w)[i]? = some (cut rows ns w i) ∧
        (Gen.C07.ymaxs rows ns w)[i]? = some (cut rows ns w (i + 1)) ∧
        cut rows ns w i < cut rows ns w (i + 1)) ∧
    cut rows ns w 0 = 0 ∧ cut rows ns w (stripes rows ns w) = rows ∧
    ∀ r, r < rows → ∃ i, (i < stripes rows ns w ∧ cut rows ns w i ≤ r ∧ r < cut rows ns w (i + 1)) ∧
      ∀ j, (j < stripes rows ns w ∧ cut rows ns w j ≤ r ∧ r < cut rows ns w (j + 1)) → j = i := by
  refine ⟨fun i hi => ⟨ymins_get rows ns w hr hw i hi, ymaxs_get rows ns w hr hw i hi,
      cut_strict rows ns w hr hw i hi⟩, cut_zero rows ns w hr hw, cut_last rows ns w, ?_⟩
  intro r hrr
  exact existsUnique_band (cut_zero rows ns w hr hw) (cut_stepMono rows ns w hr hw) r
    (by rw [cut_last]; exact hrr)


/-- exact-arithmetic width: at least one row, so the layout theorems apply -/
theorem widthExact_pos (rows ns step : Nat) (hs : 1 ≤ step) : 1 ≤ widthExact rows ns step := by
  unfold widthExact; omega

/-- the realised count can exceed the request: 100 rows, 3 slices, grid 16 give 4 stripes (DESIGN §6 item 9) -/
theorem realised_exceeds_request : stripes 100 3 (widthExact 100 3 16) = 4 := by decide

example : Gen.C07.ymins 100 3 33 = [0, 33, 66, 99] ∧ Gen.C07.ymaxs 100 3 33 = [33, 66, 99, 100] := by decide

/-! ### the rows a stripe loads are enough for every box it evaluates -/

/-- the regenerated halo / box expressions in closed form (these are the obligations that break when the
    source changes meaning, e.g. when the halo is taken from the box *width*) -/
theorem dataRowMin_eq (lo hi bh bw nrows : Nat) :
    Gen.C07.dataRowMin lo hi bh bw nrows = max 0 ((lo : Int) - ((bh / 2 : Nat) : Int)) := by
  unfold Gen.C07.dataRowMin
  try unfold Aegean.Model.C07.dataRowMinHand
  simp only []
  all_goals (first | (split <;> omega) | omega)

theorem dataRowMax_eq (lo hi bh bw nrows : Nat) :
    Gen.C07.dataRowMax lo hi bh bw nrows = min nrows (hi + bh / 2) := by
  unfold Gen.C07.dataRowMax
  try unfold Aegean.Model.C07.dataRowMaxHand
  simp only []
  all_goals (first | (split <;> omega) | omega)

theorem boxRMin_eq (r bh bw dlen : Nat) :
    Gen.C07.boxRMin r bh bw dlen = max 0 ((r : Int) - ((bh / 2 : Nat) : Int)) := by
  unfold Gen.C07.boxRMin
  try unfold Aegean.Model.C07.boxRMinHand
  simp only []
  all_goals (first | (split <;> omega) | omega)

theorem boxRMax_eq (r bh bw dlen : Nat) :
    Gen.C07.boxRMax r bh bw dlen = min dlen (r + bh / 2) := by
  unfold Gen.C07.boxRMax
  try unfold Aegean.Model.C07.boxRMaxHand
  simp only []
  all_goals (first | (split <;> omega) | omega)

/-- **halo_sufficient**: stripe `[lo, hi)` of an image with `nrows` rows loads rows
    `[dataRowMin, dataRowMax)`.  For every grid node `g` of the stripe (`lo ≤ g ≤ hi`, the appended last
    node `hi` included), at local row `r = g − dataRowMin` of the loaded data, the box rows
    `[boxRMin, boxRMax)` are — in image coordinates — exactly `[max(0, g − h), min(nrows, g + h))` with
    `h = box height // 2`: the same rows a single-stripe run reads for that node.  So no box is truncated at
    an internal stripe boundary, whatever the box height and width, and what a node sees does not depend on
    the number of stripes. -/
theorem halo_sufficient (lo hi bh bw nrows g r : Nat) (h1 : lo ≤ g) (h2 : g ≤ hi) (h3 : hi ≤ nrows)
    (hr : (r : Int) = (g : Int) - Gen.C07.dataRowMin lo hi bh bw nrows) :
    let dmin := Gen.C07.dataRowMin lo hi bh bw nrows
    let dlen := ((Gen.C07.dataRowMax lo hi bh bw nrows : Nat) : Int) - dmin
    0 ≤ dmin ∧ 0 ≤ dlen ∧
    dmin + Gen.C07.boxRMin r bh bw dlen.toNat = max 0 ((g : Int) - ((bh / 2 : Nat) : Int)) ∧
    dmin + ((Gen.C07.boxRMax r bh bw dlen.toNat : Nat) : Int) = min (nrows : Int) ((g : Int) + ((bh / 2 : Nat) : Int)) := by
  intro dmin dlen
  have e1 := dataRowMin_eq lo hi bh bw nrows
  have e2 := dataRowMax_eq lo hi bh bw nrows
  have e3 := boxRMin_eq r bh bw dlen.toNat
  have e4 := boxRMax_eq r bh bw dlen.toNat
  rw [e3, e4]
  show 0 ≤ Gen.C07.dataRowMin lo hi bh bw nrows ∧
    0 ≤ ((Gen.C07.dataRowMax lo hi bh bw nrows : Nat) : Int) - Gen.C07.dataRowMin lo hi bh bw nrows ∧ _ ∧ _
  have hd : dlen = ((Gen.C07.dataRowMax lo hi bh bw nrows : Nat) : Int) - Gen.C07.dataRowMin lo hi bh bw nrows := rfl
  have hm : dmin = Gen.C07.dataRowMin lo hi bh bw nrows := rfl
  rw [e1] at hr hd hm ⊢
  rw [e2] at hd ⊢
  omega

/-- the loaded rows contain the stripe and lie inside the image -/
theorem halo_in_image (lo hi bh bw nrows : Nat) (_h : lo ≤ hi) (h3 : hi ≤ nrows) :
    0 ≤ Gen.C07.dataRowMin lo hi bh bw nrows ∧ Gen.C07.dataRowMin lo hi bh bw nrows ≤ (lo : Int) ∧
    hi ≤ Gen.C07.dataRowMax lo hi bh bw nrows ∧ Gen.C07.dataRowMax lo hi bh bw nrows ≤ nrows := by
  rw [dataRowMin_eq, dataRowMax_eq]
  omega

/-- non-vacuity, and the seeded defect as a negation witness: with the half *width* of a tall narrow box
    (80 rows × 16 columns) as halo, stripe [60,120) of 240 rows loads rows [52,128) and the box of node 60
    starts at row 52 instead of row 20 -/
example : Gen.C07.dataRowMin 60 120 80 16 240 = 20 ∧ Gen.C07.dataRowMax 60 120 80 16 240 = 160 ∧
    Gen.C07.boxRMin 40 80 16 140 = 0 ∧ Gen.C07.boxRMax 40 80 16 140 = 80 := by decide
theorem halo_from_box_width_truncates : max 0 ((60 : Int) - (16 / 2 : Nat)) = 52 ∧ max 0 ((60 : Int) - (80 / 2 : Nat)) = 20 := by
  decide

/-! ## 1b. The worker's synchronisation skeleton, regenerated from the AST of `sigma_filter` and `_sf2` -/

/-- the regenerated skeleton of `sigma_filter` (token list parsed by `Skel.ofCode`) -/
def sigmaSkel : Skel := Skel.ofCode Gen.C07.sigmaSkel

theorem sevRun_waits (m : Bool) : ∀ (t : List SEv) (st st' : Nat), st ≤ 2 → sevRun m st t = some st' →
    st + waits t = st' := by
  intro t
  induction t with
  | nil => intro st st' _ h; simp [sevRun] at h; simp [waits, h]
  | cons e rest ih =>
    intro st st' hst h
    have h012 : st = 0 ∨ st = 1 ∨ st = 2 := by omega
    rcases h012 with h0 | h0 | h0 <;> subst h0 <;> cases e <;> cases m <;>
      simp [sevRun, sevStep] at h <;>
      (have := ih _ st' (by omega) h
       simp [waits, List.count_cons] at this ⊢
       omega)

/-- **conforms_waits** (for every event sequence, not only the regenerated ones): a path that conforms to the
    protocol phases passes the barrier exactly once, and exactly once more iff `domask` -/
theorem conforms_waits (m : Bool) (t : List SEv) (h : conforms m t = true) : waits t = if m then 2 else 1 := by
  unfold conforms at h
  have h' : sevRun m 0 t = some (if m then 2 else 1) := by simpa using h
  have := sevRun_waits m t 0 _ (by omega) h'
  omega

/-- **skel_conforms**: every path of the regenerated `sigma_filter` that does not end by raising — whatever the
    data-dependent branches and early returns — writes the background map only before the first barrier (and,
    masking, after the second), reads it only after the first barrier, never calls `reset()`/`abort()`, and passes the barrier once, twice iff `domask` -/
theorem skel_conforms : ∀ m : Bool, ∀ p ∈ sigmaSkel.paths m, p.2 ≠ .raised → conforms m p.1 = true := by decide

/-- **skel_each_barrier_once**: on every such path the number of `barrier.wait()` calls is 1 without and 2 with
    `domask` — the number of barriers a stripe of the protocol model passes (`ent c .done`), so the barrier's party
    count is met exactly once per generation by every stripe -/
theorem skel_each_barrier_once (m : Bool) (p : List SEv × SEnd) (hp : p ∈ sigmaSkel.paths m) (hn : p.2 ≠ .raised) :
    waits p.1 = ent { n := 1, parties := 1, slots := 1, mask := m, reset := false, abort := true } .done := by
  rw [conforms_waits m p.1 (skel_conforms m p hp hn)]
  cases m <;> rfl

/-- non-vacuity: the regenerated skeleton has a normally ending path for either value of `domask` -/
example : (sigmaSkel.paths true).any (fun p => p.2 != .raised) = true ∧
    (sigmaSkel.paths false).any (fun p => p.2 != .raised) = true := by decide

/-- teeth: an early return before the second barrier (a stripe with nothing to mask) does not conform -/
example : conforms true [.wBkg, .wait, .rBkg, .wRms] = false ∧ conforms true [.wBkg, .wait, .rBkg, .wRms, .wait, .wBkg] = true ∧
    conforms false [.wBkg, .wait, .rBkg, .wRms] = true ∧ conforms true [.wBkg, .wait, .wBkg, .wait] = false := by decide

/-- **sf2_aborts**: every `except` clause of the regenerated `_sf2` aborts the barrier — before any other call — and re-raises, and one of them
    catches `BaseException` — the hypothesis `abort := true` of the repaired protocol, for every exception type -/
theorem sf2_aborts : handlersOK (Gen.C07.sf2Handlers.map Handler.ofRaw) = true := by decide

/-- **barrier_untimed**: the regenerated `Barrier(...)` constructor has no `timeout` and no `action`, and (by `skel_conforms`: `waitT` conforms to nothing) no `wait` carries a timeout — so a stripe that lags
    by any amount of time cannot break the barrier: the model's barrier has no timeout transition for good reason -/
theorem barrier_untimed : barrierCtorOK (BarrierCtor.ofRaw Gen.C07.barrierCtor) = true := by decide

example : barrierCtorOK { parties := "len(ymaxs)", timeout := some 60, action := false } = false ∧
    barrierCtorOK { parties := "nstripes", timeout := none, action := false } = true ∧
    conforms false [.wBkg, .waitT, .rBkg, .wRms] = false := by decide

/-! ## 2. Protocol: the repaired code -/

/-- the repaired configuration satisfies the hypotheses of the theorems below, whatever `cores` is:
    no `reset()`, `abort()` on failure, one barrier party per task, and a pool slot for every stripe -/
theorem repaired_ok (n cores : Nat) (mask : Bool) :
    Repaired (repaired n cores mask) ∧ (repaired n cores mask).n ≤ (repaired n cores mask).slots :=
  ⟨⟨rfl, rfl, rfl⟩, Nat.le_max_right _ _⟩

/-- **no_deadlock**: in every reachable state of the repaired protocol — any number of stripes, any pool
    with at least that many slots, any interleaving, any number of injected faults at any phase — either
    every stripe has finished (returned or raised) or some stripe can take a step. -/
theorem no_deadlock {c : Cfg} (R : Repaired c) (hn : 0 < c.n) (hs : c.n ≤ c.slots) {F : Bool} {s : State}
    (h : Reach c F s) :
    (∀ i, i < c.n → (s.ph i).terminal = true) ∨ ∃ i, i < c.n ∧ (adv c s i).isSome = true :=
  progress hs (reach_inv R hn h)

theorem exec_mu {c : Cfg} : ∀ (acts : List Act) (s s' : State), exec c s acts = some s' →
    mu c s' + acts.length ≤ mu c s := by
  intro acts
  induction acts with
  | nil => intro s s' h; simp [exec] at h; subst h; simp
  | cons a rest ih =>
    intro s s' h
    simp only [exec] at h
    cases hs : step c s a with
    | none => rw [hs] at h; cases h
    | some s1 =>
      rw [hs] at h
      have := ih s1 s' h
      have := step_mu hs
      simp only [List.length_cons]; omega

theorem mu_init (c : Cfg) : mu c (init c) = 10 * c.n := by
  unfold mu init
  generalize c.n = n
  induction n with
  | zero => rfl
  | succ k ih => simp only [sumTo, Phase.rank] at ih ⊢; omega

/-- **run_length_bounded**: every run (of either protocol, with or without faults) has at most `10·n` steps -/
theorem run_length_bounded {c : Cfg} (acts : List Act) (s : State) (h : exec c (init c) acts = some s) :
    acts.length ≤ 10 * c.n := by
  have := exec_mu acts _ _ h
  rw [mu_init] at this; omega

/-- **terminates**: there is no infinite run — every maximal run is finite (well-founded measure `mu`) -/
theorem terminates (c : Cfg) : ¬ ∃ (f : Nat → State) (a : Nat → Act), f 0 = init c ∧
    ∀ k, step c (f k) (a k) = some (f (k + 1)) := by
  rintro ⟨f, a, h0, hstep⟩
  have hk : ∀ k, mu c (f k) + k ≤ mu c (f 0) := by
    intro k
    induction k with
    | zero => simp
    | succ k ih => have := step_mu (hstep k); omega
  have := hk (mu c (f 0) + 1)
  omega

/-- **complete_when_stuck**: a fault-free run of the repaired protocol that cannot be extended has every
    stripe `done` — together with `terminates`: every maximal fault-free run ends with all stripes done -/
theorem complete_when_stuck {c : Cfg} (R : Repaired c) (hn : 0 < c.n) (hs : c.n ≤ c.slots) {s : State}
    (h : Reach c false s) (hstuck : ∀ i, i < c.n → adv c s i = none) : ∀ i, i < c.n → s.ph i = .done := by
  have G := reach_good R hn h
  rcases no_deadlock R hn hs h with hall | ⟨i, hi, hen⟩
  · intro i hi
    have ht := hall i hi
    have hok := G.ok i hi
    cases hp : s.ph i <;> simp_all [Phase.terminal, okPh]
  · rw [hstuck i hi] at hen; cases hen

/-- **no_spurious_failure**: without a fault no stripe ever fails and the barrier is never broken -/
theorem no_spurious_failure {c : Cfg} (R : Repaired c) (hn : 0 < c.n) {s : State} (h : Reach c false s) :
    (∀ i, i < c.n → s.ph i ≠ .failed) ∧ s.b.state ≠ .broken ∧ s.b.state ≠ .resetting := by
  have G := reach_good R hn h
  refine ⟨?_, ?_, ?_⟩
  · intro i hi hp
    have := G.ok i hi
    rw [hp] at this; simp [okPh] at this
  · rcases good_state G with e | e <;> rw [e] <;> simp
  · rcases good_state G with e | e <;> rw [e] <;> simp

/-- **fault_propagates**: in the repaired protocol a failure of any stripe at any phase never leaves
    another stripe blocked: a run with faults that cannot be extended has every stripe finished
    (returned or raised), so `map_async().get()` returns control; by `run_length_bounded` within `10·n` steps -/
theorem fault_propagates {c : Cfg} (R : Repaired c) (hn : 0 < c.n) (hs : c.n ≤ c.slots) {s : State}
    (h : Reach c true s) (hstuck : ∀ i, i < c.n → adv c s i = none) :
    ∀ i, i < c.n → (s.ph i).terminal = true := by
  rcases no_deadlock R hn hs h with hall | ⟨i, hi, hen⟩
  · exact hall
  · rw [hstuck i hi] at hen; cases hen

/-- a failed stripe stays failed: the failure is still there when `get()` collects the results, so it raises -/
theorem failed_persists {c : Cfg} {s s' : State} {a : Act} (h : step c s a = some s') (j : Nat)
    (hj : s.ph j = .failed) : s'.ph j = .failed := by
  cases a with
  | adv i =>
    have m := (adv_move h).2
    have hne : j ≠ i := by
      intro e; subst e
      cases m <;> simp_all
    cases m <;> simp [failOut, upd, hne, hj]
  | fault i =>
    obtain ⟨_, e, _, hact⟩ := fault_shape h
    subst e
    have hne : j ≠ i := by
      intro e; subst e; rw [hj] at hact; simp [Phase.active] at hact
    simp [failOut, upd, hne, hj]


/-! ## 3. Protocol: what goes wrong in the pinned code (negation witnesses, for every size) -/

theorem cnt_prefix {p : Nat → Bool} {k : Nat} (h1 : ∀ i, i < k → p i = true) (h2 : ∀ i, k ≤ i → p i = false) :
    ∀ n, k ≤ n → cnt p n = k := by
  intro n
  induction n with
  | zero => intro h; have : k = 0 := by omega
            subst this; rfl
  | succ m ih =>
    intro h
    by_cases e : k = m + 1
    · subst e; exact cnt_all (fun j hj => h1 j hj)
    · simp only [cnt]; rw [ih (by omega), h2 m (by omega)]; simp

/-- the first `k` stripes wait inside barrier 1, the others are still queued -/
def Filled (s : State) (k : Nat) : Prop :=
  (∀ i, i < k → ∃ f, s.ph i = .inB false f) ∧ (∀ i, k ≤ i → s.ph i = .queued) ∧
  s.b = { count := k, state := .filling }

theorem filled_running {c : Cfg} {s : State} {k : Nat} (h : Filled s k) (hk : k ≤ c.n) : running c s = k := by
  apply cnt_prefix (p := fun i => (s.ph i).active) _ _ c.n hk
  · intro i hi; obtain ⟨f, e⟩ := h.1 i hi; simp [e, Phase.active]
  · intro i hi; simp [h.2.1 i hi, Phase.active]

theorem reach_filled {c : Cfg} (hp : c.parties = c.n) : ∀ k, k ≤ c.slots → k < c.n →
    ∃ s, Reach c false s ∧ Filled s k := by
  intro k
  induction k with
  | zero =>
    intro _ _
    exact ⟨init c, Reach.init, fun i hi => by omega, fun i _ => rfl, rfl⟩
  | succ k ih =>
    intro hks hkn
    obtain ⟨s, hr, hf⟩ := ih (by omega) (by omega)
    have hrun := filled_running (c := c) hf (by omega)
    have hq : s.ph k = .queued := hf.2.1 k (Nat.le_refl _)
    -- start stripe k
    have a1 : adv c s k = some { s with ph := upd s.ph k .pass1 } := by
      have : running c s < c.slots := by omega
      have hk : k < c.n := by omega
      simp [adv, hk, hq, this]
    -- finish pass 1
    have a2 : adv c { s with ph := upd s.ph k .pass1 } k = some { s with ph := upd (upd s.ph k .pass1) k (.atB false) } := by
      have hk : k < c.n := by omega
      simp [adv, hk]
    -- enter the barrier: not the last party, so it waits
    have a3 : adv c { s with ph := upd (upd s.ph k .pass1) k (.atB false) } k =
        some { ph := upd (upd (upd s.ph k .pass1) k (.atB false)) k (.inB false (k == 0)),
               b := { count := k + 1, state := .filling } } := by
      have hk : k < c.n := by omega
      have hne : ¬ (k + 1 = c.parties) := by omega
      simp [adv, hk, hf.2.2, hne]
    refine ⟨_, Reach.adv (Reach.adv (Reach.adv hr a1) a2) a3, ?_, ?_, rfl⟩
    · intro i hi
      by_cases e : i = k
      · exact ⟨(k == 0), by simp [e]⟩
      · obtain ⟨f, hfi⟩ := hf.1 i (by omega)
        exact ⟨f, by simp [upd, e, hfi]⟩
    · intro i hi
      have e : i ≠ k := by omega
      simp [upd, e, hf.2.1 i (by omega)]

/-- **deadlock_when_pool_too_small** (the pinned pool, `processes = cores`): for every number of stripes
    `n` and every pool with fewer than `n` slots there is a reachable state in which no stripe can move
    and stripe `slots` has not even started — `cores = 2, stripes = 4` and `cores = 3`, realised `4`, are instances -/
theorem deadlock_when_pool_too_small {c : Cfg} (hp : c.parties = c.n) (hs : c.slots < c.n) :
    ∃ s, Reach c false s ∧ (∀ i, i < c.n → adv c s i = none) ∧ ∃ i, i < c.n ∧ (s.ph i).terminal = false := by
  obtain ⟨s, hr, hf⟩ := reach_filled hp c.slots (Nat.le_refl _) hs
  refine ⟨s, hr, ?_, c.slots, hs, by simp [hf.2.1 c.slots (Nat.le_refl _), Phase.terminal]⟩
  intro i hi
  by_cases h : i < c.slots
  · obtain ⟨f, e⟩ := hf.1 i h
    simp [adv, hi, e, hf.2.2]
  · have hq := hf.2.1 i (by omega)
    have hrun := filled_running (c := c) hf (by omega)
    simp [adv, hi, hq, hrun]

/-- **deadlock_iff**: with the repaired synchronisation (no `reset()`, `abort()` on failure, one party per
    task) a fault-free run can get stuck with an unfinished stripe **iff** the pool has fewer slots than
    there are stripes -/
theorem deadlock_iff {c : Cfg} (R : Repaired c) (hn : 0 < c.n) :
    (∃ s, Reach c false s ∧ (∀ i, i < c.n → adv c s i = none) ∧ ∃ i, i < c.n ∧ (s.ph i).terminal = false)
      ↔ c.slots < c.n := by
  constructor
  · rintro ⟨s, hr, hstuck, i, hi, hnt⟩
    by_cases h : c.slots < c.n
    · exact h
    · exfalso
      rcases no_deadlock R hn (by omega) hr with hall | ⟨j, hj, hen⟩
      · rw [hall i hi] at hnt; cases hnt
      · rw [hstuck j hj] at hen; cases hen
  · exact deadlock_when_pool_too_small R.parties

/-- the projection of a state used by the concrete witnesses below -/
def view (n : Nat) (s : State) : List Phase × Barrier := ((List.range n).map s.ph, s.b)

/-- `cores = 2, stripes = 4` on the pinned code: two stripes wait inside barrier 1, two never start -/
theorem pinned_cores2_stripes4_hangs :
    (exec (pinned 4 2 true) (init (pinned 4 2 true))
        [.adv 0, .adv 1, .adv 0, .adv 1, .adv 0, .adv 1]).map
      (fun s => (view 4 s, stuck (pinned 4 2 true) s)) =
      some (([.inB false true, .inB false false, .queued, .queued], ⟨2, .filling⟩), true) := by decide

/-- **fault_hangs_pinned**: on the pinned code (no `abort()`) an exception in one stripe before the
    barrier leaves the other stripe waiting forever: stripe 0 raises in pass 1, stripe 1 enters barrier 1,
    nothing can move and stripe 1 has not finished -/
theorem fault_hangs_pinned :
    (exec (pinned 2 2 true) (init (pinned 2 2 true))
        [.adv 0, .adv 1, .fault 0, .adv 1, .adv 1]).map
      (fun s => (view 2 s, stuck (pinned 2 2 true) s)) =
      some (([.failed, .inB false true], ⟨1, .filling⟩), true) := by decide

/-- the same fault on the repaired code: stripe 1 gets `BrokenBarrierError` and every stripe finishes -/
theorem fault_clean_repaired :
    (exec (repaired 2 2 true) (init (repaired 2 2 true))
        [.adv 0, .adv 1, .fault 0, .adv 1, .adv 1]).map
      (fun s => (view 2 s, allTerminal (repaired 2 2 true) s)) =
      some (([.failed, .failed], ⟨0, .broken⟩), true) := by decide

/-- **reset_race_pinned**: two stripes, mask on, nobody faults.  Stripe 0 arrives first at barrier 1 (index 0),
    stripe 1 releases it; stripe 1 runs pass 2 and is already waiting in barrier 2 when stripe 0 — back from
    `wait()` — calls `barrier.reset()`: the barrier goes to `resetting`, stripe 1 gets `BrokenBarrierError`,
    and stripe 0 then waits in barrier 2 for a party that will never come -/
theorem reset_race_pinned :
    (exec (pinned 2 2 true) (init (pinned 2 2 true))
        [.adv 0, .adv 1, .adv 0, .adv 1,     -- both start and finish pass 1
         .adv 0,                              -- stripe 0 enters barrier 1: index 0, waits
         .adv 1,                              -- stripe 1 is the last party: releases, leaves, goes on to pass 2
         .adv 0,                              -- stripe 0 leaves barrier 1 (about to call reset())
         .adv 1, .adv 1,                      -- stripe 1 finishes pass 2 and enters barrier 2: waits
         .adv 0,                              -- stripe 0 calls reset(): count = 1, state filling -> resetting
         .adv 1,                              -- stripe 1: BrokenBarrierError
         .adv 0, .adv 0]).map                 -- stripe 0 finishes pass 2 and enters barrier 2
      (fun s => (view 2 s, stuck (pinned 2 2 true) s)) =
      some (([.inB true true, .failed], ⟨1, .filling⟩), true) := by decide

/-- without `reset()` the same schedule completes -/
theorem no_reset_same_schedule_completes :
    (exec (repaired 2 2 true) (init (repaired 2 2 true))
        [.adv 0, .adv 1, .adv 0, .adv 1, .adv 0, .adv 1, .adv 0, .adv 1, .adv 1,
         .adv 0, .adv 0, .adv 1, .adv 1, .adv 0]).map
      (fun s => (view 2 s, allDone (repaired 2 2 true) s)) =
      some (([.done, .done], ⟨0, .filling⟩), true) := by decide


/-! ## 4. The shared maps: every pixel written, same result for every schedule and worker count -/

/-- the maps a complete run leaves behind, as a function of the layout, the (abstract) numerical work and
    `mask` only — no schedule, no pool size -/
def finalMaps {V : Type} (L : Layout) (W : Work V) (n : Nat) (mask : Bool) : Maps V :=
  { bkg := fun r => (ownerOf L n r).map (fun j => mIf W mask r (W.f1 j r)),
    rms := fun r => (ownerOf L n r).map (fun j => mIf W mask r (W.f2 j r (fullBkg L W n))) }

/-- **bkg_stable_while_pass2**: in every reachable fault-free state, while some stripe is in pass 2 (the only
    phase that reads the shared background map) no stripe is in a phase that writes it: all have finished
    pass 1 and none has started masking.  Pass 2 therefore reads only rows that are final, whenever and in
    whatever order it reads them. -/
theorem bkg_stable_while_pass2 {c : Cfg} (R : Repaired c) (hn : 0 < c.n) {s : State} (h : Reach c false s)
    {i : Nat} (hi : i < c.n) (hp : s.ph i = .pass2) :
    ∀ j, j < c.n → s.ph j ≠ .queued ∧ s.ph j ≠ .pass1 ∧ s.ph j ≠ .masking ∧ ¬ (s.ph j = .done ∧ c.mask = true) := by
  intro j hj
  have := stable_in_pass2 (reach_good R hn h) hi hp j hj
  refine ⟨?_, ?_, this.2.2, ?_⟩
  · intro e; rw [e] at this; simp [fin1] at this
  · intro e; rw [e] at this; simp [fin1] at this
  · rintro ⟨e, hm⟩; rw [e] at this; simp [masked, hm] at this

/-- **maps_of_complete_run**: a complete fault-free run of the repaired protocol leaves exactly `finalMaps` -/
theorem maps_of_complete_run {V : Type} {c : Cfg} {L : Layout} {W : Work V} (R : Repaired c) (hn : 0 < c.n)
    (hd : Disj L c.n) {s : State} {m : Maps V} (h : ReachD c L W s m) (hdone : ∀ i, i < c.n → s.ph i = .done) :
    m = finalMaps L W c.n c.mask := by
  have D := reachD_inv R hn hd h
  have hb : m.bkg = (finalMaps L W c.n c.mask).bkg := by
    funext r
    rw [D.bkg r]; simp only [finalMaps]
    cases ho : ownerOf L c.n r with
    | none => rfl
    | some j => simp [hdone j (ownerOf_some ho).1, fin1, masked]
  have hr : m.rms = (finalMaps L W c.n c.mask).rms := by
    funext r
    rw [D.rms r]; simp only [finalMaps]
    cases ho : ownerOf L c.n r with
    | none => rfl
    | some j => simp [hdone j (ownerOf_some ho).1, fin2, masked]
  cases m; simp_all

/-- **schedule_independent**: any two complete fault-free runs over the same layout — whatever the
    interleavings and whatever the two pool sizes (worker counts) — end with identical maps -/
theorem schedule_independent {V : Type} {c₁ c₂ : Cfg} {L : Layout} {W : Work V}
    (R₁ : Repaired c₁) (R₂ : Repaired c₂) (hn : 0 < c₁.n) (hsame : c₁.n = c₂.n) (hmask : c₁.mask = c₂.mask)
    (hd : Disj L c₁.n) {s₁ s₂ : State} {m₁ m₂ : Maps V}
    (h₁ : ReachD c₁ L W s₁ m₁) (h₂ : ReachD c₂ L W s₂ m₂)
    (d₁ : ∀ i, i < c₁.n → s₁.ph i = .done) (d₂ : ∀ i, i < c₂.n → s₂.ph i = .done) : m₁ = m₂ := by
  rw [maps_of_complete_run R₁ hn hd h₁ d₁, maps_of_complete_run R₂ (by omega) (by rw [← hsame]; exact hd) h₂ d₂,
    hsame, hmask]

/-- **all_rows_written**: after a complete run every row owned by a stripe is written in both maps
    (with `layout_tiles`: every row of the image) -/
theorem all_rows_written {V : Type} {c : Cfg} {L : Layout} {W : Work V} (R : Repaired c) (hn : 0 < c.n)
    (hd : Disj L c.n) {s : State} {m : Maps V} (h : ReachD c L W s m) (hdone : ∀ i, i < c.n → s.ph i = .done)
    (i r : Nat) (hi : i < c.n) (ho : owns L i r) : (m.bkg r).isSome = true ∧ (m.rms r).isSome = true := by
  rw [maps_of_complete_run R hn hd h hdone]
  simp [finalMaps, ownerOf_of_owns hd hi ho]

/-- the regenerated layout has disjoint stripes, so the theorems above apply to it -/
theorem layout_disj (rows ns w : Nat) (hr : 1 ≤ rows) (hw : 1 ≤ w) :
    Disj { lo := cut rows ns w, hi := fun i => cut rows ns w (i + 1) } (stripes rows ns w) := by
  intro i j r hi hj hoi hoj
  exact band_unique (cut_stepMono rows ns w hr hw) r i j hi hj hoi.1 hoi.2 hoj.1 hoj.2

/-! ## 5. Shared memory is released on every exit path -/

/-- every execution of `try: body finally: fin` is an execution of `body` followed by an execution of `fin` -/
theorem finally_always (body fin : Prog) (t : List Ev) (o : Outcome)
    (h : (t, o) ∈ (Prog.tryFinally body fin).runs) :
    ∃ tb ob tf of_, (tb, ob) ∈ body.runs ∧ (tf, of_) ∈ fin.runs ∧ t = tb ++ tf := by
  simp only [Prog.runs, List.mem_flatMap, List.mem_map] at h
  obtain ⟨⟨tb, ob⟩, hb, ⟨tf, of_⟩, hf, e⟩ := h
  simp only [Prod.mk.injEq] at e
  exact ⟨tb, ob, tf, of_, hb, hf, e.1.symm⟩

/-- the `finally:` block has exactly one execution: close and unlink both segments -/
theorem release_runs : releaseProg.runs = [([.closeBkg, .unlinkBkg, .closeRms, .unlinkRms], .normal)] := by decide

/-- **shm_released**: every exit path of `filter_mc_sharemem` — normal return, an exception from a worker
    re-raised by `get()`, `KeyboardInterrupt`, a failure while setting up the pool — ends with
    `ibkg.close(); ibkg.unlink(); irms.close(); irms.unlink()` -/
theorem shm_released (t : List Ev) (o : Outcome) (h : (t, o) ∈ parentProg.runs) :
    ∃ tb, t = tb ++ [.closeBkg, .unlinkBkg, .closeRms, .unlinkRms] := by
  obtain ⟨tb, _, tf, of_, _, hf, e⟩ := finally_always bodyProg releaseProg t o h
  rw [release_runs] at hf
  simp at hf
  exact ⟨tb, by rw [e, hf.1]⟩

/-- **parent_runs_released**: every execution of the parent's control-flow model satisfies the Spec predicate
    `releasedOK` that the harness evaluates on the exit paths of the real code (which may differ from the
    model in harmless ways, e.g. an extra idempotent `pool.terminate()`) -/
theorem parent_runs_released : ∀ r ∈ parentProg.runs, Aegean.Spec.C07.releasedOK r.1 = true := by decide

/-- the predicate is not vacuous: dropping the last unlink, or unlinking before the maps are collected, violates it -/
example : Aegean.Spec.C07.releasedOK [.createBkg, .createRms, .setup, .mapGet, .collect, .closeBkg, .unlinkBkg, .closeRms] = false ∧
    Aegean.Spec.C07.releasedOK [.createBkg, .createRms, .setup, .mapGet, .closeBkg, .unlinkBkg, .collect, .closeRms, .unlinkRms] = false ∧
    Aegean.Spec.C07.releasedOK [.createBkg, .createRms, .setup, .mapGet, .collect, .poolTerminate, .closeBkg, .unlinkBkg, .closeRms, .unlinkRms] = true := by
  decide

/-- non-vacuity: the exit paths include a normal return, a worker exception and an interrupt -/
example : ([Ev.createBkg, .createRms, .setup, .mapGet, .collect, .closeBkg, .unlinkBkg, .closeRms, .unlinkRms], Outcome.normal)
    ∈ parentProg.runs ∧
  ([Ev.createBkg, .createRms, .setup, .poolTerminate, .closeBkg, .unlinkBkg, .closeRms, .unlinkRms], Outcome.raised)
    ∈ parentProg.runs ∧
  ([Ev.createBkg, .createRms, .setup, .poolClose, .closeBkg, .unlinkBkg, .closeRms, .unlinkRms], Outcome.normal)
    ∈ parentProg.runs := by decide

end Aegean.Properties.C07
