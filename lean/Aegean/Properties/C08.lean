/-
  C08 — Region operations are set algebra on sky pixels, for every history.

  Model: `Aegean.Model.C08` (pixel dictionary per depth, aliasing `demoted` cache, every operation
  as coded after fixes C08-01…03).  Spec: `Aegean.Spec.C08` (a region is a set of deepest-level
  pixel ids; operations are ∪ ∖ ∩ Δ).  Abstraction: `abs r q` — deepest pixel `q` lies under a
  stored pixel.  All theorems are for unbounded depth, unbounded pixel sets and arbitrary
  operation lists; the tie to the Python code is `harness/corr_C08.py`.
-/
import Aegean.Proofs.C08Refine
import Aegean.Proofs.C08SessionThm
import Aegean.Proofs.C08Leaves
import Aegean.Model.C08Gen

namespace Aegean.Properties.C08
open Aegean.Model.C08 Aegean.Proofs.C08

/-- the full invariant of the normalised alphabet -/
def Inv (r : Region) : Prop := Valid r ∧ NoDC r

/-! ### histories -/

def ResEq (strict : Prop) : Except Err Obs → Except SErr SObs → Prop
  | .ok o, .ok so => ObsEq strict o so
  | .error e, .error e' => errMap e = e'
  | _, _ => False

def AllMatch {α β : Type} (R : α → β → Prop) : List α → List β → Prop
  | [], [] => True
  | a :: as, b :: bs => R a b ∧ AllMatch R as bs
  | _, _ => False

theorem run_cons_ok {r r' : Region} {op : Op} {o : Obs} (ops : List Op) (h : step r op = .ok (r', o)) :
    run r (op :: ops) = ((run r' ops).1, .ok o :: (run r' ops).2) := by
  simp only [run, h]

theorem run_cons_err {r : Region} {op : Op} {e : Err} (ops : List Op) (h : step r op = .error e) :
    run r (op :: ops) = ((run r ops).1, .error e :: (run r ops).2) := by
  simp only [run, h]

theorem srun_cons_ok {s s' : SS} {op : SOp} {o : SObs} (ops : List SOp)
    (h : Aegean.Spec.C08.step s op = .ok (s', o)) :
    Aegean.Spec.C08.run s (op :: ops) =
      ((Aegean.Spec.C08.run s' ops).1, .ok o :: (Aegean.Spec.C08.run s' ops).2) := by
  simp only [Aegean.Spec.C08.run, h]

theorem srun_cons_err {s : SS} {op : SOp} {e : SErr} (ops : List SOp)
    (h : Aegean.Spec.C08.step s op = .error e) :
    Aegean.Spec.C08.run s (op :: ops) =
      ((Aegean.Spec.C08.run s ops).1, .error e :: (Aegean.Spec.C08.run s ops).2) := by
  simp only [Aegean.Spec.C08.run, h]

theorem obsEq_mono {p p' : Prop} (h : p' → p) : ∀ {o : Obs} {so : SObs}, ObsEq p o so → ObsEq p' o so
  | .none, .none, _ => trivial
  | .pixels _, .pixels _, hh => hh
  | .area _, .area _, hh => fun hp => hh (h hp)
  | .answer _, .answer _, hh => hh
  | .none, .pixels _, hh | .none, .area _, hh | .none, .answer _, hh => hh.elim
  | .pixels _, .none, hh | .pixels _, .area _, hh | .pixels _, .answer _, hh => hh.elim
  | .area _, .none, hh | .area _, .pixels _, hh | .area _, .answer _, hh => hh.elim
  | .answer _, .none, hh | .answer _, .pixels _, hh | .answer _, .area _, hh => hh.elim

/-- The simulation for whole histories, in one statement with a switch:
    `strict = True`  — the alphabet of every in-repo caller (`Normalising`), started in a state with no
                       double cover: *all* observations (incl. area) agree and `NoDC` is kept;
    `strict = False` — any alphabet, incl. raw `add_pixels` and `union(renorm=False)`: membership
                       answers and demoted sets agree, validity of ids is kept. -/
theorem run_refines (strict : Prop) : ∀ (ops : List Op) (r : Region) (s : SS), Valid r → Rel r s →
    (∀ op, op ∈ ops → OpOk op) → (strict → NoDC r ∧ ∀ op, op ∈ ops → Normalising op) →
    Valid (run r ops).1 ∧ (run r ops).1.m = r.m ∧
      Rel (run r ops).1 (Aegean.Spec.C08.run s (ops.map absOp)).1 ∧
      AllMatch (ResEq strict) (run r ops).2 (Aegean.Spec.C08.run s (ops.map absOp)).2 ∧
      (strict → NoDC (run r ops).1)
  | [], r, s, hv, hrel, _, hst => ⟨hv, rfl, hrel, trivial, fun h => (hst h).1⟩
  | op :: ops, r, s, hv, hrel, hok, hst => by
    have hok1 : OpOk op := hok op (List.mem_cons_self ..)
    have hok2 : ∀ op', op' ∈ ops → OpOk op' := fun op' h => hok op' (List.mem_cons_of_mem _ h)
    rcases step_refines op hv hok1 hrel with ⟨r', ob, s', sob, h1, h2, hv', hm', hrel', hobs, hnd⟩ | ⟨e, h1, h2⟩
    · have hst' : strict → NoDC r' ∧ ∀ op', op' ∈ ops → Normalising op' := fun h =>
        ⟨hnd (hst h).1 ((hst h).2 op (List.mem_cons_self ..)),
          fun op' h' => (hst h).2 op' (List.mem_cons_of_mem _ h')⟩
      obtain ⟨a, b, c, d, e⟩ := run_refines strict ops r' s' hv' hrel' hok2 hst'
      rw [List.map_cons, run_cons_ok ops h1, srun_cons_ok _ h2]
      exact ⟨a, by rw [b, hm'], c, ⟨obsEq_mono (fun h => (hst h).1) hobs, d⟩, e⟩
    · have hst' : strict → NoDC r ∧ ∀ op', op' ∈ ops → Normalising op' := fun h =>
        ⟨(hst h).1, fun op' h' => (hst h).2 op' (List.mem_cons_of_mem _ h')⟩
      obtain ⟨a, b, c, d, e'⟩ := run_refines strict ops r s hv hrel hok2 hst'
      rw [List.map_cons, run_cons_err ops h1, srun_cons_err _ h2]
      exact ⟨a, b, c, ⟨rfl, d⟩, e'⟩

/-! ### the property, clause by clause -/

/-- **inv_init**: a fresh `Region(maxdepth)` satisfies the invariant and covers nothing. -/
theorem inv_init {m : Nat} (h : 1 ≤ m) : Inv (empty m) ∧ ∀ q, ¬ abs (empty m) q :=
  ⟨⟨valid_empty h, noDC_empty m⟩, abs_empty m⟩

/-- **inv_step**: every operation keeps ids valid integers for their level (and the cache coherent);
    every normalising operation keeps "no patch of sky is represented twice". -/
theorem inv_step {r r' : Region} {op : Op} {ob : Obs} (hv : Valid r) (hok : OpOk op)
    (h : step r op = .ok (r', ob)) :
    Valid r' ∧ r'.m = r.m ∧ (NoDC r → Normalising op → NoDC r') := by
  rcases step_refines op hv hok (rel_absS (o := r)) with ⟨r2, ob2, _, _, h1, _, hv', hm', _, _, hnd⟩ | ⟨e, h1, _⟩
  · rw [h] at h1
    injection h1 with h1; injection h1 with h1 h1'
    subst h1
    exact ⟨hv', hm', hnd⟩
  · rw [h] at h1; cases h1

/-- **abs_step / obs_step**: one operation acts on the covered set exactly as the set-algebra Spec
    says, and its observation (membership answer, demoted set, area) is the Spec's. -/
theorem abs_obs_step {r : Region} {s : SS} (op : Op) (hv : Valid r) (hok : OpOk op) (hrel : Rel r s) :
    (∃ r' ob s' sob, step r op = .ok (r', ob) ∧ Aegean.Spec.C08.step s (absOp op) = .ok (s', sob) ∧
        Rel r' s' ∧ ObsEq (NoDC r) ob sob) ∨
    (∃ e, step r op = .error e ∧ Aegean.Spec.C08.step s (absOp op) = .error (errMap e)) := by
  rcases step_refines op hv hok hrel with ⟨r', ob, s', sob, h1, h2, _, _, h3, h4, _⟩ | h
  · exact Or.inl ⟨r', ob, s', sob, h1, h2, h3, h4⟩
  · exact Or.inr h

/-- **refines_all_histories**: for every operation list over the normalising alphabet (any length,
    any depth, any pixel sets, operands of equal, lower and higher depth, queries interleaved
    anywhere), started from any state satisfying the invariant: the final covered set is the Spec's
    set, every observation — membership answers, demoted sets, areas, assertion errors — equals the
    Spec's, and the invariant still holds. -/
theorem refines_all_histories (ops : List Op) (r : Region) (s : SS) (hi : Inv r) (hrel : Rel r s)
    (hok : ∀ op, op ∈ ops → OpOk op) (hn : ∀ op, op ∈ ops → Normalising op) :
    Inv (run r ops).1 ∧ Rel (run r ops).1 (Aegean.Spec.C08.run s (ops.map absOp)).1 ∧
      AllMatch (ResEq True) (run r ops).2 (Aegean.Spec.C08.run s (ops.map absOp)).2 := by
  obtain ⟨a, _, c, d, e⟩ := run_refines True ops r s hi.1 hrel hok (fun _ => ⟨hi.2, hn⟩)
  exact ⟨⟨a, e trivial⟩, c, d⟩

/-- the same from a fresh region: the Spec starts from the empty set -/
theorem refines_from_empty (m : Nat) (hm : 1 ≤ m) (ops : List Op)
    (hok : ∀ op, op ∈ ops → OpOk op) (hn : ∀ op, op ∈ ops → Normalising op) :
    Inv (run (empty m) ops).1 ∧
      Rel (run (empty m) ops).1 (Aegean.Spec.C08.run ⟨m, []⟩ (ops.map absOp)).1 ∧
      AllMatch (ResEq True) (run (empty m) ops).2 (Aegean.Spec.C08.run ⟨m, []⟩ (ops.map absOp)).2 :=
  refines_all_histories ops (empty m) ⟨m, []⟩ (inv_init hm).1
    ⟨rfl, fun q => ⟨fun h => by simp at h, fun h => ((inv_init hm).2 q h).elim⟩⟩ hok hn

/-- **refines_membership_raw**: with the raw primitives in the alphabet too (`add_pixels` on its
    own, `union(renorm=False)`), membership answers and demoted sets still equal the Spec's and ids
    stay valid; only the area (and "represented once") need the normalising alphabet. -/
theorem refines_membership_raw (ops : List Op) (r : Region) (s : SS) (hv : Valid r) (hrel : Rel r s)
    (hok : ∀ op, op ∈ ops → OpOk op) :
    Valid (run r ops).1 ∧ Rel (run r ops).1 (Aegean.Spec.C08.run s (ops.map absOp)).1 ∧
      AllMatch (ResEq False) (run r ops).2 (Aegean.Spec.C08.run s (ops.map absOp)).2 := by
  obtain ⟨a, _, c, d, _⟩ := run_refines False ops r s hv hrel hok (fun h => h.elim)
  exact ⟨a, c, d⟩

/-- reachable states: from a fresh region by normalising operations with valid arguments -/
inductive Reachable : Region → Prop
  | init {m : Nat} (h : 1 ≤ m) : Reachable (empty m)
  | step {r r' : Region} {op : Op} {ob : Obs} : Reachable r → OpOk op → Normalising op →
      Aegean.Model.C08.step r op = .ok (r', ob) → Reachable r'

theorem reachable_inv {r : Region} (h : Reachable r) : Inv r := by
  induction h with
  | init h => exact (inv_init h).1
  | step _ hok hn hs ih =>
    obtain ⟨a, _, c⟩ := inv_step ih.1 hok hs
    exact ⟨a, c ih.2 hn⟩

/-- **ids_valid**: identifiers are naturals (by type) below `12·4^d` at level `d`, only levels
    `1..maxdepth` are populated, and the demoted representation holds ids below `12·4^maxdepth`. -/
theorem ids_valid {r : Region} (h : Valid r) :
    (∀ d p, p ∈ r.pd d → 1 ≤ d ∧ d ≤ r.m ∧ p < 12 * 4 ^ d) ∧ (∀ q, abs r q → q < 12 * 4 ^ r.m) :=
  ⟨h.range, fun _ hq => abs_lt h hq⟩

/-- **no_double_cover**: under the invariant each covered deepest pixel lies under exactly one stored
    pixel: one level (`NoDC`), and that level is a set. -/
theorem no_double_cover {r : Region} (h : Inv r) :
    (∀ q d₁ d₂, 1 ≤ d₁ → d₁ ≤ r.m → 1 ≤ d₂ → d₂ ≤ r.m →
      q / 4 ^ (r.m - d₁) ∈ r.pd d₁ → q / 4 ^ (r.m - d₂) ∈ r.pd d₂ → d₁ = d₂) ∧
    (∀ d, (r.pd d).Nodup) ∧ (absList r).Nodup :=
  ⟨h.2, h.1.nodup, nodup_absList h.1.nodup h.2⟩

/-- **area_eq_card**: the area (in deepest-pixel units) is the number of distinct deepest pixels
    covered — for any duplicate-free enumeration `l` of the covered set. -/
theorem area_eq_card {r : Region} (h : Inv r) {l : List Nat} (hl : l.Nodup)
    (hmem : ∀ q, q ∈ l ↔ abs r q) : area r = l.length :=
  Aegean.Proofs.C08.area_eq_card h.1.nodup h.2 hl hmem

/-- **normal_form**: after `_renorm` (hence after every mutating normalising operation) no level
    `3 ≤ d ≤ maxdepth` holds a complete sibling quad, the covered set is unchanged and nothing is
    covered twice — from *any* valid state, normalised or not. -/
theorem normal_form {r : Region} (hv : Valid r) :
    Inv (renorm r) ∧ (∀ q, abs (renorm r) q ↔ abs r q) ∧
      ∀ k, 3 ≤ k → k ≤ r.m → ∀ x, x ∈ (renorm r).pd k → complete ((renorm r).pd k) x = false := by
  obtain ⟨a, _, c, d, e⟩ := renorm_spec hv
  exact ⟨⟨a, c⟩, d, e⟩

/-! ### read-only queries never change a later answer -/

def IsQuery : Op → Prop
  | .getDemoted | .area | .within _ | .saveLoad => True
  | _ => False

/-- two observations of the model agree (pixel sets as sets) -/
def ObsSame : Obs → Obs → Prop
  | .none, .none => True
  | .pixels l, .pixels l' => ∀ q, q ∈ l ↔ q ∈ l'
  | .area n, .area n' => n = n'
  | .answer b, .answer b' => b = b'
  | _, _ => False

def ResSame : Except Err Obs → Except Err Obs → Prop
  | .ok o, .ok o' => ObsSame o o'
  | .error e, .error e' => e = e'
  | _, _ => False

theorem errMap_inj : ∀ {e e' : Err}, errMap e = errMap e' → e = e'
  | .assertion, .assertion, _ => rfl
  | .badDepth, .badDepth, _ => rfl
  | .assertion, .badDepth, h => by cases h
  | .badDepth, .assertion, h => by cases h

theorem resSame_of_resEq {a b : Except Err Obs} {c : Except SErr SObs}
    (h1 : ResEq True a c) (h2 : ResEq True b c) : ResSame a b := by
  cases a with
  | error ea =>
    cases c with
    | error ec =>
      cases b with
      | error eb => exact errMap_inj (Eq.trans h1 (Eq.symm h2))
      | ok ob => exact False.elim h2
    | ok oc => exact False.elim h1
  | ok oa =>
    cases c with
    | error ec => exact False.elim h1
    | ok oc =>
      cases b with
      | error eb => exact False.elim h2
      | ok ob =>
        cases oa <;> cases oc <;> (try exact False.elim h1) <;> cases ob <;> (try exact False.elim h2)
        · trivial
        · exact fun q => Iff.trans (h1.2 q) (Iff.symm (h2.2 q))
        · exact Eq.trans (h1 trivial) (Eq.symm (h2 trivial))
        · exact Eq.trans h1 (Eq.symm h2)

theorem allMatch_same : ∀ {as bs : List (Except Err Obs)} {cs : List (Except SErr SObs)},
    AllMatch (ResEq True) as cs → AllMatch (ResEq True) bs cs → AllMatch ResSame as bs
  | [], [], [], _, _ => trivial
  | _ :: _, _ :: _, _ :: _, h1, h2 => ⟨resSame_of_resEq h1.1 h2.1, allMatch_same h1.2 h2.2⟩
  | [], _ :: _, [], _, h2 => h2.elim
  | [], _, _ :: _, h1, _ => h1.elim
  | _ :: _, _, [], h1, _ => h1.elim
  | _ :: _, [], _ :: _, _, h2 => h2.elim

/-- **queries_are_readonly**: in any state satisfying the invariant, a query (`get_demoted`,
    `get_area`, `sky_within`, save/load) succeeds, and *whatever history follows*, every later
    observation and the final covered set are the same as if the query had not been made —
    although `get_demoted` / `sky_within` do rewrite the pixel dictionary. -/
theorem queries_are_readonly {r : Region} {qop : Op} (hi : Inv r) (hq : IsQuery qop) (ops : List Op)
    (hok : ∀ op, op ∈ ops → OpOk op) (hn : ∀ op, op ∈ ops → Normalising op) :
    ∃ r' ob, step r qop = .ok (r', ob) ∧ Inv r' ∧ (∀ q, abs r' q ↔ abs r q) ∧
      AllMatch ResSame (run r' ops).2 (run r ops).2 ∧
      ∀ q, abs (run r' ops).1 q ↔ abs (run r ops).1 q := by
  have hokq : OpOk qop := by cases qop <;> first | trivial | exact hq.elim
  have hnq : Normalising qop := by cases qop <;> first | trivial | exact hq.elim
  rcases step_refines qop hi.1 hokq (rel_absS (o := r)) with
    ⟨r', ob, s', sob, h1, h2, hv', _, hrel', _, hnd⟩ | ⟨e, h1, _⟩
  · -- the Spec state is untouched by a query
    have hs : s' = absS r := by
      cases qop <;> first
        | exact hq.elim
        | (simp only [absOp, Aegean.Spec.C08.step] at h2
           injection h2 with h2; injection h2 with h2 _; exact h2.symm)
    subst hs
    have hi' : Inv r' := ⟨hv', hnd hi.2 hnq⟩
    obtain ⟨_, b1, c1⟩ := refines_all_histories ops r' (absS r) hi' hrel' hok hn
    obtain ⟨_, b2, c2⟩ := refines_all_histories ops r (absS r) hi rel_absS hok hn
    refine ⟨r', ob, h1, hi', fun q => ?_, allMatch_same c1 c2, fun q => ?_⟩
    · rw [← hrel'.2 q]; exact mem_absList'
    · rw [← b1.2 q, ← b2.2 q]
  · cases qop <;> first | exact hq.elim | (simp [step] at h1)

/-! ### several objects and `.mim` files -/

def SessResEq (strict : Prop) : Except SessErr Obs → Except SSessErr SObs → Prop
  | .ok o, .ok so => ObsEq strict o so
  | .error e, .error e' => sessErrMap e = e'
  | _, _ => False

theorem sessRun_cons_ok {s s' : Session} {op : SessOp} {o : Obs} (ops : List SessOp)
    (h : sessStep s op = .ok (s', o)) :
    sessRun s (op :: ops) = ((sessRun s' ops).1, .ok o :: (sessRun s' ops).2) := by
  simp only [sessRun, h]

theorem sessRun_cons_err {s : Session} {op : SessOp} {e : SessErr} (ops : List SessOp)
    (h : sessStep s op = .error e) :
    sessRun s (op :: ops) = ((sessRun s ops).1, .error e :: (sessRun s ops).2) := by
  simp only [sessRun, h]

theorem ssessRun_cons_ok {s s' : SSess} {op : SSessOp} {o : SObs} (ops : List SSessOp)
    (h : Aegean.Spec.C08.sessStep s op = .ok (s', o)) :
    Aegean.Spec.C08.sessRun s (op :: ops) =
      ((Aegean.Spec.C08.sessRun s' ops).1, .ok o :: (Aegean.Spec.C08.sessRun s' ops).2) := by
  simp only [Aegean.Spec.C08.sessRun, h]

theorem ssessRun_cons_err {s : SSess} {op : SSessOp} {e : SSessErr} (ops : List SSessOp)
    (h : Aegean.Spec.C08.sessStep s op = .error e) :
    Aegean.Spec.C08.sessRun s (op :: ops) =
      ((Aegean.Spec.C08.sessRun s ops).1, .error e :: (Aegean.Spec.C08.sessRun s ops).2) := by
  simp only [Aegean.Spec.C08.sessRun, h]

/-- **sessions_refine**: histories over several region objects — operations on the current object, `save f`,
    `load f` (a fresh region from the file), and union / without / intersect / symmetric_difference with an
    operand loaded from a file — refine the Spec in which files hold sky *sets*: every observation equals the
    Spec's and the relation (current object and every file) is kept.  `strict` as in `run_refines`. -/
theorem sessions_refine (strict : Prop) : ∀ (ops : List SessOp) (s : Session) (t : SSess), SRel strict s t →
    (∀ op, op ∈ ops → SessOpOk op) → (strict → ∀ op, op ∈ ops → SessNormalising op) →
    SRel strict (sessRun s ops).1 (Aegean.Spec.C08.sessRun t (ops.map absSessOp)).1 ∧
      AllMatch (SessResEq strict) (sessRun s ops).2 (Aegean.Spec.C08.sessRun t (ops.map absSessOp)).2
  | [], _, _, h, _, _ => ⟨h, trivial⟩
  | op :: ops, s, t, h, hok, hn => by
    have hok2 : ∀ op', op' ∈ ops → SessOpOk op' := fun op' h' => hok op' (List.mem_cons_of_mem _ h')
    have hn2 : strict → ∀ op', op' ∈ ops → SessNormalising op' := fun hp op' h' => hn hp op' (List.mem_cons_of_mem _ h')
    rcases sess_step_refines op h (hok op (List.mem_cons_self ..)) (fun hp => hn hp op (List.mem_cons_self ..)) with
      ⟨s', ob, t', sob, h1, h2, hrel, hobs⟩ | ⟨e, h1, h2⟩
    · obtain ⟨a, b⟩ := sessions_refine strict ops s' t' hrel hok2 hn2
      rw [List.map_cons, sessRun_cons_ok ops h1, ssessRun_cons_ok _ h2]
      exact ⟨a, hobs, b⟩
    · obtain ⟨a, b⟩ := sessions_refine strict ops s t h hok2 hn2
      rw [List.map_cons, sessRun_cons_err ops h1, ssessRun_cons_err _ h2]
      exact ⟨a, rfl, b⟩

/-- a session that starts with one fresh region and no files is related to the Spec's empty session -/
theorem srel_init (strict : Prop) {m : Nat} (h : 1 ≤ m) :
    SRel strict ⟨empty m, fun _ => none⟩ ⟨⟨m, []⟩, fun _ => none⟩ :=
  ⟨valid_empty h, ⟨rfl, fun q => ⟨fun hq => by simp at hq, fun hq => (abs_empty m q hq).elim⟩⟩,
    fun _ => noDC_empty m, fun _ => trivial⟩

/-- **load_returns_saved**: after `save f`, whatever history follows that does not write `f` again — operations
    on this or other objects obtained by loading, queries, operations that load `f` as their operand (and demote
    that operand) — `load f` yields *exactly* the region that was saved: a fresh object, equal in pixel dictionary
    and cache state, hence with the observations the saved region had. -/
theorem load_returns_saved (s : Session) (f : Nat) (ops : List SessOp) (h : ∀ op, op ∈ ops → op ≠ .save f) :
    ∃ s1, (sessRun s (.save f :: ops)).1 = s1 ∧
      sessStep s1 (.load f) = .ok ({ s1 with cur := s.cur }, .none) :=
  Aegean.Proofs.C08.load_returns_saved s f ops h

/-- save; load; remove a pixel from the loaded copy; load again: the second copy is the saved region -/
example :
    let s0 : Session := ⟨renorm (addPixels (empty 3) [0, 1, 9] 3), fun _ => none⟩
    let o : Region := { m := 3, pd := fun d => if d = 3 then [1] else [], cached := false }
    ((sessRun s0 [.save 0, .load 0, .op (.without o), .load 0]).1.cur.pd 3,
     (sessRun s0 [.save 0, .load 0, .op (.without o)]).1.cur.pd 3) = ([0, 1, 9], [0, 9]) := by
  decide +kernel

/-! ### obligations on the regenerated leaves (`Gen.C08.*`, re-translated from `regions.py` on every run)

  Each says: the expression / loop range found in the source is the canonical one the hand model uses.  They are
  written to survive harmless rewrites (and the hand fallback, where they are `rfl`) and to break on a real change:
  `/` for `//`, `4*(d-m)` for `4**(d-m)`, a shifted range, a dropped child, a weakened guard. -/

theorem children_eq : Gen.C08.children = Hand.children := by
  funext p
  first
    | rfl
    | (simp only [Gen.C08.children, Hand.children]; done)
    | (simp only [Gen.C08.children, Hand.children, List.cons.injEq, and_true, true_and]; omega)
    | (simp only [Gen.C08.children, Hand.children, List.cons.injEq, and_true, true_and]; (repeat' constructor) <;> omega)

theorem parent_eq : Gen.C08.parent = Hand.parent := by
  funext p
  first
    | rfl
    | (simp only [Gen.C08.parent, Hand.parent]; omega)

theorem quadHead_eq : Gen.C08.quadHead = Hand.quadHead := by
  funext p
  first
    | rfl
    | (simp only [Gen.C08.quadHead, Hand.quadHead, Bool.eq_iff_iff, decide_eq_true_eq, beq_iff_eq]; omega)
    | (simp only [Gen.C08.quadHead, Hand.quadHead, Bool.eq_iff_iff, decide_eq_true_eq, beq_iff_eq])

theorem degrade_eq : Gen.C08.degrade = Hand.degrade := by
  funext p d m
  first
    | rfl
    | (simp only [Gen.C08.degrade, Hand.degrade, Int.toNat_sub])

theorem demoteLevels_eq : Gen.C08.demoteLevels = Hand.demoteLevels := by
  funext m
  first
    | rfl
    | (simp only [Gen.C08.demoteLevels, Hand.demoteLevels, pyRange_step1])
    | (simp only [Gen.C08.demoteLevels, Hand.demoteLevels, pyRange_step1]; congr 1 <;> omega)

theorem renormLevels_eq : Gen.C08.renormLevels = Hand.renormLevels := by
  funext m
  first
    | rfl
    | (simp only [Gen.C08.renormLevels, Hand.renormLevels])

theorem unionShared_eq : Gen.C08.unionShared = Hand.unionShared := by
  funext m om
  first
    | rfl
    | (simp only [Gen.C08.unionShared, Hand.unionShared, pyRange_step1]; congr 1; (try split) <;> omega)

theorem unionFiner_eq : Gen.C08.unionFiner = Hand.unionFiner := by
  funext m om
  first
    | rfl
    | (simp only [Gen.C08.unionFiner, Hand.unionFiner, pyRange_step1]; congr 1 <;> omega)

theorem finer_eq : Gen.C08.finer = Hand.finer := by
  funext m om
  first
    | rfl
    | (simp only [Gen.C08.finer, Hand.finer, Bool.eq_iff_iff, decide_eq_true_eq]; omega)

theorem areaLevels_eq : Gen.C08.areaLevels = Hand.areaLevels := by
  funext m
  first
    | rfl
    | (simp only [Gen.C08.areaLevels, Hand.areaLevels, pyRange_step1]; congr 1 <;> omega)

theorem sameDepthW_eq : Gen.C08.sameDepthW = Hand.sameDepth := by
  funext m om
  first
    | rfl
    | (by_cases h : m = om <;> simp [Gen.C08.sameDepthW, Hand.sameDepth, h])

theorem sameDepthI_eq : Gen.C08.sameDepthI = Hand.sameDepth := by
  funext m om
  first
    | rfl
    | (by_cases h : m = om <;> simp [Gen.C08.sameDepthI, Hand.sameDepth, h])

theorem sameDepthX_eq : Gen.C08.sameDepthX = Hand.sameDepth := by
  funext m om
  first
    | rfl
    | (by_cases h : m = om <;> simp [Gen.C08.sameDepthX, Hand.sameDepth, h])

/-- all thirteen at once -/
theorem gen_leaves_canon : genLeaves = canonLeaves := by
  simp only [genLeaves, canonLeaves, children_eq, parent_eq, quadHead_eq, degrade_eq, demoteLevels_eq, renormLevels_eq,
    unionShared_eq, unionFiner_eq, finer_eq, areaLevels_eq, sameDepthW_eq, sameDepthI_eq, sameDepthX_eq]

/-- **stepGen_eq_step**: the model the driver executes — hand-written glue (`Model.C08.stepL`) around the regenerated
    arithmetic and loop ranges — *is* the hand model `step` about which every theorem above is stated.  Hence
    `refines_all_histories`, `queries_are_readonly`, `no_double_cover`, `ids_valid`, `area_eq_card`, `normal_form`,
    `sessions_refine`, `load_returns_saved` hold of the regenerated model verbatim. -/
theorem stepGen_eq_step : stepGen = step := by
  unfold stepGen; rw [gen_leaves_canon]; exact stepL_canon

theorem operandAfterGen_eq : operandAfterGen = operandAfter := by
  unfold operandAfterGen; rw [gen_leaves_canon]; exact operandAfterL_canon

theorem sessStepGen_eq (s : Session) (op : SessOp) : sessStepGen s op = sessStep s op := by
  unfold sessStepGen; rw [stepGen_eq_step]; exact sessStepWith_step s op

/-- the one-step refinement, stated directly for the regenerated model -/
theorem abs_obs_stepGen {r : Region} {s : SS} (op : Op) (hv : Valid r) (hok : OpOk op) (hrel : Rel r s) :
    (∃ r' ob s' sob, stepGen r op = .ok (r', ob) ∧ Aegean.Spec.C08.step s (absOp op) = .ok (s', sob) ∧
        Rel r' s' ∧ ObsEq (NoDC r) ob sob) ∨
    (∃ e, stepGen r op = .error e ∧ Aegean.Spec.C08.step s (absOp op) = .error (errMap e)) := by
  rw [stepGen_eq_step]; exact abs_obs_step op hv hok hrel

/-! ### non-vacuity -/

/-- a depth-3 history: two sibling quads merge upward, a finer operand is degraded, a query demotes -/
def demoOps : List Op :=
  [.add [0, 1, 2, 3, 7] 3, .getDemoted, .union { m := 4, pd := fun d => if d = 4 then [100, 35] else [], cached := false } true,
   .area, .within 25, .without { m := 3, pd := fun d => if d = 3 then [1] else [], cached := true }, .area]

example : ((run (empty 3) demoOps).1.pd 2, (run (empty 3) demoOps).1.pd 3, area (run (empty 3) demoOps).1) =
    ([], [7, 25, 8, 0, 2, 3], 6) := by decide +kernel

/-- the pinned `union` with a finer region (`/` for `//`) stores 100/4 = 25 only because 100 is a
    multiple of 4; 35/4 = 8.75 is not an id.  In the model `35 / 4 = 8`. -/
example : degraded 3 { m := 4, pd := fun d => if d = 4 then [100, 35] else [], cached := false } = [25, 8] := by
  decide

/-- negation witness for raw `add_pixels` (open finding C08-raw-add-pixels): level-4 pixel 4 lies
    under level-3 pixel 1; the area counts it twice and a read-only query changes the next area. -/
example :
    let r := addPixels (addPixels (empty 4) [4] 4) [1] 3
    (area r, area (demoteAll r), (absList r).length, (dedup (absList r)).length) = (5, 4, 5, 4) := by
  decide +kernel

end Aegean.Properties.C08
