/-
  C13 — Sign symmetry and polarity filters of the source finder.

  Full statement of the property (kept visible; what is proved is listed below it):

    for every image `im`, background `bkg`, noise map `rms` and clip levels, the catalogue of
    `find_sources_in_image` on `(−im, −bkg)` equals the catalogue on `(im, bkg)` with peak and
    integrated fluxes negated and positions, shapes, errors and flags unchanged; and the
    positive-only and negative-only catalogues are disjoint, of the requested sign, and together
    equal the both-polarities catalogue.

  The pipeline is  detect islands → per island: curvature, `estimate_lmfit_parinfo` (initial
  values, bounds, flags) → `lmfit.minimize` on `model − data` → components → polarity filter.
  Proved here, for ALL inputs of the model (`Aegean/Model/C13.lean`), over ℝ:

  * `islands_negation_invariant`        detection sees only `|im − bkg| / rms`
  * `curvature_negation`, `island_curve_negation`, `rank_filters_mirror`   peaks ↔ troughs, for every
                                         window, blank (NaN) pixels included — scipy's rank filters are
                                         modelled as the ring algorithm they are (repaired
                                         rule `icurve[tmask] += 1`); `curvature_negation_pinned` /
                                         `curvature_flat_witness`: the pinned rule (troughs written
                                         last) is symmetric only away from flat pixels
  * `isnegative_negation_partial`       `isnegative` flips — for islands whose pixels share one sign
  * `summits_negation_invariant`        same summit pixels and boxes (any island, given the flip)
  * `bounds_negation`                   amplitude bounds negate and swap (any `amp ≠ 0`)
  * `estimate_negation_partial`         the whole of `estimate_lmfit_parinfo`: same components in the
                                         same order, amplitudes negated, bounds negated and swapped,
                                         positions, flags and vary switches unchanged — single-sign islands
  * `flags_negation_invariant_partial`  corollary: flags / vary switches / positions
  * `fit_inputs_negation_partial`       image window → island data + curvature → estimate, composed
  * `mixed_sign_not_symmetric`          the witness: an island holding +1.0 and −0.8 is "positive"
                                         in both runs (`isnegative` is decided by the island as a whole)
  * `objective_even`, `model_negation`, `residual_negation`   the regenerated `elliptical_gaussian` is odd
                                         in `amp`, so the residual of the negated problem at the
                                         mirrored parameters is the negated residual
  * `amp_interval_excludes_zero`        a fitted amplitude that honours its bounds is never 0
  * `polarity_partition`, `polarity_other_in_both`, `polarity_none`   the filter
  * `history_independent`, `history_partition`   a reused finder's answer depends on the current flags only

  NOT proved (sampled by `harness/corr_C13.py`, run pairs on the real code): that
  `lmfit.minimize`/MINPACK, started from mirrored initial values with mirrored bounds on a
  mirrored objective, returns mirrored parameters and identical covariance (determinism of the
  optimiser under negation), and IEEE rounding.  Hence the `_partial` names.
-/
import Aegean.Generated.C13
import Aegean.Model.C13
import Aegean.Model.C13Glue
import Aegean.Proofs.C13

namespace Aegean.Properties.C13
open Aegean.Model.C13 Aegean.C13R

/-! ### 1. detection -/

/-- **islands_negation_invariant**: negating image and background gives identical islands, for
    every image (blank pixels included), every noise map and every pair of clip levels. -/
theorem islands_negation_invariant (H W : Nat) (im bkg rms : Px → Option ℝ) (seed flood : ℝ) :
    findIslands H W (negImg im) (negImg bkg) rms seed flood = findIslands H W im bkg rms seed flood := by
  simp only [findIslands, floodMask_neg, seedMask_neg]

/-! ### 2. curvature -/

/-- **curvature_negation**: on the negated window peaks and troughs change places, so the
    curvature map negates, at every pixel of every window — blank (NaN) pixels included: the
    model runs scipy's ring algorithm, whose output with NaNs is not the window's min/max, and
    the theorem holds because that algorithm with `≥` on `−x` retraces the one with `≤` on `x`
    step by step (`filter2d_map`).  (Repaired rule `icurve[tmask] += 1`.) -/
theorem curvature_negation (H W : Nat) (img : Px → Option ℝ) (p : Px) :
    curveAt H W (negImg img) p = -curveAt H W img p :=
  curveAt_neg H W img p

/-- the two rank filters are mirror images of each other, NaN pixels included -/
theorem rank_filters_mirror (H W : Nat) (img : Px → Option ℝ) :
    maxFilter H W (negImg img) = (minFilter H W img).map (List.map negO) ∧
    minFilter H W (negImg img) = (maxFilter H W img).map (List.map negO) :=
  ⟨maxFilter_neg H W img, minFilter_neg H W img⟩

/-- the pinned tree (`icurve[tmask] = 1`, troughs written last): the curvature negates only at
    pixels that are not both a 3×3 maximum and a 3×3 minimum … -/
theorem curvature_negation_pinned (H W : Nat) (img : Px → Option ℝ) (p : Px)
    (hflat : ¬ (isPeak H W img p = true ∧ isTrough H W img p = true)) :
    curveAtPinned H W (negImg img) p = -curveAtPinned H W img p := by
  rw [curveAtPinned_neg]
  simp only [curveAtPinned]
  cases hp : isPeak H W img p <;> cases ht : isTrough H W img p <;> simp_all

/-- … and the hypothesis is necessary there: a pixel whose whole neighbourhood is equal got `+1`
    in the image *and* in its negative (so it could become a summit of a negative island but
    never of a positive one: fixes/C13-01).  The repaired rule gives 0 in both.  (At `Float`.) -/
theorem curvature_flat_witness :
    curveAtPinned 3 3 (fun _ => some (2.0 : Float)) (1, 1) = 1 ∧
    curveAtPinned 3 3 (negImg (fun _ => some (2.0 : Float))) (1, 1) = 1 ∧
    curveAt 3 3 (fun _ => some (2.0 : Float)) (1, 1) = 0 ∧
    curveAt 3 3 (negImg (fun _ => some (2.0 : Float))) (1, 1) = 0 := by
  decide +kernel

/-- a 3×3 window whose extreme pixel (centre, value `v`) touches two blank pixels -/
def blankW (v : Float) : Px → Option Float := fun p =>
  ([[some (v * 0.2), some (v * 0.4), some (v * 0.2)], [some (v * 0.5), some v, none],
    [some (v * 0.2), some (v * 0.4), none]].getD p.1 []).getD p.2 none

/-- non-vacuity with blanks: the extreme pixel next to NaN pixels is a peak (−1) of the positive
    window and a trough (+1) of the negative one — the blank neighbours do not hide it — and the
    whole maps are mirror images.  (A rule that fills blanks with −∞ before *both* filters makes
    the negative centre's neighbourhood minimum −∞, so it is no trough: seeded change C13-5.) -/
theorem curvature_blank_witness :
    (allPx 3 3).map (curveAt 3 3 (blankW 5.0)) = [1, 0, 1, 0, -1, 0, 1, 0, 0] ∧
    (allPx 3 3).map (curveAt 3 3 (blankW (-5.0))) = [-1, 0, -1, 0, 1, 0, -1, 0, 0] := by
  decide +kernel

/-- the cropped curvature map of an island box negates (any image with blanks, any box) -/
theorem island_curve_negation (imgH imgW xmin xmax ymin ymax : Nat) (img : Px → Option ℝ) (p : Px) :
    islandCurve imgH imgW xmin xmax ymin ymax (negImg img) p
      = -islandCurve imgH imgW xmin xmax ymin ymax img p := by
  simp only [islandCurve]
  split
  · exact curvature_negation _ _ (fun t => img (t.1 + _, t.2 + _)) _
  · rfl

/-- the bulk form used by the driver is the same map -/
theorem islandCurveList_eq (imgH imgW xmin xmax ymin ymax : Nat) (img : Px → Option ℝ) :
    islandCurveList imgH imgW xmin xmax ymin ymax img
      = (allPx (xmax - xmin) (ymax - ymin)).map (islandCurve imgH imgW xmin xmax ymin ymax img) := rfl

/-! ### 3a. obligations on the regenerated leaves of estimate_lmfit_parinfo

  `Gen.C13.ampMinPos/ampMaxPos/ampMinNeg/ampMaxNeg` (the four amplitude-bound expressions) and
  `Gen.C13.summitArgPos/summitArgNeg` (the thresholded quantities of the two summit masks) are
  re-translated from the source on every run; these theorems break if the source changes meaning
  (a wrong sign, the other clip level, an allowance for one polarity only) and re-prove under
  harmless rewrites (reordered terms, renamed locals). -/

set_option linter.unusedSimpArgs false in
theorem gen_summit_arg_mirror (d r inner outer : ℝ) :
    (genLeaves : Leaves ℝ).summitArgNeg (-d) r inner outer = -(genLeaves : Leaves ℝ).summitArgPos d r inner outer := by
  simp only [genLeaves, Gen.C13.summitArgNeg, Gen.C13.summitArgPos, summitArgNegHand, summitArgPosHand]
  ring

set_option linter.unusedSimpArgs false in
theorem gen_bounds_negation (amp r inner outer samp : ℝ) (h : amp ≠ 0) :
    ampBounds genLeaves (-amp) r inner outer samp
      = (-(ampBounds genLeaves amp r inner outer samp).2, -(ampBounds genLeaves amp r inner outer samp).1) := by
  rcases lt_or_gt_of_ne h with hneg | hpos
  · have h1 : (0 : ℝ) < -amp := by linarith
    have h2 : ¬ ((0 : ℝ) < amp) := by linarith
    simp only [ampBounds, genLeaves, lt_real, zero_real, h1, h2, decide_true, decide_false, if_true,
      Bool.false_eq_true, if_false, Gen.C13.ampMinPos, Gen.C13.ampMaxPos, Gen.C13.ampMinNeg, Gen.C13.ampMaxNeg,
      ampMinPosHand, ampMaxPosHand, ampMinNegHand, ampMaxNegHand, c095, R.real_min, R.real_max, R.real_ofSci,
      R.real_ofNat, min_def, max_def]
    norm_num
    constructor <;> (try split_ifs) <;> linarith
  · have h1 : ¬ ((0 : ℝ) < -amp) := by linarith
    simp only [ampBounds, genLeaves, lt_real, zero_real, h1, hpos, decide_true, decide_false, if_true,
      Bool.false_eq_true, if_false, Gen.C13.ampMinPos, Gen.C13.ampMaxPos, Gen.C13.ampMinNeg, Gen.C13.ampMaxNeg,
      ampMinPosHand, ampMaxPosHand, ampMinNegHand, ampMaxNegHand, c095, R.real_min, R.real_max, R.real_ofSci,
      R.real_ofNat, min_def, max_def]
    norm_num
    constructor <;> (try split_ifs) <;> linarith

set_option linter.unusedSimpArgs false in
theorem gen_bounds_pos (amp r inner outer samp : ℝ) (ha : 0 < amp) (hr : 0 < outer * r) :
    0 < (ampBounds genLeaves amp r inner outer samp).1 := by
  simp only [ampBounds, genLeaves, lt_real, zero_real, ha, decide_true, if_true, Gen.C13.ampMinPos, ampMinPosHand, c095,
    R.real_min, R.real_ofSci, R.real_ofNat, min_def]
  norm_num
  (try split_ifs) <;> linarith

set_option linter.unusedSimpArgs false in
theorem gen_bounds_neg_side (amp r inner outer samp : ℝ) (ha : amp < 0) (hr : 0 < outer * r) :
    (ampBounds genLeaves amp r inner outer samp).2 < 0 := by
  have h2 : ¬ ((0 : ℝ) < amp) := by linarith
  simp only [ampBounds, genLeaves, lt_real, zero_real, h2, decide_false, Bool.false_eq_true, if_false, Gen.C13.ampMaxNeg,
    ampMaxNegHand, c095, R.real_max, R.real_ofSci, R.real_ofNat, max_def]
  norm_num
  (try split_ifs) <;> linarith

/-- **gen_leaves_mirror**: the regenerated leaves satisfy what the negation theorems need -/
theorem gen_leaves_mirror : LeavesMirror (genLeaves : Leaves ℝ) :=
  ⟨gen_bounds_negation, gen_summit_arg_mirror⟩

/-! ### 3. estimate_lmfit_parinfo -/

/-- **isnegative_negation_partial**: `isnegative` flips under negation — for a non-empty island
    whose finite pixels all share one strict sign (what the code supports). -/
theorem isnegative_negation_partial (I : Island ℝ) (hs : SingleSign I) (hne : finitePx I ≠ []) :
    isNegative (negI I) = !isNegative I :=
  isNegative_neg I hs hne

/-- **summits_negation_invariant**: once `isnegative` has flipped, the summit mask of the
    negated island (curve > 0.5, data + outer·rms < 0) is the summit mask of the original
    (−curve > 0.5, data − outer·rms > 0) and vice versa, hence the same summits and boxes. -/
theorem summits_negation_invariant (I : Island ℝ) (neg : Bool) (P : Params ℝ) (hP : P.leaves = genLeaves) :
    summitsOfMask (negI I).h (negI I).w (summitMask (!neg) (negI I) P)
      = summitsOfMask I.h I.w (summitMask neg I P) := by
  rw [summitMask_neg I neg P (hP ▸ gen_leaves_mirror)]; rfl

/-- per summit: the amplitude negates and the peak pixel stays (first minimum of −x = first maximum of x) -/
theorem summit_peak_negation (I : Island ℝ) (s : Summit) (neg : Bool) :
    peak (!neg) (negI I) s = (peak neg I s).map (fun pv => (pv.1, -pv.2)) :=
  peak_neg I s neg

/-- the order in which summits are taken (`sorted(key = nanmax(−|x|))`) does not depend on sign -/
theorem summit_order_negation (I : Island ℝ) (l : List Summit) :
    sortSummits (negI I) l = sortSummits I l :=
  sortSummits_neg I l

/-- **bounds_negation**: `(amp_min, amp_max)` of `−amp` is `(−amp_max, −amp_min)` of `amp`, for
    every non-zero amplitude, every rms, every pair of clip levels and every sampling allowance
    (`max(1.05, 2^(2/b²))` in the code; nothing about its value is needed). -/
theorem bounds_negation (amp r inner outer samp : ℝ) (h : amp ≠ 0) :
    ampBounds genLeaves (-amp) r inner outer samp
      = (-(ampBounds genLeaves amp r inner outer samp).2, -(ampBounds genLeaves amp r inner outer samp).1) :=
  gen_bounds_negation amp r inner outer samp h

/-- **estimate_negation_partial**: for every island whose finite pixels share one strict sign
    (with its curvature negated, see `island_curve_negation`), every rms map, clip levels and
    `max_summits`: the negated island yields the same list of components — same order, same
    positions, flags and vary switches — with amplitudes negated and bounds negated and swapped.
    (Partial: islands with pixels of both signs are excluded; `mixed_sign_not_symmetric`.) -/
theorem estimate_negation_partial (P : Params ℝ) (hP : P.leaves = genLeaves) (I : Island ℝ) (hs : SingleSign I)
    (hne : finitePx I ≠ []) :
    estimate P (negI I) = (estimate P I).map (List.map negC) :=
  estimate_neg P (hP ▸ gen_leaves_mirror) I hs hne

/-- **flags_negation_invariant_partial**: positions, flags and vary switches are unchanged -/
theorem flags_negation_invariant_partial (P : Params ℝ) (hP : P.leaves = genLeaves) (I : Island ℝ)
    (hs : SingleSign I) (hne : finitePx I ≠ []) :
    (estimate P (negI I)).map (List.map (fun c => (c.xo, c.yo, c.flags, c.vary, c.psfVary)))
      = (estimate P I).map (List.map (fun c => (c.xo, c.yo, c.flags, c.vary, c.psfVary))) := by
  rw [estimate_neg P (hP ▸ gen_leaves_mirror) I hs hne]
  cases estimate P I with
  | none => rfl
  | some l => simp [negC, Function.comp_def]

/-- **fit_inputs_negation_partial**: end to end up to the optimiser — for every image, rms map,
    island box and member set whose member pixels share one strict sign, what `_fit_island`
    computes for the negated image (island data, curvature map from the 3×3 filters on its
    window, and then every initial value, bound, flag and vary switch) is the mirror image of what
    it computes for the image. -/
theorem fit_inputs_negation_partial (P : Params ℝ) (hP : P.leaves = genLeaves) (imgH imgW xmin xmax ymin ymax : Nat)
    (img : Px → Option ℝ) (rms samp : Px → ℝ) (mem : Px → Bool)
    (hs : SingleSign (mkIsland imgH imgW xmin xmax ymin ymax img rms samp mem))
    (hne : finitePx (mkIsland imgH imgW xmin xmax ymin ymax img rms samp mem) ≠ []) :
    estimate P (mkIsland imgH imgW xmin xmax ymin ymax (negImg img) rms samp mem)
      = (estimate P (mkIsland imgH imgW xmin xmax ymin ymax img rms samp mem)).map (List.map negC) := by
  have e : mkIsland imgH imgW xmin xmax ymin ymax (negImg img) rms samp mem
      = negI (mkIsland imgH imgW xmin xmax ymin ymax img rms samp mem) := by
    simp only [mkIsland, negI]
    congr 1
    · funext p; simp only [negImg]; split <;> rfl
    · funext p; exact island_curve_negation _ _ _ _ _ _ _ _
  rw [e]; exact estimate_neg P (hP ▸ gen_leaves_mirror) _ hs hne

/-- a fitted amplitude that stays inside its bounds has the sign of the initial amplitude,
    in particular it is never 0: the hypothesis `polarity_partition` needs -/
theorem amp_interval_excludes_zero (amp r inner outer samp a : ℝ) (hr : 0 < outer * r) (h0 : amp ≠ 0)
    (hlo : (ampBounds genLeaves amp r inner outer samp).1 ≤ a) (hhi : a ≤ (ampBounds genLeaves amp r inner outer samp).2) :
    (0 < amp → 0 < a) ∧ (amp < 0 → a < 0) ∧ a ≠ 0 := by
  rcases lt_or_gt_of_ne h0 with hn | hp
  · have := gen_bounds_neg_side amp r inner outer samp hn hr
    refine ⟨fun h => absurd h (by linarith), fun _ => by linarith, by linarith⟩
  · have := gen_bounds_pos amp r inner outer samp hp hr
    exact ⟨fun _ => by linarith, fun h => absurd h (by linarith), by linarith⟩

/-! #### the mixed-sign negation witness (evaluated at `Float`, the driver's instance) -/

/-- a 1×4 island holding a +1.0 and a −0.8 summit; rms 0.1 -/
def toy : Island Float :=
  { h := 1, w := 4,
    data := fun p => if p.1 = 0 then [1.0, 0.5, -0.5, -0.8][p.2]? else none,
    rms := fun _ => 0.1, curve := fun _ => 0, sampling := fun _ => 1.05 }

def toyP : Params Float := { inner := 5.0, outer := 4.0, maxSummits := none, leaves := genLeaves }

/-- **mixed_sign_not_symmetric**: the island is "positive" in the image *and* in its negative;
    the image yields one component at pixel (0,0) (the +1.0 summit), the negative one component at
    pixel (0,3) (the −0.8 summit, now +0.8): not the same component with its flux negated. -/
theorem mixed_sign_not_symmetric :
    isNegative toy = false ∧ isNegative (negI toy) = false ∧
    (estimate toyP toy).map (List.map (fun c => (c.xo, c.yo, decide (c.amp > 0)))) = some [(0, 0, true)] ∧
    (estimate toyP (negI toy)).map (List.map (fun c => (c.xo, c.yo, decide (c.amp > 0)))) = some [(0, 3, true)] := by
  decide +kernel

/-- non-vacuity: a 3×3 single-sign island with a central peak gives one free component at (1,1),
    and its negative gives the same with `isnegative` set -/
def hill : Island Float :=
  { h := 3, w := 3,
    data := fun p => if p.1 < 3 then ([[1.0, 1.5, 1.0], [1.5, 3.0, 1.5], [1.0, 1.5, 1.0]][p.1]?.bind (·[p.2]?)) else none,
    rms := fun _ => 0.1, curve := fun p => if p = (1, 1) then -1 else 0, sampling := fun _ => 1.05 }

example :
    isNegative hill = false ∧ isNegative (negI hill) = true ∧
    (estimate toyP hill).map (List.map (fun c => (c.xo, c.yo, c.flags))) = some [(1, 1, 0)] ∧
    (estimate toyP (negI hill)).map (List.map (fun c => (c.xo, c.yo, c.flags))) = some [(1, 1, 0)] := by
  decide +kernel

example :
    (estimate toyP hill).map (List.map (fun c => (c.vary, c.psfVary, decide (c.amp > 0)))) = some [(true, true, true)] ∧
    (estimate toyP (negI hill)).map (List.map (fun c => (c.vary, c.psfVary, decide (c.amp > 0)))) = some [(true, true, false)] := by
  decide +kernel

/-! ### 4. objective -/

set_option linter.unusedSimpArgs false in
/-- **objective_even**: the regenerated `fitting.elliptical_gaussian` is odd in `amp` -/
theorem objective_even (x y amp xo yo sx sy theta : ℝ) :
    Gen.C13.gauss x y (-amp) xo yo sx sy theta = -Gen.C13.gauss x y amp xo yo sx sy theta := by
  simp only [Gen.C13.gauss, gaussHand]
  ring

/-- the model of the mirrored parameter set is the negated model, for any number of components -/
theorem model_negation (comps : List (GP ℝ)) (x y : ℝ) :
    modelAt Gen.C13.gauss (comps.map negGP) x y = -modelAt Gen.C13.gauss comps x y :=
  modelAt_neg Gen.C13.gauss objective_even comps x y

/-- **residual_negation**: `model − data` of the negated problem at the mirrored parameters is
    the negated residual, pixel by pixel; so the two least-squares problems are mirror images. -/
theorem residual_negation (comps : List (GP ℝ)) (pix : List (ℝ × ℝ × ℝ)) :
    Aegean.Model.C13.residual Gen.C13.gauss (comps.map negGP) (pix.map (fun xyd => (xyd.1, xyd.2.1, -xyd.2.2)))
      = (Aegean.Model.C13.residual Gen.C13.gauss comps pix).map (fun r => -r) := by
  simp only [Aegean.Model.C13.residual, List.map_map]
  apply List.map_congr_left
  intro xyd _
  simp only [Function.comp, model_negation]
  ring

/-! ### 5. polarity filter -/

section polarity
variable {β : Type} (sg : β → Sgn)

/-- requesting both polarities filters nothing -/
theorem polarity_both (cat : List β) : filterCat sg false false cat = cat := by
  simp [filterCat, keep]

/-- **polarity_partition**: if no fitted source has a peak flux that is neither `> 0` nor `< 0`
    (i.e. 0 or NaN), then positive-only (`nonegative`) and negative-only (`nopositive`) are
    exactly the sources of the requested sign, in catalogue order; they are disjoint; their union
    is the both-polarities catalogue (also by count). -/
theorem polarity_partition (cat : List β) (h : ∀ s ∈ cat, sg s ≠ .other) :
    filterCat sg false true cat = cat.filter (fun s => sg s == .pos) ∧
    filterCat sg true false cat = cat.filter (fun s => sg s == .neg) ∧
    (∀ s, s ∈ filterCat sg false false cat ↔ s ∈ filterCat sg false true cat ∨ s ∈ filterCat sg true false cat) ∧
    (∀ s, ¬ (s ∈ filterCat sg false true cat ∧ s ∈ filterCat sg true false cat)) ∧
    (filterCat sg false true cat).length + (filterCat sg true false cat).length
      = (filterCat sg false false cat).length := by
  refine ⟨?_, ?_, ?_, ?_, ?_⟩
  · apply List.filter_congr
    intro s hs
    have := h s hs
    cases hsg : sg s <;> simp_all [keep]
  · apply List.filter_congr
    intro s hs
    have := h s hs
    cases hsg : sg s <;> simp_all [keep]
  · intro s
    simp only [filterCat, List.mem_filter]
    constructor
    · rintro ⟨hs, _⟩
      have := h s hs
      cases hsg : sg s <;> simp_all [keep]
    · rintro (⟨hs, _⟩ | ⟨hs, _⟩) <;> exact ⟨hs, by simp [keep]⟩
  · intro s
    simp only [filterCat, List.mem_filter]
    rintro ⟨⟨_, h1⟩, ⟨_, h2⟩⟩
    cases hsg : sg s <;> simp_all [keep]
  · rw [polarity_both]
    induction cat with
    | nil => rfl
    | cons a r ih =>
      have ha := h a (List.mem_cons_self ..)
      have ih' := ih (fun s hs => h s (List.mem_cons_of_mem _ hs))
      simp only [filterCat] at ih' ⊢
      cases hsg : sg a <;> simp_all [keep] <;> omega

/-- the excluded point: a source whose peak flux is 0 or NaN passes *every* setting of the
    filter — it is in the positive-only list, in the negative-only list and in the list for
    `nopositive ∧ nonegative`.  So the hypothesis of `polarity_partition` is necessary. -/
theorem polarity_other_in_both (cat : List β) (s : β) (hs : s ∈ cat) (ho : sg s = .other)
    (np nn : Bool) : s ∈ filterCat sg np nn cat := by
  simp [filterCat, List.mem_filter, hs, keep, ho]

/-- with the hypothesis, asking for neither polarity returns nothing -/
theorem polarity_none (cat : List β) (h : ∀ s ∈ cat, sg s ≠ .other) : filterCat sg true true cat = [] := by
  simp only [filterCat, List.filter_eq_nil_iff]
  intro s hs
  have := h s hs
  cases hsg : sg s <;> simp_all [keep]

/-- **history_independent**: what a reused finder answers for a setting does not depend on the
    settings it was asked before: the answer to the last call of any history is the filter of that
    call's own flags (so it equals a fresh finder's answer). -/
theorem history_independent (cat : List β) (earlier : List (Bool × Bool)) (c : Bool × Bool) :
    (runHistory sg cat (earlier ++ [c])).getLast? = some (filterCat sg c.1 c.2 cat) := by
  simp [runHistory]

/-- hence the partition clause holds among the answers of one history, whatever the order -/
theorem history_partition (cat : List β) (h : ∀ s ∈ cat, sg s ≠ .other) (e1 e2 e3 : List (Bool × Bool)) :
    ∃ pos neg both,
      (runHistory sg cat (e1 ++ [(false, true)])).getLast? = some pos ∧
      (runHistory sg cat (e2 ++ [(true, false)])).getLast? = some neg ∧
      (runHistory sg cat (e3 ++ [(false, false)])).getLast? = some both ∧
      pos.length + neg.length = both.length ∧ (∀ s, ¬ (s ∈ pos ∧ s ∈ neg)) ∧
      (∀ s, s ∈ both ↔ s ∈ pos ∨ s ∈ neg) := by
  refine ⟨_, _, _, history_independent sg cat e1 _, history_independent sg cat e2 _,
    history_independent sg cat e3 _, ?_, ?_, ?_⟩
  · exact (polarity_partition sg cat h).2.2.2.2
  · exact (polarity_partition sg cat h).2.2.2.1
  · exact (polarity_partition sg cat h).2.2.1

/-- how the filter classifies a real peak flux -/
theorem sgnOf_real (x : ℝ) : sgnOf x = if 0 < x then .pos else if x < 0 then .neg else .other := by
  simp only [sgnOf, lt_real, zero_real, decide_eq_true_eq]

end polarity

/-- at `Float`: NaN and ±0 are "other", so they pass both single-polarity filters -/
example : sgnOf (0.0 / 0.0 : Float) = .other ∧ sgnOf (0.0 : Float) = .other ∧ sgnOf (-0.0 : Float) = .other ∧
    sgnOf (2.5 : Float) = .pos ∧ sgnOf (-2.5 : Float) = .neg := by decide +kernel

example : (filterCat (sgnOf (α := Float)) false true [1.0, -2.0, 0.0 / 0.0, 3.0]).length = 3 := by decide +kernel
example : (filterCat (sgnOf (α := Float)) true false [1.0, -2.0, 0.0 / 0.0, 3.0]).length = 2 := by decide +kernel

end Aegean.Properties.C13
