/-
  C10 — Masking keeps or removes exactly the pixels / rows whose position is in the region.

  Theorems about the hand model `Aegean.Model.C10` of `MIMAS.mask_plane / mask_file / mask_table`
  (tied to the code by `harness/corr_C10.py`), for every image shape `H × W`, every number of planes,
  every WCS oracle `sky` (FITS pixel coordinate → sky position), every membership oracle `inside`,
  every pixel-value type `α` and blank value `nan`, every table.  The Spec (`Aegean.Spec.C10`) uses
  the standard FITS convention: array element (row i, column j) has pixel coordinate (j+1, i+1).
-/
import Aegean.Model.C10
import Aegean.Spec.C10
import Aegean.Proofs.C10
import Aegean.Proofs.C10Gen
import Aegean.Model.C10Gen

namespace Aegean.Properties.C10
open Aegean.Model.C10 Aegean.Spec.C10 Aegean.Proofs.C10

/-! ### The index list -/

/-- the slice-assignment loop yields the row-major list of `(j, i)` whatever the uninitialised
    array held -/
theorem index_builder_closed_form (H W : Nat) (junk : List Pix) (hj : junk.length = H * W) :
    buildIndexes H W junk = ((List.range H).map (idxRow W)).flatten :=
  buildIndexes_eq H W junk hj

/-- **index_bijection**: the list has `H·W` entries; position `i·W + j` holds `(j, i)` — pixel row
    `i`, column `j`; every position `k < H·W` is of that form for exactly one `(i, j)`, namely
    `(k / W, k % W)`. -/
theorem index_bijection (H W : Nat) :
    (indexes H W).length = H * W ∧
    (∀ i j, i < H → j < W →
      (indexes H W)[i * W + j]? = some (((j : Nat) : Int), ((i : Nat) : Int))) ∧
    (∀ k, k < H * W → k / W < H ∧ k % W < W ∧ (k / W) * W + k % W = k ∧
      (indexes H W)[k]? = some (((k % W : Nat) : Int), ((k / W : Nat) : Int))) ∧
    (∀ i j i' j', j < W → j' < W → i * W + j = i' * W + j' → i = i' ∧ j = j') := by
  refine ⟨length_indexes H W, getElem?_indexes H W, ?_, ?_⟩
  · intro k hk
    obtain ⟨h1, h2, h3⟩ := flat_decompose H W k hk
    refine ⟨h1, h2, h3, ?_⟩
    have := getElem?_indexes H W (k / W) (k % W) h1 h2
    rw [h3] at this; exact this
  · intro i j i' j' hj hj' e
    have a := flat_div_mod W i j hj
    have b := flat_div_mod W i' j' hj'
    rw [e] at a
    exact ⟨a.1.symm.trans b.1, a.2.symm.trans b.2⟩

/-- **the WCS is handed the pixel's own FITS coordinate**: entry `i·W + j` of the world-coordinate
    list is `sky (j+1, i+1)`.  (This is the obligation that fails for the pinned tree's origin
    argument 1: see `origin_one_shifts`.) -/
theorem wcs_receives_fits_coordinate {S : Type} (sky : Pix → S) (H W i j : Nat) (hi : i < H) (hj : j < W) :
    ((indexes H W).map (pix2world sky wcsOrigin))[i * W + j]? = some (sky (fitsCoord i j)) := by
  rw [List.getElem?_map, getElem?_indexes H W i j hi hj]
  simp [pix2world, wcsOrigin, fitsCoord]

/-- **origin 0 is the only origin argument that meets the Spec**: the WCS is handed the own FITS
    coordinate of pixel (i, j) for every WCS iff the origin argument is 0 -/
theorem origin_zero_iff (origin : Int) (i j : Nat) :
    (∀ (S : Type) (sky : Pix → S),
        pix2world sky origin (((j : Nat) : Int), ((i : Nat) : Int)) = sky (fitsCoord i j)) ↔ origin = 0 := by
  constructor
  · intro h
    have := h Pix (fun p => p)
    simp only [pix2world, fitsCoord, Prod.mk.injEq] at this
    omega
  · intro h S sky
    subst h
    simp [pix2world, fitsCoord]

/-- the flat mask, position by position, is the Spec's `mustBlank` -/
theorem bigmask_eq_mustBlank {S : Type} (sky : Pix → S) (inside : S → Bool) (negate : Bool)
    (H W i j : Nat) (hi : i < H) (hj : j < W) :
    (bigmask sky inside negate H W)[i * W + j]? = some (mustBlank sky inside negate i j) := by
  rw [getElem?_bigmask sky inside negate H W i j hi hj]
  simp [pix2world, wcsOrigin, fitsCoord, mustBlank]

/-! ### One plane -/

/-- every element of the masked plane is what the Spec expects -/
theorem maskPlane_pixel {α S : Type} (nan : α) (sky : Pix → S) (inside : S → Bool) (negate : Bool)
    (H W i j : Nat) (hi : i < H) (hj : j < W) (data : List α) :
    (maskPlane nan sky inside negate H W data)[i * W + j]? =
      (data[i * W + j]?).map (expected nan sky inside negate i j) := by
  unfold maskPlane
  rw [getElem?_assignNan nan _ data _ _ (bigmask_eq_mustBlank sky inside negate H W i j hi hj)]
  rfl

theorem maskPlane_length {α S : Type} (nan : α) (sky : Pix → S) (inside : S → Bool) (negate : Bool)
    (H W : Nat) (data : List α) (hd : data.length = H * W) :
    (maskPlane nan sky inside negate H W data).length = H * W := by
  unfold maskPlane
  rw [length_assignNan, length_bigmask, hd]; simp

/-- **blanks_exactly_outside**: the mask bit of pixel (i, j) is set iff the sky position of ITS OWN
    centre, `sky (j+1, i+1)`, is outside the region (inside, with `negate`); and for a pixel that
    held a value other than the blank, the output holds the blank iff that is the case. -/
theorem blanks_exactly_outside {α S : Type} (nan : α) (sky : Pix → S) (inside : S → Bool)
    (H W i j : Nat) (hi : i < H) (hj : j < W) :
    (bigmask sky inside false H W)[i * W + j]? = some (!inside (sky (fitsCoord i j))) ∧
    (bigmask sky inside true H W)[i * W + j]? = some (inside (sky (fitsCoord i j))) ∧
    ∀ (negate : Bool) (data : List α) (v : α), data[i * W + j]? = some v → v ≠ nan →
      ((maskPlane nan sky inside negate H W data)[i * W + j]? = some nan ↔
        inside (sky (fitsCoord i j)) = negate) := by
  refine ⟨?_, ?_, ?_⟩
  · rw [bigmask_eq_mustBlank sky inside false H W i j hi hj]; simp [mustBlank]
  · rw [bigmask_eq_mustBlank sky inside true H W i j hi hj]; simp [mustBlank]
  · intro negate data v hv hne
    rw [maskPlane_pixel nan sky inside negate H W i j hi hj, hv]
    simp only [Option.map_some, expected, mustBlank, Option.some.injEq]
    by_cases h : inside (sky (fitsCoord i j)) = negate
    · simp [h]
    · simp [h, hne]

/-- **negate_complementary**: the mask with `negate` is the pointwise complement of the mask
    without; so each pixel is blanked by exactly one of the two runs. -/
theorem negate_complementary {S : Type} (sky : Pix → S) (inside : S → Bool) (H W : Nat) :
    bigmask sky inside true H W = (bigmask sky inside false H W).map (fun b => !b) ∧
    ∀ i j, mustBlank sky inside true i j = !mustBlank sky inside false i j := by
  constructor
  · simp [bigmask, bigmaskO, List.map_map, Function.comp_def]
  · intro i j
    simp only [mustBlank]
    cases inside (sky (fitsCoord i j)) <;> rfl

theorem count_true_add_count_not (l : List Bool) :
    l.count true + (l.map (fun b => !b)).count true = l.length := by
  induction l with
  | nil => rfl
  | cons b bs ih => cases b <;> simp <;> omega

/-- the plain run and the `negate` run blank, between them, every pixel exactly once:
    the numbers of mask bits add up to `H·W` -/
theorem negate_counts_add_up {S : Type} (sky : Pix → S) (inside : S → Bool) (H W : Nat) :
    (bigmask sky inside false H W).count true + (bigmask sky inside true H W).count true = H * W := by
  rw [(negate_complementary sky inside H W).1, count_true_add_count_not, length_bigmask]

/-- **others_unchanged**: a pixel whose centre is not to be blanked keeps its value — the very
    same element of `α` (bit-identical; this includes values that already were the blank) — and the
    array keeps its size. -/
theorem others_unchanged {α S : Type} (nan : α) (sky : Pix → S) (inside : S → Bool) (negate : Bool)
    (H W i j : Nat) (hi : i < H) (hj : j < W) (data : List α)
    (h : inside (sky (fitsCoord i j)) ≠ negate) :
    (maskPlane nan sky inside negate H W data)[i * W + j]? = data[i * W + j]? := by
  rw [maskPlane_pixel nan sky inside negate H W i j hi hj]
  have : mustBlank sky inside negate i j = false := by simp [mustBlank, h]
  cases data[i * W + j]? with
  | none => rfl
  | some v => simp [expected, this]

/-! ### All planes of a cube -/

theorem maskFile_plane_length {α S : Type} (nan : α) (sky : Pix → S) (inside : S → Bool) (negate : Bool)
    (P H W : Nat) (data : List α) (hd : data.length = P * (H * W)) (q : Nat) (hq : q < P) :
    (maskPlane nan sky inside negate H W (plane H W data q)).length = H * W :=
  maskPlane_length nan sky inside negate H W _ (length_plane H W data P q hq hd)

theorem maskFile_length {α S : Type} (nan : α) (sky : Pix → S) (inside : S → Bool) (negate : Bool)
    (P H W : Nat) (data : List α) (hd : data.length = P * (H * W)) :
    (maskFile nan sky inside negate P H W data).length = data.length := by
  unfold maskFile
  rw [length_flatten_range _ (H * W) P (maskFile_plane_length nan sky inside negate P H W data hd), hd]

/-- every element of every plane of the masked array is what the Spec expects of (row, column)
    alone -/
theorem maskFile_pixel {α S : Type} (nan : α) (sky : Pix → S) (inside : S → Bool) (negate : Bool)
    (P H W : Nat) (data : List α) (hd : data.length = P * (H * W))
    (p i j : Nat) (hp : p < P) (hi : i < H) (hj : j < W) :
    (maskFile nan sky inside negate P H W data)[p * (H * W) + (i * W + j)]? =
      (data[p * (H * W) + (i * W + j)]?).map (expected nan sky inside negate i j) := by
  unfold maskFile
  have hk := flat_lt H W i j hi hj
  rw [getElem?_flatten_range _ (H * W) P (maskFile_plane_length nan sky inside negate P H W data hd)
      p _ hp hk]
  rw [maskPlane_pixel nan sky inside negate H W i j hi hj, getElem?_plane H W data p _ hk]

/-- **planes_identical**: whether a pixel is blanked depends on its row and column only, never on
    the plane: in any two planes the same pixels are blanked, and every other pixel of every plane is
    unchanged. -/
theorem planes_identical {α S : Type} (nan : α) (sky : Pix → S) (inside : S → Bool) (negate : Bool)
    (P H W : Nat) (data : List α) (hd : data.length = P * (H * W))
    (p q i j : Nat) (hp : p < P) (hq : q < P) (hi : i < H) (hj : j < W) :
    (maskFile nan sky inside negate P H W data)[p * (H * W) + (i * W + j)]? =
      (data[p * (H * W) + (i * W + j)]?).map (expected nan sky inside negate i j) ∧
    (maskFile nan sky inside negate P H W data)[q * (H * W) + (i * W + j)]? =
      (data[q * (H * W) + (i * W + j)]?).map (expected nan sky inside negate i j) :=
  ⟨maskFile_pixel nan sky inside negate P H W data hd p i j hp hi hj,
   maskFile_pixel nan sky inside negate P H W data hd q i j hq hi hj⟩

/-- **model_meets_spec_file**: the model's output satisfies the Spec for every cube -/
theorem model_meets_spec_file {α S : Type} (nan : α) (sky : Pix → S) (inside : S → Bool) (negate : Bool)
    (P H W : Nat) (data : List α) (hd : data.length = P * (H * W)) :
    FileOK nan sky inside negate P H W data (maskFile nan sky inside negate P H W data) :=
  ⟨maskFile_length nan sky inside negate P H W data hd,
   fun p i j hp hi hj => maskFile_pixel nan sky inside negate P H W data hd p i j hp hi hj⟩

/-- **checkFile_sound**: the decidable check the driver runs on the implementation's output accepts
    exactly the outputs that satisfy the Spec -/
theorem checkFile_sound {α S : Type} [DecidableEq α] (nan : α) (sky : Pix → S) (inside : S → Bool)
    (negate : Bool) (P H W : Nat) (before after : List α) (hb : before.length = P * (H * W)) :
    checkFile nan sky inside negate P H W before after = none ↔
      FileOK nan sky inside negate P H W before after := by
  unfold checkFile FileOK
  constructor
  · intro h
    by_cases hl : after.length ≠ before.length ∨ before.length ≠ P * (H * W)
    · rw [if_pos hl] at h; cases h
    · rw [if_neg hl] at h
      have hlen : after.length = before.length := by
        rcases Nat.decEq after.length before.length with h1 | h1
        · exact absurd (Or.inl h1) hl
        · exact h1
      refine ⟨hlen, ?_⟩
      intro p i j hp hi hj
      rw [Option.map_eq_none_iff, List.find?_eq_none] at h
      have hr := flat_lt H W i j hi hj
      have hk := flat_lt P (H * W) p (i * W + j) hp hr
      have hm : (p * (H * W) + (i * W + j)) % (H * W) = i * W + j := by
        rw [Nat.add_comm, Nat.add_mul_mod_self_right, Nat.mod_eq_of_lt hr]
      have hx := h (p * (H * W) + (i * W + j)) (List.mem_range.mpr hk)
      obtain ⟨d1, d2⟩ := flat_div_mod W i j hj
      simp only [hm, d1, d2] at hx
      simpa using hx
  · intro ⟨hlen, hpix⟩
    have hl : ¬ (after.length ≠ before.length ∨ before.length ≠ P * (H * W)) := by
      intro h
      rcases h with h | h
      · exact h hlen
      · exact h hb
    rw [if_neg hl, Option.map_eq_none_iff, List.find?_eq_none]
    intro k hk
    have hk' : k < P * (H * W) := List.mem_range.mp hk
    obtain ⟨a1, a2, a3⟩ := flat_decompose P (H * W) k hk'
    obtain ⟨b1, b2, b3⟩ := flat_decompose H W (k % (H * W)) a2
    have hx := hpix (k / (H * W)) (k % (H * W) / W) (k % (H * W) % W) a1 b1 b2
    rw [b3, a3] at hx
    simp [hx]

/-- the model's output passes the check the implementation's output is put through -/
theorem model_passes_check {α S : Type} [DecidableEq α] (nan : α) (sky : Pix → S) (inside : S → Bool)
    (negate : Bool) (P H W : Nat) (data : List α) (hd : data.length = P * (H * W)) :
    checkFile nan sky inside negate P H W data (maskFile nan sky inside negate P H W data) = none :=
  (checkFile_sound nan sky inside negate P H W data _ hd).mpr
    (model_meets_spec_file nan sky inside negate P H W data hd)

/-- the table check is the table Spec, and the model passes it -/
theorem checkTable_sound {Row C : Type} [DecidableEq Row] (inside : C → Bool) (coord : Row → C)
    (negate : Bool) (before after : List Row) :
    checkTable inside coord negate before after = true ↔ TableOK inside coord negate before after := by
  simp [checkTable, TableOK]

/-- **result_depends_on_own_centres_only**: the masked array is a function of the current call's
    data and of the membership of the *current* image's own pixel centres, and of nothing else.  Two
    WCS / region oracle pairs that agree on those `H·W` positions give the same output; in particular
    nothing an earlier call computed (sky positions of another image with the same shape, say) can
    legitimately influence the result, and an implementation that reuses such positions is outside the
    model unless they coincide with the own ones. -/
theorem result_depends_on_own_centres_only {α S S' : Type} (nan : α)
    (sky : Pix → S) (inside : S → Bool) (sky' : Pix → S') (inside' : S' → Bool) (negate : Bool)
    (P H W : Nat) (data : List α) (hd : data.length = P * (H * W))
    (hagree : ∀ i j, i < H → j < W →
      inside (sky (fitsCoord i j)) = inside' (sky' (fitsCoord i j))) :
    maskFile nan sky inside negate P H W data = maskFile nan sky' inside' negate P H W data := by
  apply List.ext_getElem?
  intro k
  by_cases hk : k < P * (H * W)
  · obtain ⟨a1, a2, a3⟩ := flat_decompose P (H * W) k hk
    obtain ⟨b1, b2, b3⟩ := flat_decompose H W (k % (H * W)) a2
    have e1 := maskFile_pixel nan sky inside negate P H W data hd _ _ _ a1 b1 b2
    have e2 := maskFile_pixel nan sky' inside' negate P H W data hd _ _ _ a1 b1 b2
    rw [b3, a3] at e1 e2
    rw [e1, e2]
    have : expected nan sky inside negate (k % (H * W) / W) (k % (H * W) % W)
        = expected nan sky' inside' negate (k % (H * W) / W) (k % (H * W) % W) := by
      funext v
      simp only [expected, mustBlank, hagree _ _ b1 b2]
      rfl
    rw [this]
  · have l1 := maskFile_length nan sky inside negate P H W data hd
    have l2 := maskFile_length nan sky' inside' negate P H W data hd
    rw [List.getElem?_eq_none (by omega), List.getElem?_eq_none (by omega)]

/-- a 2-D image is the one-plane case -/
theorem maskFile_one_plane {α S : Type} (nan : α) (sky : Pix → S) (inside : S → Bool) (negate : Bool)
    (H W : Nat) (data : List α) (hd : data.length = H * W) :
    maskFile nan sky inside negate 1 H W data = maskPlane nan sky inside negate H W data := by
  simp [maskFile, plane, ← hd]

/-! ### Tables -/

theorem maskTable_eq_filter {Row C : Type} (inside : C → Bool) (coord : Row → C) (negate : Bool)
    (rows : List Row) :
    maskTable inside coord negate rows = rows.filter (keepRow inside coord negate) := by
  unfold maskTable
  cases negate
  · simp only [Bool.not_false, if_true, List.map_map]
    have := selectMask_map (fun r => !inside (coord r)) rows
    simp only [Function.comp_def]
    rw [this]
    congr 1
    funext r
    simp [keepRow]
  · simp only [Bool.not_true, Bool.false_eq_true, if_false]
    rw [selectMask_map (fun r => inside (coord r)) rows]
    congr 1
    funext r
    simp [keepRow]

/-- **table_filter_stable**: the result is the input with rows deleted — a sublist, so order and
    every column of every surviving row are preserved (rows are returned whole) — and a row survives
    iff its coordinates are not inside the region (inside, with `negate`). -/
theorem table_filter_stable {Row C : Type} (inside : C → Bool) (coord : Row → C) (negate : Bool)
    (rows : List Row) :
    TableOK inside coord negate rows (maskTable inside coord negate rows) ∧
    (maskTable inside coord negate rows).Sublist rows ∧
    ∀ r, r ∈ maskTable inside coord negate rows ↔ r ∈ rows ∧ inside (coord r) = negate := by
  rw [maskTable_eq_filter]
  refine ⟨rfl, List.filter_sublist, ?_⟩
  intro r
  simp [List.mem_filter, keepRow]

/-- the two runs split the table: every row is in exactly one of the results -/
theorem table_negate_partition {Row C : Type} (inside : C → Bool) (coord : Row → C) (rows : List Row) :
    (maskTable inside coord false rows).length + (maskTable inside coord true rows).length = rows.length ∧
    ∀ r, r ∈ rows → ((r ∈ maskTable inside coord false rows) ↔ ¬ (r ∈ maskTable inside coord true rows)) := by
  constructor
  · rw [maskTable_eq_filter, maskTable_eq_filter]
    induction rows with
    | nil => rfl
    | cons r rs ih =>
      simp only [List.filter_cons]
      cases h : inside (coord r) <;> simp [keepRow, h] <;> omega
  · intro r hr
    rw [(table_filter_stable inside coord false rows).2.2 r, (table_filter_stable inside coord true rows).2.2 r]
    cases inside (coord r) <;> simp [hr]

/-! ### Undefined coordinates -/

/-- **nan_never_inside**: `sky_within` answers False for every position with a non-finite
    coordinate, whatever healpy says about the substituted position -/
theorem nan_never_inside {S : Type} (finite member : S → Bool) (zero s : S) (h : finite s = false) :
    skyWithin finite member zero s = false := by
  simp [skyWithin, h]

theorem finite_inside_iff_member {S : Type} (finite member : S → Bool) (zero s : S) (h : finite s = true) :
    skyWithin finite member zero s = member s := by
  simp [skyWithin, h]

/-- **masked_cell_never_inside**: a coordinate held in a masked (empty) cell is undefined whatever
    value is stored underneath the mask.  With positions modelled as `(masked?, stored value)` and
    `finite` false on masked cells, `sky_within` answers False for every stored value — 0.0 as left by
    the text readers, NaN as left by FITS / VOTable, or a position inside the region. -/
theorem masked_cell_never_inside {C : Type} (finite member : C → Bool) (zero : Bool × C) (stored : C) :
    skyWithin (fun s : Bool × C => !s.1 && finite s.2) (fun s => member s.2) zero (true, stored) = false :=
  nan_never_inside _ _ _ _ (by simp)

/-- a row with undefined coordinates is kept by the plain run and removed by the `negate` run -/
theorem nan_row_kept_iff {Row C : Type} (finite member : C → Bool) (zero : C) (coord : Row → C)
    (negate : Bool) (rows : List Row) (r : Row) (hr : r ∈ rows) (h : finite (coord r) = false) :
    r ∈ maskTable (skyWithin finite member zero) coord negate rows ↔ negate = false := by
  rw [(table_filter_stable _ coord negate rows).2.2 r, nan_never_inside finite member zero _ h]
  cases negate <;> simp [hr]

/-- a pixel whose sky position is undefined is blanked by the plain run and kept by the `negate` run -/
theorem nan_pixel_blanked_iff {S : Type} (finite member : S → Bool) (zero : S) (sky : Pix → S)
    (negate : Bool) (i j : Nat) (h : finite (sky (fitsCoord i j)) = false) :
    mustBlank sky (skyWithin finite member zero) negate i j = !negate := by
  simp [mustBlank, nan_never_inside finite member zero _ h]

/-! ### The regenerated pieces (translator/targets/C10.py) and the model assembled from them

`Gen.C10.*` are re-translated from `MIMAS.mask_plane / mask_file / mask_table / mask_catalog` on every
run.  `gen_pieces_ok` is the proof obligation about them: it breaks when the source changes meaning
(origin argument, a shifted or swapped index, the negate test, the blank value, the plane loop, the row
filter, the arguments handed on by mask_catalog).  Under it the assembled functions are the hand model
(`Proofs.C10.maskFileP_eq`, `maskTableP_eq`), so the property theorems hold of the regenerated model. -/

section GenObligations
set_option linter.unusedSimpArgs false

/-- unfold the regenerated definitions (or their hand fallbacks) and finish with arithmetic -/
local macro "gen_arith" : tactic => `(tactic| (
  simp only [genPieces, Gen.C10.idxE0, Gen.C10.idxE1, Gen.C10.idxSetCol, Gen.C10.idxSetVal, Gen.C10.idxLo, Gen.C10.idxHi,
    Gen.C10.idxTotal, Gen.C10.idxOuter, Gen.C10.idxInner, Gen.C10.wcsOrigin, Gen.C10.wcsShift, Gen.C10.skyOrder,
    Gen.C10.skyDegin, Gen.C10.applyReshape, Gen.C10.applyBlank, Gen.C10.planeCut, Gen.C10.planeSame,
    Gen.C10.tableArgs, Gen.C10.catalogArgs,
    idxE0Hand, idxE1Hand, idxSetColHand, idxSetValHand, idxLoHand, idxHiHand, idxTotalHand, idxOuterHand, idxInnerHand,
    wcsOriginHand, wcsShiftHand, skyOrderHand, skyDeginHand, applyReshapeHand, applyBlankHand, planeCutHand,
    planeSameHand, tableArgsHand, catalogArgsHand] <;>
  first
    | rfl
    | omega
    | (simp [Nat.mul_comm, Nat.add_mul, Nat.mul_add, Nat.succ_mul, Nat.add_comm]; done)
    | grind))

/-- the index list: the row loop leaves `(j, i)` in `idx`, slices `[i·W, (i+1)·W)` of an `H·W`-row array
    are written for `i < H`, rows hold `W` tuples -/
theorem gen_index_pieces :
    (∀ i j : Nat,
      (if genPieces.setCol i = 0 then (((genPieces.setVal i : Nat) : Int), ((genPieces.e1 j : Nat) : Int))
        else (((genPieces.e0 j : Nat) : Int), ((genPieces.setVal i : Nat) : Int))) = (((j : Nat) : Int), ((i : Nat) : Int))) ∧
    (∀ H W, genPieces.inner H W = W) ∧ (∀ H W, genPieces.outer H W = H) ∧ (∀ H W, genPieces.total H W = H * W) ∧
    (∀ i H W, genPieces.lo i H W = i * W) ∧ (∀ i H W, genPieces.hi i H W = (i + 1) * W) := by
  refine ⟨?_, ?_, ?_, ?_, ?_, ?_⟩ <;> intros <;> gen_arith

/-- the WCS call: index + shift with the origin argument is the FITS coordinate index + 1; the two world
    columns go to `sky_within` in order, as degrees -/
theorem gen_wcs_pieces :
    genPieces.shift + (1 - genPieces.origin) = 1 ∧ genPieces.skyOrder = 1 ∧ genPieces.skyDegin = 1 := by
  refine ⟨?_, ?_, ?_⟩ <;> gen_arith

/-- the negate logic of `mask_plane` over 0/1: the mask bit is set iff membership equals `negate` -/
theorem gen_maskBit (n b : Bool) : (genPieces.maskBit (bit n) (bit b) == 1) = (b == n) := by
  cases n <;> cases b <;>
    first
      | decide
      | (simp [genPieces, Gen.C10.maskBit, maskBitHand, bit]; done)

/-- the row filter of `mask_table` over 0/1: a row is kept iff membership equals `negate` -/
theorem gen_rowKeep (n b : Bool) : (genPieces.rowKeep (bit n) (bit b) == 1) = (b == n) := by
  cases n <;> cases b <;>
    first
      | decide
      | (simp [genPieces, Gen.C10.rowKeep, rowKeepHand, bit]; done)

/-- reshape to `data.shape`, blank with NaN, loop over all leading axes with the same arguments,
    `mask_table` reads (racol, deccol) as degrees and returns `table[mask]`, `mask_catalog` hands
    negate / racol / deccol on and writes what `mask_table` returned -/
theorem gen_plumbing_pieces :
    genPieces.reshape = 1 ∧ genPieces.blank = 1 ∧ genPieces.planeCut = -2 ∧ genPieces.planeSame = 1 ∧
    genPieces.tableArgs = 1 ∧ genPieces.catalogArgs = 1 := by
  refine ⟨?_, ?_, ?_, ?_, ?_, ?_⟩ <;> gen_arith

end GenObligations

/-- **gen_pieces_ok**: the regenerated pieces satisfy everything the property needs of them -/
theorem gen_pieces_ok : PiecesOK genPieces where
  rowElt := gen_index_pieces.1
  inner := gen_index_pieces.2.1
  outer := gen_index_pieces.2.2.1
  total := gen_index_pieces.2.2.2.1
  lo := gen_index_pieces.2.2.2.2.1
  hi := gen_index_pieces.2.2.2.2.2
  wcs := gen_wcs_pieces.1
  skyOrder := gen_wcs_pieces.2.1
  skyDegin := gen_wcs_pieces.2.2
  maskBit := gen_maskBit
  reshape := gen_plumbing_pieces.1
  blank := gen_plumbing_pieces.2.1
  planeCut := gen_plumbing_pieces.2.2.1
  planeSame := gen_plumbing_pieces.2.2.2.1
  rowKeep := gen_rowKeep
  tableArgs := gen_plumbing_pieces.2.2.2.2.1
  catalogArgs := gen_plumbing_pieces.2.2.2.2.2

/-- **gen_refines_model**: the model assembled from the regenerated pieces is the hand model, for every
    image, cube and table (whatever `swap` and `other` stand for: they are only reachable when an
    obligation fails) -/
theorem gen_refines_model {α S Row C : Type} (swap : S → S) (nan other : α) (sky : Pix → S)
    (inside : S → Bool) (negate : Bool) (P H W : Nat) (data : List α)
    (insideC : C → Bool) (coord : Row → C) (rows : List Row) :
    maskFileP genPieces swap nan other sky inside negate P H W data = maskFile nan sky inside negate P H W data ∧
    maskTableP genPieces insideC coord negate rows = maskTable insideC coord negate rows :=
  ⟨maskFileP_eq genPieces gen_pieces_ok swap nan other sky inside negate P H W data,
   maskTableP_eq genPieces gen_pieces_ok insideC coord negate rows⟩

/-- **gen_model_meets_spec**: hence the regenerated model meets the Spec — every pixel of every plane
    is blanked iff its own centre is outside (inside with negate), all others unchanged; the table is
    the stable filter -/
theorem gen_model_meets_spec {α S Row C : Type} (swap : S → S) (nan other : α) (sky : Pix → S)
    (inside : S → Bool) (negate : Bool) (P H W : Nat) (data : List α) (hd : data.length = P * (H * W))
    (insideC : C → Bool) (coord : Row → C) (rows : List Row) :
    FileOK nan sky inside negate P H W data (maskFileP genPieces swap nan other sky inside negate P H W data) ∧
    TableOK insideC coord negate rows (maskTableP genPieces insideC coord negate rows) := by
  rw [(gen_refines_model swap nan other sky inside negate P H W data insideC coord rows).1,
    (gen_refines_model swap nan other sky inside negate P H W data insideC coord rows).2]
  exact ⟨model_meets_spec_file nan sky inside negate P H W data hd,
    (table_filter_stable insideC coord negate rows).1⟩

example : maskFileP genPieces (fun p : Pix => p) (99 : Nat) 0 (fun p => p) (fun p : Pix => p == (2, 1)) false 1 2 3
    [10, 11, 12, 13, 14, 15] = [99, 11, 99, 99, 99, 99] := by decide

/-! ### Non-vacuity, and the negation witness for the pinned origin argument -/

example : indexes 2 3 = [(0, 0), (1, 0), (2, 0), (0, 1), (1, 1), (2, 1)] := by decide

example : maskPlane 99 id (fun p : Pix => p == (2, 1)) false 2 3 [10, 11, 12, 13, 14, 15]
    = [99, 11, 99, 99, 99, 99] := by decide

example : maskTable (fun c : Nat => c % 2 == 0) (fun r : Nat × Nat => r.1) false [(1, 7), (2, 8), (3, 9)]
    = [(1, 7), (3, 9)] := by decide

/-- **origin_one_shifts**: with the pinned tree's call `wcs_pix2world(indexes, 1)` the WCS is handed
    `(j, i)` — the FITS coordinate of the pixel one row down and one column left — so there are a WCS
    and a region (the identity and the single position (1, 1), on a 1 × 1 image) for which the only
    pixel, whose own centre is inside, is blanked. -/
theorem origin_one_shifts :
    (∀ (S : Type) (sky : Pix → S) (i j : Nat),
        pix2world sky 1 (((j : Nat) : Int), ((i : Nat) : Int)) = sky (((j : Nat) : Int), ((i : Nat) : Int))) ∧
    bigmaskO 1 (fun p : Pix => p) (fun p : Pix => p == (1, 1)) false 1 1
      ≠ [mustBlank (fun p : Pix => p) (fun p : Pix => p == (1, 1)) false 0 0] := by
  constructor
  · intro S sky i j; simp [pix2world]
  · decide

end Aegean.Properties.C10
