/-
  C09 — Circle and polygon regions cover their shape and nothing far from it.

  Property text: "A region built from a circle contains every sky position within the radius of
  the centre, and contains no position farther than the radius plus three pixel sizes at the
  region's resolution; its area lies between the two corresponding spherical caps.  A region built
  from a convex polygon contains every interior position and nothing farther than three pixel
  sizes outside its circumscribed circle.  This holds at the poles, across the RA=0 wrap, for any
  depth and for positions given in radians or degrees."

  What is proved here, for ALL centres, radii, depths, polygons and query positions:

  (1) the conversion algebra, about the text regenerated from regions.py (`Gen.C09.*`) and the
      hand model of the column swap / healpy's `ang2vec`, `vec2ang`:  unit vectors, the
      ra→phi / dec→theta convention, `vec2sky ∘ sky2vec = id` on its exact domain, the angle
      between `sky2vec p` and `sky2vec q` is the great-circle separation, `degin`, NaN mask;
  (2) the containment chain — theorems named `…_partial`: they are complete proofs FROM the
      `Healpix` contract (Aegean/Proofs/C09Chain.lean), and the contract (HEALPix geometry inside
      healpy) is assumed and only sampled by the harness.  That is the partial part of C09.
      The contract gives  r + 2ρ + slack  (ρ = max pixel radius, slack = max pixel radius of the
      4×-finer grid healpy's inclusive mode works on) ≈ r + 2.35 pixel sizes; the property's
      "3 pixel sizes" follows from the numeric hypothesis `2ρ + slack ≤ 3·pixSize`;
  (3) the hand-off model (`addCircleCall`, `addPolyCall`, `skyWithinCall`): nside = 2^depth with
      depth clamped to maxdepth, radius unchanged (radians), nested, inclusive.
-/
import Aegean.Proofs.C09Region
import Aegean.Proofs.C09Poly
import Aegean.Proofs.C17Sphere

open Aegean.Model.C09 Real InnerProductGeometry MeasureTheory

set_option linter.unusedTactic false
set_option linter.unreachableTactic false

namespace Aegean.Properties.C09
open Gen.C09 Aegean.C09

/-- closes the case analysis a clamp written in any harmless way leaves behind (`>` / `>=`, min, nested ifs) -/
macro "close_clamp" : tactic =>
  `(tactic| (repeat' split) <;> first | rfl | omega | (congr 1; omega) | (simp_all; done) | (exfalso; omega))

/-! ## (1) conversion algebra -/

/-- `sky2ang`: ra → phi, dec → theta = π/2 − dec (no swap slip, no degree/radian slip) -/
theorem sky2ang_convention (ra dec : ℝ) : sky2ang sky2angTheta ra dec = (π / 2 - dec, ra) := by
  simp only [sky2ang, theta_eq]

/-- `sky2vec (ra, dec)` = (cos δ cos α, cos δ sin α, sin δ) -/
theorem sky2vec_formula (ra dec : ℝ) :
    sky2vec sky2angTheta ra dec = ⟨cos dec * cos ra, cos dec * sin ra, sin dec⟩ :=
  sky2vec_eq_skyvec ra dec

/-- `sky2vec` gives a unit vector, for every real ra, dec -/
theorem sky2vec_unit (ra dec : ℝ) : ‖toE3 (sky2vec sky2angTheta ra dec)‖ = 1 := by
  rw [sky2vec_eq_skyvec]; exact norm_skyvec ra dec

/-- at the poles every right ascension gives the same vector: the ra component of
    `vec2sky ∘ sky2vec` cannot be the identity there -/
theorem sky2vec_pole (ra : ℝ) :
    sky2vec sky2angTheta ra (π / 2) = ⟨0, 0, 1⟩ ∧ sky2vec sky2angTheta ra (-(π / 2)) = ⟨0, 0, -1⟩ := by
  simp [sky2vec_eq_skyvec, skyvec]

/-- RA wrap: `ra` and `ra + 2π` are the same point of the sphere … -/
theorem sky2vec_ra_periodic (ra dec : ℝ) :
    sky2vec sky2angTheta (ra + 2 * π) dec = sky2vec sky2angTheta ra dec := by
  simp only [sky2vec_eq_skyvec, skyvec, Real.cos_add_two_pi, Real.sin_add_two_pi]

/-- … and get the same `sky_within` answer from any region -/
theorem sky_within_ra_periodic (H : Healpix) {m d : ℕ} (hd : d ≤ m) (D : Finset ℕ) (ra dec : ℝ) :
    regionWithin H m d D false (ra + 2 * π) dec = regionWithin H m d D false ra dec := by
  have e : skyvec (ra + 2 * π) dec = skyvec ra dec := by
    simp only [skyvec, Real.cos_add_two_pi, Real.sin_add_two_pi]
  rw [regionWithin_eq H hd, regionWithin_eq H hd, e]

/-- angle between `sky2vec p` and `sky2vec q` = arccos of the spherical law of cosines -/
theorem sky2vec_angle_cos (ra1 dec1 ra2 dec2 : ℝ) :
    angle (toE3 (sky2vec sky2angTheta ra1 dec1)) (toE3 (sky2vec sky2angTheta ra2 dec2))
      = arccos (cosSep ra1 dec1 ra2 dec2) := by
  rw [sky2vec_eq_skyvec, sky2vec_eq_skyvec, angle_of_unit (dot_skyvec_self _ _) (dot_skyvec_self _ _),
    dot_skyvec]
  simp only [cosSep, R.real_sin, R.real_cos]

/-- … = the haversine great-circle separation (the formula of `angle_tools.gcd`, in radians) -/
theorem sky2vec_angle (ra1 dec1 ra2 dec2 : ℝ) :
    angle (toE3 (sky2vec sky2angTheta ra1 dec1)) (toE3 (sky2vec sky2angTheta ra2 dec2))
      = sepHav ra1 dec1 ra2 dec2 := by
  rw [sky2vec_eq_skyvec, sky2vec_eq_skyvec, angle_of_unit (dot_skyvec_self _ _) (dot_skyvec_self _ _)]
  have hc : cos (ra2 - ra1) = cos (ra1 - ra2) := by rw [← Real.cos_neg]; ring_nf
  have h := hav_identity dec1 dec2 (ra2 - ra1)
  rw [hc, ← dot_skyvec] at h
  simp only [sepHav, havA, R.real_sin, R.real_cos, R.real_npow, R.real_asin, R.real_min, R.real_sqrt,
    R.real_ofNat, Nat.cast_ofNat, Nat.cast_one]
  rw [h, two_arcsin_sqrt_hav _ (neg_one_le_dot_skyvec _ _ _ _) (dot_skyvec_le _ _ _ _)]

theorem angle_skyvec (ra1 dec1 ra2 dec2 : ℝ) :
    angle (toE3 (skyvec ra1 dec1)) (toE3 (skyvec ra2 dec2)) = sepHav ra1 dec1 ra2 dec2 := by
  rw [← sky2vec_angle, sky2vec_eq_skyvec, sky2vec_eq_skyvec]

/-- link to C17 (degrees): the radian separation used here is π/180 times C17's `sphDist`, the
    quantity C17 proves `angle_tools.gcd` computes -/
theorem sep_eq_C17_sphDist (ra1 dec1 ra2 dec2 : ℝ) :
    sepHav (R.radians ra1) (R.radians dec1) (R.radians ra2) (R.radians dec2)
      = π / 180 * Aegean.C17.sphDist ra1 dec1 ra2 dec2 := by
  have e : ∀ ra dec : ℝ, Aegean.C17.uvec ra dec = toE3 (skyvec (R.radians ra) (R.radians dec)) := by
    intro ra dec
    simp [Aegean.C17.uvec, Aegean.C17.toE3, Aegean.Model.C17.unitVec, toE3, skyvec]
  have hp : π ≠ 0 := Real.pi_ne_zero
  unfold Aegean.C17.sphDist
  rw [e, e, angle_skyvec]
  field_simp

/-- … hence equals `angle_tools.gcd` (C17's hand copy of the repaired formula) converted to radians -/
theorem sep_eq_gcd (ra1 dec1 ra2 dec2 : ℝ) :
    sepHav (R.radians ra1) (R.radians dec1) (R.radians ra2) (R.radians dec2)
      = R.radians (Aegean.Model.C17.gcdNearHand ra1 dec1 ra2 dec2) := by
  rw [sep_eq_C17_sphDist, Aegean.C17.gcdNearHand_eq_sphDist, R.real_radians]; ring

/-- `vec2sky (sky2vec (ra, dec))` returns `dec`, on the closed range −π/2 ≤ dec ≤ π/2 (poles included) -/
theorem vec2sky_sky2vec_dec (isNeg : ℝ → Bool) (ra dec : ℝ) (h1 : -(π / 2) ≤ dec) (h2 : dec ≤ π / 2) :
    (vec2sky vec2skyRa vec2skyDec isNeg false (sky2vec sky2angTheta ra dec)).2 = dec := by
  have h : cos dec * cos ra * (cos dec * cos ra) + cos dec * sin ra * (cos dec * sin ra)
      + sin dec * sin dec = 1 := by
    have := dot_skyvec_self ra dec
    simpa only [dot, skyvec] using this
  rw [sky2vec_eq_skyvec]
  simp only [vec2sky, decOf_false, vec2ang, skyvec, R.real_sqrt, R.real_asin, R.real_pi, R.real_ofNat,
    Nat.cast_ofNat, h, Real.sqrt_one, div_one, Real.arcsin_sin h1 h2]
  ring

/-- `vec2sky (sky2vec (ra, dec))` returns `ra`, for 0 ≤ ra < 2π and −π/2 < dec < π/2.
    (`isNeg` is the test `phi < 0` of healpy's `vec2ang`.)  The open range in dec is necessary:
    `sky2vec_pole`, `vec2sky_pole_ra`. -/
theorem vec2sky_sky2vec_ra (isNeg : ℝ → Bool) (hneg : ∀ t, isNeg t = true ↔ t < 0) (ra dec : ℝ)
    (h1 : -(π / 2) < dec) (h2 : dec < π / 2) (h3 : 0 ≤ ra) (h4 : ra < 2 * π) :
    (vec2sky vec2skyRa vec2skyDec isNeg false (sky2vec sky2angTheta ra dec)).1 = ra := by
  have hc : 0 < cos dec := Real.cos_pos_of_mem_Ioo ⟨h1, h2⟩
  rw [sky2vec_eq_skyvec]
  simp only [vec2sky, raOf_false, vec2ang, skyvec, R.real_atan2, R.real_pi, R.real_ofNat, Nat.cast_ofNat]
  by_cases hle : ra ≤ π
  · have key := arg_polar hc (show -π < ra by linarith [Real.pi_pos]) hle
    have : isNeg ra = false := by
      rw [Bool.eq_false_iff]; intro hh; exact absurd ((hneg _).mp hh) (not_lt.mpr h3)
    simp [key, this]
  · have key := arg_polar_wrap hc (lt_of_not_ge hle) h4
    have : isNeg (ra - 2 * π) = true := (hneg _).mpr (by linarith)
    simp [key, this]

/-- at a pole, over ℝ, `vec2sky` answers ra = 0 whatever ra went in -/
theorem vec2sky_pole_ra (isNeg : ℝ → Bool) (hneg : ∀ t, isNeg t = true ↔ t < 0) (ra : ℝ) :
    (vec2sky vec2skyRa vec2skyDec isNeg false (sky2vec sky2angTheta ra (π / 2))).1 = 0 := by
  have h0 : isNeg 0 = false := by
    rw [Bool.eq_false_iff]; intro hh; exact absurd ((hneg _).mp hh) (lt_irrefl 0)
  rw [(sky2vec_pole ra).1]
  simp only [vec2sky, raOf_false, vec2ang, R.real_atan2, arg_origin, h0]
  simp

/-- `degrees=True` only rescales both outputs by 180/π -/
theorem vec2sky_degrees (isNeg : ℝ → Bool) (v : Vec3 ℝ) :
    vec2sky vec2skyRa vec2skyDec isNeg true v
      = ((vec2sky vec2skyRa vec2skyDec isNeg false v).1 * (180 / π),
         (vec2sky vec2skyRa vec2skyDec isNeg false v).2 * (180 / π)) := by
  simp only [vec2sky, raOf_true, raOf_false, decOf_true, decOf_false]

/-- `degin=True` multiplies by π/180, `degin=False` leaves the value alone -/
theorem degin_scaling (x : ℝ) : skyWithinScale true x = x * (π / 180) ∧ skyWithinScale false x = x :=
  ⟨scale_true x, scale_false x⟩

/-- a position in degrees with `degin=True` gets the answer of the same position in radians -/
theorem sky_within_degin (H : Healpix) (m d : ℕ) (D : Finset ℕ) (ra dec : ℝ) :
    regionWithin H m d D true (ra * (180 / π)) (dec * (180 / π)) = regionWithin H m d D false ra dec :=
  regionWithin_degin H m d D ra dec

/-- NaN / infinite coordinates are never inside (any number type, any region, any healpy) -/
theorem nan_never_inside {α : Type} [R α] (scale : Bool → α → α) (thetaOf : α → α) (finite : α → Bool)
    (a2p : Nat → α → α → Nat) (member : Nat → Bool) (m : Nat) (degin : Bool) (ra dec : α)
    (h : finite (thetaOf (scale degin dec)) = false ∨ finite (scale degin ra) = false) :
    skyWithin scale thetaOf finite a2p member m degin ra dec = false := by
  simp only [skyWithin, skyWithinCall, sky2ang]
  rcases h with h | h <;> simp [h]

/-! ## (3) the hand-off to healpy -/

theorem clamp_depth (m : ℕ) (depth : Option ℕ) :
    clampDepth m depth ≤ m ∧ (∀ d, depth = some d → d ≤ m → clampDepth m depth = d) ∧
      (depth = none → clampDepth m depth = m) := by
  refine ⟨clampDepth_le m depth, ?_, ?_⟩
  · intro d hd hle; subst hd; simp [clampDepth]; omega
  · intro h; subst h; rfl

/-- the `query_disc` call of `add_circles`: nside = 2^depth (clamped), the centre's unit vector,
    the radius unchanged (radians), inclusive, nested -/
theorem addCircleCall_shape (m : ℕ) (depth : Option ℕ) (ra dec r : ℝ) :
    let c := addCircleCall sky2angTheta discFact m depth ra dec r
    c.depth = clampDepth m depth ∧ c.nside = 2 ^ c.depth ∧ c.radius = r ∧ c.inclusive = true ∧
      c.nest = true ∧ c.fact = discFact ∧ c.vec = ⟨cos dec * cos ra, cos dec * sin ra, sin dec⟩ := by
  simp only [addCircleCall, sky2vec_eq_skyvec, skyvec, and_self]

/-- list arguments: one call per zipped triple -/
theorem addCirclesCalls_length {α : Type} [R α] (th : α → α) (fact m : ℕ) (depth : Option ℕ)
    (ras decs rs : List α) :
    (addCirclesCalls th fact m depth ras decs rs).length = min (min ras.length decs.length) rs.length := by
  induction ras generalizing decs rs with
  | nil => simp [addCirclesCalls]
  | cons a ras ih =>
    cases decs with
    | nil => simp [addCirclesCalls]
    | cons b decs =>
      cases rs with
      | nil => simp [addCirclesCalls]
      | cons c rs => simp only [addCirclesCalls, List.length_cons, ih]; omega

/-- list arguments: the calls are exactly the per-triple calls, in order — a function of the current
    arguments only, with NO de-duplication: a centre listed twice gets two calls, each with its own
    radius (so the larger of two radii at a repeated centre is covered whatever the order) -/
theorem addCirclesCalls_eq_map {α : Type} [R α] (th : α → α) (fact m : ℕ) (depth : Option ℕ)
    (ras decs rs : List α) :
    addCirclesCalls th fact m depth ras decs rs
      = (ras.zip (decs.zip rs)).map (fun t => addCircleCall th fact m depth t.1 t.2.1 t.2.2) := by
  induction ras generalizing decs rs with
  | nil => simp [addCirclesCalls]
  | cons a ras ih =>
    cases decs with
    | nil => simp [addCirclesCalls]
    | cons b decs =>
      cases rs with
      | nil => simp [addCirclesCalls]
      | cons c rs => simp [addCirclesCalls, ih]

/-- `add_poly` rejects exactly the position lists with fewer than three entries -/
theorem addPolyCall_none_iff {α : Type} [R α] (th : α → α) (fact m : ℕ) (depth : Option ℕ) (pos : List (α × α)) :
    addPolyCall th fact m depth pos = none ↔ pos.length < 3 := by
  unfold addPolyCall
  split <;> simp <;> omega

theorem addPolyCall_shape {α : Type} [R α] (th : α → α) (fact m : ℕ) (depth : Option ℕ) (pos : List (α × α))
    (c : PolyCall α) (h : addPolyCall th fact m depth pos = some c) :
    c.depth = clampDepth m depth ∧ c.nside = 2 ^ c.depth ∧ c.inclusive = true ∧ c.nest = true ∧ c.fact = fact ∧
      c.verts = pos.map (fun p => sky2vec th p.1 p.2) := by
  unfold addPolyCall at h
  split at h
  · simp only [Option.some.injEq] at h; subst h; simp
  · simp at h

/-- the `ang2pix` call of `sky_within`: nside = 2^maxdepth, theta = π/2 − dec, phi = ra, nested -/
theorem skyWithinCall_shape (m : ℕ) (ra dec : ℝ) :
    skyWithinCall skyWithinScale sky2angTheta (fun _ => true) m false ra dec
      = some ⟨2 ^ m, π / 2 - dec, ra, true⟩ := by
  simp only [skyWithinCall, sky2ang, scale_false, theta_eq, Bool.and_self, if_true]

/-! ## (3b) the hand-off, regenerated piece by piece

The pieces below are re-translated from `add_circles`, `add_poly`, `sky_within` and `sky2ang` on every run;
`addCircleCallOf` / `addPolyCallOf` / `skyWithinCallOf` (Model) are the fixed glue the driver runs against the code.
The theorems say the regenerated hand-off IS the hand model used by the containment theorems, for every input. -/

/-- `sky2ang` regenerated in full (copy, column swap, colatitude): (ra, dec) ↦ (π/2 − dec, ra) -/
theorem sky2ang_regenerated (ra dec : ℝ) : (sky2angCol0 ra dec, sky2angCol1 ra dec) = (π / 2 - dec, ra) := by
  refine Prod.ext ?_ ?_
  · simp only [sky2angCol0, sky2angThetaHand, R.real_pi, R.real_ofNat, R.real_ofSci, Nat.cast_ofNat] <;> close_arith
  · simp only [sky2angCol1] <;> close_arith

theorem sky2angCol0_eq (ra dec : ℝ) : sky2angCol0 ra dec = π / 2 - dec :=
  congrArg Prod.fst (sky2ang_regenerated ra dec)

theorem sky2angCol1_eq (ra dec : ℝ) : sky2angCol1 ra dec = ra :=
  congrArg Prod.snd (sky2ang_regenerated ra dec)

theorem sky2ang_regenerated_eq_model (ra dec : ℝ) :
    (sky2angCol0 ra dec, sky2angCol1 ra dec) = sky2ang sky2angTheta ra dec := by
  rw [sky2ang_regenerated, sky2ang_convention]

/-- the depth handed to `add_pixels` is the clamped depth, for `depth=None` and every `depth=d` -/
theorem discInsertDepth_eq (m : ℕ) (depth : Option ℕ) :
    discInsertDepth (encDepth depth).1 (encDepth depth).2 m = clampDepth m depth := by
  cases depth <;> simp only [discInsertDepth, encDepth, clampDepth, clampHand] <;> first | grind | close_clamp

/-- the nside handed to `query_disc` is 2^(clamped depth): computed AFTER the clamp -/
theorem discNside_eq (m : ℕ) (depth : Option ℕ) :
    discNside (encDepth depth).1 (encDepth depth).2 m = 2 ^ clampDepth m depth := by
  cases depth <;> simp only [discNside, encDepth, clampDepth, nsideHand, clampHand] <;> first | grind | close_clamp

theorem polyInsertDepth_eq (m : ℕ) (depth : Option ℕ) :
    polyInsertDepth (encDepth depth).1 (encDepth depth).2 m = clampDepth m depth := by
  cases depth <;> simp only [polyInsertDepth, encDepth, clampDepth, clampHand] <;> first | grind | close_clamp

theorem polyNside_eq (m : ℕ) (depth : Option ℕ) :
    polyNside (encDepth depth).1 (encDepth depth).2 m = 2 ^ clampDepth m depth := by
  cases depth <;> simp only [polyNside, encDepth, clampDepth, nsideHand, clampHand] <;> first | grind | close_clamp

/-- inclusive and nested, for discs, polygons and the membership lookup; `ang2pix` at 2^maxdepth -/
theorem handoff_flags :
    discInclusive = true ∧ discNest = true ∧ polyInclusive = true ∧ polyNest = true ∧ withinNest = true ∧
      ∀ m, withinNside m = 2 ^ m := by
  refine ⟨rfl, rfl, rfl, rfl, rfl, fun m => ?_⟩
  simp [withinNside, withinNsideHand]

/-- the regenerated `query_disc` hand-off is the hand model `addCircleCall` -/
theorem addCircleCallOf_regenerated (m : ℕ) (depth : Option ℕ) (ra dec r : ℝ) :
    addCircleCallOf (fun a d => (sky2angCol0 a d, sky2angCol1 a d)) discFact discNside discInsertDepth
        discInclusive discNest m depth ra dec r
      = addCircleCall sky2angTheta discFact m depth ra dec r := by
  simp only [addCircleCallOf, addCircleCall, discInsertDepth_eq, discNside_eq, handoff_flags.1, handoff_flags.2.1,
    sky2angCol0_eq, sky2angCol1_eq, sky2vec, sky2ang, theta_eq]

/-- the regenerated `query_polygon` hand-off is the hand model `addPolyCall` -/
theorem addPolyCallOf_regenerated (m : ℕ) (depth : Option ℕ) (pos : List (ℝ × ℝ)) :
    addPolyCallOf (fun a d => (sky2angCol0 a d, sky2angCol1 a d)) polyFact polyNside polyInsertDepth
        polyInclusive polyNest m depth pos
      = addPolyCall sky2angTheta polyFact m depth pos := by
  simp only [addPolyCallOf, addPolyCall, polyInsertDepth_eq, polyNside_eq, handoff_flags.2.2.1, handoff_flags.2.2.2.1,
    sky2angCol0_eq, sky2angCol1_eq, sky2vec, sky2ang, theta_eq]

/-- the regenerated `ang2pix` hand-off of `sky_within` is the hand model `skyWithinCall` -/
theorem skyWithinCallOf_regenerated (finite : ℝ → Bool) (m : ℕ) (degin : Bool) (ra dec : ℝ) :
    skyWithinCallOf skyWithinScale (fun a d => (sky2angCol0 a d, sky2angCol1 a d)) finite withinNside withinNest
        m degin ra dec
      = skyWithinCall skyWithinScale sky2angTheta finite m degin ra dec := by
  simp only [skyWithinCallOf, skyWithinCall, sky2angCol0_eq, sky2angCol1_eq, sky2ang, theta_eq, handoff_flags.2.2.2.2.1,
    handoff_flags.2.2.2.2.2]

/-- non-vacuity: `depth = 14` on a `maxdepth = 11` region queries nside 2^11 and inserts at depth 11 -/
example : discNside (encDepth (some 14)).1 (encDepth (some 14)).2 11 = 2 ^ 11 ∧
    discInsertDepth (encDepth (some 14)).1 (encDepth (some 14)).2 11 = 11 ∧
    discNside (encDepth none).1 (encDepth none).2 11 = 2 ^ 11 ∧
    discInsertDepth (encDepth (some 7)).1 (encDepth (some 7)).2 11 = 7 := by
  refine ⟨?_, ?_, ?_, ?_⟩ <;> simp [discNside_eq, discInsertDepth_eq, clampDepth]

/-- demoting a depth-`d` pixel to depth `m` (4^(m−d) children) keeps its area -/
theorem pixArea_demote {d m : ℕ} (h : d ≤ m) : ((4 ^ (m - d) : ℕ) : ℝ) * pixArea m = pixArea d := by
  have hp : (4 : ℝ) ^ m = 4 ^ (m - d) * 4 ^ d := by rw [← pow_add, Nat.sub_add_cancel h]
  simp only [pixArea, R.real_pi, R.real_ofNat]
  push_cast
  rw [hp]
  have h1 : (4 : ℝ) ^ (m - d) ≠ 0 := by positivity
  have h2 : (4 : ℝ) ^ d ≠ 0 := by positivity
  field_simp

theorem pixArea_nonneg (d : ℕ) : (0 : ℝ) ≤ pixArea d := by
  simp only [pixArea, R.real_pi, R.real_ofNat]
  have := Real.pi_pos
  positivity

/-- one pixel size = √(pixel area) -/
theorem pixSize_sq (d : ℕ) : (pixSize d : ℝ) ^ 2 = pixArea d := by
  simp only [pixSize, R.real_sqrt]
  exact Real.sq_sqrt (pixArea_nonneg d)

/-! ## (2) the containment chain, from the assumed `Healpix` contract -/

/-- FULL CLAUSE: "a region built from a circle contains every sky position within the radius of
    the centre".  PROVED from the contract (query_disc inclusive returns every pixel that meets the
    disc; ang2pix returns the pixel containing the point; nested hierarchy); the contract itself is
    assumed. -/
theorem circle_contains_partial (H : Healpix) (m : ℕ) (depth : Option ℕ) (rac decc r ra dec : ℝ)
    (hr : 0 < r) (h : sepHav rac decc ra dec ≤ r) :
    regionWithin H m (clampDepth m depth) (discPixels H m depth rac decc r) false ra dec = true := by
  rw [regionWithin_eq H (clampDepth_le m depth), discPixels_eq, decide_eq_true_eq]
  apply disc_contains _ (norm_skyvec _ _) (norm_skyvec _ _) hr
  rw [angle_comm, angle_skyvec]; exact h

/-- What the contract gives for exclusion: nothing farther than `r + 2ρ + slack`. -/
theorem circle_excludes_far_partial (H : Healpix) (m : ℕ) (depth : Option ℕ) (rac decc r ra dec : ℝ)
    (hr : 0 < r)
    (h : r + 2 * (H.grid (clampDepth m depth)).ρ + (H.disc discFact (clampDepth m depth)).slack
          < sepHav rac decc ra dec) :
    regionWithin H m (clampDepth m depth) (discPixels H m depth rac decc r) false ra dec = false := by
  rw [regionWithin_eq H (clampDepth_le m depth), discPixels_eq, decide_eq_false_iff_not]
  intro hmem
  have := disc_near _ (norm_skyvec rac decc) (norm_skyvec ra dec) hr hmem
  rw [angle_comm, angle_skyvec] at this
  linarith

/-- FULL CLAUSE: "… and contains no position farther than the radius plus three pixel sizes at
    the region's resolution".  PROVED from the contract and the numeric fact `2ρ + slack ≤ 3·pixSize`
    (healpy: ρ ≤ 1.0446·pixSize, slack = ρ at 4·nside ≈ ρ/4, so 2ρ + slack ≈ 2.35 pixel sizes). -/
theorem circle_excludes_beyond_partial (H : Healpix) (m : ℕ) (depth : Option ℕ) (rac decc r ra dec : ℝ)
    (hr : 0 < r)
    (hρ : 2 * (H.grid (clampDepth m depth)).ρ + (H.disc discFact (clampDepth m depth)).slack
          ≤ 3 * pixSize (clampDepth m depth))
    (h : r + 3 * pixSize (clampDepth m depth) < sepHav rac decc ra dec) :
    regionWithin H m (clampDepth m depth) (discPixels H m depth rac decc r) false ra dec = false :=
  circle_excludes_far_partial H m depth rac decc r ra dec hr (by linarith)

section area
variable [MeasurableSpace E3]

/-- FULL CLAUSE: "its area lies between the two corresponding spherical caps".
    PROVED: (number of pixels) × (pixel measure) lies between the measures of the caps of radius
    `r` and `r + 3·pixSize`, for ANY measure in which the pixels are measurable, pairwise disjoint
    and of equal measure (`PixMeasure`, assumed of HEALPix).  `get_area` = number of pixels × pixel
    area is tied by the correspondence (and `pixArea_demote`). -/
theorem circle_area_between_caps_partial (H : Healpix) (m : ℕ) (depth : Option ℕ) (rac decc r : ℝ)
    (hr : 0 < r) (μ : Measure E3) (M : PixMeasure (H.grid (clampDepth m depth)) μ)
    (hρ : 2 * (H.grid (clampDepth m depth)).ρ + (H.disc discFact (clampDepth m depth)).slack
          ≤ 3 * pixSize (clampDepth m depth)) :
    μ (cap (toE3 (skyvec rac decc)) r) ≤ (discPixels H m depth rac decc r).card * M.A ∧
      (discPixels H m depth rac decc r).card * M.A
        ≤ μ (cap (toE3 (skyvec rac decc)) (r + 3 * pixSize (clampDepth m depth))) := by
  rw [discPixels_eq]
  obtain ⟨h1, h2⟩ := disc_area_between M (H.disc discFact (clampDepth m depth)) (norm_skyvec rac decc) hr
  exact ⟨h1, le_trans h2 (measure_mono (cap_mono _ (by linarith)))⟩

/-- the same in closed form, if the measure gives caps their area 2π(1 − cos t) and pixels
    4π/(12·4^d) (both true of the sphere's surface measure; not proved here) -/
theorem circle_area_closed_form_partial (H : Healpix) (m : ℕ) (depth : Option ℕ) (rac decc r : ℝ)
    (hr : 0 < r) (μ : Measure E3) (M : PixMeasure (H.grid (clampDepth m depth)) μ)
    (hρ : 2 * (H.grid (clampDepth m depth)).ρ + (H.disc discFact (clampDepth m depth)).slack
          ≤ 3 * pixSize (clampDepth m depth))
    (hA : M.A = ENNReal.ofReal (pixArea (clampDepth m depth)))
    (hcap : ∀ t : ℝ, μ (cap (toE3 (skyvec rac decc)) t) = ENNReal.ofReal (capArea t)) :
    capArea r ≤ (discPixels H m depth rac decc r).card * pixArea (clampDepth m depth) ∧
      (discPixels H m depth rac decc r).card * pixArea (clampDepth m depth)
        ≤ capArea (r + 3 * pixSize (clampDepth m depth)) := by
  obtain ⟨h1, h2⟩ := circle_area_between_caps_partial H m depth rac decc r hr μ M hρ
  have e : ((discPixels H m depth rac decc r).card : ENNReal) * M.A
      = ENNReal.ofReal ((discPixels H m depth rac decc r).card * pixArea (clampDepth m depth)) := by
    rw [hA, ENNReal.ofReal_mul (Nat.cast_nonneg _), ENNReal.ofReal_natCast]
  have hcapnn : ∀ t : ℝ, (0 : ℝ) ≤ capArea t := by
    intro t
    simp only [capArea, R.real_pi, R.real_ofNat, R.real_cos]
    have := Real.pi_pos
    have := Real.cos_le_one t
    have : 0 ≤ 1 - cos t := by linarith
    push_cast
    positivity
  have hnn : (0 : ℝ) ≤ (discPixels H m depth rac decc r).card * pixArea (clampDepth m depth) :=
    mul_nonneg (Nat.cast_nonneg _) (pixArea_nonneg _)
  rw [e, hcap] at h1 h2
  exact ⟨(ENNReal.ofReal_le_ofReal_iff hnn).mp h1, (ENNReal.ofReal_le_ofReal_iff (hcapnn _)).mp h2⟩

end area

/-- FULL CLAUSE: "a region built from a convex polygon contains every interior position".
    PROVED (for the closed polygon, hence the interior) from the contract: inclusive
    `query_polygon` returns every pixel that meets the polygon. -/
theorem poly_contains_partial (H : Healpix) (m : ℕ) (depth : Option ℕ) (pos : List (ℝ × ℝ))
    (D : Finset ℕ) (hD : polyPixels H m depth pos = some D) (ra dec : ℝ)
    (hq : toE3 (skyvec ra dec) ∈ polyInterior (polyVerts pos)) :
    regionWithin H m (clampDepth m depth) D false ra dec = true := by
  rw [regionWithin_eq H (clampDepth_le m depth), decide_eq_true_eq]
  exact poly_contains _ (polyPixels_eq H m depth pos D hD).2 (polyInterior_subset_closed _ hq)

/-- What the contract gives: nothing farther than `Rc + 2ρ + slack` from the centre of ANY cap
    of radius `Rc` containing the polygon (its circumscribed circle in particular). -/
theorem poly_excludes_far_partial (H : Healpix) (m : ℕ) (depth : Option ℕ) (pos : List (ℝ × ℝ))
    (D : Finset ℕ) (hD : polyPixels H m depth pos = some D) (rac decc Rc ra dec : ℝ)
    (hcap : ∀ x ∈ polyClosed (polyVerts pos), angle x (toE3 (skyvec rac decc)) ≤ Rc)
    (h : Rc + 2 * (H.grid (clampDepth m depth)).ρ + (H.poly polyFact (clampDepth m depth)).slack
          < sepHav rac decc ra dec) :
    regionWithin H m (clampDepth m depth) D false ra dec = false := by
  rw [regionWithin_eq H (clampDepth_le m depth), decide_eq_false_iff_not]
  intro hmem
  have := poly_near _ (polyPixels_eq H m depth pos D hD).2 hcap (norm_skyvec ra dec) hmem
  rw [angle_comm, angle_skyvec] at this
  linarith

/-- FULL CLAUSE: "… and nothing farther than three pixel sizes outside its circumscribed circle".
    PROVED from the contract and `2ρ + slack ≤ 3·pixSize` (slack: how far outside the polygon a
    returned pixel's nearest point can be; sampled ≤ 0.23ρ). -/
theorem poly_excludes_beyond_partial (H : Healpix) (m : ℕ) (depth : Option ℕ) (pos : List (ℝ × ℝ))
    (D : Finset ℕ) (hD : polyPixels H m depth pos = some D) (rac decc Rc ra dec : ℝ)
    (hcap : ∀ x ∈ polyClosed (polyVerts pos), angle x (toE3 (skyvec rac decc)) ≤ Rc)
    (hρ : 2 * (H.grid (clampDepth m depth)).ρ + (H.poly polyFact (clampDepth m depth)).slack
          ≤ 3 * pixSize (clampDepth m depth))
    (h : Rc + 3 * pixSize (clampDepth m depth) < sepHav rac decc ra dec) :
    regionWithin H m (clampDepth m depth) D false ra dec = false :=
  poly_excludes_far_partial H m depth pos D hD rac decc Rc ra dec hcap (by linarith)

/-- **a convex polygon lies inside its circumscribed circle** (full proof, no contract): every
    position on the inner side of all edge planes is within `Rc` of the centre, if every vertex is
    (`Rc ≤ π/2`) and the polygon is convex in the sense that every fan triangle (v₀, vᵢ, vᵢ₊₁) has the
    polygon's orientation.  This discharges the hypothesis `hcap` of `poly_excludes_*_partial`. -/
theorem poly_in_circumcircle (p0 : ℝ × ℝ) (ps : List (ℝ × ℝ)) (rac decc Rc : ℝ) (hlen : 2 ≤ ps.length)
    (hR0 : 0 ≤ Rc) (hR : Rc ≤ π / 2)
    (hv : ∀ p ∈ p0 :: ps, sepHav rac decc p.1 p.2 ≤ Rc)
    (hfan : ∀ e ∈ pairs (polyVerts ps),
      0 < orient (polyVerts (p0 :: ps)) * triple (toE3 (skyvec p0.1 p0.2)) e.1 e.2) :
    ∀ x ∈ polyClosed (polyVerts (p0 :: ps)), angle x (toE3 (skyvec rac decc)) ≤ Rc := by
  have hcons : polyVerts (p0 :: ps) = toE3 (skyvec p0.1 p0.2) :: polyVerts ps := rfl
  have hall : ∀ x ∈ polyVerts (p0 :: ps), ‖x‖ = 1 ∧ angle x (toE3 (skyvec rac decc)) ≤ Rc := by
    intro x hx
    obtain ⟨p, hp, rfl⟩ := List.mem_map.mp hx
    exact ⟨norm_skyvec _ _, by rw [angle_comm, angle_skyvec]; exact hv p hp⟩
  rw [hcons] at hall hfan ⊢
  exact polygon_subset_cap _ _ _ Rc (by simpa [polyVerts] using hlen) (fun x hx => (hall x hx).1)
    (norm_skyvec _ _) hR0 hR (fun x hx => (hall x hx).2) hfan

/-- FULL CLAUSE for convex polygons with the circumscribed-circle hypothesis discharged: vertices
    within `Rc ≤ π/2` of (rac, decc), fan-convex ⇒ nothing farther than `Rc + 3 pixel sizes` from
    (rac, decc) is inside.  Assumed: the `PolyQuery` contract and `2ρ + slack ≤ 3·pixSize` only. -/
theorem poly_excludes_beyond_convex_partial (H : Healpix) (m : ℕ) (depth : Option ℕ) (p0 : ℝ × ℝ)
    (ps : List (ℝ × ℝ)) (D : Finset ℕ) (hD : polyPixels H m depth (p0 :: ps) = some D)
    (rac decc Rc ra dec : ℝ) (hlen : 2 ≤ ps.length) (hR0 : 0 ≤ Rc) (hR : Rc ≤ π / 2)
    (hv : ∀ p ∈ p0 :: ps, sepHav rac decc p.1 p.2 ≤ Rc)
    (hfan : ∀ e ∈ pairs (polyVerts ps),
      0 < orient (polyVerts (p0 :: ps)) * triple (toE3 (skyvec p0.1 p0.2)) e.1 e.2)
    (hρ : 2 * (H.grid (clampDepth m depth)).ρ + (H.poly polyFact (clampDepth m depth)).slack
          ≤ 3 * pixSize (clampDepth m depth))
    (h : Rc + 3 * pixSize (clampDepth m depth) < sepHav rac decc ra dec) :
    regionWithin H m (clampDepth m depth) D false ra dec = false :=
  poly_excludes_beyond_partial H m depth (p0 :: ps) D hD rac decc Rc ra dec
    (poly_in_circumcircle p0 ps rac decc Rc hlen hR0 hR hv hfan) hρ h

/-- list arguments / repeated `add_circles`: a region holding the union of two pixel sets answers
    the disjunction — so every circle of a list is covered (`circle_contains_partial` for each), and
    a position beyond `r + 3 pixel sizes` of every circle is outside -/
theorem region_union (H : Healpix) {m d : ℕ} (hd : d ≤ m) (D1 D2 : Finset ℕ) (ra dec : ℝ) :
    regionWithin H m d (D1 ∪ D2) false ra dec
      = (regionWithin H m d D1 false ra dec || regionWithin H m d D2 false ra dec) := by
  rw [regionWithin_eq H hd, regionWithin_eq H hd, regionWithin_eq H hd]
  simp [Finset.mem_union]

/-- the circumscribed circle of the vertices contains every edge (and, by iteration, the
    polygon): positive combinations of points of a cap of radius ≤ π/2 stay in the cap -/
theorem circumcircle_contains_edge {a b c : E3} {R s t : ℝ} (ha : ‖a‖ = 1) (hb : ‖b‖ = 1)
    (hc : ‖c‖ = 1) (hR0 : 0 ≤ R) (hR : R ≤ π / 2) (hs : 0 ≤ s) (ht : 0 ≤ t)
    (hn : ‖s • a + t • b‖ = 1) (h1 : angle a c ≤ R) (h2 : angle b c ≤ R) :
    angle (s • a + t • b) c ≤ R :=
  cap_convex ha hb hc hR0 hR hs ht hn h1 h2

/-- every point of the spherical convex hull of vertices lying on/in a circle of radius ≤ π/2
    (a unit-norm non-negative combination of them) lies inside that circle -/
theorem circumcircle_contains_hull {ι : Type} (s : Finset ι) (v : ι → E3) (w : ι → ℝ) {c : E3} {R : ℝ}
    (hv : ∀ i ∈ s, ‖v i‖ = 1) (hc : ‖c‖ = 1) (hR0 : 0 ≤ R) (hR : R ≤ π / 2)
    (hw : ∀ i ∈ s, 0 ≤ w i) (hn : ‖∑ i ∈ s, w i • v i‖ = 1) (h : ∀ i ∈ s, angle (v i) c ≤ R) :
    angle (∑ i ∈ s, w i • v i) c ≤ R :=
  cap_convex_sum s v w hv hc hR0 hR hw hn h

/-! ## non-vacuity -/

/-- the assumed laws are jointly satisfiable -/
example : Nonempty Healpix := ⟨trivialHealpix⟩

/-- a concrete instance of the hypotheses of `circle_contains_partial`: the centre itself -/
example (H : Healpix) : regionWithin H 11 11 (discPixels H 11 none 1 0.5 0.1) false 1 0.5 = true := by
  have h := circle_contains_partial H 11 none 1 0.5 0.1 1 0.5 (by norm_num)
    (by
      have hne : toE3 (skyvec 1 0.5) ≠ 0 := by
        intro h0
        have := norm_skyvec 1 0.5
        rw [h0, norm_zero] at this
        exact zero_ne_one this
      rw [← angle_skyvec, angle_self hne]; norm_num)
  simpa [clampDepth] using h

end Aegean.Properties.C09
