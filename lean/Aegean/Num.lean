/-
  `R α`: the numeric interface every numeric model is written against.
  The *same* definition is interpreted at `Float` (driver, correspondence with the
  Python implementation) and at `ℝ` (noncomputable instance in `Aegean/Proofs/Real.lean`,
  used by the theorems).  This file is Mathlib-free.
-/

class R (α : Type) extends Add α, Sub α, Mul α, Div α, Neg α where
  ofNat : Nat → α
  /-- decimal literal `m · 10^(±e)` (sign `true` = negative exponent), as `OfScientific` -/
  ofSci : Nat → Bool → Nat → α
  pi : α
  sqrt : α → α
  sin : α → α
  cos : α → α
  exp : α → α
  asin : α → α
  /-- `atan2 y x` -/
  atan2 : α → α → α
  min : α → α → α
  max : α → α → α
  abs : α → α

namespace R
variable {α : Type} [R α]

/-- numpy's `radians`: multiply by π/180 -/
@[inline] def radians (x : α) : α := x * (R.pi / R.ofNat 180)
/-- numpy's `degrees`: multiply by 180/π -/
@[inline] def degrees (x : α) : α := x * (R.ofNat 180 / R.pi)
/-- integer power with a literal exponent, unfolded as repeated multiplication -/
def npow (x : α) : Nat → α
  | 0 => R.ofNat 1
  | 1 => x
  | n+2 => npow x (n+1) * x
@[inline] def hypot (x y : α) : α := R.sqrt (x * x + y * y)
end R

instance : R Float where
  ofNat := Float.ofNat
  ofSci := Float.ofScientific
  pi := 3.141592653589793
  sqrt := Float.sqrt
  sin := Float.sin
  cos := Float.cos
  exp := Float.exp
  asin := Float.asin
  atan2 := Float.atan2
  min a b := if a ≤ b then a else if b ≤ a then b else (0.0/0.0)
  max a b := if a ≥ b then a else if b ≥ a then b else (0.0/0.0)
  abs := Float.abs
