/-
  C03 — hand model of the catalogue-producing logic of `source_finder.py` / `fitting.errors`.
  Mathlib-free; executable.  Sections:

    1. numbering   blind (`find_sources_in_image`), priorized (`priorized_fit_islands` batching +
                   `_refit_islands` enumerate), component numbering (`result_to_components`)
    2. ranges      `pa_limit`, `fix_shape`, the RA wrap
    3. flags       the flag data-flow of `estimate_lmfit_parinfo`, `_fit_island`,
                   `result_to_components`, `_refit_islands`
    4. errors      the decision logic of `fitting.errors` on extended values
    5. summary     the island summary of `result_to_components` (doislandflux)
    6. catalogue   rows as a function of (input, uuid stream): nothing else is state

  The batch start `istart` and `group_size` are regenerated from source (`Gen.C03.istart`,
  `Gen.C03.groupSize`); here they are parameters.
-/
import Aegean.Num
import Aegean.Py

namespace Aegean.Model.C03

/-! ## 1. Numbering -/

/-- hand fall-backs for the regenerated arithmetic -/
def groupSizeHand : Nat := 20
def istartHand (i groupSize : Nat) : Nat := i * groupSize

/-- `enumerate(l, start=s)` -/
def enumFrom {β : Type} (s : Nat) : List β → List (Nat × β)
  | [] => []
  | x :: xs => (s, x) :: enumFrom (s + 1) xs

/-- the rows `(island, source)` written by `result_to_components` for one island with `n` components:
    `for j in range(n): source.island = isle_num; source.source = j` -/
def compRows (isle n : Nat) : List (Nat × Nat) := (List.range n).map (fun j => (isle, j))

/-- rows of a list of numbered islands `(isle_num, number of components)` -/
def rowsOf (isles : List (Nat × Nat)) : List (Nat × Nat) := isles.flatMap (fun p => compRows p.1 p.2)

/-- Blind mode.  `isle_num = 0; for island in islands: (skip empty) isle_num += 1; …`: the non-empty
    islands are numbered 1, 2, …; each yields `n` components (`n = 0` when `_fit_island` returns `[]`
    or the island is dropped).  The argument is the component count of every non-empty island. -/
def blindIslands (ncomps : List Nat) : List (Nat × Nat) := enumFrom 1 ncomps
def blindRows (ncomps : List Nat) : List (Nat × Nat) := rowsOf (blindIslands ncomps)

/-- The batching loop of `priorized_fit_islands`:
    ```
    for island in groups:
        island_group.append(island)
        if len(island_group) >= group_size: island_groups.append(island_group); island_group = []
    if len(island_group) > 0: island_groups.append(island_group)
    ``` -/
def batchLoop {β : Type} (gs : Nat) : List β → List β → List (List β) → List (List β)
  | [], cur, acc => if cur.length > 0 then acc ++ [cur] else acc
  | g :: rest, cur, acc =>
    if (cur ++ [g]).length ≥ gs then batchLoop gs rest [] (acc ++ [cur ++ [g]])
    else batchLoop gs rest (cur ++ [g]) acc

def batch {β : Type} (gs : Nat) (groups : List β) : List (List β) := batchLoop gs groups [] []

/-- Priorized mode: batch `i` is refitted with `istart i gs`, and `_refit_islands` numbers its
    islands `enumerate(group, start=istart)`.  A group is given by the number of components that are
    actually refitted (0 = every source rejected / island skipped: the number is still consumed). -/
def refitIslands (istart : Nat → Nat → Nat) (gs : Nat) (groups : List Nat) : List (Nat × Nat) :=
  (enumFrom 0 (batch gs groups)).flatMap (fun ib => enumFrom (istart ib.1 gs) ib.2)

def refitRows (istart : Nat → Nat → Nat) (gs : Nat) (groups : List Nat) : List (Nat × Nat) :=
  rowsOf (refitIslands istart gs groups)

/-- is there a repeated element? (executable uniqueness test used by the driver) -/
def hasDup : List (Nat × Nat) → Bool
  | [] => false
  | x :: xs => xs.contains x || hasDup xs

/-! ## 2. Ranges -/

section ordered
variable {α : Type} [R α] [LT α] [LE α] [DecidableLT α] [DecidableLE α]

/-- `while pa <= -90: pa += 180`, at most `fuel` iterations -/
def upLoop : Nat → α → α
  | 0, pa => pa
  | n + 1, pa => if pa ≤ -(R.ofNat 90) then upLoop n (pa + R.ofNat 180) else pa

/-- `while pa > 90: pa -= 180`, at most `fuel` iterations -/
def downLoop : Nat → α → α
  | 0, pa => pa
  | n + 1, pa => if R.ofNat 90 < pa then downLoop n (pa - R.ofNat 180) else pa

/-- `pa_limit` -/
def paLimit (fuel : Nat) (pa : α) : α := downLoop fuel (upLoop fuel pa)

structure Shape (α : Type) where
  a : α
  b : α
  pa : α
  errA : α
  errB : α

/-- `fix_shape`: if a < b swap a/b and err_a/err_b, pa += 90 -/
def fixShape (s : Shape α) : Shape α :=
  if s.a < s.b then { a := s.b, b := s.a, pa := s.pa + R.ofNat 90, errA := s.errB, errB := s.errA } else s

/-- `if source.ra < 0: source.ra += 360` -/
def raWrap (ra : α) : α := if ra < R.ofNat 0 then ra + R.ofNat 360 else ra

end ordered

/-! hand fall-backs of the pieces regenerated from `pa_limit`, `fix_shape`, the RA wrap, the
    `int_flux` expression and `get_beamarea_pix` (used only when the slice cannot be taken) -/
section fallbacks
variable {α : Type} [R α]
def paUpBoundHand (_pa : α) : α := -(R.ofNat 90)
def paUpNextHand (pa : α) : α := pa + R.ofNat 180
def paDownBoundHand (_pa : α) : α := R.ofNat 90
def paDownNextHand (pa : α) : α := pa - R.ofNat 180
def fixAHand (_a b _pa _ea _eb : α) : α := b
def fixBHand (a _b _pa _ea _eb : α) : α := a
def fixPaHand (_a _b pa _ea _eb : α) : α := pa + R.ofNat 90
def fixErrAHand (_a _b _pa _ea eb : α) : α := eb
def fixErrBHand (_a _b _pa ea _eb : α) : α := ea
def raWrapBoundHand (_ra : α) : α := R.ofNat 0
def raWrapNextHand (ra : α) : α := ra + R.ofNat 360
def intFluxGHand (peak sx sy cc pi_ area : α) : α := peak * sx * sy * R.npow cc 2 * pi_ / area
def beamAreaGHand (a b pi_ : α) : α := a * b * pi_
end fallbacks
def paUpClosedHand : Nat := 1
def paDownClosedHand : Nat := 0
def fixClosedHand : Nat := 0
def wrapClosedHand : Nat := 0

/-- `int_flux = peak_flux * sx * sy * CC2FHWM**2 * pi / beamarea_pix` with the beam area of a
    Gaussian beam of pixel FWHMs `pa × pb`: `pi * pa * pb` -/
def intFlux {α : Type} [R α] (peak sx sy cc pa pb : α) : α :=
  peak * sx * sy * (cc * cc) * R.pi / (R.pi * pa * pb)

/-! ## 3. Flags (flags.py) -/

def FITERRSMALL : Nat := 1
def FITERR : Nat := 2
def FIXED2PSF : Nat := 4
def FIXEDCIRCULAR : Nat := 8
def NOTFIT : Nat := 16
def WCSERR : Nat := 32
def PRIORIZED : Nat := 64

/-- `estimate_lmfit_parinfo`, the island-level flag from the number of finite pixels and the
    smaller side of the bounding box -/
def estimateIsFlag (nonNanPix minShape : Nat) : Nat :=
  let f := if 4 ≤ nonNanPix ∧ nonNanPix ≤ 6 then FIXED2PSF
           else if nonNanPix < 4 then FITERRSMALL else 0
  if minShape ≤ 2 ∨ (f &&& FITERRSMALL) ≠ 0 ∨ (f &&& FIXED2PSF) ≠ 0 then f ||| FIXED2PSF else f

/-- the per-summit flag: components beyond `max_summits` are NOTFIT and FIXED2PSF -/
def summitFlag (isFlag : Nat) (maxxed : Bool) : Nat :=
  if maxxed then (isFlag ||| NOTFIT) ||| FIXED2PSF else isFlag

/-- number of free parameters of a component: none when maxxed; amp, xo, yo when FIXED2PSF; else 6 -/
def freeVars1 (summit : Nat) (maxxed : Bool) : Nat :=
  if maxxed then 0 else if (summit &&& FIXED2PSF) ≠ 0 then 3 else 6

/-- `_fit_island`: the island flag after the fit decision.
    `enough` = `non_blank_pix ≥ free_vars ∧ free_vars ≠ 0`; `errorbars`, `success` from lmfit. -/
def fitIsFlag (enough errorbars success : Bool) : Nat :=
  if !enough then NOTFIT
  else (if !errorbars then FITERR else 0) ||| (if !success then FITERR else 0)

/-- `result_to_components`: `src_flags = is_flag | model flags`, then WCSERR if the sky parameters
    are not all finite.  (`errors()` may OR WCSERR into `source.flags`, but the caller overwrites
    it with `src_flags` afterwards, so the result is the same word.) -/
def componentFlags (isFlag modelFlag : Nat) (wcsFinite : Bool) : Nat :=
  let f := isFlag ||| modelFlag
  if wcsFinite then f else f ||| WCSERR

/-- blind mode, one component, end to end -/
def blindFlags (nonNanPix minShape : Nat) (maxxed enough errorbars success wcsFinite : Bool) : Nat :=
  componentFlags (fitIsFlag enough errorbars success)
    (summitFlag (estimateIsFlag nonNanPix minShape) maxxed) wcsFinite

/-- blind mode, one island with `ncomp` components, end to end (`_fit_island`): the components are
    in summit order; component `j` is "maxxed" when `max_summits` is given and `j ≥ max_summits`;
    the fit is attempted iff `free_vars ≠ 0 ∧ non_blank_pix ≥ free_vars`. -/
def blindIslandFlags (nonNanPix minShape : Nat) (maxSummits : Option Nat) (ncomp : Nat)
    (errorbars success : Bool) (wcs : List Bool) : List Nat :=
  let isf := estimateIsFlag nonNanPix minShape
  let maxxed := fun (j : Nat) => match maxSummits with
    | none => false
    | some m => decide (m ≤ j)
  let free := (List.range ncomp).foldl (fun acc j => acc + freeVars1 (summitFlag isf (maxxed j)) (maxxed j)) 0
  let enough := decide (free ≤ nonNanPix) && decide (free ≠ 0)
  (List.range ncomp).map (fun j =>
    blindFlags nonNanPix minShape (maxxed j) enough errorbars success (wcs.getD j true))

/-! hand fall-backs of the flag pieces regenerated from flags.py, `estimate_lmfit_parinfo`,
    `_fit_island`, `result_to_components`, `_refit_islands` and `fitting.errors` (same parameter
    lists as the regenerated definitions; used only when a slice cannot be taken) -/
def flagFITERRSMALLHand : Nat := FITERRSMALL
def flagFITERRHand : Nat := FITERR
def flagFIXED2PSFHand : Nat := FIXED2PSF
def flagFIXEDCIRCULARHand : Nat := FIXEDCIRCULAR
def flagNOTFITHand : Nat := NOTFIT
def flagWCSERRHand : Nat := WCSERR
def flagPRIORIZEDHand : Nat := PRIORIZED
def estimateIsFlagGHand (nonNanPix minShape fFIXED2PSF fFITERRSMALL : Nat) : Nat :=
  let f := if 4 ≤ nonNanPix ∧ nonNanPix ≤ 6 then 0 ||| fFIXED2PSF
           else if nonNanPix < 4 then 0 ||| fFITERRSMALL else 0
  if minShape ≤ 2 ∨ (f &&& fFITERRSMALL) ≠ 0 ∨ (f &&& fFIXED2PSF) ≠ 0 then f ||| fFIXED2PSF else f
def summitFlagGHand (isFlag i maxSummits fNOTFIT fFIXED2PSF : Nat) : Nat :=
  if i ≥ maxSummits then (isFlag ||| fNOTFIT) ||| fFIXED2PSF else isFlag
def fitIsFlagGHand (nonBlankPix freeVars errorbars success fNOTFIT fFITERR : Nat) : Nat :=
  if nonBlankPix < freeVars ∨ freeVars = 0 then 0 ||| fNOTFIT
  else
    let f := if errorbars = 0 then 0 ||| fFITERR else 0
    if success = 0 then f ||| fFITERR else f
def componentFlagsGHand (isFlag modelFlags wcsFinite fWCSERR : Nat) : Nat :=
  if wcsFinite = 0 then (isFlag ||| modelFlags) ||| fWCSERR else isFlag ||| modelFlags
def refitMarkGHand (rowFlags stage fPRIORIZED fFIXED2PSF : Nat) : Nat :=
  if stage < 2 then (rowFlags ||| fPRIORIZED) ||| fFIXED2PSF else rowFlags ||| fPRIORIZED
def errMaskGHand (fNOTFIT fFITERR : Nat) : Nat := fNOTFIT ||| fFITERR

/-- `_refit_islands`: the island flag is the input flag word of the last source of the group, the
    model flag is 0 or NOTFIT (no finite pixel near the component), then PRIORIZED, and FIXED2PSF
    when `stage < 2`. -/
def refitFlags (inputFlags : Nat) (notFit wcsFinite : Bool) (stage : Nat) : Nat :=
  let f := componentFlags inputFlags (if notFit then NOTFIT else 0) wcsFinite ||| PRIORIZED
  if stage < 2 then f ||| FIXED2PSF else f

/-! ## 4. Error masking (`fitting.errors`)

A value that reaches `errors()` is classified by what the code can ask of it: `np.isfinite`, `> 0`.
`pos`/`zero`/`neg` are finite; `none` is Python `None` (a `stderr` lmfit never set). -/

inductive XV | pos | zero | neg | nan | inf | none
  deriving DecidableEq, Repr

def XV.finite : XV → Bool
  | .pos | .zero | .neg => true
  | _ => false

/-- what the catalogue may hold: a positive finite number, or the mask −1 -/
inductive Out | val (x : XV) | masked
  deriving DecidableEq, Repr

def Out.valid : Out → Bool
  | .masked => true
  | .val .pos => true
  | _ => false

structure ErrIn where
  flags : Nat
  errAmp : XV
  errXo : XV
  errYo : XV
  errSx : XV
  errSy : XV
  errTheta : XV
  varyPos : Bool      -- xo.vary and yo.vary
  varyShape : Bool    -- sx.vary and sy.vary
  varyTheta : Bool
  refFinite : Bool    -- all(isfinite(pix2sky([xo, yo])))
  /- classes of the quantities the sky conversions return *when the branch is taken*
     (great-circle distances / bearing differences: third-party numerics, left abstract) -/
  convRa : XV
  convDec : XV
  convPa : XV
  convA : XV
  convB : XV
  /-- class of `abs(int_flux * sqrt(sqerr))` when `sqerr ≠ 0` -/
  convInt : XV

structure ErrOut where
  peak : Out
  ra : Out
  dec : Out
  pa : Out
  a : Out
  b : Out
  int : Out
  deriving DecidableEq, Repr

def allMasked : ErrOut := ⟨.masked, .masked, .masked, .masked, .masked, .masked, .masked⟩

def isPos : Out → Bool
  | .val .pos => true
  | _ => false

/-- `if source.flags & (NOTFIT | FITERR)` or the reference position is not finite: everything −1 -/
def early (i : ErrIn) : Bool := (i.flags &&& (NOTFIT ||| FITERR)) ≠ 0 || !i.refFinite
def posCond (i : ErrIn) : Bool := i.varyPos && i.errXo.finite && i.errYo.finite
def paCond (i : ErrIn) : Bool := i.varyTheta && i.errTheta.finite
def shapeCond (i : ErrIn) : Bool := i.varyShape && i.errSx.finite && i.errSy.finite

/-- `fitting.errors` as pinned: `err_peak_flux` copied unguarded, conversions not re-checked.
    `sqerr == 0` iff none of err_peak_flux, err_a, err_b is `> 0`. -/
def errorsPinned (i : ErrIn) : ErrOut :=
  if early i then allMasked
  else
    let peak := Out.val i.errAmp
    let ra := if posCond i then Out.val i.convRa else Out.masked
    let dec := if posCond i then Out.val i.convDec else Out.masked
    let pa := if paCond i then Out.val i.convPa else Out.masked
    let a := if shapeCond i then Out.val i.convA else Out.masked
    let b := if shapeCond i then Out.val i.convB else Out.masked
    let int := if isPos peak || isPos a || isPos b then Out.val i.convInt else Out.masked
    ⟨peak, ra, dec, pa, a, b, int⟩

/-- the repair: an uncertainty that is not a positive finite number is reported as −1 -/
def sanitise : Out → Out
  | .val .pos => .val .pos
  | _ => .masked

/-- `fitting.errors` as repaired: every uncertainty is sanitised before `err_int_flux` is formed
    (so the masked ones do not enter `sqerr`), and `err_int_flux` is sanitised too -/
def errorsFixed (i : ErrIn) : ErrOut :=
  if early i then allMasked
  else
    let peak := sanitise (Out.val i.errAmp)
    let ra := if posCond i then sanitise (Out.val i.convRa) else Out.masked
    let dec := if posCond i then sanitise (Out.val i.convDec) else Out.masked
    let pa := if paCond i then sanitise (Out.val i.convPa) else Out.masked
    let a := if shapeCond i then sanitise (Out.val i.convA) else Out.masked
    let b := if shapeCond i then sanitise (Out.val i.convB) else Out.masked
    let int := if isPos peak || isPos a || isPos b then sanitise (Out.val i.convInt) else Out.masked
    ⟨peak, ra, dec, pa, a, b, int⟩

def ErrOut.valid (o : ErrOut) : Bool :=
  o.peak.valid && o.ra.valid && o.dec.valid && o.pa.valid && o.a.valid && o.b.valid && o.int.valid

/-- priorized copy-back: `stage < 2` copies err_ra/err_dec, `stage < 3` copies err_a/err_b/err_pa
    from the input catalogue row, as they are (that these come back equal to the input is C05's
    clause; C03's "positive and finite or −1" speaks about FITTED quantities only) -/
def copyBack (stage : Nat) (fit inp : ErrOut) : ErrOut :=
  let o := if stage < 2 then { fit with ra := inp.ra, dec := inp.dec } else fit
  if stage < 3 then { o with a := inp.a, b := inp.b, pa := inp.pa } else o

/-- `sqerr` and `err_int_flux` of `fitting.errors`, numerically (run at `Float` by the driver):
    terms enter only when the corresponding error is `> 0`; the flag says whether sqerr ≠ 0 -/
def errIntFlux {α : Type} [R α] [LT α] [DecidableLT α]
    (intFlux peak errPeak a errA b errB : α) : Option α :=
  let z : α := R.ofNat 0
  let t1 := if z < errPeak then (errPeak / peak) * (errPeak / peak) else z
  let t2 := if z < errA then (errA / a) * (errA / a) else z
  let t3 := if z < errB then (errB / b) * (errB / b) else z
  if z < errPeak ∨ z < errA ∨ z < errB then some (R.abs (intFlux * R.sqrt (t1 + t2 + t3))) else none

/-! ## 5. Island summary (`result_to_components`, `doislandflux`)

The island is its bounding box `[xmin, xmax) × [ymin, ymax)` and the pixels of the box that pass
`abs(idata) - outerclip*rms > 0` (finite `kappa_sigma`), each with its value.  Values are integers
here: only their order matters to the summary. -/

structure Pix where
  x : Nat
  y : Nat
  v : Int
  deriving DecidableEq, Repr

structure Summary where
  components : Nat
  pixels : Nat
  peak : Option Int
  xWidth : Nat
  yWidth : Nat
  extent : Nat × Nat × Nat × Nat
  deriving DecidableEq, Repr

def maxOf : List Int → Option Int
  | [] => none
  | v :: vs => match maxOf vs with
    | none => some v
    | some m => some (if m < v then v else m)

def minOf : List Int → Option Int
  | [] => none
  | v :: vs => match minOf vs with
    | none => some v
    | some m => some (if v < m then v else m)

/-- `peak_flux = nanmax(kappa_sigma); if peak_flux < 0: peak_flux = nanmin(kappa_sigma)` -/
def peakOf (vs : List Int) : Option Int :=
  match maxOf vs with
  | none => none
  | some m => if m < 0 then minOf vs else some m

/-- `components = j + 1` (j the last component index), `pixels = #finite(kappa_sigma)`,
    `x_width, y_width = idata.shape`, `extent = [xmin, xmax, ymin, ymax]` -/
def islandSummary (ncomp : Nat) (xmin xmax ymin ymax : Nat) (pix : List Pix) : Summary :=
  { components := ncomp, pixels := pix.length, peak := peakOf (pix.map (·.v)),
    xWidth := xmax - xmin, yWidth := ymax - ymin, extent := (xmin, xmax, ymin, ymax) }

/-- the pixel the island row is positioned at: `np.where(kappa_sigma == peak_flux)`, first hit in
    row-major order (the order in which the detected pixels are listed) — for a negative island this
    is the most negative pixel, not the `nanargmax` -/
def peakPix (pix : List Pix) : Option Pix :=
  match peakOf (pix.map (·.v)) with
  | none => none
  | some pk => pix.find? (fun p => p.v = pk)

/-- the pixels lie inside the box (what `find_islands` guarantees: C02) -/
def inBox (xmin xmax ymin ymax : Nat) (p : Pix) : Bool :=
  xmin ≤ p.x && p.x < xmax && ymin ≤ p.y && p.y < ymax

/-- the tight bounding box of a non-empty pixel list: `[min x, max x + 1) × [min y, max y + 1)`
    (what `find_islands` hands over as `offsets`, and the island row reports as `extent`) -/
def tightBox : List Pix → Option (Nat × Nat × Nat × Nat)
  | [] => none
  | p :: ps => match tightBox ps with
    | none => some (p.x, p.x + 1, p.y, p.y + 1)
    | some (x0, x1, y0, y1) => some (min p.x x0, max (p.x + 1) x1, min p.y y0, max (p.y + 1) y1)

/-! ## 6. The catalogue as a function: uuids are the only non-functional output -/

structure Row where
  island : Nat
  source : Nat
  flags : Nat
  uuid : Nat
  deriving DecidableEq, Repr

/-- pop `n` fresh uuids from the stream `u` starting at position `k` -/
def blindCatalogue (u : Nat → Nat) (isles : List (Nat × Nat)) (flagOf : Nat → Nat → Nat) : List Row :=
  let rows := rowsOf isles
  (enumFrom 0 rows).map (fun kr => { island := kr.2.1, source := kr.2.2, flags := flagOf kr.2.1 kr.2.2, uuid := u kr.1 })

def eraseUuid (rows : List Row) : List (Nat × Nat × Nat) := rows.map (fun r => (r.island, r.source, r.flags))

/-! ### priorized fitting and the caller's catalogue objects

The caller's catalogue is a heap of source records (`List Src`, the index is the object).  `rz` is
`cluster.resize` on one record (deconvolve the catalogue psf, convolve the image psf: it changes a, b
but not psf_a, psf_b), `fit` turns the resized records into the output rows.  The pinned code
resized the caller's objects in place; the repaired code works on a copy. -/

structure Src where
  a : Nat
  b : Nat
  psf : Nat
  uuid : Nat
  deriving DecidableEq, Repr

/-- pinned `priorized_fit_islands`: returns (the caller's heap afterwards, the catalogue) -/
def runPinned {Out : Type} (rz : Src → Src) (fit : List Src → Out) (heap : List Src) : List Src × Out :=
  (heap.map rz, fit (heap.map rz))

/-- repaired: the heap is untouched, the catalogue is a function of the VALUES in it -/
def runFixed {Out : Type} (rz : Src → Src) (fit : List Src → Out) (heap : List Src) : List Src × Out :=
  (heap, fit (heap.map rz))

/-- everything a run can see.  There is no other argument: no previous run, no object identity, no
    cache.  (`pixels`, `header`, `options` stand for whatever the numbering / flags / masking models
    consume: component counts per island, island sizes, lmfit outcomes, stderr classes …) -/
structure RunInput (P H O : Type) where
  pixels : P
  header : H
  options : O
  catalogue : List Src

end Aegean.Model.C03
