/-
  C16 — pixel <-> sky conversion of positions, vectors and ellipses (`AegeanTools/wcs_helpers.py`,
  class `WCSHelper`), over an ABSTRACT world coordinate system `Wcs`, plus an executable zenithal WCS
  (SIN TAN ZEA ARC STG; CRVAL / CRPIX / CD-matrix linear part, which covers CDELT, PC+CDELT and
  CROTA2; LONPOLE = 180 deg) written from FITS Paper II
  (Calabretta & Greisen 2002), which is independent of astropy/wcslib.

  The arithmetic leaves (`Gen.C16.*`) are regenerated from the Python source by the translator on every
  run; what is hand-written here is the plumbing between them, exactly as coded:
    * which pixel coordinate goes to which WCS axis (the x/y swap) and with which origin,
    * which sky point is translated by what and which pixel points are handed to the leaves,
    * the tuple-valued offset point `(x + r cos θ°, y + r sin θ°)` (Aegean.Model.C16Hand.offX/offY).
  The same definitions run at `Float` in the driver (correspondence with the real `WCSHelper`, with
  `W :=` the Lean zenithal WCS) and are reasoned about at `ℝ` (Aegean/Proofs/C16*.lean).

  Mathlib-free.
-/
import Aegean.Num
import Aegean.Model.C16Hand
import Aegean.Generated.C16

namespace Aegean.Model.C16
open Gen.C16
open Aegean.Model.C16Hand (offX offY)

/-! ### The abstract WCS and astropy's `origin` argument -/

/-- A 2-D world coordinate system in the FITS convention: `p2w p1 p2` is the sky position (ra, dec in
    degrees) of the point with FITS pixel coordinates `p1` along axis 1 (NAXIS1, the fastest-varying
    index: the numpy COLUMN) and `p2` along axis 2 (the numpy ROW), both 1-based: the centre of the
    first pixel is (1, 1).  This is what wcslib computes; `w2p` is its inverse. -/
structure Wcs (α : Type) where
  p2w : α → α → α × α
  w2p : α → α → α × α

variable {α : Type} [R α]

/-- astropy `wcs.all_pix2world([[a, b]], origin)[0]` (no distortion terms): astropy converts the
    caller's `origin`-based coordinates to the 1-based FITS ones before calling wcslib. -/
def allPix2World (W : Wcs α) (a b origin : α) : α × α :=
  W.p2w (a + (R.ofNat 1 - origin)) (b + (R.ofNat 1 - origin))

/-- astropy `wcs.all_world2pix([[ra, dec]], origin)[0]` -/
def allWorld2Pix (W : Wcs α) (ra dec origin : α) : α × α :=
  let p := W.w2p ra dec
  (p.1 - (R.ofNat 1 - origin), p.2 - (R.ofNat 1 - origin))

/-- `WCSHelper.pix2sky((x, y))`:  `self.wcs.all_pix2world([[y, x]], 1)[0]` — which coordinate goes first and the
    origin are REGENERATED from the source (`Gen.C16.pix2skyP1/P2/Origin`); this is the glue -/
def pix2sky (W : Wcs α) (x y : α) : α × α := allPix2World W (pix2skyP1 x y) (pix2skyP2 x y) pix2skyOrigin

/-- `WCSHelper.sky2pix((ra, dec))`:  `pixel = self.wcs.all_world2pix([pos], 1); [pixel[0][1], pixel[0][0]]` -/
def sky2pix (W : Wcs α) (ra dec : α) : α × α :=
  let p := allWorld2Pix W ra dec sky2pixOrigin
  (sky2pixX p.1 p.2, sky2pixY p.1 p.2)

/-! ### Vectors and ellipses -/

structure PixVec (α : Type) where
  x : α
  y : α
  r : α
  theta : α

structure SkyVec (α : Type) where
  ra : α
  dec : α
  r : α
  pa : α

structure PixEll (α : Type) where
  x : α
  y : α
  sx : α
  sy : α
  theta : α

structure SkyEll (α : Type) where
  ra : α
  dec : α
  a : α
  b : α
  pa : α

/-- `WCSHelper.sky2pix_vec(pos, r, pa)` -/
def sky2pixVec (W : Wcs α) (ra dec r pa : α) : PixVec α :=
  let c := sky2pix W ra dec
  let o := sky2pix W (translateRa ra dec r pa) (translateDec ra dec r pa)
  ⟨s2pVecX c.1, s2pVecY c.2, s2pVecLen c.1 c.2 o.1 o.2, s2pVecAng c.1 c.2 o.1 o.2⟩

/-- `WCSHelper.pix2sky_vec(pixel, r, theta)` -/
def pix2skyVec (W : Wcs α) (x y r theta : α) : SkyVec α :=
  let s := pix2sky W x y
  let e := pix2sky W (p2sVecOffX x y r theta) (p2sVecOffY x y r theta)
  ⟨p2sVecRa s.1, p2sVecDec s.2, p2sVecLen s.1 s.2 e.1 e.2, p2sVecPa s.1 s.2 e.1 e.2⟩

/-- `WCSHelper.sky2pix_ellipse(pos, a, b, pa)` -/
def sky2pixEllipse (W : Wcs α) (ra dec a b pa : α) : PixEll α :=
  let c := sky2pix W ra dec
  let o1 := sky2pix W (translateRa ra dec a pa) (translateDec ra dec a pa)
  let o2 := sky2pix W (translateRa ra dec b (pa - R.ofNat 90)) (translateDec ra dec b (pa - R.ofNat 90))
  ⟨s2pEllX c.1, s2pEllY c.2, s2pEllSx c.1 c.2 o1.1 o1.2,
   s2pEllSy R.pi c.1 c.2 o1.1 o1.2 o2.1 o2.2, s2pEllAng c.1 c.2 o1.1 o1.2⟩

/-- `WCSHelper.pix2sky_ellipse(pixel, sx, sy, theta)` -/
def pix2skyEllipse (W : Wcs α) (x y sx sy theta : α) : SkyEll α :=
  let s := pix2sky W x y
  let e1 := pix2sky W (p2sEllOff1X x y sx sy theta) (p2sEllOff1Y x y sx sy theta)
  let e2 := pix2sky W (p2sEllOff2X x y sx sy theta) (p2sEllOff2Y x y sx sy theta)
  ⟨p2sEllRa s.1, p2sEllDec s.2, p2sEllMajor s.1 s.2 e1.1 e1.2,
   p2sEllMinor s.1 s.2 e1.1 e1.2 e2.1 e2.2, p2sEllPa s.1 s.2 e1.1 e1.2⟩

/-! ### psf lookups without a psf map (`psf_file is None`) -/

/-- `WCSHelper.__init__`: the beam (a, b, pa; degrees) converted to pixel coordinates at the reference
    pixel, `refpix = (CRPIX1, CRPIX2)`:
    `ra, dec = self.pix2sky([refpix[1], refpix[0]]); self.sky2pix_ellipse([ra, dec], a, b, pa)` -/
def psfInit (W : Wcs α) (crpix1 crpix2 a b pa : α) : PixEll α :=
  let s := pix2sky W crpix2 crpix1
  sky2pixEllipse W s.1 s.2 a b pa

/-- `get_psf_sky2pix(ra, dec)` and `get_psf_pix2pix(x, y)`: the precomputed pixel psf, anywhere -/
def psfSky2Pix (P : PixEll α) (_ra _dec : α) : α × α × α := (P.sx, P.sy, P.theta)

/-- `get_psf_sky2sky(ra, dec)`: the pixel psf of the reference pixel carried to (ra, dec) -/
def psfSky2Sky (W : Wcs α) (P : PixEll α) (ra dec : α) : α × α × α :=
  let p := sky2pix W ra dec
  let e := pix2skyEllipse W p.1 p.2 P.sx P.sy P.theta
  (e.a, e.b, e.pa)

/-! ### psf lookups WITH a psf map (`psf_file` given)

The map is an oracle: `M.val ra dec` is the `(a, b, pa)` (degrees) that `get_psf_sky2sky(ra, dec)` reads,
i.e. `psf_map[:3, int(clip(row)), int(clip(col))]` with `(row, col)` the psf-WCS pixel of `(ra, dec)`.
How the cell is chosen is the map's business (the harness recomputes it independently); what the model
fixes is that every lookup is `read the map at the position, then convert AT THAT position`.

The real helper is an object with state (the psf image and its WCS are loaded on first use and kept),
so the lookups are modelled as a state machine `PsfHelper` and as HISTORIES of queries. -/

structure PsfMap (α : Type) where
  val : α → α → α × α × α

/-- `get_psf_sky2sky(ra, dec)` with a psf map -/
def psfMapSky2Sky (M : PsfMap α) (ra dec : α) : α × α × α := M.val ra dec

/-- the conversion step alone: the sky ellipse `v` converted to pixel coordinates AT `(ra, dec)` -/
def psfConvertAt (W : Wcs α) (ra dec : α) (v : α × α × α) : α × α × α :=
  let e := sky2pixEllipse W ra dec v.1 v.2.1 v.2.2
  (e.sx, e.sy, e.theta)

/-- `get_psf_sky2pix(ra, dec)` with a psf map:
    `psf_sky = self.get_psf_sky2sky(ra, dec); self.sky2pix_ellipse((ra, dec), *psf_sky)[2:]` -/
def psfMapSky2Pix (W : Wcs α) (M : PsfMap α) (ra dec : α) : α × α × α :=
  psfConvertAt W ra dec (psfMapSky2Sky M ra dec)

/-- `get_psf_pix2pix(x, y)` with a psf map: `ra, dec = self.pix2sky((x, y)); self.get_psf_sky2pix(ra, dec)` -/
def psfMapPix2Pix (W : Wcs α) (M : PsfMap α) (x y : α) : α × α × α :=
  let s := pix2sky W x y
  psfMapSky2Pix W M s.1 s.2

/-- `get_beamarea_pix(ra, dec)`: `a * b * np.pi` of `get_psf_sky2pix` -/
def beamAreaPix (W : Wcs α) (M : PsfMap α) (ra dec : α) : α :=
  let p := psfMapSky2Pix W M ra dec
  p.1 * p.2.1 * R.pi

/-- `get_beamarea_deg2(ra, dec)` -/
def beamAreaDeg2 (M : PsfMap α) (ra dec : α) : α :=
  let p := psfMapSky2Sky M ra dec
  p.1 * p.2.1 * R.pi

/-- one lookup on a helper -/
inductive PsfQuery (α : Type)
  | sky2sky (ra dec : α)
  | sky2pix (ra dec : α)
  | pix2pix (x y : α)
  | skybeam (ra dec : α)
  | areaPix (ra dec : α)
  | areaDeg2 (ra dec : α)

/-- what a lookup returns: three numbers (areas are padded with the two factors for comparison) -/
def answer (W : Wcs α) (M : PsfMap α) : PsfQuery α → α × α × α
  | .sky2sky ra dec => psfMapSky2Sky M ra dec
  | .sky2pix ra dec => psfMapSky2Pix W M ra dec
  | .pix2pix x y => psfMapPix2Pix W M x y
  | .skybeam ra dec => psfMapSky2Sky M ra dec
  | .areaPix ra dec => let p := psfMapSky2Pix W M ra dec; (beamAreaPix W M ra dec, p.1, p.2.1)
  | .areaDeg2 ra dec => let p := psfMapSky2Sky M ra dec; (beamAreaDeg2 M ra dec, p.1, p.2.1)

/-- the helper object's mutable state: whether the psf image / psf WCS have been loaded yet
    (`_psf_map`, `_psf_wcs`: `None` until first use, then kept).  Nothing else is kept between lookups. -/
structure PsfHelper (α : Type) where
  file : PsfMap α
  loaded : Option (PsfMap α)

def PsfHelper.fresh (M : PsfMap α) : PsfHelper α := ⟨M, none⟩

/-- the `psf_map` / `psf_wcs` properties: load on demand, keep -/
def PsfHelper.load (h : PsfHelper α) : PsfMap α × PsfHelper α :=
  match h.loaded with
  | some m => (m, h)
  | none => (h.file, { h with loaded := some h.file })

/-- one lookup: answer and next state -/
def PsfHelper.step (W : Wcs α) (h : PsfHelper α) (q : PsfQuery α) : (α × α × α) × PsfHelper α :=
  let (m, h') := h.load
  (answer W m q, h')

/-- a history of lookups on one helper object: all the answers, in order -/
def PsfHelper.run (W : Wcs α) (h : PsfHelper α) : List (PsfQuery α) → List (α × α × α)
  | [] => []
  | q :: qs => let (a, h') := h.step W q; a :: PsfHelper.run W h' qs

/-! ### An executable zenithal WCS, from FITS Paper II

Pixel → intermediate world coordinates (Paper I eq. 9 with a diagonal CDELT matrix), → native spherical
coordinates (φ, θ) by the zenithal equations (Paper II eqs. 14, 15 and the per-projection `R_θ`), →
celestial coordinates by the spherical rotation with the reference point at the native pole
(θ₀ = 90°, so (α_p, δ_p) = CRVAL) and φ_p = LONPOLE = 180° (Paper II eq. 2).  The inverse is eq. 5,
then `R_θ`, then eqs. 12, 13.

Radii are handled as functions of the native CO-latitude `ζ = 90° − θ` (in radians):
    TAN  R = tan ζ        (Paper II eq. 54:  R_θ = (180/π) cot θ)
    SIN  R = sin ζ        (eq. 59 with ξ = η = 0:  (180/π) cos θ)
    ARC  R = ζ            (eq. 67:  90° − θ)
    STG  R = 2 tan (ζ/2)  (eq. 57:  (360/π) tan((90° − θ)/2))
    ZEA  R = 2 sin (ζ/2)  (eq. 69:  (360/π) sin((90° − θ)/2))
and the declination is taken as `atan2(sin δ, √(cos²δ cos²Δα + cos²δ sin²Δα))` rather than `asin(sin δ)`
(the same angle; well conditioned near the reference point and the poles, as wcslib also does). -/

inductive Proj | SIN | TAN | ZEA | ARC | STG
  deriving DecidableEq, Repr

/-- header of a zenithal image.  The linear part is the matrix `CD = [[cd11, cd12], [cd21, cd22]]`
    (degrees per pixel) of FITS Paper I eq. 9 / Paper II §6.2: `CDi_j` cards directly, or
    `CDELTi · PCi_j`, or, for the old `CROTA2 = ρ` convention,
    `[[CDELT1 cos ρ, −CDELT2 sin ρ], [CDELT1 sin ρ, CDELT2 cos ρ]]`; plain CDELT is the diagonal case.
    (The harness computes the four numbers from the header cards itself.) -/
structure ZenHdr (α : Type) where
  proj : Proj
  crval1 : α
  crval2 : α
  crpix1 : α
  crpix2 : α
  cd11 : α
  cd12 : α
  cd21 : α
  cd22 : α

/-- pixel → intermediate world coordinates (degrees): `CD · (p − CRPIX)` -/
def linFwd (h : ZenHdr α) (p1 p2 : α) : α × α :=
  (h.cd11 * (p1 - h.crpix1) + h.cd12 * (p2 - h.crpix2),
   h.cd21 * (p1 - h.crpix1) + h.cd22 * (p2 - h.crpix2))

/-- intermediate world coordinates → pixel: `CD⁻¹ · (x, y) + CRPIX` (adjugate over determinant) -/
def linInv (h : ZenHdr α) (x y : α) : α × α :=
  let det := h.cd11 * h.cd22 - h.cd12 * h.cd21
  ((h.cd22 * x - h.cd12 * y) / det + h.crpix1, (h.cd11 * y - h.cd21 * x) / det + h.crpix2)

/-- native radius (radians) of co-latitude `z` (radians) -/
def radial (p : Proj) (z : α) : α :=
  match p with
  | .TAN => R.sin z / R.cos z
  | .SIN => R.sin z
  | .ARC => z
  | .STG => R.ofNat 2 * (R.sin (z / R.ofNat 2) / R.cos (z / R.ofNat 2))
  | .ZEA => R.ofNat 2 * R.sin (z / R.ofNat 2)

/-- co-latitude (radians) of native radius `r` (radians); `atan t` is `atan2 t 1` -/
def radialInv (p : Proj) (r : α) : α :=
  match p with
  | .TAN => R.atan2 r (R.ofNat 1)
  | .SIN => R.asin r
  | .ARC => r
  | .STG => R.ofNat 2 * R.atan2 (r / R.ofNat 2) (R.ofNat 1)
  | .ZEA => R.ofNat 2 * R.asin (r / R.ofNat 2)

/-! The two directions are compositions of four invertible steps, each with its mirror image:
      pixel  ⇄  intermediate (x, y)      `linFwd` / `linInv`            (the CD matrix)
      (x, y) ⇄  native unit vector       `xyToNative` / `nativeToXY`    (zenithal equations, `radial`)
      native ⇄  celestial unit vector    `rotA` both ways               (Paper II eqs. 2 and 5 with φ_p = 180°:
                                                                          the rotation is its own inverse)
      vector ⇄  (ra, dec)                `vecToSky` / `skyToVec` -/

/-- intermediate world coordinates `(x, y)` (radians) → native unit vector
    `(cos θ cos(φ−φ_p), cos θ sin(φ−φ_p), sin θ)`, with `φ = arg(−y, x)` (Paper II eq. 14), `φ_p = π`,
    `θ = π/2 − z`, `z = radialInv R_θ` -/
def xyToNative (p : Proj) (x y : α) : α × α × α :=
  let r := R.hypot x y
  let phi := R.atan2 x (-y)
  let z := radialInv p r
  let dphi := phi - R.pi
  (R.sin z * R.cos dphi, R.sin z * R.sin dphi, R.cos z)

/-- native unit vector → `(x, y)` (radians): `x = R_θ sin φ`, `y = −R_θ cos φ` (Paper II eqs. 12, 13) -/
def nativeToXY (p : Proj) (n : α × α × α) : α × α :=
  let phi := R.pi + R.atan2 n.2.1 n.1
  let z := R.atan2 (R.hypot n.1 n.2.1) n.2.2
  let r := radial p z
  (r * R.sin phi, -(r * R.cos phi))

/-- the spherical rotation between native and celestial unit vectors for a zenithal projection with
    `φ_p = 180°` and the pole of the native system at declination `δ_p` (`sdp, cdp = sin δ_p, cos δ_p`):
        (a, b, c) ↦ (cos δ_p · c − sin δ_p · a,  −b,  sin δ_p · c + cos δ_p · a).
    Written on `(cos θ cos Δφ, cos θ sin Δφ, sin θ)` this is Paper II eq. 2, on
    `(cos δ cos Δα, cos δ sin Δα, sin δ)` it is eq. 5: the SAME orthogonal, symmetric matrix both ways. -/
def rotA (sdp cdp : α) (v : α × α × α) : α × α × α :=
  (cdp * v.2.2 - sdp * v.1, -v.2.1, sdp * v.2.2 + cdp * v.1)

/-- celestial unit vector (relative to the meridian `crval1`) → (ra, dec) in degrees -/
def vecToSky (crval1 : α) (c : α × α × α) : α × α :=
  (crval1 + R.degrees (R.atan2 c.2.1 c.1), R.degrees (R.atan2 c.2.2 (R.hypot c.1 c.2.1)))

/-- (ra, dec) in degrees → celestial unit vector relative to the meridian `crval1` -/
def skyToVec (crval1 ra dec : α) : α × α × α :=
  let da := R.radians (ra - crval1)
  let d := R.radians dec
  (R.cos d * R.cos da, R.cos d * R.sin da, R.sin d)

/-- FITS pixel (p1, p2), 1-based → (ra, dec) in degrees; ra is NOT reduced to [0, 360) -/
def zenP2W (h : ZenHdr α) (p1 p2 : α) : α × α :=
  let xy := linFwd h p1 p2
  vecToSky h.crval1
    (rotA (R.sin (R.radians h.crval2)) (R.cos (R.radians h.crval2))
      (xyToNative h.proj (R.radians xy.1) (R.radians xy.2)))

/-- (ra, dec) in degrees → FITS pixel (p1, p2), 1-based -/
def zenW2P (h : ZenHdr α) (ra dec : α) : α × α :=
  let xy := nativeToXY h.proj
    (rotA (R.sin (R.radians h.crval2)) (R.cos (R.radians h.crval2)) (skyToVec h.crval1 ra dec))
  linInv h (R.degrees xy.1) (R.degrees xy.2)

/-- native co-latitude (radians) of the sky point (ra, dec): its angular distance from the reference point -/
def zenColat (h : ZenHdr α) (ra dec : α) : α :=
  let n := rotA (R.sin (R.radians h.crval2)) (R.cos (R.radians h.crval2)) (skyToVec h.crval1 ra dec)
  R.atan2 (R.hypot n.1 n.2.1) n.2.2

def zenWcs (h : ZenHdr α) : Wcs α := ⟨zenP2W h, zenW2P h⟩

end Aegean.Model.C16
