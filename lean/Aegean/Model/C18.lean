/-
  C18 — hand model of the catalogue writers/readers of `AegeanTools/catalogs.py` and of
  `models.classify_catalog` (everything that is *logic*; the serialisers are astropy's and are
  tied by the correspondence harness `harness/corr_C18.py`).

  * `classify`            models.classify_catalog            (the isinstance chain, as a fold)
  * `splitext`, `newName` os.path.splitext + "{1}{0}{2}".format(suffix, *splitext(filename))
  * `dispatch`            save_catalog: extension -> writer / astropy format
  * `colName`, `mkTable`  write_catalog.writer: columns from the `names` list, prefix, galactic
  * `unify`               the dtype unification astropy's Table() applies to a list of Python values
  * `columnFmt`           writeFITSTable: FITS column format decision (REPAIRED: string width = max
                          over the column); `columnFmtPinned` is the pinned decision (width of the
                          first row, `uuid` special-cased by exact name), kept for the negation witness
  * `fitsStore`           what a FITS binary-table cell of a given format holds / gives back
  * `maskOnRead`          astropy masks NaN / empty cells when it reads a table
  * `toSources`           catalogs.table_to_source_list (REPAIRED: a masked cell keeps the class
                          default); `toSourcesPinned` copies the masked constant
  * `dbTables`            catalogs.writeDB: table names, column types from the first row, rows

  Strings are `List Char` (ASCII in practice).  Floats are an abstract type `α` with the two
  operations the code path uses (`FloatOps`): cast of an int, rounding to single precision.
  NaN is a separate constructor so that equality of cells is meaningful.  Mathlib-free; executable.
-/
import Aegean.Py

namespace Aegean.Model.C18

abbrev Str := List Char

/-! ### classes and classify_catalog -/

/-- the Python classes that can occur in a catalogue (`other` = anything else: silently ignored) -/
inductive Cls | component | island | simple | other
  deriving DecidableEq, Repr

/-- `isinstance(obj_of_class c, d)`: ComponentSource and IslandSource derive from SimpleSource -/
def Cls.isInstance : Cls → Cls → Bool
  | .component, .component => true
  | .component, .simple => true
  | .island, .island => true
  | .island, .simple => true
  | .simple, .simple => true
  | _, _ => false

/-- a cell / attribute value as Python sees it -/
inductive Val (α : Type)
  | int (i : Int)
  | flt (x : α)        -- a float that is not NaN
  | nan
  | str (s : Str)
  | bool (b : Bool)
  | none               -- `getattr(c, name, None)` of a missing attribute
  | masked             -- `numpy.ma.masked` (only ever produced by reading a table)
  deriving Repr, DecidableEq

structure Src (α : Type) where
  cls : Cls
  attrs : List (Str × Val α)
  deriving Repr, DecidableEq

variable {α : Type}

/-- `getattr(src, name, None)` -/
def Src.get (s : Src α) (n : Str) : Val α := (s.attrs.lookup n).getD .none
/-- `setattr(src, name, v)` -/
def Src.set (s : Src α) (n : Str) (v : Val α) : Src α := { s with attrs := (n, v) :: s.attrs }

/-- one iteration of the loop in `classify_catalog` -/
def classifyStep (acc : List (Src α) × List (Src α) × List (Src α)) (s : Src α) :
    List (Src α) × List (Src α) × List (Src α) :=
  if s.cls.isInstance .component then (acc.1 ++ [s], acc.2.1, acc.2.2)
  else if s.cls.isInstance .island then (acc.1, acc.2.1 ++ [s], acc.2.2)
  else if s.cls.isInstance .simple then (acc.1, acc.2.1, acc.2.2 ++ [s])
  else acc

/-- `classify_catalog(catalog)` = (components, islands, simples) -/
def classify (cat : List (Src α)) : List (Src α) × List (Src α) × List (Src α) :=
  cat.foldl classifyStep ([], [], [])

/-- NOT the code: `classify_catalog` written as three passes (three comprehensions) over a ONE-SHOT
    iterable (generator, `iter(list)`, `itertools.chain`, `filter`): the first pass uses the iterator
    up, the other two see nothing.  `classify` above consumes the sequence exactly once (one fold), so
    it is the same function of the sequence of sources whatever container delivers it.  Kept for the
    negation witness. -/
def classifyThreePassOneShot (cat : List (Src α)) : List (Src α) × List (Src α) × List (Src α) :=
  let exhausted : List (Src α) := []
  (cat.filter (fun s => s.cls.isInstance .component),
   exhausted.filter (fun s => s.cls.isInstance .island),
   exhausted.filter (fun s => s.cls.isInstance .simple && !s.cls.isInstance .component && !s.cls.isInstance .island))

/-! ### file names -/

/-- index of the last occurrence of `c` -/
def rfind (c : Char) : Str → Option Nat
  | [] => none
  | x :: xs => match rfind c xs with
    | some i => some (i + 1)
    | none => if x = c then some 0 else none

/-- `os.path.splitext` (posix: sep '/', extsep '.', leading dots of the last component are not an extension) -/
def splitext (p : Str) : Str × Str :=
  match rfind '.' p with
  | none => (p, [])
  | some d =>
    let start : Nat := match rfind '/' p with | some i => i + 1 | none => 0
    if start ≤ d ∧ ((p.drop start).take (d - start)).any (fun c => c != '.') then (p.take d, p.drop d)
    else (p, [])

inductive Kind | comp | isle | simp
  deriving DecidableEq, Repr

def Kind.suffix : Kind → Str
  | .comp => "_comp".toList
  | .isle => "_isle".toList
  | .simp => "_simp".toList

/-- `"{1}{0}{2}".format(suffix, *os.path.splitext(filename))` -/
def newName (k : Kind) (filename : Str) : Str :=
  (splitext filename).1 ++ k.suffix ++ (splitext filename).2

/-- ASCII `str.lower()` -/
def lower (s : Str) : Str := s.map Char.toLower

/-- `os.path.splitext(filename)[1][1:].lower()` -/
def extension (filename : Str) : Str := lower ((splitext filename).2.drop 1)

inductive Writer
  | ann (fmt : Str)          -- writeAnn (kvis / ds9)
  | db                       -- writeDB
  | table (fmt : Str)        -- write_catalog with this `fmt`
  deriving DecidableEq, Repr

/-- the dispatch of `save_catalog` on the lower-cased extension -/
def dispatch (ext : Str) : Writer :=
  if ext = "ann".toList ∨ ext = "reg".toList then .ann ext
  else if ext = "db".toList ∨ ext = "sqlite".toList then .db
  else if ext = "hdf5".toList ∨ ext = "fits".toList ∨ ext = "vo".toList ∨ ext = "vot".toList ∨ ext = "xml".toList
    then .table ext
  else if ext = "csv".toList then .table "csv".toList
  else if ext = "tab".toList then .table "tab".toList
  else if ext = "tex".toList then .table "latex".toList
  else if ext = "html".toList then .table "html".toList
  else .table "tab".toList

/-! ### the `names` lists (models.py) -/

def namesSimple : List Str := ["background", "local_rms", "ra", "dec", "peak_flux", "err_peak_flux", "flags",
  "peak_pixel", "a", "b", "pa", "uuid"].map String.toList

def namesIsland : List Str := ["island", "components", "background", "local_rms", "ra_str", "dec_str", "ra", "dec",
  "peak_flux", "int_flux", "err_int_flux", "eta", "x_width", "y_width", "max_angular_size", "pa", "pixels", "area",
  "beam_area", "flags", "uuid"].map String.toList

def namesComponent : List Str := ["island", "source", "background", "local_rms", "ra_str", "dec_str", "ra", "err_ra",
  "dec", "err_dec", "peak_flux", "err_peak_flux", "int_flux", "err_int_flux", "a", "err_a", "b", "err_b", "pa",
  "err_pa", "flags", "residual_mean", "residual_std", "uuid", "psf_a", "psf_b", "psf_pa"].map String.toList

def namesOf : Kind → List Str
  | .comp => namesComponent
  | .isle => namesIsland
  | .simp => namesSimple

/-! ### table construction (`write_catalog.writer`) -/

/-- the galactic renaming of a column -/
def galName (name : Str) : Str :=
  if "ra".toList.isPrefixOf name then "lon".toList ++ name.drop 2
  else if "ra".toList.isSuffixOf name then name.take (name.length - 2) ++ "lon".toList
  else if "dec".toList.isPrefixOf name then "lat".toList ++ name.drop 3
  else if "dec".toList.isSuffixOf name then name.take (name.length - 3) ++ "lat".toList
  else name

/-- `pre`: '' when prefix is None, else prefix + '_' -/
def preOf : Option Str → Str
  | none => []
  | some p => p ++ ['_']

def colName (pre : Str) (galactic : Bool) (name : Str) : Str :=
  pre ++ (if galactic then galName name else name)

structure Table (α : Type) where
  cols : List (Str × List (Val α))
  deriving Repr, DecidableEq

def Table.colnames (t : Table α) : List Str := t.cols.map Prod.fst
def Table.nrows (t : Table α) : Nat := match t.cols with | [] => 0 | c :: _ => c.2.length
/-- row `i` of the table -/
def Table.row (t : Table α) (i : Nat) : List (Val α) := t.cols.map (fun c => c.2.getD i .none)
def Table.col? (t : Table α) (n : Str) : Option (List (Val α)) := t.cols.lookup n

/-- the table `writer` builds: one column per entry of `names`, in that order, named by `colName`,
    holding `getattr(c, name, None)` for every source in order -/
def mkTable (pre : Str) (galactic : Bool) (names : List Str) (srcs : List (Src α)) : Table α :=
  ⟨names.map (fun n => (colName pre galactic n, srcs.map (fun s => s.get n)))⟩

/-- one output of `write_catalog` -/
structure FileOut (α : Type) where
  name : Str
  kind : Kind
  table : Table α

/-- `write_catalog`: classify, then one file per non-empty type in the order comp, isle, simp -/
def writeCatalog (filename : Str) (pre : Str) (galactic : Bool) (cat : List (Src α)) : List (FileOut α) :=
  let c := classify cat
  (if c.1.isEmpty then [] else [⟨newName .comp filename, .comp, mkTable pre galactic (namesOf .comp) c.1⟩]) ++
  (if c.2.1.isEmpty then [] else [⟨newName .isle filename, .isle, mkTable pre galactic (namesOf .isle) c.2.1⟩]) ++
  (if c.2.2.isEmpty then [] else [⟨newName .simp filename, .simp, mkTable pre galactic (namesOf .simp) c.2.2⟩])

/-! ### FITS column typing (`writeFITSTable`) -/

structure FloatOps (α : Type) where
  ofInt : Int → α
  /-- rounding to IEEE single precision (and back to double) -/
  single : α → α

def Val.isNum : Val α → Bool
  | .int _ | .flt _ | .nan => true
  | _ => false
def Val.isFloat : Val α → Bool
  | .flt _ | .nan => true
  | _ => false
def Val.isStr : Val α → Bool
  | .str _ => true
  | _ => false
def Val.strLen : Val α → Nat
  | .str s => s.length
  | _ => 0

/-- numpy's cast of a Python int into a float64 column -/
def castInt (ops : FloatOps α) : Val α → Val α
  | .int i => .flt (ops.ofInt i)
  | v => v

/-- what `Table({...})` does to a column of Python ints and floats: one float makes the column
    float64 (ints are cast); all-int stays int64; other columns are left as they are -/
def unify (ops : FloatOps α) (col : List (Val α)) : List (Val α) :=
  if col.all Val.isNum && col.any Val.isFloat then col.map (castInt ops) else col

inductive Fmt | L | J | E | A (w : Nat)
  deriving DecidableEq, Repr

/-- `FITSTableType(val)` -/
def fitsType : Val α → Fmt
  | .bool _ => .L
  | .int _ => .J
  | .flt _ => .E
  | .nan => .E
  | .str s => .A s.length
  | _ => .A 5

def maxLen (col : List (Val α)) : Nat := col.foldl (fun m v => max m v.strLen) 0

def isStrCol (col : List (Val α)) : Bool := !col.isEmpty && col.all Val.isStr

def errPrefix : Str := "err_".toList
def uuidName : Str := "uuid".toList

/-- REPAIRED decision: `err_*` → E; string column → `A` as wide as the longest entry of any row (≥ 1);
    otherwise the type letter of the first row (columns are already dtype-unified) -/
def columnFmt (name : Str) (col : List (Val α)) : Fmt :=
  if errPrefix.isPrefixOf name then .E
  else if isStrCol col then .A (max 1 (maxLen col))
  else fitsType (col.head?.getD .none)

/-- PINNED decision: only the column called exactly `uuid` gets the max width; every other string
    column takes the width of its first row -/
def columnFmtPinned (name : Str) (col : List (Val α)) : Fmt :=
  if errPrefix.isPrefixOf name then .E
  else if name = uuidName then .A (maxLen col)
  else fitsType (col.head?.getD .none)

def rstrip (s : Str) : Str := (s.reverse.dropWhile (fun c => c == ' ')).reverse

/-- two's-complement wrap to 32 bits (what a `J` column can hold) -/
def wrap32 (i : Int) : Int := (i + 2147483648) % 4294967296 - 2147483648

/-- what a cell of format `f` gives back for value `v` (none: the writer raises / cannot occur) -/
def fitsStore (ops : FloatOps α) : Fmt → Val α → Option (Val α)
  | .A w, .str s =>
    if w = 0 then Option.none                           -- astropy refuses a zero-width view of wider data
    else some (.str (rstrip (s.take w)))                -- fixed width: truncated; trailing blanks not significant
  | .E, .flt x => some (.flt (ops.single x))
  | .E, .nan => some .nan
  | .E, .int i => some (.flt (ops.single (ops.ofInt i)))
  | .J, .int i => some (.int (wrap32 i))
  | .L, .bool b => some (.bool b)
  | _, _ => Option.none

/-- the FITS file written for a table: per column (name, format, stored cells); none if the writer raises -/
def fitsWrite (ops : FloatOps α) (decide : Str → List (Val α) → Fmt) (t : Table α) :
    Option (List (Str × Fmt × List (Val α))) :=
  t.cols.mapM (fun c =>
    let col := unify ops c.2
    let f := decide c.1 col
    (col.mapM (fitsStore ops f)).map (fun cells => (c.1, f, cells)))

/-! ### reading back -/

/-- astropy's readers mask missing cells: NaN floats (fits, votable) and empty strings (fits, ascii) -/
def maskOnRead (maskNaN maskEmpty : Bool) : Val α → Val α
  | .nan => if maskNaN then .masked else .nan
  | .str [] => if maskEmpty then .masked else .str []
  | v => v

def Table.mapCells (f : Val α → Val α) (t : Table α) : Table α :=
  ⟨t.cols.map (fun c => (c.1, c.2.map f))⟩

/-- the loop body of `table_to_source_list` for one row (REPAIRED: masked cells keep the default) -/
def rowStep (t : Table α) (i : Nat) (src : Src α) (param : Str) : Src α :=
  match t.col? param with
  | Option.none => src                                  -- `if param in table.colnames`
  | some col => match col.getD i .none with
    | .masked => src
    | v => src.set param v

def rowStepPinned (t : Table α) (i : Nat) (src : Src α) (param : Str) : Src α :=
  match t.col? param with
  | Option.none => src
  | some col => src.set param (col.getD i .none)

/-- `table_to_source_list(table, src_type)`; `dflt` is `src_type()` -/
def rebuild (names : List Str) (dflt : Src α) (t : Table α) (i : Nat) : Src α :=
  names.foldl (rowStep t i) dflt

def toSources (names : List Str) (dflt : Src α) (t : Table α) : List (Src α) :=
  (List.range t.nrows).map (rebuild names dflt t)

def toSourcesPinned (names : List Str) (dflt : Src α) (t : Table α) : List (Src α) :=
  (List.range t.nrows).map (fun i => names.foldl (rowStepPinned t i) dflt)

/-! ### sqlite writer (`writeDB`) -/

/-- `sqlTypes`: the declared column type, from the first row's Python type -/
def sqlType : Val α → Str
  | .bool _ => "BOOL".toList
  | .int _ => "INT".toList
  | .flt _ => "FLOAT".toList
  | .nan => "FLOAT".toList
  | _ => "VARCHAR".toList

/-- a Python object handed to `nulls`: a row (list) or a scalar -/
inductive PyObj (α : Type)
  | row (r : List (Val α))
  | scalar (v : Val α)

/-- `nulls(x)`: `None if x == -1 else x`; a list never equals -1 -/
def nulls (isMinusOne : α → Bool) : PyObj α → Option (PyObj α)
  | .scalar (.int i) => if i = -1 then Option.none else some (.scalar (.int i))
  | .scalar (.flt x) => if isMinusOne x then Option.none else some (.scalar (.flt x))
  | x => some x

/-- `src.as_list()` -/
def asList (names : List Str) (s : Src α) : List (Val α) := names.map s.get

def Kind.tableName : Kind → Str
  | .comp => "components".toList
  | .isle => "islands".toList
  | .simp => "simples".toList

structure DbTable (α : Type) where
  name : Str
  cols : List (Str × Str)            -- (column name, declared type)
  rows : List (List (Val α))
  deriving Repr, DecidableEq

def dbTable (isMinusOne : α → Bool) (k : Kind) (srcs : List (Src α)) : Option (DbTable α) :=
  match srcs with
  | [] => Option.none                                   -- "don't write empty tables"
  | first :: _ =>
    let names := namesOf k
    some { name := k.tableName
           cols := names.map (fun n => (n, sqlType (first.get n)))
           rows := (srcs.map (fun s => PyObj.row (asList names s))).filterMap (fun r =>
                     match nulls isMinusOne r with
                     | some (.row r) => some r
                     | _ => Option.none) }

/-- `writeDB`: one table per non-empty type, in the order components, islands, simples -/
def dbTables (isMinusOne : α → Bool) (cat : List (Src α)) : List (DbTable α) :=
  let c := classify cat
  [dbTable isMinusOne .comp c.1, dbTable isMinusOne .isle c.2.1, dbTable isMinusOne .simp c.2.2].filterMap id

/-! ### histories: successive writes to the same name -/

/-- `writeDB` on a file system: an existing database file is removed (`os.remove`) before the new
    one is created, so nothing of an earlier write survives.  `old` = tables of the file that was
    there (none: no file). -/
def writeDBFile (isMinusOne : α → Bool) (old : Option (List (DbTable α))) (cat : List (Src α)) :
    List (DbTable α) :=
  let kept : List (DbTable α) := match old with
    | some _ => []        -- os.remove(filename)
    | Option.none => []
  kept ++ dbTables isMinusOne cat

/-- a history of `save_catalog(name.db, ·)` calls on the same name, oldest first -/
def writeDBHistory (isMinusOne : α → Bool) (old : Option (List (DbTable α))) :
    List (List (Src α)) → Option (List (DbTable α))
  | [] => old
  | cat :: rest => writeDBHistory isMinusOne (some (writeDBFile isMinusOne old cat)) rest

/-- NOT the code: the "update in place" variant (keep the file, `DROP TABLE IF EXISTS` only for the
    tables that are written).  Kept for the negation witness: a table of a type that no longer
    occurs survives. -/
def writeDBInPlace (isMinusOne : α → Bool) (old : Option (List (DbTable α))) (cat : List (Src α)) :
    List (DbTable α) :=
  let new := dbTables isMinusOne cat
  ((old.getD []).filter (fun t => !(new.any (fun n => n.name == t.name)))) ++ new

/-- the per-type files on a file system: each written file replaces the file of that name, every
    other file is left alone (a `_isle` file of an earlier write is not touched by a write without
    islands — it is not an output of that write) -/
def fsWrite (fs : List (Str × Table α)) (outs : List (FileOut α)) : List (Str × Table α) :=
  outs.foldl (fun fs f => (f.name, f.table) :: fs.filter (fun e => e.1 != f.name)) fs

/-! ### glue for the regenerated decision tables (`Aegean/Generated/C18.lean`, written by the translator from
    the tree under test).  The regenerated functions are PARAMETERS here (the generated file may import this
    one for its `…Hand` fall-backs); `Properties/C18.lean` instantiates them with `Gen.C18.*`. -/

/-- class code handed to the regenerated `classifyWhich`: other 0, SimpleSource 1, IslandSource 2, ComponentSource 3.
    `Cls` is the library class an object is an INSTANCE of (`isinstance`): an instance of a user-defined subclass of
    ComponentSource has `cls = .component`.  That this abstraction is what the code does — subclass instances
    (codes 4, 5, 6 of the regenerated table) go where their base class goes — is the obligation
    `gen_classify_subclasses`; an exact-class dispatch (`type(x) is C`, a dict keyed on `x.__class__`) fails it. -/
def Cls.code : Cls → Nat
  | .other => 0 | .simple => 1 | .island => 2 | .component => 3

/-- python type tag handed to the regenerated `fitsLetter/fitsWidth/sqlCode`: bool 0, int 1, float 2, str 3, other 4 -/
def Val.tag : Val α → Nat
  | .bool _ => 0 | .int _ => 1 | .flt _ => 2 | .nan => 2 | .str _ => 3 | _ => 4

/-- numpy dtype kind code of a (unified) column: U 3; i 1; f 2; b 0; O 5 -/
def colKind (col : List (Val α)) : Nat :=
  if isStrCol col then 3
  else if col.isEmpty then 5
  else if col.all (fun v => v.tag == 1) then 1
  else if col.all (fun v => v.tag == 2) then 2
  else if col.all (fun v => v.tag == 0) then 0
  else 5

/-- TFORM from (ASCII code of the letter, repeat count) -/
def decodeFmt (letter width : Nat) : Option Fmt :=
  if letter = 76 then some .L else if letter = 74 then some .J else if letter = 69 then some .E
  else if letter = 65 then some (.A width) else Option.none

/-- `writeFITSTable`'s decision for one column, assembled from the regenerated table -/
def columnFmtG (letterF widthF : Nat → Nat → Nat → Nat → Nat → Nat → Nat) (name : Str) (col : List (Val α)) :
    Option Fmt :=
  let isErr := if errPrefix.isPrefixOf name then 1 else 0
  let isUuid := if name = uuidName then 1 else 0
  let first := col.head?.getD .none
  decodeFmt (letterF isErr isUuid (colKind col) (maxLen col) first.tag first.strLen)
            (widthF isErr isUuid (colKind col) (maxLen col) first.tag first.strLen)

def decodeSql (c : Nat) : Option Str :=
  if c = 0 then some "BOOL".toList else if c = 1 then some "INT".toList else if c = 2 then some "FLOAT".toList
  else if c = 3 then some "VARCHAR".toList else Option.none

def sqlTypeG (codeF : Nat → Nat) (v : Val α) : Option Str := decodeSql (codeF v.tag)

/-- one iteration of `classify_catalog`, driven by the regenerated table (1, 2, 3 = position in the returned tuple) -/
def classifyStepG (whichF : Nat → Nat) (acc : List (Src α) × List (Src α) × List (Src α)) (s : Src α) :
    List (Src α) × List (Src α) × List (Src α) :=
  let w := whichF s.cls.code
  if w = 1 then (acc.1 ++ [s], acc.2.1, acc.2.2)
  else if w = 2 then (acc.1, acc.2.1 ++ [s], acc.2.2)
  else if w = 3 then (acc.1, acc.2.1, acc.2.2 ++ [s])
  else acc

def classifyG (whichF : Nat → Nat) (cat : List (Src α)) : List (Src α) × List (Src α) × List (Src α) :=
  cat.foldl (classifyStepG whichF) ([], [], [])

/-! hand fall-backs (used by the generated file only when the slicer or translator reports UNTRANSLATABLE) -/

set_option linter.unusedVariables false

def fitsLetterHand (is_err is_uuid kind maxlen t vlen : Nat) : Nat :=
  if is_err = 1 then 69 else if kind = 3 ∨ kind = 4 then 65
  else if t = 0 then 76 else if t = 1 then 74 else if t = 2 then 69 else 65

def fitsWidthHand (is_err is_uuid kind maxlen t vlen : Nat) : Nat :=
  if is_err = 1 then 0 else if kind = 3 ∨ kind = 4 then max 1 maxlen
  else if t = 0 then 0 else if t = 1 then 0 else if t = 2 then 0 else if t = 3 then vlen else 5

def sqlCodeHand (t : Nat) : Nat := if t = 0 then 0 else if t = 1 then 1 else if t = 2 then 2 else 3

/-- class codes 4, 5, 6 = instance of a user-defined subclass of SimpleSource, IslandSource, ComponentSource -/
def classifyWhichHand (c : Nat) : Nat :=
  if c = 3 ∨ c = 6 then 1 else if c = 2 ∨ c = 5 then 2 else if c = 1 ∨ c = 4 then 3 else 0

end Aegean.Model.C18
