/-
  C16 — hand copies of the arithmetic leaves of `AegeanTools/wcs_helpers.py` (WCSHelper.sky2pix_vec,
  pix2sky_vec, sky2pix_ellipse, pix2sky_ellipse) and of `angle_tools.gcd / bear / translate`.

  These are the FALLBACK targets of the translator (translator/targets/C16.py): when a source function
  leaves the translator's whitelist, `Gen.C16.f` is defined as the hand copy below and only the
  correspondence ties it to the code.  They also contain the one leaf the translator can never produce
  (a tuple-valued expression): the offset point `(x + r cos θ°, y + r sin θ°)` of `pix2sky_vec` /
  `pix2sky_ellipse`.

  Mathlib-free; polymorphic in `[R α]`.
-/
import Aegean.Num

namespace Aegean.Model.C16Hand
variable {α : Type} [R α]

def idHand (x : α) : α := x

/-- `sep` of `angle_tools.gcd` (haversine) -/
def gcdSep (ra1 dec1 ra2 dec2 : α) : α :=
  R.degrees (R.ofNat 2 * R.asin (R.min (R.ofNat 1) (R.sqrt
    (R.npow (R.sin (R.radians (dec2 - dec1) / R.ofNat 2)) 2
      + R.cos (R.radians dec1) * R.cos (R.radians dec2)
        * R.npow (R.sin (R.radians (ra2 - ra1) / R.ofNat 2)) 2))))

/-- `angle_tools.bear` -/
def bear (ra1 dec1 ra2 dec2 : α) : α :=
  R.degrees (R.atan2
    (R.sin (R.radians (ra2 - ra1)) * R.cos (R.radians dec2))
    (R.cos (R.radians dec1) * R.sin (R.radians dec2)
      - R.sin (R.radians dec1) * R.cos (R.radians dec2) * R.cos (R.radians (ra2 - ra1))))

/-- `dec_out` of `angle_tools.translate` -/
def translateDec (_ra dec r theta : α) : α :=
  R.degrees (R.asin (R.sin (R.radians dec) * R.cos (R.radians r)
    + R.cos (R.radians dec) * R.sin (R.radians r) * R.cos (R.radians theta)))

/-- `ra_out` of `angle_tools.translate` -/
def translateRa (ra dec r theta : α) : α :=
  ra + R.degrees (R.atan2
    (R.sin (R.radians theta) * R.sin (R.radians r) * R.cos (R.radians dec))
    (R.cos (R.radians r) - R.sin (R.radians dec) * R.sin (R.radians (translateDec ra dec r theta))))

/-! ### sky2pix_vec -/
def s2pVecLen (x y x_off y_off : α) : α := R.sqrt (R.npow (x - x_off) 2 + R.npow (y - y_off) 2)
def s2pVecAng (x y x_off y_off : α) : α := R.degrees (R.atan2 (y_off - y) (x_off - x))

/-! ### sky2pix_ellipse -/
def s2pEllSx (x y x_off y_off : α) : α := R.hypot (x - x_off) (y - y_off)
def s2pEllAng (x y x_off y_off : α) : α := R.degrees (R.atan2 (y_off - y) (x_off - x))
def s2pEllSy (pi x y x_off y_off x_off2 y_off2 : α) : α :=
  R.hypot (x - x_off2) (y - y_off2)
    * R.abs (R.cos (R.atan2 (y_off - y) (x_off - x) - (R.atan2 (y_off2 - y) (x_off2 - x) - pi / R.ofNat 2)))

/-! ### pix2sky_ellipse / pix2sky_vec (sky side) -/
def p2sEllMajor (ra dec ra2 dec2 : α) : α := gcdSep ra dec ra2 dec2
def p2sEllPa (ra dec ra2 dec2 : α) : α := bear ra dec ra2 dec2
def p2sEllMinor (ra dec ra2 dec2 ra3 dec3 : α) : α :=
  gcdSep ra dec ra3 dec3
    * R.abs (R.cos (R.radians (bear ra dec ra2 dec2 - (bear ra dec ra3 dec3 - R.ofNat 90))))
def p2sVecLen (ra dec ra2 dec2 : α) : α := gcdSep ra dec ra2 dec2
def p2sVecPa (ra dec ra2 dec2 : α) : α := bear ra dec ra2 dec2

/-! ### the offset point of `pix2sky_vec` / `pix2sky_ellipse` (tuple-valued: hand model only)
    `(x + r * np.cos(np.radians(theta)), y + r * np.sin(np.radians(theta)))` -/
def offX (x r theta : α) : α := x + r * R.cos (R.radians theta)
def offY (y r theta : α) : α := y + r * R.sin (R.radians theta)

/-! ### plumbing around the WCS calls (fallbacks of the regenerated pieces of the deepening round) -/

/-- `pix2sky((x, y))` hands `[[y, x]]` to the WCS: FITS axis 1 gets the caller's SECOND coordinate … -/
def pix2skyP1 (_pixel_0 pixel_1 : α) : α := pixel_1
/-- … and FITS axis 2 the FIRST -/
def pix2skyP2 (pixel_0 _pixel_1 : α) : α := pixel_0
/-- the `origin` argument of `all_pix2world` in pix2sky -/
def pix2skyOrigin : α := R.ofNat 1
/-- `sky2pix` returns `[pixel[0][1], pixel[0][0]]` -/
def sky2pixX (_w2p_0 w2p_1 : α) : α := w2p_1
def sky2pixY (w2p_0 _w2p_1 : α) : α := w2p_0
/-- the `origin` argument of `all_world2pix` in sky2pix -/
def sky2pixOrigin : α := R.ofNat 1

/-- 1 = every pixel<->world call of the method goes through astropy's `all_*` entry point (the header's full WCS) -/
def pix2skyEntryAll : α := R.ofNat 1
def sky2pixEntryAll : α := R.ofNat 1

def p2sVecOffX (pixel_0 _pixel_1 r theta : α) : α := offX pixel_0 r theta
def p2sVecOffY (_pixel_0 pixel_1 r theta : α) : α := offY pixel_1 r theta
def p2sEllOff1X (pixel_0 _pixel_1 sx _sy theta : α) : α := offX pixel_0 sx theta
def p2sEllOff1Y (_pixel_0 pixel_1 sx _sy theta : α) : α := offY pixel_1 sx theta
def p2sEllOff2X (pixel_0 _pixel_1 _sx sy theta : α) : α := offX pixel_0 sy (theta - R.ofNat 90)
def p2sEllOff2Y (_pixel_0 pixel_1 _sx sy theta : α) : α := offY pixel_1 sy (theta - R.ofNat 90)

end Aegean.Model.C16Hand
